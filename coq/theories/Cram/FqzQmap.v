(* fqzcomp decoder feature HAVE_QMAP (parameter flag 0x10), a decoder-only feature: noodles' encoder
   never sets it, the decoder (noodles-cram/src/codecs/fqzcomp/decode.rs + parameters/parameter.rs)
   reads `max_symbol` verbatim bytes after the seven fixed bytes of the parameter block
   (read_quality_map: split_at_checked, short = UnexpectedEof) and stores map[q] instead of the
   decoded symbol q (q outside the map = InvalidData, returned at once); the contexts are updated
   with the UNMAPPED symbol q.

     fqz_dec_loop_qm / fqz_decode_qm   the decoder of Fqz.v with that feature (everything else as there)
     qm_lookup / qm_map_all / qm_post  the specification: the map applied to the plain symbol stream  *)
From Coq Require Import List NArith Bool PeanoNat.
From NV Require Import Cram.Bytes Cram.Vlq Cram.Rans4x8 Cram.Nx16Xform Cram.Nx16O0 Cram.Aac Cram.Fqz.
Import ListNotations.
Open Scope N_scope.

(* param.quality_map(): Some(map) => map.get(q), None => q *)
Definition qm_lookup (qmap : option (list N)) (q : N) : option N :=
  match qmap with
  | None => Some q
  | Some m => nth_error m (N.to_nat q)
  end.

Fixpoint qm_map_all (qmap : option (list N)) (out : list N) : option (list N) :=
  match out with
  | [] => Some []
  | q :: r =>
    match qm_lookup qmap q with
    | None => None
    | Some v =>
      match qm_map_all qmap r with
      | None => None
      | Some o => Some (v :: o)
      end
    end
  end.

Definition qm_post (qmap : option (list N)) (r : res (list N)) : res (list N) :=
  match r with
  | ROk out => match qm_map_all qmap out with Some o => ROk o | None => RErr end
  | RErr => RErr
  | RPanic => RPanic
  end.

(* the loop of decode with `dst[i] = match param.quality_map() { .. }` *)
Fixpoint fqz_dec_loop_qm (k : nat) (pr : fqz_param) (qmap : option (list N)) (ms : fqz_models)
  (st : rc_dec) (first : bool) (pos last_len ctx q_ctx : N) (bs : list N) : res (list N) :=
  match k with
  | O => ROk []
  | S k' =>
    match (if pos =? 0 then
             match (if negb (p_fixed_len pr) || first then dec_length (fq_len ms) st bs
                    else ROk (fq_len ms, st, last_len, bs)) with
             | ROk (ls', st1, len, b1) =>
               if (len =? 0) || (N.of_nat k <? len) then RErr
               else ROk (ls', st1, b1, len, len, p_context pr, 0)
             | RErr => RErr
             | RPanic => RPanic
             end
           else ROk (fq_len ms, st, bs, pos, last_len, ctx, q_ctx)) with
    | ROk (ls', st1, b1, pos1, last_len1, ctx1, q_ctx1) =>
      let m := qual_get (fq_qual ms) (fq_dflt ms) ctx1 in
      match model_decode m st1 b1 with
      | ROk (m', st2, q, b2) =>
        match qm_lookup qmap q with
        | None => RErr
        | Some v =>
          let '(q_ctx2, ctx2) := fqz_ctx pr q_ctx1 q pos1 in
          let ms' := {| fq_qual := qual_set (fq_qual ms) ctx1 m'; fq_dflt := fq_dflt ms; fq_len := ls' |} in
          match fqz_dec_loop_qm k' pr qmap ms' st2 false (pos1 - 1) last_len1 ctx2 q_ctx2 b2 with
          | ROk out => ROk (v :: out)
          | RErr => RErr
          | RPanic => RPanic
          end
        end
      | RErr => RErr
      | RPanic => RPanic
      end
    | RErr => RErr
    | RPanic => RPanic
    end
  end.

(* read_quality_map *)
Definition read_qmap (pfl maxsym : N) (bs : list N) : option (option (list N) * list N) :=
  if (pfl / 16) mod 2 =? 0 then Some (None, bs)
  else match split_off bs (N.to_nat maxsym) with
       | Some (m, r) => Some (Some m, r)
       | None => None
       end.

(* fqzcomp::decode with HAVE_QMAP; the other decoder-only features still answer FUnsupported *)
Definition fqz_decode_qm (bs : list N) : fqzd_result :=
  match read_uint7 bs with
  | U7Ok size b0 =>
    match b0 with
    | ver :: gfl :: b1 =>
      if negb (ver =? 5) then FErr
      else if negb (gfl mod 8 =? 0) then FUnsupported
      else
        match b1 with
        | c0 :: c1 :: pfl :: maxsym :: qq :: qs :: pd :: b2 =>
          (* DO_DEDUP 0x02, DO_SEL 0x08, HAVE_DTAB 0x40, HAVE_QTAB 0x80 *)
          if negb ((pfl / 2) mod 2 =? 0) || negb ((pfl / 8) mod 2 =? 0)
             || negb ((pfl / 64) mod 2 =? 0) || negb ((pfl / 128) mod 2 =? 0) then FUnsupported
          else
            match read_qmap pfl maxsym b2 with
            | None => FErr
            | Some (qmap, b2') =>
              match (if (pfl / 32) mod 2 =? 0 then Some (None, b2')
                     else match read_array b2' 1024 with
                          | Some (t, r) => Some (Some t, r)
                          | None => None
                          end) with
              | None => FErr
              | Some (ptab, b3) =>
                let pr := {| p_context := c0 + 256 * c1; p_fixed_len := negb ((pfl / 4) mod 2 =? 0);
                             p_qbits := qq / 16; p_qshift := qq mod 16; p_qloc := qs / 16;
                             p_ploc := pd / 16; p_ptab := ptab |} in
                match rc_dec_new b3 with
                | None => FErr
                | Some (st, b4) =>
                  match fqz_dec_loop_qm (N.to_nat size) pr qmap (fqz_models_new (S (N.to_nat maxsym))) st true
                                        0 0 0 0 b4 with
                  | ROk out => FOk out
                  | RErr => FErr
                  | RPanic => FPanic
                  end
                end
              end
            end
        | _ => FErr
        end
    | _ => FErr
    end
  | _ => FErr
  end.
