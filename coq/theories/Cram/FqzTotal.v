(* TOTALITY of the fqzcomp quality decoder model: on EVERY byte string the model of noodles'
   fqzcomp::decode (NV.Cram.Fqz.fqz_decode) answers bytes, an io::Error or "unsupported"; the panics
   of an overflow-checked build that the model writes out (everything Model::decode can do, see
   NV.Cram.AacTotal, and the index into the four length models) are unreachable.

     models   every model in the sparse quality map is fine (model_ok), and so is the default
              (max_sym is a byte: 1..256 symbols), so the model of EVERY context is fine; the four
              length models stay four fine models;
     coder    rc_ok as in NV.Cram.AacTotal;
     input    read_uint7, the fixed header bytes, read_array and RangeCoder::new hand on a suffix of
              their input, so the rest is still bytes. *)
From Coq Require Import List NArith ZArith Lia Bool PeanoNat.
From Coq Require Import ZifyBool ZifyNat ZifyN.
From NV Require Import Cram.Bytes Cram.Vlq Cram.IntProofs Cram.Rans4x8 Cram.Rans4x8Proofs
  Cram.Nx16Xform Cram.Nx16XformProofs Cram.Nx16O0 Cram.Nx16O0Total Cram.Aac Cram.AacTotal Cram.Fqz.
Import ListNotations.
Ltac Zify.zify_post_hook ::= Z.div_mod_to_equations.
Open Scope N_scope.
Arguments N.add : simpl never.
Arguments N.sub : simpl never.
Arguments N.mul : simpl never.
Arguments N.div : simpl never.
Arguments N.modulo : simpl never.
Arguments N.pow : simpl never.
Arguments N.ltb : simpl never.
Arguments N.leb : simpl never.
Arguments N.eqb : simpl never.

Notation byte := (fun b : N => b < 256).

(* ---------- read_array hands on a suffix ---------- *)

Lemma rd_runs_rest (P : N -> Prop) : forall fuel bs z n last runs r,
  rd_runs fuel bs z n last = Some (runs, r) -> Forall P bs -> Forall P r.
Proof.
  induction fuel as [|fu IH]; intros bs z n last runs r H HP; cbn [rd_runs] in H; [discriminate|].
  destruct (n <=? z); [inversion H; subst; exact HP|].
  destruct bs as [|run b1]; [discriminate|].
  pose proof (Forall_inv_tail HP) as H1.
  destruct (run =? last).
  - destruct b1 as [|copy b2]; [discriminate|].
    destruct (rd_runs fu b2 (z + run + run * copy) n run) as [[l r']|] eqn:E; [|discriminate].
    inversion H; subst. eapply IH; [exact E|exact (Forall_inv_tail H1)].
  - destruct (rd_runs fu b1 (z + run) n run) as [[l r']|] eqn:E; [|discriminate].
    inversion H; subst. eapply IH; [exact E|exact H1].
Qed.

Lemma read_array_rest (P : N -> Prop) bs n a r :
  read_array bs n = Some (a, r) -> Forall P bs -> Forall P r.
Proof.
  unfold read_array. intros H HP.
  destruct (rd_runs (S (length bs)) bs 0 (N.of_nat n) 0) as [[runs rest]|] eqn:E; [|discriminate].
  destruct (fill_runs (S (length runs)) runs 0 0 (N.of_nat n)) as [a'|]; [|discriminate].
  inversion H; subst. eapply rd_runs_rest; [exact E|exact HP].
Qed.

(* ---------- lists of models ---------- *)

Section Lists.
Variable A : Type.
Variable Q : A -> Prop.

Lemma firstn_Forall_g : forall n (l : list A), Forall Q l -> Forall Q (firstn n l).
Proof.
  induction n as [|n IH]; intros l HQ; [constructor|].
  destruct l as [|x t]; [constructor|]. cbn [firstn].
  constructor; [exact (Forall_inv HQ)|]. apply IH. exact (Forall_inv_tail HQ).
Qed.

Lemma skipn_Forall_g : forall n (l : list A), Forall Q l -> Forall Q (skipn n l).
Proof.
  induction n as [|n IH]; intros l HQ; [exact HQ|].
  destruct l as [|x t]; [constructor|]. cbn [skipn]. apply IH. exact (Forall_inv_tail HQ).
Qed.

Lemma nth_error_Forall_g l i x : Forall Q l -> nth_error l i = Some x -> Q x.
Proof.
  intros H E. rewrite Forall_forall in H. apply H. eapply nth_error_In. exact E.
Qed.

Lemma replace_length : forall i (l : list A) x,
  (i < length l)%nat -> length (firstn i l ++ x :: skipn (S i) l) = length l.
Proof.
  intros i l x Hi. rewrite app_length. cbn [length]. rewrite firstn_length, skipn_length. lia.
Qed.

End Lists.

(* ---------- the sparse quality-model map ---------- *)

Definition quals_ok (qs : list (N * aac_model)) : Prop := Forall (fun p => model_ok (snd p)) qs.

Lemma qual_get_ok : forall qs d ctx, quals_ok qs -> model_ok d -> model_ok (qual_get qs d ctx).
Proof.
  unfold quals_ok. induction qs as [|[c m] r IH]; intros d ctx Hq Hd; cbn [qual_get]; [exact Hd|].
  destruct (c =? ctx).
  - exact (Forall_inv Hq).
  - apply IH; [exact (Forall_inv_tail Hq)|exact Hd].
Qed.

Lemma qual_set_ok : forall qs ctx m, quals_ok qs -> model_ok m -> quals_ok (qual_set qs ctx m).
Proof.
  unfold quals_ok. induction qs as [|[c m0] r IH]; intros ctx m Hq Hm; cbn [qual_set].
  - constructor; [exact Hm|constructor].
  - destruct (c =? ctx); constructor.
    + exact Hm.
    + exact (Forall_inv_tail Hq).
    + exact (Forall_inv Hq).
    + apply IH; [exact (Forall_inv_tail Hq)|exact Hm].
Qed.

Definition fqz_ok (ms : fqz_models) : Prop :=
  quals_ok (fq_qual ms) /\ model_ok (fq_dflt ms) /\ Forall model_ok (fq_len ms) /\
  length (fq_len ms) = 4%nat.

Lemma fqz_models_new_ok n : (1 <= n <= 256)%nat -> fqz_ok (fqz_models_new n).
Proof.
  intros Hn. unfold fqz_ok, fqz_models_new. cbn [fq_qual fq_dflt fq_len].
  split; [constructor|]. split; [apply model_new_ok; exact Hn|].
  assert (H256 : model_ok (model_new 256)) by (apply model_new_ok; lia).
  split; [|reflexivity]. cbn [repeat]. repeat (constructor; [exact H256|]). constructor.
Qed.

(* ---------- the record length ---------- *)

Lemma dec_byte_ok ls st i bs :
  Forall model_ok ls -> (i < length ls)%nat -> rc_ok st -> Forall byte bs ->
  dec_byte ls st i bs <> RPanic /\
  forall ls' st' b bs', dec_byte ls st i bs = ROk (ls', st', b, bs') ->
    Forall model_ok ls' /\ length ls' = length ls /\ rc_ok st' /\ Forall byte bs'.
Proof.
  intros Hls Hi Hst HP. unfold dec_byte.
  destruct (nth_error ls i) as [m|] eqn:EN; [|apply nth_error_None in EN; exfalso; lia].
  pose proof (nth_error_Forall_g _ _ _ _ _ Hls EN) as Hm.
  destruct (model_decode_ok m st bs Hm Hst HP) as [Hnp Hok].
  destruct (model_decode m st bs) as [[[[m' st1] b1] bs1]| |] eqn:E.
  - split; [discriminate|]. intros ls' st' b bs' H. inversion H; subst ls' st' b bs'.
    destruct (Hok _ _ _ _ eq_refl) as (Hm' & Hst1 & HP1).
    split.
    { apply Forall_app. split; [apply firstn_Forall_g; exact Hls|].
      constructor; [exact Hm'|exact (skipn_Forall_g _ _ (S i) ls Hls)]. }
    split; [exact (replace_length _ model_ok i ls m' Hi)|]. split; [exact Hst1|exact HP1].
  - split; [discriminate|]. intros ls' st' b bs' H. discriminate.
  - exfalso. apply Hnp. reflexivity.
Qed.

Lemma dec_length_ok ls st bs :
  Forall model_ok ls -> length ls = 4%nat -> rc_ok st -> Forall byte bs ->
  dec_length ls st bs <> RPanic /\
  forall ls' st' len bs', dec_length ls st bs = ROk (ls', st', len, bs') ->
    Forall model_ok ls' /\ length ls' = 4%nat /\ rc_ok st' /\ Forall byte bs'.
Proof.
  intros Hls Hlen Hst HP. unfold dec_length.
  assert (Hi0 : (0 < length ls)%nat) by lia.
  destruct (dec_byte_ok ls st 0 bs Hls Hi0 Hst HP) as [Hnp0 Hok0].
  destruct (dec_byte ls st 0 bs) as [[[[l1 s1] b0] r1]| |] eqn:E0;
    [|split; [discriminate|intros ls' st' len bs' H; discriminate]|exfalso; apply Hnp0; reflexivity].
  destruct (Hok0 _ _ _ _ eq_refl) as (Hl1 & Hn1 & Hs1 & Hr1).
  assert (Hi1 : (1 < length l1)%nat) by lia.
  destruct (dec_byte_ok l1 s1 1 r1 Hl1 Hi1 Hs1 Hr1) as [Hnp1 Hok1].
  destruct (dec_byte l1 s1 1 r1) as [[[[l2 s2] b1] r2]| |] eqn:E1;
    [|split; [discriminate|intros ls' st' len bs' H; discriminate]|exfalso; apply Hnp1; reflexivity].
  destruct (Hok1 _ _ _ _ eq_refl) as (Hl2 & Hn2 & Hs2 & Hr2).
  assert (Hi2 : (2 < length l2)%nat) by lia.
  destruct (dec_byte_ok l2 s2 2 r2 Hl2 Hi2 Hs2 Hr2) as [Hnp2 Hok2].
  destruct (dec_byte l2 s2 2 r2) as [[[[l3 s3] b2] r3]| |] eqn:E2;
    [|split; [discriminate|intros ls' st' len bs' H; discriminate]|exfalso; apply Hnp2; reflexivity].
  destruct (Hok2 _ _ _ _ eq_refl) as (Hl3 & Hn3 & Hs3 & Hr3).
  assert (Hi3 : (3 < length l3)%nat) by lia.
  destruct (dec_byte_ok l3 s3 3 r3 Hl3 Hi3 Hs3 Hr3) as [Hnp3 Hok3].
  destruct (dec_byte l3 s3 3 r3) as [[[[l4 s4] b3] r4]| |] eqn:E3;
    [|split; [discriminate|intros ls' st' len bs' H; discriminate]|exfalso; apply Hnp3; reflexivity].
  destruct (Hok3 _ _ _ _ eq_refl) as (Hl4 & Hn4 & Hs4 & Hr4).
  split; [discriminate|]. intros ls' st' len bs' H. inversion H; subst ls' st' len bs'.
  split; [exact Hl4|]. split; [lia|]. split; [exact Hs4|exact Hr4].
Qed.

(* ---------- the quality loop ---------- *)

Definition loop_np (k : nat) : Prop :=
  forall pr ms st first pos last_len ctx q_ctx bs,
    fqz_ok ms -> rc_ok st -> Forall byte bs ->
    fqz_dec_loop k pr ms st first pos last_len ctx q_ctx bs <> RPanic.

(* one quality in the model of its context, then the rest of the loop *)
Lemma loop_tail k' (IH : loop_np k') pr ms ls' st1 b1 pos1 last_len1 ctx1 q_ctx1 :
  fqz_ok ms -> Forall model_ok ls' -> length ls' = 4%nat -> rc_ok st1 -> Forall byte b1 ->
  match model_decode (qual_get (fq_qual ms) (fq_dflt ms) ctx1) st1 b1 with
  | ROk (m', st2, q, b2) =>
    let '(q_ctx2, ctx2) := fqz_ctx pr q_ctx1 q pos1 in
    match fqz_dec_loop k' pr {| fq_qual := qual_set (fq_qual ms) ctx1 m'; fq_dflt := fq_dflt ms;
                                fq_len := ls' |} st2 false (pos1 - 1) last_len1 ctx2 q_ctx2 b2 with
    | ROk out => ROk (q :: out)
    | e => e
    end
  | RErr => RErr
  | RPanic => RPanic
  end <> RPanic.
Proof.
  intros (Hq & Hd & Hl & Hn) Hls' Hlen' Hst1 Hb1.
  pose proof (qual_get_ok (fq_qual ms) (fq_dflt ms) ctx1 Hq Hd) as Hm.
  destruct (model_decode_ok _ st1 b1 Hm Hst1 Hb1) as [Hnp Hok].
  destruct (model_decode (qual_get (fq_qual ms) (fq_dflt ms) ctx1) st1 b1)
    as [[[[m' st2] q] b2]| |] eqn:E; [|discriminate|exfalso; apply Hnp; reflexivity].
  destruct (Hok _ _ _ _ eq_refl) as (Hm' & Hst2 & Hb2).
  destruct (fqz_ctx pr q_ctx1 q pos1) as [q_ctx2 ctx2].
  match goal with |- match ?X with ROk _ => _ | RErr => _ | RPanic => _ end <> _ =>
    assert (Hnp2 : X <> RPanic); [|destruct X; [discriminate|discriminate|exact Hnp2]] end.
  apply IH; [|exact Hst2|exact Hb2].
  unfold fqz_ok. cbn [fq_qual fq_dflt fq_len].
  split; [apply qual_set_ok; [exact Hq|exact Hm']|]. split; [exact Hd|]. split; [exact Hls'|exact Hlen'].
Qed.

Lemma fqz_dec_loop_never_panics : forall k, loop_np k.
Proof.
  induction k as [|k' IH]; intros pr ms st first pos last_len ctx q_ctx bs Hms Hst HP;
    cbn [fqz_dec_loop]; [discriminate|].
  pose proof Hms as Hms0. destruct Hms0 as (Hq & Hd & Hl & Hn).
  destruct (pos =? 0).
  - destruct (negb (p_fixed_len pr) || first).
    + destruct (dec_length_ok (fq_len ms) st bs Hl Hn Hst HP) as [Hnp Hok].
      destruct (dec_length (fq_len ms) st bs) as [[[[ls' st1] len] b1]| |] eqn:E;
        [|discriminate|exfalso; apply Hnp; reflexivity].
      destruct (Hok _ _ _ _ eq_refl) as (Hls' & Hlen' & Hst1 & Hb1).
      destruct ((len =? 0) || (N.of_nat (S k') <? len)); [discriminate|].
      apply (loop_tail k' IH); assumption.
    + destruct ((last_len =? 0) || (N.of_nat (S k') <? last_len)); [discriminate|].
      apply (loop_tail k' IH); assumption.
  - apply (loop_tail k' IH); assumption.
Qed.

(* ---------- fqzcomp::decode ---------- *)

(* For EVERY byte string the model of noodles' fqzcomp decoder returns bytes, an io::Error or
   "unsupported": Model::decode never divides by zero, never leaves its table or u32, and the four
   length models are always there. *)
Theorem fqz_decode_never_panics : forall bs,
  Forall (fun b => b < 256) bs -> fqz_decode bs <> FPanic.
Proof.
  intros bs HP. unfold fqz_decode.
  destruct (read_uint7 bs) as [size b0| |] eqn:EU; try discriminate.
  pose proof (read_uint7_rest _ _ _ _ EU HP) as HP0.
  destruct b0 as [|ver [|gfl b1]]; try discriminate.
  pose proof (Forall_inv_tail (Forall_inv_tail HP0)) as HP1.
  destruct (negb (ver =? 5)); [discriminate|].
  destruct (negb (gfl mod 8 =? 0)); [discriminate|].
  destruct b1 as [|c0 [|c1 [|pfl [|maxsym [|qq [|qs [|pd b2]]]]]]]; try discriminate.
  pose proof (Forall_inv_tail (Forall_inv_tail (Forall_inv_tail HP1))) as HPm.
  pose proof (Forall_inv HPm) as Hmax. cbv beta in Hmax.
  pose proof (Forall_inv_tail (Forall_inv_tail (Forall_inv_tail (Forall_inv_tail HPm)))) as HP2.
  match goal with |- (if ?c then _ else _) <> _ => destruct c; [discriminate|] end.
  match goal with |- match ?X with Some _ => _ | None => _ end <> _ =>
    destruct X as [[ptab b3]|] eqn:EA; [|discriminate] end.
  assert (HP3 : Forall byte b3).
  { destruct ((pfl / 32) mod 2 =? 0).
    - inversion EA; subst. exact HP2.
    - destruct (read_array b2 1024) as [[t r]|] eqn:ER; [|discriminate].
      inversion EA; subst. eapply read_array_rest; [exact ER|exact HP2]. }
  cbv zeta.
  destruct (rc_dec_new b3) as [[st b4]|] eqn:ERC; [|discriminate].
  destruct (rc_dec_new_ok _ _ _ HP3 ERC) as [Hst HP4].
  match goal with |- match ?X with ROk _ => _ | RErr => _ | RPanic => _ end <> _ =>
    assert (Hnp : X <> RPanic); [|destruct X; [discriminate|discriminate|exfalso; apply Hnp; reflexivity]] end.
  apply fqz_dec_loop_never_panics; [|exact Hst|exact HP4].
  apply fqz_models_new_ok. lia.
Qed.

Print Assumptions fqz_decode_never_panics.
