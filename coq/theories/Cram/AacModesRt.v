(* CRAM 3.1 adaptive arithmetic coder (NV.Cram.Aac, NV.Cram.AacModes):

     aac_o0_encode_len   the order-0 stream is at most 4 * length src + 6 bytes (one byte per shift,
                         at most four shifts per symbol, five at the end, the count byte)
     event_spec          ONE coded event: in any good encoder configuration a good model codes a
                         symbol it contains, and for every final stream that nests for the next
                         configuration the decoder's Model::decode returns that symbol, the same
                         updated model, and follows the encoder
     ctx_spec            the same for a vector of models and a context
     aac_o1_roundtrip    ORDER 1: decode (encode x) = x                                            *)
From Coq Require Import List NArith ZArith Lia Bool PeanoNat.
From Coq Require Import ZifyBool ZifyNat ZifyN.
From NV Require Import Cram.Bytes Cram.Vlq Cram.Rans4x8 Cram.Nx16Xform Cram.Nx16O0 Cram.Aac
  Cram.AacRange Cram.AacProofs Cram.AacModes.
Import ListNotations.
Ltac Zify.zify_post_hook ::= Z.div_mod_to_equations.
Open Scope N_scope.
Arguments N.add : simpl never.
Arguments N.sub : simpl never.
Arguments N.mul : simpl never.
Arguments N.div : simpl never.
Arguments N.modulo : simpl never.
Arguments N.pow : simpl never.
Arguments N.ltb : simpl never.
Arguments N.leb : simpl never.
Arguments N.eqb : simpl never.

(* ---------- the length of the stream: one byte per shift ---------- *)

Lemma shift_nsh : forall st out st' em, shift_low st = (st', em) ->
  nsh st' (out ++ em) = S (nsh st out).
Proof.
  intros [rng low carry cache ff] out st' em Hsh. unfold shift_low in Hsh.
  cbn [e_range e_low e_carry e_cache e_ffnum] in Hsh. unfold nsh.
  destruct ((low <? 4278190080) || carry); injection Hsh as Hst Hem; subst st' em;
    cbn [e_ffnum]; rewrite app_length; cbn [length]; [rewrite repeat_length|]; lia.
Qed.

Lemma norm_nsh : forall fuel st out st' o, enc_normalize fuel st = (st', o) ->
  (nsh st' (out ++ o) <= nsh st out + fuel)%nat.
Proof.
  induction fuel as [|fu IH]; intros st out st' o Hn.
  - change (enc_normalize 0 st) with (st, @nil N) in Hn. injection Hn as Hst Ho. subst st' o.
    rewrite app_nil_r. lia.
  - rewrite enc_normalize_S in Hn. destruct (e_range st <? 16777216).
    + destruct (shift_low (with_range st ((e_range st * 256) mod 4294967296))) as [st1 o1] eqn:Esh.
      destruct (enc_normalize fu st1) as [st2 o2] eqn:En. injection Hn as Hst Ho. subst st' o.
      pose proof (shift_nsh _ out _ _ Esh) as H1. rewrite nsh_with_range in H1.
      pose proof (IH st1 (out ++ o1) st2 o2 En) as H2. rewrite <- app_assoc in H2. lia.
    + injection Hn as Hst Ho. subst st' o. rewrite app_nil_r. lia.
Qed.

Lemma model_encode_nsh : forall m st out sym m' st' o, model_encode m st sym = Some (m', st', o) ->
  (nsh st' (out ++ o) <= nsh st out + 4)%nat.
Proof.
  intros m st out sym m' st' o H. unfold model_encode in H.
  destruct (find_sym (m_tab m) sym 0 0) as [[[x acc] f]|]; [|discriminate H].
  rewrite rc_encode_eq in H.
  destruct (m_tot m =? 0); [discriminate H|].
  destruct ((4294967296 <=? acc * (e_range st / m_tot m)) || (4294967296 <=? e_range st / m_tot m * f));
    [discriminate H|].
  destruct (enc_normalize 4 (enc_mid st (acc * (e_range st / m_tot m)) (e_range st / m_tot m * f)))
    as [st2 o2] eqn:En.
  injection H as Hm Hst Ho. subst m' st' o.
  apply (norm_nsh 4 _ out) in En. exact En.
Qed.

Lemma end_len : forall k st out, (length (out ++ rc_encode_end k st) <= nsh st out + k)%nat.
Proof.
  induction k as [|k IH]; intros st out.
  - change (rc_encode_end 0 st) with (@nil N). rewrite app_nil_r. unfold nsh. lia.
  - rewrite rc_encode_end_S. destruct (shift_low st) as [st1 em] eqn:Esh.
    pose proof (shift_nsh st out st1 em Esh) as H1. cbv beta iota. rewrite app_assoc.
    pose proof (IH st1 (out ++ em)) as H2. lia.
Qed.

Lemma enc0_loop_len : forall src m st out rest, enc0_loop m st src = Some rest ->
  (length (out ++ rest) <= nsh st out + 4 * length src + 5)%nat.
Proof.
  induction src as [|x src IH]; intros m st out rest H.
  - assert (Hr : rest = rc_encode_end 5 st) by (injection H as Hr; symmetry; exact Hr).
    clear H. subst rest. pose proof (end_len 5 st out) as H5.
    change (length (@nil N)) with 0%nat. lia.
  - change (enc0_loop m st (x :: src)) with
      (match model_encode m st x with
       | None => None
       | Some (m', st', o) => match enc0_loop m' st' src with None => None | Some r => Some (o ++ r) end
       end) in H.
    destruct (model_encode m st x) as [[[m' st'] o]|] eqn:Em; [|discriminate H].
    destruct (enc0_loop m' st' src) as [r|] eqn:El; [|discriminate H].
    injection H as Hr. subst rest.
    pose proof (model_encode_nsh m st out x m' st' o Em) as H1.
    pose proof (IH m' st' (out ++ o) r El) as H2. rewrite <- app_assoc in H2. cbn [length]. lia.
Qed.

Theorem aac_o0_encode_len6 : forall src body, aac_o0_encode src = Some body ->
  (length body <= 4 * length src + 6)%nat.
Proof.
  intros src body H. unfold aac_o0_encode in H.
  destruct (enc0_loop (model_new (S (N.to_nat (max_sym src)))) rc_enc_init src) as [rest|] eqn:El;
    [|discriminate H].
  injection H as Hb. subst body.
  pose proof (enc0_loop_len src _ rc_enc_init [] rest El) as H1.
  change (nsh rc_enc_init []) with 0%nat in H1. cbn [app] in H1. cbn [length]. lia.
Qed.

Theorem aac_o0_encode_len : forall src body, aac_o0_encode src = Some body ->
  (length body <= 4 * length src + 7)%nat.
Proof. intros src body H. pose proof (aac_o0_encode_len6 src body H). lia. Qed.

(* ---------- one coded event ---------- *)

Lemma event_spec : forall m st out sym,
  enc_ok st out -> mdl_ok m -> In sym (map fst (m_tab m)) ->
  exists idx st' o, (idx < length (m_tab m))%nat /\
    model_encode m st sym = Some (model_update m idx, st', o) /\ enc_ok st' (out ++ o) /\
    forall W, Forall (fun b => b < 256) W -> nest W st' (out ++ o) (e_range st') ->
      nest W st out (e_range st) /\
      forall tail dst bs, dec_follows W tail st out dst bs ->
        exists dst' bs', model_decode m dst bs = ROk (model_update m idx, dst', sym, bs') /\
                         dec_follows W tail st' (out ++ o) dst' bs'.
Proof.
  intros m st out x Hok Hm Hin.
  pose proof Hm as (HL & HT & HT2 & HP).
  destruct (find_sym_spec (m_tab m) x 0 0 Hin HP) as (idx & acc & f & Hfs & Hidx & Hf & Hsum & _ & Hff).
  rewrite HT in Hsum.
  destruct (encode_spec st out acc f (m_tot m) Hok Hf ltac:(lia) HT2) as (st' & o & Henc & Hok' & Hdec).
  exists idx, st', o. split; [lia|]. split.
  { unfold model_encode. rewrite Hfs, Henc. reflexivity. }
  split; [exact Hok'|].
  intros W HF Hnest. destruct (Hdec W HF Hnest) as (Hnest0 & Hdec0).
  split; [exact Hnest0|].
  intros tail dst bs Hfol.
  destruct (Hdec0 tail dst bs Hfol) as (Hr & Hq1 & Hq2 & Ha & Hb & Hc & dst' & bs' & Hdn & Hfol').
  exists dst', bs'. split; [|exact Hfol'].
  rewrite model_decode_eq.
  replace (m_tot m =? 0) with false by (symmetry; apply N.eqb_neq; lia).
  replace (d_range dst / m_tot m =? 0) with false by (symmetry; apply N.eqb_neq; exact Hr).
  replace (m_tot m <=? d_code dst / (d_range dst / m_tot m)) with false by (symmetry; apply N.leb_gt; lia).
  rewrite (Hff _ Hq1 Hq2).
  replace (4294967296 <=? acc * (d_range dst / m_tot m)) with false by (symmetry; apply N.leb_gt; lia).
  replace (d_code dst <? acc * (d_range dst / m_tot m)) with false by (symmetry; apply N.ltb_ge; lia).
  replace (4294967296 <=? d_range dst / m_tot m * f) with false by (symmetry; apply N.leb_gt; lia).
  cbn [orb]. rewrite Hdn. reflexivity.
Qed.

(* ---------- vectors of models ---------- *)

(* a good model that contains every symbol of the set P *)
Definition mgood (P : N -> Prop) (m : aac_model) : Prop :=
  mdl_ok m /\ forall s, P s -> In s (map fst (m_tab m)).

Lemma mgood_update : forall (P : N -> Prop) m idx, mgood P m -> (idx < length (m_tab m))%nat ->
  mgood P (model_update m idx).
Proof.
  intros P m idx (Hm & Hs) Hidx. split; [apply model_update_ok; assumption|].
  intros s Hp. apply model_update_in. apply Hs. exact Hp.
Qed.

Lemma upd_length : forall l i m, length (upd_model l i m) = length l.
Proof.
  induction l as [|a r IH]; intros i m; [destruct i; reflexivity|].
  destruct i as [|i]; cbn [upd_model length]; [reflexivity|]. rewrite IH. reflexivity.
Qed.

Lemma upd_Forall : forall (Q : aac_model -> Prop) l i m, Forall Q l -> Q m -> Forall Q (upd_model l i m).
Proof.
  induction l as [|a r IH]; intros i m HF Hq; [destruct i; exact HF|].
  inversion HF as [|a' r' Ha Hr]; subst.
  destruct i as [|i]; cbn [upd_model]; constructor; try assumption. apply IH; assumption.
Qed.

Lemma nth_good : forall (Q : aac_model -> Prop) l i, Forall Q l -> (i < length l)%nat ->
  exists m, nth_error l i = Some m /\ Q m.
Proof.
  intros Q l i HF Hi. destruct (nth_error l i) as [m|] eqn:E.
  - exists m. split; [reflexivity|]. apply nth_error_In in E.
    exact (proj1 (Forall_forall Q l) HF m E).
  - apply nth_error_None in E. lia.
Qed.

Lemma ctx_spec : forall (P : N -> Prop) ms st out ctx sym,
  enc_ok st out -> Forall (mgood P) ms -> (N.to_nat ctx < length ms)%nat -> P sym ->
  exists ms' st' o, ctx_encode ms st ctx sym = Some (ms', st', o) /\
    Forall (mgood P) ms' /\ length ms' = length ms /\ enc_ok st' (out ++ o) /\
    forall W, Forall (fun b => b < 256) W -> nest W st' (out ++ o) (e_range st') ->
      nest W st out (e_range st) /\
      forall tail dst bs, dec_follows W tail st out dst bs ->
        exists dst' bs', ctx_decode ms dst ctx bs = ROk (ms', dst', sym, bs') /\
                         dec_follows W tail st' (out ++ o) dst' bs'.
Proof.
  intros P ms st out ctx sym Hok Hms Hctx Hp.
  destruct (nth_good (mgood P) ms (N.to_nat ctx) Hms Hctx) as (m & Hnth & Hmg).
  pose proof Hmg as (Hm & Hs).
  destruct (event_spec m st out sym Hok Hm (Hs sym Hp)) as (idx & st' & o & Hidx & Henc & Hok' & Hdec).
  exists (upd_model ms (N.to_nat ctx) (model_update m idx)), st', o.
  split; [unfold ctx_encode; rewrite Hnth, Henc; reflexivity|].
  split; [apply upd_Forall; [exact Hms|apply mgood_update; assumption]|].
  split; [apply upd_length|]. split; [exact Hok'|].
  intros W HF Hnest. destruct (Hdec W HF Hnest) as (Hnest0 & Hdec0). split; [exact Hnest0|].
  intros tail dst bs Hfol. destruct (Hdec0 tail dst bs Hfol) as (dst' & bs' & Hmd & Hfol').
  exists dst', bs'. split; [|exact Hfol'].
  unfold ctx_decode. rewrite Hnth, Hmd. reflexivity.
Qed.

(* ---------- the start of the decoder and the symbol-count byte ---------- *)

Lemma dec_new_follows : forall W tail, Forall (fun b => b < 256) W ->
  nest W rc_enc_init [] (e_range rc_enc_init) ->
  exists dst bs, rc_dec_new (W ++ tail) = Some (dst, bs) /\ dec_follows W tail rc_enc_init [] dst bs.
Proof.
  intros W tail HF (HL & HDa & HDb).
  change (nsh rc_enc_init []) with 0%nat in HL, HDa, HDb.
  change (Vv rc_enc_init []) with 0 in HDa, HDb.
  change (e_range rc_enc_init) with 4294967295 in HDb.
  destruct W as [|b0 [|b1 [|b2 [|b3 [|b4 rest]]]]]; cbn [length] in HL; try lia.
  unfold Dw in HDb. cbn [Nat.add firstn] in HDb. unfold bytes_val, bv_from in HDb. cbn [fold_left] in HDb.
  assert (Hb : b0 < 256 /\ b1 < 256 /\ b2 < 256 /\ b3 < 256 /\ b4 < 256).
  { inversion HF as [|? ? H0 HF0]; subst. inversion HF0 as [|? ? H1 HF1]; subst.
    inversion HF1 as [|? ? H2 HF2]; subst. inversion HF2 as [|? ? H3 HF3]; subst.
    inversion HF3 as [|? ? H4 HF4]; subst. repeat split; assumption. }
  cbn [app rc_dec_new]. eexists. eexists. split; [reflexivity|].
  unfold dec_follows. cbn [d_range d_code].
  change (nsh rc_enc_init []) with 0%nat. change (Vv rc_enc_init []) with 0.
  split; [reflexivity|]. split; [|reflexivity].
  unfold Dw. cbn [Nat.add firstn]. unfold bytes_val, bv_from. cbn [fold_left]. lia.
Qed.

Lemma count_byte : forall n, (1 <= n <= 256)%nat ->
  (if (if (n =? 256)%nat then 0 else N.of_nat n) =? 0 then 256%nat
   else N.to_nat (if (n =? 256)%nat then 0 else N.of_nat n)) = n.
Proof.
  intros n Hn. destruct (Nat.eqb_spec n 256) as [He|Hne].
  - change (0 =? 0) with true. cbv iota. symmetry. exact He.
  - replace (N.of_nat n =? 0) with false by (symmetry; apply N.eqb_neq; lia). apply Nat2N.id.
Qed.

Lemma Forall_repeat_gen : forall (A : Type) (Q : A -> Prop) x k, Q x -> Forall Q (repeat x k).
Proof. intros A Q x k Hx. induction k as [|k IH]; cbn [repeat]; constructor; assumption. Qed.

(* the symbol set of a stream whose largest symbol is n - 1 *)
Definition below (n : nat) (s : N) : Prop := (N.to_nat s < n)%nat.

Lemma model_new_good : forall n, (n <= 256)%nat -> mgood (below n) (model_new n).
Proof.
  intros n Hn. split; [apply model_new_ok; exact Hn|]. intros s Hs. apply model_new_in. exact Hs.
Qed.

Lemma src_below : forall src, Forall (below (S (N.to_nat (max_sym src)))) src.
Proof.
  intros src. apply Forall_forall. intros s Hs. pose proof (max_sym_ge src s Hs). unfold below. lia.
Qed.

(* ---------- order 1 ---------- *)

Lemma loop1_spec : forall (P : N -> Prop) src ms st out prev,
  (forall s, P s -> (N.to_nat s < length ms)%nat) ->
  enc_ok st out -> Forall (mgood P) ms -> (N.to_nat prev < length ms)%nat -> Forall P src ->
  exists rest, enc1_loop ms st prev src = Some rest /\
    Forall (fun b => b < 256) (out ++ rest) /\ nest (out ++ rest) st out (e_range st) /\
    forall tail dst bs, dec_follows (out ++ rest) tail st out dst bs ->
      dec1_loop (length src) ms dst prev bs = ROk src.
Proof.
  intros P. induction src as [|x src IH]; intros ms st out prev HPl Hok Hms Hprev Hsrc.
  - exists (rc_encode_end 5 st). split; [reflexivity|].
    destruct (end_spec5 st out Hok) as (HF & Hnest).
    split; [exact HF|]. split; [exact Hnest|]. intros tail dst bs _. reflexivity.
  - inversion Hsrc as [|x' src' Hpx Hrest]; subst.
    destruct (ctx_spec P ms st out prev x Hok Hms Hprev Hpx)
      as (ms' & st' & o & Henc & Hms' & Hlen' & Hok' & Hdec).
    destruct (IH ms' st' (out ++ o) x) as (rest & Hloop & HF & Hnest & Hdl);
      [intros s Hs; rewrite Hlen'; apply HPl; exact Hs|exact Hok'|exact Hms'
      |rewrite Hlen'; apply HPl; exact Hpx|exact Hrest|].
    exists (o ++ rest). split.
    { cbn [enc1_loop]. rewrite Henc, Hloop. reflexivity. }
    rewrite app_assoc. split; [exact HF|].
    destruct (Hdec _ HF Hnest) as (Hnest0 & Hdec0). split; [exact Hnest0|].
    intros tail dst bs Hfol. destruct (Hdec0 tail dst bs Hfol) as (dst' & bs' & Hcd & Hfol').
    cbn [length dec1_loop]. rewrite Hcd. rewrite (Hdl tail dst' bs' Hfol'). reflexivity.
Qed.

Theorem aac_o1_roundtrip_tail : forall src tail,
  src <> [] -> Forall (fun b => b < 256) src ->
  exists body, aac_o1_encode src = Some body /\ aac_o1_decode (body ++ tail) (length src) = ROk src.
Proof.
  intros src tail _ Hbytes.
  pose proof (max_sym_lt src Hbytes) as Hmax.
  set (n := S (N.to_nat (max_sym src))).
  assert (Hn : (1 <= n <= 256)%nat) by (unfold n; lia).
  destruct (loop1_spec (below n) src (repeat (model_new n) n) rc_enc_init [] 0)
    as (rest & Hloop & HF & Hnest & Hdl).
  - intros s Hs. rewrite repeat_length. exact Hs.
  - exact enc_init_ok.
  - apply Forall_repeat_gen. apply model_new_good. lia.
  - rewrite repeat_length. change (N.to_nat 0) with 0%nat. lia.
  - exact (src_below src).
  - cbn [app] in HF, Hnest, Hdl.
    unfold aac_o1_encode. fold n. rewrite Hloop. eexists. split; [reflexivity|].
    destruct (dec_new_follows rest tail HF Hnest) as (dst & bs & Hnew & Hfol).
    cbn [app]. unfold aac_o1_decode. rewrite (count_byte n Hn), Hnew.
    exact (Hdl tail dst bs Hfol).
Qed.

Theorem aac_o1_roundtrip : forall src,
  src <> [] -> Forall (fun b => b < 256) src ->
  exists body, aac_o1_encode src = Some body /\ aac_o1_decode body (length src) = ROk src.
Proof.
  intros src Hne Hb. destruct (aac_o1_roundtrip_tail src [] Hne Hb) as (body & He & Hd).
  rewrite app_nil_r in Hd. exists body. split; assumption.
Qed.

Print Assumptions aac_o0_encode_len.
Print Assumptions aac_o1_roundtrip_tail.
Print Assumptions aac_o1_roundtrip.
