(* The adaptive arithmetic coder under hostile sizes: the capped decoder of NV.Cram.AacCap refines
   AacRle.aac_decode_r.

     dec_rle_loop_c_eq, aac_rle_decode_c_eq   clamping a run before the conversion changes nothing
     aac_decode2_c_refines                    a stream without STRIPE
     aac_decode_rfc_refines, aac_decode_rc_refines   STRIPE on top, any nesting
     aac_decode_rc_never_panics               no panic on any byte string, whatever the cap
     aac_all_roundtrip_c_refines              on the encoder's stream: Capped or the source       *)
From Coq Require Import List NArith Lia Bool PeanoNat Wf_nat.
From NV Require Import Cram.Bytes Cram.Vlq Cram.Rans4x8 Cram.Nx16Xform Cram.Nx16O0 Cram.Nx16Full
  Cram.Nx16Stripe Cram.Aac Cram.AacModes Cram.AacRle Cram.AacModesTotal Cram.AacAll Cram.Cap
  Cram.CapProofs Cram.Nx16Cap Cram.StripeCapProofs Cram.AacCap.
Import ListNotations.
Open Scope N_scope.

(* ---------- RLE: the same function ---------- *)

Lemma dec_rle_loop_c_eq : forall k o1 ms rs st prev bs,
  dec_rle_loop_c k o1 ms rs st prev bs = dec_rle_loop k o1 ms rs st prev bs.
Proof.
  induction k as [k IH] using lt_wf_ind. intros o1 ms rs st prev bs.
  destruct k as [|k']; [reflexivity|].
  cbn [dec_rle_loop_c dec_rle_loop].
  destruct (ctx_decode ms st (if o1 then prev else 0) bs) as [[[[ms' st1] sym] b1]| |]; try reflexivity.
  destruct (dec_run rs st1 b1 sym) as [[[[rs' st2] b2] len]| |]; try reflexivity.
  cbv zeta. rewrite min_n_nat_eq.
  rewrite IH by lia. reflexivity.
Qed.

Lemma aac_rle_decode_c_eq o1 bs len : aac_rle_decode_c o1 bs len = aac_rle_decode o1 bs len.
Proof.
  unfold aac_rle_decode_c, aac_rle_decode.
  destruct bs as [|c r]; [reflexivity|]. cbv zeta.
  destruct (rc_dec_new r) as [[st r']|]; [|reflexivity].
  apply dec_rle_loop_c_eq.
Qed.

(* ---------- a stream without STRIPE ---------- *)

Lemma aac_decode2_c_refines cap bs usize : refines (aac_decode2_c cap bs usize) (aac_decode2 bs usize).
Proof.
  unfold aac_decode2_c, aac_decode2.
  destruct bs as [|fb r0]; [apply refines_within|]. cbv zeta.
  destruct (if f_nosize (flags_of_byte fb) then U7Ok usize r0 else read_uint7 r0) as [size0 r1| |];
    try apply refines_within.
  destruct (f_stripe (flags_of_byte fb)); [apply refines_within|].
  destruct (if f_pack (flags_of_byte fb)
            then match rd_pack_ctx r1 with
                 | Some (table, len, t) => Some (Some table, len, t)
                 | None => None
                 end
            else Some (None, size0, r1)) as [[[pctx size1] r2]|]; [|apply refines_within].
  destruct (f_cat (flags_of_byte fb)).
  - rewrite split_off_n_eq.
    destruct (split_off r2 (N.to_nat size1)) as [[payload rest]|]; [|apply refines_within].
    destruct pctx as [table|]; [|apply refines_within].
    apply with_cap_refines. apply refines_within.
  - destruct (f_n32 (flags_of_byte fb)); [apply refines_within|].
    destruct (with_cap_cases cap size1 (fun n1 =>
                Within
                  match (if f_rle (flags_of_byte fb) then aac_rle_decode_c (f_order (flags_of_byte fb)) r2 n1
                         else if f_order (flags_of_byte fb) then aac_o1_decode r2 n1
                         else aac_o0_decode r2 n1) with
                  | ROk d => DOk d
                  | RErr => DErr
                  | RPanic => DPanic
                  end)) as [[_ E]|[_ E]]; rewrite E; [apply refines_capped|].
    rewrite aac_rle_decode_c_eq.
    destruct (if f_rle (flags_of_byte fb) then aac_rle_decode (f_order (flags_of_byte fb)) r2 (N.to_nat size1)
              else if f_order (flags_of_byte fb) then aac_o1_decode r2 (N.to_nat size1)
              else aac_o0_decode r2 (N.to_nat size1)) as [d| |]; try apply refines_within.
    destruct pctx as [table|]; [|apply refines_within].
    apply with_cap_refines. apply refines_within.
Qed.

(* ---------- STRIPE on top ---------- *)

Lemma aac_decode_rfc_S cap fu bs usize :
  aac_decode_rfc cap (S fu) bs usize =
  match bs with
  | [] => Within DErr
  | fb :: r0 =>
    if f_stripe (flags_of_byte fb) then
      match (if f_nosize (flags_of_byte fb) then U7Ok usize r0 else read_uint7 r0) with
      | U7Ok size0 r1 => stripe_decode_c cap (aac_decode_rfc cap fu) r1 size0
      | _ => Within DErr
      end
    else aac_decode2_c cap bs usize
  end.
Proof. reflexivity. Qed.

Lemma aac_decode_rf_S fu bs usize :
  aac_decode_rf (S fu) bs usize =
  match bs with
  | [] => DErr
  | fb :: r0 =>
    if f_stripe (flags_of_byte fb) then
      match (if f_nosize (flags_of_byte fb) then U7Ok usize r0 else read_uint7 r0) with
      | U7Ok size0 r1 => stripe_decode (aac_decode_rf fu) r1 size0
      | _ => DErr
      end
    else aac_decode2 bs usize
  end.
Proof. reflexivity. Qed.

Lemma aac_decode_rfc_refines cap : forall fuel bs usize,
  refines (aac_decode_rfc cap fuel bs usize) (aac_decode_rf fuel bs usize).
Proof.
  induction fuel as [|fu IH]; intros bs usize; [apply refines_within|].
  rewrite aac_decode_rfc_S, aac_decode_rf_S.
  destruct bs as [|fb r0]; [apply refines_within|].
  destruct (f_stripe (flags_of_byte fb)); [|apply aac_decode2_c_refines].
  destruct (if f_nosize (flags_of_byte fb) then U7Ok usize r0 else read_uint7 r0) as [size0 r1| |];
    try apply refines_within.
  apply stripe_decode_c_refines. exact IH.
Qed.

Theorem aac_decode_rc_refines cap bs usize : refines (aac_decode_rc cap bs usize) (aac_decode_r bs usize).
Proof. unfold aac_decode_rc, aac_decode_r. apply aac_decode_rfc_refines. Qed.

(* whatever the cap, the capped model never answers "panic" *)
Theorem aac_decode_rc_never_panics cap bs usize :
  Forall (fun b => b < 256) bs -> aac_decode_rc cap bs usize <> Within DPanic.
Proof.
  intros HP E. destruct (aac_decode_rc_refines cap bs usize) as [R|R]; rewrite R in E.
  - discriminate E.
  - assert (E' : aac_decode_r bs usize = DPanic) by congruence.
    exact (aac_decode_r_never_panics bs usize HP E').
Qed.

(* on the encoder's stream the capped decoder answers Capped or the source *)
Theorem aac_all_roundtrip_c_refines cap f src :
  f_stripe f = true \/ f_n32 f = false ->
  Forall (fun b => b < 256) src -> N.of_nat (length src) < 268435456 ->
  exists bytes, aac_encode_r f src = AeOk bytes /\
                refines (aac_decode_rc cap bytes (N.of_nat (length src))) (DOk src).
Proof.
  intros H Hb Hlen.
  destruct (aac_all_roundtrip f src H Hb Hlen) as (bytes & Henc & Hdec).
  exists bytes. split; [exact Henc|].
  rewrite <- Hdec. apply aac_decode_rc_refines.
Qed.

Print Assumptions aac_decode_rc_refines.
Print Assumptions aac_decode_rc_never_panics.
Print Assumptions aac_all_roundtrip_c_refines.
