(* The capped decoders of NV.Cram.{FqzCap,Nx16Cap,AacCap,NamesCap} with a cap of at least 2^32: the
   answer is never Capped, i.e. the capped decoder IS the uncapped one.  Every size the decoders
   convert is the caller's usize (or, under STRIPE, a share of it) or a value read by
   Vlq.read_uint7, which is below 2^32 (or half of such a value).

     read_uint7_lt           read_uint7 bs = U7Ok v rest -> v < 2^32
     fqz_decode_c_total      fqz_decode_c cap bs = Within (fqz_decode bs)
     nx_decode_ec_total      rANS Nx16 without STRIPE
     nx_decode_sc_total      rANS Nx16, every flag byte
     aac_decode_rc_total     the arithmetic coder
     names_decode_c_total    the name tokenizer
     names_roundtrip_c       decode_c (encode src) = Within (NmOk src)                       *)
From Coq Require Import List NArith ZArith Lia Bool PeanoNat.
From Coq Require Import ZifyBool ZifyNat ZifyN.
From NV Require Import Cram.Bytes Cram.Vlq Cram.Rans4x8 Cram.Nx16Xform Cram.Nx16O0
  Cram.Nx16O1 Cram.Nx16Full Cram.Nx16Stripe Cram.Aac Cram.AacModes Cram.AacRle Cram.Fqz
  Cram.Cap Cram.CapProofs Cram.Nx16Cap Cram.StripeCapProofs Cram.Nx16CapProofs Cram.Nx16CapRt
  Cram.AacCap Cram.AacCapProofs Cram.FqzCap Cram.FqzCapProofs.
Import ListNotations.
Open Scope N_scope.
Arguments N.add : simpl never.
Arguments N.sub : simpl never.
Arguments N.mul : simpl never.
Arguments N.div : simpl never.
Arguments N.modulo : simpl never.
Arguments N.pow : simpl never.
Arguments N.ltb : simpl never.
Arguments N.leb : simpl never.
Arguments N.eqb : simpl never.

Lemma refines_total {A : Type} (c : capped A) (a : A) : refines c a -> c <> Capped -> c = Within a.
Proof. intros [E|E] H; [contradiction|exact E]. Qed.

(* ---------- read_uint7 answers a u32 ---------- *)

Lemma u32_shift_lt n b : (n * 128) mod 4294967296 + b mod 128 < 4294967296.
Proof.
  replace 4294967296 with (33554432 * 128) by reflexivity.
  rewrite N.mul_mod_distr_r by discriminate.
  pose proof (N.mod_upper_bound n 33554432 ltac:(discriminate)).
  pose proof (N.mod_upper_bound b 128 ltac:(discriminate)).
  lia.
Qed.

Lemma read_uint7_go_lt : forall bs n len v r,
  read_uint7_go bs n len = U7Ok v r -> v < 4294967296.
Proof.
  induction bs as [|b t IH]; intros n len v r H; cbn [read_uint7_go] in H; [discriminate|].
  destruct (Nat.ltb 5 (S len)); [discriminate|].
  cbv zeta in H. destruct (b <? 128).
  - injection H as Hv _. subst v. apply u32_shift_lt.
  - exact (IH _ _ _ _ H).
Qed.

Lemma read_uint7_lt bs v rest : read_uint7 bs = U7Ok v rest -> v < 4294967296.
Proof. apply read_uint7_go_lt. Qed.

Lemma half_le n cap : n < 4294967296 -> 4294967296 <= cap -> n / 2 <= cap.
Proof.
  intros Hn Hc. pose proof (N.div_le_upper_bound n 2 n ltac:(discriminate) ltac:(lia)). lia.
Qed.

(* ---------- fqzcomp ---------- *)

Theorem fqz_decode_c_total cap bs :
  4294967296 <= cap -> fqz_decode_c cap bs = Within (fqz_decode bs).
Proof.
  intros Hc. apply refines_total; [apply fqz_decode_c_refines|].
  destruct (read_uint7 bs) as [size rest| |] eqn:EU.
  - apply (fqz_decode_c_not_capped cap bs size rest EU).
    apply read_uint7_lt in EU. lia.
  - unfold fqz_decode_c. rewrite EU. discriminate.
  - unfold fqz_decode_c. rewrite EU. discriminate.
Qed.

(* ---------- rANS Nx16 without STRIPE ---------- *)

Lemma read_freqs1_c_nc cap bs : 4294967296 <= cap -> read_freqs1_c cap bs <> Capped.
Proof.
  intros Hc. unfold read_freqs1_c.
  destruct bs as [|n b0]; [discriminate|].
  destruct (N.odd n); [|discriminate].
  destruct (read_uint7 b0) as [usz b1| |] eqn:E1; try discriminate.
  destruct (read_uint7 b1) as [csz b2| |]; try discriminate.
  destruct (split_off_n b2 csz) as [[buf b3]|]; [|discriminate].
  apply read_uint7_lt in E1.
  rewrite with_cap_within by lia. discriminate.
Qed.

Lemma nxd1_decode_c_nc cap bs len n : 4294967296 <= cap -> nxd1_decode_c cap bs len n <> Capped.
Proof.
  intros Hc. unfold nxd1_decode_c.
  destruct (read_freqs1_c cap bs) as [|[[[tot F1] b1]| |]] eqn:E; try discriminate.
  exfalso. exact (read_freqs1_c_nc cap bs Hc E).
Qed.

Lemma rd_rle_ctx_c_nc cap nst r2 : 4294967296 <= cap -> rd_rle_ctx_c cap nst r2 <> Capped.
Proof.
  intros Hc. unfold rd_rle_ctx_c.
  destruct (read_uint7 r2) as [n t| |] eqn:E1; try discriminate.
  destruct (read_uint7 t) as [len t1| |]; try discriminate.
  destruct (N.even n); [|discriminate].
  destruct (read_uint7 t1) as [csize t2| |]; try discriminate.
  destruct (split_off_n t2 csize) as [[buf t3]|]; [|discriminate].
  apply read_uint7_lt in E1.
  rewrite with_cap_within by (apply half_le; assumption). discriminate.
Qed.

Lemma rd_rle_ctx_c_len cap nst r2 meta len t :
  rd_rle_ctx_c cap nst r2 = Within (ROk (meta, len, t)) -> len < 4294967296.
Proof.
  unfold rd_rle_ctx_c.
  destruct (read_uint7 r2) as [n t0| |]; try discriminate.
  destruct (read_uint7 t0) as [len0 t1| |] eqn:E2; try discriminate.
  apply read_uint7_lt in E2.
  destruct (N.even n).
  - destruct (read_uint7 t1) as [csize t2| |]; try discriminate.
    destruct (split_off_n t2 csize) as [[buf t3]|]; [|discriminate].
    unfold with_cap. destruct (cap <? n / 2); [discriminate|].
    destruct (nxd0_decode buf (N.to_nat (n / 2)) nst); try discriminate.
    intros H. injection H as _ H _. subst len. exact E2.
  - destruct (split_off_n t1 (n / 2)) as [[m t2]|]; [|discriminate].
    intros H. injection H as _ H _. subst len. exact E2.
Qed.

Lemma rd_pack_ctx_len r1 table len t : rd_pack_ctx r1 = Some (table, len, t) -> len < 4294967296.
Proof.
  unfold rd_pack_ctx. destruct r1 as [|c t0]; [discriminate|].
  destruct (c =? 0); [discriminate|].
  destruct (split_off t0 (N.to_nat c)) as [[tb t1]|]; [|discriminate].
  destruct (read_uint7 t1) as [l t2| |] eqn:E; try discriminate.
  intros H. injection H as _ H _. subst len. exact (read_uint7_lt _ _ _ E).
Qed.

(* the declared size at the head of a stream: the caller's, or a uint7 *)
Lemma head_size_le cap (b : bool) usize r0 size0 r1 :
  4294967296 <= cap -> usize <= cap ->
  (if b then U7Ok usize r0 else read_uint7 r0) = U7Ok size0 r1 -> size0 <= cap.
Proof.
  intros Hc Hu E. destruct b.
  - injection E as E _. subst size0. exact Hu.
  - apply read_uint7_lt in E. lia.
Qed.

(* after the data stage: RLE expansion, then unpacking *)
Ltac nc_tail rctx pctx H1 H0 :=
  destruct rctx as [?meta|];
  [ rewrite with_cap_within by exact H1; cbv beta;
    match goal with |- context [rle_decode_c ?d ?m ?n] => destruct (rle_decode_c d m n) as [?d2| | |] end;
    try discriminate;
    (destruct pctx as [?table|]; [rewrite with_cap_within by exact H0; discriminate|discriminate])
  | destruct pctx as [?table|]; [rewrite with_cap_within by exact H0; discriminate|discriminate] ].

Lemma nx_decode_ec_nc cap bs usize :
  4294967296 <= cap -> usize <= cap -> nx_decode_ec cap bs usize <> Capped.
Proof.
  intros Hc Hu. unfold nx_decode_ec.
  destruct bs as [|fb r0]; [discriminate|].
  set (f := flags_of_byte fb).
  destruct (if f_nosize f then U7Ok usize r0 else read_uint7 r0) as [size0 r1| |] eqn:E0;
    try discriminate.
  assert (H0 : size0 <= cap) by exact (head_size_le _ _ _ _ _ _ Hc Hu E0).
  destruct (f_stripe f); [discriminate|].
  destruct (if f_pack f
            then match rd_pack_ctx r1 with
                 | Some (table, len, t) => Some (Some table, len, t)
                 | None => None
                 end
            else Some (None, size0, r1)) as [[[pctx size1] r2]|] eqn:EP; [|discriminate].
  assert (H1 : size1 <= cap).
  { destruct (f_pack f).
    - destruct (rd_pack_ctx r1) as [[[table len] t]|] eqn:E; [|discriminate].
      injection EP as _ EP _. subst size1. apply rd_pack_ctx_len in E. lia.
    - injection EP as _ EP _. subst size1. exact H0. }
  destruct (if f_rle f
            then match rd_rle_ctx_c cap (state_count f) r2 with
                 | Capped => Capped
                 | Within (ROk (meta, len, t)) => Within (ROk (Some meta, len, t))
                 | Within RErr => Within RErr
                 | Within RPanic => Within RPanic
                 end
            else Within (ROk (None, size1, r2))) as [|[[[rctx size2] r3]| |]] eqn:ER;
    try discriminate.
  { exfalso. destruct (f_rle f); [|discriminate].
    destruct (rd_rle_ctx_c cap (state_count f) r2) as [|[[[meta len] t]| |]] eqn:E; try discriminate.
    exact (rd_rle_ctx_c_nc _ _ _ Hc E). }
  assert (H2 : size2 <= cap).
  { destruct (f_rle f).
    - destruct (rd_rle_ctx_c cap (state_count f) r2) as [|[[[meta len] t]| |]] eqn:E; try discriminate.
      injection ER as _ ER _. subst size2. apply rd_rle_ctx_c_len in E. lia.
    - injection ER as _ ER _. subst size2. exact H1. }
  cbv zeta.
  destruct (f_cat f).
  - destruct (split_off_n r3 size2) as [[payload rest]|]; [|discriminate].
    nc_tail rctx pctx H1 H0.
  - rewrite with_cap_within by exact H2. cbv beta.
    destruct (f_order f).
    + destruct (nxd1_decode_c cap r3 (N.to_nat size2) (state_count f)) as [|[d| |]] eqn:E1;
        try discriminate.
      * exfalso. exact (nxd1_decode_c_nc _ _ _ _ Hc E1).
      * nc_tail rctx pctx H1 H0.
    + destruct (nxd0_decode r3 (N.to_nat size2) (state_count f)) as [d| |]; try discriminate.
      nc_tail rctx pctx H1 H0.
Qed.

Theorem nx_decode_ec_total cap bs usize :
  4294967296 <= cap -> usize <= cap -> nx_decode_ec cap bs usize = Within (nx_decode_e bs usize).
Proof.
  intros Hc Hu. apply refines_total; [apply nx_decode_ec_refines|apply nx_decode_ec_nc; assumption].
Qed.

(* ---------- STRIPE ---------- *)

Lemma stripe_sizes_le len n : Forall (fun u => (u <= len)%nat) (stripe_sizes len n).
Proof.
  unfold stripe_sizes. apply Forall_forall. intros u Hin.
  apply in_map_iff in Hin. destruct Hin as [i [Hu Hi]]. apply in_seq in Hi.
  assert (Hn : (n <> 0)%nat) by lia.
  pose proof (Nat.div_mod len n Hn) as Hdm.
  assert (Hq : (len / n <= n * (len / n))%nat).
  { generalize (len / n)%nat. intros q. destruct n as [|m]; [lia|]. cbn [Nat.mul]. lia. }
  subst u. revert Hdm Hq. generalize (len / n)%nat (len mod n)%nat. intros q r Hdm Hq.
  destruct (i <? r)%nat eqn:El.
  - apply Nat.ltb_lt in El. lia.
  - lia.
Qed.

Lemma dec_chunks_c_nc cap dec :
  (forall b u, u <= cap -> dec b u <> Capped) ->
  forall cs us bs, Forall (fun u => N.of_nat u <= cap) us -> dec_chunks_c dec cs us bs <> Capped.
Proof.
  intros Hd. induction cs as [|cz cr IH]; intros us bs Hus.
  - destruct us; cbn [dec_chunks_c]; discriminate.
  - destruct us as [|uz ur]; cbn [dec_chunks_c]; [discriminate|].
    inversion Hus as [|? ? Huz Hur]; subst.
    destruct (split_off_n bs cz) as [[buf b1]|]; [|discriminate].
    destruct (dec buf (N.of_nat uz)) as [|[chunk| | |]] eqn:E; try discriminate.
    + exfalso. exact (Hd _ _ Huz E).
    + destruct (length chunk =? uz)%nat; [|discriminate].
      destruct (dec_chunks_c dec cr ur b1) as [|[[o| | |] l]] eqn:E2; try discriminate.
      exfalso. exact (IH ur b1 Hur E2).
Qed.

Lemma stripe_decode_c_nc cap dec :
  (forall b u, u <= cap -> dec b u <> Capped) ->
  forall bs usize, usize <= cap -> stripe_decode_c cap dec bs usize <> Capped.
Proof.
  intros Hd bs usize Hu. unfold stripe_decode_c.
  destruct bs as [|c b0]; [discriminate|].
  destruct (c =? 0); [discriminate|].
  destruct (rd_sizes (N.to_nat c) b0) as [[csizes b1]|]; [|discriminate].
  rewrite with_cap_within by exact Hu. cbv beta.
  destruct (dec_chunks_c dec csizes (stripe_sizes (N.to_nat usize) (N.to_nat c)) b1)
    as [|[[o| | |] l]] eqn:E; try discriminate.
  exfalso. revert E. apply (dec_chunks_c_nc cap dec Hd).
  eapply Forall_impl; [|apply stripe_sizes_le]. cbv beta. intros u Hle. lia.
Qed.

(* ---------- rANS Nx16, every flag byte ---------- *)

Lemma nx_decode_fc_nc cap : 4294967296 <= cap ->
  forall fuel bs usize, usize <= cap -> nx_decode_fc cap fuel bs usize <> Capped.
Proof.
  intros Hc. induction fuel as [|fu IH]; intros bs usize Hu; [discriminate|].
  destruct bs as [|fb r0]; [discriminate|].
  rewrite nx_decode_fc_S.
  destruct (f_stripe (flags_of_byte fb)); [|apply nx_decode_ec_nc; assumption].
  destruct (if f_nosize (flags_of_byte fb) then U7Ok usize r0 else read_uint7 r0)
    as [size0 r1| |] eqn:E0; try discriminate.
  apply stripe_decode_c_nc; [exact IH|].
  exact (head_size_le _ _ _ _ _ _ Hc Hu E0).
Qed.

Theorem nx_decode_sc_total cap bs usize :
  4294967296 <= cap -> usize <= cap -> nx_decode_sc cap bs usize = Within (nx_decode_s bs usize).
Proof.
  intros Hc Hu. apply refines_total; [apply nx_decode_sc_refines|].
  unfold nx_decode_sc. apply nx_decode_fc_nc; assumption.
Qed.

(* ---------- the adaptive arithmetic coder ---------- *)

Lemma aac_decode2_c_nc cap bs usize :
  4294967296 <= cap -> usize <= cap -> aac_decode2_c cap bs usize <> Capped.
Proof.
  intros Hc Hu. unfold aac_decode2_c.
  destruct bs as [|fb r0]; [discriminate|].
  set (f := flags_of_byte fb).
  destruct (if f_nosize f then U7Ok usize r0 else read_uint7 r0) as [size0 r1| |] eqn:E0;
    try discriminate.
  assert (H0 : size0 <= cap) by exact (head_size_le _ _ _ _ _ _ Hc Hu E0).
  destruct (f_stripe f); [discriminate|].
  destruct (if f_pack f
            then match rd_pack_ctx r1 with
                 | Some (table, len, t) => Some (Some table, len, t)
                 | None => None
                 end
            else Some (None, size0, r1)) as [[[pctx size1] r2]|] eqn:EP; [|discriminate].
  assert (H1 : size1 <= cap).
  { destruct (f_pack f).
    - destruct (rd_pack_ctx r1) as [[[table len] t]|] eqn:E; [|discriminate].
      injection EP as _ EP _. subst size1. apply rd_pack_ctx_len in E. lia.
    - injection EP as _ EP _. subst size1. exact H0. }
  cbv zeta.
  assert (Hp : forall d : list N,
             match pctx with
             | Some table => with_cap cap size0 (fun n0 => Within (pack_decode table d n0))
             | None => Within (DOk d)
             end <> Capped).
  { intros d. destruct pctx as [table|]; [rewrite with_cap_within by exact H0|]; discriminate. }
  destruct (f_cat f).
  - destruct (split_off_n r2 size1) as [[payload rest]|]; [apply Hp|discriminate].
  - destruct (f_n32 f); [discriminate|].
    rewrite with_cap_within by exact H1. cbv beta.
    match goal with |- context [match ?X with ROk _ => _ | RErr => _ | RPanic => _ end] =>
      destruct X as [d| |] end; try discriminate.
    apply Hp.
Qed.

Lemma aac_decode_rfc_nc cap : 4294967296 <= cap ->
  forall fuel bs usize, usize <= cap -> aac_decode_rfc cap fuel bs usize <> Capped.
Proof.
  intros Hc. induction fuel as [|fu IH]; intros bs usize Hu; [discriminate|].
  rewrite aac_decode_rfc_S.
  destruct bs as [|fb r0]; [discriminate|].
  destruct (f_stripe (flags_of_byte fb)); [|apply aac_decode2_c_nc; assumption].
  destruct (if f_nosize (flags_of_byte fb) then U7Ok usize r0 else read_uint7 r0)
    as [size0 r1| |] eqn:E0; try discriminate.
  apply stripe_decode_c_nc; [exact IH|].
  exact (head_size_le _ _ _ _ _ _ Hc Hu E0).
Qed.

Theorem aac_decode_rc_total cap bs usize :
  4294967296 <= cap -> usize <= cap -> aac_decode_rc cap bs usize = Within (aac_decode_r bs usize).
Proof.
  intros Hc Hu. apply refines_total; [apply aac_decode_rc_refines|].
  unfold aac_decode_rc. apply aac_decode_rfc_nc; assumption.
Qed.

(* ---------- the name tokenizer ---------- *)

From NV Require Import Cram.NamesRt Cram.NamesRt2 Cram.NamesCap Cram.NamesCapProofs Cram.Names.

(* the entropy decoder of one token byte stream (declared size 0: the stream carries its own) *)
Lemma entropy_c_nc cap (aac : bool) cdata : 4294967296 <= cap ->
  (if aac then aac_decode_rc cap cdata 0 else nx_decode_sc cap cdata 0) <> Capped.
Proof.
  intros Hc. destruct aac.
  - unfold aac_decode_rc. apply aac_decode_rfc_nc; [exact Hc|lia].
  - unfold nx_decode_sc. apply nx_decode_fc_nc; [exact Hc|lia].
Qed.

Lemma dec_streams_c_nc cap : 4294967296 <= cap ->
  forall fuel aac src brev, dec_streams_c cap fuel aac src brev <> Capped.
Proof.
  intros Hc. induction fuel as [|fu IH]; intros aac src brev; [discriminate|].
  cbn [dec_streams_c].
  destruct src as [|ttype s1]; [discriminate|].
  destruct (type_of_byte ttype) as [ty|]; [|discriminate].
  cbv zeta.
  set (b1 := if N.testbit ttype 7 then _ else brev).
  match goal with |- match ?G with Capped => _ | Within _ => _ end <> Capped =>
    destruct G as [|g] eqn:EG end.
  - exfalso. revert EG.
    destruct (N.testbit ttype 6); [discriminate|].
    destruct (read_uint7 s1) as [size s2| |]; try discriminate.
    destruct (N.of_nat (length s2) <? size); [discriminate|].
    destruct (split_off s2 (N.to_nat size)) as [[cdata s3]|]; [|discriminate].
    destruct (if aac then aac_decode_rc cap cdata 0 else nx_decode_sc cap cdata 0) as [|d] eqn:E;
      [|discriminate].
    exfalso. exact (entropy_c_nc cap aac cdata Hc E).
  - clear EG. destruct g as [[[buf himp] s']| | | |]; cbn [nbind_c]; try discriminate.
    destruct b1 as [|last others]; [discriminate|].
    destruct (r_set last ty buf) as [last'|]; [|discriminate].
    apply IH.
Qed.

Lemma names_decode_xc_nc cap bs : 4294967296 <= cap -> names_decode_xc cap bs <> Capped.
Proof.
  intros Hc. unfold names_decode_xc.
  destruct (take_le32 bs) as [[w0 s1]|]; [|discriminate].
  destruct (take_le32 s1) as [[name_count s2]|]; [|discriminate].
  destruct s2 as [|meth s3]; [discriminate|].
  destruct (dec_streams_c cap (S (length s3)) (negb (meth =? 0)) s3 []) as [|r] eqn:E;
    [|discriminate].
  exfalso. exact (dec_streams_c_nc cap Hc _ _ _ _ E).
Qed.

Theorem names_decode_c_total cap bs :
  4294967296 <= cap -> names_decode_c cap bs = Within (names_decode bs).
Proof.
  intros Hc. apply refines_total; [apply names_decode_c_refines|].
  unfold names_decode_c.
  destruct (names_decode_xc cap bs) as [|[b| | | |]] eqn:E; try discriminate.
  exfalso. exact (names_decode_xc_nc cap bs Hc E).
Qed.

(* the round trip of NV.Cram.NamesRt2 through the capped decoder *)
Theorem names_roundtrip_c cap src :
  4294967296 <= cap -> names_wf src ->
  exists bytes, names_encode src = NmOk bytes /\ names_decode_c cap bytes = Within (NmOk src).
Proof.
  intros Hc Hwf. destruct (names_roundtrip src Hwf) as (bytes & Henc & Hdec).
  exists bytes. split; [exact Henc|].
  rewrite names_decode_c_total by exact Hc. rewrite Hdec. reflexivity.
Qed.

Print Assumptions read_uint7_lt.
Print Assumptions fqz_decode_c_total.
Print Assumptions nx_decode_ec_total.
Print Assumptions nx_decode_sc_total.
Print Assumptions aac_decode_rc_total.
Print Assumptions names_decode_c_total.
Print Assumptions names_roundtrip_c.
