(* rANS Nx16 STRIPE, the pure list facts: stripe_split deals the input round-robin into n chunks of
   the sizes build_uncompressed_sizes dictates, and interleave puts them back together. *)
From Coq Require Import List NArith ZArith Lia Bool PeanoNat.
From Coq Require Import ZifyBool ZifyNat ZifyN.
From NV Require Import Cram.Bytes Cram.Vlq Cram.Rans4x8 Cram.Nx16Xform Cram.Nx16O0 Cram.Nx16O1
  Cram.Nx16Full Cram.Nx16Stripe.
Import ListNotations.
Ltac Zify.zify_post_hook ::= Z.div_mod_to_equations.
Open Scope N_scope.
Arguments N.add : simpl never.
Arguments N.sub : simpl never.
Arguments N.mul : simpl never.
Arguments N.div : simpl never.
Arguments N.modulo : simpl never.
Arguments N.pow : simpl never.
Arguments N.ltb : simpl never.
Arguments N.leb : simpl never.
Arguments N.eqb : simpl never.

(* ---------- the rows ---------- *)

(* every row but the last has n elements; the last has 1..n *)
Fixpoint rows_shape (n : nat) (rows : list (list N)) : Prop :=
  match rows with
  | [] => True
  | r :: rest =>
    match rest with
    | [] => (0 < length r <= n)%nat
    | _ => length r = n /\ rows_shape n rest
    end
  end.

Lemma rows_shape_inv : forall n r rest, rows_shape n (r :: rest) ->
  rows_shape n rest /\ (length r = n \/ (rest = [] /\ (0 < length r < n)%nat)).
Proof.
  intros n r rest Hs. cbn [rows_shape] in Hs. destruct rest as [|t rest'].
  - split; [exact I|]. destruct (Nat.eq_dec (length r) n) as [He|Hne]; [left; exact He|right].
    split; [reflexivity|lia].
  - destruct Hs as [Hl Hr]. split; [exact Hr|left; exact Hl].
Qed.

Lemma take_rows_nil : forall fuel n, take_rows fuel n [] = [].
Proof. intros [|fu] n; reflexivity. Qed.

Lemma take_rows_facts : forall n, (0 < n)%nat -> forall fuel src, (length src <= fuel)%nat ->
  concat (take_rows fuel n src) = src /\ rows_shape n (take_rows fuel n src) /\
  (length (take_rows fuel n src) <= length src)%nat.
Proof.
  intros n Hn. induction fuel as [|fu IH]; intros src Hl.
  - destruct src as [|x s]; [|cbn [length] in Hl; lia].
    cbn [take_rows concat rows_shape length]. auto.
  - destruct src as [|x s].
    + cbn [take_rows concat rows_shape length]. auto.
    + cbn [take_rows].
      assert (Hpos : (0 < length (x :: s))%nat) by (cbn [length]; lia).
      remember (x :: s) as src eqn:Esrc. clear Esrc x s.
      assert (Hskl : length (skipn n src) = (length src - n)%nat) by apply skipn_length.
      assert (Hsk : (length (skipn n src) <= fu)%nat) by lia.
      destruct (IH (skipn n src) Hsk) as (Hc & Hs & Hlr).
      split; [|split].
      * cbn [concat]. rewrite Hc. apply firstn_skipn.
      * destruct (skipn n src) as [|y sk] eqn:Esk.
        -- rewrite take_rows_nil. cbn [rows_shape]. rewrite firstn_length. lia.
        -- cbn [length] in Hskl.
           cbn [rows_shape].
           destruct (take_rows fu n (y :: sk)) as [|t T'].
           ++ rewrite firstn_length. lia.
           ++ split; [rewrite firstn_length; lia|exact Hs].
      * cbn [length]. lia.
Qed.

(* ---------- zip_cons_r ---------- *)

Lemma heads_cons : forall c cs,
  heads (c :: cs) = match c with [] => [] | x :: _ => [x] end ++ heads cs.
Proof. reflexivity. Qed.

Lemma heads_nil_chunks : forall n, heads (repeat [] n) = [].
Proof. induction n as [|n IH]; [reflexivity|]. cbn [repeat]. rewrite heads_cons. exact IH. Qed.

Lemma zip_cons_r_length : forall cs r, length (zip_cons_r r cs) = length cs.
Proof.
  induction cs as [|c cs IH]; intros r; [reflexivity|].
  destruct r as [|x r']; cbn [zip_cons_r length]; now rewrite IH.
Qed.

Lemma build_length : forall n rows, length (fold_right zip_cons_r (repeat [] n) rows) = n.
Proof.
  intros n rows. induction rows as [|r rest IH]; cbn [fold_right]; [apply repeat_length|].
  rewrite zip_cons_r_length. exact IH.
Qed.

(* a full row *)
Lemma zip_full_heads : forall cs r, length r = length cs -> heads (zip_cons_r r cs) = r.
Proof.
  induction cs as [|c cs IH]; intros r Hl; destruct r as [|x r']; cbn [length] in Hl;
    try discriminate; [reflexivity|].
  cbn [zip_cons_r]. rewrite heads_cons. cbn [app]. f_equal. apply IH. lia.
Qed.

Lemma zip_full_tl : forall cs r, length r = length cs -> map (@tl N) (zip_cons_r r cs) = cs.
Proof.
  induction cs as [|c cs IH]; intros r Hl; destruct r as [|x r']; cbn [length] in Hl;
    try discriminate; [reflexivity|].
  cbn [zip_cons_r map tl]. f_equal. apply IH. lia.
Qed.

Lemma zip_full_len : forall cs r, length r = length cs ->
  map (@length N) (zip_cons_r r cs) = map S (map (@length N) cs).
Proof.
  induction cs as [|c cs IH]; intros r Hl; destruct r as [|x r']; cbn [length] in Hl;
    try discriminate; [reflexivity|].
  cbn [zip_cons_r map length]. f_equal. apply IH. lia.
Qed.

(* the last, short, row *)
Lemma zip_last_heads : forall n r, (length r <= n)%nat -> heads (zip_cons_r r (repeat [] n)) = r.
Proof.
  induction n as [|n IH]; intros r Hl; destruct r as [|x r']; cbn [length] in Hl; try lia.
  - reflexivity.
  - cbn [repeat zip_cons_r]. rewrite heads_cons. cbn [app]. apply IH. cbn [length]. lia.
  - cbn [repeat zip_cons_r]. rewrite heads_cons. cbn [app]. f_equal. apply IH. lia.
Qed.

Lemma zip_last_tl : forall n r, (length r <= n)%nat ->
  map (@tl N) (zip_cons_r r (repeat [] n)) = repeat [] n.
Proof.
  induction n as [|n IH]; intros r Hl; destruct r as [|x r']; cbn [length] in Hl; try lia.
  - reflexivity.
  - cbn [repeat zip_cons_r map tl]. f_equal. apply IH. cbn [length]. lia.
  - cbn [repeat zip_cons_r map tl]. f_equal. apply IH. lia.
Qed.

Lemma zip_last_len : forall n r, (length r <= n)%nat ->
  map (@length N) (zip_cons_r r (repeat [] n)) = repeat 1%nat (length r) ++ repeat 0%nat (n - length r).
Proof.
  induction n as [|n IH]; intros r Hl; destruct r as [|x r']; cbn [length] in Hl; try lia.
  - reflexivity.
  - cbn [repeat zip_cons_r map]. rewrite IH by (cbn [length]; lia).
    cbn [length repeat app]. rewrite !Nat.sub_0_r. reflexivity.
  - cbn [repeat zip_cons_r map]. rewrite IH by lia.
    cbn [length repeat app]. replace (S n - S (length r'))%nat with (n - length r')%nat by lia.
    reflexivity.
Qed.

Lemma zip_cons_r_concat_length : forall cs r, (length r <= length cs)%nat ->
  length (concat (zip_cons_r r cs)) = (length r + length (concat cs))%nat.
Proof.
  induction cs as [|c cs IH]; intros r Hl; destruct r as [|x r']; cbn [length] in Hl; try lia.
  - reflexivity.
  - cbn [zip_cons_r concat]. rewrite !app_length. rewrite IH by (cbn [length]; lia).
    cbn [length]. lia.
  - cbn [zip_cons_r concat]. rewrite !app_length. rewrite IH by lia. cbn [length]. lia.
Qed.

Lemma zip_cons_r_forall : forall (P : N -> Prop) cs r, Forall P r -> Forall (Forall P) cs ->
  Forall (Forall P) (zip_cons_r r cs).
Proof.
  intros P. induction cs as [|c cs IH]; intros r Hr Hcs; [constructor|].
  inversion Hcs as [|c0 cs0 Hc Hcs']; subst c0 cs0.
  destruct r as [|x r']; cbn [zip_cons_r].
  - constructor; [exact Hc|]. apply IH; [constructor|exact Hcs'].
  - inversion Hr as [|x0 r0 Hx Hr']; subst x0 r0.
    constructor; [constructor; assumption|]. apply IH; assumption.
Qed.

(* ---------- interleave ---------- *)

Lemma interleave_nil_chunks : forall fuel n, interleave fuel (repeat [] n) = [].
Proof.
  intros [|fu] n; [reflexivity|]. cbn [interleave]. rewrite heads_nil_chunks. reflexivity.
Qed.

Lemma interleave_build : forall n, (0 < n)%nat -> forall rows fuel, rows_shape n rows ->
  (length rows < fuel)%nat ->
  interleave fuel (fold_right zip_cons_r (repeat [] n) rows) = concat rows.
Proof.
  intros n Hn. induction rows as [|r rest IH]; intros fuel Hs Hf.
  - cbn [fold_right concat]. apply interleave_nil_chunks.
  - destruct fuel as [|fu]; [lia|]. cbn [length] in Hf.
    apply rows_shape_inv in Hs. destruct Hs as [Hrest [Hfull|[Hnil Hshort]]].
    + cbn [fold_right interleave concat].
      assert (Hlen : length r = length (fold_right zip_cons_r (repeat [] n) rest))
        by (rewrite build_length; exact Hfull).
      rewrite (zip_full_heads _ _ Hlen), (zip_full_tl _ _ Hlen).
      destruct r as [|x r']; [cbn [length] in Hfull; lia|].
      rewrite IH by (auto; lia). reflexivity.
    + subst rest. cbn [fold_right interleave concat].
      rewrite zip_last_heads, zip_last_tl by lia.
      destruct r as [|x r']; [cbn [length] in Hshort; lia|].
      rewrite interleave_nil_chunks. reflexivity.
Qed.

(* ---------- sizes ---------- *)

Lemma map_const : forall (f : nat -> nat) c l, (forall i, In i l -> f i = c) ->
  map f l = repeat c (length l).
Proof.
  intros f c. induction l as [|a l IH]; intros Hf; [reflexivity|].
  cbn [map length repeat]. rewrite (Hf a) by (left; reflexivity).
  f_equal. apply IH. intros i Hi. apply Hf. right. exact Hi.
Qed.

Lemma stripe_sizes_0 : forall n, (0 < n)%nat -> stripe_sizes 0 n = repeat 0%nat n.
Proof.
  intros n Hn. unfold stripe_sizes.
  rewrite (map_const _ 0%nat).
  - now rewrite seq_length.
  - intros i Hi. rewrite Nat.mod_0_l, Nat.div_0_l by lia. reflexivity.
Qed.

Lemma stripe_sizes_small : forall m n, (m < n)%nat ->
  stripe_sizes m n = repeat 1%nat m ++ repeat 0%nat (n - m).
Proof.
  intros m n Hm. unfold stripe_sizes.
  rewrite Nat.mod_small, Nat.div_small by exact Hm.
  replace n with (m + (n - m))%nat at 1 by lia.
  rewrite seq_app, map_app. f_equal.
  - rewrite (map_const _ 1%nat); [now rewrite seq_length|].
    intros i Hi. apply in_seq in Hi. destruct (Nat.ltb_spec i m) as [Hlt|Hge]; [reflexivity|lia].
  - rewrite (map_const _ 0%nat); [now rewrite seq_length|].
    intros i Hi. apply in_seq in Hi. destruct (Nat.ltb_spec i m) as [Hlt|Hge]; [lia|reflexivity].
Qed.

Lemma stripe_sizes_add : forall len n, (0 < n)%nat ->
  stripe_sizes (n + len) n = map S (stripe_sizes len n).
Proof.
  intros len n Hn. unfold stripe_sizes. rewrite map_map.
  assert (Hd : ((n + len) / n = S (len / n))%nat).
  { replace (n + len)%nat with (1 * n + len)%nat by lia. rewrite Nat.div_add_l by lia. lia. }
  assert (Hm : ((n + len) mod n = len mod n)%nat).
  { replace (n + len)%nat with (len + 1 * n)%nat by lia. apply Nat.mod_add. lia. }
  rewrite Hd, Hm. apply map_ext. intros i.
  destruct (i <? len mod n)%nat; reflexivity.
Qed.

Lemma build_sizes : forall n, (0 < n)%nat -> forall rows, rows_shape n rows ->
  map (@length N) (fold_right zip_cons_r (repeat [] n) rows) = stripe_sizes (length (concat rows)) n.
Proof.
  intros n Hn. induction rows as [|r rest IH]; intros Hs.
  - cbn [fold_right concat length]. rewrite stripe_sizes_0 by exact Hn.
    clear Hs Hn. induction n as [|n IHn]; [reflexivity|]. cbn [repeat map length]. f_equal. exact IHn.
  - apply rows_shape_inv in Hs. destruct Hs as [Hrest [Hfull|[Hnil Hshort]]].
    + cbn [fold_right concat]. rewrite app_length, Hfull.
      rewrite stripe_sizes_add by exact Hn. rewrite <- IH by exact Hrest.
      apply zip_full_len. rewrite build_length. exact Hfull.
    + subst rest. cbn [fold_right concat]. rewrite app_nil_r.
      rewrite stripe_sizes_small by lia. apply zip_last_len. lia.
Qed.

Lemma build_total : forall n rows, rows_shape n rows ->
  length (concat (fold_right zip_cons_r (repeat [] n) rows)) = length (concat rows).
Proof.
  intros n. induction rows as [|r rest IH]; intros Hs.
  - cbn [fold_right concat length]. clear Hs. induction n as [|n IHn]; [reflexivity|].
    cbn [repeat concat app]. exact IHn.
  - apply rows_shape_inv in Hs. destruct Hs as [Hrest Hcase].
    cbn [fold_right concat]. rewrite zip_cons_r_concat_length.
    + rewrite app_length, IH by exact Hrest. reflexivity.
    + rewrite build_length. lia.
Qed.

(* ---------- bytes ---------- *)

Lemma take_rows_forall : forall (P : N -> Prop) n fuel src, Forall P src ->
  Forall (Forall P) (take_rows fuel n src).
Proof.
  intros P n. induction fuel as [|fu IH]; intros src Hsrc; [constructor|].
  destruct src as [|x s]; [constructor|]. cbn [take_rows].
  rewrite <- (firstn_skipn n (x :: s)) in Hsrc. apply Forall_app in Hsrc.
  destruct Hsrc as [Hf Hk]. constructor; [exact Hf|]. apply IH. exact Hk.
Qed.

Lemma build_forall : forall (P : N -> Prop) n rows, Forall (Forall P) rows ->
  Forall (Forall P) (fold_right zip_cons_r (repeat [] n) rows).
Proof.
  intros P n. induction rows as [|r rest IH]; intros Hrows.
  - cbn [fold_right]. induction n as [|n IHn]; cbn [repeat]; constructor; [constructor|exact IHn].
  - inversion Hrows as [|r0 rest0 Hr Hrest]; subst r0 rest0.
    cbn [fold_right]. apply zip_cons_r_forall; [exact Hr|]. apply IH. exact Hrest.
Qed.

(* ---------- the theorems ---------- *)

Theorem stripe_split_length n src : length (stripe_split n src) = n.
Proof. unfold stripe_split. apply build_length. Qed.

Theorem stripe_split_sizes n src : (0 < n)%nat ->
  map (@length N) (stripe_split n src) = stripe_sizes (length src) n.
Proof.
  intros Hn. unfold stripe_split.
  destruct (take_rows_facts n Hn (length src) src (Nat.le_refl _)) as (Hc & Hs & _).
  rewrite build_sizes by assumption. rewrite Hc. reflexivity.
Qed.

Theorem stripe_split_total n src : (0 < n)%nat -> length (concat (stripe_split n src)) = length src.
Proof.
  intros Hn. unfold stripe_split.
  destruct (take_rows_facts n Hn (length src) src (Nat.le_refl _)) as (Hc & Hs & _).
  rewrite build_total by assumption. rewrite Hc. reflexivity.
Qed.

Theorem interleave_stripe_split n src fuel : (0 < n)%nat -> (length src < fuel)%nat ->
  interleave fuel (stripe_split n src) = src.
Proof.
  intros Hn Hf. unfold stripe_split.
  destruct (take_rows_facts n Hn (length src) src (Nat.le_refl _)) as (Hc & Hs & Hl).
  rewrite interleave_build by (assumption || lia). exact Hc.
Qed.

Theorem stripe_split_bytes n src : Forall (fun b => b < 256) src ->
  Forall (fun c => Forall (fun b => b < 256) c) (stripe_split n src).
Proof.
  intros Hsrc. unfold stripe_split. apply build_forall. apply take_rows_forall. exact Hsrc.
Qed.

Print Assumptions stripe_split_length.
Print Assumptions stripe_split_sizes.
Print Assumptions stripe_split_total.
Print Assumptions interleave_stripe_split.
Print Assumptions stripe_split_bytes.
