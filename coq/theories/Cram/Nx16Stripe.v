(* rANS Nx16, STRIPE (noodles-cram src/codecs/rans_nx16/{encode,decode}/stripe.rs) on top of the
   STRIPE-free streams of NV.Cram.Nx16Full: the input is dealt round-robin into 4 sub-streams, each
   encoded by rans_nx16::encode(Flags::NO_SIZE, ..) -- order 0, 4 states, CAT forced below 4 bytes --
   and written as: chunk count, the compressed sizes (uint7), the sub-streams.  The decoder accepts
   any chunk count 1..255 and ANY flag byte in a sub-stream, STRIPE included: rans_nx16::decode is
   recursive; the model recurses on [fuel] = number of input bytes + 1 (every level consumes at
   least the flag byte, so the fuel cannot run out: out of fuel is reported as an error). *)
From Coq Require Import List NArith Bool PeanoNat.
From NV Require Import Cram.Bytes Cram.Vlq Cram.Rans4x8 Cram.Nx16Xform Cram.Nx16O0 Cram.Nx16O1 Cram.Nx16Full.
Import ListNotations.
Open Scope N_scope.

(* ---------- stripe::transpose (encoder): chunk i = src[i], src[n + i], src[2n + i], .. ---------- *)

(* the rows of n consecutive bytes (the last one may be shorter) *)
Fixpoint take_rows (fuel n : nat) (src : list N) : list (list N) :=
  match fuel with
  | O => []
  | S fu =>
    match src with
    | [] => []
    | _ => firstn n src :: take_rows fu n (skipn n src)
    end
  end.

(* put row[i] in front of chunk i, for the chunks the row reaches *)
Fixpoint zip_cons_r (r : list N) (cs : list (list N)) : list (list N) :=
  match cs with
  | [] => []
  | c :: cs' =>
    match r with
    | [] => c :: zip_cons_r [] cs'
    | x :: r' => (x :: c) :: zip_cons_r r' cs'
    end
  end.

Definition stripe_split (n : nat) (src : list N) : list (list N) :=
  fold_right zip_cons_r (repeat [] n) (take_rows (length src) n src).

(* ---------- stripe::transpose (decoder): dst[j * n + i] = chunks[i][j] ---------- *)

Definition heads (cs : list (list N)) : list N :=
  flat_map (fun c => match c with [] => [] | x :: _ => [x] end) cs.

(* for chunk lengths q+1, .., q+1, q, .., q (what build_uncompressed_sizes dictates) *)
Fixpoint interleave (fuel : nat) (cs : list (list N)) : list N :=
  match fuel with
  | O => []
  | S fu =>
    match heads cs with
    | [] => []
    | h => h ++ interleave fu (map (@tl N) cs)
    end
  end.

(* build_uncompressed_sizes *)
Definition stripe_sizes (len n : nat) : list nat :=
  map (fun i => if (i <? Nat.modulo len n)%nat then S (Nat.div len n) else Nat.div len n) (seq 0 n).

(* ---------- stripe::encode ---------- *)

Definition nosize_flags : nxflags := flags_of_byte 16.

Fixpoint encode_chunks (cs : list (list N)) : nxe_result * list (list N) :=
  match cs with
  | [] => (NeOk [], [])
  | c :: r =>
    match nx_encode_e nosize_flags c with
    | NeOk e =>
      match encode_chunks r with
      | (NeOk _, es) => (NeOk [], e :: es)
      | bad => bad
      end
    | bad => (bad, [])
    end
  end.

(* rans_nx16::encode, every flag byte *)
Definition nx_encode_s (f : nxflags) (src : list N) : nxe_result :=
  if f_stripe f then
    let size := if f_nosize f then [] else write_uint7 (N.of_nat (length src)) in
    match encode_chunks (stripe_split 4 src) with
    | (NeOk _, es) =>
      NeOk (byte_of_flags f :: size ++ 4 :: flat_map (fun e => write_uint7 (N.of_nat (length e))) es
                                        ++ concat es)
    | (bad, _) => bad
    end
  else nx_encode_e f src.

Definition nx_encode_s_byte (fb : N) (src : list N) : nxe_result := nx_encode_s (flags_of_byte fb) src.

(* ---------- stripe::decode ---------- *)

(* read_compressed_sizes *)
Fixpoint rd_sizes (n : nat) (bs : list N) : option (list N * list N) :=
  match n with
  | O => Some ([], bs)
  | S n' =>
    match read_uint7 bs with
    | U7Ok v b1 =>
      match rd_sizes n' b1 with
      | Some (l, b2) => Some (v :: l, b2)
      | None => None
      end
    | _ => None
    end
  end.

(* the sub-streams one after the other; the first failure ends the loop.  [dec] = rans_nx16::decode *)
Fixpoint dec_chunks (dec : list N -> N -> nxd_result) (csizes : list N) (usizes : list nat) (bs : list N)
  : nxd_result * list (list N) :=
  match csizes, usizes with
  | cz :: cr, uz :: ur =>
    match split_off bs (N.to_nat cz) with
    | None => (DErr, [])
    | Some (buf, b1) =>
      match dec buf (N.of_nat uz) with
      | DOk chunk =>
        if (length chunk =? uz)%nat then
          match dec_chunks dec cr ur b1 with
          | (DOk _, l) => (DOk [], chunk :: l)
          | bad => bad
          end
        else (DErr, [])
      | bad => (bad, [])
      end
    end
  | _, _ => (DOk [], [])
  end.

Definition stripe_decode (dec : list N -> N -> nxd_result) (bs : list N) (usize : N) : nxd_result :=
  match bs with
  | [] => DErr
  | c :: b0 =>
    if c =? 0 then DErr
    else
      let n := N.to_nat c in
      match rd_sizes n b0 with
      | None => DErr
      | Some (csizes, b1) =>
        match dec_chunks dec csizes (stripe_sizes (N.to_nat usize) n) b1 with
        | (DOk _, chunks) => DOk (interleave (S (length (concat chunks))) chunks)
        | (bad, _) => bad
        end
      end
  end.

(* rans_nx16::decode, every flag byte *)
Fixpoint nx_decode_f (fuel : nat) (bs : list N) (usize : N) : nxd_result :=
  match fuel with
  | O => DErr
  | S fu =>
    match bs with
    | [] => DErr
    | fb :: r0 =>
      let f := flags_of_byte fb in
      if f_stripe f then
        match (if f_nosize f then U7Ok usize r0 else read_uint7 r0) with
        | U7Ok size0 r1 => stripe_decode (nx_decode_f fu) r1 size0
        | _ => DErr
        end
      else nx_decode_e bs usize
    end
  end.

Definition nx_decode_s (bs : list N) (usize : N) : nxd_result := nx_decode_f (S (length bs)) bs usize.
