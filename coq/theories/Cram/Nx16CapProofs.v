(* rANS Nx16 under hostile sizes: every capped decoder of NV.Cram.Nx16Cap answers Capped or exactly
   what its original answers (refinement), hence never panics either. *)
From Coq Require Import List NArith Lia Bool PeanoNat.
From NV Require Import Cram.Bytes Cram.Vlq Cram.Rans4x8 Cram.Nx16Xform Cram.Nx16O0 Cram.Nx16O1
  Cram.Nx16Full Cram.Nx16Stripe Cram.Nx16StripeProofs Cram.Cap Cram.CapProofs Cram.Nx16Cap Cram.StripeCapProofs.
Import ListNotations.
Open Scope N_scope.

Lemma rle_dec_c_eq : forall fuel A lits meta n,
  rle_dec_c fuel A lits meta n = rle_dec fuel A lits meta n.
Proof.
  induction fuel as [|fu IH]; intros A lits meta n; cbn [rle_dec_c rle_dec]; [reflexivity|].
  destruct (n =? 0)%nat; [reflexivity|].
  destruct lits as [|sym lr]; [reflexivity|].
  destruct (mem sym A).
  - destruct (read_uint7 meta) as [len m'| |]; try reflexivity.
    rewrite min_n_nat_eq, IH. reflexivity.
  - rewrite IH. reflexivity.
Qed.

Lemma rle_decode_c_eq lits meta n : rle_decode_c lits meta n = rle_decode lits meta n.
Proof.
  unfold rle_decode_c, rle_decode.
  destruct (rle_read_alphabet meta) as [[A m]|]; [apply rle_dec_c_eq|reflexivity].
Qed.

Lemma split_off1_eq bs n : split_off1 bs n = split_off bs n.
Proof. reflexivity. Qed.

Lemma read_freqs1_c_refines cap bs : refines (read_freqs1_c cap bs) (read_freqs1 bs).
Proof.
  unfold read_freqs1_c, read_freqs1.
  destruct bs as [|n b0]; [apply refines_within|].
  destruct (N.odd n); [|apply refines_within].
  destruct (read_uint7 b0) as [usz b1| |]; try apply refines_within.
  destruct (read_uint7 b1) as [csz b2| |]; try apply refines_within.
  rewrite split_off_n_eq. change (split_off b2 (N.to_nat csz)) with (split_off1 b2 (N.to_nat csz)).
  destruct (split_off1 b2 (N.to_nat csz)) as [[buf b3]|]; [|apply refines_within].
  apply with_cap_refines. apply refines_within.
Qed.

Lemma nxd1_decode_c_refines cap bs len n : refines (nxd1_decode_c cap bs len n) (nxd1_decode bs len n).
Proof.
  unfold nxd1_decode_c, nxd1_decode.
  destruct (read_freqs1_c_refines cap bs) as [E|E]; rewrite E; [apply refines_capped|].
  destruct (read_freqs1 bs) as [[[tot F1] b1]| |]; apply refines_within.
Qed.

Lemma rd_rle_ctx_c_refines cap nst r2 : refines (rd_rle_ctx_c cap nst r2) (rd_rle_ctx nst r2).
Proof.
  unfold rd_rle_ctx_c, rd_rle_ctx.
  destruct (read_uint7 r2) as [n t| |]; try apply refines_within.
  destruct (read_uint7 t) as [len t1| |]; try apply refines_within.
  destruct (N.even n).
  - destruct (read_uint7 t1) as [csize t2| |]; try apply refines_within.
    rewrite split_off_n_eq.
    destruct (split_off t2 (N.to_nat csize)) as [[buf t3]|]; [|apply refines_within].
    apply with_cap_refines. apply refines_within.
  - rewrite split_off_n_eq. apply refines_within.
Qed.

Ltac wc :=
  match goal with
  | |- context [with_cap ?c ?n ?k] =>
    let E := fresh "E" in
    destruct (with_cap_cases c n k) as [[_ E]|[_ E]]; rewrite E; clear E;
    [try apply refines_capped|cbv beta]
  end.

(* after the data stage: RLE expansion, then unpacking *)
Ltac nx_tail rctx pctx :=
  destruct rctx as [?meta|];
  [ wc; rewrite ?rle_decode_c_eq;
    match goal with |- context [rle_decode ?d ?m ?n] => destruct (rle_decode d m n) as [?d2| | |] end;
    try apply refines_within;
    (destruct pctx as [?table|]; [wc; apply refines_within|apply refines_within])
  | destruct pctx as [?table|]; [wc; apply refines_within|apply refines_within] ].

Lemma nx_decode_ec_refines cap bs usize : refines (nx_decode_ec cap bs usize) (nx_decode_e bs usize).
Proof.
  unfold nx_decode_ec, nx_decode_e.
  destruct bs as [|fb r0]; [apply refines_within|].
  set (f := flags_of_byte fb).
  destruct (if f_nosize f then U7Ok usize r0 else read_uint7 r0) as [size0 r1| |]; try apply refines_within.
  destruct (f_stripe f); [apply refines_within|].
  destruct (if f_pack f
            then match rd_pack_ctx r1 with
                 | Some (table, len, t) => Some (Some table, len, t)
                 | None => None
                 end
            else Some (None, size0, r1)) as [[[pctx size1] r2]|]; [|apply refines_within].
  assert (Hctx : refines
            (if f_rle f
             then match rd_rle_ctx_c cap (state_count f) r2 with
                  | Capped => Capped
                  | Within (ROk (meta, len, t)) => Within (ROk (Some meta, len, t))
                  | Within RErr => Within RErr
                  | Within RPanic => Within RPanic
                  end
             else Within (ROk (None, size1, r2)))
            (if f_rle f
             then match rd_rle_ctx (state_count f) r2 with
                  | ROk (meta, len, t) => ROk (Some meta, len, t)
                  | RErr => RErr
                  | RPanic => RPanic
                  end
             else ROk (None, size1, r2))).
  { destruct (f_rle f); [|apply refines_within].
    destruct (rd_rle_ctx_c_refines cap (state_count f) r2) as [E|E]; rewrite E; [apply refines_capped|].
    destruct (rd_rle_ctx (state_count f) r2) as [[[meta len] t]| |]; apply refines_within. }
  destruct Hctx as [E|E]; rewrite E; clear E; [apply refines_capped|].
  match goal with |- refines _ (match ?X with _ => _ end) => destruct X as [[[rctx size2] r3]| |] end;
    try apply refines_within.
  destruct (f_cat f).
  - rewrite split_off_n_eq.
    destruct (split_off r3 (N.to_nat size2)) as [[payload rest]|]; [|apply refines_within].
    nx_tail rctx pctx.
  - wc. destruct (f_order f).
    + destruct (nxd1_decode_c_refines cap r3 (N.to_nat size2) (state_count f)) as [E1|E1]; rewrite E1;
        [apply refines_capped|].
      destruct (nxd1_decode r3 (N.to_nat size2) (state_count f)) as [d| |]; try apply refines_within.
      nx_tail rctx pctx.
    + destruct (nxd0_decode r3 (N.to_nat size2) (state_count f)) as [d| |]; try apply refines_within.
      nx_tail rctx pctx.
Qed.

Lemma nx_decode_fc_refines cap : forall fuel bs usize,
  refines (nx_decode_fc cap fuel bs usize) (nx_decode_f fuel bs usize).
Proof.
  induction fuel as [|fu IH]; intros bs usize; cbn [nx_decode_fc nx_decode_f]; [apply refines_within|].
  destruct bs as [|fb r0]; [apply refines_within|].
  destruct (f_stripe (flags_of_byte fb)).
  - destruct (if f_nosize (flags_of_byte fb) then U7Ok usize r0 else read_uint7 r0) as [size0 r1| |];
      try apply refines_within.
    apply stripe_decode_c_refines. exact IH.
  - apply nx_decode_ec_refines.
Qed.

(* the capped whole-stream decoder answers Capped or what Nx16Stripe.nx_decode_s answers *)
Theorem nx_decode_sc_refines cap bs usize : refines (nx_decode_sc cap bs usize) (nx_decode_s bs usize).
Proof. apply nx_decode_fc_refines. Qed.

Theorem nx_decode_sc_never_panics cap bs usize :
  Forall (fun b => b < 256) bs -> nx_decode_sc cap bs usize <> Within DPanic.
Proof.
  intros HP. destruct (nx_decode_sc_refines cap bs usize) as [E|E]; rewrite E; [discriminate|].
  intros H. injection H as H. exact (nx_decode_s_never_panics bs usize HP H).
Qed.

(* every STRIPE-free or striped stream the encoder writes: Capped or the input *)
Theorem nx_stripe_roundtrip_c_refines cap f src :
  Forall (fun b => b < 256) src -> N.of_nat (length src) < 268435456 ->
  exists bytes, nx_encode_s f src = NeOk bytes /\
                refines (nx_decode_sc cap bytes (N.of_nat (length src))) (DOk src).
Proof.
  intros Hb Hlen. destruct (nx_stripe_roundtrip f src Hb Hlen) as [bytes [He Hd]].
  exists bytes. split; [exact He|]. rewrite <- Hd. apply nx_decode_sc_refines.
Qed.

Print Assumptions nx_decode_sc_refines.
Print Assumptions nx_decode_sc_never_panics.
Print Assumptions nx_stripe_roundtrip_c_refines.
