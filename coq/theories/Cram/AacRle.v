(* CRAM 3.1 adaptive arithmetic coder, RLE modes (noodles-cram src/codecs/aac/{encode,decode}/rle/
   order_0.rs, order_1.rs, rle.rs): every literal is coded with the symbol model (one model, or one
   per previous literal for order 1) and followed by its run length in base-4 digits 0..3 -- the
   first digit in the model of the literal, the second in model 256, the others in model 257; a
   digit 3 means "more follows".  Whole streams with every flag except EXT (bzip2). *)
From Coq Require Import List NArith Bool PeanoNat.
From NV Require Import Cram.Bytes Cram.Vlq Cram.Rans4x8 Cram.Nx16Xform Cram.Nx16O0 Cram.Nx16Full
  Cram.Nx16Stripe Cram.Aac Cram.AacModes.
Import ListNotations.
Open Scope N_scope.

Definition rle_models0 : list aac_model := repeat (model_new 4) 258.

Definition next_rle_ctx (ctx : N) : N := if ctx <? 256 then 256 else 257.

(* the run length [len]: n = min(len, 3) in rle_models[ctx]; while n == 3 { next digit } *)
Fixpoint enc_run (fuel : nat) (rs : list aac_model) (st : rc_enc) (ctx : N) (len : N)
  : option (list aac_model * rc_enc * list N) :=
  match fuel with
  | O => None
  | S fu =>
    let n := N.min len 3 in
    match ctx_encode rs st ctx n with
    | None => None
    | Some (rs', st', out) =>
      if n =? 3 then
        match enc_run fu rs' st' (next_rle_ctx ctx) (len - 3) with
        | None => None
        | Some (rs'', st'', out') => Some (rs'', st'', out ++ out')
        end
      else Some (rs', st', out)
    end
  end.

(* the literal loop; [o1] = order 1 (the literal's model is chosen by the previous literal) *)
Fixpoint enc_rle_loop (fuel : nat) (o1 : bool) (ms rs : list aac_model) (st : rc_enc) (prev : N)
  (src : list N) : option (list N) :=
  match fuel with
  | O => None
  | S fu =>
    match src with
    | [] => Some (rc_encode_end 5 st)
    | sym :: r =>
      match ctx_encode ms st (if o1 then prev else 0) sym with
      | None => None
      | Some (ms', st1, out1) =>
        let '(len, rest) := span_eq sym r in
        match enc_run (S (S (N.to_nat (len / 3)))) rs st1 sym len with
        | None => None
        | Some (rs', st2, out2) =>
          match enc_rle_loop fu o1 ms' rs' st2 sym rest with
          | None => None
          | Some tl => Some (out1 ++ out2 ++ tl)
          end
        end
      end
    end
  end.

Definition aac_rle_encode (o1 : bool) (src : list N) : option (list N) :=
  let n := S (N.to_nat (max_sym src)) in
  let ms := if o1 then repeat (model_new n) n else [model_new n] in
  match enc_rle_loop (S (length src)) o1 ms rle_models0 rc_enc_init 0 src with
  | None => None
  | Some body => Some ((if (n =? 256)%nat then 0 else N.of_nat n) :: body)
  end.

(* ---------- decoder ---------- *)

(* at most 2^k applications of a step function (the run-length loop of the decoder has no bound in
   terms of the output; with k = 48 the bound is out of reach) *)
Fixpoint iter2 {St Rs : Type} (k : nat) (step : St -> St + Rs) (s : St) : St + Rs :=
  match k with
  | O => step s
  | S k' =>
    match iter2 k' step s with
    | inl s' => iter2 k' step s'
    | inr r => inr r
    end
  end.

(* one digit of a run length: state = (models, coder, input, context, length so far) *)
Definition run_state : Type := (list aac_model * rc_dec * list N * N * N)%type.

Definition dec_run_step (s : run_state) : run_state + res (list aac_model * rc_dec * list N * N) :=
  let '(rs, st, bs, ctx, len) := s in
  match ctx_decode rs st ctx bs with
  | ROk (rs', st', n, bs') =>
    if n =? 3 then inl (rs', st', bs', next_rle_ctx ctx, len + 3)
    else inr (ROk (rs', st', bs', len + n))
  | RErr => inr RErr
  | RPanic => inr RPanic
  end.

Definition dec_run (rs : list aac_model) (st : rc_dec) (bs : list N) (ctx : N)
  : res (list aac_model * rc_dec * list N * N) :=
  match iter2 48 dec_run_step (rs, st, bs, ctx, 0) with
  | inr r => r
  | inl _ => RErr
  end.

(* `while let Some(d) = iter.next()`: [k] = slots of dst left *)
Fixpoint dec_rle_loop (k : nat) (o1 : bool) (ms rs : list aac_model) (st : rc_dec) (prev : N)
  (bs : list N) : res (list N) :=
  match k with
  | O => ROk []
  | S k' =>
    match ctx_decode ms st (if o1 then prev else 0) bs with
    | ROk (ms', st1, sym, b1) =>
      match dec_run rs st1 b1 sym with
      | ROk (rs', st2, b2, len) =>
        let m := Nat.min (N.to_nat len) k' in
        match dec_rle_loop (k' - m) o1 ms' rs' st2 sym b2 with
        | ROk out => ROk (sym :: repeat sym m ++ out)
        | e => e
        end
      | RErr => RErr
      | RPanic => RPanic
      end
    | RErr => RErr
    | RPanic => RPanic
    end
  end.

Definition aac_rle_decode (o1 : bool) (bs : list N) (len : nat) : res (list N) :=
  match bs with
  | [] => RErr
  | c :: r =>
    let n := if c =? 0 then 256%nat else N.to_nat c in
    let ms := if o1 then repeat (model_new n) n else [model_new n] in
    match rc_dec_new r with
    | None => RErr
    | Some (st, r') => dec_rle_loop len o1 ms rle_models0 st 0 r'
    end
  end.

(* ---------- whole streams: every flag except EXT ---------- *)

Definition aac_encode2 (f : nxflags) (src : list N) : aace_result :=
  if f_stripe f then AeUnsupported
  else
    let size := if f_nosize f then [] else write_uint7 (N.of_nat (length src)) in
    let '(f1, s1, h1) := nx_pack_stage f src in
    let f2 := match s1 with
              | [] => {| f_order := f_order f1; f_res := f_res f1; f_n32 := f_n32 f1; f_stripe := f_stripe f1;
                         f_nosize := f_nosize f1; f_cat := true; f_rle := f_rle f1; f_pack := f_pack f1 |}
              | _ => f1
              end in
    if f_cat f2 then AeOk (byte_of_flags f2 :: size ++ h1 ++ s1)
    else if f_n32 f2 then AeUnsupported     (* EXT *)
    else
      match (if f_rle f2 then aac_rle_encode (f_order f2) s1
             else if f_order f2 then aac_o1_encode s1 else aac_o0_encode s1) with
      | Some body => AeOk (byte_of_flags f2 :: size ++ h1 ++ body)
      | None => AePanic
      end.

Definition aac_decode2 (bs : list N) (usize : N) : nxd_result :=
  match bs with
  | [] => DErr
  | fb :: r0 =>
    let f := flags_of_byte fb in
    match (if f_nosize f then U7Ok usize r0 else read_uint7 r0) with
    | U7Ok size0 r1 =>
      if f_stripe f then DUnsupported
      else
        match (if f_pack f then
                 match rd_pack_ctx r1 with
                 | Some (table, len, t) => Some (Some table, len, t)
                 | None => None
                 end
               else Some (None, size0, r1)) with
        | None => DErr
        | Some (pctx, size1, r2) =>
          let data :=
            if f_cat f then
              match split_off r2 (N.to_nat size1) with
              | None => DErr
              | Some (payload, _) => DOk payload
              end
            else if f_n32 f then DUnsupported
            else
              match (if f_rle f then aac_rle_decode (f_order f) r2 (N.to_nat size1)
                     else if f_order f then aac_o1_decode r2 (N.to_nat size1)
                     else aac_o0_decode r2 (N.to_nat size1)) with
              | ROk d => DOk d
              | RErr => DErr
              | RPanic => DPanic
              end in
          match data with
          | DOk d =>
            match pctx with
            | Some table => pack_decode table d (N.to_nat size0)
            | None => DOk d
            end
          | e => e
          end
        end
    | _ => DErr
    end
  end.

(* STRIPE on top (the sub-streams are NO_SIZE order-0 streams; the decoder recurses) *)
Definition aac_encode_r (f : nxflags) (src : list N) : aace_result :=
  if f_stripe f then aac_encode_s f src else aac_encode2 f src.

Definition aac_encode_r_byte (fb : N) (src : list N) : aace_result := aac_encode_r (flags_of_byte fb) src.

Fixpoint aac_decode_rf (fuel : nat) (bs : list N) (usize : N) : nxd_result :=
  match fuel with
  | O => DErr
  | S fu =>
    match bs with
    | [] => DErr
    | fb :: r0 =>
      let f := flags_of_byte fb in
      if f_stripe f then
        match (if f_nosize f then U7Ok usize r0 else read_uint7 r0) with
        | U7Ok size0 r1 => stripe_decode (aac_decode_rf fu) r1 size0
        | _ => DErr
        end
      else aac_decode2 bs usize
    end
  end.

Definition aac_decode_r (bs : list N) (usize : N) : nxd_result := aac_decode_rf (S (length bs)) bs usize.
