(* STRIPE under hostile sizes: the capped stripe decoder of NV.Cram.Nx16Cap refines
   Nx16Stripe.stripe_decode for every pair of a capped sub-stream decoder and the decoder it refines
   (used for rANS Nx16 and for the arithmetic coder). *)
From Coq Require Import List NArith Lia Bool PeanoNat.
From NV Require Import Cram.Bytes Cram.Vlq Cram.Nx16Xform Cram.Nx16Full Cram.Nx16Stripe Cram.Cap
  Cram.CapProofs Cram.Nx16Cap.
Import ListNotations.
Open Scope N_scope.

Lemma dec_chunks_c_refines decc dec :
  (forall b u, refines (decc b u) (dec b u)) ->
  forall cs us bs, refines (dec_chunks_c decc cs us bs) (dec_chunks dec cs us bs).
Proof.
  intros Hd. induction cs as [|cz cr IH]; intros us bs.
  - destruct us; cbn [dec_chunks_c dec_chunks]; apply refines_within.
  - destruct us as [|uz ur]; cbn [dec_chunks_c dec_chunks]; [apply refines_within|].
    rewrite split_off_n_eq.
    destruct (split_off bs (N.to_nat cz)) as [[buf b1]|]; [|apply refines_within].
    destruct (Hd buf (N.of_nat uz)) as [E|E]; rewrite E; [apply refines_capped|].
    destruct (dec buf (N.of_nat uz)) as [chunk| | |]; try apply refines_within.
    destruct (length chunk =? uz)%nat; [|apply refines_within].
    destruct (IH ur b1) as [E2|E2]; rewrite E2; [apply refines_capped|].
    destruct (dec_chunks dec cr ur b1) as [[o| | |] l]; apply refines_within.
Qed.

Lemma stripe_decode_c_refines cap decc dec :
  (forall b u, refines (decc b u) (dec b u)) ->
  forall bs usize, refines (stripe_decode_c cap decc bs usize) (stripe_decode dec bs usize).
Proof.
  intros Hd bs usize. unfold stripe_decode_c, stripe_decode.
  destruct bs as [|c b0]; [apply refines_within|].
  destruct (c =? 0); [apply refines_within|].
  destruct (rd_sizes (N.to_nat c) b0) as [[csizes b1]|]; [|apply refines_within].
  apply with_cap_refines.
  destruct (dec_chunks_c_refines decc dec Hd csizes (stripe_sizes (N.to_nat usize) (N.to_nat c)) b1)
    as [E|E]; rewrite E; [apply refines_capped|].
  destruct (dec_chunks dec csizes (stripe_sizes (N.to_nat usize) (N.to_nat c)) b1) as [[o| | |] l];
    apply refines_within.
Qed.
