(* rANS 4x8 order 1, frequency table: what (the model of) noodles' order-1 write_frequencies
   writes -- the contexts that occur, run-length coded, each followed by its row in the order-0
   format -- is read back by the specification's ReadFrequencies1.  Same two-point
   writer/reader synchronisation as for order 0 (Rans4x8Table.v), one level up: "frequency" is
   replaced by "row", "non-zero" by "context in the alphabet", and the ITF8 round trip by
   freq_table_roundtrip. *)
From Coq Require Import List NArith ZArith Lia Bool.
From Coq Require Import ZifyBool ZifyNat ZifyN.
From NV Require Import Cram.Bytes Cram.Itf8 Cram.IntProofs Cram.Rans4x8 Cram.Rans4x8Proofs
  Cram.Rans4x8Table Cram.Rans4x8O1.
Import ListNotations.
Ltac Zify.zify_post_hook ::= Z.div_mod_to_equations.
Open Scope N_scope.
Arguments N.add : simpl never.
Arguments N.sub : simpl never.
Arguments N.mul : simpl never.
Arguments N.div : simpl never.
Arguments N.modulo : simpl never.
Arguments N.pow : simpl never.
Arguments N.ltb : simpl never.
Arguments N.leb : simpl never.
Arguments N.eqb : simpl never.

(* a row as the encoder builds it: 256 entries adding up to at most 4096 (what the reader's
   validation of each context's table demands) *)
Definition rowv (fs : list N) : Prop := length fs = 256%nat /\ sumN fs <= 4096.

Definition rf1_mid (fu : nat) (bs1 : list N) (last : N) (F1 : list (list N))
  : option (list (list N) * list N) :=
  match bs1 with
  | [] => None
  | sym' :: bs2 =>
    if sym' =? last + 1 then
      match bs2 with
      | [] => None
      | rle' :: bs3 => spec_read_freqs1 fu bs3 sym' sym' rle' F1
      end
    else if sym' =? 0 then Some (F1, bs2)
    else spec_read_freqs1 fu bs2 sym' sym' 0 F1
  end.

Lemma rf1_unfold fu bs sym last rle F1 :
  spec_read_freqs1 (S fu) bs sym last rle F1 =
  match spec_read_frequencies0 bs with
  | None => None
  | Some (fr, bs1) =>
    let F1' := upd_row F1 (N.to_nat sym) fr in
    if 0 <? rle then
      if 255 <=? sym then None else spec_read_freqs1 fu bs1 (sym + 1) (sym + 1) (rle - 1) F1'
    else rf1_mid fu bs1 last F1'
  end.
Proof. reflexivity. Qed.

(* ---------- small facts ---------- *)

Lemma in_alphabet_true fs : in_alphabet fs = true -> exists i, nth i fs 0 <> 0.
Proof.
  unfold in_alphabet. intros H. apply existsb_exists in H. destruct H as [x [Hin Hx]].
  apply In_nth with (d := 0) in Hin. destruct Hin as [i [_ Hi]]. exists i. lia.
Qed.

Lemma in_alphabet_false : forall fs, in_alphabet fs = false -> fs = repeat 0 (length fs).
Proof.
  induction fs as [|g r IH]; intros H; [reflexivity|].
  unfold in_alphabet in *. cbn [existsb] in H. apply orb_false_iff in H. destruct H as [Hg Hr].
  cbn [length repeat]. rewrite <- (IH Hr). f_equal. lia.
Qed.

Lemma in_alphabet_false_zeros fs : rowv fs -> in_alphabet fs = false -> fs = zeros256.
Proof. intros [Hl _] H. rewrite (in_alphabet_false fs H), Hl. reflexivity. Qed.

Lemma upd_row_app_here : forall (pre : list (list N)) x tl v,
  upd_row (pre ++ x :: tl) (length pre) v = pre ++ v :: tl.
Proof. induction pre as [|p pre IH]; intros x tl v; cbn [app length upd_row]; [reflexivity|]. now rewrite IH. Qed.

Lemma run_len1_spec : forall r,
  (run_len1 r <= length r)%nat /\ Forall (fun g => in_alphabet g = true) (firstn (run_len1 r) r).
Proof.
  induction r as [|g r IH]; cbn [run_len1 length firstn]; [split; [lia|constructor]|].
  destruct (in_alphabet g) eqn:E; cbn [firstn]; [|split; [lia|constructor]].
  destruct IH as [H1 H2]. split; [lia|]. constructor; [exact E|exact H2].
Qed.

Lemma map_snd_index_rows : forall r i, map snd (index_rows i r) = r.
Proof. induction r as [|g r IH]; intros i; cbn [index_rows map snd]; [reflexivity|]. now rewrite IH. Qed.

Lemma write_frequencies_nonempty fs : (1 <= length (write_frequencies fs))%nat.
Proof. unfold write_frequencies. apply wf_nonempty. Qed.

Lemma wf1_nonempty : forall l pa k, (1 <= length (write_frequencies1_go l pa k))%nat.
Proof.
  induction l as [|[sym fs] r IH]; intros pa k; cbn [write_frequencies1_go]; [cbn; lia|].
  destruct k as [|k'].
  - destruct (in_alphabet fs); [|apply IH].
    destruct ((0 <? sym) && pa); cbn [length]; lia.
  - rewrite app_length. specialize (IH (in_alphabet fs) k'). lia.
Qed.

Lemma row_roundtrip fs rest :
  rowv fs -> in_alphabet fs = true ->
  spec_read_frequencies0 (write_frequencies fs ++ rest) = Some (fs, rest).
Proof.
  intros [Hl Hs] Ha. apply freq_table_roundtrip; [exact Hl| |apply in_alphabet_true; exact Ha|exact Hs].
  rewrite Forall_forall. intros g Hg. apply In_nth with (d := 0) in Hg.
  destruct Hg as [i [_ Hi]]. pose proof (nth_le_sumN fs i). lia.
Qed.

(* ---------- the two synchronisation points ---------- *)

Definition M1_stmt (r : list (list N)) : Prop :=
  forall (pre : list (list N)) (i : N) (pa : bool) (fu : nat) (rest : list N),
    Forall rowv r ->
    (length pre + length r <= 256)%nat ->
    i < N.of_nat (length pre) ->
    (pa = true <-> N.of_nat (length pre) = i + 1) ->
    (length (write_frequencies1_go (index_rows (N.of_nat (length pre)) r) pa 0) <= S fu)%nat ->
    rf1_mid fu (write_frequencies1_go (index_rows (N.of_nat (length pre)) r) pa 0 ++ rest) i
            (pre ++ repeat zeros256 (length r))
    = Some (pre ++ r, rest).

Definition T1_stmt (r : list (list N)) : Prop :=
  forall (pre : list (list N)) (fs : list N) (k fuel : nat) (rest : list N),
    rowv fs -> in_alphabet fs = true -> Forall rowv r ->
    (length pre + S (length r) <= 256)%nat ->
    (k <= length r)%nat -> Forall (fun g => in_alphabet g = true) (firstn k r) ->
    (length (write_frequencies1_go (index_rows (N.of_nat (length pre) + 1) r) true k) <= fuel)%nat ->
    spec_read_freqs1 fuel
      (write_frequencies fs ++ write_frequencies1_go (index_rows (N.of_nat (length pre) + 1) r) true k ++ rest)
      (N.of_nat (length pre)) (N.of_nat (length pre)) (N.of_nat k)
      (pre ++ repeat zeros256 (S (length r)))
    = Some (pre ++ fs :: r, rest).

Lemma T1_from_M1 r : M1_stmt r -> (forall g r', r = g :: r' -> T1_stmt r') -> T1_stmt r.
Proof.
  intros HM HT pre fs k fuel rest Hfs Hfa Hr Hlen Hk Hnz Hfuel.
  destruct fuel as [|fu].
  { pose proof (wf1_nonempty (index_rows (N.of_nat (length pre) + 1) r) true k). lia. }
  rewrite rf1_unfold. rewrite row_roundtrip by assumption.
  cbv zeta. rewrite Nnat.Nat2N.id. cbn [repeat]. rewrite upd_row_app_here.
  destruct k as [|k'].
  - replace (0 <? N.of_nat 0) with false by lia.
    replace (pre ++ fs :: repeat zeros256 (length r)) with ((pre ++ [fs]) ++ repeat zeros256 (length r))
      by (rewrite <- app_assoc; reflexivity).
    replace (N.of_nat (length pre) + 1) with (N.of_nat (length (pre ++ [fs]))) in *
      by (rewrite app_length; cbn [length]; lia).
    rewrite (HM (pre ++ [fs]) (N.of_nat (length pre)) true fu rest).
    + rewrite <- app_assoc. reflexivity.
    + exact Hr.
    + rewrite app_length; cbn [length]; lia.
    + rewrite app_length; cbn [length]; lia.
    + rewrite app_length; cbn [length]. split; intros; [lia|reflexivity].
    + lia.
  - destruct r as [|g r']; [cbn [length] in Hk; lia|].
    replace (0 <? N.of_nat (S k')) with true by lia.
    replace (255 <=? N.of_nat (length pre)) with false by (cbn [length] in Hlen; lia).
    cbn [index_rows write_frequencies1_go length repeat] in *.
    inversion Hr as [|? ? Hg Hr']; subst.
    cbn [firstn] in Hnz. inversion Hnz as [|? ? Hga Hnz']; subst.
    rewrite Hga in *.
    rewrite app_length in Hfuel. pose proof (write_frequencies_nonempty g) as Hne.
    replace (pre ++ fs :: zeros256 :: repeat zeros256 (length r'))
      with ((pre ++ [fs]) ++ repeat zeros256 (S (length r')))
      by (rewrite <- app_assoc; reflexivity).
    replace (N.of_nat (S k') - 1) with (N.of_nat k') by lia.
    replace (N.of_nat (length pre) + 1) with (N.of_nat (length (pre ++ [fs]))) in *
      by (rewrite app_length; cbn [length]; lia).
    rewrite <- (app_assoc (write_frequencies g)).
    rewrite (HT g r' eq_refl (pre ++ [fs]) g k' fu rest); try assumption.
    + rewrite <- app_assoc. reflexivity.
    + rewrite app_length; cbn [length] in *; lia.
    + cbn [length] in Hk; lia.
    + lia.
Qed.

Lemma M1_step g r' : M1_stmt r' -> T1_stmt r' -> M1_stmt (g :: r').
Proof.
  intros HM HT pre i pa fu rest Hr Hlen Hi Hpa Hfuel.
  inversion Hr as [|? ? Hg Hr']; subst.
  cbn [index_rows write_frequencies1_go length repeat] in *.
  destruct (in_alphabet g) eqn:Eg.
  - replace (0 <? N.of_nat (length pre)) with true in * by lia. cbn [andb] in *.
    destruct pa.
    + assert (Hadj : N.of_nat (length pre) = i + 1) by (apply Hpa; reflexivity).
      rewrite map_snd_index_rows in *.
      destruct (run_len1_spec r') as [Hrl Hrnz].
      cbn [app rf1_mid]. replace (N.of_nat (length pre) =? i + 1) with true by lia.
      cbn [length] in Hfuel. rewrite app_length in Hfuel.
      rewrite <- (app_assoc (write_frequencies g)).
      change (zeros256 :: repeat zeros256 (length r')) with (repeat zeros256 (S (length r'))).
      rewrite (HT pre g (run_len1 r') fu rest); try assumption; try reflexivity; try lia.
    + assert (Hnadj : N.of_nat (length pre) <> i + 1) by (intro Hc; apply Hpa in Hc; discriminate).
      cbn [app rf1_mid]. replace (N.of_nat (length pre) =? i + 1) with false by lia.
      replace (N.of_nat (length pre) =? 0) with false by lia.
      cbn [length] in Hfuel. rewrite app_length in Hfuel.
      rewrite <- (app_assoc (write_frequencies g)).
      change (zeros256 :: repeat zeros256 (length r')) with (repeat zeros256 (S (length r'))).
      pose proof (HT pre g O fu rest) as HT0. cbn [N.of_nat] in HT0.
      rewrite HT0; try assumption; try reflexivity; try lia; try constructor.
  - (* a context that does not occur: nothing is written, its row stays all zero *)
    rewrite (in_alphabet_false_zeros g Hg Eg) in *.
    replace (N.of_nat (length pre) + 1) with (N.of_nat (length (pre ++ [zeros256]))) in *
      by (rewrite app_length; cbn [length]; lia).
    replace (pre ++ zeros256 :: repeat zeros256 (length r'))
      with ((pre ++ [zeros256]) ++ repeat zeros256 (length r'))
      by (rewrite <- app_assoc; reflexivity).
    rewrite (HM (pre ++ [zeros256]) i false fu rest); try assumption.
    + rewrite <- app_assoc. reflexivity.
    + rewrite app_length; cbn [length] in *; lia.
    + rewrite app_length; cbn [length]; lia.
    + rewrite app_length; cbn [length]. split; intros; [discriminate|lia].
Qed.

Lemma M1_nil : M1_stmt [].
Proof.
  intros pre i pa fu rest _ _ Hi _ _.
  cbn [index_rows write_frequencies1_go app rf1_mid repeat length].
  replace (0 =? i + 1) with false by lia. cbn. rewrite !app_nil_r. reflexivity.
Qed.

Lemma MT1_all : forall r, M1_stmt r /\ T1_stmt r.
Proof.
  induction r as [|g r' [IHM IHT]].
  - split; [exact M1_nil|]. apply T1_from_M1; [exact M1_nil|]. intros g r' H; discriminate.
  - assert (HM : M1_stmt (g :: r')) by (apply M1_step; assumption).
    split; [exact HM|]. apply T1_from_M1; [exact HM|].
    intros g3 r3 Heq. injection Heq as _ Heq. subst r3. exact IHT.
Qed.

(* ---------- the table round trip ---------- *)

Lemma wf1_skip_zeros : forall z a l pa,
  write_frequencies1_go (index_rows a (repeat zeros256 z ++ l)) pa 0 =
  write_frequencies1_go (index_rows (a + N.of_nat z) l) (match z with O => pa | S _ => false end) 0.
Proof.
  induction z as [|z IH]; intros a l pa.
  - cbn [repeat app]. replace (a + N.of_nat 0) with a by lia. reflexivity.
  - cbn [repeat app index_rows write_frequencies1_go].
    replace (in_alphabet zeros256) with false by (vm_compute; reflexivity).
    rewrite IH. replace (a + 1 + N.of_nat z) with (a + N.of_nat (S z)) by lia.
    destruct z; reflexivity.
Qed.

Lemma split_first_alpha : forall F1, Forall rowv F1 -> (exists fs, In fs F1 /\ in_alphabet fs = true) ->
  exists z fs r, F1 = repeat zeros256 z ++ fs :: r /\ in_alphabet fs = true.
Proof.
  induction F1 as [|x F IH]; intros Hv [fs [Hin Ha]]; [destruct Hin|].
  inversion Hv as [|? ? Hx HF]; subst.
  destruct (in_alphabet x) eqn:Ex.
  - exists O, x, F. split; [reflexivity|exact Ex].
  - destruct Hin as [Hin|Hin]; [subst x; congruence|].
    destruct (IH HF (ex_intro _ fs (conj Hin Ha))) as [z [f [r [HFe Hf]]]].
    exists (S z), f, r. split; [|exact Hf].
    cbn [repeat app]. rewrite (in_alphabet_false_zeros x Hx Ex), HFe. reflexivity.
Qed.

(* freq_table1_roundtrip: what the order-1 write_frequencies writes, ReadFrequencies1 reads --
   for every table of 256 rows of 256 entries below 2^32 in which at least one context occurs *)
Theorem freq_table1_roundtrip F1 rest :
  length F1 = 256%nat -> Forall rowv F1 -> (exists fs, In fs F1 /\ in_alphabet fs = true) ->
  spec_read_frequencies1 (write_frequencies1 F1 ++ rest) = Some (F1, rest).
Proof.
  intros Hlen Hv Hnz.
  destruct (split_first_alpha F1 Hv Hnz) as [z [fs [r [HF Hfa]]]]. subst F1.
  rewrite app_length, repeat_length in Hlen. cbn [length] in Hlen.
  apply Forall_app in Hv. destruct Hv as [_ Hv]. inversion Hv as [|? ? Hfv Hrv]; subst.
  unfold write_frequencies1. rewrite wf1_skip_zeros.
  cbn [index_rows write_frequencies1_go]. rewrite Hfa.
  replace (match z with O => false | S _ => false end) with false by (destruct z; reflexivity).
  rewrite andb_false_r. replace (0 + N.of_nat z) with (N.of_nat z) by lia.
  cbn [app]. unfold spec_read_frequencies1.
  destruct (MT1_all r) as [_ HT].
  pose proof (HT (repeat zeros256 z) fs O) as HT'. rewrite repeat_length in HT'.
  rewrite <- app_assoc.
  change 0 with (N.of_nat 0) at 1.
  replace (repeat zeros256 256) with (repeat zeros256 z ++ repeat zeros256 (S (length r)))
    by (rewrite <- repeat_app; f_equal; lia).
  apply HT'; try assumption.
  - lia.
  - cbn [length]; lia.
  - constructor.
  - cbn [length]. rewrite !app_length. lia.
Qed.
