(* rANS Nx16 order 1: chunks, rows and the counted table.  For every input of at least n bytes
   (n > 0 states, fewer than 2^28 bytes) the encoder's split into n chunks of q = len / n bytes and a
   remainder, its transposition into q rows of n symbols ([rows_of], undone by [cols_of]), and the
   table it builds (the chunk starts under NUL, every adjacent pair of the input, each row
   normalised to 4096 by order_0::normalize_frequencies) satisfy what the interleaved loops
   (NV.Cram.Nx16O1Proofs) and the table writer (NV.Cram.Nx16O1Table) need:

     - the chunks and the remainder partition the input, the rows are q lists of n symbols;
     - normalisation does not overflow; every row of the table sums to exactly 4096 or is all zero;
     - every (context, symbol) pair the coder uses has a non-zero normalised frequency ([rows_ok]);
     - non-zero frequencies occur only between symbols of the alphabet (NUL and the input's bytes). *)
From Coq Require Import List NArith ZArith Lia Bool PeanoNat.
From Coq Require Import ZifyBool ZifyNat ZifyN.
From NV Require Import Cram.Bytes Cram.Vlq Cram.IntProofs Cram.Rans4x8 Cram.Rans4x8Proofs
  Cram.Rans4x8O1 Cram.Rans4x8O1Proofs Cram.Rans4x8O1Full
  Cram.Nx16O0 Cram.Nx16O0Proofs Cram.Nx16O0Table Cram.Nx16O1 Cram.Nx16O1Defs.
Import ListNotations.
Ltac Zify.zify_post_hook ::= Z.div_mod_to_equations.
Open Scope N_scope.
Arguments N.add : simpl never.
Arguments N.sub : simpl never.
Arguments N.mul : simpl never.
Arguments N.div : simpl never.
Arguments N.modulo : simpl never.
Arguments N.pow : simpl never.
Arguments N.ltb : simpl never.
Arguments N.leb : simpl never.
Arguments N.eqb : simpl never.

(* ---------- A. the chunks ---------- *)

Lemma split_chunks_spec : forall n q src, (n * q <= length src)%nat ->
  exists cs rem, split_chunks n q src = (cs, rem) /\ length cs = n /\
    Forall (fun c => length c = q) cs /\ concat cs ++ rem = src /\
    length rem = (length src - n * q)%nat.
Proof.
  induction n as [|n IH]; intros q src Hle.
  - exists [], src. cbn [split_chunks length concat app].
    split; [reflexivity|]. split; [reflexivity|]. split; [constructor|]. split; [reflexivity|lia].
  - destruct (IH q (skipn q src)) as [cs [rem [Hs [Hl [Hf [Hc Hr]]]]]].
    { rewrite skipn_length. lia. }
    exists (firstn q src :: cs), rem. cbn [split_chunks]. rewrite Hs.
    split; [reflexivity|]. split; [cbn [length]; lia|]. split.
    + constructor; [|exact Hf]. rewrite firstn_length. lia.
    + split.
      * cbn [concat]. rewrite <- app_assoc. rewrite Hc. apply firstn_skipn.
      * rewrite Hr, skipn_length. lia.
Qed.

(* ---------- B. the transposition ---------- *)

Lemma rows_of_length : forall q cs, length (rows_of q cs) = q.
Proof.
  induction q as [|q IH]; intros cs; cbn [rows_of length]; [reflexivity|]. now rewrite IH.
Qed.

Lemma rows_of_row_length : forall q cs, Forall (fun r => length r = length cs) (rows_of q cs).
Proof.
  induction q as [|q IH]; intros cs; cbn [rows_of]; constructor.
  - apply map_length.
  - specialize (IH (map (@tl N) cs)). rewrite map_length in IH. exact IH.
Qed.

Lemma all_nil : forall cs : list (list N),
  Forall (fun c => length c = 0%nat) cs -> cs = repeat [] (length cs).
Proof.
  induction cs as [|c cs IH]; intros Hf; [reflexivity|].
  inversion Hf as [|? ? Hc Hr]; subst. cbn [length repeat].
  destruct c as [|x c']; [|discriminate Hc]. f_equal. apply IH. exact Hr.
Qed.

Lemma zip_hd_tl : forall q cs, Forall (fun c => length c = S q) cs ->
  zip_cons (map (hd 0) cs) (map (@tl N) cs) = cs.
Proof.
  intros q. induction cs as [|c cs IH]; intros Hf; [reflexivity|].
  inversion Hf as [|? ? Hc Hr]; subst. destruct c as [|x c']; [discriminate Hc|].
  cbn [map hd tl zip_cons]. f_equal. apply IH. exact Hr.
Qed.

Lemma tl_lengths : forall q cs, Forall (fun c => length c = S q) cs ->
  Forall (fun c => length c = q) (map (@tl N) cs).
Proof.
  intros q. induction cs as [|c cs IH]; intros Hf; cbn [map]; [constructor|].
  inversion Hf as [|? ? Hc Hr]; subst. constructor; [|apply IH; exact Hr].
  destruct c as [|x c']; [discriminate Hc|]. cbn [tl length] in *. lia.
Qed.

Lemma cols_rows : forall q cs, Forall (fun c => length c = q) cs ->
  cols_of (length cs) (rows_of q cs) = cs.
Proof.
  induction q as [|q IH]; intros cs Hf; cbn [rows_of cols_of].
  - symmetry. apply all_nil. exact Hf.
  - pose proof (IH (map (@tl N) cs) (tl_lengths q cs Hf)) as H. rewrite map_length in H.
    rewrite H. apply (zip_hd_tl q). exact Hf.
Qed.

(* ---------- C. codable chains give codable rows ---------- *)

Lemma last_cons_default : forall (c : list N) x k, last (x :: c) k = last c x.
Proof.
  induction c as [|y c IH]; intros x k; [reflexivity|].
  change (last (x :: y :: c) k) with (last (y :: c) k). rewrite (IH y k). rewrite (IH y x). reflexivity.
Qed.

Lemma chain_app (P : N -> N -> Prop) : forall a k b,
  chain P k (a ++ b) -> chain P k a /\ chain P (last a k) b.
Proof.
  induction a as [|x a IH]; intros k b H; cbn [app chain] in *; [split; [exact I|exact H]|].
  destruct H as [Hx Hr]. destruct (IH x b Hr) as [H1 H2].
  split; [split; assumption|]. rewrite last_cons_default. exact H2.
Qed.

(* the context in which the symbol after chunk j is coded: its last byte *)
Fixpoint ends (K : list N) (cs : list (list N)) : list N :=
  match K, cs with
  | k :: K', c :: cs' => last c k :: ends K' cs'
  | _, _ => []
  end.

Lemma ends_nil : forall K cs, length K = length cs ->
  Forall (fun c => length c = 0%nat) cs -> ends K cs = K.
Proof.
  induction K as [|k K IH]; intros cs Hl Hf; destruct cs as [|c cs]; try discriminate Hl; [reflexivity|].
  inversion Hf as [|? ? Hc Hr]; subst. destruct c as [|x c']; [|discriminate Hc].
  cbn [ends last]. f_equal. apply IH; [cbn [length] in Hl; lia|exact Hr].
Qed.

Lemma ends_step : forall q K cs, Forall (fun c => length c = S q) cs ->
  ends (map (hd 0) cs) (map (@tl N) cs) = ends K cs \/ length K <> length cs.
Proof.
  intros q. induction K as [|k K IH]; intros cs Hf; destruct cs as [|c cs];
    try (right; discriminate); [left; reflexivity|].
  inversion Hf as [|? ? Hc Hr]; subst. destruct c as [|x c']; [discriminate Hc|].
  destruct (IH cs Hr) as [H|H]; [left|right; cbn [length]; lia].
  cbn [map hd tl ends]. rewrite last_cons_default. f_equal. exact H.
Qed.

Lemma ends_snoc : forall K cs k c, length K = length cs ->
  ends (K ++ [k]) (cs ++ [c]) = ends K cs ++ [last c k].
Proof.
  induction K as [|k0 K IH]; intros cs k c Hl; destruct cs as [|c0 cs]; try discriminate Hl; [reflexivity|].
  cbn [app ends]. f_equal. apply IH. cbn [length] in Hl. lia.
Qed.

Lemma heads_ok (P : N -> N -> Prop) q : forall K cs, Forall (fun c => length c = S q) cs ->
  Forall2 (chain P) K cs ->
  Forall2 P K (map (hd 0) cs) /\ Forall2 (chain P) (map (hd 0) cs) (map (@tl N) cs).
Proof.
  intros K cs Hf H2. induction H2 as [|k c K cs Hc H2 IH]; cbn [map]; [split; constructor|].
  inversion Hf as [|? ? Hlc Hr]; subst. destruct c as [|x c']; [discriminate Hlc|].
  destruct (IH Hr) as [H3 H4]. cbn [chain hd tl] in *. destruct Hc as [Hx Hc].
  split; constructor; assumption.
Qed.

Lemma Forall2_len {A B} (R : A -> B -> Prop) : forall l1 l2, Forall2 R l1 l2 -> length l1 = length l2.
Proof. intros l1 l2 H. induction H as [|a b l1 l2 _ _ IH]; cbn [length]; [reflexivity|now rewrite IH]. Qed.

Lemma rows_ok_of_chains F1 : forall q K cs rem,
  Forall (fun c => length c = q) cs -> Forall2 (chain (ok1 F1)) K cs ->
  chain (ok1 F1) (last (ends K cs) 0) rem ->
  rows_ok F1 K (rows_of q cs) rem.
Proof.
  induction q as [|q IH]; intros K cs rem Hf H2 Hrem; cbn [rows_of rows_ok].
  - rewrite ends_nil in Hrem; [exact Hrem|apply (Forall2_len _ _ _ H2)|exact Hf].
  - destruct (heads_ok (ok1 F1) q K cs Hf H2) as [H3 H4]. split; [exact H3|].
    apply IH; [apply tl_lengths; exact Hf|exact H4|].
    destruct (ends_step q K cs Hf) as [He|He]; [rewrite He; exact Hrem|].
    exfalso. apply He. apply (Forall2_len _ _ _ H2).
Qed.

(* a segment of the input whose adjacent pairs and whose start can be coded *)
Lemma chain_seg (P : N -> N -> Prop) src pre seg post k :
  src = pre ++ seg ++ post ->
  (forall x r, seg = x :: r -> P k x) ->
  (forall p a b s, src = p ++ a :: b :: s -> P a b) ->
  chain P k seg.
Proof.
  intros Hsrc Hhd Hadj. apply chain_of_adjacent; [exact Hhd|].
  intros p a b s Hs. apply (Hadj (pre ++ p) a b (s ++ post)).
  rewrite Hsrc, Hs. rewrite <- !app_assoc. reflexivity.
Qed.

Lemma chunks_chains (P : N -> N -> Prop) src :
  (forall p a b s, src = p ++ a :: b :: s -> P a b) ->
  forall cs pre post, src = pre ++ concat cs ++ post ->
  Forall (fun c => P 0 (hd 0 c)) cs ->
  Forall2 (chain P) (repeat 0 (length cs)) cs.
Proof.
  intros Hadj. induction cs as [|c cs IH]; intros pre post Hsrc Hst; cbn [length repeat]; [constructor|].
  apply Forall_cons_iff in Hst. destruct Hst as [Hc Hr]. constructor.
  - apply (chain_seg P src pre c (concat cs ++ post) 0); [|intros x r Hx; subst c; exact Hc|exact Hadj].
    rewrite Hsrc. cbn [concat]. rewrite <- app_assoc. reflexivity.
  - apply (IH (pre ++ c) post); [|exact Hr]. rewrite Hsrc. cbn [concat]. rewrite <- !app_assoc. reflexivity.
Qed.

(* ---------- D. the counted table ---------- *)

Lemma nth_repeat_same {T} (a : T) : forall m n, nth n (repeat a m) a = a.
Proof. induction m as [|m IH]; intros [|n]; cbn [repeat nth]; try reflexivity. apply IH. Qed.

Lemma nth_zeros256 k : nth k zeros256 0 = 0.
Proof. unfold zeros256. apply nth_repeat_same. Qed.

Lemma sumN_zeros256 : sumN zeros256 = 0.
Proof. unfold zeros256. apply sumN_repeat0. Qed.

Lemma entry_zeros i j : entry zeros_tab i j = 0.
Proof. unfold entry, row, zeros_tab. rewrite nth_repeat_same. apply nth_zeros256. Qed.

(* a count is non-zero after [bump] only if it was before, or it is the bumped one *)
Lemma bump_entry_inv T i j i' j' : tabv T -> i < 256 -> j < 256 ->
  0 < entry (bump T i j) i' j' -> 0 < entry T i' j' \/ (i' = i /\ j' = j).
Proof.
  intros HT Hi Hj. pose proof (row_length T i HT) as Hrl. destruct HT as [Hl Hr].
  unfold entry, bump. unfold row at 1.
  destruct (Nat.eq_dec (N.to_nat i) (N.to_nat i')) as [Hii|Hii].
  - rewrite <- Hii. rewrite nth_upd_row_eq by lia.
    replace (row T i') with (row T i) by (unfold row; rewrite Hii; reflexivity).
    destruct (Nat.eq_dec (N.to_nat j) (N.to_nat j')) as [Hjj|Hjj].
    + intros _. right. split; lia.
    + rewrite nth_upd_neq by exact Hjj. intros H. left. exact H.
  - rewrite nth_upd_row_neq by exact Hii. intros H. left. exact H.
Qed.

(* non-zero counts only between symbols of A *)
Definition sup (A : N -> Prop) (T : list (list N)) : Prop :=
  forall i j, 0 < entry T i j -> A i /\ A j.

Lemma sup_bump (A : N -> Prop) T i j : tabv T -> i < 256 -> j < 256 ->
  A i -> A j -> sup A T -> sup A (bump T i j).
Proof.
  intros HT Hi Hj Ai Aj Hs i' j' Hp.
  destruct (bump_entry_inv T i j i' j' HT Hi Hj Hp) as [H|[H1 H2]]; [apply Hs; exact H|].
  subst i' j'. split; assumption.
Qed.

Definition starts (row0 : list N) (T : list (list N)) : list (list N) :=
  fold_left (fun T x => bump T 0 x) row0 T.

Lemma starts_facts (A : N -> Prop) : A 0 -> forall row0 T,
  tabv T -> Forall (fun x => x < 256) row0 -> Forall A row0 -> sup A T ->
  tabv (starts row0 T) /\
  (forall i j, entry T i j <= entry (starts row0 T) i j) /\
  total (starts row0 T) = total T + N.of_nat (length row0) /\
  (forall x, In x row0 -> 0 < entry (starts row0 T) 0 x) /\
  sup A (starts row0 T).
Proof.
  intros A0. unfold starts.
  induction row0 as [|x r IH]; intros T HT Hb HA Hs; cbn [fold_left length].
  - split; [exact HT|]. split; [intros; lia|]. split; [lia|]. split; [intros x []|exact Hs].
  - inversion Hb as [|? ? Hx Hbr]; subst. inversion HA as [|? ? Ax HAr]; subst.
    assert (Z0 : 0 < 256) by lia.
    pose proof (tabv_bump T 0 x HT) as HT1.
    destruct (IH (bump T 0 x) HT1 Hbr HAr (sup_bump A T 0 x HT Z0 Hx A0 Ax Hs))
      as [H1 [H2 [H3 [H4 H5]]]].
    split; [exact H1|]. split.
    { intros i j. pose proof (bump_entry_mono T 0 x i j HT Z0 Hx). specialize (H2 i j). lia. }
    split.
    { rewrite H3. rewrite bump_total by assumption. lia. }
    split; [|exact H5].
    intros y [Hy|Hy]; [|apply H4; exact Hy]. subst y.
    pose proof (bump_entry_same T 0 x HT Z0 Hx). specialize (H2 0 x). lia.
Qed.

Lemma raw_windows_sup (A : N -> Prop) : forall src T, tabv T ->
  Forall (fun x => x < 256) src -> Forall A src -> sup A T -> sup A (raw_windows src T).
Proof.
  induction src as [|a r IH]; intros T HT Hb HA Hs; cbn [raw_windows]; [exact Hs|].
  destruct r as [|b r']; [exact Hs|].
  inversion Hb as [|? ? Ha Hbr]; subst. inversion HA as [|? ? Aa HAr]; subst.
  inversion Hbr as [|? ? Hb' _]; subst. inversion HAr as [|? ? Ab _]; subst.
  destruct (raw_windows_facts (b :: r') T HT Hbr) as [H1 _].
  apply sup_bump; try assumption. apply IH; assumption.
Qed.

(* build_alphabet *)
Lemma nth_updb_eq : forall l i v d, (i < length l)%nat -> nth i (updb l i v) d = v.
Proof.
  induction l as [|x r IH]; intros i v d Hi; [inversion Hi|].
  destruct i as [|i']; cbn [updb nth]; [reflexivity|]. apply IH. cbn [length] in Hi. lia.
Qed.

Lemma nth_updb_true : forall l i j, nth j l false = true -> nth j (updb l i true) false = true.
Proof.
  induction l as [|x r IH]; intros i j H; [destruct j; discriminate H|].
  destruct i as [|i'], j as [|j']; cbn [updb nth] in *; try assumption; [reflexivity|]. apply IH. exact H.
Qed.

Lemma alphabet_fold : forall src A0,
  let A := fold_left (fun A b => updb A (N.to_nat b) true) src A0 in
  length A = length A0 /\
  (forall j, nth j A0 false = true -> nth j A false = true) /\
  (forall b, In b src -> (N.to_nat b < length A0)%nat -> nth (N.to_nat b) A false = true).
Proof.
  induction src as [|x r IH]; intros A0; cbn [fold_left].
  - split; [reflexivity|]. split; [intros j H; exact H|intros b []].
  - destruct (IH (updb A0 (N.to_nat x) true)) as [H1 [H2 H3]]. rewrite updb_length in *.
    split; [exact H1|]. split.
    + intros j Hj. apply H2. apply nth_updb_true. exact Hj.
    + intros b [Hb|Hb] Hlt; [|apply H3; assumption]. subst b. apply H2. apply nth_updb_eq. exact Hlt.
Qed.

Lemma alphabet1_facts src :
  length (alphabet1 src) = 256%nat /\ nth 0 (alphabet1 src) false = true /\
  (forall b, In b src -> b < 256 -> nth (N.to_nat b) (alphabet1 src) false = true).
Proof.
  unfold alphabet1. destruct (alphabet_fold src (updb falses256 0 true)) as [H1 [H2 H3]].
  assert (Hl : length (updb falses256 0 true) = 256%nat).
  { rewrite updb_length. apply repeat_length. }
  rewrite Hl in *. split; [exact H1|]. split.
  - apply H2. reflexivity.
  - intros b Hb Hlt. apply H3; [exact Hb|lia].
Qed.

(* ---------- E. normalisation row by row ---------- *)

Lemma nx_normalize_some raw : sumN raw < TWO32 -> exists F, nx_normalize raw = Some F.
Proof.
  intros Hs. unfold nx_normalize.
  pose proof (describe_sum raw) as Hd.
  destruct (describe_frequencies raw) as [mi sum]. cbn [snd] in Hd.
  replace (TWO32 <=? sum) with false by lia.
  destruct (sum =? 0); [eauto|]. destruct (_ <? 4096); [eauto|]. destruct (4096 <? _); eauto.
Qed.

Lemma nx_normalize_zero raw : sumN raw = 0 -> nx_normalize raw = Some zeros256.
Proof.
  intros Hs. unfold nx_normalize.
  pose proof (describe_sum raw) as Hd.
  destruct (describe_frequencies raw) as [mi sum]. cbn [snd] in Hd.
  replace (TWO32 <=? sum) with false by (unfold TWO32; lia).
  replace (sum =? 0) with true by lia. reflexivity.
Qed.

(* describe_frequencies returns the index of a maximum *)
Lemma describe_go_max : forall l i mx mi sum,
  (fst (describe_go l i mx mi sum) = mi /\ Forall (fun f => f < mx) l) \/
  (exists k, fst (describe_go l i mx mi sum) = (i + k)%nat /\ mx <= nth k l 0 /\
             Forall (fun f => f <= nth k l 0) l).
Proof.
  induction l as [|f r IH]; intros i mx mi sum; cbn [describe_go]; [left; split; [reflexivity|constructor]|].
  destruct (mx <=? f) eqn:E.
  - right. destruct (IH (S i) f i (sum + f)) as [[H1 H2]|[k [H1 [H2 H3]]]].
    + exists O. rewrite H1. cbn [nth]. split; [lia|]. split; [lia|]. constructor; [lia|].
      eapply Forall_impl; [|exact H2]. cbn beta. intros a Ha. lia.
    + exists (S k). rewrite H1. cbn [nth]. split; [lia|]. split; [lia|]. constructor; [lia|exact H3].
  - destruct (IH (S i) mx mi (sum + f)) as [[H1 H2]|[k [H1 [H2 H3]]]].
    + left. split; [exact H1|]. constructor; [lia|exact H2].
    + right. exists (S k). rewrite H1. cbn [nth]. split; [lia|]. split; [lia|]. constructor; [lia|exact H3].
Qed.

Lemma sumN_all_zero : forall l, Forall (fun f => f <= 0) l -> sumN l = 0.
Proof.
  induction l as [|x r IH]; intros H; cbn [sumN]; [reflexivity|].
  inversion H as [|? ? Hx Hr]; subst. rewrite (IH Hr). lia.
Qed.

Lemma describe_max_pos raw : 0 < sumN raw -> 0 < nth (fst (describe_frequencies raw)) raw 0.
Proof.
  intros Hs. unfold describe_frequencies.
  destruct (describe_go_max raw 0 0 0 0) as [[_ H]|[k [H1 [_ H3]]]].
  - destruct raw as [|x r]; [cbn [sumN] in Hs; lia|]. inversion H as [|? ? Hx _]; subst. lia.
  - rewrite H1. cbn [Nat.add].
    destruct (N.eq_dec (nth k raw 0) 0) as [Hz|Hz]; [|lia].
    rewrite Hz in H3. rewrite (sumN_all_zero raw H3) in Hs. lia.
Qed.

Lemma take_excess_le : forall l e i, nth i (fst (take_excess l e)) 0 <= nth i l 0.
Proof.
  induction l as [|g r IH]; intros e i; cbn [take_excess]; [cbn [fst]; lia|].
  specialize (IH (e - N.min e (g - 1))). destruct (take_excess r _) as [r' e']. cbn [fst] in *.
  destruct i as [|i']; cbn [nth]; [lia|]. apply IH.
Qed.

(* normalisation creates no frequency *)
Lemma nx_normalize_support raw F :
  length raw = 256%nat -> nx_normalize raw = Some F ->
  forall i, 0 < nth i F 0 -> 0 < nth i raw 0.
Proof.
  intros Hl. unfold nx_normalize.
  pose proof (describe_sum raw) as Hd. pose proof (describe_max_pos raw) as Hmax.
  destruct (describe_frequencies raw) as [mi sum] eqn:Edesc. cbn [snd fst] in *.
  destruct (TWO32 <=? sum); [discriminate|].
  destruct (sum =? 0) eqn:Es.
  { intros H; inversion H; subst F. intros i Hi. rewrite nth_zeros256 in Hi. lia. }
  set (g := fun f => if f =? 0 then 0 else N.max (f * 4096 / sum) 1).
  set (nf := map g raw). set (nsum := sumN nf).
  assert (Hz : forall i, 0 < nth i nf 0 -> 0 < nth i raw 0).
  { intros i. unfold nf. change 0 with (g 0) at 2. rewrite map_nth. unfold g.
    destruct (nth i raw 0 =? 0) eqn:E; lia. }
  assert (Hmi : 0 < nth mi raw 0) by (apply Hmax; lia).
  destruct (nsum <? 4096) eqn:E1.
  { intros H; inversion H; subst F. intros i Hi.
    destruct (Nat.eq_dec mi i) as [Hmi'|Hne]; [subst i; exact Hmi|].
    rewrite nth_upd_neq in Hi by exact Hne. apply Hz. exact Hi. }
  destruct (4096 <? nsum) eqn:E2.
  { intros H; inversion H; subst F. intros i Hi.
    destruct (Nat.eq_dec mi i) as [Hmi'|Hne]; [subst i; exact Hmi|].
    pose proof (take_excess_le (upd nf mi (nth mi nf 0 - N.min (nsum - 4096) (nth mi nf 0 - 1)))
                  (nsum - 4096 - N.min (nsum - 4096) (nth mi nf 0 - 1)) i) as Hle.
    rewrite nth_upd_neq in Hle by exact Hne. apply Hz. lia. }
  intros H; inversion H; subst F. exact Hz.
Qed.

Lemma nx_normalize_rows_spec : forall T F1, nx_normalize_rows T = Some F1 ->
  length F1 = length T /\
  forall n, (n < length T)%nat -> nx_normalize (nth n T zeros256) = Some (nth n F1 zeros256).
Proof.
  induction T as [|r t IH]; intros F1 H; cbn [nx_normalize_rows] in H.
  - inversion H; subst. split; [reflexivity|]. intros n Hn. inversion Hn.
  - destruct (nx_normalize r) as [a|] eqn:Ea; [|discriminate].
    destruct (nx_normalize_rows t) as [b|] eqn:Eb; [|discriminate]. inversion H; subst.
    destruct (IH b eq_refl) as [Hl Hn]. split; [cbn [length]; lia|].
    intros n Hlt. destruct n as [|n']; cbn [nth]; [exact Ea|]. apply Hn. cbn [length] in Hlt. lia.
Qed.

Lemma nx_normalize_rows_some : forall T, (forall n, sumN (nth n T zeros256) < TWO32) ->
  exists F1, nx_normalize_rows T = Some F1.
Proof.
  induction T as [|r t IH]; intros Hs; [exists []; reflexivity|].
  cbn [nx_normalize_rows]. destruct (nx_normalize_some r (Hs O)) as [a Ha]. rewrite Ha.
  destruct (IH (fun n => Hs (S n))) as [b Hb]. rewrite Hb. eauto.
Qed.

(* what the encoder's table satisfies *)
Lemma nx_normalized_table T F1 : tabv T -> nx_normalize_rows T = Some F1 ->
  length F1 = 256%nat /\
  (forall i, i < 256 -> length (row F1 i) = 256%nat /\
     (sumN (row F1 i) = 4096 \/ row F1 i = zeros256) /\
     forall j, 0 < entry T i j -> 0 < entry F1 i j) /\
  (forall i j, 0 < entry F1 i j -> 0 < entry T i j).
Proof.
  intros HT Hn. destruct (nx_normalize_rows_spec T F1 Hn) as [Hl Hrows]. destruct HT as [HTl HTr].
  assert (Hlen : forall n, (n < 256)%nat -> length (nth n T zeros256) = 256%nat).
  { intros n Hlt. rewrite Forall_forall in HTr. apply HTr. apply nth_In. lia. }
  split; [lia|]. split.
  - intros i Hi. unfold entry, row.
    pose proof (Hrows (N.to_nat i) ltac:(lia)) as Hr. pose proof (Hlen (N.to_nat i) ltac:(lia)) as Hrl.
    destruct (nx_normalize_table _ _ Hrl Hr) as [H1 [H2 H3]].
    split; [exact H1|]. split; [|intros j; apply H3].
    destruct (N.eq_dec (sumN (nth (N.to_nat i) T zeros256)) 0) as [Hz|Hz].
    + right. rewrite (nx_normalize_zero _ Hz) in Hr. inversion Hr as [Hr']. reflexivity.
    + left. apply H2. lia.
  - intros i j. unfold entry, row.
    destruct (Nat.lt_ge_cases (N.to_nat i) 256) as [Hin|Hout].
    + assert (Hin' : (N.to_nat i < length T)%nat) by lia.
      apply (nx_normalize_support _ _ (Hlen _ Hin) (Hrows _ Hin')).
    + rewrite (nth_overflow F1) by lia. rewrite nth_zeros256. lia.
Qed.

(* ---------- F. the whole statement ---------- *)

Lemma in_chunk_in_src : forall (cs : list (list N)) rem c x, In c cs -> In x c -> In x (concat cs ++ rem).
Proof.
  intros cs rem c x Hc Hx. apply in_or_app. left. apply in_concat. exists c. split; assumption.
Qed.

Lemma hd_in_or (c : list N) : hd 0 c = 0 \/ In (hd 0 c) c.
Proof. destruct c as [|x c']; [left; reflexivity|right; left; reflexivity]. Qed.

Lemma last_ends_repeat : forall cs0 cl,
  last (ends (repeat 0 (length (cs0 ++ [cl]))) (cs0 ++ [cl])) 0 = last cl 0.
Proof.
  intros cs0 cl. rewrite app_length. cbn [length]. rewrite repeat_app. cbn [repeat].
  rewrite ends_snoc by (rewrite repeat_length; reflexivity). apply last_last.
Qed.

(* the remainder continues the last chunk *)
Lemma last_chain (P : N -> N -> Prop) src cs rem q :
  (1 <= q)%nat -> cs <> [] -> Forall (fun c => length c = q) cs -> concat cs ++ rem = src ->
  (forall p a b s, src = p ++ a :: b :: s -> P a b) ->
  Forall (fun c => P 0 (hd 0 c)) cs ->
  chain P (last (ends (repeat 0 (length cs)) cs) 0) rem.
Proof.
  intros Hq Hne Hf Hc Hadj Hst.
  destruct (exists_last Hne) as [cs0 [cl Hcs]]. subst cs. rewrite last_ends_repeat.
  apply Forall_app in Hf. destruct Hf as [_ Hf]. apply Forall_app in Hst. destruct Hst as [_ Hst].
  inversion Hf as [|? ? Hlc _]; subst. inversion Hst as [|? ? Hcl _]; subst.
  assert (Hch : chain P 0 (cl ++ rem)).
  { apply (chain_seg P (concat (cs0 ++ [cl]) ++ rem) (concat cs0) (cl ++ rem) [] 0).
    - rewrite concat_app. cbn [concat]. rewrite !app_nil_r. rewrite <- app_assoc. reflexivity.
    - intros x r Hx. destruct cl as [|y cl']; [cbn [length] in Hq; lia|].
      cbn [app] in Hx. inversion Hx; subst. exact Hcl.
    - exact Hadj. }
  apply chain_app in Hch. apply Hch.
Qed.

(* every counted pair can be coded with the normalised table *)
Lemma ok1_of_counted T F1 :
  (forall i, i < 256 -> length (row F1 i) = 256%nat /\
     (sumN (row F1 i) = 4096 \/ row F1 i = zeros256) /\
     forall j, 0 < entry T i j -> 0 < entry F1 i j) ->
  forall i j, i < 256 -> j < 256 -> 0 < entry T i j -> ok1 F1 i j.
Proof.
  intros N2 i j Hi Hj Hp. destruct (N2 i Hi) as [Hrl [Hrs Hrp]]. split.
  - destruct Hrs as [Hrs|Hrs]; [lia|rewrite Hrs, sumN_zeros256; lia].
  - split; [rewrite Hrl; lia|]. apply (Hrp j Hp).
Qed.

Theorem nx_o1_count n src :
  (0 < n)%nat -> (n <= length src)%nat ->
  Forall (fun b => b < 256) src -> N.of_nat (length src) < 268435456 ->
  let q := Nat.div (length src) n in
  exists cs rem F1,
    split_chunks n q src = (cs, rem) /\
    length (rows_of q cs) = q /\ Forall (fun r => length r = n) (rows_of q cs) /\
    concat (cols_of n (rows_of q cs)) ++ rem = src /\
    length rem = (length src - q * n)%nat /\
    nx_normalize_rows (raw_freqs1 (hd [] (rows_of q cs)) src) = Some F1 /\
    o1_table_ok F1 /\ o1_support (alphabet1 src) F1 /\
    length (alphabet1 src) = 256%nat /\ nth 0 (alphabet1 src) false = true /\
    rows_ok F1 (repeat 0 n) (rows_of q cs) rem.
Proof.
  intros Hn Hlen Hbytes Hsz q.
  assert (Hq1 : (1 <= q)%nat) by (unfold q; apply Nat.div_le_lower_bound; lia).
  assert (Hq2 : (n * q <= length src)%nat) by (unfold q; apply Nat.mul_div_le; lia).
  clearbody q.
  destruct (split_chunks_spec n q src Hq2) as [cs [rem [Hs [Hl [Hf [Hc Hr]]]]]].
  set (A := fun b : N => b = 0 \/ In b src).
  set (row0 := map (hd 0) cs).
  assert (Hrow0 : hd [] (rows_of q cs) = row0) by (destruct q; [lia|reflexivity]).
  assert (Hrow0A : Forall A row0).
  { unfold row0. rewrite Forall_forall. intros x Hx. apply in_map_iff in Hx.
    destruct Hx as [c [Hx Hc']]. subst x.
    destruct (hd_in_or c) as [H|H]; [left; exact H|right]. rewrite <- Hc.
    apply in_chunk_in_src with c; assumption. }
  assert (HAb : forall x, A x -> x < 256).
  { intros x [H|H]; [lia|]. rewrite Forall_forall in Hbytes. apply Hbytes. exact H. }
  assert (Hrow0b : Forall (fun x => x < 256) row0) by (eapply Forall_impl; [exact HAb|exact Hrow0A]).
  assert (A0 : A 0) by (left; reflexivity).
  assert (HsrcA : Forall A src) by (rewrite Forall_forall; intros x Hx; right; exact Hx).
  assert (Hsup0 : sup A zeros_tab) by (intros i j H; rewrite entry_zeros in H; lia).
  destruct (starts_facts A A0 row0 zeros_tab tabv_zeros Hrow0b Hrow0A Hsup0) as [S1 [S2 [S3 [S4 S5]]]].
  set (S0 := starts row0 zeros_tab) in *.
  destruct (raw_windows_facts src S0 S1 Hbytes) as [R1 [R2 R3]].
  pose proof (raw_windows_sup A src S0 S1 Hbytes HsrcA S5) as R4.
  set (T := raw_windows src S0) in *.
  assert (HT : raw_freqs1 (hd [] (rows_of q cs)) src = T) by (rewrite Hrow0; reflexivity).
  destruct (nx_normalize_rows_some T) as [F1 HF1].
  { intros k. pose proof (row_le_total T k) as Hk. rewrite total_zeros in S3. unfold row0 in S3.
    rewrite map_length in S3. unfold TWO32. lia. }
  destruct (nx_normalized_table T F1 R1 HF1) as [N1 [N2 N3]].
  destruct (alphabet1_facts src) as [B1 [B2 B3]].
  assert (HAt : forall x, A x -> nth (N.to_nat x) (alphabet1 src) false = true).
  { intros x Hx. pose proof (HAb x Hx) as Hb. destruct Hx as [Hx|Hx]; [subst x; exact B2|].
    apply B3; assumption. }
  (* every counted pair can be coded *)
  pose proof (ok1_of_counted T F1 N2) as Hok.
  assert (Hadj : forall p a b s, src = p ++ a :: b :: s -> ok1 F1 a b).
  { intros p a b s Hsrc.
    assert (Hab : a < 256 /\ b < 256).
    { rewrite Forall_forall in Hbytes. split; apply Hbytes; rewrite Hsrc; apply in_or_app; right;
      [left; reflexivity|right; left; reflexivity]. }
    apply Hok; try apply Hab. unfold T. apply (raw_windows_pos p src S0 a b s S1 Hbytes Hsrc). }
  assert (Hst : Forall (fun c => ok1 F1 0 (hd 0 c)) cs).
  { rewrite Forall_forall. intros c Hc'.
    assert (Hin : In (hd 0 c) row0) by (unfold row0; apply in_map; exact Hc').
    apply Hok; [lia| |].
    - apply HAb. rewrite Forall_forall in Hrow0A. apply Hrow0A. exact Hin.
    - specialize (R2 0 (hd 0 c)). pose proof (S4 (hd 0 c) Hin). lia. }
  exists cs, rem, F1.
  split; [exact Hs|]. split; [apply rows_of_length|]. split.
  { pose proof (rows_of_row_length q cs) as H. rewrite Hl in H. exact H. }
  split.
  { pose proof (cols_rows q cs Hf) as H. rewrite Hl in H. rewrite H. exact Hc. }
  split; [rewrite Hr; lia|].
  split; [rewrite HT; exact HF1|].
  split.
  { split; [exact N1|]. intros i Hi. destruct (N2 i Hi) as [X1 [X2 _]]. split; assumption. }
  split.
  { intros i j Hp. destruct (R4 i j (N3 i j Hp)) as [Ai Aj]. split; apply HAt; assumption. }
  split; [exact B1|]. split; [exact B2|].
  assert (Hsrc' : src = [] ++ concat cs ++ rem) by (cbn [app]; symmetry; exact Hc).
  assert (Hne : cs <> []) by (intros He; subst cs; cbn [length] in Hl; lia).
  rewrite <- Hl. apply rows_ok_of_chains; [exact Hf| |].
  - apply (chunks_chains (ok1 F1) src Hadj cs [] rem Hsrc' Hst).
  - apply (last_chain (ok1 F1) src cs rem q Hq1 Hne Hf Hc Hadj Hst).
Qed.

Print Assumptions nx_o1_count.
