(* Proofs about the rANS Nx16 transform model: the flag byte, the RLE round trip (any alphabet),
   the bit-PACK round trip (any table containing the symbols used, every width class), and the
   whole CAT stream through noodles' decoder. *)
From Coq Require Import List NArith ZArith Lia Bool PeanoNat.
From Coq Require Import ZifyBool ZifyNat ZifyN.
From NV Require Import Cram.Bytes Cram.Vlq Cram.IntProofs Cram.Rans4x8 Cram.Rans4x8Proofs Cram.Nx16Xform.
Import ListNotations.
Ltac Zify.zify_post_hook ::= Z.div_mod_to_equations.
Open Scope N_scope.
Arguments N.add : simpl never.
Arguments N.sub : simpl never.
Arguments N.mul : simpl never.
Arguments N.div : simpl never.
Arguments N.modulo : simpl never.
Arguments N.pow : simpl never.
Arguments N.ltb : simpl never.
Arguments N.leb : simpl never.
Arguments N.eqb : simpl never.

(* ---------- the flag byte ---------- *)

Theorem nx_flags_roundtrip f : flags_of_byte (byte_of_flags f) = f /\ byte_of_flags f < 256.
Proof.
  destruct f as [a b c d e g h i].
  destruct a, b, c, d, e, g, h, i; vm_compute; split; reflexivity.
Qed.

(* ---------- RLE ---------- *)

Lemma span_eq_spec sym : forall l n t, span_eq sym l = (n, t) ->
  l = repeat sym (N.to_nat n) ++ t /\ (N.to_nat n + length t = length l)%nat.
Proof.
  induction l as [|x r IH]; intros n t H; cbn [span_eq] in H.
  - inversion H; subst. split; reflexivity.
  - destruct (x =? sym) eqn:E.
    + destruct (span_eq sym r) as [n' t'] eqn:Es. inversion H; subst.
      destruct (IH n' t eq_refl) as [H1 H2]. assert (x = sym) as -> by lia.
      replace (N.to_nat (n' + 1)) with (S (N.to_nat n')) by lia. cbn [repeat app length].
      split; [f_equal; exact H1|lia].
    + inversion H; subst. split; [reflexivity|cbn [length]; lia].
Qed.

Lemma rle_dec_zero fuel A l m : rle_dec fuel A l m 0 = DOk [].
Proof. destruct fuel; reflexivity. Qed.

(* whatever rle::encode produced for ANY alphabet [A] -- the literals and the run lengths -- is
   expanded by the loop of rle::decode to the input *)
Theorem rle_core_roundtrip A : forall fuel src l m rest fuel2,
  (length src <= fuel)%nat -> (length src <= fuel2)%nat -> N.of_nat (length src) < 4294967296 ->
  rle_enc fuel A src = (l, m) ->
  rle_dec fuel2 A l (m ++ rest) (length src) = DOk src.
Proof.
  induction fuel as [|fu IH]; intros src l m rest fuel2 Hf Hf2 Hlen He.
  - destruct src; [|cbn [length] in Hf; lia]. apply rle_dec_zero.
  - destruct src as [|sym r]; [apply rle_dec_zero|].
    destruct fuel2 as [|fu2]; [cbn [length] in Hf2; lia|].
    cbn [rle_enc] in He. cbn [length] in *. cbn [rle_dec].
    replace (S (length r) =? 0)%nat with false by (symmetry; apply Nat.eqb_neq; lia).
    destruct (mem sym A) eqn:Em.
    + destruct (span_eq sym r) as [n t] eqn:Es.
      destruct (rle_enc fu A t) as [l' m'] eqn:Er. inversion He; subst l m.
      destruct (span_eq_spec sym r n t Es) as [Hr Hl].
      rewrite Em. rewrite <- app_assoc. rewrite uint7_roundtrip by lia.
      replace (Nat.min (N.to_nat n) (S (length r) - 1)) with (N.to_nat n) by lia.
      replace (S (length r) - 1 - N.to_nat n)%nat with (length t) by lia.
      rewrite (IH t l' m' rest fu2 ltac:(lia) ltac:(lia) ltac:(lia) Er).
      f_equal. f_equal. symmetry. exact Hr.
    + destruct (rle_enc fu A r) as [l' m'] eqn:Er. inversion He; subst l m.
      rewrite Em. replace (S (length r) - 1)%nat with (length r) by lia.
      rewrite (IH r l' m' rest fu2 ltac:(lia) ltac:(lia) ltac:(lia) Er). reflexivity.
Qed.

(* the RLE meta-data as the encoder lays it out (symbol count, alphabet, run lengths) is parsed
   and expanded by rle::decode *)
Theorem rle_roundtrip A src lits runs :
  (1 <= length A <= 256)%nat -> N.of_nat (length src) < 4294967296 ->
  rle_enc (length src) A src = (lits, runs) ->
  rle_decode lits (rle_alphabet_bytes A ++ runs) (length src) = DOk src.
Proof.
  intros HA Hlen He. unfold rle_decode, rle_alphabet_bytes, rle_read_alphabet. cbn [app].
  set (c := if (256 <=? length A)%nat then 0 else N.of_nat (length A)).
  assert (Hn : (if c =? 0 then 256%nat else N.to_nat c) = length A).
  { unfold c. destruct (256 <=? length A)%nat eqn:E.
    - apply Nat.leb_le in E. change (0 =? 0) with true. cbv iota. lia.
    - apply Nat.leb_gt in E. replace (N.of_nat (length A) =? 0) with false by lia. lia. }
  rewrite Hn.
  replace (length (A ++ runs) <? length A)%nat with false
    by (symmetry; apply Nat.ltb_ge; rewrite app_length; lia).
  rewrite firstn_app, Nat.sub_diag, firstn_all. cbn [firstn]. rewrite app_nil_r.
  rewrite skipn_app, Nat.sub_diag, skipn_all. cbn [skipn app].
  rewrite <- (app_nil_r runs).
  apply (rle_core_roundtrip A (length src) src lits runs [] (length src)); try lia. exact He.
Qed.

(* ---------- bit packing ---------- *)

Lemma index_of_spec x : forall syms, In x syms ->
  index_of x syms < N.of_nat (length syms) /\ nth (N.to_nat (index_of x syms)) syms 0 = x.
Proof.
  induction syms as [|y r IH]; intros Hin; [destruct Hin|].
  cbn [index_of]. destruct (y =? x) eqn:E.
  - assert (y = x) by lia. subst y. cbn [length nth]. split; [lia|reflexivity].
  - destruct Hin as [Hin|Hin]; [lia|]. destruct (IH Hin) as [H1 H2].
    cbn [length]. split; [lia|].
    replace (N.to_nat (1 + index_of x r)) with (S (N.to_nat (index_of x r))) by lia.
    cbn [nth]. exact H2.
Qed.

Lemma unpack_pack_byte syms w : 0 < w -> N.of_nat (length syms) <= w ->
  forall chunk, (forall x, In x chunk -> In x syms) ->
  unpack_byte syms w (pack_byte syms w chunk) (length chunk) = Some chunk.
Proof.
  intros Hw Hs. induction chunk as [|x r IH]; intros Hin; [reflexivity|].
  cbn [pack_byte length unpack_byte].
  destruct (index_of_spec x syms (Hin x (or_introl eq_refl))) as [Hi Hn].
  set (i := index_of x syms) in *. set (p := pack_byte syms w r) in *.
  assert (Hm : (i + w * p) mod w = i).
  { rewrite (N.mul_comm w p). rewrite N.mod_add by lia. apply N.mod_small. lia. }
  assert (Hd : (i + w * p) / w = p).
  { rewrite (N.mul_comm w p). rewrite N.div_add by lia. rewrite N.div_small by lia. lia. }
  rewrite Hm, Hd. replace (N.of_nat (length syms) <=? i) with false by lia.
  rewrite IH by (intros y Hy; apply Hin; right; exact Hy). rewrite Hn. reflexivity.
Qed.

Lemma unpack_pack_go syms cs w : (1 <= cs)%nat -> 0 < w -> N.of_nat (length syms) <= w ->
  forall fuel src, (length src <= fuel)%nat -> (forall x, In x src -> In x syms) ->
  unpack_go syms cs w (pack_go fuel syms cs w src) (length src) = Some src.
Proof.
  intros Hcs Hw Hs. induction fuel as [|fu IH]; intros src Hf Hin.
  - destruct src; [reflexivity|cbn [length] in Hf; lia].
  - destruct src as [|x r]; [reflexivity|].
    set (src := x :: r) in *. cbn [pack_go]. unfold src at 1. fold src. cbn [unpack_go].
    replace (length src =? 0)%nat with false by (symmetry; apply Nat.eqb_neq; unfold src; cbn [length]; lia).
    assert (Hfl : Nat.min cs (length src) = length (firstn cs src)) by (rewrite firstn_length; reflexivity).
    rewrite Hfl.
    rewrite (unpack_pack_byte syms w Hw Hs (firstn cs src)).
    2:{ intros y Hy. apply Hin. rewrite <- (firstn_skipn cs src). apply in_or_app. left. exact Hy. }
    replace (length src - length (firstn cs src))%nat with (length (skipn cs src))
      by (rewrite skipn_length, firstn_length; lia).
    rewrite IH.
    + rewrite firstn_skipn. reflexivity.
    + rewrite skipn_length. unfold src in *. cbn [length] in *. lia.
    + intros y Hy. apply Hin. rewrite <- (firstn_skipn cs src). apply in_or_app. right. exact Hy.
Qed.

Lemma all_equal_repeat (s : N) : forall src, (forall x, In x src -> x = s) -> src = repeat s (length src).
Proof.
  induction src as [|x r IH]; intros H; [reflexivity|]. cbn [length repeat].
  rewrite (H x (or_introl eq_refl)). f_equal. apply IH. intros y Hy. apply H. right. exact Hy.
Qed.

(* bit_pack::decode undoes bit_pack::encode for EVERY table of 1..16 symbols that contains the
   symbols of the input: all four width classes (0, 1, 2, 4 bits per symbol), any length
   (including a last, partially filled byte) *)
Theorem pack_roundtrip syms src :
  (1 <= length syms <= 16)%nat -> (forall x, In x src -> In x syms) ->
  pack_decode syms (pack_encode syms src) (length src) = DOk src.
Proof.
  intros Hn Hin. unfold pack_decode, pack_encode, pack_geom.
  destruct (length syms =? 0)%nat eqn:E0; [apply Nat.eqb_eq in E0; lia|].
  destruct (length syms =? 1)%nat eqn:E1.
  { apply Nat.eqb_eq in E1. destruct syms as [|s [|s' r]]; try discriminate E1.
    cbn [nth]. f_equal. symmetry. apply all_equal_repeat. intros x Hx.
    destruct (Hin x Hx) as [H|[]]. symmetry. exact H. }
  apply Nat.eqb_neq in E1.
  destruct (length syms <=? 2)%nat eqn:E2.
  { apply Nat.leb_le in E2. rewrite unpack_pack_go; try lia; try assumption. reflexivity. }
  apply Nat.leb_gt in E2.
  destruct (length syms <=? 4)%nat eqn:E4.
  { apply Nat.leb_le in E4. rewrite unpack_pack_go; try lia; try assumption. reflexivity. }
  apply Nat.leb_gt in E4.
  replace (length syms <=? 16)%nat with true by (symmetry; apply Nat.leb_le; lia).
  rewrite unpack_pack_go; try lia; try assumption. reflexivity.
Qed.

(* ---------- build_alphabet marks every symbol of the input ---------- *)

Lemma mark_fold : forall src t x, length t = 256%nat -> x < 256 ->
  In x src \/ nth (N.to_nat x) t 0 = 1 ->
  nth (N.to_nat x) (fold_left (fun t b => upd t (N.to_nat b) 1) src t) 0 = 1.
Proof.
  induction src as [|b r IH]; intros t x Hl Hx H; cbn [fold_left].
  - destruct H as [[]|H]. exact H.
  - apply IH; [rewrite upd_length; exact Hl|exact Hx|].
    destruct (N.eq_dec b x) as [->|Hne].
    + right. apply nth_upd_eq. lia.
    + destruct H as [[H|H]|H]; [congruence|left; exact H|].
      right. rewrite nth_upd_neq by lia. exact H.
Qed.

Lemma in_all_syms x : x < 256 -> In x all_syms.
Proof.
  intros Hx. unfold all_syms. apply in_map_iff. exists (N.to_nat x). split; [lia|].
  apply in_seq. lia.
Qed.

Lemma present_complete src x : Forall (fun b => b < 256) src -> In x src -> In x (present src).
Proof.
  intros Hb Hin. rewrite Forall_forall in Hb. specialize (Hb x Hin).
  unfold present. apply filter_In. split; [apply in_all_syms; exact Hb|].
  rewrite mark_fold; [reflexivity|apply repeat_length|exact Hb|left; exact Hin].
Qed.

Lemma pack_build_spec src syms : pack_build src = Some syms ->
  syms = present src /\ (1 <= length syms <= 16)%nat.
Proof.
  unfold pack_build. generalize (present src) as p. intros p. cbv zeta.
  destruct (Nat.eqb (length p) 0) eqn:E0; [intros H; discriminate H|].
  destruct (Nat.ltb 16 (length p)) eqn:E16; [intros H; discriminate H|].
  cbn [orb]. intros H. inversion H; subst syms. split; [reflexivity|].
  apply Nat.eqb_neq in E0. apply Nat.ltb_ge in E16. split; [|exact E16].
  destruct (length p); [congruence|apply le_n_S, Nat.le_0_l].
Qed.

(* bit packing with the context build_context derives from the input itself *)
Theorem pack_build_roundtrip src syms :
  Forall (fun b => b < 256) src -> pack_build src = Some syms ->
  pack_decode syms (pack_encode syms src) (length src) = DOk src.
Proof.
  intros Hb H. destruct (pack_build_spec src syms H) as [Hs Hn].
  apply pack_roundtrip; [exact Hn|]. intros x Hx. rewrite Hs. apply present_complete; assumption.
Qed.

(* ---------- the whole CAT stream ---------- *)

Lemma split_off_exact l : split_off l (length l) = Some (l, []).
Proof.
  unfold split_off. rewrite Nat.ltb_irrefl, firstn_all, skipn_all. reflexivity.
Qed.


(* flags without STRIPE/PACK/RLE whose data is stored verbatim -- CAT given, or forced by the
   encoder because fewer than N (4 or 32) bytes are to be coded: noodles' decoder returns the
   input from the emitted stream, with or without the size field (NO_SIZE) *)
Theorem nx_cat_roundtrip f src :
  f_stripe f = false -> f_pack f = false -> f_rle f = false ->
  f_cat f = true \/ (length src < state_count f)%nat ->
  N.of_nat (length src) < 4294967296 ->
  exists bytes, nx_encode f src = NxOk bytes /\ nx_decode bytes (N.of_nat (length src)) = DOk src.
Proof.
  intros Hst Hpk Hrl Hcat Hlen. unfold nx_encode, nx_pack_stage, nx_rle_stage.
  rewrite Hst, Hpk, Hrl.
  set (f3 := if (length src <? state_count f)%nat then force_cat f else f).
  assert (H3 : f_cat f3 = true /\ f_stripe f3 = false /\ f_pack f3 = false /\ f_rle f3 = false /\
               f_nosize f3 = f_nosize f).
  { unfold f3. destruct (length src <? state_count f)%nat eqn:E.
    - cbn. repeat split; assumption.
    - apply Nat.ltb_ge in E. destruct Hcat as [Hc|Hc]; [|lia]. repeat split; assumption. }
  destruct H3 as [C3 [S3 [P3 [R3 N3]]]].
  rewrite C3. eexists. split; [reflexivity|].
  cbn [nx_decode app]. destruct (nx_flags_roundtrip f3) as [Hfb _]. rewrite Hfb.
  rewrite S3, P3, R3, C3, N3.
  destruct (f_nosize f).
  - cbn [app]. rewrite Nnat.Nat2N.id, split_off_exact. reflexivity.
  - rewrite uint7_roundtrip by exact Hlen. rewrite Nnat.Nat2N.id, split_off_exact. reflexivity.
Qed.

(* the repaired CAT branch (497e771): a payload shorter than the declared size is an ERROR
   (UnexpectedEof), where dst.copy_from_slice(src) used to panic; a longer one is cut *)
Theorem nx_cat_short_payload_is_error f size payload usize :
  f_stripe f = false -> f_pack f = false -> f_rle f = false -> f_cat f = true ->
  f_nosize f = false -> size < 4294967296 -> N.of_nat (length payload) < size ->
  nx_decode (byte_of_flags f :: write_uint7 size ++ payload) usize = DErr.
Proof.
  intros Hst Hpk Hrl Hcat Hns Hsz Hshort. cbn [nx_decode].
  destruct (nx_flags_roundtrip f) as [Hfb _]. rewrite Hfb. rewrite Hns, Hst, Hpk, Hrl, Hcat.
  rewrite uint7_roundtrip by exact Hsz. unfold split_off.
  replace (length payload <? N.to_nat size)%nat with true by (symmetry; apply Nat.ltb_lt; lia).
  reflexivity.
Qed.

Theorem nx_cat_long_payload_is_cut f src extra usize :
  f_stripe f = false -> f_pack f = false -> f_rle f = false -> f_cat f = true ->
  f_nosize f = false -> N.of_nat (length src) < 4294967296 ->
  nx_decode (byte_of_flags f :: write_uint7 (N.of_nat (length src)) ++ src ++ extra) usize = DOk src.
Proof.
  intros Hst Hpk Hrl Hcat Hns Hsz. cbn [nx_decode].
  destruct (nx_flags_roundtrip f) as [Hfb _]. rewrite Hfb. rewrite Hns, Hst, Hpk, Hrl, Hcat.
  rewrite uint7_roundtrip by exact Hsz. rewrite Nnat.Nat2N.id. unfold split_off.
  replace (length (src ++ extra) <? length src)%nat with false
    by (symmetry; apply Nat.ltb_ge; rewrite app_length; lia).
  rewrite firstn_app, Nat.sub_diag, firstn_all. cbn [firstn]. rewrite app_nil_r. reflexivity.
Qed.

(* the repaired unpack (464651e): a packed value without an entry in the mapping table is an ERROR
   (InvalidData), where mapping_table[..] used to panic *)
Theorem pack_decode_bad_value_is_error table w cs s rest n :
  pack_geom (length table) = Some (S cs, w) -> (1 <= n)%nat ->
  N.of_nat (length table) <= s mod w ->
  pack_decode table (s :: rest) n = DErr.
Proof.
  intros Hg Hn Hbad. unfold pack_decode. rewrite Hg. cbn [unpack_go].
  replace (n =? 0)%nat with false by (symmetry; apply Nat.eqb_neq; lia).
  destruct (Nat.min (S cs) n) as [|m] eqn:Em; [lia|]. cbn [unpack_byte].
  replace (N.of_nat (length table) <=? s mod w) with true by lia. reflexivity.
Qed.

(* ---------- the decoder model never panics ---------- *)

Lemma rle_dec_never_panics : forall fuel A l m n, rle_dec fuel A l m n <> DPanic.
Proof.
  induction fuel as [|fu IH]; intros A l m n; cbn [rle_dec]; [discriminate|].
  destruct (n =? 0)%nat; [discriminate|]. destruct l as [|sym lr]; [discriminate|].
  destruct (mem sym A).
  - destruct (read_uint7 m) as [len m'| |]; try discriminate.
    destruct (rle_dec fu A lr m' (n - 1 - Nat.min (N.to_nat len) (n - 1))) eqn:E; try discriminate.
    exfalso. exact (IH _ _ _ _ E).
  - destruct (rle_dec fu A lr m (n - 1)) eqn:E; try discriminate.
    exfalso. exact (IH _ _ _ _ E).
Qed.

Lemma rle_decode_never_panics l meta n : rle_decode l meta n <> DPanic.
Proof.
  unfold rle_decode. destruct (rle_read_alphabet meta) as [[A m]|]; [|discriminate].
  apply rle_dec_never_panics.
Qed.

Lemma pack_decode_never_panics table d n : pack_decode table d n <> DPanic.
Proof.
  unfold pack_decode. destruct (pack_geom (length table)) as [[cs w]|]; [|discriminate].
  destruct cs; [discriminate|]. destruct (unpack_go table (S cs) w d n); discriminate.
Qed.

(* for EVERY byte string and caller size the model of the repaired decoder returns bytes, an
   io::Error, or reaches an unmodelled stage -- it has no panicking path left *)
Theorem nx_decode_never_panics bs usize : nx_decode bs usize <> DPanic.
Proof.
  unfold nx_decode. destruct bs as [|fb r0]; [discriminate|].
  set (f := flags_of_byte fb). clearbody f.
  destruct (if f_nosize f then U7Ok usize r0 else read_uint7 r0) as [size0 r1| |]; try discriminate.
  destruct (f_stripe f); [discriminate|].
  match goal with |- match ?x with _ => _ end <> _ => destruct x as [[[pctx size1] r2]|] end;
    [|discriminate].
  match goal with |- match ?x with _ => _ end <> _ => destruct x as [[[[rctx size2] r3]|u]|] end;
    try discriminate.
  destruct (f_cat f); [|discriminate].
  destruct (split_off r3 (N.to_nat size2)) as [[payload rest]|]; [|discriminate].
  destruct rctx as [meta|].
  - destruct (rle_decode payload meta (N.to_nat size1)) eqn:E; try discriminate.
    + destruct pctx; [apply pack_decode_never_panics|discriminate].
    + exfalso. exact (rle_decode_never_panics _ _ _ E).
  - destruct pctx; [apply pack_decode_never_panics|discriminate].
Qed.

(* the statement for every transform combination, NOT proved as a whole: the PACK and RLE context
   layouts composed with the component round trips above *)
Definition nx_xform_full_statement : Prop :=
  forall f src bytes, Forall (fun x => x < 256) src -> N.of_nat (length src) < 2147483648 ->
    nx_encode f src = NxOk bytes -> nx_decode bytes (N.of_nat (length src)) = DOk src.
