(* fqzcomp HAVE_QMAP: the decoder with the quality map (NV.Cram.FqzQmap) against the plain decoder.

     fqz_dec_loop_qm_none      without a map the loop IS the loop of Fqz.v
     fqz_dec_loop_qm_spec      with a map: the plain loop's symbols mapped one by one; a symbol
                               outside the map = error (whatever happens later); no new panic
     fqz_decode_qm_conservative  on every stream the old model supports the two decoders agree
     fqz_decode_qm_never_panics
     fqz_decode_qm_spec        stream level: a stream with HAVE_QMAP decodes to the map applied to
                               what the same stream without the flag bit and without the map bytes
                               decodes to *)
From Coq Require Import List NArith ZArith Lia Bool PeanoNat.
From NV Require Import Cram.Bytes Cram.Vlq Cram.IntProofs Cram.Rans4x8 Cram.Nx16Xform Cram.Nx16O0 Cram.Nx16O0Total
  Cram.Aac Cram.AacTotal Cram.Fqz Cram.FqzProofs Cram.FqzTotal Cram.FqzQmap.
Import ListNotations.
Open Scope N_scope.

Lemma fqz_dec_loop_qm_none : forall k pr ms st first pos last_len ctx q_ctx bs,
  fqz_dec_loop_qm k pr None ms st first pos last_len ctx q_ctx bs
  = fqz_dec_loop k pr ms st first pos last_len ctx q_ctx bs.
Proof.
  induction k as [|k' IH]; intros; cbn [fqz_dec_loop fqz_dec_loop_qm]; [reflexivity|].
  match goal with |- match ?X with ROk _ => _ | RErr => _ | RPanic => _ end = _ =>
    destruct X as [[[[[[[ls' st1] b1] pos1] last_len1] ctx1] q_ctx1]| |]; [|reflexivity|reflexivity] end.
  cbv zeta.
  destruct (model_decode (qual_get (fq_qual ms) (fq_dflt ms) ctx1) st1 b1) as [[[[m' st2] q] b2]| |];
    [|reflexivity|reflexivity].
  cbn [qm_lookup]. destruct (fqz_ctx pr q_ctx1 q pos1) as [q_ctx2 ctx2].
  rewrite IH.
  match goal with |- match ?X with ROk _ => _ | RErr => _ | RPanic => _ end = _ => destruct X; reflexivity end.
Qed.

(* relation between the plain loop's answer and the mapped loop's answer *)
Definition qm_rel (qmap : option (list N)) (old new : res (list N)) : Prop :=
  match old with
  | ROk out => new = qm_post qmap (ROk out)
  | RErr => new = RErr
  | RPanic => new = RPanic \/ new = RErr
  end.

Lemma fqz_dec_loop_qm_spec : forall k pr qmap ms st first pos last_len ctx q_ctx bs,
  qm_rel qmap (fqz_dec_loop k pr ms st first pos last_len ctx q_ctx bs)
              (fqz_dec_loop_qm k pr qmap ms st first pos last_len ctx q_ctx bs).
Proof.
  induction k as [|k' IH]; intros; cbn [fqz_dec_loop fqz_dec_loop_qm]; [reflexivity|].
  match goal with |- qm_rel _ (match ?X with ROk _ => _ | RErr => _ | RPanic => _ end) _ =>
    destruct X as [[[[[[[ls' st1] b1] pos1] last_len1] ctx1] q_ctx1]| |];
      [|reflexivity|left; reflexivity] end.
  cbv zeta.
  destruct (model_decode (qual_get (fq_qual ms) (fq_dflt ms) ctx1) st1 b1) as [[[[m' st2] q] b2]| |];
    [|reflexivity|left; reflexivity].
  destruct (fqz_ctx pr q_ctx1 q pos1) as [q_ctx2 ctx2] eqn:EC.
  specialize (IH pr qmap {| fq_qual := qual_set (fq_qual ms) ctx1 m'; fq_dflt := fq_dflt ms; fq_len := ls' |}
                 st2 false (pos1 - 1) last_len1 ctx2 q_ctx2 b2).
  destruct (fqz_dec_loop k' pr _ st2 false (pos1 - 1) last_len1 ctx2 q_ctx2 b2) as [out| |];
    unfold qm_rel in IH |- *; cbn [qm_post qm_map_all] in IH |- *.
  - destruct (qm_lookup qmap q) as [v|]; [|reflexivity].
    rewrite IH. destruct (qm_map_all qmap out); reflexivity.
  - destruct (qm_lookup qmap q) as [v|]; [|reflexivity]. rewrite IH. reflexivity.
  - destruct (qm_lookup qmap q) as [v|]; [|right; reflexivity].
    destruct IH as [IH|IH]; rewrite IH; [left|right]; reflexivity.
Qed.

Lemma fqz_dec_loop_qm_never_panics k pr qmap ms st first pos last_len ctx q_ctx bs :
  fqz_ok ms -> rc_ok st -> Forall byte bs ->
  fqz_dec_loop_qm k pr qmap ms st first pos last_len ctx q_ctx bs <> RPanic.
Proof.
  intros Hms Hst HP E.
  pose proof (fqz_dec_loop_qm_spec k pr qmap ms st first pos last_len ctx q_ctx bs) as R.
  pose proof (fqz_dec_loop_never_panics k pr ms st first pos last_len ctx q_ctx bs Hms Hst HP) as Hnp.
  rewrite E in R. unfold qm_rel in R.
  destruct (fqz_dec_loop k pr ms st first pos last_len ctx q_ctx bs) as [out| |].
  - cbn [qm_post] in R. destruct (qm_map_all qmap out); discriminate.
  - discriminate.
  - apply Hnp; reflexivity.
Qed.

(* ---------- fqzcomp::decode ---------- *)

(* every stream the model of the earlier rounds answers (bytes or an error) gets the same answer *)
Theorem fqz_decode_qm_conservative bs :
  fqz_decode bs <> FUnsupported -> fqz_decode_qm bs = fqz_decode bs.
Proof.
  unfold fqz_decode_qm, fqz_decode. intros H.
  destruct (read_uint7 bs) as [size b0| |]; try reflexivity.
  destruct b0 as [|ver [|gfl b1]]; try reflexivity.
  destruct (negb (ver =? 5)); [reflexivity|].
  destruct (negb (gfl mod 8 =? 0)); [reflexivity|].
  destruct b1 as [|c0 [|c1 [|pfl [|maxsym [|qq [|qs [|pd b2]]]]]]]; try reflexivity.
  unfold read_qmap.
  destruct ((pfl / 2) mod 2 =? 0); [|exfalso; apply H; reflexivity].
  destruct ((pfl / 8) mod 2 =? 0); [|exfalso; apply H; reflexivity].
  destruct ((pfl / 16) mod 2 =? 0); [|exfalso; apply H; reflexivity].
  destruct ((pfl / 64) mod 2 =? 0); [|exfalso; apply H; reflexivity].
  destruct ((pfl / 128) mod 2 =? 0); [|exfalso; apply H; reflexivity].
  cbn [negb orb].
  match goal with |- match ?X with Some _ => _ | None => _ end = _ =>
    destruct X as [[ptab b3]|]; [|reflexivity] end.
  cbv zeta. destruct (rc_dec_new b3) as [[st b4]|]; [|reflexivity].
  rewrite fqz_dec_loop_qm_none. reflexivity.
Qed.

Lemma read_qmap_rest pfl maxsym bs qmap r :
  read_qmap pfl maxsym bs = Some (qmap, r) -> Forall byte bs -> Forall byte r.
Proof.
  unfold read_qmap. intros H HP. destruct ((pfl / 16) mod 2 =? 0).
  - inversion H; subst. exact HP.
  - unfold split_off in H. destruct (length bs <? N.to_nat maxsym)%nat; [discriminate|].
    inversion H; subst. apply skipn_Forall_g. exact HP.
Qed.

(* no panic on any byte string: a symbol outside the map and a short map are errors *)
Theorem fqz_decode_qm_never_panics : forall bs,
  Forall (fun b => b < 256) bs -> fqz_decode_qm bs <> FPanic.
Proof.
  intros bs HP. unfold fqz_decode_qm.
  destruct (read_uint7 bs) as [size b0| |] eqn:EU; try discriminate.
  pose proof (read_uint7_rest _ _ _ _ EU HP) as HP0.
  destruct b0 as [|ver [|gfl b1]]; try discriminate.
  pose proof (Forall_inv_tail (Forall_inv_tail HP0)) as HP1.
  destruct (negb (ver =? 5)); [discriminate|].
  destruct (negb (gfl mod 8 =? 0)); [discriminate|].
  destruct b1 as [|c0 [|c1 [|pfl [|maxsym [|qq [|qs [|pd b2]]]]]]]; try discriminate.
  pose proof (Forall_inv_tail (Forall_inv_tail (Forall_inv_tail HP1))) as HPm.
  pose proof (Forall_inv HPm) as Hmax. cbv beta in Hmax.
  pose proof (Forall_inv_tail (Forall_inv_tail (Forall_inv_tail (Forall_inv_tail HPm)))) as HP2.
  match goal with |- (if ?c then _ else _) <> _ => destruct c; [discriminate|] end.
  destruct (read_qmap pfl maxsym b2) as [[qmap b2']|] eqn:EQ; [|discriminate].
  pose proof (read_qmap_rest _ _ _ _ _ EQ HP2) as HP2'.
  match goal with |- match ?X with Some _ => _ | None => _ end <> _ =>
    destruct X as [[ptab b3]|] eqn:EA; [|discriminate] end.
  assert (HP3 : Forall byte b3).
  { destruct ((pfl / 32) mod 2 =? 0).
    - inversion EA; subst. exact HP2'.
    - destruct (read_array b2' 1024) as [[t r]|] eqn:ER; [|discriminate].
      inversion EA; subst. eapply read_array_rest; [exact ER|exact HP2']. }
  cbv zeta.
  destruct (rc_dec_new b3) as [[st b4]|] eqn:ERC; [|discriminate].
  destruct (rc_dec_new_ok _ _ _ HP3 ERC) as [Hst HP4].
  match goal with |- match ?X with ROk _ => _ | RErr => _ | RPanic => _ end <> _ =>
    assert (Hnp : X <> RPanic); [|destruct X; [discriminate|discriminate|exfalso; apply Hnp; reflexivity]] end.
  apply fqz_dec_loop_qm_never_panics; [|exact Hst|exact HP4].
  apply fqz_models_new_ok. lia.
Qed.

(* what the map does to a whole answer *)
Definition qm_post_f (qm : list N) (r : fqzd_result) : fqzd_result :=
  match r with
  | FOk out => match qm_map_all (Some qm) out with Some o => FOk o | None => FErr end
  | r => r
  end.

(* STREAM LEVEL.  [bs] carries HAVE_QMAP and the max_symbol map bytes [qm]; [bs'] is the same
   stream with a parameter flag byte that differs in that bit only and without the map bytes.
   Then decode bs = the map applied to decode bs' (FOk: symbol by symbol, a symbol outside the
   map = error; errors and `unsupported' are kept). *)
Theorem fqz_decode_qm_spec bs bs' size ver gfl c0 c1 pfl pfl' maxsym qq qs pd qm rest :
  read_uint7 bs = U7Ok size (ver :: gfl :: c0 :: c1 :: pfl :: maxsym :: qq :: qs :: pd :: qm ++ rest) ->
  read_uint7 bs' = U7Ok size (ver :: gfl :: c0 :: c1 :: pfl' :: maxsym :: qq :: qs :: pd :: rest) ->
  length qm = N.to_nat maxsym ->
  (pfl / 16) mod 2 = 1 -> (pfl' / 16) mod 2 = 0 ->
  (pfl' / 2) mod 2 = (pfl / 2) mod 2 -> (pfl' / 4) mod 2 = (pfl / 4) mod 2 ->
  (pfl' / 8) mod 2 = (pfl / 8) mod 2 -> (pfl' / 32) mod 2 = (pfl / 32) mod 2 ->
  (pfl' / 64) mod 2 = (pfl / 64) mod 2 -> (pfl' / 128) mod 2 = (pfl / 128) mod 2 ->
  Forall (fun b => b < 256) bs' ->
  fqz_decode_qm bs = qm_post_f qm (fqz_decode_qm bs').
Proof.
  intros E E' Hlen H16 H16' H2 H4 H8 H32 H64 H128 HP.
  pose proof (fqz_decode_qm_never_panics bs' HP) as Hnp. revert Hnp.
  unfold fqz_decode_qm. rewrite E, E'.
  destruct (negb (ver =? 5)); [reflexivity|].
  destruct (negb (gfl mod 8 =? 0)); [reflexivity|].
  rewrite H2, H8, H64, H128.
  match goal with |- context [if ?c then FUnsupported else _] => destruct c; [reflexivity|] end.
  unfold read_qmap. rewrite H16, H16'. change (1 =? 0) with false. change (0 =? 0) with true. cbv iota.
  unfold split_off. rewrite app_length, <- Hlen.
  replace (length qm + length rest <? length qm)%nat with false
    by (symmetry; apply Nat.ltb_ge; lia).
  rewrite firstn_app, Nat.sub_diag, firstn_all, firstn_O, app_nil_r.
  rewrite skipn_app, Nat.sub_diag, skipn_all, skipn_O, app_nil_l.
  cbv iota. rewrite H32, H4.
  match goal with |- context [match ?X with Some _ => _ | None => FErr end] =>
    destruct X as [[ptab b3]|]; [|reflexivity] end.
  cbv zeta. destruct (rc_dec_new b3) as [[st b4]|]; [|reflexivity].
  rewrite fqz_dec_loop_qm_none.
  match goal with |- context [fqz_dec_loop_qm ?k ?pr (Some qm) ?ms st true 0 0 0 0 b4] =>
    pose proof (fqz_dec_loop_qm_spec k pr (Some qm) ms st true 0 0 0 0 b4) as R;
    destruct (fqz_dec_loop k pr ms st true 0 0 0 0 b4) as [out| |];
    unfold qm_rel in R; rewrite ?R end.
  - intros _. cbn [qm_post qm_post_f]. destruct (qm_map_all (Some qm) out); reflexivity.
  - intros _. reflexivity.
  - intros Hnp. exfalso. apply Hnp. reflexivity.
Qed.

Print Assumptions fqz_decode_qm_spec.
Print Assumptions fqz_decode_qm_never_panics.
Print Assumptions fqz_decode_qm_conservative.
