(* CRAM 3.1 adaptive arithmetic coder, whole streams: PACK / CAT / size field around the order-0 or
   order-1 coder, and STRIPE with its recursive decoder -- given that the entropy coders themselves
   round trip (aac_ent_ok; NV.Cram.AacProofs proves it for order 0). *)
From Coq Require Import List NArith ZArith Lia Bool PeanoNat.
From Coq Require Import ZifyBool ZifyNat ZifyN.
From NV Require Import Cram.Bytes Cram.Vlq Cram.IntProofs Cram.Rans4x8 Cram.Rans4x8Proofs
  Cram.Nx16Xform Cram.Nx16XformProofs Cram.Nx16O0 Cram.Nx16O0Total Cram.Nx16Full Cram.Nx16FullProofs
  Cram.Nx16Stripe Cram.Nx16StripeLists Cram.Nx16StripeProofs Cram.Aac Cram.AacModes.
Import ListNotations.
Ltac Zify.zify_post_hook ::= Z.div_mod_to_equations.
Open Scope N_scope.
Arguments N.add : simpl never.
Arguments N.sub : simpl never.
Arguments N.mul : simpl never.
Arguments N.div : simpl never.
Arguments N.modulo : simpl never.
Arguments N.pow : simpl never.
Arguments N.ltb : simpl never.
Arguments N.leb : simpl never.
Arguments N.eqb : simpl never.

(* what an entropy stage has to provide *)
Definition aac_ent_ok (enc : list N -> option (list N)) (dec : list N -> nat -> res (list N)) : Prop :=
  forall src, src <> [] -> Forall (fun b => b < 256) src ->
    exists body, enc src = Some body /\ dec body (length src) = ROk src.

(* STRIPE-free streams: every flag byte without RLE and EXT *)
Theorem aac_full_roundtrip_gen f src :
  (f_order f = false -> aac_ent_ok aac_o0_encode aac_o0_decode) ->
  (f_order f = true -> aac_ent_ok aac_o1_encode aac_o1_decode) ->
  f_stripe f = false -> f_rle f = false -> f_n32 f = false ->
  Forall (fun b => b < 256) src -> N.of_nat (length src) < 4294967296 ->
  exists bytes, aac_encode1 f src = AeOk bytes /\ aac_decode1 bytes (N.of_nat (length src)) = DOk src.
Proof.
  intros HO0 HO1 Hstripe Hrle Hext Hb Hlen. unfold aac_encode1. rewrite Hstripe.
  destruct (nx_pack_stage f src) as [[f1 s1] h1] eqn:E1.
  destruct (pack_stage_spec f src f1 s1 h1 E1 Hb Hlen)
    as [[Ho1 [_ [Hn1 [Hs1 [Hz1 Hc1]]]]] [Hr1 [Hb1 [Hl1 [pc [Hpc Hpd]]]]]].
  set (f2 := match s1 with
             | [] => {| f_order := f_order f1; f_res := f_res f1; f_n32 := f_n32 f1; f_stripe := f_stripe f1;
                        f_nosize := f_nosize f1; f_cat := true; f_rle := f_rle f1; f_pack := f_pack f1 |}
             | _ => f1
             end).
  assert (H2 : f_stripe f2 = false /\ f_nosize f2 = f_nosize f /\ f_pack f2 = f_pack f1 /\
               f_rle f2 = false /\ f_n32 f2 = false /\ f_order f2 = f_order f /\
               (f_cat f2 = false -> s1 <> [])).
  { unfold f2. destruct s1 as [|x r].
    - cbn [force_cat f_order f_res f_n32 f_stripe f_nosize f_cat f_rle f_pack state_count]. repeat split; try congruence; try discriminate.
    - repeat split; try congruence; try (intros _; discriminate). }
  destruct H2 as [S2 [N2 [P2 [R2 [X2 [O2 L2]]]]]]. clearbody f2.
  assert (Hhead : forall body,
    aac_decode1 (byte_of_flags f2 :: (if f_nosize f then [] else write_uint7 (N.of_nat (length src)))
                 ++ h1 ++ body) (N.of_nat (length src)) =
    match (if f_cat f2 then
             match split_off body (N.to_nat (N.of_nat (length s1))) with
             | None => DErr
             | Some (payload, _) => DOk payload
             end
           else match (if f_order f2 then aac_o1_decode body (N.to_nat (N.of_nat (length s1)))
                       else aac_o0_decode body (N.to_nat (N.of_nat (length s1)))) with
                | ROk d => DOk d
                | RErr => DErr
                | RPanic => DPanic
                end) with
    | DOk d =>
      match pc with
      | Some table => pack_decode table d (N.to_nat (N.of_nat (length src)))
      | None => DOk d
      end
    | DErr => DErr
    | DPanic => DPanic
    | DUnsupported => DUnsupported
    end).
  { intros body. cbn [aac_decode1]. destruct (nx_flags_roundtrip f2) as [Hfb _]. rewrite Hfb.
    rewrite N2, S2, P2, R2, X2. cbn [orb].
    assert (Hsz : (if f_nosize f
                   then U7Ok (N.of_nat (length src))
                          ((if f_nosize f then [] else write_uint7 (N.of_nat (length src))) ++ h1 ++ body)
                   else read_uint7 ((if f_nosize f then [] else write_uint7 (N.of_nat (length src))) ++ h1 ++ body))
                  = U7Ok (N.of_nat (length src)) (h1 ++ body)).
    { destruct (f_nosize f); [reflexivity|]. apply uint7_roundtrip. lia. }
    rewrite Hsz. rewrite Hpc.
    match goal with |- match ?X with _ => _ end = _ => destruct X as [d| | |] end; reflexivity. }
  destruct (f_cat f2) eqn:Ecat.
  - eexists. split; [reflexivity|]. rewrite Hhead. rewrite Nnat.Nat2N.id.
    rewrite <- (app_nil_r s1) at 1. rewrite split_off_app. rewrite Nnat.Nat2N.id. exact Hpd.
  - rewrite R2, X2. cbn [orb]. specialize (L2 eq_refl).
    assert (Hent : exists body,
               (if f_order f2 then aac_o1_encode s1 else aac_o0_encode s1) = Some body /\
               (if f_order f2 then aac_o1_decode body (length s1) else aac_o0_decode body (length s1)) = ROk s1).
    { destruct (f_order f2) eqn:Eord.
      - apply (HO1 ltac:(congruence)); assumption.
      - apply (HO0 ltac:(congruence)); assumption. }
    destruct Hent as [body [Henc Hdec]]. rewrite Henc. eexists. split; [reflexivity|].
    rewrite Hhead. rewrite !Nnat.Nat2N.id. rewrite Hdec. exact Hpd.
Qed.
