(* Basic facts about the hostile-size guards of NV.Cram.Cap. *)
From Coq Require Import List NArith ZArith Lia Bool PeanoNat.
From Coq Require Import ZifyBool ZifyNat ZifyN.
From NV Require Import Cram.Nx16Xform Cram.Cap.
Import ListNotations.
Open Scope N_scope.

(* the guarded split IS split_off: the guard only avoids converting a size that cannot fit *)
Lemma split_off_n_eq (bs : list N) (n : N) : split_off_n bs n = split_off bs (N.to_nat n).
Proof.
  unfold split_off_n, split_off.
  destruct (N.of_nat (length bs) <? n) eqn:E.
  - apply N.ltb_lt in E.
    replace (length bs <? N.to_nat n)%nat with true; [reflexivity|].
    symmetry. apply Nat.ltb_lt. lia.
  - reflexivity.
Qed.

Lemma split_off_n_nat (bs : list N) (k : nat) : split_off_n bs (N.of_nat k) = split_off bs k.
Proof. rewrite split_off_n_eq, Nnat.Nat2N.id. reflexivity. Qed.

(* clamping before the conversion = clamping after it *)
Lemma min_n_nat_eq (len : N) (k : nat) : min_n_nat len k = Nat.min (N.to_nat len) k.
Proof. unfold min_n_nat. lia. Qed.

(* an output-size site: Capped, or the uncapped continuation *)
Lemma with_cap_cases {A : Type} (cap n : N) (k : nat -> capped A) :
  (cap < n /\ with_cap cap n k = Capped) \/ (n <= cap /\ with_cap cap n k = k (N.to_nat n)).
Proof.
  unfold with_cap. destruct (cap <? n) eqn:E.
  - left. apply N.ltb_lt in E. split; [exact E|reflexivity].
  - right. apply N.ltb_ge in E. split; [exact E|reflexivity].
Qed.

Lemma with_cap_within {A : Type} (cap n : N) (k : nat -> capped A) :
  n <= cap -> with_cap cap n k = k (N.to_nat n).
Proof. intros H. unfold with_cap. replace (cap <? n) with false by lia. reflexivity. Qed.

Lemma with_cap_nat {A : Type} (cap : N) (m : nat) (k : nat -> capped A) :
  N.of_nat m <= cap -> with_cap cap (N.of_nat m) k = k m.
Proof. intros H. rewrite with_cap_within by exact H. rewrite Nnat.Nat2N.id. reflexivity. Qed.

(* the refinement relation: the capped answer is Capped or the uncapped answer *)
Definition refines {A : Type} (c : capped A) (a : A) : Prop := c = Capped \/ c = Within a.

Lemma refines_within {A : Type} (a : A) : refines (Within a) a.
Proof. right. reflexivity. Qed.

Lemma refines_capped {A : Type} (a : A) : refines Capped a.
Proof. left. reflexivity. Qed.

Lemma with_cap_refines {A : Type} (cap n : N) (k : nat -> capped A) (a : A) :
  refines (k (N.to_nat n)) a -> refines (with_cap cap n k) a.
Proof.
  intros H. destruct (with_cap_cases cap n k) as [[_ E]|[_ E]]; rewrite E; [apply refines_capped|exact H].
Qed.
