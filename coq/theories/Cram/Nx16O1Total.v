(* TOTALITY of the rANS Nx16 ORDER-1 decoder model (NV.Cram.Nx16O1.nxd1_decode, any state count
   > 0) and of the whole-stream decoder NV.Cram.Nx16Full.nx_decode_e (PACK / RLE / CAT in front of
   the order-0 or order-1 entropy coder, 4 or 32 states): on EVERY byte string the model answers
   bytes, an io::Error or "unsupported" (STRIPE) -- no panicking path.

   Shape of the argument (on top of NV.Cram.Nx16O0Total): tot = 2^(n / 16) > 0; every row of the
   table went through dec_normalize (sum <= tot) or is zeros256 (sum 0), whatever the bytes the
   table is read from (verbatim, or the output of the order-0 decoder for a compressed table), so
   f <= tot and f * (s / tot) + s mod tot <= s < 2^32; the symbol search returns a symbol whose
   cumulative frequency is at most s mod tot; states stay below 2^32; readers hand on bytes. *)
From Coq Require Import List NArith ZArith Lia Bool PeanoNat.
From Coq Require Import ZifyBool ZifyNat ZifyN.
From NV Require Import Cram.Bytes Cram.Vlq Cram.IntProofs Cram.Rans4x8 Cram.Rans4x8Proofs
  Cram.Rans4x8O1 Cram.Rans4x8O1Proofs
  Cram.Nx16Xform Cram.Nx16XformProofs Cram.Nx16O0 Cram.Nx16O1 Cram.Nx16Full Cram.Nx16O0Total.
Import ListNotations.
Ltac Zify.zify_post_hook ::= Z.div_mod_to_equations.
Open Scope N_scope.
Arguments N.add : simpl never.
Arguments N.sub : simpl never.
Arguments N.mul : simpl never.
Arguments N.div : simpl never.
Arguments N.modulo : simpl never.
Arguments N.pow : simpl never.
Arguments N.ltb : simpl never.
Arguments N.leb : simpl never.
Arguments N.eqb : simpl never.

Notation u32 := (fun s : N => s < 4294967296).
Notation byte := (fun b : N => b < 256).

(* ---------- the rest of the input keeps any per-byte property ---------- *)

Section Rest.
Variable P : N -> Prop.

Lemma rd_row_rest : forall A bs k fs r, rd_row A bs k = Some (fs, r) -> Forall P bs -> Forall P r.
Proof.
  induction A as [|a A' IH]; intros bs k fs r H HP; cbn [rd_row] in H.
  - inversion H; subst; exact HP.
  - destruct a.
    + destruct k as [|k'].
      * destruct (read_uint7 bs) as [f b1| |] eqn:EU; try discriminate.
        pose proof (read_uint7_rest P _ _ _ EU HP) as HP1.
        destruct (f =? 0).
        -- destruct b1 as [|n b2]; [discriminate|].
           destruct (rd_row A' b2 (N.to_nat n)) as [[fs1 b]|] eqn:ER; [|discriminate].
           inversion H; subst. eapply IH; [exact ER|exact (Forall_inv_tail HP1)].
        -- destruct (rd_row A' b1 0) as [[fs1 b]|] eqn:ER; [|discriminate].
           inversion H; subst. eapply IH; [exact ER|exact HP1].
      * destruct (rd_row A' bs k') as [[fs1 b]|] eqn:ER; [|discriminate].
        inversion H; subst. eapply IH; [exact ER|exact HP].
    + destruct (rd_row A' bs k) as [[fs1 b]|] eqn:ER; [|discriminate].
      inversion H; subst. eapply IH; [exact ER|exact HP].
Qed.

Lemma rd_rows_rest tot A : forall Asel bs F r,
  rd_rows tot A Asel bs = Some (F, r) -> Forall P bs -> Forall P r.
Proof.
  induction Asel as [|a Asel' IH]; intros bs F r H HP; cbn [rd_rows] in H.
  - inversion H; subst; exact HP.
  - destruct a.
    + destruct (rd_row A bs 0) as [[fs b1]|] eqn:ER; [|discriminate].
      destruct (dec_normalize tot fs) as [fs'|]; [|discriminate].
      destruct (rd_rows tot A Asel' b1) as [[F' b2]|] eqn:ERS; [|discriminate].
      inversion H; subst. eapply IH; [exact ERS|]. eapply rd_row_rest; [exact ER|exact HP].
    + destruct (rd_rows tot A Asel' bs) as [[F' b2]|] eqn:ERS; [|discriminate].
      inversion H; subst. eapply IH; [exact ERS|exact HP].
Qed.

Lemma rd_freqs1_inner_rest tot bs F r :
  rd_freqs1_inner tot bs = Some (F, r) -> Forall P bs -> Forall P r.
Proof.
  unfold rd_freqs1_inner. intros H HP.
  destruct (read_alphabet bs) as [[A b1]|] eqn:EA; [|discriminate].
  eapply rd_rows_rest; [exact H|]. eapply read_alphabet_rest; [exact EA|exact HP].
Qed.

Lemma split_off1_rest bs n a b :
  split_off1 bs n = Some (a, b) -> Forall P bs -> Forall P a /\ Forall P b.
Proof.
  unfold split_off1. intros H HP. destruct (length bs <? n)%nat; [discriminate|].
  inversion H; subst. split; [apply firstn_Forall|apply skipn_Forall]; exact HP.
Qed.

End Rest.

(* ---------- every row of the table adds up to at most tot ---------- *)

Notation rows_le tot := (Forall (fun r : list N => sumN r <= tot)).

Lemma sumN_zeros256 : sumN zeros256 = 0.
Proof. unfold zeros256. apply sumN_repeat0. Qed.

Lemma rd_rows_sum tot A : forall Asel bs F r,
  rd_rows tot A Asel bs = Some (F, r) -> rows_le tot F.
Proof.
  induction Asel as [|a Asel' IH]; intros bs F r H; cbn [rd_rows] in H.
  - inversion H; subst; constructor.
  - destruct a.
    + destruct (rd_row A bs 0) as [[fs b1]|]; [|discriminate].
      destruct (dec_normalize tot fs) as [fs'|] eqn:EN; [|discriminate].
      destruct (rd_rows tot A Asel' b1) as [[F' b2]|] eqn:ERS; [|discriminate].
      inversion H; subst. constructor; [exact (dec_normalize_sum _ _ _ EN)|].
      eapply IH. exact ERS.
    + destruct (rd_rows tot A Asel' bs) as [[F' b2]|] eqn:ERS; [|discriminate].
      inversion H; subst. constructor; [rewrite sumN_zeros256; lia|].
      eapply IH. exact ERS.
Qed.

Lemma rd_freqs1_inner_sum tot bs F r : rd_freqs1_inner tot bs = Some (F, r) -> rows_le tot F.
Proof.
  unfold rd_freqs1_inner. intros H. destruct (read_alphabet bs) as [[A b1]|]; [|discriminate].
  eapply rd_rows_sum. exact H.
Qed.

Lemma row_sum tot F1 k : rows_le tot F1 -> sumN (row F1 k) <= tot.
Proof.
  intros HF. unfold row.
  destruct (Nat.lt_ge_cases (N.to_nat k) (length F1)) as [Hlt|Hge].
  - rewrite Forall_forall in HF. apply HF. apply nth_In. exact Hlt.
  - rewrite nth_overflow by exact Hge. rewrite sumN_zeros256. lia.
Qed.

(* ---------- read_frequencies ---------- *)

Lemma read_freqs1_ok bs :
  Forall byte bs ->
  read_freqs1 bs <> RPanic /\
  forall tot F1 r, read_freqs1 bs = ROk (tot, F1, r) ->
    0 < tot /\ rows_le tot F1 /\ Forall byte r.
Proof.
  intros HP. unfold read_freqs1. destruct bs as [|n b0].
  - split; [discriminate|intros ? ? ? H; discriminate].
  - pose proof (Forall_inv_tail HP) as HP0.
    assert (Htot : 0 < 2 ^ (n / 16)).
    { pose proof (N.pow_nonzero 2 (n / 16)) as Hnz. lia. }
    set (tot := 2 ^ (n / 16)) in *. clearbody tot.
    destruct (N.odd n).
    + destruct (read_uint7 b0) as [usz b1| |] eqn:E0;
        [|split; [discriminate|intros ? ? ? H; discriminate]..].
      pose proof (read_uint7_rest _ _ _ _ E0 HP0) as HP1.
      destruct (read_uint7 b1) as [csz b2| |] eqn:E1;
        [|split; [discriminate|intros ? ? ? H; discriminate]..].
      pose proof (read_uint7_rest _ _ _ _ E1 HP1) as HP2.
      destruct (split_off1 b2 (N.to_nat csz)) as [[buf b3]|] eqn:ES;
        [|split; [discriminate|intros ? ? ? H; discriminate]].
      destruct (split_off1_rest _ _ _ _ _ ES HP2) as [HPbuf HP3].
      assert (H4 : (0 < 4)%nat) by lia.
      pose proof (nxd0_decode_never_panics buf (N.to_nat usz) 4 H4 HPbuf) as Hnp.
      destruct (nxd0_decode buf (N.to_nat usz) 4) as [tbl| |].
      * destruct (rd_freqs1_inner tot tbl) as [[F1 rest]|] eqn:EI.
        -- split; [discriminate|]. intros tot' F1' r' H. inversion H; subst.
           split; [exact Htot|]. split; [exact (rd_freqs1_inner_sum _ _ _ _ EI)|exact HP3].
        -- split; [discriminate|intros ? ? ? H; discriminate].
      * split; [discriminate|intros ? ? ? H; discriminate].
      * contradiction.
    + destruct (rd_freqs1_inner tot b0) as [[F1 b1]|] eqn:EI.
      * split; [discriminate|]. intros tot' F1' r' H. inversion H; subst.
        split; [exact Htot|]. split; [exact (rd_freqs1_inner_sum _ _ _ _ EI)|].
        exact (rd_freqs1_inner_rest _ _ _ _ _ EI HP0).
      * split; [discriminate|intros ? ? ? H; discriminate].
Qed.

(* ---------- one symbol in a context ---------- *)

Lemma dec_one_row_ok tot F1 k s bs :
  0 < tot -> rows_le tot F1 -> s < 4294967296 -> Forall byte bs ->
  dec_one tot (row F1 k) (row (map cumulative F1) k) s bs <> RPanic /\
  forall sym s2 bs', dec_one tot (row F1 k) (row (map cumulative F1) k) s bs = ROk (sym, s2, bs') ->
    s2 < 4294967296 /\ Forall byte bs'.
Proof.
  intros Ht HF Hs HP. rewrite row_map_cumulative.
  apply dec_one_ok_tot; [exact Ht|exact Hs|apply row_sum; exact HF|exact HP].
Qed.

(* ---------- one position of all chunks ---------- *)

Lemma dec16_row_ok tot F1 : 0 < tot -> rows_le tot F1 ->
  forall K St bs, Forall u32 St -> Forall byte bs ->
  dec16_row tot F1 (map cumulative F1) K St bs <> RPanic /\
  forall syms St' b, dec16_row tot F1 (map cumulative F1) K St bs = ROk (syms, St', b) ->
    Forall u32 St' /\ Forall byte b.
Proof.
  intros Ht HF. induction K as [|k K' IH]; intros St bs HS HP; cbn [dec16_row].
  - split; [discriminate|]. intros syms St' b H. inversion H; subst. split; [constructor|exact HP].
  - destruct St as [|s St0].
    + split; [discriminate|]. intros syms St' b H. inversion H; subst.
      split; [constructor|exact HP].
    + pose proof (Forall_inv HS) as Hs. cbv beta in Hs.
      destruct (dec_one_row_ok tot F1 k s bs Ht HF Hs HP) as [Hnp Hok].
      destruct (dec_one tot (row F1 k) (row (map cumulative F1) k) s bs)
        as [[[sym s2] b1]| |] eqn:E.
      * destruct (Hok sym s2 b1 eq_refl) as [Hs2 HP1].
        destruct (IH St0 b1 (Forall_inv_tail HS) HP1) as [Hnp2 Hok2].
        destruct (dec16_row tot F1 (map cumulative F1) K' St0 b1) as [[[syms St''] b2]| |].
        -- split; [discriminate|]. intros syms' St' b H. inversion H; subst.
           destruct (Hok2 syms St'' b eq_refl) as [HS2 HP2].
           split; [constructor; [exact Hs2|exact HS2]|exact HP2].
        -- split; [discriminate|intros ? ? ? H; discriminate].
        -- exfalso. apply Hnp2. reflexivity.
      * split; [discriminate|intros ? ? ? H; discriminate].
      * exfalso. apply Hnp. reflexivity.
Qed.

Lemma dec16_rows_ok tot F1 : 0 < tot -> rows_le tot F1 ->
  forall q K St bs, Forall u32 St -> Forall byte bs ->
  dec16_rows q tot F1 (map cumulative F1) K St bs <> RPanic /\
  forall rows K' St' b, dec16_rows q tot F1 (map cumulative F1) K St bs = ROk (rows, K', St', b) ->
    Forall u32 St' /\ Forall byte b.
Proof.
  intros Ht HF. induction q as [|q' IH]; intros K St bs HS HP; cbn [dec16_rows].
  - split; [discriminate|]. intros rows K' St' b H. inversion H; subst. split; [exact HS|exact HP].
  - destruct (dec16_row_ok tot F1 Ht HF K St bs HS HP) as [Hnp Hok].
    destruct (dec16_row tot F1 (map cumulative F1) K St bs) as [[[syms St1] b1]| |].
    + destruct (Hok syms St1 b1 eq_refl) as [HS1 HP1].
      destruct (IH syms St1 b1 HS1 HP1) as [Hnp2 Hok2].
      destruct (dec16_rows q' tot F1 (map cumulative F1) syms St1 b1)
        as [[[[rows K2] St2] b2]| |].
      * split; [discriminate|]. intros rows' K' St' b H. inversion H; subst.
        exact (Hok2 rows K' St' b eq_refl).
      * split; [discriminate|intros ? ? ? ? H; discriminate].
      * exfalso. apply Hnp2. reflexivity.
    + split; [discriminate|intros ? ? ? ? H; discriminate].
    + exfalso. apply Hnp. reflexivity.
Qed.

(* ---------- the remainder ---------- *)

Lemma dec16_tail_never_panics tot F1 : 0 < tot -> rows_le tot F1 ->
  forall m k s bs, s < 4294967296 -> Forall byte bs ->
  dec16_tail m tot F1 (map cumulative F1) k s bs <> RPanic.
Proof.
  intros Ht HF. induction m as [|m' IH]; intros k s bs Hs HP; cbn [dec16_tail]; [discriminate|].
  destruct (dec_one_row_ok tot F1 k s bs Ht HF Hs HP) as [Hnp Hok].
  destruct (dec_one tot (row F1 k) (row (map cumulative F1) k) s bs) as [[[sym s2] b1]| |].
  - destruct (Hok sym s2 b1 eq_refl) as [Hs2 HP1].
    pose proof (IH sym s2 b1 Hs2 HP1) as Hnp2.
    destruct (dec16_tail m' tot F1 (map cumulative F1) sym s2 b1); try discriminate.
    exact Hnp2.
  - discriminate.
  - exfalso. apply Hnp. reflexivity.
Qed.

Lemma last_u32 : forall (l : list N) d, d < 4294967296 -> Forall u32 l -> last l d < 4294967296.
Proof.
  induction l as [|x t IH]; intros d Hd HS; cbn [last]; [exact Hd|].
  destruct t as [|y t']; [exact (Forall_inv HS)|].
  apply IH; [exact Hd|exact (Forall_inv_tail HS)].
Qed.

(* ---------- the order-1 decoder ---------- *)

(* For EVERY byte string, output length and state count > 0 the model of noodles' order-1 decoder
   returns bytes or an io::Error (state count 0 = `len / 0`: the model answers RPanic by design;
   noodles passes 4 or 32). *)
Theorem nxd1_decode_never_panics : forall bs len n,
  (0 < n)%nat -> Forall (fun b => b < 256) bs -> nxd1_decode bs len n <> RPanic.
Proof.
  intros bs len n Hn HP. unfold nxd1_decode.
  destruct (read_freqs1_ok bs HP) as [Hnp Hok].
  destruct (read_freqs1 bs) as [[[tot F1] b1]| |]; [|discriminate|exfalso; apply Hnp; reflexivity].
  destruct (Hok tot F1 b1 eq_refl) as [Ht [HF HP1]].
  destruct (rd_states n b1) as [[st b2]|] eqn:ES; [|discriminate].
  destruct (rd_states_ok _ _ _ _ HP1 ES) as [Hl [Hu HP2]].
  destruct (n =? 0)%nat eqn:En; [exfalso; lia|].
  destruct (dec16_rows_ok tot F1 Ht HF (Nat.div len n) (repeat 0 n) st b2 Hu HP2) as [Hnp2 Hok2].
  destruct (dec16_rows (Nat.div len n) tot F1 (map cumulative F1) (repeat 0 n) st b2)
    as [[[[rows K] St] b3]| |]; [|discriminate|exfalso; apply Hnp2; reflexivity].
  destruct (Hok2 rows K St b3 eq_refl) as [HS3 HP3].
  assert (Hlast : last St 0 < 4294967296) by (apply last_u32; [lia|exact HS3]).
  pose proof (dec16_tail_never_panics tot F1 Ht HF (len - Nat.div len n * n) (last K 0) (last St 0)
                b3 Hlast HP3) as Hnp3.
  destruct (dec16_tail (len - Nat.div len n * n) tot F1 (map cumulative F1) (last K 0) (last St 0) b3);
    try discriminate.
  exact Hnp3.
Qed.

(* ---------- whole streams ---------- *)

(* For EVERY byte string and caller size the model of rans_nx16::decode -- PACK, RLE (verbatim or
   entropy-compressed meta-data), CAT and the order-0 / order-1 entropy coders with 4 or 32 states
   -- returns bytes, an io::Error or reaches the unmodelled STRIPE stage: no panicking path. *)
Theorem nx_decode_e_never_panics : forall bs usize,
  Forall (fun b => b < 256) bs -> nx_decode_e bs usize <> DPanic.
Proof.
  intros bs usize HP. unfold nx_decode_e. destruct bs as [|fb r0]; [discriminate|].
  pose proof (Forall_inv_tail HP) as Hr0.
  set (f := flags_of_byte fb). clearbody f.
  destruct (if f_nosize f then U7Ok usize r0 else read_uint7 r0) as [size0 r1| |] eqn:E0;
    try discriminate.
  assert (Hr1 : Forall byte r1).
  { destruct (f_nosize f); [inversion E0; subst; exact Hr0|].
    eapply read_uint7_rest; [exact E0|exact Hr0]. }
  destruct (f_stripe f); [discriminate|].
  match goal with |- match ?x with _ => _ end <> _ =>
    destruct x as [[[pctx size1] r2]|] eqn:E1 end; [|discriminate].
  assert (Hr2 : Forall byte r2).
  { destruct (f_pack f).
    - destruct (rd_pack_ctx r1) as [[[table len] t]|] eqn:EP; [|discriminate].
      inversion E1; subst. eapply rd_pack_ctx_rest; [exact EP|exact Hr1].
    - inversion E1; subst. exact Hr1. }
  destruct (rd_rle_ctx_ok (state_count f) r2 (state_count_pos f) Hr2) as [Hrnp Hrok].
  match goal with |- match ?x with _ => _ end <> _ =>
    destruct x as [[[rctx size2] r3]| |] eqn:E2 end.
  - assert (Hr3 : Forall byte r3).
    { destruct (f_rle f).
      - destruct (rd_rle_ctx (state_count f) r2) as [[[meta len] t]| |] eqn:ER; try discriminate.
        inversion E2; subst. eapply Hrok. reflexivity.
      - inversion E2; subst. exact Hr2. }
    match goal with |- match ?x with _ => _ end <> _ => destruct x as [d| | |] eqn:ED end;
      try discriminate.
    + destruct rctx as [meta|].
      * destruct (rle_decode d meta (N.to_nat size1)) eqn:E; try discriminate.
        -- destruct pctx; [apply pack_decode_never_panics|discriminate].
        -- exfalso. exact (rle_decode_never_panics _ _ _ E).
      * destruct pctx; [apply pack_decode_never_panics|discriminate].
    + exfalso. destruct (f_cat f).
      * destruct (split_off r3 (N.to_nat size2)) as [[payload rest]|]; discriminate.
      * pose proof (nxd0_decode_never_panics r3 (N.to_nat size2) (state_count f)
                      (state_count_pos f) Hr3) as Hnp0.
        pose proof (nxd1_decode_never_panics r3 (N.to_nat size2) (state_count f)
                      (state_count_pos f) Hr3) as Hnp1.
        destruct (f_order f).
        -- destruct (nxd1_decode r3 (N.to_nat size2) (state_count f)); try discriminate.
           contradiction.
        -- destruct (nxd0_decode r3 (N.to_nat size2) (state_count f)); try discriminate.
           contradiction.
  - discriminate.
  - exfalso. destruct (f_rle f); [|discriminate].
    destruct (rd_rle_ctx (state_count f) r2) as [[[meta len] t]| |]; try discriminate.
    contradiction.
Qed.

Print Assumptions nxd1_decode_never_panics.
Print Assumptions nx_decode_e_never_panics.
