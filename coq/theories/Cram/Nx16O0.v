(* rANS Nx16, ORDER-0 ENTROPY CODER (CRAM 3.1 codecs, section 3) as noodles wrote it, encoder AND
   noodles' own (repaired) decoder:

     noodles-cram src/codecs/rans_nx16/encode.rs        write_alphabet, write_states, state_step,
                                                         state_renormalize (16-bit), LOWER_BOUND
                  src/codecs/rans_nx16/encode/order_0.rs build_frequencies, describe_frequencies,
                                                         normalize_frequencies (to 4096, u64 product,
                                                         correction spread over the table),
                                                         build_cumulative_frequencies, write_frequencies,
                                                         the N-way interleaved symbol loop (N = 4 | 32)
                  src/codecs/rans_nx16/decode.rs         read_alphabet (run to symbol 255 = error),
                                                         read_states, state_cumulative_frequency,
                                                         cumulative_frequencies_symbol, state_step,
                                                         state_renormalize, read_u16_le
                  src/codecs/rans_nx16/decode/order_0.rs read_frequencies, normalize_frequencies
                                                         (power-of-two scaling to 2^bits, everything
                                                         else = InvalidData), decode

   Bytes, symbols, frequencies and states are [N]; frequency tables are [list N] of length 256, the
   alphabet is a [list bool] of length 256.  Shifts and masks are written as * / mod by powers of
   two.  The u32 arithmetic of the decoder's state_step is checked explicitly ([RPanic] = the panic
   of an overflow-checked build); the proofs show it is unreachable. *)
From Coq Require Import List NArith Bool PeanoNat.
From NV Require Import Cram.Bytes Cram.Vlq Cram.Rans4x8.
Import ListNotations.
Open Scope N_scope.

Definition NX_LOWER : N := 32768.               (* L = 0x8000 *)

(* ------------------------------------------------------------------------------------------ *)
(* encoder                                                                                      *)

(* order_0::normalize_frequencies: scale to 4096; the product f * 4096 is computed in u64.
   None = panic of an overflow-checked build when `sum += f` leaves u32 (2^32 bytes or more). *)
Definition nx_normalize (raw : list N) : option (list N) :=
  let '(mi, sum) := describe_frequencies raw in
  if TWO32 <=? sum then None
  else if sum =? 0 then Some zeros256
  else
    let nf := map (fun f => if f =? 0 then 0 else N.max ((f * 4096) / sum) 1) raw in
    let nsum := sumN nf in
    if nsum <? 4096 then Some (upd nf mi (nth mi nf 0 + (4096 - nsum)))
    else if 4096 <? nsum then
      let e := nsum - 4096 in
      let n0 := N.min e (nth mi nf 0 - 1) in
      Some (fst (take_excess (upd nf mi (nth mi nf 0 - n0)) (e - n0)))
    else Some nf.

(* order_0::build_alphabet *)
Definition alphabet_of (F : list N) : list bool := map (fun f => 0 <? f) F.

(* `alphabet[i..].iter().position(|&b| !b)` *)
Fixpoint pos_false (l : list bool) : option nat :=
  match l with
  | [] => None
  | b :: r => if b then option_map S (pos_false r) else Some O
  end.

(* write_alphabet.  [i] = index of the head of [l], [prev] = alphabet[i - 1], [k] = how many
   entries the inner `iter.by_ref().take(len)` still consumes.  A run length follows a symbol iff
   the previous symbol is in the alphabet; `.unwrap_or(0)`: a run that reaches symbol 255 is
   written with length 0 and continued by (symbol, 0) pairs. *)
Fixpoint write_alphabet_go (i : nat) (l : list bool) (prev : bool) (k : nat) : list N :=
  match l with
  | [] => [0]
  | a :: r =>
    match k with
    | S k' => write_alphabet_go (S i) r a k'
    | O =>
      if negb a then write_alphabet_go (S i) r a 0
      else if (0 <? i)%nat && prev then
        let len := match pos_false r with Some n => n | None => O end in
        N.of_nat i :: N.of_nat len :: write_alphabet_go (S i) r a len
      else N.of_nat i :: write_alphabet_go (S i) r a 0
    end
  end.

Definition write_alphabet (A : list bool) : list N := write_alphabet_go 0 A false 0.

(* order_0::write_frequencies: one uint7 per symbol of the alphabet *)
Definition write_freqs0 (F : list N) : list N :=
  flat_map (fun f => if 0 <? f then write_uint7 f else []) F.

(* state_renormalize: while s >= (1 << (31 - 12)) * f { write_u16_be(s & 0xffff); s >>= 16 }.
   The buffer is reversed at the end, so the decoder meets the low byte first; the bytes are pushed
   on [stack].  None = the loop never ends (f = 0). *)
Fixpoint enc_renorm16 (fuel : nat) (s f : N) (stack : list N) : option (N * list N) :=
  match fuel with
  | O => None
  | S fu => if 524288 * f <=? s
            then enc_renorm16 fu (s / 65536) f (s mod 256 :: (s / 256) mod 256 :: stack)
            else Some (s, stack)
  end.

(* the symbol loop `for (i, &sym) in src.iter().enumerate().rev()` with states[i % n]:
   result = (states in array order, byte stack); state_step = Rans4x8.enc_step (12 bits). *)
Fixpoint nx_enc_symbols (n : nat) (F C : list N) (src : list N) : option (list N * list N) :=
  match src with
  | [] => Some (repeat NX_LOWER n, [])
  | x :: r =>
    match nx_enc_symbols n F C r with
    | None => None
    | Some (st, stack) =>
      match rotr st with
      | [] => None
      | s :: others =>
        let f := nth (N.to_nat x) F 0 in
        match enc_renorm16 3 s f stack with
        | None => None
        | Some (s1, stack1) => Some (enc_step s1 f (nth (N.to_nat x) C 0) :: others, stack1)
        end
      end
    end
  end.

(* build_context + write_context + encode of order_0: alphabet, frequencies, states, payload *)
Definition nx_o0_encode (n : nat) (src : list N) : enc_result :=
  match nx_normalize (raw_frequencies src) with
  | None => EncPanic
  | Some F =>
    match nx_enc_symbols n F (cumulative F) src with
    | None => EncDiverges
    | Some (st, stack) =>
      EncOk (write_alphabet (alphabet_of F) ++ write_freqs0 F ++ flat_map le32_bytes st ++ stack)
    end
  end.

(* ------------------------------------------------------------------------------------------ *)
(* noodles' decoder                                                                             *)

Inductive res (A : Type) :=
| ROk (a : A)
| RErr                (* any io::Error *)
| RPanic.             (* a panic of an overflow-checked build *)
Arguments ROk {A} a.
Arguments RErr {A}.
Arguments RPanic {A}.

Fixpoint updb (l : list bool) (i : nat) (v : bool) : list bool :=
  match l, i with
  | [], _ => []
  | _ :: r, O => v :: r
  | x :: r, S i' => x :: updb r i' v
  end.

Fixpoint set_range (A : list bool) (s : nat) (n : nat) : list bool :=
  match n with
  | O => A
  | S n' => set_range (updb A s true) (S s) n'
  end.

Definition falses256 : list bool := repeat false 256.

(* read_alphabet, from the point where `alphabet[sym] = true` has been done for the symbol read
   last ([prev] = that symbol).  A run `len` after symbol s sets s .. s+len-1 in the inner loop and
   s+len at the top of the next iteration; `sym.checked_add(1)` fails iff s + len > 255.
   None = io::Error (UnexpectedEof or InvalidData).  One byte at least is consumed per iteration. *)
Fixpoint rd_alpha_go (fuel : nat) (bs : list N) (prev : N) (A : list bool)
  : option (list bool * list N) :=
  match fuel with
  | O => None
  | S fu =>
    match bs with
    | [] => None
    | s :: b1 =>
      if s =? 0 then Some (A, b1)
      else if s - 1 =? prev then
        match b1 with
        | [] => None
        | len :: b2 =>
          if 256 <=? s + len then None
          else rd_alpha_go fu b2 (s + len) (set_range A (N.to_nat s) (S (N.to_nat len)))
        end
      else rd_alpha_go fu b1 s (updb A (N.to_nat s) true)
    end
  end.

Definition read_alphabet (bs : list N) : option (list bool * list N) :=
  match bs with
  | [] => None
  | s :: r => rd_alpha_go (length bs) r s (updb falses256 (N.to_nat s) true)
  end.

(* order_0::read_frequencies, the uint7 loop *)
Fixpoint rd_freqs (A : list bool) (bs : list N) : option (list N * list N) :=
  match A with
  | [] => Some ([], bs)
  | a :: r =>
    if a then
      match read_uint7 bs with
      | U7Ok v b1 =>
        match rd_freqs r b1 with
        | Some (F, b2) => Some (v :: F, b2)
        | None => None
        end
      | _ => None
      end
    else
      match rd_freqs r bs with
      | Some (F, b2) => Some (0 :: F, b2)
      | None => None
      end
  end.

(* `while sum < (1 << bits) { sum *= 2; shift += 1 }`; [sh] = 1 << shift *)
Fixpoint shift_up (fuel : nat) (tot sum sh : N) : N * N :=
  match fuel with
  | O => (sum, sh)
  | S fu => if sum <? tot then shift_up fu tot (2 * sum) (2 * sh) else (sum, sh)
  end.

(* order_0::normalize_frequencies (decoder), [tot] = 1 << bits (bits <= 15): checked sum; 0 or
   tot = unchanged; a power-of-two fraction of tot is scaled up; everything else is InvalidData *)
Definition dec_normalize (tot : N) (F : list N) : option (list N) :=
  let sum := sumN F in
  if TWO32 <=? sum then None
  else if (sum =? 0) || (sum =? tot) then Some F
  else
    let '(sum', sh) := shift_up 32 tot sum 1 in
    if tot <? sum' then None else Some (map (fun f => f * sh) F).

(* cumulative_frequencies_symbol over C[1..]: while sym < 255 && f >= C[sym + 1] { sym += 1 } *)
Fixpoint cfs (Ctl : list N) (v : N) (sym : N) : N :=
  match Ctl with
  | [] => sym
  | c :: r => if c <=? v then cfs r v (sym + 1) else sym
  end.

(* state_step (decoder): f * (s >> bits) + (s & mask) - g in u32 *)
Definition dec_step (tot s f g : N) : res N :=
  let a := f * (s / tot) + s mod tot in
  if (TWO32 <=? a) || (a <? g) then RPanic else ROk (a - g).

(* state_renormalize (decoder): if s < (1 << 15) { s = (s << 16) + read_u16_le(src)? } *)
Definition dec_renorm (s : N) (bs : list N) : option (N * list N) :=
  if s <? 32768 then
    match bs with
    | lo :: hi :: r => Some (s * 65536 + (lo + 256 * hi), r)
    | _ => None
    end
  else Some (s, bs).

(* one symbol with one state and one table *)
Definition dec_one (tot : N) (F C : list N) (s : N) (bs : list N) : res (N * N * list N) :=
  let v := s mod tot in
  let sym := cfs (tl C) v 0 in
  match dec_step tot s (nth (N.to_nat sym) F 0) (nth (N.to_nat sym) C 0) with
  | ROk s1 =>
    match dec_renorm s1 bs with
    | Some (s2, bs') => ROk (sym, s2, bs')
    | None => RErr
    end
  | RErr => RErr
  | RPanic => RPanic
  end.

(* `for chunk in dst.chunks_mut(n) { for (d, state) in chunk.zip(states) {..} }`: output i is
   produced by state i mod n; the state list is rotated instead of indexed.  An empty state list
   (`chunks_mut(0)` panics) cannot occur: the state count is 4 or 32. *)
Fixpoint nxd0_loop (n : nat) (tot : N) (F C : list N) (st : list N) (bs : list N) : res (list N) :=
  match n with
  | O => ROk []
  | S n' =>
    match st with
    | [] => RPanic
    | s :: others =>
      match dec_one tot F C s bs with
      | ROk (sym, s2, bs') =>
        match nxd0_loop n' tot F C (others ++ [s2]) bs' with
        | ROk out => ROk (sym :: out)
        | e => e
        end
      | RErr => RErr
      | RPanic => RPanic
      end
    end
  end.

(* read_states *)
Fixpoint rd_states (n : nat) (bs : list N) : option (list N * list N) :=
  match n with
  | O => Some ([], bs)
  | S n' =>
    match take_le32 bs with
    | None => None
    | Some (a, r) =>
      match rd_states n' r with
      | Some (l, r') => Some (a :: l, r')
      | None => None
      end
    end
  end.

(* order_0::read_frequencies *)
Definition read_freqs0 (bs : list N) : option (list N * list N) :=
  match read_alphabet bs with
  | None => None
  | Some (A, b1) =>
    match rd_freqs A b1 with
    | None => None
    | Some (F0, b2) =>
      match dec_normalize 4096 F0 with
      | None => None
      | Some F => Some (F, b2)
      end
    end
  end.

(* order_0::decode into a buffer of [len] bytes with [nstates] states *)
Definition nxd0_decode (bs : list N) (len : nat) (nstates : nat) : res (list N) :=
  match read_freqs0 bs with
  | None => RErr
  | Some (F, b2) =>
    match rd_states nstates b2 with
    | None => RErr
    | Some (st, b3) => nxd0_loop len 4096 F (cumulative F) st b3
    end
  end.
