(* CRAM 3.1 adaptive arithmetic coder ("arith"), ORDER 0, as noodles wrote it
   (noodles-cram src/codecs/aac/{range_coder,model,encode,decode}.rs, {encode,decode}/order_0.rs):

     RangeCoder   the carry-less range coder shared with fqzcomp: encoder (low / range / carry /
                  cache / ff_num, range_shift_low, range_encode_end) and decoder (range / code,
                  range_get_freq, range_decode)
     Model        adaptive frequencies: every symbol starts at 1, +16 per occurrence, halved
                  (f - f/2) when the total exceeds 2^16 - 17, neighbours swapped to keep frequent
                  symbols in front
     encode / decode   flag byte, size, bit PACK (the rANS Nx16 transform, NV.Cram.Nx16Xform), CAT
                  (given, or forced when nothing is left to code), the order-0 coder

   Not modelled: ORDER 1, RLE, STRIPE, EXT (bzip2); the model answers "unsupported" there.
   u32 arithmetic is written out (mod 2^32) and the operations that would panic in an
   overflow-checked build (division by zero, subtraction below zero, multiplication above u32, table
   index out of range) are explicit [RPanic] / [None] results. *)
From Coq Require Import List NArith Bool PeanoNat.
From NV Require Import Cram.Bytes Cram.Vlq Cram.Rans4x8 Cram.Nx16Xform Cram.Nx16O0.
Import ListNotations.
Open Scope N_scope.

Definition TOP : N := 16777216.                  (* 1 << 24 *)
Definition U32MAX : N := 4294967295.

(* ------------------------------------------------------------------------------------------ *)
(* range coder, encoder side                                                                    *)

Record rc_enc := { e_range : N; e_low : N; e_carry : bool; e_cache : N; e_ffnum : N }.

Definition rc_enc_init : rc_enc :=
  {| e_range := U32MAX; e_low := 0; e_carry := false; e_cache := 0; e_ffnum := 0 |}.

(* range_shift_low: the state after it and the bytes it writes *)
Definition shift_low (st : rc_enc) : rc_enc * list N :=
  if (e_low st <? 4278190080) || e_carry st then        (* low < 0xff000000 || carry *)
    let first := (e_cache st + (if e_carry st then 1 else 0)) mod 256 in
    let fill := if e_carry st then 0 else 255 in
    ({| e_range := e_range st; e_low := (e_low st * 256) mod TWO32; e_carry := false;
        e_cache := e_low st / TOP; e_ffnum := 0 |},
     first :: repeat fill (N.to_nat (e_ffnum st)))
  else
    ({| e_range := e_range st; e_low := (e_low st * 256) mod TWO32; e_carry := e_carry st;
        e_cache := e_cache st; e_ffnum := e_ffnum st + 1 |}, []).

(* while self.range < (1 << 24) { self.range <<= 8; self.range_shift_low() } *)
Fixpoint enc_normalize (fuel : nat) (st : rc_enc) : rc_enc * list N :=
  match fuel with
  | O => (st, [])
  | S fu =>
    if e_range st <? TOP then
      let '(st1, out1) := shift_low {| e_range := (e_range st * 256) mod TWO32; e_low := e_low st;
                                       e_carry := e_carry st; e_cache := e_cache st;
                                       e_ffnum := e_ffnum st |} in
      let '(st2, out2) := enc_normalize fu st1 in
      (st2, out1 ++ out2)
    else (st, [])
  end.

(* range_encode(sym_low, sym_freq, tot_freq); None = a panic (tot_freq = 0, or a product above u32) *)
Definition rc_encode (st : rc_enc) (sym_low sym_freq tot : N) : option (rc_enc * list N) :=
  if tot =? 0 then None
  else
    let r := e_range st / tot in
    if (TWO32 <=? sym_low * r) || (TWO32 <=? r * sym_freq) then None
    else
      let low' := (e_low st + sym_low * r) mod TWO32 in
      let carry' := e_carry st || (low' <? e_low st) in
      Some (enc_normalize 4 {| e_range := r * sym_freq; e_low := low'; e_carry := carry';
                               e_cache := e_cache st; e_ffnum := e_ffnum st |}).

(* range_encode_end: five shifts *)
Fixpoint rc_encode_end (k : nat) (st : rc_enc) : list N :=
  match k with
  | O => []
  | S k' => let '(st1, out) := shift_low st in out ++ rc_encode_end k' st1
  end.

(* ------------------------------------------------------------------------------------------ *)
(* range coder, decoder side                                                                    *)

Record rc_dec := { d_range : N; d_code : N }.

(* RangeCoder::new: one byte discarded, then the code as u32 BE; None = UnexpectedEof *)
Definition rc_dec_new (bs : list N) : option (rc_dec * list N) :=
  match bs with
  | _ :: b0 :: b1 :: b2 :: b3 :: r =>
    Some ({| d_range := U32MAX; d_code := ((b0 * 256 + b1) * 256 + b2) * 256 + b3 |}, r)
  | _ => None
  end.

(* while self.range < (1 << 24) { range <<= 8; code = (code << 8) | read_u8()? } *)
Fixpoint dec_normalize_rc (fuel : nat) (st : rc_dec) (bs : list N) : option (rc_dec * list N) :=
  match fuel with
  | O => Some (st, bs)
  | S fu =>
    if d_range st <? TOP then
      match bs with
      | [] => None
      | b :: r => dec_normalize_rc fu {| d_range := (d_range st * 256) mod TWO32;
                                         d_code := (d_code st * 256) mod TWO32 + b |} r
      end
    else Some (st, bs)
  end.

(* ------------------------------------------------------------------------------------------ *)
(* the adaptive model: (symbol, frequency) pairs in table order, and the total                  *)

Record aac_model := { m_tab : list (N * N); m_tot : N }.

(* Model::new: None = the assertion len <= 256 *)
Definition model_new (n : nat) : aac_model :=
  {| m_tab := map (fun i => (N.of_nat i, 1)) (seq 0 n); m_tot := N.of_nat n |}.

Fixpoint tab_add16 (l : list (N * N)) (x : nat) : list (N * N) :=
  match l, x with
  | [], _ => []
  | (s, f) :: r, O => (s, f + 16) :: r
  | p :: r, S x' => p :: tab_add16 r x'
  end.

(* renormalize: *freq -= *freq / 2 *)
Definition tab_halve (l : list (N * N)) : list (N * N) := map (fun p => (fst p, snd p - snd p / 2)) l.
Definition tab_total (l : list (N * N)) : N := fold_right (fun p a => snd p + a) 0 l.

(* if x > 0 && frequencies[x] > frequencies[x - 1] { swap(x, x - 1) } *)
Fixpoint tab_swap (l : list (N * N)) (x : nat) : list (N * N) :=
  match l, x with
  | a :: b :: r, S O => if snd a <? snd b then b :: a :: r else l
  | a :: r, S x' => a :: tab_swap r x'
  | _, _ => l
  end.

(* the update after coding the symbol at index x *)
Definition model_update (m : aac_model) (x : nat) : aac_model :=
  let t1 := tab_add16 (m_tab m) x in
  let tot1 := m_tot m + 16 in
  let '(t2, tot2) := if 65519 <? tot1 then (tab_halve t1, tab_total (tab_halve t1)) else (t1, tot1) in
  {| m_tab := tab_swap t2 x; m_tot := tot2 |}.

(* encoder: while self.symbols[x] != sym { acc += frequencies[x]; x += 1 } ; None = index out of range *)
Fixpoint find_sym (l : list (N * N)) (sym : N) (x : nat) (acc : N) : option (nat * N * N) :=
  match l with
  | [] => None
  | (s, f) :: r => if s =? sym then Some (x, acc, f) else find_sym r sym (S x) (acc + f)
  end.

(* decoder: while acc + frequencies[x] <= freq { acc += frequencies[x]; x += 1 }; None = index out of range *)
Fixpoint find_freq (l : list (N * N)) (freq : N) (x : nat) (acc : N) : option (nat * N * N * N) :=
  match l with
  | [] => None
  | (s, f) :: r => if acc + f <=? freq then find_freq r freq (S x) (acc + f) else Some (x, acc, f, s)
  end.

(* Model::encode *)
Definition model_encode (m : aac_model) (st : rc_enc) (sym : N) : option (aac_model * rc_enc * list N) :=
  match find_sym (m_tab m) sym 0 0 with
  | None => None
  | Some (x, acc, f) =>
    match rc_encode st acc f (m_tot m) with
    | None => None
    | Some (st', out) => Some (model_update m x, st', out)
    end
  end.

(* Model::decode: range_get_freq, the InvalidData check, the search, range_decode, the update *)
Definition model_decode (m : aac_model) (st : rc_dec) (bs : list N) : res (aac_model * rc_dec * N * list N) :=
  if m_tot m =? 0 then RPanic
  else
    let r := d_range st / m_tot m in
    if r =? 0 then RPanic
    else
      let freq := d_code st / r in
      if m_tot m <=? freq then RErr
      else
        match find_freq (m_tab m) freq 0 0 with
        | None => RPanic
        | Some (x, acc, f, sym) =>
          if (TWO32 <=? acc * r) || (d_code st <? acc * r) || (TWO32 <=? r * f) then RPanic
          else
            match dec_normalize_rc 4 {| d_range := r * f; d_code := d_code st - acc * r |} bs with
            | None => RErr
            | Some (st', bs') => ROk (model_update m x, st', sym, bs')
            end
        end.

(* ------------------------------------------------------------------------------------------ *)
(* order 0                                                                                      *)

Fixpoint max_sym (src : list N) : N :=
  match src with [] => 0 | x :: r => N.max x (max_sym r) end.

Fixpoint enc0_loop (m : aac_model) (st : rc_enc) (src : list N) : option (list N) :=
  match src with
  | [] => Some (rc_encode_end 5 st)
  | x :: r =>
    match model_encode m st x with
    | None => None
    | Some (m', st', out) =>
      match enc0_loop m' st' r with
      | None => None
      | Some rest => Some (out ++ rest)
      end
    end
  end.

(* order_0::encode on a non-empty input: symbol count (256 -> 0), then the coded bytes *)
Definition aac_o0_encode (src : list N) : option (list N) :=
  let n := S (N.to_nat (max_sym src)) in
  match enc0_loop (model_new n) rc_enc_init src with
  | None => None
  | Some body => Some ((if (n =? 256)%nat then 0 else N.of_nat n) :: body)
  end.

Fixpoint dec0_loop (k : nat) (m : aac_model) (st : rc_dec) (bs : list N) : res (list N) :=
  match k with
  | O => ROk []
  | S k' =>
    match model_decode m st bs with
    | ROk (m', st', sym, bs') =>
      match dec0_loop k' m' st' bs' with
      | ROk out => ROk (sym :: out)
      | e => e
      end
    | RErr => RErr
    | RPanic => RPanic
    end
  end.

(* order_0::decode into [len] bytes *)
Definition aac_o0_decode (bs : list N) (len : nat) : res (list N) :=
  match bs with
  | [] => RErr
  | c :: r =>
    let n := if c =? 0 then 256%nat else N.to_nat c in
    match rc_dec_new r with
    | None => RErr
    | Some (st, r') => dec0_loop len (model_new n) st r'
    end
  end.

(* ------------------------------------------------------------------------------------------ *)
(* whole streams (aac::encode / aac::decode), the flag byte read as in rans_nx16: bit 0x04 = EXT *)

Inductive aace_result :=
| AeOk (bytes : list N)
| AeUnsupported        (* ORDER 1, RLE, STRIPE, EXT *)
| AePanic.

Definition aac_encode (f : nxflags) (src : list N) : aace_result :=
  if f_stripe f then AeUnsupported
  else
    let size := if f_nosize f then [] else write_uint7 (N.of_nat (length src)) in
    let '(f1, s1, h1) := nx_pack_stage f src in
    let f2 := match s1 with
              | [] => {| f_order := f_order f1; f_res := f_res f1; f_n32 := f_n32 f1; f_stripe := f_stripe f1;
                         f_nosize := f_nosize f1; f_cat := true; f_rle := f_rle f1; f_pack := f_pack f1 |}
              | _ => f1
              end in
    if f_cat f2 then AeOk (byte_of_flags f2 :: size ++ h1 ++ s1)
    else if f_n32 f2 || f_rle f2 || f_order f2 then AeUnsupported     (* EXT | RLE | ORDER *)
    else
      match aac_o0_encode s1 with
      | Some body => AeOk (byte_of_flags f2 :: size ++ h1 ++ body)
      | None => AePanic
      end.

Definition aac_encode_byte (fb : N) (src : list N) : aace_result := aac_encode (flags_of_byte fb) src.

Definition aac_decode (bs : list N) (usize : N) : nxd_result :=
  match bs with
  | [] => DErr
  | fb :: r0 =>
    let f := flags_of_byte fb in
    match (if f_nosize f then U7Ok usize r0 else read_uint7 r0) with
    | U7Ok size0 r1 =>
      if f_stripe f then DUnsupported
      else
        match (if f_pack f then
                 match r1 with
                 | [] => None
                 | c :: t =>
                   if c =? 0 then None
                   else match split_off t (N.to_nat c) with
                        | None => None
                        | Some (table, t1) =>
                          match read_uint7 t1 with
                          | U7Ok len t2 => Some (Some table, len, t2)
                          | _ => None
                          end
                        end
                 end
               else Some (None, size0, r1)) with
        | None => DErr
        | Some (pctx, size1, r2) =>
          let data :=
            if f_cat f then
              match split_off r2 (N.to_nat size1) with
              | None => DErr
              | Some (payload, _) => DOk payload
              end
            else if f_n32 f || f_rle f || f_order f then DUnsupported
            else
              match aac_o0_decode r2 (N.to_nat size1) with
              | ROk d => DOk d
              | RErr => DErr
              | RPanic => DPanic
              end in
          match data with
          | DOk d =>
            match pctx with
            | Some table => pack_decode table d (N.to_nat size0)
            | None => DOk d
            end
          | e => e
          end
        end
    | _ => DErr
    end
  end.
