(* CRAM 3.1 adaptive arithmetic coder: ORDER 1 (one adaptive model per previous symbol) and STRIPE
   (4 round-robin sub-streams, each a NO_SIZE order-0 stream of its own; recursive decoder) on top
   of NV.Cram.Aac (noodles-cram src/codecs/aac/{encode,decode}/order_1.rs, {encode,decode}/stripe.rs,
   encode.rs, decode.rs).  Still not modelled: RLE and EXT (bzip2). *)
From Coq Require Import List NArith Bool PeanoNat.
From NV Require Import Cram.Bytes Cram.Vlq Cram.Rans4x8 Cram.Nx16Xform Cram.Nx16O0 Cram.Nx16Full Cram.Nx16Stripe Cram.Aac.
Import ListNotations.
Open Scope N_scope.

(* ---------- a vector of models ---------- *)

Fixpoint upd_model (l : list aac_model) (i : nat) (m : aac_model) : list aac_model :=
  match l, i with
  | [], _ => []
  | _ :: r, O => m :: r
  | x :: r, S i' => x :: upd_model r i' m
  end.

(* models[ctx].encode(sym); None = a panic (ctx outside the vector, symbol outside the model) *)
Definition ctx_encode (ms : list aac_model) (st : rc_enc) (ctx : N) (sym : N)
  : option (list aac_model * rc_enc * list N) :=
  match nth_error ms (N.to_nat ctx) with
  | None => None
  | Some m =>
    match model_encode m st sym with
    | None => None
    | Some (m', st', out) => Some (upd_model ms (N.to_nat ctx) m', st', out)
    end
  end.

Definition ctx_decode (ms : list aac_model) (st : rc_dec) (ctx : N) (bs : list N)
  : res (list aac_model * rc_dec * N * list N) :=
  match nth_error ms (N.to_nat ctx) with
  | None => RPanic
  | Some m =>
    match model_decode m st bs with
    | ROk (m', st', sym, bs') => ROk (upd_model ms (N.to_nat ctx) m', st', sym, bs')
    | RErr => RErr
    | RPanic => RPanic
    end
  end.

(* ---------- order 1 ---------- *)

(* models[NUL].encode(src[0]); for syms in src.windows(2) { models[syms[0]].encode(syms[1]) } *)
Fixpoint enc1_loop (ms : list aac_model) (st : rc_enc) (prev : N) (src : list N) : option (list N) :=
  match src with
  | [] => Some (rc_encode_end 5 st)
  | x :: r =>
    match ctx_encode ms st prev x with
    | None => None
    | Some (ms', st', out) =>
      match enc1_loop ms' st' x r with
      | None => None
      | Some rest => Some (out ++ rest)
      end
    end
  end.

Definition aac_o1_encode (src : list N) : option (list N) :=
  let n := S (N.to_nat (max_sym src)) in
  match enc1_loop (repeat (model_new n) n) rc_enc_init 0 src with
  | None => None
  | Some body => Some ((if (n =? 256)%nat then 0 else N.of_nat n) :: body)
  end.

Fixpoint dec1_loop (k : nat) (ms : list aac_model) (st : rc_dec) (prev : N) (bs : list N) : res (list N) :=
  match k with
  | O => ROk []
  | S k' =>
    match ctx_decode ms st prev bs with
    | ROk (ms', st', sym, bs') =>
      match dec1_loop k' ms' st' sym bs' with
      | ROk out => ROk (sym :: out)
      | e => e
      end
    | RErr => RErr
    | RPanic => RPanic
    end
  end.

Definition aac_o1_decode (bs : list N) (len : nat) : res (list N) :=
  match bs with
  | [] => RErr
  | c :: r =>
    let n := if c =? 0 then 256%nat else N.to_nat c in
    match rc_dec_new r with
    | None => RErr
    | Some (st, r') => dec1_loop len (repeat (model_new n) n) st 0 r'
    end
  end.

(* ---------- whole streams without STRIPE: aac::encode / aac::decode ---------- *)

Definition aac_encode1 (f : nxflags) (src : list N) : aace_result :=
  if f_stripe f then AeUnsupported
  else
    let size := if f_nosize f then [] else write_uint7 (N.of_nat (length src)) in
    let '(f1, s1, h1) := nx_pack_stage f src in
    let f2 := match s1 with
              | [] => {| f_order := f_order f1; f_res := f_res f1; f_n32 := f_n32 f1; f_stripe := f_stripe f1;
                         f_nosize := f_nosize f1; f_cat := true; f_rle := f_rle f1; f_pack := f_pack f1 |}
              | _ => f1
              end in
    if f_cat f2 then AeOk (byte_of_flags f2 :: size ++ h1 ++ s1)
    else if f_n32 f2 || f_rle f2 then AeUnsupported     (* EXT | RLE *)
    else
      match (if f_order f2 then aac_o1_encode s1 else aac_o0_encode s1) with
      | Some body => AeOk (byte_of_flags f2 :: size ++ h1 ++ body)
      | None => AePanic
      end.

Definition aac_decode1 (bs : list N) (usize : N) : nxd_result :=
  match bs with
  | [] => DErr
  | fb :: r0 =>
    let f := flags_of_byte fb in
    match (if f_nosize f then U7Ok usize r0 else read_uint7 r0) with
    | U7Ok size0 r1 =>
      if f_stripe f then DUnsupported
      else
        match (if f_pack f then
                 match rd_pack_ctx r1 with
                 | Some (table, len, t) => Some (Some table, len, t)
                 | None => None
                 end
               else Some (None, size0, r1)) with
        | None => DErr
        | Some (pctx, size1, r2) =>
          let data :=
            if f_cat f then
              match split_off r2 (N.to_nat size1) with
              | None => DErr
              | Some (payload, _) => DOk payload
              end
            else if f_n32 f || f_rle f then DUnsupported
            else
              match (if f_order f then aac_o1_decode r2 (N.to_nat size1)
                     else aac_o0_decode r2 (N.to_nat size1)) with
              | ROk d => DOk d
              | RErr => DErr
              | RPanic => DPanic
              end in
          match data with
          | DOk d =>
            match pctx with
            | Some table => pack_decode table d (N.to_nat size0)
            | None => DOk d
            end
          | e => e
          end
        end
    | _ => DErr
    end
  end.

(* ---------- STRIPE ---------- *)

Fixpoint aac_encode_chunks (cs : list (list N)) : aace_result * list (list N) :=
  match cs with
  | [] => (AeOk [], [])
  | c :: r =>
    match aac_encode1 nosize_flags c with
    | AeOk e =>
      match aac_encode_chunks r with
      | (AeOk _, es) => (AeOk [], e :: es)
      | bad => bad
      end
    | bad => (bad, [])
    end
  end.

(* aac::encode, every flag byte except RLE / EXT *)
Definition aac_encode_s (f : nxflags) (src : list N) : aace_result :=
  if f_stripe f then
    let size := if f_nosize f then [] else write_uint7 (N.of_nat (length src)) in
    match aac_encode_chunks (stripe_split 4 src) with
    | (AeOk _, es) =>
      AeOk (byte_of_flags f :: size ++ 4 :: flat_map (fun e => write_uint7 (N.of_nat (length e))) es
                                        ++ concat es)
    | (bad, _) => bad
    end
  else aac_encode1 f src.

Definition aac_encode_s_byte (fb : N) (src : list N) : aace_result := aac_encode_s (flags_of_byte fb) src.

(* aac::decode, recursive through STRIPE; fuel = stream length + 1 *)
Fixpoint aac_decode_f (fuel : nat) (bs : list N) (usize : N) : nxd_result :=
  match fuel with
  | O => DErr
  | S fu =>
    match bs with
    | [] => DErr
    | fb :: r0 =>
      let f := flags_of_byte fb in
      if f_stripe f then
        match (if f_nosize f then U7Ok usize r0 else read_uint7 r0) with
        | U7Ok size0 r1 => stripe_decode (aac_decode_f fu) r1 size0
        | _ => DErr
        end
      else aac_decode1 bs usize
    end
  end.

Definition aac_decode_s (bs : list N) (usize : N) : nxd_result := aac_decode_f (S (length bs)) bs usize.
