(* rANS 4x8 ORDER 1: faithful model of the noodles ENCODER
   (noodles-cram src/codecs/rans_4x8/encode/order_1.rs):

     build_raw_frequencies   the four chunk starts counted under the context NUL, then every
                             adjacent pair of the WHOLE input (src.windows(2), which also counts
                             the three pairs straddling a chunk boundary that are never coded)
     normalize_frequencies   order_0::normalize_frequencies on each of the 256 context rows
     build_cumulative_frequencies   order_0's, row by row
     write_frequencies       the outer run-length coding over the CONTEXTS that occur
                             (build_alphabet), each row written by order_0::write_frequencies
     split_chunks            four quarters of len/4 bytes; the remainder goes to the 4th state,
                             its first context being the last byte of the fourth quarter
     encode                  remainder first (reverse), then the quarters back to front with the
                             states used in the order 3,2,1,0, then the four chunk starts under
                             the context NUL; states, reversed byte buffer, header

   The decoder it is proved against is the INDEPENDENT specification decoder of NV.Cram.Rans4x8
   part 2 (ReadFrequencies1, RansDecode1).  Bytes, symbols, contexts, frequencies, states are [N];
   an order-1 table is a [list (list N)] of 256 rows of 256 entries. *)
From Coq Require Import List NArith Bool.
From NV Require Import Cram.Bytes Cram.Itf8 Cram.Rans4x8.
Import ListNotations.
Open Scope N_scope.

Definition zeros_tab : list (list N) := repeat zeros256 256.

(* frequencies[i][j] += 1 *)
Definition bump (T : list (list N)) (i j : N) : list (list N) :=
  let r := row T i in
  upd_row T (N.to_nat i) (upd r (N.to_nat j) (nth (N.to_nat j) r 0 + 1)).

(* for syms in src.windows(2) { frequencies[syms[0]][syms[1]] += 1 } on top of [T] *)
Fixpoint raw_windows (src : list N) (T : list (list N)) : list (list N) :=
  match src with
  | [] => T
  | a :: r =>
    match r with
    | [] => T
    | b :: _ => bump (raw_windows r T) a b
    end
  end.

(* for chunk in src.chunks_exact(q).take(4) { frequencies[NUL][chunk[0]] += 1 } *)
Definition raw_starts (src : list N) (q : nat) : list (list N) :=
  bump (bump (bump (bump zeros_tab 0 (nth 0 src 0)) 0 (nth q src 0)) 0 (nth (2 * q) src 0))
       0 (nth (3 * q) src 0).

Definition raw_frequencies1 (src : list N) : list (list N) :=
  raw_windows src (raw_starts src (Nat.div (length src) 4)).

(* order_0::normalize_frequencies on every row (None = overflow panic of a checked build) *)
Fixpoint normalize_rows (T : list (list N)) : option (list (list N)) :=
  match T with
  | [] => Some []
  | r :: t =>
    match normalize_frequencies r with
    | None => None
    | Some a => match normalize_rows t with
                | None => None
                | Some b => Some (a :: b)
                end
    end
  end.

(* build_alphabet: fs.iter().any(|&g| g > 0) *)
Definition in_alphabet (fs : list N) : bool := existsb (fun g => 0 <? g) fs.

(* alphabet[i..].iter().position(|&a| !a).unwrap_or(alphabet.len() - i) *)
Fixpoint run_len1 (l : list (list N)) : nat :=
  match l with
  | [] => O
  | fs :: r => if in_alphabet fs then S (run_len1 r) else O
  end.

(* write_frequencies of order 1: the same loop as order 0 with "frequency > 0" replaced by
   "context in the alphabet" and the ITF8 frequency replaced by the row's order-0 table.
   [l] = the not yet visited (context, row) pairs, [preva] = alphabet[sym - 1], [k] = how many
   rows the inner `iter.by_ref().take(len)` loop still consumes. *)
Fixpoint write_frequencies1_go (l : list (N * list N)) (preva : bool) (k : nat) : list N :=
  match l with
  | [] => [0]
  | (sym, fs) :: r =>
    match k with
    | S k' => write_frequencies fs ++ write_frequencies1_go r (in_alphabet fs) k'
    | O =>
      if in_alphabet fs then
        if (0 <? sym) && preva then
          let len := run_len1 (map snd r) in
          sym :: N.of_nat len :: write_frequencies fs ++ write_frequencies1_go r true len
        else sym :: write_frequencies fs ++ write_frequencies1_go r true 0
      else write_frequencies1_go r false 0
    end
  end.

Fixpoint index_rows (i : N) (l : list (list N)) : list (N * list N) :=
  match l with [] => [] | x :: r => (i, x) :: index_rows (i + 1) r end.

Definition write_frequencies1 (F1 : list (list N)) : list N :=
  write_frequencies1_go (index_rows 0 F1) false 0.

(* state_renormalize + state_step for the symbol [x] in the context [ctx] *)
Definition enc1_put (F1 C1 : list (list N)) (ctx x s : N) (stack : list N) : option (N * list N) :=
  let f := nth (N.to_nat x) (row F1 ctx) 0 in
  match enc_renorm 5 s f stack with
  | None => None
  | Some (s1, stack1) => Some (enc_step s1 f (nth (N.to_nat x) (row C1 ctx) 0), stack1)
  end.

(* `for syms in chunk_4.windows(2).rev()` with states[3], chunk_4 = ctx :: l: the last pair is
   coded first.  Result: states[3] and the byte stack. *)
Fixpoint enc1_tail (F1 C1 : list (list N)) (ctx : N) (l : list N) : option (N * list N) :=
  match l with
  | [] => Some (LOWER_BOUND, [])
  | x :: r =>
    match enc1_tail F1 C1 x r with
    | None => None
    | Some (s, stack) => enc1_put F1 C1 ctx x s stack
    end
  end.

(* the zipped reversed windows of the four quarters, states used in the order 3,2,1,0, followed
   by the chunk starts under NUL (the outermost call has k0 = .. = k3 = 0); what is coded first
   (the remainder, then the last window) is the innermost recursion. *)
Fixpoint enc1_main (F1 C1 : list (list N)) (k0 k1 k2 k3 : N) (c0 c1 c2 c3 rem : list N)
  : option (N * N * N * N * list N) :=
  match c0, c1, c2, c3 with
  | x0 :: r0, x1 :: r1, x2 :: r2, x3 :: r3 =>
    match enc1_main F1 C1 x0 x1 x2 x3 r0 r1 r2 r3 rem with
    | None => None
    | Some (s0, s1, s2, s3, st) =>
      match enc1_put F1 C1 k3 x3 s3 st with None => None | Some (s3', st3) =>
      match enc1_put F1 C1 k2 x2 s2 st3 with None => None | Some (s2', st2) =>
      match enc1_put F1 C1 k1 x1 s1 st2 with None => None | Some (s1', st1) =>
      match enc1_put F1 C1 k0 x0 s0 st1 with None => None | Some (s0', st0) =>
        Some (s0', s1', s2', s3', st0)
      end end end end
    end
  | _, _, _, _ =>
    match enc1_tail F1 C1 k3 rem with
    | None => None
    | Some (s3, st) => Some (LOWER_BOUND, LOWER_BOUND, LOWER_BOUND, s3, st)
    end
  end.

Definition encode_o1 (src : list N) : enc_result :=
  if Nat.ltb (length src) 4 then EncInvalidInput
  else
    match normalize_rows (raw_frequencies1 src) with
    | None => EncPanic
    | Some F1 =>
      let C1 := map cumulative F1 in
      let q := Nat.div (length src) 4 in
      let c0 := firstn q src in let t0 := skipn q src in
      let c1 := firstn q t0 in let t1 := skipn q t0 in
      let c2 := firstn q t1 in let t2 := skipn q t1 in
      let c3 := firstn q t2 in let rem := skipn q t2 in
      match enc1_main F1 C1 0 0 0 0 c0 c1 c2 c3 rem with
      | None => EncDiverges
      | Some (s0, s1, s2, s3, stack) =>
        let body := write_frequencies1 F1 ++ flat_map le32_bytes [s0; s1; s2; s3] ++ stack in
        EncOk (1 :: le32_bytes (N.of_nat (length body)) ++ le32_bytes (N.of_nat (length src)) ++ body)
      end
    end.
