(* Proofs about the rANS 4x8 model: the state update and the byte renormalisation are inverted
   by the specification decoder, the symbol search inverts the cumulative table, and the 4-way
   interleaved symbol loop of the encoder is decoded back to the input by the independent
   decoder, for every input and every frequency table that gives each used symbol a non-zero
   frequency and sums to at most 4096. *)
From Coq Require Import List NArith ZArith Lia Bool.
From Coq Require Import ZifyBool ZifyNat ZifyN.
From NV Require Import Cram.Bytes Cram.Itf8 Cram.Rans4x8.
Import ListNotations.
Ltac Zify.zify_post_hook ::= Z.div_mod_to_equations.
Open Scope N_scope.
Arguments N.add : simpl never.
Arguments N.sub : simpl never.
Arguments N.mul : simpl never.
Arguments N.div : simpl never.
Arguments N.modulo : simpl never.
Arguments N.pow : simpl never.
Arguments N.ltb : simpl never.
Arguments N.leb : simpl never.
Arguments N.eqb : simpl never.

(* ---------- state update ---------- *)

(* dec_step (enc_step x s) = (s, x): the low 12 bits of the new state identify the slot
   c + x mod f inside the symbol's interval [c, c + f), and RansAdvanceStep restores x.
   The table constant is 4096 = 1 << 12 (TF_SHIFT); noodles normalises tables to sum 4095. *)
Theorem rans_step_inverse x f c :
  0 < f -> c + f <= 4096 ->
  (enc_step x f c) mod 4096 = c + x mod f /\ spec_advance (enc_step x f c) c f = x.
Proof.
  intros Hf Hc. unfold enc_step, spec_advance.
  pose proof (N.div_mod' x f) as Hdm.
  assert (Hr : x mod f < f) by (apply N.mod_lt; lia).
  set (q := x / f) in *. set (r := x mod f) in *.
  assert (Hm : (q * 4096 + r + c) mod 4096 = c + r) by lia.
  assert (Hd : (q * 4096 + r + c) / 4096 = q) by lia.
  rewrite Hm, Hd. split; [reflexivity|]. lia.
Qed.

(* the encoder's renormalised state x in [2^11 f, 2^19 f) is mapped into I = [2^23, 2^31);
   in particular the u32 arithmetic of state_step cannot overflow *)
Lemma rans_step_range x f c :
  0 < f -> c + f <= 4096 -> 2048 * f <= x -> x < 524288 * f ->
  LOWER_BOUND <= enc_step x f c < 2147483648.
Proof.
  intros Hf Hc Hlo Hhi. unfold enc_step, LOWER_BOUND.
  assert (Hq1 : 2048 <= x / f) by (apply N.div_le_lower_bound; lia).
  assert (Hq2 : x / f < 524288) by (apply N.div_lt_upper_bound; lia).
  assert (Hr : x mod f < f) by (apply N.mod_lt; lia).
  set (q := x / f) in *. set (r := x mod f) in *. lia.
Qed.

(* ---------- renormalisation ---------- *)

Lemma spec_renorm_cons s b r :
  spec_renorm s (b :: r) = if LOWER_BOUND <=? s then Some (s, b :: r) else spec_renorm (s * 256 + b) r.
Proof. reflexivity. Qed.

Lemma spec_renorm_done s bs : LOWER_BOUND <= s -> spec_renorm s bs = Some (s, bs).
Proof.
  intros Hs. destruct bs as [|b r]; cbn [spec_renorm];
  replace (LOWER_BOUND <=? s) with true by lia; reflexivity.
Qed.

(* whatever the encoder's loop pushed is popped again by RansRenorm, which then continues as if
   started from the encoder's state before the loop *)
Lemma enc_renorm_spec : forall fuel s f stack s1 stack1,
  s < 2147483648 ->
  enc_renorm fuel s f stack = Some (s1, stack1) ->
  exists em, stack1 = em ++ stack /\
    (forall tail, spec_renorm s1 (em ++ tail) = spec_renorm s tail) /\
    s1 < 524288 * f /\ (s1 = s \/ 2048 * f <= s1).
Proof.
  induction fuel as [|fu IH]; intros s f stack s1 stack1 Hs He; [discriminate|].
  cbn [enc_renorm] in He. destruct (524288 * f <=? s) eqn:E.
  - assert (Hs' : s / 256 < 2147483648) by lia.
    destruct (IH _ _ _ _ _ Hs' He) as [em [Hst [Hrd [Hb1 Hb2]]]].
    exists (em ++ [s mod 256]). split; [rewrite <- app_assoc; exact Hst|]. split.
    + intros tail. rewrite <- app_assoc. cbn [app]. rewrite Hrd. rewrite spec_renorm_cons.
      unfold LOWER_BOUND. replace (8388608 <=? s / 256) with false by lia.
      f_equal. lia.
    + split; [exact Hb1|]. right. destruct Hb2 as [->|Hb2]; [|exact Hb2].
      apply N.div_le_lower_bound; lia.
  - inversion He; subst s1 stack1. exists []. split; [reflexivity|]. split; [reflexivity|].
    split; [lia|]. left; reflexivity.
Qed.

Theorem rans_renorm_inverse s f stack s1 stack1 :
  LOWER_BOUND <= s < 2147483648 -> f <= 4096 ->
  enc_renorm 5 s f stack = Some (s1, stack1) ->
  exists em, stack1 = em ++ stack /\
    (forall tail, spec_renorm s1 (em ++ tail) = Some (s, tail)) /\
    2048 * f <= s1 < 524288 * f.
Proof.
  intros [Hlo Hhi] Hf He.
  destruct (enc_renorm_spec _ _ _ _ _ _ Hhi He) as [em [Hst [Hrd [Hb1 Hb2]]]].
  exists em. split; [exact Hst|]. split.
  - intros tail. rewrite Hrd. apply spec_renorm_done. exact Hlo.
  - split; [|exact Hb1]. destruct Hb2 as [->|Hb2]; [unfold LOWER_BOUND in Hlo; lia|exact Hb2].
Qed.

(* state_renormalize terminates (within the model's fuel) whenever the frequency is not 0 *)
Lemma enc_renorm_terminates s f stack :
  0 < f -> s < 4294967296 -> exists s1 stack1, enc_renorm 5 s f stack = Some (s1, stack1).
Proof.
  intros Hf Hs. cbn [enc_renorm].
  destruct (524288 * f <=? s) eqn:E1; [|eauto].
  destruct (524288 * f <=? s / 256) eqn:E2; [|eauto].
  destruct (524288 * f <=? s / 256 / 256) eqn:E3; [|eauto].
  exfalso. lia.
Qed.

(* with frequency 0 the real loop `while s >= 0` never ends; the model reports that as None *)
Lemma enc_renorm_diverges fuel s stack : enc_renorm fuel s 0 stack = None.
Proof.
  revert s stack. induction fuel as [|fu IH]; intros s stack; [reflexivity|].
  cbn [enc_renorm]. replace (524288 * 0 <=? s) with true by lia. apply IH.
Qed.

(* ---------- cumulative table and symbol search ---------- *)

Lemma cumulative_go_nth : forall F acc x, (x < length F)%nat ->
  nth x (cumulative_go F acc) 0 = acc + sumN (firstn x F).
Proof.
  induction F as [|f r IH]; intros acc x Hx; [inversion Hx|].
  destruct x as [|x']; cbn [cumulative_go nth firstn sumN]; [lia|].
  rewrite IH by (cbn [length] in Hx; lia). lia.
Qed.

Lemma cumulative_nth F x : (x < length F)%nat -> nth x (cumulative F) 0 = sumN (firstn x F).
Proof. intros Hx. unfold cumulative. rewrite cumulative_go_nth by exact Hx. lia. Qed.

Lemma sum_firstn_nth_le : forall F x, (x < length F)%nat ->
  sumN (firstn x F) + nth x F 0 <= sumN F.
Proof.
  induction F as [|f r IH]; intros x Hx; [inversion Hx|].
  destruct x as [|x']; cbn [firstn sumN nth]; [lia|].
  specialize (IH x' ltac:(cbn [length] in Hx; lia)). lia.
Qed.

(* RansGetSymbolFromFreq inverts the cumulative table on every slot of a symbol's interval *)
Lemma spec_symbol_correct : forall F x s0 c0 r,
  (x < length F)%nat -> r < nth x F 0 ->
  spec_symbol F (sumN (firstn x F) + r) s0 c0 = (s0 + N.of_nat x, c0 + sumN (firstn x F)).
Proof.
  induction F as [|f rest IH]; intros x s0 c0 r Hx Hr; [inversion Hx|].
  destruct x as [|x'].
  - cbn [firstn sumN nth spec_symbol] in *. replace (0 + r <? f) with true by lia.
    f_equal; lia.
  - cbn [firstn sumN nth spec_symbol] in *.
    replace (f + sumN (firstn x' rest) + r <? f) with false by lia.
    replace (f + sumN (firstn x' rest) + r - f) with (sumN (firstn x' rest) + r) by lia.
    rewrite IH by (cbn [length] in Hx; lia || exact Hr). f_equal; lia.
Qed.

(* ---------- the interleaved symbol loop ---------- *)

Definition table_ok (F : list N) (src : list N) : Prop :=
  sumN F <= 4096 /\
  forall x, In x src -> (N.to_nat x < length F)%nat /\ 0 < nth (N.to_nat x) F 0.

Definition state_ok (s : N) : Prop := LOWER_BOUND <= s < 2147483648.

Lemma spec_decode_one_enc F x s1 em d rest :
  sumN F <= 4096 -> (N.to_nat x < length F)%nat -> 0 < nth (N.to_nat x) F 0 ->
  2048 * nth (N.to_nat x) F 0 <= s1 < 524288 * nth (N.to_nat x) F 0 ->
  (forall tail, spec_renorm s1 (em ++ tail) = Some (d, tail)) ->
  spec_decode_one F (enc_step s1 (nth (N.to_nat x) F 0) (nth (N.to_nat x) (cumulative F) 0)) (em ++ rest)
  = Some (x, d, rest).
Proof.
  intros Hsum Hx Hf Hs1 Hrd.
  set (f := nth (N.to_nat x) F 0) in *.
  rewrite cumulative_nth by exact Hx.
  set (c := sumN (firstn (N.to_nat x) F)).
  assert (Hcf : c + f <= 4096) by (pose proof (sum_firstn_nth_le F _ Hx); unfold c, f; lia).
  destruct (rans_step_inverse s1 f c Hf Hcf) as [Hm Ha].
  unfold spec_decode_one. rewrite Hm.
  unfold c at 1. rewrite spec_symbol_correct; [|exact Hx|apply N.mod_lt; lia].
  replace (0 + N.of_nat (N.to_nat x)) with x by lia.
  replace (0 + sumN (firstn (N.to_nat x) F)) with c by (unfold c; lia).
  fold f. rewrite Ha. rewrite Hrd. reflexivity.
Qed.

Theorem rans4x8_o0_core_roundtrip : forall src F,
  table_ok F src ->
  exists st stack,
    enc_symbols F (cumulative F) src = Some (st, stack) /\
    length st = 4%nat /\ Forall state_ok st /\
    forall tail, spec_decode0_loop (length src) F st (stack ++ tail) = Some (src, tail).
Proof.
  induction src as [|x r IH]; intros F [Hsum Hsym].
  - exists [LOWER_BOUND; LOWER_BOUND; LOWER_BOUND; LOWER_BOUND], [].
    split; [reflexivity|]. split; [reflexivity|]. split.
    + repeat constructor; unfold state_ok, LOWER_BOUND; lia.
    + intros tail. reflexivity.
  - destruct (IH F) as [st [stack [He [Hlen [Hok Hdec]]]]].
    { split; [exact Hsum|]. intros y Hy. apply Hsym. right. exact Hy. }
    destruct st as [|a [|b [|c [|d [|e st']]]]]; try discriminate Hlen.
    destruct (Hsym x (or_introl eq_refl)) as [Hx Hf].
    set (f := nth (N.to_nat x) F 0) in *.
    assert (Hd : state_ok d).
    { inversion Hok as [|? ? _ Hk1]; inversion Hk1 as [|? ? _ Hk2]; inversion Hk2 as [|? ? _ Hk3];
      inversion Hk3 as [|? ? Hk4 _]. exact Hk4. }
    assert (Hf4096 : f <= 4096).
    { pose proof (sum_firstn_nth_le F _ Hx). fold f in H. lia. }
    destruct (enc_renorm_terminates d f stack Hf ltac:(unfold state_ok in Hd; lia)) as [s1 [stack1 Hr]].
    destruct (rans_renorm_inverse d f stack s1 stack1 Hd Hf4096 Hr) as [em [Hst [Hrd Hb]]].
    exists [enc_step s1 f (nth (N.to_nat x) (cumulative F) 0); a; b; c], stack1.
    split.
    { cbn [enc_symbols]. rewrite He. cbn [rotr rev app]. fold f. rewrite Hr. reflexivity. }
    split; [reflexivity|]. split.
    { constructor.
      - unfold state_ok. rewrite cumulative_nth by exact Hx.
        apply rans_step_range; try lia.
        pose proof (sum_firstn_nth_le F _ Hx). fold f in H. lia.
      - inversion Hok as [|? ? Hka Hk1]; inversion Hk1 as [|? ? Hkb Hk2]; inversion Hk2 as [|? ? Hkc Hk3].
        apply Forall_cons; [exact Hka|]. apply Forall_cons; [exact Hkb|].
        apply Forall_cons; [exact Hkc|]. apply Forall_nil. }
    intros tail. cbn [length spec_decode0_loop]. subst stack1. rewrite <- app_assoc.
    unfold f. rewrite (spec_decode_one_enc F x s1 em d (stack ++ tail) Hsum Hx Hf Hb Hrd).
    cbn [app]. rewrite Hdec. reflexivity.
Qed.

(* ---------- the table produced by normalize_frequencies ---------- *)

Lemma upd_length : forall l i v, length (upd l i v) = length l.
Proof. induction l as [|x r IH]; intros [|i] v; cbn [upd length]; try reflexivity; now rewrite IH. Qed.

Lemma sumN_upd : forall l i v, (i < length l)%nat -> sumN (upd l i v) + nth i l 0 = sumN l + v.
Proof.
  induction l as [|x r IH]; intros i v Hi; [inversion Hi|].
  destruct i as [|i']; cbn [upd sumN nth]; [lia|].
  specialize (IH i' v ltac:(cbn [length] in Hi; lia)). lia.
Qed.

(* every table that normalize_frequencies returns without panicking sums to 4095 (when the
   input is not empty) -- the value the specification asks for *)
Lemma sumN_repeat0 n : sumN (repeat 0 n) = 0.
Proof. induction n as [|n IH]; cbn [repeat sumN]; [reflexivity|]. rewrite IH. reflexivity. Qed.

Lemma upd_out : forall l i v, (length l <= i)%nat -> upd l i v = l.
Proof.
  induction l as [|x r IH]; intros i v Hi; [destruct i; reflexivity|].
  destruct i as [|i']; [cbn [length] in Hi; lia|]. cbn [upd]. rewrite IH; [reflexivity|].
  cbn [length] in Hi. lia.
Qed.

Lemma nth_out0 : forall (l : list N) i, (length l <= i)%nat -> nth i l 0 = 0.
Proof. intros l i Hi. apply nth_overflow. exact Hi. Qed.

Lemma raw_frequencies_length src : length (raw_frequencies src) = 256%nat.
Proof.
  induction src as [|b r IH]; cbn [raw_frequencies]; [apply repeat_length|].
  rewrite upd_length. exact IH.
Qed.

(* whatever normalize_frequencies returns (without panicking) sums to at most 4095, and has the
   length of its argument or is the all-zero table *)
Lemma normalize_sum_le raw F : normalize_frequencies raw = Some F -> sumN F <= 4095.
Proof.
  unfold normalize_frequencies. destruct (describe_frequencies raw) as [mi sum].
  destruct (TWO32 <=? sum); [discriminate|].
  destruct (sum =? 0).
  { intros H; inversion H. unfold zeros256. rewrite sumN_repeat0. lia. }
  destruct (existsb _ raw); [discriminate|].
  set (nf := map _ raw). set (nsum := sumN nf).
  destruct (nsum <? 4095) eqn:E1.
  { intros H; inversion H; subst F.
    destruct (Nat.lt_ge_cases mi (length nf)) as [Hin|Hout].
    - pose proof (sumN_upd nf mi (nth mi nf 0 + (4095 - nsum)) Hin). fold nsum in H0. lia.
    - rewrite upd_out by exact Hout. fold nsum. lia. }
  destruct (4095 <? nsum) eqn:E2.
  { destruct (nth mi nf 0 <? nsum - 4095) eqn:E3; [discriminate|].
    intros H; inversion H; subst F.
    destruct (Nat.lt_ge_cases mi (length nf)) as [Hin|Hout].
    - pose proof (sumN_upd nf mi (nth mi nf 0 - (nsum - 4095)) Hin). fold nsum in H0. lia.
    - rewrite (nth_out0 nf mi Hout) in E3. lia. }
  intros H; inversion H; subst F. fold nsum. lia.
Qed.

Lemma normalize_length raw F :
  length raw = 256%nat -> normalize_frequencies raw = Some F -> length F = 256%nat.
Proof.
  intros Hl. unfold normalize_frequencies. destruct (describe_frequencies raw) as [mi sum].
  destruct (TWO32 <=? sum); [discriminate|].
  destruct (sum =? 0); [intros H; inversion H; apply repeat_length|].
  destruct (existsb _ raw); [discriminate|].
  set (nf := map _ raw).
  assert (Hnf : length nf = 256%nat) by (unfold nf; rewrite map_length; exact Hl).
  destruct (_ <? 4095); [intros H; inversion H; rewrite upd_length; exact Hnf|].
  destruct (4095 <? _).
  { destruct (_ <? _); [discriminate|]. intros H; inversion H; rewrite upd_length; exact Hnf. }
  intros H; inversion H; subst F; exact Hnf.
Qed.

(* The order-0 payload (states + renormalisation bytes) that the noodles encoder emits decodes,
   under the independent decoder, to the input -- for EVERY byte string, provided the encoder's
   own table gives each occurring symbol a non-zero frequency.  That proviso and `normalize_
   frequencies src <> panic` are exactly the side conditions the proof forces ("no_overflow"). *)
Definition no_overflow (src F : list N) : Prop :=
  normalize_frequencies (raw_frequencies src) = Some F /\
  forall x, In x src -> 0 < nth (N.to_nat x) F 0.

Theorem rans4x8_o0_payload_roundtrip : forall src F,
  Forall (fun x => x < 256) src -> no_overflow src F ->
  exists st stack,
    enc_symbols F (cumulative F) src = Some (st, stack) /\
    forall tail, spec_decode0_loop (length src) F st (stack ++ tail) = Some (src, tail).
Proof.
  intros src F Hbytes [Hn Hpos].
  assert (Hlen : length F = 256%nat)
    by (eapply normalize_length; [apply raw_frequencies_length|exact Hn]).
  destruct (rans4x8_o0_core_roundtrip src F) as [st [stack [He [_ [_ Hd]]]]].
  { split; [pose proof (normalize_sum_le _ _ Hn); lia|].
    intros x Hx. split; [|apply Hpos; exact Hx].
    rewrite Forall_forall in Hbytes. specialize (Hbytes x Hx). rewrite Hlen. lia. }
  exists st, stack. split; [exact He|exact Hd].
Qed.

(* ---------- the known defect classes, reproduced by the faithful model ---------- *)

Definition bytes_of_result (r : enc_result) : list N :=
  match r with EncOk b => b | _ => [] end.

(* F8: `f * 4095` leaves u32 for a symbol count above 1_048_832 *)
Lemma normalize_u32_overflow_refuted :
  normalize_frequencies (upd zeros256 65 1048833) = None /\
  normalize_frequencies (upd zeros256 65 1048832) <> None.
Proof. split; vm_compute; [reflexivity|discriminate]. Qed.

(* F8b: 127 symbols x 4128, one x 3871, 128 x 1 (528,255 bytes): every frequent symbol scales to
   an exact integer, 128 rare ones are bumped to 1, and the correction exceeds the maximum's share *)
Lemma normalize_u16_underflow_refuted :
  normalize_frequencies (repeat 4128 127 ++ [3871] ++ repeat 1 128) = None.
Proof. vm_compute. reflexivity. Qed.

(* write_frequencies starts with prev_sym = 0: a table whose first symbol is 1 gets a run-length
   byte the reader does not expect *)
Lemma rans4x8_o0_first_symbol_1_refuted :
  exists src, (exists b, encode_o0 src = EncOk b) /\
              spec_decode (bytes_of_result (encode_o0 src)) <> Some src.
Proof. exists [1]. split; [eexists; vm_compute; reflexivity|vm_compute; discriminate]. Qed.

(* `position(..).unwrap_or(0)`: a run of consecutive symbols that reaches symbol 255 *)
Lemma rans4x8_o0_run_to_255_refuted :
  exists src, (exists b, encode_o0 src = EncOk b) /\
              spec_decode (bytes_of_result (encode_o0 src)) <> Some src.
Proof. exists [253; 254; 255]. split; [eexists; vm_compute; reflexivity|vm_compute; discriminate]. Qed.

(* the empty input: the table is the lone terminator, read back as "symbol 0" *)
Lemma rans4x8_o0_empty_refuted :
  (exists b, encode_o0 [] = EncOk b) /\ spec_decode (bytes_of_result (encode_o0 [])) <> Some [].
Proof. split; [eexists; vm_compute; reflexivity|vm_compute; discriminate]. Qed.

(* end-to-end, on concrete inputs outside the known classes (non-vacuity of the whole pipeline:
   table serialisation, header, states, payload) *)
Example rans4x8_o0_end_to_end_1 :
  let src := [0; 2; 0; 2; 7; 7; 7; 9; 0; 200; 255; 0; 2] in
  spec_decode (bytes_of_result (encode_o0 src)) = Some src.
Proof. vm_compute. reflexivity. Qed.

Example rans4x8_o0_end_to_end_2 :
  let src := [104; 101; 108; 108; 111; 32; 119; 111; 114; 108; 100; 33; 33] in
  spec_decode (bytes_of_result (encode_o0 src)) = Some src.
Proof. vm_compute. reflexivity. Qed.
