(* Proofs about the rANS 4x8 model: the state update and the byte renormalisation are inverted
   by the specification decoder, the symbol search inverts the cumulative table, and the 4-way
   interleaved symbol loop of the encoder is decoded back to the input by the independent
   decoder, for every input and every frequency table that gives each used symbol a non-zero
   frequency and sums to at most 4096. *)
From Coq Require Import List NArith ZArith Lia Bool.
From Coq Require Import ZifyBool ZifyNat ZifyN.
From NV Require Import Cram.Bytes Cram.Itf8 Cram.Rans4x8.
Import ListNotations.
Ltac Zify.zify_post_hook ::= Z.div_mod_to_equations.
Open Scope N_scope.
Arguments N.add : simpl never.
Arguments N.sub : simpl never.
Arguments N.mul : simpl never.
Arguments N.div : simpl never.
Arguments N.modulo : simpl never.
Arguments N.pow : simpl never.
Arguments N.ltb : simpl never.
Arguments N.leb : simpl never.
Arguments N.eqb : simpl never.

(* ---------- state update ---------- *)

(* dec_step (enc_step x s) = (s, x): the low 12 bits of the new state identify the slot
   c + x mod f inside the symbol's interval [c, c + f), and RansAdvanceStep restores x.
   The table constant is 4096 = 1 << 12 (TF_SHIFT); noodles normalises tables to sum 4095. *)
Theorem rans_step_inverse x f c :
  0 < f -> c + f <= 4096 ->
  (enc_step x f c) mod 4096 = c + x mod f /\ spec_advance (enc_step x f c) c f = x.
Proof.
  intros Hf Hc. unfold enc_step, spec_advance.
  pose proof (N.div_mod' x f) as Hdm.
  assert (Hr : x mod f < f) by (apply N.mod_lt; lia).
  set (q := x / f) in *. set (r := x mod f) in *.
  assert (Hm : (q * 4096 + r + c) mod 4096 = c + r) by lia.
  assert (Hd : (q * 4096 + r + c) / 4096 = q) by lia.
  rewrite Hm, Hd. split; [reflexivity|]. lia.
Qed.

(* the encoder's renormalised state x in [2^11 f, 2^19 f) is mapped into I = [2^23, 2^31);
   in particular the u32 arithmetic of state_step cannot overflow *)
Lemma rans_step_range x f c :
  0 < f -> c + f <= 4096 -> 2048 * f <= x -> x < 524288 * f ->
  LOWER_BOUND <= enc_step x f c < 2147483648.
Proof.
  intros Hf Hc Hlo Hhi. unfold enc_step, LOWER_BOUND.
  assert (Hq1 : 2048 <= x / f) by (apply N.div_le_lower_bound; lia).
  assert (Hq2 : x / f < 524288) by (apply N.div_lt_upper_bound; lia).
  assert (Hr : x mod f < f) by (apply N.mod_lt; lia).
  set (q := x / f) in *. set (r := x mod f) in *. lia.
Qed.

(* ---------- renormalisation ---------- *)

Lemma spec_renorm_cons s b r :
  spec_renorm s (b :: r) = if LOWER_BOUND <=? s then Some (s, b :: r) else spec_renorm (s * 256 + b) r.
Proof. reflexivity. Qed.

Lemma spec_renorm_done s bs : LOWER_BOUND <= s -> spec_renorm s bs = Some (s, bs).
Proof.
  intros Hs. destruct bs as [|b r]; cbn [spec_renorm];
  replace (LOWER_BOUND <=? s) with true by lia; reflexivity.
Qed.

(* whatever the encoder's loop pushed is popped again by RansRenorm, which then continues as if
   started from the encoder's state before the loop *)
Lemma enc_renorm_spec : forall fuel s f stack s1 stack1,
  s < 2147483648 ->
  enc_renorm fuel s f stack = Some (s1, stack1) ->
  exists em, stack1 = em ++ stack /\
    (forall tail, spec_renorm s1 (em ++ tail) = spec_renorm s tail) /\
    s1 < 524288 * f /\ (s1 = s \/ 2048 * f <= s1).
Proof.
  induction fuel as [|fu IH]; intros s f stack s1 stack1 Hs He; [discriminate|].
  cbn [enc_renorm] in He. destruct (524288 * f <=? s) eqn:E.
  - assert (Hs' : s / 256 < 2147483648) by lia.
    destruct (IH _ _ _ _ _ Hs' He) as [em [Hst [Hrd [Hb1 Hb2]]]].
    exists (em ++ [s mod 256]). split; [rewrite <- app_assoc; exact Hst|]. split.
    + intros tail. rewrite <- app_assoc. cbn [app]. rewrite Hrd. rewrite spec_renorm_cons.
      unfold LOWER_BOUND. replace (8388608 <=? s / 256) with false by lia.
      f_equal. lia.
    + split; [exact Hb1|]. right. destruct Hb2 as [->|Hb2]; [|exact Hb2].
      apply N.div_le_lower_bound; lia.
  - inversion He; subst s1 stack1. exists []. split; [reflexivity|]. split; [reflexivity|].
    split; [lia|]. left; reflexivity.
Qed.

Theorem rans_renorm_inverse s f stack s1 stack1 :
  LOWER_BOUND <= s < 2147483648 -> f <= 4096 ->
  enc_renorm 5 s f stack = Some (s1, stack1) ->
  exists em, stack1 = em ++ stack /\
    (forall tail, spec_renorm s1 (em ++ tail) = Some (s, tail)) /\
    2048 * f <= s1 < 524288 * f.
Proof.
  intros [Hlo Hhi] Hf He.
  destruct (enc_renorm_spec _ _ _ _ _ _ Hhi He) as [em [Hst [Hrd [Hb1 Hb2]]]].
  exists em. split; [exact Hst|]. split.
  - intros tail. rewrite Hrd. apply spec_renorm_done. exact Hlo.
  - split; [|exact Hb1]. destruct Hb2 as [->|Hb2]; [unfold LOWER_BOUND in Hlo; lia|exact Hb2].
Qed.

(* state_renormalize terminates (within the model's fuel) whenever the frequency is not 0 *)
Lemma enc_renorm_terminates s f stack :
  0 < f -> s < 4294967296 -> exists s1 stack1, enc_renorm 5 s f stack = Some (s1, stack1).
Proof.
  intros Hf Hs. cbn [enc_renorm].
  destruct (524288 * f <=? s) eqn:E1; [|eauto].
  destruct (524288 * f <=? s / 256) eqn:E2; [|eauto].
  destruct (524288 * f <=? s / 256 / 256) eqn:E3; [|eauto].
  exfalso. lia.
Qed.

(* with frequency 0 the real loop `while s >= 0` never ends; the model reports that as None *)
Lemma enc_renorm_diverges fuel s stack : enc_renorm fuel s 0 stack = None.
Proof.
  revert s stack. induction fuel as [|fu IH]; intros s stack; [reflexivity|].
  cbn [enc_renorm]. replace (524288 * 0 <=? s) with true by lia. apply IH.
Qed.

(* ---------- cumulative table and symbol search ---------- *)

Lemma cumulative_go_nth : forall F acc x, (x < length F)%nat ->
  nth x (cumulative_go F acc) 0 = acc + sumN (firstn x F).
Proof.
  induction F as [|f r IH]; intros acc x Hx; [inversion Hx|].
  destruct x as [|x']; cbn [cumulative_go nth firstn sumN]; [lia|].
  rewrite IH by (cbn [length] in Hx; lia). lia.
Qed.

Lemma cumulative_nth F x : (x < length F)%nat -> nth x (cumulative F) 0 = sumN (firstn x F).
Proof. intros Hx. unfold cumulative. rewrite cumulative_go_nth by exact Hx. lia. Qed.

Lemma sum_firstn_nth_le : forall F x, (x < length F)%nat ->
  sumN (firstn x F) + nth x F 0 <= sumN F.
Proof.
  induction F as [|f r IH]; intros x Hx; [inversion Hx|].
  destruct x as [|x']; cbn [firstn sumN nth]; [lia|].
  specialize (IH x' ltac:(cbn [length] in Hx; lia)). lia.
Qed.

(* RansGetSymbolFromFreq inverts the cumulative table on every slot of a symbol's interval *)
Lemma spec_symbol_correct : forall F x s0 c0 r,
  (x < length F)%nat -> r < nth x F 0 ->
  spec_symbol F (sumN (firstn x F) + r) s0 c0 = (s0 + N.of_nat x, c0 + sumN (firstn x F)).
Proof.
  induction F as [|f rest IH]; intros x s0 c0 r Hx Hr; [inversion Hx|].
  destruct x as [|x'].
  - cbn [firstn sumN nth spec_symbol] in *. replace (0 + r <? f) with true by lia.
    f_equal; lia.
  - cbn [firstn sumN nth spec_symbol] in *.
    replace (f + sumN (firstn x' rest) + r <? f) with false by lia.
    replace (f + sumN (firstn x' rest) + r - f) with (sumN (firstn x' rest) + r) by lia.
    rewrite IH by (cbn [length] in Hx; lia || exact Hr). f_equal; lia.
Qed.

(* ---------- the interleaved symbol loop ---------- *)

Definition table_ok (F : list N) (src : list N) : Prop :=
  sumN F <= 4096 /\
  forall x, In x src -> (N.to_nat x < length F)%nat /\ 0 < nth (N.to_nat x) F 0.

Definition state_ok (s : N) : Prop := LOWER_BOUND <= s < 2147483648.

Lemma spec_decode_one_enc F x s1 em d rest :
  sumN F <= 4096 -> (N.to_nat x < length F)%nat -> 0 < nth (N.to_nat x) F 0 ->
  2048 * nth (N.to_nat x) F 0 <= s1 < 524288 * nth (N.to_nat x) F 0 ->
  (forall tail, spec_renorm s1 (em ++ tail) = Some (d, tail)) ->
  spec_decode_one F (enc_step s1 (nth (N.to_nat x) F 0) (nth (N.to_nat x) (cumulative F) 0)) (em ++ rest)
  = Some (x, d, rest).
Proof.
  intros Hsum Hx Hf Hs1 Hrd.
  set (f := nth (N.to_nat x) F 0) in *.
  rewrite cumulative_nth by exact Hx.
  set (c := sumN (firstn (N.to_nat x) F)).
  assert (Hcf : c + f <= 4096) by (pose proof (sum_firstn_nth_le F _ Hx); unfold c, f; lia).
  destruct (rans_step_inverse s1 f c Hf Hcf) as [Hm Ha].
  unfold spec_decode_one. rewrite Hm.
  unfold c at 1. rewrite spec_symbol_correct; [|exact Hx|apply N.mod_lt; lia].
  replace (0 + N.of_nat (N.to_nat x)) with x by lia.
  replace (0 + sumN (firstn (N.to_nat x) F)) with c by (unfold c; lia).
  fold f. rewrite Ha. rewrite Hrd. reflexivity.
Qed.

Theorem rans4x8_o0_core_roundtrip : forall src F,
  table_ok F src ->
  exists st stack,
    enc_symbols F (cumulative F) src = Some (st, stack) /\
    length st = 4%nat /\ Forall state_ok st /\
    forall tail, spec_decode0_loop (length src) F st (stack ++ tail) = Some (src, tail).
Proof.
  induction src as [|x r IH]; intros F [Hsum Hsym].
  - exists [LOWER_BOUND; LOWER_BOUND; LOWER_BOUND; LOWER_BOUND], [].
    split; [reflexivity|]. split; [reflexivity|]. split.
    + repeat constructor; unfold state_ok, LOWER_BOUND; lia.
    + intros tail. reflexivity.
  - destruct (IH F) as [st [stack [He [Hlen [Hok Hdec]]]]].
    { split; [exact Hsum|]. intros y Hy. apply Hsym. right. exact Hy. }
    destruct st as [|a [|b [|c [|d [|e st']]]]]; try discriminate Hlen.
    destruct (Hsym x (or_introl eq_refl)) as [Hx Hf].
    set (f := nth (N.to_nat x) F 0) in *.
    assert (Hd : state_ok d).
    { inversion Hok as [|? ? _ Hk1]; inversion Hk1 as [|? ? _ Hk2]; inversion Hk2 as [|? ? _ Hk3];
      inversion Hk3 as [|? ? Hk4 _]. exact Hk4. }
    assert (Hf4096 : f <= 4096).
    { pose proof (sum_firstn_nth_le F _ Hx). fold f in H. lia. }
    destruct (enc_renorm_terminates d f stack Hf ltac:(unfold state_ok in Hd; lia)) as [s1 [stack1 Hr]].
    destruct (rans_renorm_inverse d f stack s1 stack1 Hd Hf4096 Hr) as [em [Hst [Hrd Hb]]].
    exists [enc_step s1 f (nth (N.to_nat x) (cumulative F) 0); a; b; c], stack1.
    split.
    { cbn [enc_symbols]. rewrite He. cbn [rotr rev app]. fold f. rewrite Hr. reflexivity. }
    split; [reflexivity|]. split.
    { constructor.
      - unfold state_ok. rewrite cumulative_nth by exact Hx.
        apply rans_step_range; try lia.
        pose proof (sum_firstn_nth_le F _ Hx). fold f in H. lia.
      - inversion Hok as [|? ? Hka Hk1]; inversion Hk1 as [|? ? Hkb Hk2]; inversion Hk2 as [|? ? Hkc Hk3].
        apply Forall_cons; [exact Hka|]. apply Forall_cons; [exact Hkb|].
        apply Forall_cons; [exact Hkc|]. apply Forall_nil. }
    intros tail. cbn [length spec_decode0_loop]. subst stack1. rewrite <- app_assoc.
    unfold f. rewrite (spec_decode_one_enc F x s1 em d (stack ++ tail) Hsum Hx Hf Hb Hrd).
    cbn [app]. rewrite Hdec. reflexivity.
Qed.

(* ---------- the table produced by normalize_frequencies ---------- *)

Lemma upd_length : forall l i v, length (upd l i v) = length l.
Proof. induction l as [|x r IH]; intros [|i] v; cbn [upd length]; try reflexivity; now rewrite IH. Qed.

Lemma sumN_upd : forall l i v, (i < length l)%nat -> sumN (upd l i v) + nth i l 0 = sumN l + v.
Proof.
  induction l as [|x r IH]; intros i v Hi; [inversion Hi|].
  destruct i as [|i']; cbn [upd sumN nth]; [lia|].
  specialize (IH i' v ltac:(cbn [length] in Hi; lia)). lia.
Qed.

Lemma sumN_repeat0 n : sumN (repeat 0 n) = 0.
Proof. induction n as [|n IH]; cbn [repeat sumN]; [reflexivity|]. rewrite IH. reflexivity. Qed.

Lemma upd_out : forall l i v, (length l <= i)%nat -> upd l i v = l.
Proof.
  induction l as [|x r IH]; intros i v Hi; [destruct i; reflexivity|].
  destruct i as [|i']; [cbn [length] in Hi; lia|]. cbn [upd]. rewrite IH; [reflexivity|].
  cbn [length] in Hi. lia.
Qed.

Lemma nth_upd_eq : forall l i v, (i < length l)%nat -> nth i (upd l i v) 0 = v.
Proof.
  induction l as [|x r IH]; intros i v Hi; [inversion Hi|].
  destruct i as [|i']; cbn [upd nth]; [reflexivity|]. apply IH. cbn [length] in Hi. lia.
Qed.

Lemma nth_upd_neq : forall l i j v, i <> j -> nth j (upd l i v) 0 = nth j l 0.
Proof.
  induction l as [|x r IH]; intros i j v Hij; [destruct i; reflexivity|].
  destruct i as [|i'], j as [|j']; cbn [upd nth]; try reflexivity; [congruence|].
  apply IH. congruence.
Qed.

Lemma raw_frequencies_length src : length (raw_frequencies src) = 256%nat.
Proof.
  induction src as [|b r IH]; cbn [raw_frequencies]; [apply repeat_length|].
  rewrite upd_length. exact IH.
Qed.

(* every byte of the input is counted *)
Lemma raw_frequencies_pos : forall src x,
  Forall (fun b => b < 256) src -> In x src -> 0 < nth (N.to_nat x) (raw_frequencies src) 0.
Proof.
  induction src as [|b r IH]; intros x Hb Hin; [destruct Hin|].
  inversion Hb as [|? ? Hb0 Hbr]; subst. cbn [raw_frequencies].
  destruct (N.eq_dec x b) as [->|Hne].
  - rewrite nth_upd_eq by (rewrite raw_frequencies_length; lia). lia.
  - rewrite nth_upd_neq by (intro Hc; apply Hne; lia).
    destruct Hin as [Hin|Hin]; [congruence|]. apply IH; assumption.
Qed.

Lemma sumN_raw_frequencies : forall src,
  Forall (fun b => b < 256) src -> sumN (raw_frequencies src) = N.of_nat (length src).
Proof.
  induction src as [|b r IH]; intros Hb.
  - cbn [raw_frequencies length]. unfold zeros256. apply sumN_repeat0.
  - inversion Hb as [|? ? Hb0 Hbr]; subst. cbn [raw_frequencies].
    pose proof (sumN_upd (raw_frequencies r) (N.to_nat b)
                  (nth (N.to_nat b) (raw_frequencies r) 0 + 1)
                  ltac:(rewrite raw_frequencies_length; lia)) as H.
    rewrite (IH Hbr) in H. cbn [length]. lia.
Qed.

Lemma describe_go_sum : forall l i mx mi sum, snd (describe_go l i mx mi sum) = sum + sumN l.
Proof.
  induction l as [|f r IH]; intros i mx mi sum; cbn [describe_go sumN snd]; [lia|].
  destruct (mx <=? f); rewrite IH; lia.
Qed.

Lemma describe_sum raw : snd (describe_frequencies raw) = sumN raw.
Proof. unfold describe_frequencies. rewrite describe_go_sum. lia. Qed.

(* take_excess: lengths, sums, and no symbol that occurs is lowered below 1 *)
Lemma take_excess_length : forall l e, length (fst (take_excess l e)) = length l.
Proof.
  induction l as [|g r IH]; intros e; cbn [take_excess]; [reflexivity|].
  specialize (IH (e - N.min e (g - 1))). destruct (take_excess r _) as [r' e'].
  cbn [fst length] in *. now rewrite IH.
Qed.

Lemma take_excess_sum : forall l e,
  sumN (fst (take_excess l e)) + (e - snd (take_excess l e)) = sumN l /\
  snd (take_excess l e) <= e /\
  (snd (take_excess l e) = 0 \/ sumN (fst (take_excess l e)) <= N.of_nat (length l)).
Proof.
  induction l as [|g r IH]; intros e; cbn [take_excess].
  - cbn [fst snd sumN length]. repeat split; try lia.
  - specialize (IH (e - N.min e (g - 1))). destruct (take_excess r _) as [r' e'].
    cbn [fst snd sumN length] in *. destruct IH as [H1 [H2 H3]].
    (* some excess may be left only if this entry was lowered to at most 1 *)
    repeat split; lia.
Qed.

Lemma take_excess_pos : forall l e i, 0 < nth i l 0 -> 0 < nth i (fst (take_excess l e)) 0.
Proof.
  induction l as [|g r IH]; intros e i Hi; [destruct i; cbn in Hi; lia|].
  cbn [take_excess]. specialize (IH (e - N.min e (g - 1))).
  destruct (take_excess r _) as [r' e']. cbn [fst] in *.
  destruct i as [|i']; cbn [nth] in *; [lia|]. apply IH. exact Hi.
Qed.

Lemma nth_le_sumN : forall l i, nth i l 0 <= sumN l.
Proof.
  induction l as [|x r IH]; intros [|i]; cbn [nth sumN]; try lia. specialize (IH i). lia.
Qed.

(* The table normalize_frequencies builds: same length, sums to at most 4096 (exactly 4095 in
   all but degenerate cases), and every symbol that occurs keeps a frequency of at least 1. *)
Lemma normalize_table raw F :
  length raw = 256%nat -> normalize_frequencies raw = Some F ->
  length F = 256%nat /\ sumN F <= 4096 /\ (forall i, 0 < nth i raw 0 -> 0 < nth i F 0).
Proof.
  intros Hl. unfold normalize_frequencies.
  pose proof (describe_sum raw) as Hd.
  destruct (describe_frequencies raw) as [mi sum]. cbn [snd] in Hd.
  destruct (TWO32 <=? sum); [discriminate|].
  destruct (sum =? 0) eqn:Es.
  { intros H; inversion H; subst F. split; [apply repeat_length|]. split.
    - unfold zeros256. rewrite sumN_repeat0. lia.
    - intros i Hi. exfalso. (* sum = sumN raw = 0 contradicts a positive entry *)
      pose proof (nth_le_sumN raw i). lia. }
  set (g := fun f => if f =? 0 then 0 else N.max (f * 4095 / sum) 1).
  set (nf := map g raw). set (nsum := sumN nf).
  assert (Hnf : length nf = 256%nat) by (unfold nf; rewrite map_length; exact Hl).
  assert (Hpos : forall i, 0 < nth i raw 0 -> 0 < nth i nf 0).
  { intros i Hi. unfold nf. change 0 with (g 0) at 2. rewrite map_nth. unfold g.
    destruct (nth i raw 0 =? 0) eqn:E; lia. }
  destruct (nsum <? 4095) eqn:E1.
  { intros H; inversion H; subst F. split; [rewrite upd_length; exact Hnf|]. split.
    - destruct (Nat.lt_ge_cases mi (length nf)) as [Hin|Hout].
      + pose proof (sumN_upd nf mi (nth mi nf 0 + (4095 - nsum)) Hin) as Hs. fold nsum in Hs. lia.
      + rewrite upd_out by exact Hout. fold nsum. lia.
    - intros i Hi. specialize (Hpos i Hi). destruct (Nat.eq_dec mi i) as [->|Hne].
      + destruct (Nat.lt_ge_cases i (length nf)) as [Hin|Hout].
        * rewrite nth_upd_eq by exact Hin. lia.
        * rewrite upd_out by exact Hout. exact Hpos.
      + rewrite nth_upd_neq by exact Hne. exact Hpos. }
  destruct (4095 <? nsum) eqn:E2.
  { set (e := nsum - 4095). set (n0 := N.min e (nth mi nf 0 - 1)).
    set (nf1 := upd nf mi (nth mi nf 0 - n0)).
    intros H; inversion H; subst F.
    assert (Hnf1 : length nf1 = 256%nat) by (unfold nf1; rewrite upd_length; exact Hnf).
    assert (Hs1 : sumN nf1 + n0 = nsum).
    { unfold nf1. destruct (Nat.lt_ge_cases mi (length nf)) as [Hin|Hout].
      - pose proof (sumN_upd nf mi (nth mi nf 0 - n0) Hin) as Hs. fold nsum in Hs. unfold n0 in *. lia.
      - rewrite upd_out by exact Hout. fold nsum.
        unfold n0. rewrite (nth_overflow nf 0 Hout). lia. }
    split; [rewrite take_excess_length; exact Hnf1|]. split.
    - destruct (take_excess_sum nf1 (e - n0)) as [H1 [H2 H3]].
      destruct H3 as [H3|H3].
      + rewrite H3 in H1. unfold e, n0 in *. lia.
      + rewrite Hnf1 in H3. lia.
    - intros i Hi. specialize (Hpos i Hi). apply take_excess_pos. unfold nf1.
      destruct (Nat.eq_dec mi i) as [->|Hne].
      + destruct (Nat.lt_ge_cases i (length nf)) as [Hin|Hout].
        * rewrite nth_upd_eq by exact Hin. unfold n0. lia.
        * rewrite upd_out by exact Hout. exact Hpos.
      + rewrite nth_upd_neq by exact Hne. exact Hpos. }
  intros H; inversion H; subst F. split; [exact Hnf|]. split; [fold nsum; lia|exact Hpos].
Qed.
