(* CRAM 3.1 fqzcomp quality codec (NV.Cram.Fqz): decode (encode x) = x.

     read_array_app, ptab_roundtrip   the position table the encoder writes is read back, whatever
                                      follows it
     fqz_decode_shape                 the decoder on the encoder's parameter block
     fqz_loop_spec                    the quality loops of encoder and decoder
     fqz_roundtrip                    the whole stream                                          *)
From Coq Require Import List NArith ZArith Lia Bool PeanoNat.
From Coq Require Import ZifyBool ZifyNat ZifyN.
From NV Require Import Cram.Bytes Cram.Vlq Cram.IntProofs Cram.Rans4x8 Cram.Nx16Xform Cram.Nx16O0
  Cram.Aac Cram.AacRange Cram.AacProofs Cram.AacModes Cram.AacModesRt Cram.Fqz.
Import ListNotations.
Ltac Zify.zify_post_hook ::= Z.div_mod_to_equations.
Open Scope N_scope.
Arguments N.add : simpl never.
Arguments N.sub : simpl never.
Arguments N.mul : simpl never.
Arguments N.div : simpl never.
Arguments N.modulo : simpl never.
Arguments N.pow : simpl never.
Arguments N.ltb : simpl never.
Arguments N.leb : simpl never.
Arguments N.eqb : simpl never.

(* ---------- read_array reads what write_array wrote, whatever follows ---------- *)

Lemma rd_runs_S : forall fu bs z n last,
  rd_runs (S fu) bs z n last =
  if n <=? z then Some ([], bs)
  else match bs with
       | [] => None
       | run :: b1 =>
         if run =? last then
           match b1 with
           | [] => None
           | copy :: b2 =>
             match rd_runs fu b2 (z + run + run * copy) n run with
             | Some (l, r) => Some (run :: repeat run (N.to_nat copy) ++ l, r)
             | None => None
             end
           end
         else match rd_runs fu b1 (z + run) n run with
              | Some (l, r) => Some (run :: l, r)
              | None => None
              end
       end.
Proof. reflexivity. Qed.

Lemma rd_runs_app : forall fuel w z n last runs r rest fuel',
  rd_runs fuel w z n last = Some (runs, r) -> (fuel <= fuel')%nat ->
  rd_runs fuel' (w ++ rest) z n last = Some (runs, r ++ rest).
Proof.
  induction fuel as [|fu IH]; intros w z n last runs r rest fuel' H Hle; [discriminate H|].
  destruct fuel' as [|fu']; [lia|]. rewrite rd_runs_S in H. rewrite rd_runs_S.
  destruct (n <=? z).
  - injection H as H1 H2. subst runs r. reflexivity.
  - destruct w as [|run b1]; [discriminate H|]. cbn [app].
    destruct (run =? last).
    + destruct b1 as [|copy b2]; [discriminate H|]. cbn [app].
      destruct (rd_runs fu b2 (z + run + run * copy) n run) as [[l r0]|] eqn:E; [|discriminate H].
      injection H as H1 H2. subst runs r0.
      rewrite (IH b2 _ n run l r rest fu' E ltac:(lia)). reflexivity.
    + destruct (rd_runs fu b1 (z + run) n run) as [[l r0]|] eqn:E; [|discriminate H].
      injection H as H1 H2. subst runs r0.
      rewrite (IH b1 _ n run l r rest fu' E ltac:(lia)). reflexivity.
Qed.

Lemma read_array_app : forall w n t r rest,
  read_array w n = Some (t, r) -> read_array (w ++ rest) n = Some (t, r ++ rest).
Proof.
  intros w n t r rest H. unfold read_array in *.
  destruct (rd_runs (S (length w)) w 0 (N.of_nat n) 0) as [[runs r0]|] eqn:E; [|discriminate H].
  rewrite (rd_runs_app _ w 0 (N.of_nat n) 0 runs r0 rest (S (length (w ++ rest))) E)
    by (rewrite app_length; lia).
  destruct (fill_runs (S (length runs)) runs 0 0 (N.of_nat n)) as [a|]; [|discriminate H].
  injection H as H1 H2. subst a r0. reflexivity.
Qed.

Lemma ptab_roundtrip0 : forall b, read_array (write_array (enc_ptab b)) 1024 = Some (enc_ptab b, []).
Proof. intros b. destruct b; vm_compute; reflexivity. Qed.

Lemma ptab_roundtrip : forall b rest,
  read_array (write_array (enc_ptab b) ++ rest) 1024 = Some (enc_ptab b, rest).
Proof. intros b rest. apply (read_array_app _ 1024%nat _ (@nil N) rest). apply ptab_roundtrip0. Qed.

(* ---------- the decoder on the encoder's parameter block ---------- *)

Lemma fqz_decode_shape : forall size (fixed : bool) maxsym wa t body,
  size < 4294967296 -> read_array (wa ++ body) 1024 = Some (t, body) ->
  fqz_decode (write_uint7 size ++ [5; 0; 0; 0; (if fixed then 36 else 32); maxsym; 149; 127; 15]
              ++ wa ++ body) =
  match rc_dec_new body with
  | None => FErr
  | Some (st, b4) =>
    match fqz_dec_loop (N.to_nat size)
            {| p_context := 0; p_fixed_len := fixed; p_qbits := 9; p_qshift := 5; p_qloc := 7;
               p_ploc := 0; p_ptab := Some t |}
            (fqz_models_new (S (N.to_nat maxsym))) st true 0 0 0 0 b4 with
    | ROk out => FOk out
    | RErr => FErr
    | RPanic => FPanic
    end
  end.
Proof.
  intros size fixed maxsym wa t body Hsize Hra. unfold fqz_decode.
  rewrite uint7_roundtrip by exact Hsize. cbn [app]. rewrite Hra.
  destruct fixed; reflexivity.
Qed.

(* ---------- the models ---------- *)

Definition fq_good (P : N -> Prop) (ms : fqz_models) : Prop :=
  mgood P (fq_dflt ms) /\ Forall (fun cm => mgood P (snd cm)) (fq_qual ms) /\
  length (fq_len ms) = 4%nat /\ Forall (mgood (below 256)) (fq_len ms).

Lemma qual_get_good : forall (P : N -> Prop) qs d ctx,
  mgood P d -> Forall (fun cm => mgood P (snd cm)) qs -> mgood P (qual_get qs d ctx).
Proof.
  intros P. induction qs as [|[c m] r IH]; intros d ctx Hd Hq; cbn [qual_get]; [exact Hd|].
  inversion Hq as [|x y Hx Hy]; subst. cbn [snd] in Hx.
  destruct (c =? ctx); [exact Hx|apply IH; assumption].
Qed.

Lemma qual_set_good : forall (P : N -> Prop) qs ctx m,
  Forall (fun cm => mgood P (snd cm)) qs -> mgood P m ->
  Forall (fun cm => mgood P (snd cm)) (qual_set qs ctx m).
Proof.
  intros P. induction qs as [|[c m0] r IH]; intros ctx m Hq Hm; cbn [qual_set].
  - constructor; [exact Hm|constructor].
  - inversion Hq as [|x y Hx Hy]; subst.
    destruct (c =? ctx); constructor; try assumption. apply IH; assumption.
Qed.

Lemma Forall_firstn_g : forall (A : Type) (Q : A -> Prop) l i, Forall Q l -> Forall Q (firstn i l).
Proof.
  intros A Q. induction l as [|a l IH]; intros i H; [destruct i; constructor|].
  inversion H as [|x y Hx Hy]; subst. destruct i as [|i]; cbn [firstn]; constructor; [exact Hx|].
  apply IH. exact Hy.
Qed.

Lemma Forall_skipn_g : forall (A : Type) (Q : A -> Prop) l i, Forall Q l -> Forall Q (skipn i l).
Proof.
  intros A Q. induction l as [|a l IH]; intros i H; [destruct i; constructor|].
  inversion H as [|x y Hx Hy]; subst. destruct i as [|i]; cbn [skipn]; [exact H|]. apply IH. exact Hy.
Qed.

(* ---------- one length byte, the four of them ---------- *)

Lemma byte_spec : forall ls st out i b,
  enc_ok st out -> Forall (mgood (below 256)) ls -> (i < length ls)%nat -> b < 256 ->
  exists ls' st' o, enc_byte ls st i b = Some (ls', st', o) /\
    Forall (mgood (below 256)) ls' /\ length ls' = length ls /\ enc_ok st' (out ++ o) /\
    forall W, Forall (fun x => x < 256) W -> nest W st' (out ++ o) (e_range st') ->
      nest W st out (e_range st) /\
      forall tail dst bs, dec_follows W tail st out dst bs ->
        exists dst' bs', dec_byte ls dst i bs = ROk (ls', dst', b, bs') /\
                         dec_follows W tail st' (out ++ o) dst' bs'.
Proof.
  intros ls st out i b Hok Hls Hi Hb.
  destruct (nth_good (mgood (below 256)) ls i Hls Hi) as (m & Hnth & Hmg).
  pose proof Hmg as (Hm & Hs).
  assert (Hbb : below 256 b) by (unfold below; lia).
  destruct (event_spec m st out b Hok Hm (Hs b Hbb)) as (idx & st' & o & Hidx & Henc & Hok' & Hdec).
  exists (firstn i ls ++ model_update m idx :: skipn (S i) ls), st', o.
  split; [unfold enc_byte; rewrite Hnth, Henc; reflexivity|].
  split.
  { apply Forall_app. split; [apply Forall_firstn_g; exact Hls|].
    constructor; [apply mgood_update; assumption|apply Forall_skipn_g; exact Hls]. }
  split; [rewrite app_length, firstn_length; cbn [length]; rewrite skipn_length; lia|].
  split; [exact Hok'|].
  intros W HF Hnest. destruct (Hdec W HF Hnest) as (Hnest0 & Hdec0). split; [exact Hnest0|].
  intros tail dst bs Hfol. destruct (Hdec0 tail dst bs Hfol) as (dst' & bs' & Hmd & Hfol').
  exists dst', bs'. split; [|exact Hfol'].
  unfold dec_byte. rewrite Hnth, Hmd. reflexivity.
Qed.

Lemma length_spec : forall ls st out len,
  enc_ok st out -> Forall (mgood (below 256)) ls -> length ls = 4%nat -> len < 4294967296 ->
  exists ls' st' o, enc_length ls st len = Some (ls', st', o) /\
    Forall (mgood (below 256)) ls' /\ length ls' = 4%nat /\ enc_ok st' (out ++ o) /\
    forall W, Forall (fun x => x < 256) W -> nest W st' (out ++ o) (e_range st') ->
      nest W st out (e_range st) /\
      forall tail dst bs, dec_follows W tail st out dst bs ->
        exists dst' bs', dec_length ls dst bs = ROk (ls', dst', len, bs') /\
                         dec_follows W tail st' (out ++ o) dst' bs'.
Proof.
  intros ls st out len Hok Hls Hl Hlen.
  assert (H0 : len mod 256 < 256) by lia.
  assert (H1 : (len / 256) mod 256 < 256) by lia.
  assert (H2 : (len / 65536) mod 256 < 256) by lia.
  assert (H3 : (len / 16777216) mod 256 < 256) by lia.
  destruct (byte_spec ls st out 0 _ Hok Hls ltac:(lia) H0) as (l1 & s1 & o1 & E1 & G1 & L1 & K1 & D1).
  assert (Li1 : (1 < length l1)%nat) by lia.
  destruct (byte_spec l1 s1 (out ++ o1) 1 _ K1 G1 Li1 H1) as (l2 & s2 & o2 & E2 & G2 & L2 & K2 & D2).
  assert (Li2 : (2 < length l2)%nat) by lia.
  destruct (byte_spec l2 s2 ((out ++ o1) ++ o2) 2 _ K2 G2 Li2 H2) as (l3 & s3 & o3 & E3 & G3 & L3 & K3 & D3).
  assert (Li3 : (3 < length l3)%nat) by lia.
  destruct (byte_spec l3 s3 (((out ++ o1) ++ o2) ++ o3) 3 _ K3 G3 Li3 H3)
    as (l4 & s4 & o4 & E4 & G4 & L4 & K4 & D4).
  exists l4, s4, (o1 ++ o2 ++ o3 ++ o4).
  split; [unfold enc_length; rewrite E1, E2, E3, E4; reflexivity|].
  rewrite !app_assoc. split; [exact G4|]. split; [lia|]. split; [exact K4|].
  intros W HF N4. destruct (D4 W HF N4) as (N3 & F4). destruct (D3 W HF N3) as (N2 & F3).
  destruct (D2 W HF N2) as (N1 & F2). destruct (D1 W HF N1) as (N0 & F1). split; [exact N0|].
  intros tail dst bs Hfol.
  destruct (F1 tail dst bs Hfol) as (d1 & b1 & R1 & Hf1).
  destruct (F2 tail d1 b1 Hf1) as (d2 & b2 & R2 & Hf2).
  destruct (F3 tail d2 b2 Hf2) as (d3 & b3 & R3 & Hf3).
  destruct (F4 tail d3 b3 Hf3) as (d4 & b4 & R4 & Hf4).
  exists d4, b4. split; [|exact Hf4].
  unfold dec_length. rewrite R1, R2, R3, R4.
  replace (len mod 256 + 256 * ((len / 256) mod 256) + 65536 * ((len / 65536) mod 256)
           + 16777216 * ((len / 16777216) mod 256)) with len by lia.
  reflexivity.
Qed.

(* ---------- the quality loops ---------- *)

Lemma fqz_loop_spec : forall (P : N -> Prop) pr src ms st out (first : bool) p lens last qlast last_len,
  (p_fixed_len pr = true ->
   exists c, Forall (fun l => l = c) lens /\ (first = false -> last_len = N.of_nat c)) ->
  (p <> 0 -> first = false) ->
  enc_ok st out -> fq_good P ms -> Forall P src ->
  Forall (fun l => (0 < l)%nat) lens ->
  (N.to_nat p + fold_right Nat.add 0%nat lens = length src)%nat ->
  N.of_nat (length src) < 4294967296 ->
  exists rest, fqz_enc_loop pr ms st first p lens last qlast src = Some rest /\
    Forall (fun b => b < 256) (out ++ rest) /\ nest (out ++ rest) st out (e_range st) /\
    forall tail dst bs, dec_follows (out ++ rest) tail st out dst bs ->
      fqz_dec_loop (length src) pr ms dst first p last_len last qlast bs = ROk src.
Proof.
  intros P pr. induction src as [|q r IH];
    intros ms st out first p lens last qlast last_len Hfix Hfirst Hok Hms Hsrc Hpos Hsum H32.
  - exists (rc_encode_end 5 st). split; [reflexivity|].
    destruct (end_spec5 st out Hok) as (HF & Hnest).
    split; [exact HF|]. split; [exact Hnest|]. intros tail dst bs _. reflexivity.
  - inversion Hsrc as [|x' src' Hpq Hrest]; subst.
    destruct Hms as (Hd & Hq & Hll & Hlg).
    cbn [length] in Hsum, H32. cbn [fqz_enc_loop].
    destruct (N.eqb_spec p 0) as [Hp0|Hp0].
    + (* a record starts *)
      subst p. destruct lens as [|len lens']; [cbn [fold_right] in Hsum; lia|].
      cbn [fold_right] in Hsum. inversion Hpos as [|x y Hlen0 Hpos']; subst.
      set (lenN := N.of_nat len).
      assert (HlenN : lenN < 4294967296) by (unfold lenN; lia).
      assert (Hlp : exists ls' st1 o1,
        (if negb (p_fixed_len pr) || first
         then if TWO32 <=? lenN then None else enc_length (fq_len ms) st lenN
         else Some (fq_len ms, st, [])) = Some (ls', st1, o1) /\
        Forall (mgood (below 256)) ls' /\ length ls' = 4%nat /\ enc_ok st1 (out ++ o1) /\
        forall W, Forall (fun x => x < 256) W -> nest W st1 (out ++ o1) (e_range st1) ->
          nest W st out (e_range st) /\
          forall tail dst bs, dec_follows W tail st out dst bs ->
            exists dst1 bs1,
              (if negb (p_fixed_len pr) || first then dec_length (fq_len ms) dst bs
               else ROk (fq_len ms, dst, last_len, bs)) = ROk (ls', dst1, lenN, bs1) /\
              dec_follows W tail st1 (out ++ o1) dst1 bs1).
      { destruct (negb (p_fixed_len pr) || first) eqn:Eb.
        - replace (TWO32 <=? lenN) with false by (symmetry; apply N.leb_gt; unfold TWO32; lia).
          exact (length_spec (fq_len ms) st out lenN Hok Hlg Hll HlenN).
        - apply orb_false_iff in Eb. destruct Eb as (Eb1 & Eb2). apply negb_false_iff in Eb1.
          destruct (Hfix Eb1) as (c & Hc & Hlast). inversion Hc as [|x y Hlc Hc']; subst.
          exists (fq_len ms), st, []. rewrite app_nil_r. split; [reflexivity|].
          split; [exact Hlg|]. split; [exact Hll|]. split; [exact Hok|].
          intros W HF Hn. split; [exact Hn|]. intros tail dst bs Hfol. exists dst, bs.
          split; [rewrite (Hlast eq_refl); reflexivity|exact Hfol]. }
      destruct Hlp as (ls' & st1 & o1 & Hel & Hlg' & Hll' & Hok1 & Hdec1). rewrite Hel.
      pose proof (qual_get_good P (fq_qual ms) (fq_dflt ms) (p_context pr) Hd Hq) as (Hm & Hs).
      destruct (event_spec _ st1 (out ++ o1) q Hok1 Hm (Hs q Hpq))
        as (idx & st2 & o2 & Hidx & Henc & Hok2 & Hdec2).
      rewrite Henc. destruct (fqz_ctx pr 0 q lenN) as [qlast' last'] eqn:Ectx.
      destruct (IH {| fq_qual := qual_set (fq_qual ms) (p_context pr)
                                   (model_update (qual_get (fq_qual ms) (fq_dflt ms) (p_context pr)) idx);
                      fq_dflt := fq_dflt ms; fq_len := ls' |}
                   st2 ((out ++ o1) ++ o2) false (lenN - 1) lens' last' qlast' lenN)
        as (rest & Hloop & HF & Hnest & Hdl).
      * intros Hfx. destruct (Hfix Hfx) as (c & Hc & _).
        pose proof (Forall_inv Hc) as Hlc. pose proof (Forall_inv_tail Hc) as Hc'. cbv beta in Hlc.
        exists c. split; [exact Hc'|]. intros _. unfold lenN. rewrite Hlc. reflexivity.
      * intros _. reflexivity.
      * exact Hok2.
      * unfold fq_good. cbn [fq_qual fq_dflt fq_len]. split; [exact Hd|].
        split; [apply qual_set_good; [exact Hq|apply mgood_update; [split; assumption|exact Hidx]]|].
        split; assumption.
      * exact Hrest.
      * exact Hpos'.
      * unfold lenN. lia.
      * lia.
      * rewrite Hloop. exists (o1 ++ o2 ++ rest). split; [reflexivity|].
        rewrite !app_assoc. split; [exact HF|].
        destruct (Hdec2 _ HF Hnest) as (Hnest1 & Hd2).
        destruct (Hdec1 _ HF Hnest1) as (Hnest0 & Hd1). split; [exact Hnest0|].
        intros tail dst bs Hfol.
        destruct (Hd1 tail dst bs Hfol) as (dst1 & bs1 & Hdl1 & Hfol1).
        destruct (Hd2 tail dst1 bs1 Hfol1) as (dst2 & bs2 & Hmd & Hfol2).
        cbn [length fqz_dec_loop]. change (0 =? 0) with true. cbv beta iota. rewrite Hdl1.
        replace ((lenN =? 0) || (N.of_nat (S (length r)) <? lenN)) with false.
        2:{ symmetry. apply orb_false_iff. split; [apply N.eqb_neq|apply N.ltb_ge]; unfold lenN; lia. }
        cbv beta iota. rewrite Hmd, Ectx. rewrite (Hdl tail dst2 bs2 Hfol2). reflexivity.
    + (* inside a record *)
      pose proof (Hfirst Hp0) as Hff. subst first.
      pose proof (qual_get_good P (fq_qual ms) (fq_dflt ms) last Hd Hq) as (Hm & Hs).
      destruct (event_spec _ st out q Hok Hm (Hs q Hpq))
        as (idx & st2 & o2 & Hidx & Henc & Hok2 & Hdec2).
      rewrite Henc. destruct (fqz_ctx pr qlast q p) as [qlast' last'] eqn:Ectx.
      destruct (IH {| fq_qual := qual_set (fq_qual ms) last
                                   (model_update (qual_get (fq_qual ms) (fq_dflt ms) last) idx);
                      fq_dflt := fq_dflt ms; fq_len := fq_len ms |}
                   st2 (out ++ o2) false (p - 1) lens last' qlast' last_len)
        as (rest & Hloop & HF & Hnest & Hdl).
      * exact Hfix.
      * intros _. reflexivity.
      * exact Hok2.
      * unfold fq_good. cbn [fq_qual fq_dflt fq_len]. split; [exact Hd|].
        split; [apply qual_set_good; [exact Hq|apply mgood_update; [split; assumption|exact Hidx]]|].
        split; assumption.
      * exact Hrest.
      * exact Hpos.
      * lia.
      * lia.
      * rewrite Hloop. exists (o2 ++ rest). split; [reflexivity|].
        rewrite app_assoc. split; [exact HF|].
        destruct (Hdec2 _ HF Hnest) as (Hnest0 & Hd2). split; [exact Hnest0|].
        intros tail dst bs Hfol.
        destruct (Hd2 tail dst bs Hfol) as (dst2 & bs2 & Hmd & Hfol2).
        cbn [length fqz_dec_loop].
        replace (p =? 0) with false by (symmetry; apply N.eqb_neq; exact Hp0).
        cbv beta iota. rewrite Hmd, Ectx. rewrite (Hdl tail dst2 bs2 Hfol2). reflexivity.
Qed.

(* ---------- fqzcomp::encode / fqzcomp::decode ---------- *)

Lemma all_equal_spec : forall l, all_equal l = true -> exists c, Forall (fun x => x = c) l.
Proof.
  induction l as [|a l IH]; intros H; [exists 0%nat; constructor|].
  destruct l as [|b l'].
  - exists a. constructor; [reflexivity|constructor].
  - cbn [all_equal] in H. apply andb_true_iff in H. destruct H as (Hab & Hr).
    apply Nat.eqb_eq in Hab. destruct (IH Hr) as (c & Hc). exists c.
    inversion Hc as [|x y Hb Hl']; subst. constructor; [reflexivity|exact Hc].
Qed.

Theorem fqz_roundtrip : forall lens src,
  Forall (fun b => b < 256) src -> N.of_nat (length src) < 4294967296 ->
  fold_right Nat.add 0%nat (filter (fun l => (0 <? l)%nat) lens) = length src ->
  exists bytes, fqz_encode lens src = Some bytes /\ fqz_decode bytes = FOk src.
Proof.
  intros lens src Hbytes H32 Hsum.
  pose proof (max_sym_lt src Hbytes) as Hmax.
  set (lens' := filter (fun l => (0 <? l)%nat) lens) in *.
  set (n := S (N.to_nat (max_sym src))).
  assert (Hn : (n <= 256)%nat) by (unfold n; lia).
  destruct (fqz_loop_spec (below n) (enc_param lens') src (fqz_models_new n) rc_enc_init [] true 0
              lens' 0 0 0) as (body & Hloop & HF & Hnest & Hdl).
  - intros Hfx. cbn [enc_param p_fixed_len] in Hfx. destruct (all_equal_spec lens' Hfx) as (c & Hc).
    exists c. split; [exact Hc|]. intros Hd. discriminate Hd.
  - intros Hp. exfalso. apply Hp. reflexivity.
  - exact enc_init_ok.
  - unfold fq_good, fqz_models_new. cbn [fq_qual fq_dflt fq_len].
    split; [apply model_new_good; exact Hn|]. split; [constructor|]. split; [reflexivity|].
    apply Forall_repeat_gen. apply model_new_good. lia.
  - exact (src_below src).
  - apply Forall_forall. intros l Hl. unfold lens' in Hl. apply filter_In in Hl.
    destruct Hl as (_ & Hl). apply Nat.ltb_lt in Hl. exact Hl.
  - change (N.to_nat 0) with 0%nat. lia.
  - exact H32.
  - cbn [app] in HF, Hnest, Hdl.
    unfold fqz_encode. fold lens'. fold n.
    replace (TWO32 <=? N.of_nat (length src)) with false by (symmetry; apply N.leb_gt; unfold TWO32; lia).
    rewrite Hloop. eexists. split; [reflexivity|].
    unfold enc_params_bytes. cbn [enc_param p_fixed_len p_ptab]. rewrite <- app_assoc.
    rewrite (fqz_decode_shape _ (all_equal lens') (max_sym src) _ _ body H32 (ptab_roundtrip _ body)).
    destruct (dec_new_follows body [] HF Hnest) as (dst & bs & Hnew & Hfol).
    rewrite app_nil_r in Hnew. rewrite Hnew. rewrite Nat2N.id. fold n.
    change {| p_context := 0; p_fixed_len := all_equal lens'; p_qbits := 9; p_qshift := 5; p_qloc := 7;
              p_ploc := 0;
              p_ptab := Some (enc_ptab match lens' with [] => false | l :: _ => (128 <? l)%nat end) |}
      with (enc_param lens').
    rewrite (Hdl [] dst bs Hfol). reflexivity.
Qed.

Print Assumptions ptab_roundtrip.
Print Assumptions fqz_loop_spec.
Print Assumptions fqz_roundtrip.
