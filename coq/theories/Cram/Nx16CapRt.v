(* rANS Nx16, the CAPPED decoder of NV.Cram.Nx16Cap on the encoder's streams: the round trips of
   NV.Cram.{Nx16FullProofs,Nx16O1Full,Nx16StripeProofs} replayed for nx_decode_ec / nx_decode_sc.
   Whenever the input is no longer than [cap] the capped decoder answers [Within (DOk src)] on the
   stream the encoder model wrote for [src]: every size it converts (the declared size, the packed
   length, the RLE literal count, the STRIPE total and chunk sizes) is at most length src <= cap. *)
From Coq Require Import List NArith ZArith Lia Bool PeanoNat.
From Coq Require Import ZifyBool ZifyNat ZifyN.
From NV Require Import Cram.Bytes Cram.Vlq Cram.IntProofs Cram.Rans4x8 Cram.Rans4x8Proofs
  Cram.Nx16Xform Cram.Nx16XformProofs Cram.Nx16O0 Cram.Nx16O0Proofs Cram.Nx16O0Table Cram.Nx16O1
  Cram.Nx16Full Cram.Nx16FullProofs Cram.Nx16O1Full Cram.Nx16Stripe Cram.Nx16StripeLists
  Cram.Nx16StripeProofs Cram.Cap Cram.CapProofs Cram.Nx16Cap.
Import ListNotations.
Ltac Zify.zify_post_hook ::= Z.div_mod_to_equations.
Open Scope N_scope.
Arguments N.add : simpl never.
Arguments N.sub : simpl never.
Arguments N.mul : simpl never.
Arguments N.div : simpl never.
Arguments N.modulo : simpl never.
Arguments N.pow : simpl never.
Arguments N.ltb : simpl never.
Arguments N.leb : simpl never.
Arguments N.eqb : simpl never.

(* ---------- rle::decode: the clamped run length is the run length ---------- *)

Lemma rle_dec_c_eq : forall fuel A lits meta n,
  rle_dec_c fuel A lits meta n = rle_dec fuel A lits meta n.
Proof.
  induction fuel as [|fu IH]; intros A lits meta n; cbn [rle_dec_c rle_dec]; [reflexivity|].
  destruct (n =? 0)%nat; [reflexivity|].
  destruct lits as [|sym lr]; [reflexivity|].
  destruct (mem sym A).
  - destruct (read_uint7 meta) as [len m'| |]; try reflexivity.
    cbv zeta. rewrite min_n_nat_eq, IH. reflexivity.
  - rewrite IH. reflexivity.
Qed.

Lemma rle_decode_c_eq lits meta n : rle_decode_c lits meta n = rle_decode lits meta n.
Proof.
  unfold rle_decode_c, rle_decode. destruct (rle_read_alphabet meta) as [[A m]|]; [|reflexivity].
  apply rle_dec_c_eq.
Qed.

(* ---------- order 1: a verbatim table (even first byte) has no capped site ---------- *)

Lemma nxd1_decode_c_even cap b t len n : N.odd b = false ->
  nxd1_decode_c cap (b :: t) len n = Within (nxd1_decode (b :: t) len n).
Proof.
  intros Hb. unfold nxd1_decode_c, nxd1_decode, read_freqs1_c, read_freqs1. rewrite Hb.
  destruct (rd_freqs1_inner (2 ^ (b / 16)) t) as [[F1 b1]|]; reflexivity.
Qed.

Lemma nx_o1_encode_head n src body : nx_o1_encode n src = EncOk body -> exists t, body = 192 :: t.
Proof.
  unfold nx_o1_encode. destruct (length src / n =? 0)%nat; [discriminate|].
  destruct (split_chunks n (length src / n) src) as [cs rem].
  destruct (nx_normalize_rows _) as [F1|]; [|discriminate].
  destruct (enc16_rows n F1 _ _ _ rem) as [[st stack]|]; [|discriminate].
  intros H. injection H as H. eexists. symmetry. exact H.
Qed.

Lemma nxd1_decode_c_encoded cap n src body len :
  nx_o1_encode n src = EncOk body ->
  nxd1_decode_c cap body len n = Within (nxd1_decode body len n).
Proof.
  intros H. destruct (nx_o1_encode_head n src body H) as [t ->].
  apply nxd1_decode_c_even. reflexivity.
Qed.

(* ---------- the RLE stage, seen from the capped decoder ---------- *)

Lemma rle_stage_spec_c cap f1 s1 f2 s2 h2 :
  nx_rle_stage f1 s1 = (f2, s2, h2) -> Forall byte s1 -> N.of_nat (length s1) < 268435456 ->
  same_other_flags f1 f2 /\ f_pack f2 = f_pack f1 /\
  Forall byte s2 /\ (length s2 <= length s1)%nat /\
  exists rc,
    (forall nst rest,
       (if f_rle f2 then
          match rd_rle_ctx_c cap nst (h2 ++ rest) with
          | Capped => Capped
          | Within (ROk (meta, len, t)) => Within (ROk (Some meta, len, t))
          | Within RErr => Within RErr
          | Within RPanic => Within RPanic
          end
        else Within (ROk (None, N.of_nat (length s1), h2 ++ rest)))
       = Within (ROk (rc, N.of_nat (length s2), rest))) /\
    match rc with Some meta => rle_decode s2 meta (length s1) | None => DOk s2 end = DOk s1.
Proof.
  intros Hst Hb Hlen. unfold nx_rle_stage in Hst.
  destruct (f_rle f1) eqn:Er.
  - destruct (rle_build s1) as [A|] eqn:Erb.
    + destruct (rle_enc (length s1) A s1) as [lits runs] eqn:Ee.
      assert (Hq : f2 = f1 /\ s2 = lits /\
                   h2 = rle_context_bytes (rle_alphabet_bytes A ++ runs) (length lits))
        by (repeat split; congruence).
      clear Hst. destruct Hq as [Hq1 [Hq2 Hq3]]. subst f2 s2 h2.
      destruct (rle_enc_facts A _ _ _ _ Ee) as [Hsub [Hll Hml]].
      pose proof (rle_build_spec s1 A Erb) as HA.
      split; [repeat split|]. split; [reflexivity|]. split.
      { apply Forall_forall. intros x Hx. rewrite Forall_forall in Hb. apply Hb. apply Hsub. exact Hx. }
      split; [exact Hll|].
      remember (rle_alphabet_bytes A ++ runs) as meta eqn:Em.
      assert (Hmeta : (length meta <= 257 + 5 * length s1)%nat).
      { rewrite Em. unfold rle_alphabet_bytes. rewrite app_length. cbn [length]. lia. }
      exists (Some meta). split.
      * intros nst rest. rewrite Er. unfold rle_context_bytes, rd_rle_ctx_c.
        rewrite <- !app_assoc. rewrite uint7_roundtrip by lia. rewrite uint7_roundtrip by lia.
        replace (N.even (2 * N.of_nat (length meta) + 1)) with false
          by (symmetry; rewrite N.add_1_r, N.even_succ, N.odd_mul, N.odd_2; reflexivity).
        replace ((2 * N.of_nat (length meta) + 1) / 2) with (N.of_nat (length meta)) by lia.
        rewrite split_off_n_nat, split_off_app. reflexivity.
      * rewrite Em. apply rle_roundtrip; [exact HA|lia|exact Ee].
    + injection Hst as Hq1 Hq2 Hq3; subst f2 s2 h2.
      split; [repeat split|]. split; [reflexivity|]. split; [exact Hb|]. split; [lia|].
      exists None. split; [intros nst rest; reflexivity|reflexivity].
  - injection Hst as Hq1 Hq2 Hq3; subst f2 s2 h2.
    split; [repeat split|]. split; [reflexivity|]. split; [exact Hb|]. split; [lia|].
    exists None. split; [intros nst rest; rewrite Er; reflexivity|reflexivity].
Qed.

(* ---------- the whole STRIPE-free stream ---------- *)

Theorem nx_full_roundtrip_c cap f src :
  f_stripe f = false -> Forall (fun b => b < 256) src -> N.of_nat (length src) < 268435456 ->
  N.of_nat (length src) <= cap ->
  exists bytes, nx_encode_e f src = NeOk bytes /\
                nx_decode_ec cap bytes (N.of_nat (length src)) = Within (DOk src).
Proof.
  intros Hstripe Hb Hlen Hcap. unfold nx_encode_e. rewrite Hstripe.
  destruct (nx_pack_stage f src) as [[f1 s1] h1] eqn:E1.
  destruct (nx_rle_stage f1 s1) as [[f2 s2] h2] eqn:E2.
  destruct (pack_stage_spec f src f1 s1 h1 E1 Hb ltac:(lia))
    as [[Ho1 [_ [Hn1 [Hs1 [Hz1 Hc1]]]]] [Hr1 [Hb1 [Hl1 [pc [Hpc Hpd]]]]]].
  destruct (rle_stage_spec_c cap f1 s1 f2 s2 h2 E2 Hb1 ltac:(lia))
    as [[Ho2 [_ [Hn2 [Hs2 [Hz2 Hc2]]]]] [Hp2 [Hb2 [Hl2 [rc [Hrc Hrd]]]]]].
  set (f3 := if (length s2 <? state_count f2)%nat then force_cat f2 else f2).
  assert (H3 : f_stripe f3 = false /\ f_nosize f3 = f_nosize f /\ f_pack f3 = f_pack f1 /\
               f_rle f3 = f_rle f2 /\ state_count f3 = state_count f2 /\
               (f_cat f3 = false -> (state_count f3 <= length s2)%nat) /\
               (f_order f3 = true -> f_order f = true)).
  { unfold f3. destruct (length s2 <? state_count f2)%nat eqn:E.
    - cbn [force_cat f_order f_res f_n32 f_stripe f_nosize f_cat f_rle f_pack state_count]. repeat split; try congruence; try discriminate.
    - apply Nat.ltb_ge in E. repeat split; try congruence; try (intros _; exact E). }
  destruct H3 as [S3 [N3 [P3 [R3 [C3 [L3 O3]]]]]].
  clearbody f3.
  assert (Hc1' : N.of_nat (length s1) <= cap) by lia.
  assert (Hc2' : N.of_nat (length s2) <= cap) by lia.
  (* what the decoder does with the stream once the data stage has given back s2 *)
  assert (Hhead : forall body,
    (if f_cat f3 then
       Within
         match split_off_n body (N.of_nat (length s2)) with
         | None => DErr
         | Some (payload, _) => DOk payload
         end
     else
       with_cap cap (N.of_nat (length s2)) (fun n2 =>
         match (if f_order f3 then nxd1_decode_c cap body n2 (state_count f3)
                else Within (nxd0_decode body n2 (state_count f3))) with
         | Capped => Capped
         | Within (ROk d) => Within (DOk d)
         | Within RErr => Within DErr
         | Within RPanic => Within DPanic
         end)) = Within (DOk s2) ->
    nx_decode_ec cap (byte_of_flags f3 :: (if f_nosize f then [] else write_uint7 (N.of_nat (length src)))
                      ++ h1 ++ h2 ++ body) (N.of_nat (length src)) = Within (DOk src)).
  { intros body Hdata. cbn [nx_decode_ec]. destruct (nx_flags_roundtrip f3) as [Hfb _]. rewrite Hfb.
    rewrite N3, S3, P3, R3.
    assert (Hsz : (if f_nosize f
                   then U7Ok (N.of_nat (length src))
                          ((if f_nosize f then [] else write_uint7 (N.of_nat (length src))) ++ h1 ++ h2 ++ body)
                   else read_uint7 ((if f_nosize f then [] else write_uint7 (N.of_nat (length src))) ++ h1 ++ h2 ++ body))
                  = U7Ok (N.of_nat (length src)) (h1 ++ h2 ++ body)).
    { destruct (f_nosize f); [reflexivity|]. apply uint7_roundtrip. lia. }
    rewrite Hsz. rewrite Hpc. rewrite Hrc. rewrite Hdata.
    destruct rc as [meta|].
    - rewrite with_cap_nat by exact Hc1'. rewrite rle_decode_c_eq, Hrd.
      destruct pc as [table|].
      + rewrite with_cap_nat by exact Hcap. rewrite Hpd. reflexivity.
      + rewrite Hpd. reflexivity.
    - injection Hrd as Hrd. subst s1.
      destruct pc as [table|].
      + rewrite with_cap_nat by exact Hcap. rewrite Hpd. reflexivity.
      + rewrite Hpd. reflexivity. }
  destruct (f_cat f3) eqn:Ecat.
  - eexists. split; [reflexivity|]. apply Hhead.
    rewrite split_off_n_nat. rewrite <- (app_nil_r s2) at 1. rewrite split_off_app. reflexivity.
  - specialize (L3 eq_refl).
    assert (Hn : (state_count f3 = 4 \/ state_count f3 = 32)%nat)
      by (unfold state_count; destruct (f_n32 f3); [right|left]; reflexivity).
    destruct (f_order f3) eqn:Eord.
    + destruct (entropy_ok_o1 (state_count f3) s2 Hn L3 Hb2 ltac:(lia)) as [body [Henc Hdec]].
      rewrite Henc. eexists. split; [reflexivity|]. apply Hhead.
      rewrite with_cap_nat by exact Hc2'.
      rewrite (nxd1_decode_c_encoded cap _ _ _ _ Henc), Hdec. reflexivity.
    + destruct (entropy_ok_o0 (state_count f3) s2 Hn L3 Hb2 ltac:(lia)) as [body [Henc Hdec]].
      rewrite Henc. eexists. split; [reflexivity|]. apply Hhead.
      rewrite with_cap_nat by exact Hc2'. rewrite Hdec. reflexivity.
Qed.

(* ---------- the recursive capped decoder on STRIPE-free streams ---------- *)

Lemma nx_decode_ec_ok_nostripe cap bs u x : nx_decode_ec cap bs u = Within (DOk x) ->
  exists fb r0, bs = fb :: r0 /\ f_stripe (flags_of_byte fb) = false.
Proof.
  unfold nx_decode_ec. destruct bs as [|fb r0]; [discriminate|]. intros H.
  exists fb, r0. split; [reflexivity|].
  destruct (if f_nosize (flags_of_byte fb) then U7Ok u r0 else read_uint7 r0) as [s r| |]; try discriminate.
  destruct (f_stripe (flags_of_byte fb)); [discriminate|reflexivity].
Qed.

Lemma nx_decode_fc_S cap fu fb r0 usize :
  nx_decode_fc cap (S fu) (fb :: r0) usize =
  if f_stripe (flags_of_byte fb) then
    match (if f_nosize (flags_of_byte fb) then U7Ok usize r0 else read_uint7 r0) with
    | U7Ok size0 r1 => stripe_decode_c cap (nx_decode_fc cap fu) r1 size0
    | _ => Within DErr
    end
  else nx_decode_ec cap (fb :: r0) usize.
Proof. reflexivity. Qed.

(* a non-STRIPE flag byte: the recursive decoder IS the STRIPE-free one *)
Lemma nx_decode_fc_nostripe_eq cap fu fb r0 u : f_stripe (flags_of_byte fb) = false ->
  nx_decode_fc cap (S fu) (fb :: r0) u = nx_decode_ec cap (fb :: r0) u.
Proof. intros Hs. rewrite nx_decode_fc_S, Hs. reflexivity. Qed.

Lemma nx_decode_fc_nostripe cap fu bs u x :
  nx_decode_ec cap bs u = Within (DOk x) -> nx_decode_fc cap (S fu) bs u = Within (DOk x).
Proof.
  intros H. destruct (nx_decode_ec_ok_nostripe cap bs u x H) as [fb [r0 [Hb Hs]]]. subst bs.
  rewrite nx_decode_fc_nostripe_eq by exact Hs. exact H.
Qed.

(* ---------- sub-streams ---------- *)

Lemma encode_chunks_spec_c cap : forall cs,
  Forall (fun c => Forall (fun b => b < 256) c /\ N.of_nat (length c) < 268435456 /\
                   N.of_nat (length c) <= cap) cs ->
  exists es, encode_chunks cs = (NeOk [], es) /\ length es = length cs /\
             Forall (fun e => N.of_nat (length e) < 4294967296) es /\
             Forall2 (fun e c => nx_decode_ec cap e (N.of_nat (length c)) = Within (DOk c)) es cs.
Proof.
  induction cs as [|c r IH]; intros Hc.
  - exists []. split; [reflexivity|]. split; [reflexivity|]. split; constructor.
  - inversion Hc as [|? ? [Hb [Hl Hcp]] Hr]; subst. destruct (IH Hr) as [es [He [Hlen [Hsz Hd]]]].
    destruct (nx_full_roundtrip_c cap nosize_flags c eq_refl Hb Hl Hcp) as [e [Hen Hde]].
    pose proof (nosize_encode_len c e Hen) as Hel.
    exists (e :: es). split; [cbn [encode_chunks]; rewrite Hen, He; reflexivity|].
    split; [cbn [length]; lia|]. split; constructor; try assumption. lia.
Qed.

Lemma dec_chunks_spec_c cap fu : forall es cs rest,
  Forall2 (fun e c => nx_decode_ec cap e (N.of_nat (length c)) = Within (DOk c)) es cs ->
  dec_chunks_c (nx_decode_fc cap (S fu)) (map (fun e => N.of_nat (length e)) es) (map (@length N) cs)
               (concat es ++ rest) = Within (DOk [], cs).
Proof.
  induction es as [|e r IH]; intros cs rest H; inversion H as [|? c ? cr Hd Hr]; subst; [reflexivity|].
  cbn [map concat dec_chunks_c]. rewrite split_off_n_nat. rewrite <- app_assoc. rewrite split_off_app.
  rewrite (nx_decode_fc_nostripe cap fu e _ c Hd). rewrite Nat.eqb_refl. rewrite (IH cr rest Hr). reflexivity.
Qed.

(* ---------- the whole stream, every flag byte ---------- *)

Theorem nx_stripe_roundtrip_c cap f src :
  Forall (fun b => b < 256) src -> N.of_nat (length src) < 268435456 ->
  N.of_nat (length src) <= cap ->
  exists bytes, nx_encode_s f src = NeOk bytes /\
                nx_decode_sc cap bytes (N.of_nat (length src)) = Within (DOk src).
Proof.
  intros Hb Hlen Hcap. unfold nx_encode_s. destruct (f_stripe f) eqn:Es.
  2:{ destruct (nx_full_roundtrip_c cap f src Es Hb Hlen Hcap) as [bytes [He Hd]].
      exists bytes. split; [exact He|]. unfold nx_decode_sc. apply nx_decode_fc_nostripe. exact Hd. }
  set (cs := stripe_split 4 src).
  assert (Hcs : Forall (fun c => Forall (fun b => b < 256) c /\ N.of_nat (length c) < 268435456 /\
                                 N.of_nat (length c) <= cap) cs).
  { apply Forall_forall. intros c Hc.
    assert (Hle : (length c <= length src)%nat).
    { pose proof (stripe_split_total 4 src ltac:(lia)) as Ht. fold cs in Ht.
      assert (Hle : (length c <= length (concat cs))%nat).
      { clear -Hc. induction cs as [|d r IH]; [destruct Hc|]. cbn [concat]. rewrite app_length.
        destruct Hc as [->|Hc]; [lia|]. specialize (IH Hc). lia. }
      lia. }
    split; [|split; lia].
    pose proof (stripe_split_bytes 4 src Hb) as H. rewrite Forall_forall in H. apply H. exact Hc. }
  destruct (encode_chunks_spec_c cap cs Hcs) as [es [He [Hel [Hesz Hd]]]].
  rewrite He. eexists. split; [reflexivity|].
  assert (Hn4 : length es = 4%nat) by (rewrite Hel; unfold cs; apply stripe_split_length).
  unfold nx_decode_sc. rewrite nx_decode_fc_S. destruct (nx_flags_roundtrip f) as [Hfb _]. rewrite Hfb, Es.
  assert (Hsz : (if f_nosize f
                 then U7Ok (N.of_nat (length src))
                        ((if f_nosize f then [] else write_uint7 (N.of_nat (length src))) ++
                         4 :: flat_map (fun e => write_uint7 (N.of_nat (length e))) es ++ concat es)
                 else read_uint7 ((if f_nosize f then [] else write_uint7 (N.of_nat (length src))) ++
                         4 :: flat_map (fun e => write_uint7 (N.of_nat (length e))) es ++ concat es))
                = U7Ok (N.of_nat (length src))
                       (4 :: flat_map (fun e => write_uint7 (N.of_nat (length e))) es ++ concat es)).
  { destruct (f_nosize f); [reflexivity|]. apply uint7_roundtrip. lia. }
  rewrite Hsz. unfold stripe_decode_c. change (4 =? 0) with false. cbv iota.
  change (N.to_nat 4) with 4%nat. rewrite <- Hn4.
  rewrite rd_sizes_write by exact Hesz. rewrite Hn4.
  rewrite with_cap_nat by exact Hcap.
  rewrite <- (stripe_split_sizes 4 src) by lia. fold cs.
  rewrite <- (app_nil_r (concat es)).
  cbn [length].
  match goal with |- context [dec_chunks_c (nx_decode_fc cap (S ?fu))] =>
    rewrite (dec_chunks_spec_c cap fu es cs [] Hd) end.
  f_equal. f_equal. apply interleave_stripe_split; [lia|].
  pose proof (stripe_split_total 4 src ltac:(lia)) as Ht. fold cs in Ht. lia.
Qed.

Print Assumptions nx_full_roundtrip_c.
Print Assumptions nx_stripe_roundtrip_c.
