(* rANS 4x8 order 0, end to end: the frequency table written by (the model of) noodles'
   write_frequencies is read back by the specification's ReadFrequencies0, and hence the whole
   stream produced by encode_o0 -- header, table, states, payload -- is decoded to the input by
   the independent decoder, for every byte string shorter than 2^32. *)
From Coq Require Import List NArith ZArith Lia Bool.
From Coq Require Import ZifyBool ZifyNat ZifyN.
From NV Require Import Cram.Bytes Cram.Itf8 Cram.IntProofs Cram.Rans4x8 Cram.Rans4x8Proofs.
Import ListNotations.
Ltac Zify.zify_post_hook ::= Z.div_mod_to_equations.
Open Scope N_scope.
Arguments N.add : simpl never.
Arguments N.sub : simpl never.
Arguments N.mul : simpl never.
Arguments N.div : simpl never.
Arguments N.modulo : simpl never.
Arguments N.pow : simpl never.
Arguments N.ltb : simpl never.
Arguments N.leb : simpl never.
Arguments N.eqb : simpl never.

(* ---------- one iteration of ReadFrequencies0, split at the point where the next symbol is read ---------- *)

Definition rf0_mid (fu : nat) (bs1 : list N) (last : N) (F1 : list N) : option (list N * list N) :=
  match bs1 with
  | [] => None
  | sym' :: bs2 =>
    if sym' =? last + 1 then
      match bs2 with
      | [] => None
      | rle' :: bs3 => spec_read_freqs0 fu bs3 sym' sym' rle' F1
      end
    else if sym' =? 0 then Some (F1, bs2)
    else spec_read_freqs0 fu bs2 sym' sym' 0 F1
  end.

Lemma rf0_unfold fu bs sym last rle F :
  spec_read_freqs0 (S fu) bs sym last rle F =
  match itf8_dec bs with
  | None => None
  | Some (f, bs1) =>
    let F1 := upd F (N.to_nat sym) f in
    if 0 <? rle then
      if 255 <=? sym then None else spec_read_freqs0 fu bs1 (sym + 1) (sym + 1) (rle - 1) F1
    else rf0_mid fu bs1 last F1
  end.
Proof. reflexivity. Qed.

(* ---------- small facts ---------- *)

Lemma itf8_enc_nonempty u : (1 <= length (itf8_enc u))%nat.
Proof.
  unfold itf8_enc. repeat match goal with |- context [if ?c then _ else _] => destruct c end;
  cbn [length]; lia.
Qed.

Lemma upd_app_here : forall (pre : list N) x tl v, upd (pre ++ x :: tl) (length pre) v = pre ++ v :: tl.
Proof. induction pre as [|p pre IH]; intros x tl v; cbn [app length upd]; [reflexivity|]. now rewrite IH. Qed.

Lemma run_len_spec : forall r,
  (run_len r <= length r)%nat /\ Forall (fun g => g <> 0) (firstn (run_len r) r).
Proof.
  induction r as [|g r IH]; cbn [run_len length firstn]; [split; [lia|constructor]|].
  destruct (g =? 0) eqn:E; cbn [firstn]; [split; [lia|constructor]|].
  destruct IH as [H1 H2]. split; [lia|]. constructor; [lia|exact H2].
Qed.

Lemma map_snd_index_from : forall r i, map snd (index_from i r) = r.
Proof. induction r as [|g r IH]; intros i; cbn [index_from map snd]; [reflexivity|]. now rewrite IH. Qed.

Lemma wf_nonempty : forall l pf k, (1 <= length (write_frequencies_go l pf k))%nat.
Proof.
  induction l as [|[sym f] r IH]; intros pf k; cbn [write_frequencies_go]; [cbn; lia|].
  destruct k as [|k'].
  - destruct (f =? 0); [apply IH|].
    destruct ((0 <? sym) && (0 <? pf)); cbn [length]; lia.
  - rewrite app_length. specialize (IH f k'). lia.
Qed.

(* ---------- the two synchronisation points of writer and reader ---------- *)

(* M: the reader has just stored the frequency of symbol [i] with no run pending; the writer
   stands before the entries [r] (indices length pre ..), [pf] being the frequency of the entry
   before them.  Entries between i and length pre (if any) are zero. *)
Definition M_stmt (r : list N) : Prop :=
  forall (pre : list N) (i pf : N) (fu : nat) (rest : list N),
    Forall (fun g => g < 4294967296) r ->
    (length pre + length r <= 256)%nat ->
    i < N.of_nat (length pre) ->
    (0 < pf <-> N.of_nat (length pre) = i + 1) ->
    (length (write_frequencies_go (index_from (N.of_nat (length pre)) r) pf 0) <= S fu)%nat ->
    rf0_mid fu (write_frequencies_go (index_from (N.of_nat (length pre)) r) pf 0 ++ rest) i
            (pre ++ repeat 0 (length r))
    = Some (pre ++ r, rest).

(* T: the reader is at the top of an iteration for symbol [length pre] with [k] run entries
   pending; the writer is about to write that symbol's frequency [f]. *)
Definition T_stmt (r : list N) : Prop :=
  forall (pre : list N) (f : N) (k fuel : nat) (rest : list N),
    f < 4294967296 -> Forall (fun g => g < 4294967296) r ->
    (length pre + S (length r) <= 256)%nat ->
    (k <= length r)%nat -> Forall (fun g => g <> 0) (firstn k r) -> (k = O -> f <> 0) ->
    (length (write_frequencies_go (index_from (N.of_nat (length pre) + 1) r) f k) <= fuel)%nat ->
    spec_read_freqs0 fuel
      (itf8_enc f ++ write_frequencies_go (index_from (N.of_nat (length pre) + 1) r) f k ++ rest)
      (N.of_nat (length pre)) (N.of_nat (length pre)) (N.of_nat k)
      (pre ++ repeat 0 (S (length r)))
    = Some (pre ++ f :: r, rest).

Lemma T_from_M r : M_stmt r -> (forall g r', r = g :: r' -> T_stmt r') -> T_stmt r.
Proof.
  intros HM HT pre f k fuel rest Hf Hr Hlen Hk Hnz Hk0 Hfuel.
  destruct fuel as [|fu].
  { pose proof (wf_nonempty (index_from (N.of_nat (length pre) + 1) r) f k). lia. }
  rewrite rf0_unfold. rewrite itf8_dec_enc by exact Hf.
  cbv zeta. rewrite Nnat.Nat2N.id. cbn [repeat]. rewrite upd_app_here.
  destruct k as [|k'].
  - (* no run pending: read the next symbol *)
    replace (0 <? N.of_nat 0) with false by lia.
    replace (pre ++ f :: repeat 0 (length r)) with ((pre ++ [f]) ++ repeat 0 (length r))
      by (rewrite <- app_assoc; reflexivity).
    replace (N.of_nat (length pre) + 1) with (N.of_nat (length (pre ++ [f]))) in *
      by (rewrite app_length; cbn [length]; lia).
    rewrite (HM (pre ++ [f]) (N.of_nat (length pre)) f fu rest).
    + rewrite <- app_assoc. reflexivity.
    + exact Hr.
    + rewrite app_length; cbn [length]; lia.
    + rewrite app_length; cbn [length]; lia.
    + specialize (Hk0 eq_refl). rewrite app_length; cbn [length]. split; intros; lia.
    + lia.
  - (* inside a run: the next entry follows without a symbol byte *)
    destruct r as [|g r']; [cbn [length] in Hk; lia|].
    replace (0 <? N.of_nat (S k')) with true by lia.
    replace (255 <=? N.of_nat (length pre)) with false by (cbn [length] in Hlen; lia).
    cbn [index_from write_frequencies_go length repeat] in *. unfold itf8_of_freq in *.
    inversion Hr as [|? ? Hg Hr']; subst.
    cbn [firstn] in Hnz. inversion Hnz as [|? ? Hgnz Hnz']; subst.
    rewrite app_length in Hfuel. pose proof (itf8_enc_nonempty g) as Hne.
    replace (pre ++ f :: 0 :: repeat 0 (length r')) with ((pre ++ [f]) ++ repeat 0 (S (length r')))
      by (rewrite <- app_assoc; reflexivity).
    replace (N.of_nat (S k') - 1) with (N.of_nat k') by lia.
    replace (N.of_nat (length pre) + 1) with (N.of_nat (length (pre ++ [f]))) in *
      by (rewrite app_length; cbn [length]; lia).
    rewrite <- (app_assoc (itf8_enc g)).
    rewrite (HT g r' eq_refl (pre ++ [f]) g k' fu rest); try assumption.
    + rewrite <- app_assoc. reflexivity.
    + rewrite app_length; cbn [length] in *; lia.
    + cbn [length] in Hk; lia.
    + intros _. exact Hgnz.
    + lia.
Qed.

Lemma M_step g r' : M_stmt r' -> T_stmt r' -> M_stmt (g :: r').
Proof.
  intros HM HT pre i pf fu rest Hr Hlen Hi Hpf Hfuel.
  inversion Hr as [|? ? Hg Hr']; subst.
  cbn [index_from write_frequencies_go length repeat] in *. unfold itf8_of_freq in *.
  destruct (g =? 0) eqn:Eg.
  - (* a symbol that does not occur: nothing is written *)
    assert (g = 0) as -> by lia.
    replace (N.of_nat (length pre) + 1) with (N.of_nat (length (pre ++ [0]))) in *
      by (rewrite app_length; cbn [length]; lia).
    replace (pre ++ 0 :: repeat 0 (length r')) with ((pre ++ [0]) ++ repeat 0 (length r'))
      by (rewrite <- app_assoc; reflexivity).
    rewrite (HM (pre ++ [0]) i 0 fu rest); try assumption.
    + rewrite <- app_assoc. reflexivity.
    + rewrite app_length; cbn [length] in *; lia.
    + rewrite app_length; cbn [length]; lia.
    + rewrite app_length; cbn [length]. split; intros; lia.
  - assert (Hgnz : g <> 0) by lia.
    replace (0 <? N.of_nat (length pre)) with true in * by lia. cbn [andb] in *.
    destruct (0 <? pf) eqn:Epf.
    + (* the previous symbol occurs: symbol, run length, frequencies *)
      assert (Hadj : N.of_nat (length pre) = i + 1) by (apply Hpf; lia).
      rewrite map_snd_index_from in *.
      destruct (run_len_spec r') as [Hrl Hrnz].
      cbn [app rf0_mid]. replace (N.of_nat (length pre) =? i + 1) with true by lia.
      cbn [length] in Hfuel. rewrite app_length in Hfuel.
      rewrite <- (app_assoc (itf8_enc g)).
      change (0 :: repeat 0 (length r')) with (repeat 0 (S (length r'))).
      rewrite (HT pre g (run_len r') fu rest);
        try assumption; try reflexivity; try lia; try (intros _; exact Hgnz).
    + (* the previous symbol does not occur: symbol, frequency *)
      assert (Hnadj : N.of_nat (length pre) <> i + 1) by (intro Hc; apply Hpf in Hc; lia).
      cbn [app rf0_mid]. replace (N.of_nat (length pre) =? i + 1) with false by lia.
      replace (N.of_nat (length pre) =? 0) with false by lia.
      cbn [length] in Hfuel. rewrite app_length in Hfuel.
      rewrite <- (app_assoc (itf8_enc g)).
      change (0 :: repeat 0 (length r')) with (repeat 0 (S (length r'))).
      pose proof (HT pre g O fu rest) as HT0. cbn [N.of_nat] in HT0.
      rewrite HT0;
        try assumption; try reflexivity; try lia; try (intros _; exact Hgnz); try constructor.
Qed.

Lemma M_nil : M_stmt [].
Proof.
  intros pre i pf fu rest _ _ Hi _ _. cbn [index_from write_frequencies_go app rf0_mid repeat length].
  replace (0 =? i + 1) with false by lia. cbn. rewrite !app_nil_r. reflexivity.
Qed.

Lemma MT_all : forall r, M_stmt r /\ T_stmt r.
Proof.
  induction r as [|g r' [IHM IHT]].
  - split; [exact M_nil|]. apply T_from_M; [exact M_nil|]. intros g r' H; discriminate.
  - assert (HM : M_stmt (g :: r')) by (apply M_step; assumption).
    split; [exact HM|]. apply T_from_M; [exact HM|].
    intros g3 r3 Heq. injection Heq as _ Heq. subst r3. exact IHT.
Qed.

(* ---------- the table round trip ---------- *)

Lemma wf_skip_zeros : forall z a l pf,
  write_frequencies_go (index_from a (repeat 0 z ++ l)) pf 0 =
  write_frequencies_go (index_from (a + N.of_nat z) l) (match z with O => pf | S _ => 0 end) 0.
Proof.
  induction z as [|z IH]; intros a l pf.
  - cbn [repeat app]. replace (a + N.of_nat 0) with a by lia. reflexivity.
  - cbn [repeat app index_from write_frequencies_go]. replace (0 =? 0) with true by reflexivity.
    rewrite IH. replace (a + 1 + N.of_nat z) with (a + N.of_nat (S z)) by lia.
    destruct z; reflexivity.
Qed.

Lemma split_first_nonzero : forall F, (exists i, nth i F 0 <> 0) ->
  exists z f r, F = repeat 0 z ++ f :: r /\ f <> 0.
Proof.
  induction F as [|x F IH]; intros [i Hi]; [destruct i; cbn in Hi; congruence|].
  destruct (N.eq_dec x 0) as [->|Hx].
  - destruct i as [|i]; [cbn in Hi; congruence|].
    destruct (IH (ex_intro _ i Hi)) as [z [f [r [HF Hf]]]].
    exists (S z), f, r. split; [cbn [repeat app]; now rewrite HF|exact Hf].
  - exists O, x, F. split; [reflexivity|exact Hx].
Qed.

(* freq_table_roundtrip: what write_frequencies writes, ReadFrequencies0 reads -- for every
   table of 256 entries below 2^32 in which at least one symbol occurs *)
Theorem freq_table_roundtrip_raw F rest :
  length F = 256%nat -> Forall (fun g => g < 4294967296) F -> (exists i, nth i F 0 <> 0) ->
  spec_read_frequencies0_raw (write_frequencies F ++ rest) = Some (F, rest).
Proof.
  intros Hlen Hb Hnz.
  destruct (split_first_nonzero F Hnz) as [z [f [r [HF Hf]]]]. subst F.
  rewrite app_length, repeat_length in Hlen. cbn [length] in Hlen.
  apply Forall_app in Hb. destruct Hb as [_ Hb]. inversion Hb as [|? ? Hfb Hrb]; subst.
  unfold write_frequencies. rewrite wf_skip_zeros.
  cbn [index_from write_frequencies_go]. replace (f =? 0) with false by lia.
  replace (0 <? match z with O => 0 | S _ => 0 end) with false by (destruct z; reflexivity).
  rewrite andb_false_r. replace (0 + N.of_nat z) with (N.of_nat z) by lia.
  cbn [app]. unfold spec_read_frequencies0_raw.
  destruct (MT_all r) as [_ HT].
  pose proof (HT (repeat 0 z) f O) as HT'. rewrite repeat_length in HT'.
  rewrite <- app_assoc.
  change 0 with (N.of_nat 0) at 1.
  replace zeros256 with (repeat 0 z ++ repeat 0 (S (length r)))
    by (unfold zeros256; rewrite <- repeat_app; f_equal; lia).
  apply HT'; try assumption.
  - lia.
  - cbn [length]; lia.
  - constructor.
  - intros _. exact Hf.
  - cbn [length]. rewrite !app_length. lia.
Qed.

(* ... and the table passes the validation of its total (at most 4096 = 1 << 12) *)
Theorem freq_table_roundtrip F rest :
  length F = 256%nat -> Forall (fun g => g < 4294967296) F -> (exists i, nth i F 0 <> 0) ->
  sumN F <= 4096 ->
  spec_read_frequencies0 (write_frequencies F ++ rest) = Some (F, rest).
Proof.
  intros Hlen Hb Hnz Hsum. unfold spec_read_frequencies0.
  rewrite freq_table_roundtrip_raw by assumption.
  replace (4096 <? sumN F) with false by lia. reflexivity.
Qed.

(* a table whose total exceeds 4096 is REJECTED when read, however it is laid out *)
Theorem freq_table_total_rejected bs F r :
  spec_read_frequencies0_raw bs = Some (F, r) -> 4096 < sumN F -> spec_read_frequencies0 bs = None.
Proof.
  intros H Hs. unfold spec_read_frequencies0. rewrite H.
  replace (4096 <? sumN F) with true by lia. reflexivity.
Qed.

(* ---------- header and states ---------- *)

Lemma take_le32_le32 u rest : u < 4294967296 -> take_le32 (le32_bytes u ++ rest) = Some (u, rest).
Proof. intros Hu. unfold le32_bytes, take_le32. cbn [app]. f_equal. f_equal. lia. Qed.

Lemma take_le32_any u rest : exists v, take_le32 (le32_bytes u ++ rest) = Some (v, rest).
Proof. unfold le32_bytes, take_le32. cbn [app]. eexists. reflexivity. Qed.

Lemma take4_states a b c d rest :
  Forall state_ok [a; b; c; d] ->
  take4_le32 (flat_map le32_bytes [a; b; c; d] ++ rest) = Some ([a; b; c; d], rest).
Proof.
  intros Hok.
  assert (Hlt : forall s, state_ok s -> s < 4294967296) by (unfold state_ok; intros; lia).
  inversion Hok as [|? ? Hka Hk1]; inversion Hk1 as [|? ? Hkb Hk2]; inversion Hk2 as [|? ? Hkc Hk3];
  inversion Hk3 as [|? ? Hkd _]; subst.
  cbn [flat_map]. rewrite app_nil_r. rewrite <- !app_assoc. unfold take4_le32.
  rewrite take_le32_le32 by auto. rewrite take_le32_le32 by auto.
  rewrite take_le32_le32 by auto. rewrite take_le32_le32 by auto. reflexivity.
Qed.

(* ---------- the whole order-0 stream ---------- *)

Theorem rans4x8_o0_roundtrip : forall src,
  Forall (fun x => x < 256) src -> N.of_nat (length src) < 4294967296 ->
  exists bytes, encode_o0 src = EncOk bytes /\ spec_decode bytes = Some src.
Proof.
  intros src Hbytes Hlen. unfold encode_o0.
  (* the normalisation does not panic *)
  pose proof (sumN_raw_frequencies src Hbytes) as Hsum.
  pose proof (describe_sum (raw_frequencies src)) as Hd.
  destruct (normalize_frequencies (raw_frequencies src)) as [F|] eqn:En.
  2:{ exfalso. unfold normalize_frequencies in En.
      destruct (describe_frequencies (raw_frequencies src)) as [mi sum]. cbn [snd] in Hd.
      unfold TWO32 in En. replace (4294967296 <=? sum) with false in En by lia.
      destruct (sum =? 0); [discriminate|].
      destruct (_ <? 4095); [discriminate|]. destruct (4095 <? _); discriminate. }
  destruct (normalize_table _ _ (raw_frequencies_length src) En) as [HFl [HFs HFp]].
  assert (Htab : table_ok F src).
  { split; [exact HFs|]. intros x Hx. split.
    - rewrite Forall_forall in Hbytes. specialize (Hbytes x Hx). rewrite HFl. lia.
    - apply HFp. apply raw_frequencies_pos; assumption. }
  destruct (rans4x8_o0_core_roundtrip src F Htab) as [st [stack [He [Hst4 [Hok Hdec]]]]].
  rewrite He. eexists. split; [reflexivity|].
  (* decoding: header *)
  cbn [spec_decode].
  destruct (take_le32_any (N.of_nat (length (write_frequencies F ++ flat_map le32_bytes st ++ stack)))
              (le32_bytes (N.of_nat (length src)) ++
               write_frequencies F ++ flat_map le32_bytes st ++ stack)) as [v Hv].
  rewrite Hv. rewrite take_le32_le32 by exact Hlen.
  destruct src as [|x0 src'].
  { reflexivity. }
  replace (N.of_nat (length (x0 :: src')) =? 0) with false by (cbn [length]; lia).
  replace (0 =? 0) with true by reflexivity.
  (* table *)
  rewrite freq_table_roundtrip.
  - destruct st as [|a [|b [|c [|d [|e st']]]]]; try discriminate Hst4.
    rewrite take4_states by exact Hok.
    rewrite Nnat.Nat2N.id.
    specialize (Hdec []). rewrite app_nil_r in Hdec. rewrite Hdec. reflexivity.
  - exact HFl.
  - rewrite Forall_forall. intros g Hg. apply In_nth with (d := 0) in Hg.
    destruct Hg as [i [_ Hi]]. pose proof (nth_le_sumN F i). lia.
  - exists (N.to_nat x0). destruct Htab as [_ Hs]. destruct (Hs x0 (or_introl eq_refl)) as [_ Hp]. lia.
  - exact HFs.
Qed.
