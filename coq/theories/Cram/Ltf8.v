(* LTF8: bit-exact model of noodles-cram src/io/writer/num/ltf8.rs and src/io/reader/num/ltf8.rs.
   The i64 is viewed as its two's-complement u64 [u]; `n >> (7k) == 0` is `u < 2^(7k)`.
   writer: m = u | (prefix << 8(k-1)); the first byte is prefix + (u >> 8(k-1)) because u < 2^(7k);
   for k = 8 the first byte is 0xfe (u < 2^56), for k = 9 it is 0xff followed by all 8 bytes. *)
From Coq Require Import List NArith ZArith.
From NV Require Import Cram.Bytes.
Import ListNotations.
Open Scope N_scope.

Definition two64 : N := 18446744073709551616.
Definition u64_of_i64 (n : Z) : N := Z.to_N (n mod Z.of_N two64)%Z.
Definition i64_of_u64 (u : N) : Z :=
  if u <? 9223372036854775808 then Z.of_N u else (Z.of_N u - Z.of_N two64)%Z.

Definition ltf8_enc (u : N) : list N :=
  if u <? 2^7 then [u]
  else if u <? 2^14 then (128 + u / 2^8) :: be_bytes 1 u
  else if u <? 2^21 then (192 + u / 2^16) :: be_bytes 2 u
  else if u <? 2^28 then (224 + u / 2^24) :: be_bytes 3 u
  else if u <? 2^35 then (240 + u / 2^32) :: be_bytes 4 u
  else if u <? 2^42 then (248 + u / 2^40) :: be_bytes 5 u
  else if u <? 2^49 then (252 + u / 2^48) :: be_bytes 6 u
  else if u <? 2^56 then 254 :: be_bytes 7 u
  else 255 :: be_bytes 8 u.

Definition with_prefix (hi : N) (k : nat) (r : list N) : option (N * list N) :=
  match take_be k 0 r with
  | Some (v, r') => Some (hi * 256 ^ N.of_nat k + v, r')
  | None => None
  end.

Definition ltf8_dec (bs : list N) : option (N * list N) :=
  match bs with
  | [] => None
  | b0 :: r =>
    if b0 <? 128 then Some (b0, r)
    else if b0 <? 192 then with_prefix (b0 mod 128) 1 r
    else if b0 <? 224 then with_prefix (b0 mod 64) 2 r
    else if b0 <? 240 then with_prefix (b0 mod 32) 3 r
    else if b0 <? 248 then with_prefix (b0 mod 16) 4 r
    else if b0 <? 252 then with_prefix (b0 mod 8) 5 r
    else if b0 <? 254 then with_prefix (b0 mod 4) 6 r
    else if b0 <? 255 then with_prefix 0 7 r
    else with_prefix 0 8 r
  end.

Definition write_ltf8 (n : Z) : list N := ltf8_enc (u64_of_i64 n).

Definition read_ltf8 (bs : list N) : option (Z * list N) :=
  match ltf8_dec bs with
  | Some (u, r) => Some (i64_of_u64 u, r)
  | None => None
  end.

Definition ltf8_size (n : Z) : nat :=
  let u := u64_of_i64 n in
  if u <? 2^7 then 1 else if u <? 2^14 then 2 else if u <? 2^21 then 3 else if u <? 2^28 then 4
  else if u <? 2^35 then 5 else if u <? 2^42 then 6 else if u <? 2^49 then 7
  else if u <? 2^56 then 8 else 9.
