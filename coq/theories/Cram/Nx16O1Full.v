(* rANS Nx16 order 1, the WHOLE entropy stage and, with it, whole Nx16 streams for every
   STRIPE-free flag byte: table (NV.Cram.Nx16O1Table), chunks / rows / counted pairs
   (NV.Cram.Nx16O1Count) and the interleaved loops (NV.Cram.Nx16O1Proofs) put together. *)
From Coq Require Import List NArith ZArith Lia Bool PeanoNat.
From Coq Require Import ZifyBool ZifyNat ZifyN.
From NV Require Import Cram.Bytes Cram.Vlq Cram.IntProofs Cram.Rans4x8 Cram.Rans4x8Proofs
  Cram.Rans4x8O1 Cram.Rans4x8O1Proofs Cram.Nx16Xform Cram.Nx16O0 Cram.Nx16O0Proofs Cram.Nx16O0Table
  Cram.Nx16O1 Cram.Nx16O1Defs Cram.Nx16O1Proofs Cram.Nx16O1Table Cram.Nx16O1Count
  Cram.Nx16Full Cram.Nx16FullProofs.
Import ListNotations.
Ltac Zify.zify_post_hook ::= Z.div_mod_to_equations.
Open Scope N_scope.
Arguments N.add : simpl never.
Arguments N.sub : simpl never.
Arguments N.mul : simpl never.
Arguments N.div : simpl never.
Arguments N.modulo : simpl never.
Arguments N.pow : simpl never.
Arguments N.ltb : simpl never.
Arguments N.leb : simpl never.
Arguments N.eqb : simpl never.

(* For EVERY byte string of n .. 2^28-1 bytes and every state count n > 0 (noodles uses 4 and 32):
   the model of noodles' order-1 encoder terminates without panic, and the model of noodles'
   order-1 decoder maps header ++ alphabet ++ table ++ states ++ payload back to the input. *)
Theorem nx_o1_roundtrip n src :
  (0 < n)%nat -> (n <= length src)%nat ->
  Forall (fun b => b < 256) src -> N.of_nat (length src) < 268435456 ->
  exists body, nx_o1_encode n src = EncOk body /\ nxd1_decode body (length src) n = ROk src.
Proof.
  intros Hn Hl Hb Hlen.
  destruct (nx_o1_count n src Hn Hl Hb Hlen)
    as [cs [rem [F1 [Hsp [Hrl [Hrn [Hcat [Hreml [Hnorm [Htab [Hsup [HAl [HA0 Hrok]]]]]]]]]]]]].
  set (q := Nat.div (length src) n) in *.
  assert (Hq : (1 <= q)%nat) by (unfold q; apply Nat.div_le_lower_bound; lia).
  destruct (nx_o1_core_roundtrip F1 n Hn (rows_of q cs) (repeat 0 n) rem (repeat_length _ _) Hrok)
    as [St [stack [He [HSl [HSok Hdec]]]]].
  unfold nx_o1_encode. fold q.
  replace (q =? 0)%nat with false by (symmetry; apply Nat.eqb_neq; lia).
  rewrite Hsp, Hnorm, He. eexists. split; [reflexivity|].
  unfold nxd1_decode. rewrite o1_table_roundtrip by assumption.
  replace (rd_states n (flat_map le32_bytes St ++ stack)) with (Some (St, stack)).
  2:{ symmetry. rewrite <- HSl. apply rd_states_write.
      eapply Forall_impl; [|exact HSok]. cbn beta. intros a [_ Ha]. lia. }
  replace (n =? 0)%nat with false by (symmetry; apply Nat.eqb_neq; lia).
  fold q. destruct (Hdec []) as [K' [St' [b3 [Hd1 Hd2]]]]. rewrite app_nil_r in Hd1.
  rewrite Hrl in Hd1. rewrite Hd1. rewrite <- Hreml. rewrite Hd2. rewrite Hcat. reflexivity.
Qed.

Theorem entropy_ok_o1 : entropy_ok nx_o1_encode nxd1_decode.
Proof.
  intros n src Hn Hl Hb Hlen. apply nx_o1_roundtrip; try assumption. lia.
Qed.

(* WHOLE Nx16 STREAMS: for EVERY flag byte without STRIPE and every byte string shorter than 2^28
   the model of rans_nx16::encode never panics or diverges and the model of rans_nx16::decode
   returns the input from the emitted stream. *)
Theorem nx_full_roundtrip f src :
  f_stripe f = false -> Forall (fun b => b < 256) src -> N.of_nat (length src) < 268435456 ->
  exists bytes, nx_encode_e f src = NeOk bytes /\ nx_decode_e bytes (N.of_nat (length src)) = DOk src.
Proof.
  apply nx_full_roundtrip_gen. intros _. exact entropy_ok_o1.
Qed.
