(* C20 -- VCF -> BCF for a WHOLE file through the generic reader and writer, with the header block:
   nothing about the header is an input any more.

   variant::io::Reader (VCF) read_header parses the header text (C09: Vcf.File.read_header_text =
   the line loop + header::Parser with its reserved-definition check); variant::io::Writer (BCF)
   write_header(&header) emits magic, version, l_text, the header text, NUL and builds the writer's
   OWN string maps from the header (C10: Bcf.File.write_prefix / maps_of_header =
   StringMaps::try_from(&header)); every record is then converted under the lookup tables of that
   header (C09: Vcf.File.hctx_of_header) and those string maps; write_site's variant_span takes its
   file-format switch (>= 4.5) from the header too.  Definitions only. *)
From Coq Require Import List NArith ZArith Bool.
From NV Require Import Text.TextBase Vcf.Values Vcf.Line Vcf.Header Vcf.File.
From NV Require Import Bcf.StringMap Bcf.File.
From NV Require Import Util.ConvertVariant.
Import ListNotations.
Open Scope N_scope.

Inductive cvhres :=
| HvOk (out : list N)              (* everything the BCF writer emitted: header block + records *)
| HvReadHeaderErr                  (* the VCF reader rejected the header text *)
| HvWriteHeaderErr                 (* bcf Writer::write_header: InvalidInput *)
| HvRec (i : nat) (e : cvvres).    (* record i ended the run *)

(* FileFormat derives Ord on (major, minor); variant_span: file_format >= VCF_4_5 *)
Definition ff_ge45 (ff : N * N) : bool := (4 <? fst ff) || ((fst ff =? 4) && (5 <=? snd ff)).

(* from the parsed header value *)
Definition convert_vcf_bcf_hdr (prs_float : list N -> option N) (hd : vheader)
    (lines : list (list N)) : cvhres :=
  match write_prefix hd, maps_of_header hd with
  | Some p, Some (strings, contigs) =>
      match convert_vcf_bcf_lines prs_float (ff_ge45 (hh_ff hd)) strings contigs
              (hctx_of_header hd) 0 lines with
      | VfOk out => HvOk (p ++ out)
      | VfErr i e => HvRec i e
      end
  | _, _ => HvWriteHeaderErr
  end.

(* from the BYTES of the header text (what precedes the first record line) *)
Definition convert_vcf_bcf_hfile (prs_float : list N -> option N) (htext : list N)
    (lines : list (list N)) : cvhres :=
  match read_header_text htext with
  | (Some hd, _) => convert_vcf_bcf_hdr prs_float hd lines
  | (None, _) => HvReadHeaderErr
  end.
