(* C20 -- proofs about NV.Util.Detect. *)
From Coq Require Import List NArith Bool Arith Lia.
From NV Require Import Util.Detect.
Import ListNotations.
Open Scope N_scope.

(* ------------------------------------------------------------------------------------- *)
(* basics *)

Lemma eqb_bytes_eq : forall a b, eqb_bytes a b = true <-> a = b.
Proof.
  induction a as [|x a IH]; destruct b as [|y b]; cbn [eqb_bytes]; split; intro H;
    try reflexivity; try discriminate.
  - apply andb_true_iff in H. destruct H as [Hx Hr]. apply N.eqb_eq in Hx. apply IH in Hr.
    subst. reflexivity.
  - injection H as Hx Hr. subst. apply andb_true_iff. split; [apply N.eqb_refl | apply IH; reflexivity].
Qed.

Lemma eqb_bytes_neq : forall a b, a <> b -> eqb_bytes a b = false.
Proof.
  intros a b H. destruct (eqb_bytes a b) eqn:E; [|reflexivity].
  apply eqb_bytes_eq in E. contradiction.
Qed.

(* the magic numbers are pairwise distinct, none is a prefix of another, and none begins with
   '@' (SAM header), '#' (VCF header) or the gzip ID1 byte *)
Lemma magic_numbers_distinct :
  BAM_MAGIC <> CRAM_MAGIC /\ firstn 3 BAM_MAGIC <> BCF_MAGIC /\ firstn 3 CRAM_MAGIC <> BCF_MAGIC /\
  firstn 2 BAM_MAGIC <> GZIP_MAGIC /\ firstn 2 CRAM_MAGIC <> GZIP_MAGIC /\ firstn 2 BCF_MAGIC <> GZIP_MAGIC /\
  (forall m, In m [BAM_MAGIC; CRAM_MAGIC; BCF_MAGIC; GZIP_MAGIC] ->
             hd 0 m <> 64 /\ hd 0 m <> 35 /\ hd 0 m <> 42).
Proof.
  repeat split; try discriminate;
    cbn [In] in H; repeat (destruct H as [H|H]; [subst m; cbn; discriminate|]); contradiction.
Qed.

Lemma firstn_starts : forall (p r s : list N) m, firstn m s = p ++ r -> exists r', s = p ++ r'.
Proof.
  induction p as [|x p IH]; intros r s m H.
  - exists s. reflexivity.
  - destruct m as [|m]; [cbn in H; discriminate|].
    destruct s as [|y s]; [cbn in H; discriminate|].
    cbn [firstn app] in H. injection H as Hx Hr. subst y.
    destruct (IH _ _ _ Hr) as [r' Hr']. exists r'. cbn [app]. rewrite Hr'. reflexivity.
Qed.

(* ------------------------------------------------------------------------------------- *)
(* characterisation of the uncompressed decisions *)

Lemma detect_compression_bgzf : forall r, detect_compression (31 :: 139 :: r) = CBgzf.
Proof. intro r. reflexivity. Qed.

Lemma detect_compression_none : forall w, (forall r, w <> 31 :: 139 :: r) -> detect_compression w = CNone.
Proof.
  intros w H. unfold detect_compression, get_to.
  destruct w as [|a [|b r]]; cbn [length Nat.leb firstn]; try reflexivity.
  destruct (eqb_bytes [a; b] GZIP_MAGIC) eqn:E; [|reflexivity].
  apply eqb_bytes_eq in E. unfold GZIP_MAGIC in E. injection E as Ha Hb. subst.
  exfalso. apply (H r). reflexivity.
Qed.

Lemma detect_compression_cases : forall w,
  (detect_compression w = CBgzf /\ exists r, w = 31 :: 139 :: r) \/
  (detect_compression w = CNone /\ forall r, w <> 31 :: 139 :: r).
Proof.
  intro w. destruct w as [|a [|b r]].
  - right. split; [reflexivity|]. intros r H. discriminate.
  - right. split; [reflexivity|]. intros r H. discriminate.
  - destruct (N.eq_dec a 31) as [Ha|Ha]; [destruct (N.eq_dec b 139) as [Hb|Hb]|].
    + subst. left. split; [reflexivity|]. exists r. reflexivity.
    + right. split; [apply detect_compression_none|]; intros r' H; injection H as H1 H2 H3; contradiction.
    + right. split; [apply detect_compression_none|]; intros r' H; injection H as H1 H2 H3; contradiction.
Qed.

Lemma get_to_prefix : forall n w b, get_to n w = Some b -> exists r, w = b ++ r /\ length b = n.
Proof.
  intros n w b H. unfold get_to in H. destruct (n <=? length w)%nat eqn:E; [|discriminate].
  injection H as H. subst b. exists (skipn n w). split; [symmetry; apply firstn_skipn|].
  apply Nat.leb_le in E. apply firstn_length_le. exact E.
Qed.

Lemma get_to_app : forall p r, get_to (length p) (p ++ r) = Some p.
Proof.
  intros p r. unfold get_to. rewrite app_length.
  replace (length p <=? length p + length r)%nat with true by (symmetry; apply Nat.leb_le; lia).
  rewrite firstn_app, Nat.sub_diag, firstn_all. cbn [firstn]. rewrite app_nil_r. reflexivity.
Qed.

(* no gzip / BAM magic at the start of the window, and "CRAM" only when followed by a byte that
   continues SAM text: uncompressed SAM, whatever the window length *)
Lemma detect_a_sam_none : forall w i,
  (forall r, w <> 31 :: 139 :: r) -> (forall r, w <> BAM_MAGIC ++ r) ->
  (forall r, w = CRAM_MAGIC ++ r -> exists b r', r = b :: r' /\ sam_cont b = true) ->
  detect_a w i = Ok (Sam, CNone).
Proof.
  intros w i Hg Hb Hc. unfold detect_a, build_a. rewrite (detect_compression_none w Hg).
  unfold detect_format_a. destruct (get_to 4 w) as [b|] eqn:E; [|reflexivity].
  destruct (get_to_prefix _ _ _ E) as [r [Hw Hl]].
  rewrite eqb_bytes_neq by (intro X; subst b; apply (Hb r); exact Hw).
  destruct (eqb_bytes b CRAM_MAGIC) eqn:Ec; [|reflexivity].
  apply eqb_bytes_eq in Ec. subst b. destruct (Hc r Hw) as [x [r' [Hr Hx]]]. subst r. subst w.
  cbn [CRAM_MAGIC app nth_error]. rewrite Hx. reflexivity.
Qed.

Lemma detect_a_bam_raw : forall r i, detect_a (BAM_MAGIC ++ r) i = Ok (Bam, CNone).
Proof. intros r i. reflexivity. Qed.

Lemma detect_a_cram : forall r i,
  match r with [] => True | b :: _ => sam_cont b = false end ->
  detect_a (CRAM_MAGIC ++ r) i = Ok (Cram, CNone).
Proof.
  intros r i H. destruct r as [|b r]; [reflexivity|].
  unfold detect_a, build_a, detect_format_a. cbn [CRAM_MAGIC app detect_compression get_to length Nat.leb firstn
    eqb_bytes GZIP_MAGIC BAM_MAGIC N.eqb Pos.eqb andb nth_error].
  rewrite H. reflexivity.
Qed.

Lemma detect_v_vcf_none : forall w i,
  (forall r, w <> 31 :: 139 :: r) -> (forall r, w <> BCF_MAGIC ++ r) -> detect_v w i = Ok (Vcf, CNone).
Proof.
  intros w i Hg Hb. unfold detect_v, build_v. rewrite (detect_compression_none w Hg).
  unfold detect_format_v. destruct (get_to 3 w) as [b|] eqn:E; [|reflexivity].
  destruct (get_to_prefix _ _ _ E) as [r [Hw Hl]].
  rewrite eqb_bytes_neq by (intro X; subst b; apply (Hb r); exact Hw).
  reflexivity.
Qed.

Lemma detect_v_bcf_raw : forall r i, detect_v (BCF_MAGIC ++ r) i = Ok (Bcf, CNone).
Proof. intros r i. reflexivity. Qed.

(* a gzip window: the decision is a function of the inflated bytes only *)
Lemma detect_a_gz : forall r i,
  detect_a (31 :: 139 :: r) i =
  match read_upto_infl 4 i with
  | Err e => Err e
  | Ok b => if eqb_bytes b BAM_MAGIC then Ok (Bam, CBgzf) else Ok (Sam, CBgzf)
  end.
Proof.
  intros r i. unfold detect_a, build_a. rewrite detect_compression_bgzf. unfold detect_format_a.
  destruct (read_upto_infl 4 i) as [b|e]; [|reflexivity].
  destruct (eqb_bytes b BAM_MAGIC); reflexivity.
Qed.

Lemma detect_v_gz : forall r i,
  detect_v (31 :: 139 :: r) i =
  match read_upto_infl 3 i with
  | Err e => Err e
  | Ok b => if eqb_bytes b BCF_MAGIC then Ok (Bcf, CBgzf) else Ok (Vcf, CBgzf)
  end.
Proof.
  intros r i. unfold detect_v, build_v. rewrite detect_compression_bgzf. unfold detect_format_v.
  destruct (read_upto_infl 3 i) as [b|e]; [|reflexivity].
  destruct (eqb_bytes b BCF_MAGIC); reflexivity.
Qed.

(* autodetection never decides (CRAM, BGZF): the builder's "CRAM cannot be bgzip-compressed"
   error is reachable only through the overrides *)
Lemma detect_a_never_cram_bgzf : forall w i, detect_a w i <> Ok (Cram, CBgzf).
Proof.
  intros w i. destruct (detect_compression_cases w) as [[Hc [r Hr]]|[Hc Hn]].
  - subst w. rewrite detect_a_gz. destruct (read_upto_infl 4 i) as [b|e]; [|discriminate].
    destruct (eqb_bytes b BAM_MAGIC); discriminate.
  - unfold detect_a, build_a. rewrite Hc. unfold detect_format_a.
    destruct (get_to 4 w) as [b|]; [|discriminate].
    destruct (eqb_bytes b BAM_MAGIC); [discriminate|]. destruct (eqb_bytes b CRAM_MAGIC); [|discriminate].
    destruct (nth_error w 4) as [x|]; [destruct (sam_cont x)|]; discriminate.
Qed.

(* fewer than n inflated bytes: a clean end of the stream means "not BAM / BCF"; a decoder error
   (e.g. a member cut off inside the window) is reported *)
Lemma detect_a_gz_short : forall r i, (length (avail i) < 4)%nat ->
  detect_a (31 :: 139 :: r) i = match stop i with None => Ok (Sam, CBgzf) | Some e => Err e end.
Proof.
  intros r i H. rewrite detect_a_gz. unfold read_upto_infl.
  replace (4 <=? length (avail i))%nat with false by (symmetry; apply Nat.leb_gt; exact H).
  destruct (stop i); [reflexivity|].
  rewrite eqb_bytes_neq; [reflexivity|]. intro X. rewrite X in H. cbn in H. lia.
Qed.

Lemma detect_v_gz_short : forall r i, (length (avail i) < 3)%nat ->
  detect_v (31 :: 139 :: r) i = match stop i with None => Ok (Vcf, CBgzf) | Some e => Err e end.
Proof.
  intros r i H. rewrite detect_v_gz. unfold read_upto_infl.
  replace (3 <=? length (avail i))%nat with false by (symmetry; apply Nat.leb_gt; exact H).
  destruct (stop i); [reflexivity|].
  rewrite eqb_bytes_neq; [reflexivity|]. intro X. rewrite X in H. cbn in H. lia.
Qed.

(* ------------------------------------------------------------------------------------- *)
(* SAM text never starts with the gzip or BAM magic; when it starts with the CRAM magic (the F14
   class) the next byte continues SAM text *)

Lemma name_line_not_magic : forall nm rest more,
  name_ok nm = true ->
  (forall r, (nm ++ 9 :: rest) ++ more <> 31 :: 139 :: r) /\
  (forall r, (nm ++ 9 :: rest) ++ more <> BAM_MAGIC ++ r) /\
  (starts_with CRAM_MAGIC nm = false -> forall r, (nm ++ 9 :: rest) ++ more <> CRAM_MAGIC ++ r) /\
  (forall r, (nm ++ 9 :: rest) ++ more = CRAM_MAGIC ++ r -> exists b r', r = b :: r' /\ sam_cont b = true).
Proof.
  intros nm rest more Hok. unfold name_ok in Hok.
  repeat (apply andb_true_iff in Hok; destruct Hok as [Hok ?]).
  assert (Hb : forallb name_byte_ok nm = true) by assumption.
  assert (Hne : nm <> []) by (intro X; subst nm; cbn in Hok; discriminate).
  clear - Hb Hne.
  assert (B : forall x, name_byte_ok x = true -> 33 <= x).
  { intros x Hx. unfold name_byte_ok in Hx. apply andb_true_iff in Hx. destruct Hx as [Hx _].
    apply andb_true_iff in Hx. destruct Hx as [Hx _]. apply N.leb_le in Hx. exact Hx. }
  assert (G : forall x, name_byte_ok x = true -> sam_cont x = true).
  { intros x Hx. unfold name_byte_ok in Hx. apply andb_true_iff in Hx. destruct Hx as [Hx _].
    unfold sam_cont. rewrite Hx. reflexivity. }
  destruct nm as [|a [|b [|c [|d nm']]]]; [contradiction| | | |];
    cbn [forallb] in Hb; repeat (apply andb_true_iff in Hb; destruct Hb as [? Hb]).
  1-3: repeat match goal with H : name_byte_ok _ = true |- _ => apply B in H end;
    (split; [|split; [|split]]); unfold BAM_MAGIC, CRAM_MAGIC; cbn [app]; intros;
    try (intro X; injection X; intros; subst; try discriminate; lia);
    match goal with X : _ :: _ = _ :: _ |- _ => injection X; intros; exfalso; lia end.
  (* four or more name bytes *)
  split; [|split; [|split]]; unfold BAM_MAGIC, CRAM_MAGIC; cbn [app]; intros.
  - intro X. injection X; intros; subst.
    match goal with H : name_byte_ok 31 = true |- _ => vm_compute in H; discriminate end.
  - intro X. injection X; intros; subst.
    match goal with H : name_byte_ok 1 = true |- _ => vm_compute in H; discriminate end.
  - intro X. injection X; intros; subst.
    match goal with H : starts_with _ _ = false |- _ => cbn in H; discriminate end.
  - match goal with X : _ :: _ = _ :: _ |- _ => injection X; intros; subst end.
    destruct nm' as [|e nm'].
    + cbn [app]. eexists. eexists. split; reflexivity.
    + cbn [app]. cbn [forallb] in Hb. apply andb_true_iff in Hb. destruct Hb as [He _].
      eexists. eexists. split; [reflexivity|]. apply G. exact He.
Qed.

Lemma sam_text_not_magic : forall hdr recs,
  forallb sam_line_ok recs = true ->
  (forall r, sam_text hdr recs <> 31 :: 139 :: r) /\
  (forall r, sam_text hdr recs <> BAM_MAGIC ++ r) /\
  (sam_first_name_cram hdr recs = false -> forall r, sam_text hdr recs <> CRAM_MAGIC ++ r) /\
  (forall r, sam_text hdr recs = CRAM_MAGIC ++ r -> exists b r', r = b :: r' /\ sam_cont b = true).
Proof.
  intros hdr recs Hok. unfold sam_text. destruct hdr as [|h hs].
  - cbn [map concat app]. destruct recs as [|l recs].
    + cbn. repeat split; intros; discriminate.
    + cbn [map concat]. cbn [forallb] in Hok. apply andb_true_iff in Hok. destruct Hok as [Hl _].
      unfold sam_line_bytes, sam_line_ok, sam_first_name_cram in *. destruct (sl_name l) as [nm|].
      * destruct (name_line_not_magic nm (sl_rest l ++ [10]) (concat (map sam_line_bytes recs)) Hl) as [A [B [C D]]].
        unfold sam_line_bytes in *. split; [exact A|split; [exact B|split; [exact C|exact D]]].
      * cbn [app]. unfold BAM_MAGIC, CRAM_MAGIC. repeat split; intros; cbn [app] in *; try (intro X); discriminate.
  - cbn [map concat hdr_line_bytes app]. unfold BAM_MAGIC, CRAM_MAGIC.
    repeat split; intros; cbn [app] in *; try (intro X); discriminate.
Qed.

Lemma vcf_text_not_magic : forall rest,
  (forall r, vcf_text rest <> 31 :: 139 :: r) /\ (forall r, vcf_text rest <> BCF_MAGIC ++ r).
Proof. intro rest. split; intros r X; discriminate. Qed.

(* ------------------------------------------------------------------------------------- *)
(* windows *)

Lemma window_not_starts : forall s k p,
  (forall r, s <> p ++ r) -> forall r, window s k <> p ++ r.
Proof.
  intros s k p H r X. unfold window in X. destruct (firstn_starts _ _ _ _ X) as [r' Hr']. exact (H r' Hr').
Qed.

Lemma window_app_ge : forall p r k, (length p <= Nat.min k BUF_CAP)%nat ->
  window (p ++ r) k = p ++ firstn (Nat.min k BUF_CAP - length p) r.
Proof.
  intros p r k H. unfold window. rewrite firstn_app. f_equal. apply firstn_all2. exact H.
Qed.

Lemma window_full : forall s k, (length s <= Nat.min k BUF_CAP)%nat -> window s k = s.
Proof. intros s k H. unfold window. apply firstn_all2. exact H. Qed.

(* ------------------------------------------------------------------------------------- *)
(* the theorem: what a generic writer emits is detected as written *)

Section Deflate.
  (* BGZF compression of a payload, and flate2's MultiGzDecoder over a window, as oracles *)
  Variable bgzf : list N -> list N.
  Variable gunzip : list N -> inflated.
  (* a BGZF stream begins with the gzip magic *)
  Hypothesis bgzf_magic : forall p, exists r, bgzf p = 31 :: 139 :: r.
  (* from any leading window of a BGZF stream the decoder delivers a prefix of the payload *)
  Hypothesis gunzip_prefix : forall p m, exists n, avail (gunzip (firstn m (bgzf p))) = firstn n p.
  (* from the whole stream it delivers the whole payload, then a clean end of stream *)
  Hypothesis gunzip_whole : forall p, gunzip (bgzf p) = mk_inflated p None.

  (* streams of the generic alignment writer; the boolean marks the F14 class *)
  Inductive written_a : afmt -> comp -> bool -> list N -> Prop :=
  | WSam : forall hdr recs, forallb sam_line_ok recs = true ->
      written_a Sam CNone (sam_first_name_cram hdr recs) (sam_text hdr recs)
  | WSamGz : forall hdr recs, forallb sam_line_ok recs = true ->
      written_a Sam CBgzf false (bgzf (sam_text hdr recs))
  | WBamRaw : forall rest, written_a Bam CNone false (bam_payload rest)
  | WBam : forall rest, written_a Bam CBgzf false (bgzf (bam_payload rest))
  | WCram : forall major minor rest, cram_major_ok major = true ->
      written_a Cram CNone false (cram_stream major minor rest).

  Inductive written_v : vfmt -> comp -> list N -> Prop :=
  | WVcf : forall rest, written_v Vcf CNone (vcf_text rest)
  | WVcfGz : forall rest, written_v Vcf CBgzf (bgzf (vcf_text rest))
  | WBcfRaw : forall rest, written_v Bcf CNone (bcf_payload rest)
  | WBcf : forall rest, written_v Bcf CBgzf (bgzf (bcf_payload rest)).

  (* what the first window must contain (k = number of bytes the first read delivers) *)
  Definition window_ok_a (f : afmt) (c : comp) (amb : bool) (s : list N) (k : nat) : Prop :=
    match c, f with
    | CNone, Sam => amb = true -> (5 <= Nat.min k BUF_CAP)%nat
    | CNone, _ => (4 <= Nat.min k BUF_CAP)%nat
    | CBgzf, _ => (2 <= Nat.min k BUF_CAP)%nat /\
                  ((4 <= length (avail (gunzip (window s k))))%nat \/ (length s <= Nat.min k BUF_CAP)%nat)
    end.

  Definition window_ok_v (f : vfmt) (c : comp) (s : list N) (k : nat) : Prop :=
    match c, f with
    | CNone, Vcf => True
    | CNone, Bcf => (3 <= Nat.min k BUF_CAP)%nat
    | CBgzf, _ => (2 <= Nat.min k BUF_CAP)%nat /\
                  ((3 <= length (avail (gunzip (window s k))))%nat \/ (length s <= Nat.min k BUF_CAP)%nat)
    end.

  Lemma gz_window : forall p k, (2 <= Nat.min k BUF_CAP)%nat -> exists r, window (bgzf p) k = 31 :: 139 :: r.
  Proof.
    intros p k H. destruct (bgzf_magic p) as [r Hr]. rewrite Hr.
    change (31 :: 139 :: r) with ([31; 139] ++ r). rewrite (window_app_ge [31; 139] r k H).
    eexists. reflexivity.
  Qed.

  Lemma firstn_not_starts : forall (p s : list N), (forall r, s <> p ++ r) -> firstn (length p) s <> p.
  Proof.
    intros p s H X. apply (H (skipn (length p) s)). rewrite <- X at 1. symmetry. apply firstn_skipn.
  Qed.

  (* the bytes read_upto gets out of a window of bgzf p: either the first n bytes of p, or, when
     the window is the whole stream, all of p *)
  Lemma gz_read_upto : forall p k n,
    ((n <= length (avail (gunzip (window (bgzf p) k))))%nat \/ (length (bgzf p) <= Nat.min k BUF_CAP)%nat) ->
    read_upto_infl n (gunzip (window (bgzf p) k)) = Ok (firstn n p).
  Proof.
    intros p k n [H|H].
    - unfold read_upto_infl. replace (n <=? _)%nat with true by (symmetry; apply Nat.leb_le; exact H).
      unfold window in *. destruct (gunzip_prefix p (Nat.min k BUF_CAP)) as [m Hm].
      rewrite Hm in *. rewrite firstn_length in H. rewrite firstn_firstn. do 2 f_equal. lia.
    - rewrite window_full by exact H. rewrite gunzip_whole. unfold read_upto_infl. cbn [avail stop].
      destruct (n <=? length p)%nat eqn:E; [reflexivity|].
      apply Nat.leb_gt in E. rewrite firstn_all2 by lia. reflexivity.
  Qed.

  Theorem detect_written_a_partial : forall f c amb s k,
    written_a f c amb s -> window_ok_a f c amb s k ->
    detect_a (window s k) (gunzip (window s k)) = Ok (f, c).
  Proof.
    intros f c amb s k Hw Hk.
    destruct Hw as [hdr recs Hok|hdr recs Hok|rest|rest|major minor rest Hmaj].
    - destruct (sam_text_not_magic hdr recs Hok) as [A [B [C D]]].
      apply detect_a_sam_none.
      + exact (window_not_starts _ k [31; 139] A).
      + exact (window_not_starts _ k BAM_MAGIC B).
      + intros r Hr. destruct (sam_first_name_cram hdr recs) eqn:Ea.
        * cbn [window_ok_a] in Hk. specialize (Hk eq_refl).
          destruct (firstn_starts _ _ _ _ Hr) as [r0 Hr0]. destruct (D r0 Hr0) as [b [r' [Hb Hc]]]. subst r0.
          rewrite Hr0 in Hr. rewrite (window_app_ge CRAM_MAGIC (b :: r') k) in Hr by (cbn [length CRAM_MAGIC]; lia).
          apply app_inv_head in Hr. cbn [length CRAM_MAGIC] in Hr.
          destruct (Nat.min k BUF_CAP - 4)%nat as [|m] eqn:Em; [lia|].
          cbn [firstn] in Hr. exists b, (firstn m r'). split; [symmetry; exact Hr|exact Hc].
        * exfalso. exact (window_not_starts _ k CRAM_MAGIC (C eq_refl) r Hr).
    - destruct Hk as [H2 H4]. destruct (gz_window (sam_text hdr recs) k H2) as [r Hr].
      rewrite Hr at 1. rewrite detect_a_gz. rewrite (gz_read_upto _ _ 4 H4).
      destruct (sam_text_not_magic hdr recs Hok) as [_ [B _]].
      rewrite eqb_bytes_neq; [reflexivity|]. exact (firstn_not_starts BAM_MAGIC _ B).
    - cbn in Hk. unfold bam_payload. rewrite (window_app_ge BAM_MAGIC rest k Hk). apply detect_a_bam_raw.
    - destruct Hk as [H2 H4]. destruct (gz_window (bam_payload rest) k H2) as [r Hr].
      rewrite Hr at 1. rewrite detect_a_gz. rewrite (gz_read_upto _ _ 4 H4). reflexivity.
    - cbn in Hk. unfold cram_stream. rewrite (window_app_ge CRAM_MAGIC (major :: minor :: rest) k Hk).
      apply detect_a_cram. destruct (Nat.min k BUF_CAP - length CRAM_MAGIC)%nat; cbn [firstn]; [exact I|].
      unfold cram_major_ok in Hmaj. apply negb_true_iff in Hmaj. exact Hmaj.
  Qed.

  Theorem detect_written_v_partial : forall f c s k,
    written_v f c s -> window_ok_v f c s k ->
    detect_v (window s k) (gunzip (window s k)) = Ok (f, c).
  Proof.
    intros f c s k Hw Hk. destruct Hw as [rest|rest|rest|rest].
    - destruct (vcf_text_not_magic rest) as [A B].
      apply detect_v_vcf_none.
      + exact (window_not_starts _ k [31; 139] A).
      + exact (window_not_starts _ k BCF_MAGIC B).
    - destruct Hk as [H2 H3]. destruct (gz_window (vcf_text rest) k H2) as [r Hr].
      rewrite Hr at 1. rewrite detect_v_gz. rewrite (gz_read_upto _ _ 3 H3). reflexivity.
    - cbn in Hk. unfold bcf_payload. rewrite (window_app_ge BCF_MAGIC (2 :: 2 :: rest) k Hk). apply detect_v_bcf_raw.
    - destruct Hk as [H2 H3]. destruct (gz_window (bcf_payload rest) k H2) as [r Hr].
      rewrite Hr at 1. rewrite detect_v_gz. rewrite (gz_read_upto _ _ 3 H3). reflexivity.
  Qed.

  (* when the first read delivers the whole stream (it fits the 8 KiB buffer) no side condition is
     left: every stream of the generic writers, including the empty BGZF-compressed SAM (F13) and
     the header-less SAM whose first read is named CRAM... (F14), is detected as written *)
  Lemma length_bgzf_ge2 : forall p, (2 <= length (bgzf p))%nat.
  Proof. intro p. destruct (bgzf_magic p) as [r Hr]. rewrite Hr. cbn [length]. lia. Qed.

  Lemma sam_text_cram_len : forall hdr recs, forallb sam_line_ok recs = true ->
    sam_first_name_cram hdr recs = true -> (5 <= length (sam_text hdr recs))%nat.
  Proof.
    intros hdr recs Hok Ha. unfold sam_first_name_cram in Ha.
    destruct hdr as [|h hs]; [|discriminate]. destruct recs as [|l recs]; [discriminate|].
    destruct (sl_name l) as [nm|] eqn:En; [|discriminate].
    unfold sam_text. cbn [map concat app]. unfold sam_line_bytes. rewrite En.
    assert (L : (4 <= length nm)%nat).
    { unfold starts_with in Ha. apply eqb_bytes_eq in Ha.
      destruct nm as [|a [|b [|c [|d nm']]]]; try (cbn in Ha; discriminate Ha). cbn [length]. lia. }
    repeat rewrite app_length. cbn [length]. lia.
  Qed.

  Theorem detect_written_whole_a : forall f c amb s k,
    written_a f c amb s -> (length s <= Nat.min k BUF_CAP)%nat ->
    detect_a (window s k) (gunzip (window s k)) = Ok (f, c).
  Proof.
    intros f c amb s k Hw Hlen. apply (detect_written_a_partial f c amb); [exact Hw|].
    destruct Hw as [hdr recs Hok|hdr recs Hok|rest|rest|major minor rest Hmaj]; cbn [window_ok_a].
    - intro Ha. pose proof (sam_text_cram_len hdr recs Hok Ha). lia.
    - pose proof (length_bgzf_ge2 (sam_text hdr recs)). split; [lia|right; exact Hlen].
    - unfold bam_payload in Hlen. rewrite app_length in Hlen. cbn [length BAM_MAGIC] in Hlen. lia.
    - pose proof (length_bgzf_ge2 (bam_payload rest)). split; [lia|right; exact Hlen].
    - unfold cram_stream in Hlen. rewrite app_length in Hlen. cbn [length CRAM_MAGIC] in Hlen. lia.
  Qed.

  Theorem detect_written_whole_v : forall f c s k,
    written_v f c s -> (length s <= Nat.min k BUF_CAP)%nat ->
    detect_v (window s k) (gunzip (window s k)) = Ok (f, c).
  Proof.
    intros f c s k Hw Hlen. apply detect_written_v_partial; [exact Hw|].
    destruct Hw as [rest|rest|rest|rest]; cbn [window_ok_v].
    - exact I.
    - pose proof (length_bgzf_ge2 (vcf_text rest)). split; [lia|right; exact Hlen].
    - unfold bcf_payload in Hlen. rewrite app_length in Hlen. cbn [length BCF_MAGIC] in Hlen. lia.
    - pose proof (length_bgzf_ge2 (bcf_payload rest)). split; [lia|right; exact Hlen].
  Qed.

  (* ---- what still fails: the first read is shorter than the detector needs ---- *)

  (* a first read of one byte: BGZF-compressed anything is taken for uncompressed SAM / VCF *)
  Lemma short_window_gz_refuted : forall p,
    detect_a (window (bgzf p) 1) (gunzip (window (bgzf p) 1)) = Ok (Sam, CNone) /\
    detect_v (window (bgzf p) 1) (gunzip (window (bgzf p) 1)) = Ok (Vcf, CNone).
  Proof.
    intro p. destruct (bgzf_magic p) as [r Hr]. rewrite Hr. unfold window. cbn [Nat.min BUF_CAP].
    change (firstn (Nat.min 1 BUF_CAP) (31 :: 139 :: r)) with [31]. split; reflexivity.
  Qed.
End Deflate.

(* a first read shorter than the magic: raw BAM and CRAM are taken for SAM, raw BCF for VCF; and a
   first read of exactly four bytes of a header-less SAM whose first read is named CRAM... is
   taken for CRAM (what is left of F14) *)
Lemma short_window_raw_refuted :
  (forall rest i, detect_a (window (bam_payload rest) 3) i = Ok (Sam, CNone)) /\
  (forall major minor rest i, detect_a (window (cram_stream major minor rest) 3) i = Ok (Sam, CNone)) /\
  (forall rest i, detect_v (window (bcf_payload rest) 2) i = Ok (Vcf, CNone)) /\
  (forall i, detect_a (window (sam_text [] [mk_sam_line (Some [67; 82; 65; 77; 49]) [52; 9; 42]]) 4) i
             = Ok (Cram, CNone)).
Proof. repeat split; intros; reflexivity. Qed.
