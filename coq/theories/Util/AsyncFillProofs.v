(* C20 -- proofs about NV.Util.AsyncFill: the async builders read ahead the same window as the
   sync builders of HEAD (the first 8 KiB of the stream) for EVERY poll script and every
   sequence of request sizes, hence decide what the sync builders decide; the read-ahead loses
   nothing (prefix ++ what is left in the source = the stream), sync and async. *)
From Coq Require Import List NArith Arith Bool Lia.
From NV Require Import Io.Source Io.ReadExact Io.ReadExactProofs Async.ReadExact Async.ReadExactProofs
                       Util.Detect Util.DetectProofs Util.Fill Util.FillProofs Util.AsyncFill.
Import ListNotations.
Open Scope nat_scope.

Lemma async_prefix_spec : forall req data polls,
  exists s', async_prefix req (mkASource data polls)
             = (firstn BUF_CAP data, (if BUF_CAP <=? length data then Filled else HitEof), s')
             /\ a_data s' = skipn BUF_CAP data.
Proof.
  intros req data polls. unfold async_prefix.
  destruct (drain_loop_spec aread rep_a aread_simulates req
              (a_fuel (mkASource data polls) BUF_CAP) (mkASource data polls) data 0 BUF_CAP []
              (rep_a_mk data polls) (rep_a_fuel _ data 0 BUF_CAP (rep_a_mk data polls)))
    as [s' [m' [E [[HR _] _]]]].
  exists s'. split; [exact E|exact HR].
Qed.

(* the async window: the first 8 KiB of the stream, for every poll script and all request sizes *)
Theorem first_window_async_spec : forall req data polls,
  first_window_async req (mkASource data polls) = WOk (firstn BUF_CAP data).
Proof.
  intros req data polls. unfold first_window_async.
  destruct (async_prefix_spec req data polls) as [s' [E _]]. rewrite E.
  destruct (BUF_CAP <=? length data); reflexivity.
Qed.

(* ... and nothing is lost: Cursor(prefix).chain(reader) delivers the stream *)
Theorem async_chained_spec : forall req data polls,
  async_chained req (mkASource data polls) = data.
Proof.
  intros req data polls. unfold async_chained.
  destruct (async_prefix_spec req data polls) as [s' [E HR]]. rewrite E, HR.
  apply firstn_skipn.
Qed.

Theorem sync_chained_spec : forall src, sync_chained src = s_data src.
Proof.
  intro src. unfold sync_chained.
  assert (HR : rep_src src (s_data src) (n_interrupted (s_script src))) by (split; reflexivity).
  assert (Hf : n_interrupted (s_script src) + BUF_CAP < fill_fuel src).
  { unfold fill_fuel. pose proof (n_interrupted_le (s_script src)). lia. }
  destruct (fill_loop_spec src_read rep_src src_simulates (fill_fuel src) src (s_data src)
              (n_interrupted (s_script src)) BUF_CAP [] HR Hf) as [s' [m' [E [[HD _] _]]]].
  rewrite E. cbn [app]. rewrite HD. apply firstn_skipn.
Qed.

(* async detection = sync detection: any overrides, any stream, any poll script, any request
   sizes, any sync delivery script *)
Theorem build_async_eq_sync_a : forall oc ofm gunzip req s polls sc,
  build_async_a oc ofm gunzip req (mkASource s polls) = build_src_a true oc ofm gunzip (mkSource s sc).
Proof.
  intros oc ofm gunzip req s polls sc. unfold build_async_a, build_src_a, first_window.
  rewrite first_window_async_spec, first_window_fix_spec. reflexivity.
Qed.

Theorem build_async_eq_sync_v : forall oc ofm gunzip req s polls sc,
  build_async_v oc ofm gunzip req (mkASource s polls) = build_src_v true oc ofm gunzip (mkSource s sc).
Proof.
  intros oc ofm gunzip req s polls sc. unfold build_async_v, build_src_v, first_window.
  rewrite first_window_async_spec, first_window_fix_spec. reflexivity.
Qed.

Section Deflate.
  Variable bgzf : list N -> list N.
  Variable gunzip : list N -> inflated.
  Hypothesis bgzf_magic : forall p, exists r, bgzf p = (31 :: 139 :: r)%N.
  Hypothesis gunzip_prefix : forall p m, exists n, avail (gunzip (firstn m (bgzf p))) = firstn n p.
  Hypothesis gunzip_whole : forall p, gunzip (bgzf p) = mk_inflated p None.
  Hypothesis gunzip_window : forall p,
    4 <= length (avail (gunzip (firstn BUF_CAP (bgzf p)))) \/ length (bgzf p) <= BUF_CAP.

  (* every stream of the generic writers is detected as written by the async builders, for every
     poll script *)
  Theorem detect_written_async_a : forall f c amb s req polls,
    written_a bgzf f c amb s ->
    build_async_a None None gunzip req (mkASource s polls) = BOk (f, c).
  Proof.
    intros f c amb s req polls Hw. rewrite (build_async_eq_sync_a None None gunzip req s polls []).
    exact (detect_written_repaired_a bgzf gunzip bgzf_magic gunzip_prefix gunzip_whole gunzip_window
             f c amb s [] Hw).
  Qed.

  Theorem detect_written_async_v : forall f c s req polls,
    written_v bgzf f c s ->
    build_async_v None None gunzip req (mkASource s polls) = BOk (f, c).
  Proof.
    intros f c s req polls Hw. rewrite (build_async_eq_sync_v None None gunzip req s polls []).
    exact (detect_written_repaired_v bgzf gunzip bgzf_magic gunzip_prefix gunzip_whole gunzip_window
             f c s [] Hw).
  Qed.
End Deflate.
