(* C20 -- content preservation of the SAM <-> BAM conversions of NV.Util.Convert, as corollaries
   of C06's record round trip (Sam.RecordProofs.record_roundtrip), C05's codec theorem
   (Bam.AuxProofs.decode_encode) and the data-model bridge of Sam.BamAgree. *)
From Coq Require Import List NArith ZArith Bool Lia.
From Coq Require Import ZifyBool ZifyNat ZifyN.
From NV Require Import Base.Decimal Sam.Fields Sam.FieldsProofs Sam.Record Sam.RecordProofs Sam.BamAgree
                       Util.Convert.
From NV Require Bam.Record Bam.Encode Bam.Decode Bam.CodecProofs Bam.AuxProofs.
Import ListNotations.
Open Scope N_scope.

(* ---- the smallest integer type holds the value; normalisation keeps well-formedness ---- *)
Lemma smallest_range v t : smallest v = Some t -> (ity_lo t <= v <= ity_hi t)%Z.
Proof.
  unfold smallest.
  destruct (4294967295 <? v)%Z eqn:E1; [discriminate|].
  destruct (0 <=? v)%Z eqn:E2.
  - destruct (v <=? 255)%Z eqn:E3; [intro H; inversion H; subst; cbn [ity_lo ity_hi]; lia|].
    destruct (v <=? 65535)%Z eqn:E4; intro H; inversion H; subst; cbn [ity_lo ity_hi]; lia.
  - destruct (-128 <=? v)%Z eqn:E3; [intro H; inversion H; subst; cbn [ity_lo ity_hi]; lia|].
    destruct (-32768 <=? v)%Z eqn:E4; [intro H; inversion H; subst; cbn [ity_lo ity_hi]; lia|].
    destruct (-2147483648 <=? v)%Z eqn:E5; [intro H; inversion H; subst; cbn [ity_lo ity_hi]; lia|discriminate].
Qed.

Lemma wf_aux_norm a : wf_aux a -> wf_aux (norm_aux a).
Proof.
  destruct a as [c|t v|b|s|s|t vs|bs]; cbn [norm_aux wf_aux]; auto.
  intro W. destruct (smallest v) as [t'|] eqn:E; cbn [wf_aux]; [exact (smallest_range v t' E)|exact W].
Qed.

Lemma wf_bits_aux_norm a : wf_bits_aux a -> wf_bits_aux (norm_aux a).
Proof.
  destruct a as [c|t v|b|s|s|t vs|bs]; cbn [norm_aux wf_bits_aux]; auto.
  intros _. destruct (smallest v); exact I.
Qed.

Lemma wf_rec_norm_i r : wf_rec r -> wf_rec (norm_i r).
Proof.
  intros (Wf & Wq & Wc & Wt & Wd & Wn). unfold wf_rec, norm_i.
  cbn [r_flags r_mapq r_cigar r_tlen r_data].
  repeat split; try assumption; try lia.
  - apply Forall_forall. intros f Hf. apply in_map_iff in Hf as (g & <- & Hg). cbn [snd].
    rewrite Forall_forall in Wd. apply wf_aux_norm. exact (Wd g Hg).
  - rewrite map_map. cbn [fst]. exact Wn.
Qed.

Lemma wf_bits_norm_i r : wf_bits r -> wf_bits (norm_i r).
Proof.
  unfold wf_bits, norm_i. cbn [r_data]. intro W.
  apply Forall_forall. intros f Hf. apply in_map_iff in Hf as (g & <- & Hg). cbn [snd].
  rewrite Forall_forall in W. apply wf_bits_aux_norm. exact (W g Hg).
Qed.

(* ---- the lazy record's integer typing: well-formed, and the same values ---- *)
Lemma wf_aux_lazy a : wf_aux a -> wf_aux (lazy_aux a).
Proof.
  destruct a as [c|t v|b|s|s|t vs|bs]; cbn [lazy_aux wf_aux]; auto.
  intro W. unfold lazy_int_ty. destruct (v <=? 2147483647)%Z eqn:E; cbn [ity_lo ity_hi]; destruct t; cbn [ity_lo ity_hi] in W; lia.
Qed.

Lemma wf_bits_aux_lazy a : wf_bits_aux a -> wf_bits_aux (lazy_aux a).
Proof. destruct a; cbn [lazy_aux wf_bits_aux]; auto. Qed.

Lemma wf_rec_lazy_i r : wf_rec r -> wf_rec (lazy_i r).
Proof.
  intros (Wf & Wq & Wc & Wt & Wd & Wn). unfold wf_rec, lazy_i.
  cbn [r_flags r_mapq r_cigar r_tlen r_data].
  repeat split; try assumption; try lia.
  - apply Forall_forall. intros f Hf. apply in_map_iff in Hf as (g & <- & Hg). cbn [snd].
    rewrite Forall_forall in Wd. apply wf_aux_lazy. exact (Wd g Hg).
  - rewrite map_map. cbn [fst]. exact Wn.
Qed.

Lemma wf_bits_lazy_i r : wf_bits r -> wf_bits (lazy_i r).
Proof.
  unfold wf_bits, lazy_i. cbn [r_data]. intro W.
  apply Forall_forall. intros f Hf. apply in_map_iff in Hf as (g & <- & Hg). cbn [snd].
  rewrite Forall_forall in W. apply wf_bits_aux_lazy. exact (W g Hg).
Qed.

Lemma is_int_code_sub t : is_int_code (sub_char t) = true.
Proof. destruct t; reflexivity. Qed.

Lemma vbv_lazy_norm a : wf_aux a ->
  val_by_value (to_bam_val (lazy_aux (norm_aux a))) = val_by_value (to_bam_val a).
Proof.
  destruct a as [c|t v|b|s|s|t vs|bs]; try reflexivity.
  intro W. cbn [wf_aux] in W. destruct (smallest_in_range t v W) as [t' E].
  cbn [norm_aux]. rewrite E. cbn [lazy_aux to_bam_val val_by_value].
  rewrite !is_int_code_sub, E. reflexivity.
Qed.

Lemma norm_lazy_norm a : wf_aux a -> norm_aux (lazy_aux (norm_aux a)) = norm_aux a.
Proof.
  destruct a as [c|t v|b|s|s|t vs|bs]; try reflexivity.
  intro W. cbn [wf_aux] in W. destruct (smallest_in_range t v W) as [t' E].
  cbn [norm_aux]. rewrite E. cbn [lazy_aux norm_aux]. rewrite E. reflexivity.
Qed.

Lemma by_value_lazy r : Forall (fun f => wf_aux (snd f)) (r_data r) ->
  by_value (Bam.CodecProofs.norm (to_bam_d (lazy_i (norm_i r))))
  = by_value (Bam.CodecProofs.norm (to_bam_d r)).
Proof.
  intro W. unfold by_value, Bam.CodecProofs.norm, to_bam_d, lazy_i, norm_i.
  cbn [Bam.Record.r_name Bam.Record.r_flags Bam.Record.r_rid Bam.Record.r_pos Bam.Record.r_mapq
       Bam.Record.r_cigar Bam.Record.r_mrid Bam.Record.r_mpos Bam.Record.r_tlen Bam.Record.r_seq
       Bam.Record.r_qual Bam.Record.r_data
       r_name r_flags r_rid r_pos r_mapq r_cigar r_mrid r_mpos r_tlen r_seq r_qual r_data].
  f_equal. induction (r_data r) as [|[tg a] d IH]; [reflexivity|].
  inversion W as [|? ? Wa Wd]; subst. cbn [snd] in Wa.
  cbn [map filter fst snd to_bam_field].
  destruct (negb (Bam.Record.tag_eqb tg Bam.Record.CG)).
  - cbn [map fst snd]. change (to_bam_field (tg, lazy_aux (norm_aux a))) with (tg, to_bam_val (lazy_aux (norm_aux a))).
    change (to_bam_field (tg, a)) with (tg, to_bam_val a). cbn [fst snd].
    rewrite (vbv_lazy_norm a Wa), (IH Wd). reflexivity.
  - exact (IH Wd).
Qed.

(* ---- BAM data model -> SAM data model inverts to_bam_d ---- *)
Lemma ity_of_code_sub t : ity_of_code (sub_char t) = Some t.
Proof. destruct t; reflexivity. Qed.

Lemma of_bam_val_to a : of_bam_val (to_bam_val a) = Some a.
Proof.
  destruct a as [c|t v|b|s|s|t vs|bs]; cbn [to_bam_val of_bam_val].
  - change (Bam.Record.tyA =? Bam.Record.tyA) with true. cbv iota. rewrite N2Z.id. reflexivity.
  - rewrite ity_of_code_sub. destruct t; reflexivity.
  - change (Bam.Record.tyf =? Bam.Record.tyA) with false.
    change (Bam.Record.tyf =? Bam.Record.tyf) with true. cbv iota. rewrite N2Z.id. reflexivity.
  - reflexivity.
  - reflexivity.
  - rewrite ity_of_code_sub. destruct t; reflexivity.
  - change (Bam.Record.tyf =? Bam.Record.tyf) with true. cbv iota.
    rewrite map_map. f_equal. f_equal. rewrite <- (map_id bs) at 2. apply map_ext. intro x. apply N2Z.id.
Qed.

Definition notCG_s (f : (N * N) * aux) : bool := negb (Bam.Record.tag_eqb (fst f) Bam.Record.CG).

Lemma of_bam_data_filter d :
  of_bam_data (filter Bam.AuxProofs.notCG (map to_bam_field d)) = Some (filter notCG_s d).
Proof.
  induction d as [|[tg a] d IH]; [reflexivity|].
  cbn [map filter]. unfold Bam.AuxProofs.notCG at 1, notCG_s at 1, to_bam_field at 1. cbn [fst snd].
  destruct (negb (Bam.Record.tag_eqb tg Bam.Record.CG)).
  - cbn [of_bam_data]. change (to_bam_field (tg, a)) with (tg, to_bam_val a). cbv beta iota. rewrite of_bam_val_to, IH. reflexivity.
  - exact IH.
Qed.

Lemma pos_of_opt p : pos_of (opt_pos p) = p.
Proof. unfold pos_of, opt_pos. destruct (p =? 0) eqn:E; [lia|reflexivity]. Qed.
Lemma mapq_of_opt q : mapq_of (opt_mapq q) = q.
Proof. unfold mapq_of, opt_mapq. destruct (q =? 255) eqn:E; [lia|reflexivity]. Qed.

Lemma of_bam_norm r : of_bam_d (Bam.CodecProofs.norm (to_bam_d r)) = Some (norm_s r).
Proof.
  unfold of_bam_d, Bam.CodecProofs.norm, to_bam_d.
  cbn [Bam.Record.r_name Bam.Record.r_flags Bam.Record.r_rid Bam.Record.r_pos Bam.Record.r_mapq
       Bam.Record.r_cigar Bam.Record.r_mrid Bam.Record.r_mpos Bam.Record.r_tlen Bam.Record.r_seq
       Bam.Record.r_qual Bam.Record.r_data].
  change (fun p : Bam.Record.tag * Bam.Record.value => negb (Bam.Record.tag_eqb (fst p) Bam.Record.CG))
    with Bam.AuxProofs.notCG.
  rewrite of_bam_data_filter, !pos_of_opt, mapq_of_opt. reflexivity.
Qed.

Lemma wf_rec_norm_s r : wf_rec r -> wf_rec (norm_s r).
Proof.
  intros (Wf & Wq & Wc & Wt & Wd & Wn). unfold wf_rec, norm_s.
  cbn [r_flags r_mapq r_cigar r_tlen r_data].
  repeat split; try assumption; try lia.
  - apply Forall_forall. intros f Hf. apply filter_In in Hf as [Hf _].
    rewrite Forall_forall in Wd. exact (Wd f Hf).
  - clear - Wn. induction (r_data r) as [|[tg a] d IH]; cbn [filter map fst] in *; [constructor|].
    inversion Wn as [|? ? Hn Hd]; subst.
    destruct (negb (Bam.Record.tag_eqb tg Bam.Record.CG)).
    + cbn [map fst]. constructor; [|exact (IH Hd)]. intro Hin. apply Hn.
      apply in_map_iff in Hin as (x & Hx & Hin). apply filter_In in Hin as [Hin _].
      apply in_map_iff. exists x. split; [exact Hx|exact Hin].
    + exact (IH Hd).
Qed.

Lemma to_bam_d_data_wf r : wf_rec r -> wf_bits r ->
  Bam.AuxProofs.wf_data (Bam.Record.r_data (to_bam_d r)).
Proof.
  intros (_ & _ & _ & _ & Wd & _) WB. unfold to_bam_d. cbn [Bam.Record.r_data].
  unfold Bam.AuxProofs.wf_data. apply Forall_forall. intros p Hp.
  apply in_map_iff in Hp as (f & <- & Hf). cbn [to_bam_field snd].
  rewrite Forall_forall in Wd. unfold wf_bits in WB. rewrite Forall_forall in WB.
  apply to_bam_val_wf; [exact (Wd f Hf)|exact (WB f Hf)].
Qed.

Lemma to_bam_d_tags r : wf_rec r -> NoDup (map fst (Bam.Record.r_data (to_bam_d r))).
Proof.
  intros (_ & _ & _ & _ & _ & Wn). unfold to_bam_d. cbn [Bam.Record.r_data].
  rewrite map_map. cbn [to_bam_field fst]. exact Wn.
Qed.

Section FloatOracle.
  Variable fmt32 : N -> bytes.
  Variable fmtd32 : N -> bytes.
  Variable parse32 : bytes -> option N.
  Variable parse32p : bytes -> option (N * bytes).
  Hypothesis H_f : forall b, finite32 b = true -> parse32 (fmt32 b) = Some b.
  Hypothesis H_fc : forall b, PR (fmt32 b).
  Hypothesis H_d : forall b rest, finite32 b = true -> (rest = [] \/ exists r, rest = 44 :: r) ->
                                  parse32p (fmtd32 b ++ rest) = Some (b, rest).
  Hypothesis H_dc : forall b, PR (fmtd32 b).

  (* SAM -> BAM.  The line the SAM writer emits for r is accepted by the generic reader; what the
     BAM writer then emits decodes to a record rb that is r's BAM form up to: integer tags by
     value (by_value on both sides: the lazy SAM record types them Int32/UInt32), bases in BAM's
     alphabet and a user CG field dropped (norm) -- nothing else changes.  The only other
     outcome is a rejection by the BAM encoder. *)
  Theorem convert_sam_bam_preserves refs r t :
    wf_refs refs -> wf_rec r -> wf_bits r -> r_qual r <> [9] ->
    write_record fmt32 fmtd32 refs r = Some t ->
    match convert_sam_bam parse32 parse32p refs t with
    | CvOk out =>
        Bam.Decode.decode out = Bam.Record.Ok (Bam.CodecProofs.norm (to_bam_d (lazy_i (norm_i r))))
        /\ by_value (Bam.CodecProofs.norm (to_bam_d (lazy_i (norm_i r))))
           = by_value (Bam.CodecProofs.norm (to_bam_d r))
    | CvWriteErr =>
        exists e, Bam.Encode.encode (Bam.Record.lenN refs) (to_bam_d (lazy_i (norm_i r))) = Bam.Record.Err e
    | _ => False
    end.
  Proof.
    intros WR W WB NQ HW. unfold convert_sam_bam.
    rewrite (record_roundtrip fmt32 fmtd32 parse32 parse32p H_f H_fc H_d H_dc refs r t WR W HW).
    rewrite (norm_rec_id r (norm_qual_not9 _ NQ)).
    pose proof (wf_rec_lazy_i _ (wf_rec_norm_i r W)) as W2.
    pose proof (wf_bits_lazy_i _ (wf_bits_norm_i r WB)) as WB2.
    destruct (Bam.Encode.encode (Bam.Record.lenN refs) (to_bam_d (lazy_i (norm_i r)))) as [block|e] eqn:E.
    - split.
      + exact (Bam.AuxProofs.decode_encode (Bam.Record.lenN refs) (to_bam_d (lazy_i (norm_i r))) block
                 (to_bam_d_wf _ W2) (to_bam_d_data_wf _ W2 WB2) (to_bam_d_tags _ W2) E).
      + apply by_value_lazy. destruct W as (_ & _ & _ & _ & Wd & _). exact Wd.
    - exists e. reflexivity.
  Qed.

  (* BAM -> SAM.  The block the BAM writer emits for r is accepted by the generic reader; the line
     the SAM writer then emits parses to r with bases in BAM's alphabet and a user CG field
     dropped (norm_s), integer tags in the smallest type (norm_i).  The only other outcome is a
     rejection by the SAM writer. *)
  Theorem convert_bam_sam_preserves refs nref r block :
    wf_refs refs -> wf_rec r -> wf_bits r -> r_qual r <> [9] ->
    Bam.Encode.encode nref (to_bam_d r) = Bam.Record.Ok block ->
    match convert_bam_sam fmt32 fmtd32 refs block with
    | CvOk t => parse_line parse32 parse32p refs t = POk (norm_i (norm_s r))
    | CvWriteErr => write_record fmt32 fmtd32 refs (norm_s r) = None
    | _ => False
    end.
  Proof.
    intros WR W WB NQ HE. unfold convert_bam_sam.
    rewrite (Bam.AuxProofs.decode_encode nref (to_bam_d r) block (to_bam_d_wf _ W)
               (to_bam_d_data_wf _ W WB) (to_bam_d_tags _ W) HE).
    rewrite of_bam_norm.
    destruct (write_record fmt32 fmtd32 refs (norm_s r)) as [t|] eqn:E; [|reflexivity].
    rewrite (record_roundtrip fmt32 fmtd32 parse32 parse32p H_f H_fc H_d H_dc refs (norm_s r) t WR
               (wf_rec_norm_s r W) E).
    f_equal. apply norm_rec_id. apply norm_qual_not9. exact NQ.
  Qed.

  (* the round trip SAM -> BAM -> SAM of a line the SAM writer emitted *)
  Theorem convert_sam_bam_sam refs r t out :
    wf_refs refs -> wf_rec r -> wf_bits r -> r_qual r <> [9] ->
    write_record fmt32 fmtd32 refs r = Some t ->
    convert_sam_bam parse32 parse32p refs t = CvOk out ->
    match convert_bam_sam fmt32 fmtd32 refs out with
    | CvOk t' => parse_line parse32 parse32p refs t' = POk (norm_i (norm_s r))
    | CvWriteErr => write_record fmt32 fmtd32 refs (norm_s (lazy_i (norm_i r))) = None
    | _ => False
    end.
  Proof.
    intros WR W WB NQ HW HC. unfold convert_sam_bam in HC.
    rewrite (record_roundtrip fmt32 fmtd32 parse32 parse32p H_f H_fc H_d H_dc refs r t WR W HW) in HC.
    rewrite (norm_rec_id r (norm_qual_not9 _ NQ)) in HC.
    destruct (Bam.Encode.encode (Bam.Record.lenN refs) (to_bam_d (lazy_i (norm_i r)))) as [block|e] eqn:E;
      [|discriminate HC].
    inversion HC; subst out.
    pose proof (convert_bam_sam_preserves refs (Bam.Record.lenN refs) (lazy_i (norm_i r)) block WR
                  (wf_rec_lazy_i _ (wf_rec_norm_i r W)) (wf_bits_lazy_i _ (wf_bits_norm_i r WB)) NQ E) as H.
    destruct (convert_bam_sam fmt32 fmtd32 refs block) as [t'| | | | |]; try exact H.
    rewrite H. f_equal.
    (* norm_i (norm_s (lazy_i (norm_i r))) = norm_i (norm_s r) *)
    destruct W as (_ & _ & _ & _ & Wd & _).
    unfold norm_i, norm_s, lazy_i. cbn [r_name r_flags r_rid r_pos r_mapq r_cigar r_mrid r_mpos r_tlen r_seq r_qual r_data].
    f_equal. induction (r_data r) as [|[tg a] d IH]; [reflexivity|].
    inversion Wd as [|? ? Wa Wd']; subst. cbn [snd] in Wa.
    cbn [map filter fst snd]. destruct (negb (Bam.Record.tag_eqb tg Bam.Record.CG)).
    - cbn [map fst snd]. rewrite (IH Wd'), (norm_lazy_norm a Wa). reflexivity.
    - exact (IH Wd').
  Qed.
End FloatOracle.
