(* C20 -- VCF -> BCF for a whole file WITH the header block: the lookup tables and the string maps
   are derived from the header (C09's hctx_of_header, C10's maps_of_header), the produced stream is
   read by C10's BCF FILE reader (header block + record loop).  Composed from C09's header / file
   theorems, C10's prefix_roundtrip and this property's record-section theorem.  Read-only imports. *)
From Coq Require Import List NArith ZArith Bool Lia.
From NV Require Import Text.TextBase Vcf.Values Vcf.Span Vcf.Line Vcf.LineProofs Vcf.Header Vcf.HeaderProofs
                       Vcf.HdrFrameProofs Vcf.File.
From NV Require Vcf.FileProofs.
From NV Require Import Bcf.Ints Bcf.Typed Bcf.StringMap Bcf.StringMapProofs Bcf.Record Bcf.RecordTyped
                       Bcf.Bridge Bcf.BridgeProofs Bcf.ColumnProofs Bcf.File Bcf.FileProofs.
From NV Require Import Util.ConvertVariant Util.ConvertVariantProofs Util.ConvertVariantHdr.
Import ListNotations.
Open Scope N_scope.

(* the loop of this property's record-section theorem (bcf_read_all) is the BCF file reader's loop
   with ONE reused RecordBuf (C10's read_eager) *)
Lemma read_eager_of_read_all : forall k s c h bs rs,
  bcf_read_all k s c h bs = Some rs ->
  forall fuel prev, (length bs < fuel)%nat -> read_eager fuel s c h prev bs = (rs, EndEof).
Proof.
  induction k as [|k IH]; intros s c h bs rs H fuel prev Hf; [discriminate H|].
  destruct fuel as [|f]; [lia|].
  cbn [bcf_read_all] in H. destruct bs as [|x y].
  - inversion H; subst. reflexivity.
  - destruct (dec_frame (x :: y)) as [[[sb ib] rest]|] eqn:Fr; [|discriminate H].
    destruct (bcf_read s c h (x :: y)) as [r| |] eqn:Er; try discriminate H.
    destruct (bcf_read_all k s c h rest) as [rs'|] eqn:Ea; [|discriminate H].
    inversion H; subst rs. clear H.
    assert (Hne : dec_frame (x :: y) <> None) by (rewrite Fr; discriminate).
    cbn [read_eager]. rewrite (frame_not_end _ Hne), Fr, reused_recordbuf_independent, Er.
    pose proof (dec_frame_length _ _ _ _ Fr) as Hl.
    rewrite (IH s c h rest rs' Ea f r) by lia. reflexivity.
Qed.

Section FloatHdr.
  Variable fmt_float : N -> list N.
  Variable prs_float : list N -> option N.
  Variable FOK : N -> Prop.
  Hypothesis F1 : forall b, FOK b -> prs_float (fmt_float b) = Some b.
  Hypothesis F2 : forall b x, FOK b -> In x (fmt_float b) -> (x <> 44 /\ x <> 9 /\ x <> 10 /\ x <> 59 /\ x <> 58)%N.
  Hypothesis F3 : forall b, FOK b -> fmt_float b <> Values.dot.
  Hypothesis F4 : forall b, FOK b -> fmt_float b <> [].

  (* THE FILE WITH ITS HEADER, from the parsed header value: the BCF writer accepts the header
     (write_prefix: the string maps build, no NUL in the text, l_text fits u32); every record is in
     the conversion's domain UNDER THE TABLES AND MAPS OF THAT HEADER.  Then the conversion succeeds
     and the BCF file reader reads the produced stream as the same header and, to its clean end, as
     many records with the content of the source records. *)
  Theorem convert_vcf_bcf_hdr_preserves : forall hd p rs ts,
    header_ok hd -> hdr_defs_ok hd = true -> hdr_vals_framed hd ->
    write_prefix hd = Some p ->
    (forall s c, maps_of_header hd = Some (s, c) ->
       Forall2 (conv_rec_ok fmt_float FOK (ff_ge45 (hh_ff hd)) s c (hctx_of_header hd)) rs ts) ->
    exists out backs,
      convert_vcf_bcf_hdr prs_float hd ts = HvOk out /\
      bcf_read_file out = FOk (hd, (backs, EndEof)) /\
      map (content (h_v44 (hctx_of_header hd))) backs = map (content (h_v44 (hctx_of_header hd))) rs.
  Proof.
    intros hd p rs ts Hok Hd Hfr Ep Hrs.
    unfold convert_vcf_bcf_hdr. rewrite Ep.
    destruct (maps_of_header hd) as [[s c]|] eqn:Em.
    2:{ unfold write_prefix in Ep. rewrite Em in Ep. discriminate Ep. }
    destruct (maps_of_header_wf hd s c Em) as [Ws Wc].
    destruct (convert_vcf_bcf_lines_preserve fmt_float prs_float FOK F1 F2 F3 F4
                (ff_ge45 (hh_ff hd)) s c (hctx_of_header hd) rs ts Ws Wc (Hrs s c eq_refl) 0%nat)
      as (body & backs & Ec & Er & Emap).
    rewrite Ec. exists (p ++ body), backs. split; [reflexivity|]. split; [|exact Emap].
    destruct (prefix_roundtrip hd p body Hok Hd Hfr Ep) as (s' & c' & Em' & Hp).
    rewrite Em in Em'. inversion Em'; subst s' c'. clear Em'.
    unfold bcf_read_file. rewrite Hp. f_equal. f_equal.
    apply (read_eager_of_read_all (S (length body))); [apply Er; lia|unfold file_fuel; lia].
  Qed.

  (* ... and from the BYTES of the header text the VCF writer emits for hd: the VCF reader's header
     parse is inside the model (C09's read_header_text) *)
  Theorem convert_vcf_bcf_hfile_preserves : forall hd ls p rs ts,
    header_ok hd -> hdr_defs_ok hd = true -> hdr_vals_framed hd ->
    write_header hd = Some ls -> write_prefix hd = Some p ->
    (forall s c, maps_of_header hd = Some (s, c) ->
       Forall2 (conv_rec_ok fmt_float FOK (ff_ge45 (hh_ff hd)) s c (hctx_of_header hd)) rs ts) ->
    exists out backs,
      convert_vcf_bcf_hfile prs_float (with_lf ls) ts = HvOk out /\
      bcf_read_file out = FOk (hd, (backs, EndEof)) /\
      map (content (h_v44 (hctx_of_header hd))) backs = map (content (h_v44 (hctx_of_header hd))) rs.
  Proof.
    intros hd ls p rs ts Hok Hd Hfr Eh Ep Hrs.
    assert (Hhf : Vcf.FileProofs.header_framed hd).
    { intros ls' E'. apply (header_framed_of_values hd ls' Hfr E'). }
    assert (Hw : write_file fmt_float hd [] = Some (with_lf ls)).
    { unfold write_file. rewrite Eh. cbn. rewrite app_nil_r. reflexivity. }
    (* C09's file theorem for the data set without records: its float premises are vacuous *)
    destruct (Vcf.FileProofs.file_roundtrip fmt_float prs_float (fun _ => False)
                (fun _ F => False_ind _ F) (fun _ _ F => False_ind _ F) (fun _ F => False_ind _ F)
                (fun _ F => False_ind _ F) (fun _ _ F => False_ind _ F) (fun _ => true) hd []
                (with_lf ls) Hok Hd Hhf (Forall_nil _) I (fun _ _ => eq_refl) Hw) as [_ Hl].
    unfold read_file_lazy in Hl. unfold convert_vcf_bcf_hfile.
    destruct (read_header_text (with_lf ls)) as [[hd'|] rest] eqn:Et; [|discriminate Hl].
    inversion Hl; subst hd'.
    apply (convert_vcf_bcf_hdr_preserves hd p rs ts Hok Hd Hfr Ep Hrs).
  Qed.
End FloatHdr.
