(* C20 -- conversions through the generic readers and writers, one record at a time.

   SAM -> BAM   alignment::io::Reader over SAM text hands the lazy sam::Record of a line to
                alignment::io::Writer (BAM): bam::io::Writer::write_alignment_record encodes it
                through the sam::alignment::Record trait.
                Model: C06's eager line parser [Sam.Record.parse_line] (= the lazy record on every
                line it accepts: c06_lazy_eq_eager), the RecordBuf -> BAM data model map
                [Sam.BamAgree.to_bam_d] (integer fields typed as the lazy record types them:
                [lazy_i]), C05's encoder [Bam.Encode.encode] (block_size ++ block).
   BAM -> SAM   the lazy bam::Record of a block is handed to sam::io::Writer::write_alignment_record.
                Model: C05's decoder [Bam.Decode.decode], the inverse data model map [of_bam_d],
                C06's line writer [Sam.Record.write_record].

   The reference dictionary is the list of names [refs] (the @SQ lines / the BAM dictionary; the
   BAM encoder checks reference ids against its length).  Float text is C06's oracle
   (fmt32 / fmtd32 / parse32 / parse32p).  Definitions only. *)
From Coq Require Import List NArith ZArith Bool.
From NV Require Import Base.Decimal Sam.Fields Sam.Record Sam.BamAgree.
From NV Require Bam.Record Bam.Encode Bam.Decode.
Import ListNotations.
Open Scope N_scope.

Inductive cvres :=
| CvOk (out : bytes)        (* what the target writer emitted for the record *)
| CvReadErr (col : N)       (* the source reader rejected the record (SAM: the column) *)
| CvEof
| CvDecodeErr (e : Bam.Record.err)
| CvForeign                 (* a BAM value with a type code outside the data model *)
| CvWriteErr.               (* the target writer rejected the record *)

(* The lazy sam::Record types an `i` field as Int32, or UInt32 when the value does not fit
   (noodles-sam/src/record/data/field/value/integer.rs::parse_integer_value) -- the eager
   RecordBuf reader, C06's parse_line, picks the smallest type; the value is the same. *)
Definition lazy_int_ty (v : Z) : ity := if (v <=? 2147483647)%Z then I32 else U32.
Definition lazy_aux (a : aux) : aux :=
  match a with AInt _ v => AInt (lazy_int_ty v) v | _ => a end.
Definition lazy_i (r : sam_rec) : sam_rec :=
  mkRec (r_name r) (r_flags r) (r_rid r) (r_pos r) (r_mapq r) (r_cigar r) (r_mrid r) (r_mpos r)
        (r_tlen r) (r_seq r) (r_qual r) (map (fun f => (fst f, lazy_aux (snd f))) (r_data r)).

Definition convert_sam_bam (parse32 : bytes -> option N) (parse32p : bytes -> option (N * bytes))
    (refs : list bytes) (t : bytes) : cvres :=
  match parse_line parse32 parse32p refs t with
  | POk rs =>
      match Bam.Encode.encode (Bam.Record.lenN refs) (to_bam_d (lazy_i rs)) with
      | Bam.Record.Ok block => CvOk block
      | Bam.Record.Err _ => CvWriteErr
      end
  | PErr c => CvReadErr c
  | PEof => CvEof
  end.

(* ---- BAM data model -> SAM data model (inverse of to_bam_d) ---- *)
Definition ity_of_code (ty : N) : option ity :=
  if ty =? 99 then Some I8 else if ty =? 67 then Some U8 else
  if ty =? 115 then Some I16 else if ty =? 83 then Some U16 else
  if ty =? 105 then Some I32 else if ty =? 73 then Some U32 else None.

Definition of_bam_val (v : Bam.Record.value) : option aux :=
  match v with
  | Bam.Record.VNum ty z =>
      if ty =? Bam.Record.tyA then Some (AChar (Z.to_N z))
      else if ty =? Bam.Record.tyf then Some (AFloat (Z.to_N z))
      else match ity_of_code ty with Some t => Some (AInt t z) | None => None end
  | Bam.Record.VStr ty s =>
      if ty =? Bam.Record.tyZ then Some (AStr s)
      else if ty =? Bam.Record.tyH then Some (AHex s) else None
  | Bam.Record.VArr ty vs =>
      if ty =? Bam.Record.tyf then Some (AArrF (map Z.to_N vs))
      else match ity_of_code ty with Some t => Some (AArrI t vs) | None => None end
  end.

Fixpoint of_bam_data (d : list (Bam.Record.tag * Bam.Record.value)) : option (list ((N * N) * aux)) :=
  match d with
  | [] => Some []
  | (tg, v) :: r =>
      match of_bam_val v, of_bam_data r with
      | Some a, Some r' => Some ((tg, a) :: r')
      | _, _ => None
      end
  end.

Definition pos_of (p : option N) : N := match p with Some x => x | None => 0 end.
Definition mapq_of (q : option N) : N := match q with Some x => x | None => 255 end.

Definition of_bam_d (b : Bam.Record.record) : option sam_rec :=
  match of_bam_data (Bam.Record.r_data b) with
  | Some d =>
      Some (mkRec (Bam.Record.r_name b) (Bam.Record.r_flags b) (Bam.Record.r_rid b)
                  (pos_of (Bam.Record.r_pos b)) (mapq_of (Bam.Record.r_mapq b)) (Bam.Record.r_cigar b)
                  (Bam.Record.r_mrid b) (pos_of (Bam.Record.r_mpos b)) (Bam.Record.r_tlen b)
                  (Bam.Record.r_seq b) (Bam.Record.r_qual b) d)
  | None => None
  end.

Definition convert_bam_sam (fmt32 fmtd32 : N -> bytes) (refs : list bytes) (block : bytes) : cvres :=
  match Bam.Decode.decode block with
  | Bam.Record.Ok rb =>
      match of_bam_d rb with
      | Some rs =>
          match write_record fmt32 fmtd32 refs rs with
          | Some t => CvOk t
          | None => CvWriteErr
          end
      | None => CvForeign
      end
  | Bam.Record.Err e => CvDecodeErr e
  end.

(* what a record looks like after a trip through BAM, on the SAM data model: bases in BAM's
   16-letter alphabet, a user CG field dropped (= Bam.CodecProofs.norm) *)
Definition norm_s (r : sam_rec) : sam_rec :=
  mkRec (r_name r) (r_flags r) (r_rid r) (r_pos r) (r_mapq r) (r_cigar r) (r_mrid r) (r_mpos r)
        (r_tlen r) (map (fun b => Bam.Decode.nth_base (Bam.Encode.encode_base b)) (r_seq r)) (r_qual r)
        (filter (fun f => negb (Bam.Record.tag_eqb (fst f) Bam.Record.CG)) (r_data r)).
