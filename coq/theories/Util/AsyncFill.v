(* C20 -- the async reader builders of noodles-util over a source with a poll script.

   noodles-util/src/{alignment,variant}/async/io/reader/builder.rs::build_from_reader (HEAD, after
   5c79ec5):

       if self.compression_method.is_none() || self.format.is_none() {
           (&mut reader).take(DETECTION_WINDOW_SIZE as u64).read_to_end(&mut prefix).await?;
       }
       detect_compression_method(&mut &prefix[..])      // the SYNC detectors, on the prefix
       detect_format(&mut &prefix[..], c)
       BufReader::new(std::io::Cursor::new(prefix).chain(reader))
       match (format, compression_method) { ... }       // the same table as the sync builder

   The source is C16's [asource] (NV.Async.ReadExact: data + poll script, one event per poll_read:
   Pending, or Ready with at most k bytes; harness/src/shared/c16_adversary.rs::AdvReader) and
   `read(buf).await` is C16's [aread].  tokio's take(n).read_to_end is C16's [drain_loop]: reads
   of ANY sizes [req] between 1 and what the limit still allows, until n bytes have arrived or a
   read returns 0 bytes.  (tokio does not retry ErrorKind::Interrupted; [aread] never produces
   it.  A source that fails is outside this model: the builder hands the error through.)

   The sync builder of HEAD is [NV.Util.Fill.build_src_a true] (read_prefix = take + read_to_end
   of std).  Definitions only. *)
From Coq Require Import List NArith Arith Bool.
From NV Require Import Io.Source Io.ReadExact Async.ReadExact Util.Detect Util.Fill.
Import ListNotations.
Open Scope nat_scope.

(* the prefix read ahead and the state of the source afterwards *)
Definition async_prefix (req : nat -> nat) (src : asource) : list N * fill_end * asource :=
  drain_loop aread req (a_fuel src BUF_CAP) src BUF_CAP [].

Definition first_window_async (req : nat -> nat) (src : asource) : wres :=
  match async_prefix req src with
  | (_, OutOfFuel, _) => WNoFuel
  | (prefix, _, _) => WOk prefix
  end.

(* what the format reader is given afterwards: Cursor(prefix).chain(reader) *)
Definition async_chained (req : nat -> nat) (src : asource) : list N :=
  match async_prefix req src with
  | (prefix, _, s') => prefix ++ a_data s'
  end.

Definition build_async_a (oc : option comp) (ofm : option afmt)
    (gunzip : list N -> inflated) (req : nat -> nat) (src : asource) : bres (afmt * comp) :=
  match oc, ofm with
  | Some _, Some _ => lift_res (build_a oc ofm [] (gunzip []))
  | _, _ =>
      match first_window_async req src with
      | WOk w => lift_res (build_a oc ofm w (gunzip w))
      | WInterrupted => BInterrupted
      | WNoFuel => BNoFuel
      end
  end.

Definition build_async_v (oc : option comp) (ofm : option vfmt)
    (gunzip : list N -> inflated) (req : nat -> nat) (src : asource) : bres (vfmt * comp) :=
  match oc, ofm with
  | Some _, Some _ => lift_res (build_v oc ofm [] (gunzip []))
  | _, _ =>
      match first_window_async req src with
      | WOk w => lift_res (build_v oc ofm w (gunzip w))
      | WInterrupted => BInterrupted
      | WNoFuel => BNoFuel
      end
  end.

(* the same for the sync builder of HEAD: what Cursor(prefix).chain(reader) then delivers *)
Definition sync_chained (src : source) : list N :=
  match fill_loop src_read (fill_fuel src) src BUF_CAP [] with
  | (prefix, _, s') => prefix ++ s_data s'
  end.

(* entry points of the correspondence driver: poll codes as in NV.Async.ReadExact.polls_of
   (0 = Pending, S k = Ready with at most k bytes); [chunk] = the size read_to_end asks for *)
Definition async_window_case (codes : list nat) (chunk : nat) (data : list N) : wres * list N :=
  let src := mkASource data (polls_of codes) in
  (first_window_async (fun _ => chunk) src, async_chained (fun _ => chunk) src).
