(* C20 -- whole files through the generic alignment reader and writer of noodles-util.

   SAM -> BAM   the input is the WHOLE SAM TEXT: alignment::io::Reader (SAM) = C06's reader from
                bytes (Sam.File.read_file: read_header through the header adapter, which consumes the
                leading '@' lines, then read_record per line until Ok(0)); the lazy records are handed
                to alignment::io::Writer (BAM) = C05's Bam.File.write_file (write_header, then
                write_alignment_record per record).  The split of the text into header and lines is
                no longer an input (cf. Util.ConvertFile.convert_sam_bam_file).
   BAM -> SAM   the input is the WHOLE UNCOMPRESSED BAM STREAM: C05's Bam.File.read_file (read_header,
                then the records until Ok(0)); each record goes through the inverse data-model map
                Convert.of_bam_d and the whole set to C06's Sam.File.write_file.
   BGZF         the BAM side wrapped in C01's bgzf::io::Writer (one write_all of the stream, finish)
                / read through bgzf::io::Reader::read_to_end, generic in the DEFLATE codec; the
                instances with the executable stored-block codec have no parameter left.

   The conversion is modelled by its result: the output of a run that ends in an error is not
   kept (the real writers have emitted the records before the failing one).  Definitions only. *)
From Coq Require Import List NArith ZArith Bool.
From NV Require Import Base.Decimal Sam.Fields Sam.Record Sam.Header Sam.BamAgree Util.Convert Util.ConvertFile.
From NV Require Sam.File Bam.Record Bam.File.
From NV Require Bgzf.Frame Bgzf.Writer Bgzf.Reader Bgzf.Inflate.
Import ListNotations.
Open Scope N_scope.

(* ---- BAM -> SAM results ---- *)
Inductive cvbres :=
| CbOk (text : bytes)                        (* what the SAM writer emitted *)
| CbBgzfErr                                  (* the BGZF reader failed *)
| CbHeaderErr (e : Bam.Record.err)           (* the BAM header reader rejected the stream *)
| CbReadErr (i : nat) (e : Bam.Record.err)   (* record i was rejected by the BAM reader *)
| CbNoFuel                                   (* never: Bam.FileProofs.read_file_fuel *)
| CbForeign (i : nat)                        (* record i holds a value outside the data model *)
| CbWriteErr.                                (* the SAM writer rejected the header or a record *)

(* the lazy bam::Record of every block seen through the sam::alignment::Record trait *)
Fixpoint of_bam_all (i : nat) (bs : list Bam.Record.record) : nat + list sam_rec :=
  match bs with
  | [] => inr []
  | b :: rest =>
      match of_bam_d b with
      | None => inl i
      | Some r => match of_bam_all (S i) rest with inr rs => inr (r :: rs) | inl e => inl e end
      end
  end.

(* ---- the BGZF layer, generic in the codec ---- *)
Definition bgzf_wrap (deflate : N -> list N -> list N) (lvl : N) (bs : bytes) : bytes :=
  Bgzf.Writer.o_sink (Bgzf.Writer.run_script deflate lvl [Bgzf.Writer.OWriteAll bs] Bgzf.Writer.EFinish).

Definition bgzf_unwrap (inflate : list N -> N -> option (list N)) (file : bytes) : option bytes :=
  match Bgzf.Reader.reader_read_to_end inflate file with
  | (un, Bgzf.Frame.Ok _) => Some un
  | _ => None
  end.

Section FloatOracle.
  Variable fmt32 : N -> bytes.
  Variable fmtd32 : N -> bytes.
  Variable parse32 : bytes -> option N.
  Variable parse32p : bytes -> option (N * bytes).

  (* (a) SAM text -> uncompressed BAM stream *)
  Definition convert_sam_bam_bytes (t : bytes) : cvfres :=
    match Sam.File.read_file parse32 parse32p t with
    | None => CfHeaderErr
    | Some (h, (rs, Sam.File.FEof)) =>
        match Bam.File.write_file h (map (fun r => to_bam_d (lazy_i r)) rs) with
        | Bam.Record.Ok file => CfOk file
        | Bam.Record.Err _ => CfWriteErr
        end
    | Some (h, (rs, _)) => CfReadErr (length rs)
    end.

  (* (b) uncompressed BAM stream -> SAM text *)
  Definition convert_bam_sam_file (file : bytes) : cvbres :=
    match Bam.File.read_file file with
    | Bam.Record.Err e => CbHeaderErr e
    | Bam.Record.Ok (h, (bs, Bam.File.EndEof)) =>
        match of_bam_all 0 bs with
        | inl i => CbForeign i
        | inr rs =>
            match Sam.File.write_file fmt32 fmtd32 h rs with
            | Some text => CbOk text
            | None => CbWriteErr
            end
        end
    | Bam.Record.Ok (h, (bs, Bam.File.EndErr e)) => CbReadErr (length bs) e
    | Bam.Record.Ok (h, (bs, Bam.File.EndNoFuel)) => CbNoFuel
    end.

  (* (d) SAM text -> BAM -> SAM text *)
  Definition convert_sam_bam_sam_bytes (t : bytes) : option cvbres :=
    match convert_sam_bam_bytes t with
    | CfOk file => Some (convert_bam_sam_file file)
    | _ => None
    end.

  (* (c) the same with the BAM side behind BGZF *)
  Section Codec.
    Variable deflate : N -> list N -> list N.
    Variable inflate : list N -> N -> option (list N).
    Variable lvl : N.

    Definition convert_sam_bam_bgzf (t : bytes) : cvfres :=
      match convert_sam_bam_bytes t with
      | CfOk file => CfOk (bgzf_wrap deflate lvl file)
      | r => r
      end.

    Definition convert_bam_sam_bgzf (file : bytes) : cvbres :=
      match bgzf_unwrap inflate file with
      | None => CbBgzfErr
      | Some bs => convert_bam_sam_file bs
      end.
  End Codec.

  (* the executable instances: stored-block compressor, C01's inflater *)
  Definition convert_sam_bam_bgzf_l0 (t : bytes) : cvfres :=
    convert_sam_bam_bgzf Bgzf.Inflate.deflate_l0 0 t.
  Definition convert_bam_sam_bgzf_l0 (file : bytes) : cvbres :=
    convert_bam_sam_bgzf Bgzf.Inflate.inflate file.
End FloatOracle.

(* what a BGZF file looks like to bgzf::io::Reader block by block: the ISIZE of every block in
   order, the EOF block (0) included -- the observation the correspondence check compares (the
   compressed bytes themselves depend on the DEFLATE implementation) *)
Definition bgzf_block_sizes (inflate : list N -> N -> option (list N)) (file : bytes) : list N :=
  map (fun d => N.of_nat (length d)) (fst (Bgzf.Reader.read_blocks inflate (S (length file)) file)).
