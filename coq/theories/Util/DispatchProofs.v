(* C20 -- proofs about NV.Util.Dispatch. *)
From Coq Require Import List NArith Bool Arith Lia.
From NV Require Import Io.Source Util.Detect Util.DetectProofs Util.Fill Util.FillProofs Util.Dispatch.
Import ListNotations.
Open Scope N_scope.

(* ------------------------------------------------------------------------------------------ *)
(* std::path *)

Definition no_dot (s : list N) : Prop := forall b, In b s -> b <> 46.

Lemma split_last_dot_no_dot : forall s, no_dot s -> split_last_dot s = None.
Proof.
  induction s as [|x s IH]; intro H; [reflexivity|].
  cbn [split_last_dot]. rewrite IH by (intros b Hb; apply H; right; exact Hb).
  destruct (N.eqb_spec x 46) as [E|E]; [|reflexivity].
  exfalso. apply (H x); [left; reflexivity|exact E].
Qed.

Lemma split_last_dot_app : forall stem ext, no_dot ext ->
  split_last_dot (stem ++ 46 :: ext) = Some (stem, ext).
Proof.
  induction stem as [|x stem IH]; intros ext H.
  - cbn [app split_last_dot]. rewrite (split_last_dot_no_dot ext H). reflexivity.
  - cbn [app split_last_dot]. rewrite (IH ext H). reflexivity.
Qed.

(* <stem>.<ext> with a non-empty stem (which may contain dots) and a non-empty extension without
   dots splits as expected *)
Lemma path_split_app : forall stem ext, stem <> [] -> ext <> [] -> no_dot ext ->
  path_split (stem ++ 46 :: ext) = (stem, Some ext).
Proof.
  intros stem ext Hs He Hd. unfold path_split.
  assert (E : eqb_bytes (stem ++ 46 :: ext) [46; 46] = false).
  { apply eqb_bytes_neq. intro X. destruct stem as [|a stem]; [congruence|].
    destruct stem as [|b stem].
    - cbn [app] in X. injection X as _ X. destruct ext; [congruence|discriminate X].
    - cbn [app] in X. injection X as _ _ X. destruct stem; discriminate X. }
  rewrite E. rewrite (split_last_dot_app stem ext Hd).
  destruct stem; [congruence|reflexivity].
Qed.

Lemma extension_app : forall stem ext, stem <> [] -> ext <> [] -> no_dot ext ->
  extension (stem ++ 46 :: ext) = Some ext /\ file_stem (stem ++ 46 :: ext) = stem.
Proof.
  intros stem ext Hs He Hd. unfold extension, file_stem. rewrite (path_split_app stem ext Hs He Hd).
  split; reflexivity.
Qed.

Lemma ends_with_app : forall p suf, ends_with suf (p ++ suf) = true.
Proof.
  intros p suf. unfold ends_with. rewrite app_length.
  replace (length suf <=? length p + length suf)%nat with true by (symmetry; apply Nat.leb_le; lia).
  replace (length p + length suf - length suf)%nat with (length p) by lia.
  rewrite skipn_app, skipn_all, Nat.sub_diag. cbn [app skipn andb].
  apply eqb_bytes_eq. reflexivity.
Qed.

Ltac no_dot_tac := intros b Hb; cbn [In] in Hb;
  repeat (destruct Hb as [Hb|Hb]; [subst b; discriminate|]); contradiction.

(* the conventional file names select the conventional writer, whatever the stem (non-empty; it
   may contain dots and slashes do not occur in a final component) *)
Theorem conventional_names_a : forall a stem, stem <> [] ->
  build_writer_path_a a None None (stem ++ 46 :: X_SAM) = Ok KSam /\
  build_writer_path_a a None None (stem ++ 46 :: X_BAM) = Ok KBam /\
  build_writer_path_a a None None (stem ++ 46 :: X_CRAM) = Ok KCram /\
  build_writer_path_a a None None ((stem ++ 46 :: X_SAM) ++ 46 :: X_GZ) = Ok KSamGz /\
  build_writer_path_a a None None ((stem ++ 46 :: X_SAM) ++ 46 :: X_BGZ) = Ok KSamGz.
Proof.
  intros a stem Hs.
  assert (Hs2 : stem ++ 46 :: X_SAM <> []) by (destruct stem; discriminate).
  repeat split; unfold build_writer_path_a, path_comp_a, path_format_a.
  - destruct (extension_app stem X_SAM Hs ltac:(discriminate) ltac:(no_dot_tac)) as [E F].
    rewrite E. reflexivity.
  - destruct (extension_app stem X_BAM Hs ltac:(discriminate) ltac:(no_dot_tac)) as [E F].
    rewrite E. reflexivity.
  - destruct (extension_app stem X_CRAM Hs ltac:(discriminate) ltac:(no_dot_tac)) as [E F].
    rewrite E. reflexivity.
  - destruct (extension_app (stem ++ 46 :: X_SAM) X_GZ Hs2 ltac:(discriminate) ltac:(no_dot_tac)) as [E F].
    rewrite E, F. change (stem ++ 46 :: X_SAM) with (stem ++ [46] ++ X_SAM).
    rewrite app_assoc, ends_with_app. reflexivity.
  - destruct (extension_app (stem ++ 46 :: X_SAM) X_BGZ Hs2 ltac:(discriminate) ltac:(no_dot_tac)) as [E F].
    rewrite E, F. change (stem ++ 46 :: X_SAM) with (stem ++ [46] ++ X_SAM).
    rewrite app_assoc, ends_with_app. reflexivity.
Qed.

Theorem conventional_names_v : forall stem, stem <> [] ->
  build_writer_path_v None None (stem ++ 46 :: X_VCF) = KVcf /\
  build_writer_path_v None None (stem ++ 46 :: X_BCF) = KBcf /\
  build_writer_path_v None None ((stem ++ 46 :: X_VCF) ++ 46 :: X_GZ) = KVcfGz /\
  build_writer_path_v None None ((stem ++ 46 :: X_VCF) ++ 46 :: X_BGZ) = KVcfGz.
Proof.
  intros stem Hs.
  assert (Hs2 : stem ++ 46 :: X_VCF <> []) by (destruct stem; discriminate).
  repeat split; unfold build_writer_path_v, path_comp_v, path_format_v.
  - destruct (extension_app stem X_VCF Hs ltac:(discriminate) ltac:(no_dot_tac)) as [E F].
    rewrite E. reflexivity.
  - destruct (extension_app stem X_BCF Hs ltac:(discriminate) ltac:(no_dot_tac)) as [E F].
    rewrite E. reflexivity.
  - destruct (extension_app (stem ++ 46 :: X_VCF) X_GZ Hs2 ltac:(discriminate) ltac:(no_dot_tac)) as [E F].
    rewrite E, F. change (stem ++ 46 :: X_VCF) with (stem ++ [46] ++ X_VCF).
    rewrite app_assoc, ends_with_app. reflexivity.
  - destruct (extension_app (stem ++ 46 :: X_VCF) X_BGZ Hs2 ltac:(discriminate) ltac:(no_dot_tac)) as [E F].
    rewrite E, F. change (stem ++ 46 :: X_VCF) with (stem ++ [46] ++ X_VCF).
    rewrite app_assoc, ends_with_app. reflexivity.
Qed.

(* with nothing set, EVERY name builds a writer (the (Cram, Bgzf) error needs an override), and
   the pair is a function of the extension alone: *)
Theorem path_autodetect_total_a : forall a name,
  build_writer_path_a a None None name =
    match extension name with
    | Some e =>
        if eqb_bytes e X_SAM then Ok KSam
        else if eqb_bytes e X_BAM then Ok KBam
        else if eqb_bytes e X_CRAM then Ok KCram
        else if is_gz_ext e then Ok KSamGz
        else Ok KSam
    | None => Ok KSam
    end.
Proof.
  intros a name. unfold build_writer_path_a, path_comp_a, path_format_a.
  destruct (extension name) as [e|]; [|reflexivity].
  destruct (eqb_bytes e X_SAM) eqn:E1.
  { apply eqb_bytes_eq in E1. subst e. reflexivity. }
  destruct (eqb_bytes e X_BAM) eqn:E2.
  { apply eqb_bytes_eq in E2. subst e. reflexivity. }
  destruct (eqb_bytes e X_CRAM) eqn:E3.
  { apply eqb_bytes_eq in E3. subst e. reflexivity. }
  cbn [orb]. destruct (is_gz_ext e) eqn:E4; [|reflexivity].
  destruct (ends_with X_SAM (file_stem name)); reflexivity.
Qed.

Theorem path_autodetect_total_v : forall name,
  build_writer_path_v None None name =
    match extension name with
    | Some e =>
        if eqb_bytes e X_VCF then KVcf
        else if eqb_bytes e X_BCF then KBcf
        else if is_gz_ext e then KVcfGz
        else KVcf
    | None => KVcf
    end.
Proof.
  intro name. unfold build_writer_path_v, path_comp_v, path_format_v.
  destruct (extension name) as [e|]; [|reflexivity].
  destruct (eqb_bytes e X_VCF) eqn:E1.
  { apply eqb_bytes_eq in E1. subst e. reflexivity. }
  destruct (eqb_bytes e X_BCF) eqn:E2.
  { apply eqb_bytes_eq in E2. subst e. reflexivity. }
  cbn [orb]. destruct (is_gz_ext e) eqn:E4; [|reflexivity].
  destruct (ends_with X_VCF (file_stem name)); reflexivity.
Qed.

(* a hidden file named after a format has no extension: ".bam" is written as uncompressed SAM *)
Example hidden_name_is_sam : forall a,
  build_writer_path_a a None None (46 :: X_BAM) = Ok KSam /\
  build_writer_path_a a None None (46 :: X_CRAM) = Ok KSam /\
  build_writer_path_v None None (46 :: X_BCF) = KVcf.
Proof. intro a. repeat split. Qed.

(* ------------------------------------------------------------------------------------------ *)
(* the inner dispatch *)

(* the variant names what it is *)
Theorem inner_a_sound : forall e f c k, inner_a e f c = Ok k -> akind_fmt k = f /\ akind_comp k = c.
Proof. intros e [] [] k H; cbn in H; inversion H; subst; split; reflexivity. Qed.

Theorem inner_v_sound : forall f c, vkind_fmt (inner_v f c) = f /\ vkind_comp (inner_v f c) = c.
Proof. intros [] []; split; reflexivity. Qed.

Theorem inner_a_complete : forall e k, inner_a e (akind_fmt k) (akind_comp k) = Ok k.
Proof. intros e []; reflexivity. Qed.

Theorem inner_v_complete : forall k, inner_v (vkind_fmt k) (vkind_comp k) = k.
Proof. intros []; reflexivity. Qed.

(* the only pair without a variant is (Cram, Bgzf) *)
Theorem inner_a_err : forall e f c e', inner_a e f c = Err e' -> f = Cram /\ c = CBgzf /\ e' = e.
Proof. intros e [] [] e' H; cbn in H; inversion H; subst; repeat split. Qed.

(* every configuration of the writer builders (3 x 4 overrides, sync and async): the pair the
   writer is built for is the pair the reader builder constructs the same variant for *)
Theorem writer_reader_counterpart_a : forall a oc ofm k,
  build_writer_a a oc ofm = Ok k ->
  writer_pair_a oc ofm = (akind_fmt k, akind_comp k) /\
  inner_a InvalidData (akind_fmt k) (akind_comp k) = Ok k.
Proof.
  intros a oc ofm k H. split; [|apply inner_a_complete].
  unfold build_writer_a in H. destruct (writer_pair_a oc ofm) as [f c].
  destruct (inner_a_sound _ _ _ _ H) as [A B]. subst. reflexivity.
Qed.

Theorem writer_reader_counterpart_v : forall oc ofm,
  writer_pair_v oc ofm = (vkind_fmt (build_writer_v oc ofm), vkind_comp (build_writer_v oc ofm)).
Proof.
  intros oc ofm. unfold build_writer_v. destruct (writer_pair_v oc ofm) as [f c].
  destruct (inner_v_sound f c) as [A B]. rewrite A, B. reflexivity.
Qed.

(* the builder defaults: nothing set = uncompressed SAM / VCF; BAM / BCF default to BGZF *)
Theorem writer_defaults :
  (forall a, build_writer_a a None None = Ok KSam) /\
  (forall a, build_writer_a a None (Some Sam) = Ok KSam) /\
  (forall a, build_writer_a a None (Some Bam) = Ok KBam) /\
  (forall a, build_writer_a a None (Some Cram) = Ok KCram) /\
  build_writer_v None None = KVcf /\ build_writer_v None (Some Vcf) = KVcf /\
  build_writer_v None (Some Bcf) = KBcf.
Proof. repeat split. Qed.

(* the writer builder fails exactly for CRAM with BGZF requested *)
Theorem build_writer_a_err : forall a oc ofm e,
  build_writer_a a oc ofm = Err e <->
  (ofm = Some Cram /\ oc = Some CBgzf /\ e = writer_cram_bgzf_err a).
Proof.
  intros a oc ofm e. split.
  - destruct a, oc as [[]|], ofm as [[]|]; cbn; intro H; inversion H; repeat split.
  - intros [A [B C]]. subst. destruct a; reflexivity.
Qed.

Section Deflate.
  Variable bgzf : list N -> list N.
  Variable gunzip : list N -> inflated.
  Hypothesis bgzf_magic : forall p, exists r, bgzf p = 31 :: 139 :: r.
  Hypothesis gunzip_prefix : forall p m, exists n, avail (gunzip (firstn m (bgzf p))) = firstn n p.
  Hypothesis gunzip_whole : forall p, gunzip (bgzf p) = mk_inflated p None.

  (* a stream produced by the writer variant k *)
  Definition written_by_a (k : akind) (amb : bool) (s : list N) : Prop :=
    written_a bgzf (akind_fmt k) (akind_comp k) amb s.
  Definition written_by_v (k : vkind) (s : list N) : Prop :=
    written_v bgzf (vkind_fmt k) (vkind_comp k) s.

  (* the autodetecting reader builder constructs, for a stream of writer variant k, the reader
     variant k (same codec, same framing) -- under the window conditions of the detection theorem *)
  Theorem reader_variant_of_writer_a : forall k amb s n,
    written_by_a k amb s -> window_ok_a gunzip (akind_fmt k) (akind_comp k) amb s n ->
    build_reader_kind_a None None (window s n) (gunzip (window s n)) = Ok k.
  Proof.
    intros k amb s n Hw Hk. unfold build_reader_kind_a.
    pose proof (detect_written_a_partial bgzf gunzip bgzf_magic gunzip_prefix gunzip_whole
                  _ _ amb s n Hw Hk) as H.
    unfold detect_a in H. rewrite H. apply inner_a_complete.
  Qed.

  Theorem reader_variant_of_writer_v : forall k s n,
    written_by_v k s -> window_ok_v gunzip (vkind_fmt k) (vkind_comp k) s n ->
    build_reader_kind_v None None (window s n) (gunzip (window s n)) = Ok k.
  Proof.
    intros k s n Hw Hk. unfold build_reader_kind_v.
    pose proof (detect_written_v_partial bgzf gunzip bgzf_magic gunzip_prefix gunzip_whole
                  _ _ s n Hw Hk) as H.
    unfold detect_v in H. rewrite H. rewrite inner_v_complete. reflexivity.
  Qed.

  Hypothesis gunzip_window : forall p,
    (4 <= length (avail (gunzip (firstn BUF_CAP (bgzf p)))))%nat \/ (length (bgzf p) <= BUF_CAP)%nat.

  (* path -> writer variant -> stream -> repaired reader builder over ANY delivery script ->
     the same variant *)
  Theorem path_writer_reader_roundtrip_a : forall a name k amb s sc,
    build_writer_path_a a None None name = Ok k -> written_by_a k amb s ->
    build_src_a true None None gunzip (mkSource s sc) = BOk (akind_fmt k, akind_comp k) /\
    inner_a InvalidData (akind_fmt k) (akind_comp k) = Ok k.
  Proof.
    intros a name k amb s sc _ Hw. split; [|apply inner_a_complete].
    exact (detect_written_repaired_a bgzf gunzip bgzf_magic gunzip_prefix gunzip_whole gunzip_window
             _ _ amb s sc Hw).
  Qed.

  Theorem path_writer_reader_roundtrip_v : forall name s sc,
    written_by_v (build_writer_path_v None None name) s ->
    build_src_v true None None gunzip (mkSource s sc)
      = BOk (vkind_fmt (build_writer_path_v None None name), vkind_comp (build_writer_path_v None None name)).
  Proof.
    intros name s sc Hw.
    exact (detect_written_repaired_v bgzf gunzip bgzf_magic gunzip_prefix gunzip_whole gunzip_window
             _ _ s sc Hw).
  Qed.
End Deflate.

(* ------------------------------------------------------------------------------------------ *)
(* indexed readers *)

(* candidates in the order they are tried *)
Definition candidates_a (k : akind) : list iext :=
  match k with
  | KSamGz => [XCsi]
  | KBam => [XBai; XCsi]
  | KCram => [XCrai]
  | KSam | KBamRaw => []
  end.

Definition candidates_v (k : vkind) : list iext :=
  match k with
  | KVcfGz => [XTbi; XCsi]
  | KBcf => [XCsi]
  | KVcf | KBcfRaw => []
  end.

(* the first candidate that is not missing decides: a usable one is loaded, an unusable one is an
   error (a later candidate is NOT tried); all missing: NotFound *)
Fixpoint first_present (d : dirstate) (xs : list iext) : ires isrc :=
  match xs with
  | [] => IErr ENotFound
  | x :: r =>
      match d x with
      | FValid => IOk (FromFile x)
      | FMissing | FBad ENotFound => first_present d r
      | FBad e => IErr e
      end
  end.

Definition indexable_a (k : akind) : bool := match k with KSamGz | KBam | KCram => true | _ => false end.
Definition indexable_v (k : vkind) : bool := match k with KVcfGz | KBcf => true | _ => false end.

Theorem discover_a_spec : forall k d, indexable_a k = true ->
  discover_a k PNone d = first_present d (candidates_a k).
Proof.
  intros k d Hk. destruct k; try discriminate Hk;
    unfold discover_a, read_first_or, read_only, read_index, candidates_a, first_present.
  - destruct (d XCsi) as [| |[]]; reflexivity.
  - destruct (d XBai) as [| |[]]; try reflexivity; destruct (d XCsi) as [| |[]]; reflexivity.
  - destruct (d XCrai) as [| |[]]; reflexivity.
Qed.

Theorem discover_v_spec : forall k d, indexable_v k = true ->
  discover_v k PNone d = first_present d (candidates_v k).
Proof.
  intros k d Hk. destruct k; try discriminate Hk;
    unfold discover_v, read_first_or, read_only, read_index, candidates_v, first_present.
  - destruct (d XCsi) as [| |[]]; reflexivity.
  - destruct (d XTbi) as [| |[]]; try reflexivity; destruct (d XCsi) as [| |[]]; reflexivity.
Qed.

(* an index of the matching kind given to the builder wins over every file; one of the other kind
   is ignored *)
Theorem discover_preset : forall d,
  discover_a KSamGz PBinning d = IOk FromBuilder /\ discover_a KBam PBinning d = IOk FromBuilder /\
  discover_a KCram PCrai d = IOk FromBuilder /\
  discover_a KSamGz PCrai d = discover_a KSamGz PNone d /\
  discover_a KBam PCrai d = discover_a KBam PNone d /\
  discover_a KCram PBinning d = discover_a KCram PNone d /\
  discover_v KVcfGz PBinning d = IOk FromBuilder /\ discover_v KBcf PBinning d = IOk FromBuilder.
Proof. intro d. repeat split. Qed.

(* precedence for BAM and VCF.gz, spelled out *)
Theorem discover_precedence : forall d,
  (d XBai = FValid -> discover_a KBam PNone d = IOk (FromFile XBai)) /\
  (d XBai = FMissing -> d XCsi = FValid -> discover_a KBam PNone d = IOk (FromFile XCsi)) /\
  (forall e, e <> ENotFound -> d XBai = FBad e -> discover_a KBam PNone d = IErr e) /\
  (d XTbi = FValid -> discover_v KVcfGz PNone d = IOk (FromFile XTbi)) /\
  (d XTbi = FMissing -> d XCsi = FValid -> discover_v KVcfGz PNone d = IOk (FromFile XCsi)) /\
  (forall e, e <> ENotFound -> d XTbi = FBad e -> discover_v KVcfGz PNone d = IErr e).
Proof.
  intro d. unfold discover_a, discover_v, read_first_or, read_index.
  repeat split.
  - intro H; rewrite H; reflexivity.
  - intros H1 H2; rewrite H1, H2; reflexivity.
  - intros e He H; rewrite H. destruct e; try reflexivity. congruence.
  - intro H; rewrite H; reflexivity.
  - intros H1 H2; rewrite H1, H2; reflexivity.
  - intros e He H; rewrite H. destruct e; try reflexivity. congruence.
Qed.

(* a file is loaded only from the candidate list of the format, and only if it is valid *)
Theorem discover_a_from_file : forall k p d x,
  discover_a k p d = IOk (FromFile x) -> In x (candidates_a k) /\ d x = FValid.
Proof.
  intros k p d x H.
  destruct k, p; cbn in H; try discriminate H;
    unfold read_first_or, read_only, read_index in H; cbn [candidates_a In];
    repeat match type of H with
           | context [d ?y] => let E := fresh "E" in destruct (d y) as [| |[]] eqn:E; try discriminate H
           end;
    inversion H; subst; auto.
Qed.

Theorem discover_v_from_file : forall k p d x,
  discover_v k p d = IOk (FromFile x) -> In x (candidates_v k) /\ d x = FValid.
Proof.
  intros k p d x H.
  destruct k, p; cbn in H; try discriminate H;
    unfold read_first_or, read_only, read_index in H; cbn [candidates_v In];
    repeat match type of H with
           | context [d ?y] => let E := fresh "E" in destruct (d y) as [| |[]] eqn:E; try discriminate H
           end;
    inversion H; subst; auto.
Qed.

(* what the conventional writer names produce is what the indexed readers accept, and nothing
   else is: *)
Theorem indexed_kind_a_spec : forall f c,
  indexed_kind_a f c =
    match inner_a InvalidData f c with
    | Ok k => if indexable_a k then IOk k else IErr EInvalidData
    | Err _ => IErr EInvalidData
    end.
Proof. intros [] []; reflexivity. Qed.

Theorem indexed_kind_v_spec : forall f c,
  indexed_kind_v f c = if indexable_v (inner_v f c) then IOk (inner_v f c) else IErr EInvalidData.
Proof. intros [] []; reflexivity. Qed.

(* index file names: <src>.<ext>; distinct candidates are distinct files, and std's
   Path::extension of the index path gives the candidate's extension back *)
Theorem index_path_injective : forall src x y, index_path src x = index_path src y -> x = y.
Proof.
  intros src x y H. unfold index_path in H. apply app_inv_head in H.
  destruct x, y; try reflexivity; discriminate H.
Qed.

Theorem index_path_extension : forall src x, src <> [] ->
  extension (index_path src x) = Some (iext_bytes x) /\ file_stem (index_path src x) = src.
Proof.
  intros src x Hs. unfold index_path. apply extension_app; [exact Hs| |].
  - destruct x; discriminate.
  - destruct x; no_dot_tac.
Qed.

(* build_from_reader: without a matching index it is InvalidInput, never a file lookup *)
Theorem preset_only_spec :
  (forall k p s, preset_only_a k p = IOk s -> s = FromBuilder) /\
  (forall k p s, preset_only_v k p = IOk s -> s = FromBuilder) /\
  (forall k, indexable_a k = true -> preset_only_a k PNone = IErr EInvalidInput) /\
  (forall k, indexable_v k = true -> preset_only_v k PNone = IErr EInvalidInput).
Proof.
  repeat split.
  - intros [] [] s H; cbn in H; inversion H; reflexivity.
  - intros [] [] s H; cbn in H; inversion H; reflexivity.
  - intros [] H; try discriminate H; reflexivity.
  - intros [] H; try discriminate H; reflexivity.
Qed.

(* ------------------------------------------------------------------------------------------ *)
(* finish *)

Definition is_bgzf_kind (k : vkind) : bool := match vkind_comp k with CBgzf => true | CNone => false end.

Theorem finish_v_table : forall k,
  finish_v Sync k = (if is_bgzf_kind k then BgzfTryFinish else BufFlush) /\
  finish_v Async k = AsyncShutdown.
Proof. intros []; split; reflexivity. Qed.

Theorem finish_a_table : forall k,
  finish_a Sync k = match k with
                    | KCram => CramFinish
                    | _ => match akind_comp k with CBgzf => BgzfTryFinish | CNone => BufFlush end
                    end /\
  finish_a Async k = AsyncShutdown.
Proof. intros []; split; reflexivity. Qed.

Lemma vw_finish_kind : forall st, vw_kind (vw_finish st) = vw_kind st.
Proof.
  intro st. unfold vw_finish, vw_flush_block.
  destruct (finish_v Sync (vw_kind st)); try reflexivity.
  destruct (vw_pending st); cbn [vw_fin vw_kind]; [destruct (vw_fin st)|]; reflexivity.
Qed.

(* the invariant of reachable states: is_finished implies an EOF block has been written *)
Definition vw_inv (st : vwstate) : Prop :=
  vw_fin st = true -> (1 <= vw_eofs st)%nat /\ is_bgzf_kind (vw_kind st) = true.

Lemma vw_inv_new : forall k, vw_inv (vw_new k).
Proof. intros k H. discriminate H. Qed.

(* after finish nothing is pending, everything accepted is at the destination, in order, and a
   BGZF stream ends with the EOF block *)
Theorem vw_finish_complete : forall st, vw_inv st ->
  vw_inv (vw_finish st) /\
  vw_pending (vw_finish st) = [] /\
  vw_delivered (vw_finish st) = vw_delivered st ++ vw_pending st /\
  (is_bgzf_kind (vw_kind st) = true -> vw_fin (vw_finish st) = true /\ (1 <= vw_eofs (vw_finish st))%nat).
Proof.
  intros st Hinv. destruct st as [k p dl b e f]. unfold vw_inv in *.
  cbn [vw_kind vw_pending vw_fin vw_eofs] in Hinv.
  destruct k, p as [|x p], f; unfold vw_finish, vw_flush_block; cbn in *;
    repeat (split || intro); try lia; try discriminate;
    try (rewrite app_nil_r; reflexivity);
    try (destruct (Hinv eq_refl) as [A C]; first [exact A | discriminate C]).
Qed.

(* finish twice = finish once; dropping a finished writer adds nothing (no second EOF block) *)
Theorem vw_finish_idempotent : forall st, vw_finish (vw_finish st) = vw_finish st.
Proof.
  intros st. destruct st as [k p dl b e f].
  destruct k; unfold vw_finish, vw_flush_block; cbn [finish_v vw_kind vw_pending];
    try (cbn [vw_pending vw_delivered vw_blocks vw_eofs vw_fin vw_kind finish_v]; rewrite app_nil_r; reflexivity).
  - destruct p as [|x p]; cbn [vw_fin vw_kind vw_pending vw_delivered vw_blocks vw_eofs finish_v].
    + destruct f; cbn [vw_fin vw_kind vw_pending vw_delivered vw_blocks vw_eofs finish_v]; reflexivity.
    + reflexivity.
  - destruct p as [|x p]; cbn [vw_fin vw_kind vw_pending vw_delivered vw_blocks vw_eofs finish_v].
    + destruct f; cbn [vw_fin vw_kind vw_pending vw_delivered vw_blocks vw_eofs finish_v]; reflexivity.
    + reflexivity.
Qed.

Theorem vw_drop_after_finish : forall st, vw_drop (vw_finish st) = vw_finish st.
Proof. exact vw_finish_idempotent. Qed.

Lemma vw_run_inv : forall k ops, vw_inv (vw_run k ops).
Proof.
  intros k ops. unfold vw_run.
  assert (G : forall st, vw_inv st -> vw_inv (fold_left vw_step ops st)).
  { induction ops as [|o ops IH]; intros st H; [exact H|]. cbn [fold_left]. apply IH.
    destruct o as [b|]; cbn [vw_step].
    - exact H.
    - apply (vw_finish_complete st H). }
  apply G. apply vw_inv_new.
Qed.

(* a run: whatever was accepted is delivered ++ pending *)
Lemma vw_run_payload_gen : forall ops st,
  vw_delivered (fold_left vw_step ops st) ++ vw_pending (fold_left vw_step ops st)
    = (vw_delivered st ++ vw_pending st) ++ ops_payload ops.
Proof.
  induction ops as [|o ops IH]; intro st; cbn [fold_left ops_payload]; [rewrite app_nil_r; reflexivity|].
  rewrite IH. destruct o as [b|]; cbn [vw_step].
  - cbn [vw_write vw_delivered vw_pending]. rewrite !app_assoc. reflexivity.
  - f_equal. destruct st as [k p dl bl e f]. unfold vw_finish, vw_flush_block.
    cbn [vw_kind vw_pending vw_delivered].
    destruct k; cbn [finish_v]; cbn [vw_pending vw_delivered]; rewrite ?app_nil_r; try reflexivity;
      destruct p; cbn [vw_fin vw_pending vw_delivered vw_kind vw_blocks vw_eofs];
      try (destruct f); cbn [vw_pending vw_delivered]; rewrite ?app_nil_r; reflexivity.
Qed.

(* a run that ends with finish: everything written is at the destination *)
Theorem vw_run_finished : forall k ops,
  let st := vw_run k (ops ++ [OpFinish]) in
  vw_pending st = [] /\ vw_delivered st = ops_payload ops.
Proof.
  intros k ops st.
  assert (P : vw_pending st = []).
  { unfold st, vw_run. rewrite fold_left_app. cbn [fold_left vw_step].
    set (s0 := fold_left vw_step ops (vw_new k)).
    destruct s0 as [k0 p dl bl e f]. unfold vw_finish, vw_flush_block. cbn [vw_kind vw_pending].
    destruct k0; cbn [finish_v]; try reflexivity;
      destruct p; cbn [vw_fin vw_pending vw_kind]; try (destruct f); reflexivity. }
  split; [exact P|].
  pose proof (vw_run_payload_gen (ops ++ [OpFinish]) (vw_new k)) as H.
  fold (vw_run k (ops ++ [OpFinish])) in H. fold st in H. rewrite P, app_nil_r in H.
  rewrite H. cbn [vw_new vw_delivered vw_pending app].
  clear. induction ops as [|[b|] ops IH]; cbn [app ops_payload]; [reflexivity| |exact IH].
  rewrite IH. reflexivity.
Qed.
