(* C20 -- format / compression autodetection of noodles-util's generic readers.

   Mirrors, as pure functions of the first [fill_buf] window:
     noodles-util/src/alignment/io/reader/builder.rs  detect_compression_method, detect_format,
                                                      Builder::build_from_reader (the decision part)
     noodles-util/src/variant/io/reader/builder.rs    the variant twins
   and states the prefixes the generic writers emit (SAM text, BAM, CRAM, VCF, BCF).

   DEFLATE / gzip framing is NOT modelled: the result of running flate2's MultiGzDecoder over the
   window is an input of the model ([inflated]: the bytes it can deliver before it stops and the
   error it stops with).  Definitions only; proofs are in DetectProofs.v. *)
From Coq Require Import List NArith Bool Arith.
Import ListNotations.
Open Scope N_scope.

Inductive err := UnexpectedEof | InvalidInput | InvalidData | OtherErr.
Inductive res (A : Type) := Ok (a : A) | Err (e : err).
Arguments Ok {A} a.
Arguments Err {A} e.

Inductive comp := CNone | CBgzf.          (* Option<CompressionMethod> *)
Inductive afmt := Sam | Bam | Cram.       (* alignment::io::Format *)
Inductive vfmt := Vcf | Bcf.              (* variant::io::Format *)

Definition GZIP_MAGIC : list N := [31; 139].
Definition BAM_MAGIC  : list N := [66; 65; 77; 1].      (* "BAM\1" *)
Definition CRAM_MAGIC : list N := [67; 82; 65; 77].     (* "CRAM"  *)
Definition BCF_MAGIC  : list N := [66; 67; 70].         (* "BCF"   *)

Fixpoint eqb_bytes (a b : list N) : bool :=
  match a, b with
  | [], [] => true
  | x :: a', y :: b' => (x =? y) && eqb_bytes a' b'
  | _, _ => false
  end.

(* slice.get(..n) *)
Definition get_to (n : nat) (w : list N) : option (list N) :=
  if (n <=? length w)%nat then Some (firstn n w) else None.

(* detect_compression_method: the first two bytes of the window are 1f 8b *)
Definition detect_compression (w : list N) : comp :=
  match get_to 2 w with
  | Some b => if eqb_bytes b GZIP_MAGIC then CBgzf else CNone
  | None => CNone
  end.

(* MultiGzDecoder::new(window) as an oracle value: [avail] are the bytes it delivers, then it
   stops: [None] = clean end of the stream (read returns Ok(0)), [Some e] = the decoder's error
   (UnexpectedEof for a member cut off inside the window, InvalidInput for a bad header, ...). *)
Record inflated := mk_inflated { avail : list N; stop : option err }.

(* decoder.take(n).read_to_end(&mut buf): at most n bytes; a clean end earlier is not an error *)
Definition read_upto_infl (n : nat) (i : inflated) : res (list N) :=
  if (n <=? length (avail i))%nat then Ok (firstn n (avail i))
  else match stop i with None => Ok (avail i) | Some e => Err e end.

(* what can follow "CRAM" at the start of SAM text: a read name character (u8::is_ascii_graphic)
   or the TAB that ends the field; the major version of a CRAM file definition is neither *)
Definition sam_cont (b : N) : bool := ((33 <=? b) && (b <=? 126)) || (b =? 9).

(* alignment detect_format *)
Definition detect_format_a (w : list N) (c : comp) (i : inflated) : res afmt :=
  match c with
  | CBgzf =>
      match read_upto_infl 4 i with
      | Err e => Err e
      | Ok b => if eqb_bytes b BAM_MAGIC then Ok Bam else Ok Sam
      end
  | CNone =>
      match get_to 4 w with
      | Some b => if eqb_bytes b BAM_MAGIC then Ok Bam
                  else if eqb_bytes b CRAM_MAGIC then
                    match nth_error w 4 with
                    | Some x => if sam_cont x then Ok Sam else Ok Cram
                    | None => Ok Cram
                    end
                  else Ok Sam
      | None => Ok Sam
      end
  end.

(* variant detect_format *)
Definition detect_format_v (w : list N) (c : comp) (i : inflated) : res vfmt :=
  match c with
  | CBgzf =>
      match read_upto_infl 3 i with
      | Err e => Err e
      | Ok b => if eqb_bytes b BCF_MAGIC then Ok Bcf else Ok Vcf
      end
  | CNone =>
      match get_to 3 w with
      | Some b => if eqb_bytes b BCF_MAGIC then Ok Bcf else Ok Vcf
      | None => Ok Vcf
      end
  end.

(* Builder::build_from_reader, decision part.  [oc] / [ofm] are the builder's overrides
   (set_compression_method / set_format); None = autodetect. *)
Definition build_a (oc : option comp) (ofm : option afmt) (w : list N) (i : inflated)
  : res (afmt * comp) :=
  let c := match oc with Some c => c | None => detect_compression w end in
  match (match ofm with Some f => Ok f | None => detect_format_a w c i end) with
  | Err e => Err e
  | Ok f =>
      match f, c with
      | Cram, CBgzf => Err InvalidData
      | _, _ => Ok (f, c)
      end
  end.

Definition build_v (oc : option comp) (ofm : option vfmt) (w : list N) (i : inflated)
  : res (vfmt * comp) :=
  let c := match oc with Some c => c | None => detect_compression w end in
  match (match ofm with Some f => Ok f | None => detect_format_v w c i end) with
  | Err e => Err e
  | Ok f => Ok (f, c)
  end.

Definition detect_a := build_a None None.
Definition detect_v := build_v None None.

(* The window: std BufReader::new (capacity 8192) calls read once; the source delivers k bytes
   (k >= 1 unless the stream is empty).  *)
Definition BUF_CAP : nat := 8192.
Definition window (s : list N) (k : nat) : list N := firstn (Nat.min k BUF_CAP) s.

(* ---------------------------------------------------------------------------------------- *)
(* What the generic writers emit (leading bytes only). *)

(* a SAM read name accepted by sam::io::writer::record::name::is_valid: 1..254 ASCII graphic
   bytes, no '@', not "*" *)
Definition name_byte_ok (b : N) : bool := (33 <=? b) && (b <=? 126) && negb (b =? 64).
Definition name_ok (nm : list N) : bool :=
  negb (eqb_bytes nm []) && negb (eqb_bytes nm [42]) && forallb name_byte_ok nm
  && (length nm <=? 254)%nat.

Record sam_line := mk_sam_line { sl_name : option (list N); sl_rest : list N }.
Definition sam_line_ok (l : sam_line) : bool :=
  match sl_name l with None => true | Some nm => name_ok nm end.
Definition sam_line_bytes (l : sam_line) : list N :=
  (match sl_name l with None => [42] | Some nm => nm end) ++ 9 :: sl_rest l ++ [10].
(* a header line: '@' body LF *)
Definition hdr_line_bytes (body : list N) : list N := 64 :: body ++ [10].

Definition sam_text (hdr : list (list N)) (recs : list sam_line) : list N :=
  concat (map hdr_line_bytes hdr) ++ concat (map sam_line_bytes recs).

Definition bam_payload (rest : list N) : list N := BAM_MAGIC ++ rest.
Definition cram_stream (major minor : N) (rest : list N) : list N := CRAM_MAGIC ++ major :: minor :: rest.
(* "##fileformat=VCFv" *)
Definition VCF_PREFIX : list N :=
  [35;35;102;105;108;101;102;111;114;109;97;116;61;86;67;70;118].
Definition vcf_text (rest : list N) : list N := VCF_PREFIX ++ rest.
Definition bcf_payload (rest : list N) : list N := BCF_MAGIC ++ 2 :: 2 :: rest.

Definition starts_with (p s : list N) : bool := eqb_bytes (firstn (length p) s) p.

(* a CRAM major version number (1..4 exist) is a control byte other than TAB *)
Definition cram_major_ok (major : N) : bool := negb (sam_cont major).

(* the F14 class: a header-less SAM whose first read name begins with "CRAM" *)
Definition sam_first_name_cram (hdr : list (list N)) (recs : list sam_line) : bool :=
  match hdr, recs with
  | [], l :: _ => match sl_name l with Some nm => starts_with CRAM_MAGIC nm | None => false end
  | _, _ => false
  end.
