(* C20 -- BCF -> VCF for a whole file WITH the header block: the run of the conversion is C10's lazy
   BCF FILE reader (read_prefix + read_lazy) followed by C09's VCF FILE writer (write_file) on what
   was read; C09's file theorem then says what both VCF readers make of the produced text.
   Read-only imports. *)
From Coq Require Import List NArith ZArith Bool Lia.
From NV Require Import Text.TextBase Vcf.Values Vcf.Line Vcf.LineProofs Vcf.Header Vcf.HeaderProofs Vcf.File.
From NV Require Vcf.FileProofs Vcf.HdrFrameProofs.
From NV Require Import Bcf.Ints Bcf.Typed Bcf.StringMap Bcf.Record Bcf.RecordTyped Bcf.Bridge Bcf.File Bcf.FileProofs.
From NV Require Import Util.ConvertVariant Util.ConvertVariantHdrRev.
Import ListNotations.
Open Scope N_scope.

Lemma sequence_of_Forall2 : forall A B (f : A -> option B) l ps,
  Forall2 (fun a p => f a = Some p) l ps -> sequence (map f l) = Some ps.
Proof.
  intros A B f l ps H. induction H as [|a p l ps Ha _ IH]; [reflexivity|].
  cbn [map sequence]. rewrite Ha, IH. reflexivity.
Qed.

Lemma with_lf_cons' : forall t ts, with_lf (t :: ts) = (t ++ [10]) ++ with_lf ts.
Proof. reflexivity. Qed.

Section Rev.
  Variable fmt_float : N -> list N.

  (* the record loop of the conversion = the lazy BCF file reader's loop to its clean end, and the
     VCF writer's line for every record read, in order *)
  Lemma hblocks_written : forall s c h fuel i bs out,
    convert_bcf_vcf_hblocks fmt_float s c h fuel i bs = VfOk out ->
    exists rs ts, Bcf.File.read_lazy fuel s c h bs = (rs, EndEof) /\
                  Forall2 (fun r t => write_line fmt_float h r = Some t) rs ts /\
                  out = with_lf ts.
  Proof.
    intros s c h. induction fuel as [|k IH]; intros i bs out H; [discriminate H|].
    cbn [convert_bcf_vcf_hblocks] in H. cbn [Bcf.File.read_lazy].
    destruct (at_end bs).
    - inversion H; subst. exists [], []. repeat split. constructor.
    - destruct (dec_frame bs) as [[[sb ib] rest]|]; [|discriminate H].
      unfold convert_bcf_vcf_h in H.
      destruct (Lazy.lazy_read_hdr (h_v44 h) s c (ik_of h) (fk_of h) (Z.of_nat (h_nsamples h)) bs)
        as [t| |]; try discriminate H.
      destruct (write_line fmt_float h (vrec_of t)) as [l|] eqn:El; [|discriminate H].
      destruct (convert_bcf_vcf_hblocks fmt_float s c h k (S i) rest) as [o|] eqn:Er; [|discriminate H].
      inversion H; subst out. clear H.
      destruct (IH (S i) rest o Er) as (rs & ts & Hr & Hf & Ho).
      rewrite Hr. exists (vrec_of t :: rs), (l :: ts). split; [reflexivity|]. split.
      + constructor; assumption.
      + subst o. rewrite with_lf_cons'. reflexivity.
  Qed.

  (* a successful run: the source file is read by C10's lazy BCF file reader to its clean end as
     (hd, rs), and the output is C09's VCF file writer's text for (hd, rs) *)
  Theorem convert_bcf_vcf_hfile_is_read_then_write : forall bs out,
    convert_bcf_vcf_hfile fmt_float bs = BhOk out ->
    exists hd rs, bcf_read_file_lazy bs = FOk (hd, (rs, EndEof)) /\
                  write_file fmt_float hd rs = Some out.
  Proof.
    intros bs out H. unfold convert_bcf_vcf_hfile in H. unfold bcf_read_file_lazy.
    destruct (read_prefix bs) as [[[[hd s] c] rest]| |]; try discriminate H.
    destruct (write_header hd) as [ls|] eqn:Eh; [|discriminate H].
    destruct (convert_bcf_vcf_hblocks fmt_float s c (hctx_of_header hd) (file_fuel rest) 0 rest)
      as [o|] eqn:Eb; [|discriminate H].
    inversion H; subst out. clear H.
    destruct (hblocks_written _ _ _ _ _ _ _ Eb) as (rs & ts & Hr & Hf & Ho).
    exists hd, rs. rewrite Hr. split; [reflexivity|].
    unfold write_file. rewrite Eh, (sequence_of_Forall2 _ _ _ _ _ Hf). subst o. reflexivity.
  Qed.

  (* the conversion succeeds whenever the lazy BCF file reader reads the file to its clean end and
     the VCF file writer accepts what was read (no other way to fail) *)
  Lemma hblocks_complete : forall s c h fuel i bs rs ts,
    Bcf.File.read_lazy fuel s c h bs = (rs, EndEof) ->
    Forall2 (fun r t => write_line fmt_float h r = Some t) rs ts ->
    convert_bcf_vcf_hblocks fmt_float s c h fuel i bs = VfOk (with_lf ts).
  Proof.
    intros s c h. induction fuel as [|k IH]; intros i bs rs ts Hr Hf; [discriminate Hr|].
    cbn [Bcf.File.read_lazy] in Hr. cbn [convert_bcf_vcf_hblocks].
    destruct (at_end bs).
    - inversion Hr; subst. inversion Hf; subst. reflexivity.
    - destruct (dec_frame bs) as [[[sb ib] rest]|]; [|discriminate Hr].
      unfold convert_bcf_vcf_h.
      destruct (Lazy.lazy_read_hdr (h_v44 h) s c (ik_of h) (fk_of h) (Z.of_nat (h_nsamples h)) bs)
        as [t| |]; try discriminate Hr.
      destruct (Bcf.File.read_lazy k s c h rest) as [rs' e] eqn:Ek.
      inversion Hr; subst rs e. clear Hr.
      inversion Hf as [|r0 l rs0 ts' Hw Hf']; subst.
      rewrite Hw, (IH (S i) rest rs' ts' Ek Hf'). rewrite with_lf_cons'. reflexivity.
  Qed.

  Theorem convert_bcf_vcf_hfile_complete : forall bs hd rs out,
    bcf_read_file_lazy bs = FOk (hd, (rs, EndEof)) ->
    write_file fmt_float hd rs = Some out ->
    convert_bcf_vcf_hfile fmt_float bs = BhOk out.
  Proof.
    intros bs hd rs out Hr Hw. unfold bcf_read_file_lazy in Hr. unfold convert_bcf_vcf_hfile.
    destruct (read_prefix bs) as [[[[hd' s] c] rest]| |]; try discriminate Hr.
    assert (Eh : hd' = hd) by congruence. subst hd'.
    assert (Er : Bcf.File.read_lazy (file_fuel rest) s c (hctx_of_header hd) rest = (rs, EndEof)) by congruence.
    clear Hr.
    unfold write_file in Hw.
    destruct (write_header hd) as [ls|]; [|discriminate Hw].
    destruct (sequence (map (write_line fmt_float (hctx_of_header hd)) rs)) as [ts|] eqn:Es; [|discriminate Hw].
    inversion Hw; subst out.
    rewrite (hblocks_complete _ _ _ _ 0%nat _ _ _ Er (Vcf.FileProofs.sequence_map_Forall2 _ _ _ _ _ Es)).
    reflexivity.
  Qed.
End Rev.

Section FloatRev.
  Variable fmt_float : N -> list N.
  Variable prs_float : list N -> option N.
  Variable FOK : N -> Prop.
  Hypothesis F1 : forall b, FOK b -> prs_float (fmt_float b) = Some b.
  Hypothesis F2 : forall b x, FOK b -> In x (fmt_float b) -> (x <> 44 /\ x <> 9 /\ x <> 10 /\ x <> 59 /\ x <> 58)%N.
  Hypothesis F3 : forall b, FOK b -> fmt_float b <> Values.dot.
  Hypothesis F4 : forall b, FOK b -> fmt_float b <> [].
  Hypothesis F5 : forall b x, FOK b -> In x (fmt_float b) -> x <> 13.

  (* THE FILE WITH ITS HEADER, BCF -> VCF: on a successful run the lazy BCF file reader reads the
     source as (hd, rs) to its clean end; if hd is a header value of C09's domain and every record
     read is in the VCF writer's round-trip domain under the tables OF THAT HEADER, both VCF file
     readers read the produced text back as the same header and canon of the same records, ending
     with Ok(0). *)
  Theorem convert_bcf_vcf_hfile_preserves : forall valid bs out,
    convert_bcf_vcf_hfile fmt_float bs = BhOk out ->
    exists hd rs,
      bcf_read_file_lazy bs = FOk (hd, (rs, EndEof)) /\
      (header_ok hd -> hdr_defs_ok hd = true -> Vcf.FileProofs.header_framed hd ->
       Forall (rec_ok fmt_float FOK (hctx_of_header hd)) rs -> Vcf.FileProofs.first_chrom_ok rs ->
       (forall s, (forall b, In b s -> In b out) -> valid s = true) ->
       read_file_eager prs_float valid out = Some (hd, (map (canon (hctx_of_header hd)) rs, true)) /\
       read_file_lazy prs_float valid out =
         Some (hd, (map (fun r => Some (canon (hctx_of_header hd) r)) rs, true))).
  Proof.
    intros valid bs out H.
    destruct (convert_bcf_vcf_hfile_is_read_then_write fmt_float bs out H) as (hd & rs & Hr & Hw).
    exists hd, rs. split; [exact Hr|]. intros Hok Hd Hfr Hrs Hfc Hval.
    exact (Vcf.FileProofs.file_roundtrip fmt_float prs_float FOK F1 F2 F3 F4 F5 valid hd rs out
             Hok Hd Hfr Hrs Hfc Hval Hw).
  Qed.

  (* ... for a BCF file whose header block the BCF writer emitted for hd (write_prefix), followed by
     ANY record section: the header conditions are conditions on the header that was WRITTEN; the
     header the conversion derives everything from is hd, and the VCF output reads back as hd *)
  Theorem convert_bcf_vcf_hfile_written_prefix : forall valid hd p rest out,
    header_ok hd -> hdr_defs_ok hd = true -> Vcf.HdrFrameProofs.hdr_vals_framed hd ->
    write_prefix hd = Some p ->
    convert_bcf_vcf_hfile fmt_float (p ++ rest) = BhOk out ->
    exists s c rs,
      maps_of_header hd = Some (s, c) /\
      Bcf.File.read_lazy (file_fuel rest) s c (hctx_of_header hd) rest = (rs, EndEof) /\
      (Forall (rec_ok fmt_float FOK (hctx_of_header hd)) rs -> Vcf.FileProofs.first_chrom_ok rs ->
       (forall t, (forall b, In b t -> In b out) -> valid t = true) ->
       read_file_eager prs_float valid out = Some (hd, (map (canon (hctx_of_header hd)) rs, true)) /\
       read_file_lazy prs_float valid out =
         Some (hd, (map (fun r => Some (canon (hctx_of_header hd) r)) rs, true))).
  Proof.
    intros valid hd p rest out Hok Hd Hfr Ep H.
    destruct (prefix_roundtrip hd p rest Hok Hd Hfr Ep) as (s & c & Em & Hp).
    destruct (convert_bcf_vcf_hfile_preserves valid (p ++ rest) out H) as (hd' & rs & Hr & Hrt).
    unfold bcf_read_file_lazy in Hr. rewrite Hp in Hr.
    assert (Eh : hd' = hd) by congruence. subst hd'.
    assert (Er : Bcf.File.read_lazy (file_fuel rest) s c (hctx_of_header hd) rest = (rs, EndEof)) by congruence.
    exists s, c, rs. split; [exact Em|]. split; [exact Er|].
    intros Hrs Hfc Hval. apply Hrt; try assumption.
    intros ls E'. apply (Vcf.HdrFrameProofs.header_framed_of_values hd ls Hfr E').
  Qed.
End FloatRev.
