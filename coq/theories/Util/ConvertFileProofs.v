(* C20 -- file-level content preservation SAM -> BAM: C06's header round trip, C06's record round
   trip per line, C05's file round trip (Bam.FileProofs.file_roundtrip). *)
From Coq Require Import List NArith ZArith Bool Lia.
From NV Require Import Base.Decimal Sam.Fields Sam.FieldsProofs Sam.Record Sam.RecordProofs Sam.Header
                       Sam.HeaderProofs Sam.BamAgree Util.Convert Util.ConvertProofs Util.ConvertFile.
From NV Require Bam.Record Bam.CodecProofs Bam.AuxProofs Bam.File Bam.FileProofs.
Import ListNotations.
Open Scope N_scope.

Section FloatOracle.
  Variable fmt32 : N -> bytes.
  Variable fmtd32 : N -> bytes.
  Variable parse32 : bytes -> option N.
  Variable parse32p : bytes -> option (N * bytes).
  Hypothesis H_f : forall b, finite32 b = true -> parse32 (fmt32 b) = Some b.
  Hypothesis H_fc : forall b, PR (fmt32 b).
  Hypothesis H_d : forall b rest, finite32 b = true -> (rest = [] \/ exists r, rest = 44 :: r) ->
                                  parse32p (fmtd32 b ++ rest) = Some (b, rest).
  Hypothesis H_dc : forall b, PR (fmtd32 b).

  Definition rec_dom (r : sam_rec) : Prop := wf_rec r /\ wf_bits r /\ r_qual r <> [9].

  (* the lines the SAM writer emits for rs *)
  Fixpoint written_lines (refs : list bytes) (rs : list sam_rec) (lines : list bytes) : Prop :=
    match rs, lines with
    | [], [] => True
    | r :: rs', l :: ls' => write_record fmt32 fmtd32 refs r = Some l /\ written_lines refs rs' ls'
    | _, _ => False
    end.

  Lemma parse_lines_written refs : wf_refs refs -> forall rs lines i,
    Forall rec_dom rs -> written_lines refs rs lines ->
    parse_lines parse32 parse32p refs i lines = inr (map norm_i rs).
  Proof.
    intros WR. induction rs as [|r rs IH]; intros [|l ls] i Hd Hw; cbn [written_lines] in Hw; try contradiction.
    - reflexivity.
    - destruct Hw as [Hl Hw]. inversion Hd as [|? ? (W & WB & NQ) Hd']; subst.
      cbn [parse_lines map].
      rewrite (record_roundtrip fmt32 fmtd32 parse32 parse32p H_f H_fc H_d H_dc refs r l WR W Hl).
      rewrite (norm_rec_id r (norm_qual_not9 _ NQ)).
      rewrite (IH ls (S i) Hd' Hw). reflexivity.
  Qed.

  (* A whole data set: the header text and the lines the SAM writer emits for (h, rs), piped into
     the BAM writer: either the BAM writer rejects the header or a record, or the BAM reader reads
     the produced stream to its end as the same header and, record for record, r's BAM form with
     integer tags typed as the lazy record types them (same values: by_value_lazy), bases in
     BAM's alphabet and a user CG field dropped. *)
  Theorem convert_sam_bam_file_preserves h t rs lines :
    wf_header h -> wf_refs (map sq_name (h_sq h)) -> Forall rec_dom rs ->
    write_header h = Some t -> written_lines (map sq_name (h_sq h)) rs lines ->
    match convert_sam_bam_file parse32 parse32p t lines with
    | CfOk file =>
        Bam.File.read_file file
        = Bam.Record.Ok (h, (map (fun r => Bam.CodecProofs.norm (to_bam_d (lazy_i (norm_i r)))) rs,
                             Bam.File.EndEof))
        /\ Forall (fun r => by_value (Bam.CodecProofs.norm (to_bam_d (lazy_i (norm_i r))))
                            = by_value (Bam.CodecProofs.norm (to_bam_d r))) rs
    | CfWriteErr => True
    | _ => False
    end.
  Proof.
    intros WH WR Hd HT HW. unfold convert_sam_bam_file.
    rewrite (header_roundtrip h t WH HT).
    rewrite (parse_lines_written _ WR rs lines 0%nat Hd HW).
    destruct (Bam.File.write_file h (map (fun r => to_bam_d (lazy_i r)) (map norm_i rs))) as [file|e] eqn:E;
      [|exact I].
    split.
    - assert (HR : Forall Bam.FileProofs.rec_ok (map (fun r => to_bam_d (lazy_i r)) (map norm_i rs))).
      { apply Forall_forall. intros b Hb. rewrite map_map in Hb.
        apply in_map_iff in Hb as (r & <- & Hr). rewrite Forall_forall in Hd.
        destruct (Hd r Hr) as (W & WB & _).
        pose proof (wf_rec_lazy_i _ (wf_rec_norm_i r W)) as W2.
        pose proof (wf_bits_lazy_i _ (wf_bits_norm_i r WB)) as WB2.
        exact (conj (to_bam_d_wf _ W2) (conj (to_bam_d_data_wf _ W2 WB2) (to_bam_d_tags _ W2))). }
      rewrite (Bam.FileProofs.file_roundtrip h _ file WH HR E).
      rewrite !map_map. reflexivity.
    - apply Forall_forall. intros r Hr. rewrite Forall_forall in Hd.
      destruct (Hd r Hr) as ((_ & _ & _ & _ & Wd & _) & _ & _). apply by_value_lazy. exact Wd.
  Qed.
End FloatOracle.
