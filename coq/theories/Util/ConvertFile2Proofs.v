(* C20 -- file-level content preservation of the conversions of NV.Util.ConvertFile2:
   SAM text (bytes) -> BAM, BAM (bytes) -> SAM text, both through BGZF with any DEFLATE codec that
   satisfies C01's premises (and with the executable stored-block codec: no premise), and the
   composition SAM -> BAM -> SAM.  Corollaries of C06's file round trip (Sam.FileProofs), C05's
   file round trip (Bam.FileProofs), C01's writer/reader theorem (Bgzf.WriterProofs) and the
   per-record bridges of Util.ConvertProofs. *)
From Coq Require Import List NArith ZArith Bool Lia.
From NV Require Import Base.Decimal Sam.Fields Sam.FieldsProofs Sam.Record Sam.RecordProofs Sam.Header
                       Sam.HeaderProofs Sam.BamAgree Util.Convert Util.ConvertProofs Util.ConvertFile
                       Util.ConvertFileProofs Util.ConvertFile2.
From NV Require Sam.File Sam.FileProofs Sam.FileAgree.
From NV Require Bam.Record Bam.CodecProofs Bam.AuxProofs Bam.File Bam.FileProofs Bam.FileBgzfProofs.
From NV Require Bgzf.Frame Bgzf.Writer Bgzf.Reader Bgzf.WriterProofs Bgzf.Inflate Bgzf.InflateProofs
                Bgzf.Level0Proofs.
Import ListNotations.
Open Scope N_scope.

(* ---- records: what the text path and the lazy typing keep ---- *)
Lemma norm_rec_dom rs : Forall rec_dom rs -> map norm_rec rs = map norm_i rs.
Proof.
  intro Hd. apply map_ext_in. intros r Hr. rewrite Forall_forall in Hd.
  destruct (Hd r Hr) as (_ & _ & NQ). exact (norm_rec_id r (norm_qual_not9 _ NQ)).
Qed.

Lemma lazy_norm_rec_ok rs : Forall rec_dom rs ->
  Forall Bam.FileProofs.rec_ok (map (fun r => to_bam_d (lazy_i (norm_i r))) rs).
Proof.
  intro Hd. apply Forall_forall. intros b Hb. apply in_map_iff in Hb as (r & Eb & Hr). subst b.
  rewrite Forall_forall in Hd. destruct (Hd r Hr) as (W & WB & _).
  apply Sam.FileAgree.to_bam_d_rec_ok.
  - exact (wf_rec_lazy_i _ (wf_rec_norm_i r W)).
  - exact (wf_bits_lazy_i _ (wf_bits_norm_i r WB)).
Qed.

Lemma to_bam_rec_ok rs : Forall (fun r => wf_rec r /\ wf_bits r) rs ->
  Forall Bam.FileProofs.rec_ok (map to_bam_d rs).
Proof.
  intro Hd. apply Forall_forall. intros b Hb. apply in_map_iff in Hb as (r & Eb & Hr). subst b.
  rewrite Forall_forall in Hd. destruct (Hd r Hr) as (W & WB).
  exact (Sam.FileAgree.to_bam_d_rec_ok r W WB).
Qed.

(* every record the BAM reader returns for a written file is inside the data model *)
Lemma of_bam_all_norm rs : forall i,
  of_bam_all i (map Bam.CodecProofs.norm (map to_bam_d rs)) = inr (map norm_s rs).
Proof.
  induction rs as [|r rs IH]; intro i; [reflexivity|].
  cbn [map of_bam_all]. rewrite of_bam_norm, (IH (S i)). reflexivity.
Qed.

Lemma norm_s_wf rs : Forall (fun r => wf_rec r /\ wf_bits r) rs -> Forall wf_rec (map norm_s rs).
Proof.
  intro Hd. apply Forall_forall. intros x Hx. apply in_map_iff in Hx as (r & Ex & Hr). subst x.
  rewrite Forall_forall in Hd. destruct (Hd r Hr) as (W & _). exact (wf_rec_norm_s r W).
Qed.

(* the lazy typing of integer tags is invisible after the trip back to text *)
Lemma norm_i_s_lazy r : Forall (fun f => wf_aux (snd f)) (r_data r) ->
  norm_i (norm_s (lazy_i (norm_i r))) = norm_i (norm_s r).
Proof.
  intro Wd. unfold norm_i, norm_s, lazy_i.
  cbn [r_name r_flags r_rid r_pos r_mapq r_cigar r_mrid r_mpos r_tlen r_seq r_qual r_data].
  f_equal. induction (r_data r) as [|[tg a] d IH]; [reflexivity|].
  inversion Wd as [|? ? Wa Wd']; subst. cbn [snd] in Wa.
  cbn [map filter fst snd]. destruct (negb (Bam.Record.tag_eqb tg Bam.Record.CG)).
  - cbn [map fst snd]. rewrite (IH Wd'), (norm_lazy_norm a Wa). reflexivity.
  - exact (IH Wd').
Qed.

Lemma rec_dom_lazy_norm rs : Forall rec_dom rs ->
  Forall (fun r => wf_rec r /\ wf_bits r) (map (fun r => lazy_i (norm_i r)) rs).
Proof.
  intro Hd. apply Forall_forall. intros x Hx. apply in_map_iff in Hx as (r & Ex & Hr). subst x.
  rewrite Forall_forall in Hd. destruct (Hd r Hr) as (W & WB & _). split.
  - exact (wf_rec_lazy_i _ (wf_rec_norm_i r W)).
  - exact (wf_bits_lazy_i _ (wf_bits_norm_i r WB)).
Qed.

Section FloatOracle.
  Variable fmt32 : N -> bytes.
  Variable fmtd32 : N -> bytes.
  Variable parse32 : bytes -> option N.
  Variable parse32p : bytes -> option (N * bytes).
  Hypothesis H_f : forall b, finite32 b = true -> parse32 (fmt32 b) = Some b.
  Hypothesis H_fc : forall b, PR (fmt32 b).
  Hypothesis H_d : forall b rest, finite32 b = true -> (rest = [] \/ exists r, rest = 44 :: r) ->
                                  parse32p (fmtd32 b ++ rest) = Some (b, rest).
  Hypothesis H_dc : forall b, PR (fmtd32 b).

  (* ================================================================ (a) SAM text -> BAM *)
  (* on the text the SAM writer emits, the conversion is the BAM writer applied to the lazily typed
     records: the reader neither rejects nor loses nor invents a line *)
  Lemma convert_sam_bam_bytes_written h rs t :
    wf_header h -> wf_refs (Sam.File.refs_of h) -> Forall rec_dom rs ->
    Sam.File.write_file fmt32 fmtd32 h rs = Some t ->
    convert_sam_bam_bytes parse32 parse32p t
    = match Bam.File.write_file h (map (fun r => to_bam_d (lazy_i (norm_i r))) rs) with
      | Bam.Record.Ok file => CfOk file
      | Bam.Record.Err _ => CfWriteErr
      end.
  Proof.
    intros WH WR Hd HT. unfold convert_sam_bam_bytes.
    assert (W : Forall wf_rec rs).
    { apply Forall_forall. intros r Hr. rewrite Forall_forall in Hd. destruct (Hd r Hr) as (W & _). exact W. }
    rewrite (Sam.FileProofs.file_roundtrip fmt32 fmtd32 parse32 parse32p H_f H_fc H_d H_dc h rs t WH WR W HT).
    rewrite (norm_rec_dom rs Hd), map_map. reflexivity.
  Qed.

  (* The whole SAM text the SAM writer emits for (h, rs), as bytes, piped through the generic
     reader into the BAM writer: either the BAM writer rejects the header or a record, or the BAM
     reader reads the produced stream to its end as the same header and, record for record, r's
     BAM form with integer tags typed as the lazy record types them (same values), bases in
     BAM's alphabet and a user CG field dropped. *)
  Theorem convert_sam_bam_bytes_preserves h rs t :
    wf_header h -> wf_refs (Sam.File.refs_of h) -> Forall rec_dom rs ->
    Sam.File.write_file fmt32 fmtd32 h rs = Some t ->
    match convert_sam_bam_bytes parse32 parse32p t with
    | CfOk file =>
        Bam.File.read_file file
        = Bam.Record.Ok (h, (map (fun r => Bam.CodecProofs.norm (to_bam_d (lazy_i (norm_i r)))) rs,
                             Bam.File.EndEof))
        /\ Forall (fun r => by_value (Bam.CodecProofs.norm (to_bam_d (lazy_i (norm_i r))))
                            = by_value (Bam.CodecProofs.norm (to_bam_d r))) rs
    | CfWriteErr =>
        exists e, Bam.File.write_file h (map (fun r => to_bam_d (lazy_i (norm_i r))) rs) = Bam.Record.Err e
    | _ => False
    end.
  Proof.
    intros WH WR Hd HT. rewrite (convert_sam_bam_bytes_written h rs t WH WR Hd HT).
    destruct (Bam.File.write_file h (map (fun r => to_bam_d (lazy_i (norm_i r))) rs)) as [file|e] eqn:E;
      [|exists e; reflexivity].
    split.
    - rewrite (Bam.FileProofs.file_roundtrip h _ file WH (lazy_norm_rec_ok rs Hd) E).
      rewrite map_map. reflexivity.
    - apply Forall_forall. intros r Hr. rewrite Forall_forall in Hd.
      destruct (Hd r Hr) as ((_ & _ & _ & _ & Wd & _) & _ & _). apply by_value_lazy. exact Wd.
  Qed.

  (* ================================================================ (b) BAM -> SAM text *)
  Lemma convert_bam_sam_file_written h rs file :
    wf_header h -> Forall (fun r => wf_rec r /\ wf_bits r) rs ->
    Bam.File.write_file h (map to_bam_d rs) = Bam.Record.Ok file ->
    convert_bam_sam_file fmt32 fmtd32 file
    = match Sam.File.write_file fmt32 fmtd32 h (map norm_s rs) with
      | Some text => CbOk text
      | None => CbWriteErr
      end.
  Proof.
    intros WH Hd HF. unfold convert_bam_sam_file.
    rewrite (Bam.FileProofs.file_roundtrip h _ file WH (to_bam_rec_ok rs Hd) HF).
    rewrite of_bam_all_norm. reflexivity.
  Qed.

  (* The whole uncompressed BAM stream the BAM writer emits for (h, rs) piped through the generic
     reader into the SAM writer: either the SAM writer rejects the header or a record, or the SAM
     reader reads the produced text to its end as the same header and, record for record, r with
     bases in BAM's alphabet and a user CG field dropped (norm_s), as the text path returns it
     (norm_rec: integer tags in the smallest type, the single quality score 9 = '*'). *)
  Theorem convert_bam_sam_file_preserves h rs file :
    wf_header h -> wf_refs (Sam.File.refs_of h) -> Forall (fun r => wf_rec r /\ wf_bits r) rs ->
    Bam.File.write_file h (map to_bam_d rs) = Bam.Record.Ok file ->
    match convert_bam_sam_file fmt32 fmtd32 file with
    | CbOk text =>
        Sam.File.read_file parse32 parse32p text
        = Some (h, (map (fun r => norm_rec (norm_s r)) rs, Sam.File.FEof))
    | CbWriteErr => Sam.File.write_file fmt32 fmtd32 h (map norm_s rs) = None
    | _ => False
    end.
  Proof.
    intros WH WR Hd HF. rewrite (convert_bam_sam_file_written h rs file WH Hd HF).
    destruct (Sam.File.write_file fmt32 fmtd32 h (map norm_s rs)) as [text|] eqn:E; [|reflexivity].
    rewrite (Sam.FileProofs.file_roundtrip fmt32 fmtd32 parse32 parse32p H_f H_fc H_d H_dc h _ text WH WR
               (norm_s_wf rs Hd) E).
    rewrite map_map. reflexivity.
  Qed.

  (* ================================================================ (d) SAM -> BAM -> SAM *)
  (* from the bytes of a SAM text the writer emitted: the text that comes back reads as the same
     header and the records with integer tags in the smallest type, bases in BAM's alphabet and a
     user CG field dropped; the lazy Int32/UInt32 typing inside BAM leaves no trace *)
  Theorem convert_sam_bam_sam_bytes_preserves h rs t :
    wf_header h -> wf_refs (Sam.File.refs_of h) -> Forall rec_dom rs ->
    Sam.File.write_file fmt32 fmtd32 h rs = Some t ->
    match convert_sam_bam_sam_bytes fmt32 fmtd32 parse32 parse32p t with
    | Some (CbOk text) =>
        Sam.File.read_file parse32 parse32p text
        = Some (h, (map (fun r => norm_i (norm_s r)) rs, Sam.File.FEof))
    | Some CbWriteErr =>
        Sam.File.write_file fmt32 fmtd32 h (map (fun r => norm_s (lazy_i (norm_i r))) rs) = None
    | None =>
        exists e, Bam.File.write_file h (map (fun r => to_bam_d (lazy_i (norm_i r))) rs) = Bam.Record.Err e
    | _ => False
    end.
  Proof.
    intros WH WR Hd HT. unfold convert_sam_bam_sam_bytes.
    rewrite (convert_sam_bam_bytes_written h rs t WH WR Hd HT).
    destruct (Bam.File.write_file h (map (fun r => to_bam_d (lazy_i (norm_i r))) rs)) as [file|e] eqn:E;
      [|exists e; reflexivity].
    assert (E2 : Bam.File.write_file h (map to_bam_d (map (fun r => lazy_i (norm_i r)) rs)) = Bam.Record.Ok file)
      by (rewrite map_map; exact E).
    pose proof (convert_bam_sam_file_preserves h _ file WH WR (rec_dom_lazy_norm rs Hd) E2) as H.
    destruct (convert_bam_sam_file fmt32 fmtd32 file) as [text| | | | | |]; try exact H.
    - rewrite H. rewrite map_map. f_equal. f_equal. f_equal.
      apply map_ext_in. intros r Hr. rewrite Forall_forall in Hd.
      destruct (Hd r Hr) as ((_ & _ & _ & _ & Wd & _) & _ & NQ).
      rewrite norm_rec_id by (apply norm_qual_not9; exact NQ).
      exact (norm_i_s_lazy r Wd).
    - rewrite map_map in H. exact H.
  Qed.

  (* ================================================================ (c) through BGZF *)
  Section Codec.
    Variable deflate : N -> list N -> list N.
    Variable inflate : list N -> N -> option (list N).
    Variable lvl : N.
    Hypothesis H_bound : forall x, Bgzf.Frame.lenN x <= Bgzf.Writer.MAX_BUF_SIZE ->
                                   Bgzf.Frame.lenN (deflate 0 x) <= Bgzf.Writer.MAX_COMPRESSED_SIZE.
    Hypothesis H_rt : forall (l : N) x, Bgzf.Frame.lenN x <= Bgzf.Frame.BGZF_MAX_ISIZE ->
                                        inflate (deflate l x) (Bgzf.Frame.lenN x) = Some x.
    Hypothesis H_eof : inflate [3; 0] 0 = Some [].

    (* one write_all of the stream and finish, read_to_end: the stream *)
    Theorem bgzf_unwrap_wrap bs : bgzf_unwrap inflate (bgzf_wrap deflate lvl bs) = Some bs.
    Proof.
      unfold bgzf_unwrap, bgzf_wrap.
      pose proof (Bgzf.WriterProofs.writer_reader_roundtrip deflate lvl H_bound inflate H_rt H_eof
                    [Bgzf.Writer.OWriteAll bs] Bgzf.Writer.EFinish) as HR.
      cbv zeta in HR. rewrite HR. clear HR.
      destruct (Bgzf.WriterProofs.writer_wellformed_full deflate lvl H_bound inflate H_rt
                  [Bgzf.Writer.OWriteAll bs] Bgzf.Writer.EFinish)
        as (segs & _ & _ & _ & _ & _ & _ & Hok & Hlen & _).
      change [Bgzf.Writer.OWriteAll bs] with (map Bgzf.Writer.OWriteAll [bs]) in *.
      rewrite map_length in Hlen.
      rewrite (Bam.FileBgzfProofs.accepted_write_all [bs] _ Hok Hlen).
      - cbn [concat]. rewrite app_nil_r. reflexivity.
      - unfold Bgzf.Writer.run_script.
        destruct (Bgzf.Writer.run_ops deflate lvl Bgzf.Writer.w_init (map Bgzf.Writer.OWriteAll [bs]))
          as [[st obs] p] eqn:E.
        pose proof (Bam.FileBgzfProofs.run_ops_write_all _ _ _ _ _ _ _ E) as HF.
        destruct p; [exact HF|].
        destruct (Bgzf.Writer.run_ending deflate lvl Bgzf.Writer.EFinish st) as [[st1 r] q]. exact HF.
    Qed.

    (* SAM text -> BGZF BAM: the BGZF reader returns a stream that the BAM reader reads as in (a) *)
    Theorem convert_sam_bam_bgzf_preserves h rs t :
      wf_header h -> wf_refs (Sam.File.refs_of h) -> Forall rec_dom rs ->
      Sam.File.write_file fmt32 fmtd32 h rs = Some t ->
      match convert_sam_bam_bgzf parse32 parse32p deflate lvl t with
      | CfOk out =>
          exists file, bgzf_unwrap inflate out = Some file /\
            Bam.File.read_file file
            = Bam.Record.Ok (h, (map (fun r => Bam.CodecProofs.norm (to_bam_d (lazy_i (norm_i r)))) rs,
                                 Bam.File.EndEof))
            /\ Forall (fun r => by_value (Bam.CodecProofs.norm (to_bam_d (lazy_i (norm_i r))))
                                = by_value (Bam.CodecProofs.norm (to_bam_d r))) rs
      | CfWriteErr =>
          exists e, Bam.File.write_file h (map (fun r => to_bam_d (lazy_i (norm_i r))) rs) = Bam.Record.Err e
      | _ => False
      end.
    Proof.
      intros WH WR Hd HT. unfold convert_sam_bam_bgzf.
      pose proof (convert_sam_bam_bytes_preserves h rs t WH WR Hd HT) as H.
      destruct (convert_sam_bam_bytes parse32 parse32p t) as [file| | |]; try exact H.
      exists file. split; [apply bgzf_unwrap_wrap|exact H].
    Qed.

    (* BGZF BAM -> SAM text: same conclusion as (b) *)
    Theorem convert_bam_sam_bgzf_preserves h rs file :
      wf_header h -> wf_refs (Sam.File.refs_of h) -> Forall (fun r => wf_rec r /\ wf_bits r) rs ->
      Bam.File.write_file h (map to_bam_d rs) = Bam.Record.Ok file ->
      match convert_bam_sam_bgzf fmt32 fmtd32 inflate (bgzf_wrap deflate lvl file) with
      | CbOk text =>
          Sam.File.read_file parse32 parse32p text
          = Some (h, (map (fun r => norm_rec (norm_s r)) rs, Sam.File.FEof))
      | CbWriteErr => Sam.File.write_file fmt32 fmtd32 h (map norm_s rs) = None
      | _ => False
      end.
    Proof.
      intros WH WR Hd HF. unfold convert_bam_sam_bgzf. rewrite bgzf_unwrap_wrap.
      exact (convert_bam_sam_file_preserves h rs file WH WR Hd HF).
    Qed.

    (* SAM text -> BGZF BAM -> SAM text *)
    Theorem convert_sam_bam_sam_bgzf_preserves h rs t :
      wf_header h -> wf_refs (Sam.File.refs_of h) -> Forall rec_dom rs ->
      Sam.File.write_file fmt32 fmtd32 h rs = Some t ->
      match convert_sam_bam_bgzf parse32 parse32p deflate lvl t with
      | CfOk out =>
          match convert_bam_sam_bgzf fmt32 fmtd32 inflate out with
          | CbOk text =>
              Sam.File.read_file parse32 parse32p text
              = Some (h, (map (fun r => norm_i (norm_s r)) rs, Sam.File.FEof))
          | CbWriteErr =>
              Sam.File.write_file fmt32 fmtd32 h (map (fun r => norm_s (lazy_i (norm_i r))) rs) = None
          | _ => False
          end
      | CfWriteErr =>
          exists e, Bam.File.write_file h (map (fun r => to_bam_d (lazy_i (norm_i r))) rs) = Bam.Record.Err e
      | _ => False
      end.
    Proof.
      intros WH WR Hd HT. unfold convert_sam_bam_bgzf, convert_bam_sam_bgzf.
      pose proof (convert_sam_bam_sam_bytes_preserves h rs t WH WR Hd HT) as H.
      pose proof (convert_sam_bam_bytes_preserves h rs t WH WR Hd HT) as H0.
      unfold convert_sam_bam_sam_bytes in H.
      destruct (convert_sam_bam_bytes parse32 parse32p t) as [file| | |]; try exact H0.
      rewrite bgzf_unwrap_wrap. exact H.
    Qed.
  End Codec.

  (* ---- the executable instances (stored-block compressor, C01's inflater): no DEFLATE premise *)
  Theorem bgzf_unwrap_wrap_l0 lvl bs :
    bgzf_unwrap Bgzf.Inflate.inflate (bgzf_wrap Bgzf.Inflate.deflate_l0 lvl bs) = Some bs.
  Proof.
    exact (bgzf_unwrap_wrap Bgzf.Inflate.deflate_l0 Bgzf.Inflate.inflate lvl Bgzf.Level0Proofs.l0_bound
             Bgzf.Level0Proofs.l0_roundtrip Bgzf.InflateProofs.inflate_eof_cdata bs).
  Qed.

  Theorem convert_sam_bam_bgzf_l0_preserves h rs t :
    wf_header h -> wf_refs (Sam.File.refs_of h) -> Forall rec_dom rs ->
    Sam.File.write_file fmt32 fmtd32 h rs = Some t ->
    match convert_sam_bam_bgzf_l0 parse32 parse32p t with
    | CfOk out =>
        exists file, bgzf_unwrap Bgzf.Inflate.inflate out = Some file /\
          Bam.File.read_file file
          = Bam.Record.Ok (h, (map (fun r => Bam.CodecProofs.norm (to_bam_d (lazy_i (norm_i r)))) rs,
                               Bam.File.EndEof))
          /\ Forall (fun r => by_value (Bam.CodecProofs.norm (to_bam_d (lazy_i (norm_i r))))
                              = by_value (Bam.CodecProofs.norm (to_bam_d r))) rs
    | CfWriteErr =>
        exists e, Bam.File.write_file h (map (fun r => to_bam_d (lazy_i (norm_i r))) rs) = Bam.Record.Err e
    | _ => False
    end.
  Proof.
    exact (convert_sam_bam_bgzf_preserves Bgzf.Inflate.deflate_l0 Bgzf.Inflate.inflate 0
             Bgzf.Level0Proofs.l0_bound Bgzf.Level0Proofs.l0_roundtrip
             Bgzf.InflateProofs.inflate_eof_cdata h rs t).
  Qed.

  Theorem convert_bam_sam_bgzf_l0_preserves lvl h rs file :
    wf_header h -> wf_refs (Sam.File.refs_of h) -> Forall (fun r => wf_rec r /\ wf_bits r) rs ->
    Bam.File.write_file h (map to_bam_d rs) = Bam.Record.Ok file ->
    match convert_bam_sam_bgzf_l0 fmt32 fmtd32 (bgzf_wrap Bgzf.Inflate.deflate_l0 lvl file) with
    | CbOk text =>
        Sam.File.read_file parse32 parse32p text
        = Some (h, (map (fun r => norm_rec (norm_s r)) rs, Sam.File.FEof))
    | CbWriteErr => Sam.File.write_file fmt32 fmtd32 h (map norm_s rs) = None
    | _ => False
    end.
  Proof.
    exact (convert_bam_sam_bgzf_preserves Bgzf.Inflate.deflate_l0 Bgzf.Inflate.inflate lvl
             Bgzf.Level0Proofs.l0_bound Bgzf.Level0Proofs.l0_roundtrip
             Bgzf.InflateProofs.inflate_eof_cdata h rs file).
  Qed.
End FloatOracle.
