(* C20 -- content preservation of the variant conversions, composed from C09's line theorem
   (Vcf.LineProofs.line_roundtrip), C10's bridge (Bcf.BridgeProofs / Bcf.ColumnProofs: the typed BCF
   round trip of a RecordBuf, the content normal form) and C10's lazy = eager theorem
   (Bcf.LazyEagerProofs.lazy_eq_eager).  All imported read-only. *)
From Coq Require Import List NArith ZArith Bool Lia.
From NV Require Import Base.Percent Text.TextBase Vcf.Values Vcf.Span Vcf.Line Vcf.ValuesProofs
                       Vcf.SampleProofs Vcf.LineProofs.
From NV Require Import Bcf.Ints Bcf.IntsProofs Bcf.Typed Bcf.Strings Bcf.Genotype Bcf.StringMap Bcf.StringMapProofs
                       Bcf.Record Bcf.RecordProofs Bcf.RecordTyped Bcf.Bridge Bcf.BridgeProofs
                       Bcf.ColumnProofs.
From NV Require Bcf.Lazy Bcf.LazyEagerProofs Bcf.LazySiteProofs.
From NV Require Import Util.ConvertVariant.
Import ListNotations.
Open Scope N_scope.

(* ---------------------------------------------------------------- content of what BCF gives back *)
Lemma content_bback : forall v44 h a,
  (forall row, In row (r_samples a) -> (length row <= length (r_keys a))%nat) ->
  content v44 (bback h a) = content v44 a.
Proof.
  intros v44 h a Hl. unfold content, bback.
  cbn [r_chrom r_pos r_ids r_ref r_alts r_qual r_filters r_info r_keys r_samples].
  f_equal. rewrite map_map. apply map_ext_in. intros row Hrow. apply row_content. exact (Hl row Hrow).
Qed.

Lemma canon_row_length : forall v44 row, (length (canon_row v44 row) <= length row)%nat.
Proof.
  intros v44 row. unfold canon_row. destruct row as [|[v|] [|y t]]; cbn [length map]; try lia;
    rewrite ?map_length; lia.
Qed.

Section Float.
  Variable fmt_float : N -> list N.
  Variable prs_float : list N -> option N.
  Variable FOK : N -> Prop.
  Hypothesis F1 : forall b, FOK b -> prs_float (fmt_float b) = Some b.
  Hypothesis F2 : forall b x, FOK b -> In x (fmt_float b) -> x <> 44 /\ x <> 9 /\ x <> 10 /\ x <> 59 /\ x <> 58.
  Hypothesis F3 : forall b, FOK b -> fmt_float b <> Values.dot.
  Hypothesis F4 : forall b, FOK b -> fmt_float b <> [].

  Lemma rows_fit : forall h r row, rec_ok fmt_float FOK h r -> In row (r_samples r) ->
    (length row <= length (r_keys r))%nat.
  Proof.
    intros h r row Hok Hrow. destruct Hok as (_ & _ & _ & _ & _ & _ & _ & Hs).
    destruct (r_samples r) as [|r0 rows] eqn:Er; [destruct Hrow|].
    destruct Hs as (_ & _ & Hf). rewrite Forall_forall in Hf. destruct (Hf row Hrow) as [Hfit _].
    pose proof (fits_length _ _ _ _ Hfit) as L. rewrite map_length in L. exact L.
  Qed.

  Lemma content_canon : forall h r, rec_ok fmt_float FOK h r ->
    content (h_v44 h) (canon h r) = content (h_v44 h) r.
  Proof.
    intros h r Hok. rewrite (content_samples fmt_float FOK h r Hok).
    apply content_bback. intros row Hrow. exact (rows_fit h r row Hok Hrow).
  Qed.

  (* what the BCF side needs of the record the VCF reader hands over (a = canon h r): C10's bcf_dom
     (site_ok, INFO keys in the dictionary, every INFO field / FORMAT column of its header kind and
     in BCF's range -- all conditions the BCF writer checks or ranges of the format), outside the
     class string-special-chars, and the two u32 size bounds of the frame *)
  Definition conv_dom (strings contigs : smap) (h : hctx) (rlen : Z) (a : vrec) : Prop :=
    bcf_dom strings contigs h rlen a /\ bcf_special a = false /\
    (forall sb, enc_site strings contigs (site_of h rlen a) (info_fields a)
                  (Z.of_nat (length (r_keys a))) = Ints.Ok sb -> (Z.of_nat (length sb) <= 4294967295)%Z) /\
    (forall fb, enc_fields strings (fmt_fields h a) = Ints.Ok fb -> (Z.of_nat (length fb) <= 4294967295)%Z).

  (* the typed BCF round trip of the record the VCF reader hands over, on any record that satisfies
     the set conditions of rec_ok (they are invariant under canon) *)
  Lemma bcf_roundtrip_canon : forall strings contigs h rlen r rest,
    wf strings -> wf contigs -> rec_ok fmt_float FOK h r ->
    conv_dom strings contigs h rlen (canon h r) ->
    exists bs b, bcf_write strings contigs h rlen (canon h r) = Ints.Ok bs /\
                 bcf_read strings contigs h (bs ++ rest) = ROk b /\
                 content (h_v44 h) b = content (h_v44 h) r.
  Proof.
    intros strings contigs h rlen r rest Ws Wc Hok ((Hsite & Hkeys & Hinfo & Hfmt) & Hsp & Hsb & Hfb).
    pose proof Hok as Hok'.
    destruct Hok' as (_ & (_ & _ & Hids) & _ & _ & _ & (_ & _ & Hfl) & (Hnd & _) & Hs).
    set (a := canon h r) in *.
    assert (Ea : r_ids a = r_ids r /\ r_filters a = r_filters r /\ r_info a = r_info r /\
                 r_keys a = r_keys r /\ r_samples a = map (canon_row (h_v44 h)) (r_samples r))
      by (repeat split).
    destruct Ea as (Eid & Efl & Einf & Ekey & Esm).
    destruct (r_samples r) as [|r0 rows] eqn:Er.
    - (* a sites-only record *)
      destruct Hs as (Hk & Hns).
      assert (sites_only h a) as Hso.
      { unfold sites_only. rewrite Ekey, Esm. repeat split; assumption. }
      assert (bcf_site_ok strings contigs h rlen a) as Hb.
      { unfold bcf_site_ok. split; [exact Hsite|]. rewrite Eid, Efl. split; [exact Hids|]. split; [exact Hfl|].
        split; [exact Hkeys|]. split; [rewrite Einf; exact Hnd|]. exact (info_dom_ok h a Hsp Hinfo). }
      rewrite Ekey, Hk in Hsb. cbn [length Z.of_nat] in Hsb.
      destruct (bcf_sites_roundtrip strings contigs h rlen a rest Ws Wc Hso Hb Hsb) as (bs & Ew & Erd).
      exists bs, a. split; [exact Ew|]. split; [exact Erd|].
      unfold a. apply content_canon_sites. exact Er.
    - destruct Hs as (Hns & Hkn & _).
      assert (bcf_samples_dom strings contigs h rlen a) as Hd.
      { unfold bcf_samples_dom. split; [exact Hsite|]. rewrite Eid, Efl. split; [exact Hids|]. split; [exact Hfl|].
        split; [exact Hkeys|]. split; [rewrite Einf; exact Hnd|]. split; [exact Hinfo|].
        split; [rewrite Esm; discriminate|].
        split; [rewrite Esm, map_length; exact Hns|]. split; [rewrite Ekey; exact Hkn|exact Hfmt]. }
      destruct (bcf_samples_roundtrip strings contigs h rlen a rest Ws Wc Hd Hsp Hsb Hfb) as (bs & Ew & Erd).
      exists bs, (bback h a). split; [exact Ew|]. split; [exact Erd|].
      rewrite content_bback.
      + unfold a. apply content_canon. exact Hok.
      + intros row' Hrow'. rewrite Esm in Hrow'. apply in_map_iff in Hrow'. destruct Hrow' as (row & <- & Hrow).
        rewrite Ekey. pose proof (canon_row_length (h_v44 h) row) as L1.
        assert (In row (r_samples r)) as Hin by (rewrite Er; exact Hrow).
        pose proof (rows_fit h r row Hok Hin) as L2. lia.
  Qed.

  (* VCF -> BCF, one record: the line the VCF writer emits for r, through the generic reader (lazy
     vcf::Record) into the BCF writer: the conversion succeeds, and the BCF reader reads the
     produced block (whatever follows it) as a record with the content of r *)
  Theorem convert_vcf_bcf_preserves : forall v45 strings contigs h r t n rest,
    wf strings -> wf contigs ->
    rec_ok fmt_float FOK h r -> write_line fmt_float h r = Some t ->
    rec_span v45 (canon h r) = TextBase.Ok n ->
    conv_dom strings contigs h (Z.of_N n) (canon h r) ->
    exists bs b,
      convert_vcf_bcf prs_float v45 strings contigs h t = VvOk bs /\
      bcf_read strings contigs h (bs ++ rest) = ROk b /\
      content (h_v44 h) b = content (h_v44 h) r.
  Proof.
    intros v45 strings contigs h r t n rest Ws Wc Hok Hw Hspan Hdom.
    destruct (line_roundtrip fmt_float prs_float FOK F1 F2 F3 F4 h r t Hok Hw) as (_ & Hl & _).
    destruct (bcf_roundtrip_canon strings contigs h (Z.of_N n) r rest Ws Wc Hok Hdom) as (bs & b & Ew & Erd & Ec).
    exists bs, b. split; [|split; assumption].
    unfold convert_vcf_bcf. rewrite Hl, Hspan, Ew. reflexivity.
  Qed.

  (* the same from ANY line (not necessarily a written one): whatever record the lazy reader makes
     of the line, if it is in BCF's domain the conversion writes it and BCF gives it back *)
  Theorem convert_vcf_bcf_any_line : forall v45 strings contigs h t a n rest,
    wf strings -> wf contigs ->
    read_lazy prs_float h t = Some a -> rec_span v45 a = TextBase.Ok n ->
    bcf_samples_dom strings contigs h (Z.of_N n) a -> bcf_special a = false ->
    (forall sb, enc_site strings contigs (site_of h (Z.of_N n) a) (info_fields a)
                  (Z.of_nat (length (r_keys a))) = Ints.Ok sb -> (Z.of_nat (length sb) <= 4294967295)%Z) ->
    (forall fb, enc_fields strings (fmt_fields h a) = Ints.Ok fb -> (Z.of_nat (length fb) <= 4294967295)%Z) ->
    exists bs,
      convert_vcf_bcf prs_float v45 strings contigs h t = VvOk bs /\
      bcf_read strings contigs h (bs ++ rest) = ROk (bback h a).
  Proof.
    intros v45 strings contigs h t a n rest Ws Wc Hl Hspan Hd Hsp Hsb Hfb.
    destruct (bcf_samples_roundtrip strings contigs h (Z.of_N n) a rest Ws Wc Hd Hsp Hsb Hfb) as (bs & Ew & Erd).
    exists bs. split; [|exact Erd]. unfold convert_vcf_bcf. rewrite Hl, Hspan, Ew. reflexivity.
  Qed.

  (* BCF -> VCF, one record: if the lazy BCF record of the block is t' and the VCF writer accepts
     its RecordBuf, the conversion emits that line + LF, and both VCF readers read the line back as
     canon of the record (C09's line theorem) *)
  Theorem convert_bcf_vcf_preserves : forall strings contigs h bs t' l,
    Lazy.lazy_read (h_v44 h) strings contigs (ik_of h) (fk_of h) bs = ROk t' ->
    rec_ok fmt_float FOK h (vrec_of t') -> write_line fmt_float h (vrec_of t') = Some l ->
    convert_bcf_vcf fmt_float strings contigs h bs = VvOk (l ++ [10]) /\
    read_eager prs_float h l = Some (canon h (vrec_of t')) /\
    read_lazy prs_float h l = Some (canon h (vrec_of t')).
  Proof.
    intros strings contigs h bs t' l Hl Hok Hw.
    destruct (line_roundtrip fmt_float prs_float FOK F1 F2 F3 F4 h (vrec_of t') l Hok Hw) as (He & Hz & _).
    split; [|split; assumption]. unfold convert_bcf_vcf. rewrite Hl, Hw. reflexivity.
  Qed.
End Float.

(* the lazy BCF record the conversion hands to the VCF writer is the record of the eager reader up
   to C10's trec_norm, on every block the eager reader accepts (C10's lazy = eager) *)
Theorem convert_bcf_vcf_reads_as_eager : forall strings contigs h bs t,
  LazySiteProofs.byte_list bs ->
  dec_record_typed strings contigs (ik_of h) (fk_of h) (Z.of_nat (h_nsamples h)) bs = ROk t ->
  LazyEagerProofs.lazy_agree strings contigs (ik_of h) (fk_of h) (Z.of_nat (h_nsamples h)) bs = true ->
  exists t', Lazy.lazy_read (h_v44 h) strings contigs (ik_of h) (fk_of h) bs = ROk t' /\
             Lazy.trec_norm (h_v44 h) t' = Lazy.trec_norm (h_v44 h) t.
Proof. intros. eapply LazyEagerProofs.lazy_eq_eager; eassumption. Qed.

(* ---------------------------------------------------------------- the record section of a file *)
Open Scope Z_scope.

(* a block the BCF writer emitted is a frame: the reader's split of (block ++ rest) stops exactly
   at rest (or, were the site block empty, finds the end-of-input mark: excluded by a successful read) *)
Lemma enc_record_frame : forall strings contigs s infos fmts (hr : bool) bs rest,
  enc_record strings contigs s infos fmts hr = Ints.Ok bs ->
  (1 <= length bs)%nat /\
  ((exists sb ib, dec_frame (bs ++ rest) = Some (sb, ib, rest)) \/ dec_frame (bs ++ rest) = None).
Proof.
  intros strings contigs s infos fmts hr bs rest H.
  assert (exists sb ib, bs = le_bytes 4 (Z.of_nat (length sb)) ++ le_bytes 4 (Z.of_nat (length ib)) ++ sb ++ ib /\
                        Z.of_nat (length sb) <= 4294967295 /\ Z.of_nat (length ib) <= 4294967295)
    as (sb & ib & Hb & L1 & L2).
  { unfold enc_record in H.
    destruct (enc_site strings contigs s infos (Z.of_nat (length fmts))) as [sb| | |]; cbn [bind] in H; try discriminate.
    unfold u32 in H at 1. destruct (Z.of_nat (length sb) <=? 4294967295) eqn:E1; cbn [bind] in H; try discriminate.
    destruct (if hr then enc_fields strings fmts else Ints.Ok []) as [ib| | |]; cbn [bind] in H; try discriminate.
    unfold u32 in H. destruct (Z.of_nat (length ib) <=? 4294967295) eqn:E2; cbn [bind] in H; try discriminate.
    exists sb, ib. split; [injection H as Hb; rewrite <- Hb; reflexivity|]. split; lia. }
  subst bs. split.
  - rewrite app_length, le_bytes_length. lia.
  - destruct sb as [|x sb'].
    + right. cbn [app length Z.of_nat]. unfold dec_frame. rewrite <- app_assoc.
      rewrite take_app by apply le_bytes_length. rewrite le_val_le4 by lia. reflexivity.
    + left. exists (x :: sb'), ib. rewrite <- !app_assoc.
      apply frame_roundtrip; [discriminate|lia|lia].
Qed.

Lemma bcf_read_frame : forall strings contigs h rlen a bs b rest,
  bcf_write strings contigs h rlen a = Ints.Ok bs ->
  bcf_read strings contigs h (bs ++ rest) = ROk b ->
  (1 <= length bs)%nat /\ exists sb ib, dec_frame (bs ++ rest) = Some (sb, ib, rest).
Proof.
  intros strings contigs h rlen a bs b rest Hw Hr. unfold bcf_write, enc_record_w in Hw.
  destruct (enc_record_frame _ _ _ _ _ _ _ rest Hw) as [L [F|F]]; [split; assumption|].
  exfalso. unfold bcf_read, dec_record_typed, dec_record_k in Hr. rewrite F in Hr. discriminate.
Qed.

Lemma bcf_read_all_step : forall k strings contigs h bs sb ib rest r rs,
  (1 <= length bs)%nat -> dec_frame bs = Some (sb, ib, rest) ->
  bcf_read strings contigs h bs = ROk r -> bcf_read_all k strings contigs h rest = Some rs ->
  bcf_read_all (S k) strings contigs h bs = Some (r :: rs).
Proof.
  intros k strings contigs h bs sb ib rest r rs L F R A. cbn [bcf_read_all].
  destruct bs as [|x y]; [cbn [length] in L; lia|]. rewrite F, R, A. reflexivity.
Qed.

Section FloatFile.
  Variable fmt_float : N -> list N.
  Variable prs_float : list N -> option N.
  Variable FOK : N -> Prop.
  Hypothesis F1 : forall b, FOK b -> prs_float (fmt_float b) = Some b.
  Hypothesis F2 : forall b x, FOK b -> In x (fmt_float b) -> (x <> 44 /\ x <> 9 /\ x <> 10 /\ x <> 59 /\ x <> 58)%N.
  Hypothesis F3 : forall b, FOK b -> fmt_float b <> Values.dot.
  Hypothesis F4 : forall b, FOK b -> fmt_float b <> [].

  (* one record of the data set: in C09's domain, written by the VCF writer as t, its span defined,
     and (as the VCF reader hands it over) in BCF's domain *)
  Definition conv_rec_ok (v45 : bool) (strings contigs : smap) (h : hctx) (r : vrec) (t : list N) : Prop :=
    rec_ok fmt_float FOK h r /\ write_line fmt_float h r = Some t /\
    exists n, rec_span v45 (canon h r) = TextBase.Ok n /\ conv_dom strings contigs h (Z.of_N n) (canon h r).

  (* THE RECORD SECTION OF A FILE, VCF -> BCF: the lines the VCF writer emits for rs, converted one
     after the other: the run succeeds, and the BCF reader's loop over the produced bytes reads to
     their end exactly as many records, each with the content of its source record *)
  Theorem convert_vcf_bcf_lines_preserve : forall v45 strings contigs h rs ts,
    wf strings -> wf contigs ->
    Forall2 (conv_rec_ok v45 strings contigs h) rs ts ->
    forall i, exists out bs',
      convert_vcf_bcf_lines prs_float v45 strings contigs h i ts = VfOk out /\
      (forall fuel, (length out < fuel)%nat -> bcf_read_all fuel strings contigs h out = Some bs') /\
      map (content (h_v44 h)) bs' = map (content (h_v44 h)) rs.
  Proof.
    intros v45 strings contigs h rs ts Ws Wc HF.
    induction HF as [|r t rs ts (Hok & Hw & n & Hspan & Hdom) _ IH]; intros i.
    - exists [], []. split; [reflexivity|]. split; [|reflexivity].
      intros [|k] Hk; [cbn in Hk; lia|reflexivity].
    - destruct (IH (S i)) as (out' & bs' & Ec & Er & Em).
      destruct (line_roundtrip fmt_float prs_float FOK F1 F2 F3 F4 h r t Hok Hw) as (_ & Hl & _).
      destruct (bcf_roundtrip_canon fmt_float FOK strings contigs h (Z.of_N n) r out' Ws Wc Hok Hdom)
        as (bs & b & Ew & Erd & Eb).
      destruct (bcf_read_frame _ _ _ _ _ _ _ _ Ew Erd) as (L & sb & ib & Fr).
      exists (bs ++ out'), (b :: bs'). split; [|split].
      + cbn [convert_vcf_bcf_lines]. unfold convert_vcf_bcf. rewrite Hl, Hspan, Ew, Ec. reflexivity.
      + intros [|k] Hk; [cbn in Hk; lia|].
        apply (bcf_read_all_step k strings contigs h (bs ++ out') sb ib out' b bs'); [rewrite app_length; lia|exact Fr|exact Erd|].
        apply Er. rewrite app_length in Hk. lia.
      + cbn [map]. rewrite Eb, Em. reflexivity.
  Qed.
End FloatFile.
