(* C20 -- the decisions of noodles-util's generic builders that do not look at stream content:

     writer builders    noodles-util/src/{alignment,variant}/io/writer/builder.rs and the async twins
                        detect_format_from_path_extension, detect_compression_method_from_path_extension,
                        Builder::build_from_path, Builder::build_from_writer (defaults, the Inner
                        variant constructed, the error for CRAM + BGZF)
     reader builders    .../io/reader/builder.rs: the Inner variant constructed for a decided pair
     indexed readers    .../io/indexed_reader/builder.rs: build_from_path / build_from_reader, and the
                        index discovery they delegate to
                        (noodles-{sam,bam,cram,vcf,bcf}/src/io/indexed_reader/builder.rs)
     finishing          .../io/writer/inner.rs: Inner::finish (sync), Inner::shutdown (async)

   Paths: only the final component [name] matters (Path::extension / Path::file_stem,
   library/std/src/path.rs: rsplit_file_at_dot); it is a byte string of ASCII bytes (so that
   OsStr::to_str is always Some) without '/' and NUL, not "." and not "..".
   Definitions only; proofs in DispatchProofs.v. *)
From Coq Require Import List NArith Bool Arith.
From NV Require Import Util.Detect.
Import ListNotations.
Open Scope N_scope.

(* ------------------------------------------------------------------------------------------ *)
(* std::path *)

(* bytes.rsplitn(2, |b| b == '.'): Some (before, after) at the LAST dot, None without a dot *)
Fixpoint split_last_dot (s : list N) : option (list N * list N) :=
  match s with
  | [] => None
  | x :: r =>
      match split_last_dot r with
      | Some (b, a) => Some (x :: b, a)
      | None => if x =? 46 then Some ([], r) else None
      end
  end.

(* rsplit_file_at_dot, then file_stem = before.or(after), extension = before.and(after) *)
Definition path_split (name : list N) : list N * option (list N) :=
  if eqb_bytes name [46; 46] then (name, None)
  else match split_last_dot name with
       | None => (name, None)
       | Some ([], _) => (name, None)          (* ".hidden": the dot is part of the stem *)
       | Some (b, a) => (b, Some a)
       end.

Definition extension (name : list N) : option (list N) := snd (path_split name).
Definition file_stem (name : list N) : list N := fst (path_split name).

(* str::ends_with *)
Definition ends_with (suf s : list N) : bool :=
  (length suf <=? length s)%nat && eqb_bytes (skipn (length s - length suf) s) suf.

Definition X_SAM  : list N := [115; 97; 109].
Definition X_BAM  : list N := [98; 97; 109].
Definition X_CRAM : list N := [99; 114; 97; 109].
Definition X_VCF  : list N := [118; 99; 102].
Definition X_BCF  : list N := [98; 99; 102].
Definition X_GZ   : list N := [103; 122].
Definition X_BGZ  : list N := [98; 103; 122].

Definition is_gz_ext (e : list N) : bool := eqb_bytes e X_GZ || eqb_bytes e X_BGZ.

(* alignment::io::writer::builder::detect_compression_method_from_path_extension *)
Definition path_comp_a (name : list N) : comp :=
  match extension name with
  | Some e => if eqb_bytes e X_BAM || is_gz_ext e then CBgzf else CNone
  | None => CNone
  end.

(* alignment::io::writer::builder::detect_format_from_path_extension *)
Definition path_format_a (name : list N) : option afmt :=
  match extension name with
  | Some e =>
      if eqb_bytes e X_SAM then Some Sam
      else if eqb_bytes e X_BAM then Some Bam
      else if eqb_bytes e X_CRAM then Some Cram
      else if is_gz_ext e then (if ends_with X_SAM (file_stem name) then Some Sam else None)
      else None
  | None => None
  end.

Definition path_comp_v (name : list N) : comp :=
  match extension name with
  | Some e => if eqb_bytes e X_BCF || is_gz_ext e then CBgzf else CNone
  | None => CNone
  end.

Definition path_format_v (name : list N) : option vfmt :=
  match extension name with
  | Some e =>
      if eqb_bytes e X_VCF then Some Vcf
      else if eqb_bytes e X_BCF then Some Bcf
      else if is_gz_ext e then (if ends_with X_VCF (file_stem name) then Some Vcf else None)
      else None
  | None => None
  end.

(* ------------------------------------------------------------------------------------------ *)
(* writer builders *)

Inductive api := Sync | Async.

(* the variants of the private Inner enums; the same five / four exist on the reader and the
   writer side, sync and async: (codec, framing) *)
Inductive akind := KSam | KSamGz | KBam | KBamRaw | KCram.
Inductive vkind := KBcf | KBcfRaw | KVcf | KVcfGz.

Definition akind_fmt (k : akind) : afmt :=
  match k with KSam | KSamGz => Sam | KBam | KBamRaw => Bam | KCram => Cram end.
(* BufWriter / BufReader directly = no framing; bgzf::io::{Writer,Reader} = BGZF *)
Definition akind_comp (k : akind) : comp :=
  match k with KSamGz | KBam => CBgzf | KSam | KBamRaw | KCram => CNone end.
Definition vkind_fmt (k : vkind) : vfmt :=
  match k with KBcf | KBcfRaw => Bcf | KVcf | KVcfGz => Vcf end.
Definition vkind_comp (k : vkind) : comp :=
  match k with KBcf | KVcfGz => CBgzf | KBcfRaw | KVcf => CNone end.

(* the `match (format, compression_method)` that every builder ends with; [e] = the error kind
   of the (Cram, Bgzf) arm: reader builders InvalidData, sync writer InvalidInput, async writer
   InvalidData *)
Definition inner_a (e : err) (f : afmt) (c : comp) : res akind :=
  match f, c with
  | Sam, CNone => Ok KSam
  | Sam, CBgzf => Ok KSamGz
  | Bam, CNone => Ok KBamRaw
  | Bam, CBgzf => Ok KBam
  | Cram, CNone => Ok KCram
  | Cram, CBgzf => Err e
  end.

Definition inner_v (f : vfmt) (c : comp) : vkind :=
  match f, c with
  | Bcf, CNone => KBcfRaw
  | Bcf, CBgzf => KBcf
  | Vcf, CNone => KVcf
  | Vcf, CBgzf => KVcfGz
  end.

Definition writer_cram_bgzf_err (a : api) : err :=
  match a with Sync => InvalidInput | Async => InvalidData end.

(* alignment writer Builder::build_from_writer: format default SAM; compression default by format *)
Definition writer_pair_a (oc : option comp) (ofm : option afmt) : afmt * comp :=
  let f := match ofm with Some f => f | None => Sam end in
  let c := match oc with
           | Some c => c
           | None => match f with Bam => CBgzf | Sam | Cram => CNone end
           end in
  (f, c).

Definition build_writer_a (a : api) (oc : option comp) (ofm : option afmt) : res akind :=
  let (f, c) := writer_pair_a oc ofm in inner_a (writer_cram_bgzf_err a) f c.

Definition writer_pair_v (oc : option comp) (ofm : option vfmt) : vfmt * comp :=
  let f := match ofm with Some f => f | None => Vcf end in
  let c := match oc with
           | Some c => c
           | None => match f with Bcf => CBgzf | Vcf => CNone end
           end in
  (f, c).

Definition build_writer_v (oc : option comp) (ofm : option vfmt) : vkind :=
  let (f, c) := writer_pair_v oc ofm in inner_v f c.

(* Builder::build_from_path: what is not set is taken from the path; the compression method is
   then always set (Some(None) or Some(Some(Bgzf))), the format only if the extension names one *)
Definition build_writer_path_a (a : api) (oc : option comp) (ofm : option afmt) (name : list N)
  : res akind :=
  let oc' := match oc with Some c => Some c | None => Some (path_comp_a name) end in
  let ofm' := match ofm with Some f => Some f | None => path_format_a name end in
  build_writer_a a oc' ofm'.

Definition build_writer_path_v (oc : option comp) (ofm : option vfmt) (name : list N) : vkind :=
  let oc' := match oc with Some c => Some c | None => Some (path_comp_v name) end in
  let ofm' := match ofm with Some f => Some f | None => path_format_v name end in
  build_writer_v oc' ofm'.

(* ------------------------------------------------------------------------------------------ *)
(* reader builders: the Inner variant for the decided pair (build_a / build_v of NV.Util.Detect
   already contain the (Cram, Bgzf) error) *)

Definition build_reader_kind_a (oc : option comp) (ofm : option afmt) (w : list N) (i : inflated)
  : res akind :=
  match build_a oc ofm w i with
  | Err e => Err e
  | Ok (f, c) => inner_a InvalidData f c
  end.

Definition build_reader_kind_v (oc : option comp) (ofm : option vfmt) (w : list N) (i : inflated)
  : res vkind :=
  match build_v oc ofm w i with
  | Err e => Err e
  | Ok (f, c) => Ok (inner_v f c)
  end.

(* ------------------------------------------------------------------------------------------ *)
(* indexed readers *)

(* io::ErrorKind of an index file that cannot be used *)
Inductive ioerr := ENotFound | EUnexpectedEof | EInvalidInput | EInvalidData | EOther.
Inductive ires (A : Type) := IOk (a : A) | IErr (e : ioerr).
Arguments IOk {A} a.
Arguments IErr {A} e.

Definition lift_err (e : err) : ioerr :=
  match e with
  | UnexpectedEof => EUnexpectedEof
  | InvalidInput => EInvalidInput
  | InvalidData => EInvalidData
  | OtherErr => EOther
  end.

(* candidate index files next to the source <src>: <src>.bai, <src>.csi, <src>.tbi, <src>.crai *)
Inductive iext := XBai | XCsi | XTbi | XCrai.
Definition iext_bytes (x : iext) : list N :=
  match x with
  | XBai => [98; 97; 105]
  | XCsi => [99; 115; 105]
  | XTbi => [116; 98; 105]
  | XCrai => [99; 114; 97; 105]
  end.
(* push_ext: OsString(src) + "." + ext *)
Definition index_path (src : list N) (x : iext) : list N := src ++ 46 :: iext_bytes x.

(* what {bai,csi,tabix,crai}::fs::read of a candidate gives: the file is missing (NotFound), it
   is a readable index, or reading fails with some other kind (truncated: UnexpectedEof, bad magic:
   InvalidData, ...) *)
Inductive fstate := FMissing | FValid | FBad (e : ioerr).
Definition dirstate := iext -> fstate.

Definition read_index (d : dirstate) (x : iext) : ires iext :=
  match d x with
  | FMissing => IErr ENotFound
  | FValid => IOk x
  | FBad e => IErr e
  end.

(* where the index of the built reader comes from *)
Inductive isrc := FromBuilder | FromFile (x : iext).

(* the index handed to set_index of the util builder: alignment: Index::Csi (any binning index:
   BAI, CSI, tabix) or Index::Crai; variant: any binning index *)
Inductive preset := PNone | PBinning | PCrai.

(* first candidate, and a second one tried only when the first is NotFound *)
Definition read_first_or (d : dirstate) (x y : iext) : ires isrc :=
  match read_index d x with
  | IOk _ => IOk (FromFile x)
  | IErr ENotFound =>
      match read_index d y with IOk _ => IOk (FromFile y) | IErr e => IErr e end
  | IErr e => IErr e
  end.

Definition read_only (d : dirstate) (x : iext) : ires isrc :=
  match read_index d x with IOk _ => IOk (FromFile x) | IErr e => IErr e end.

(* {sam,bam,cram}::io::indexed_reader::Builder::build_from_path after the util builder passed on
   the preset index of the matching kind (a preset of the other kind is dropped silently) *)
Definition discover_a (k : akind) (p : preset) (d : dirstate) : ires isrc :=
  match k with
  | KSamGz => match p with PBinning => IOk FromBuilder | _ => read_only d XCsi end
  | KBam => match p with PBinning => IOk FromBuilder | _ => read_first_or d XBai XCsi end
  | KCram => match p with PCrai => IOk FromBuilder | _ => read_only d XCrai end
  | KSam | KBamRaw => IErr EInvalidData     (* not reached: rejected before *)
  end.

Definition discover_v (k : vkind) (p : preset) (d : dirstate) : ires isrc :=
  match k with
  | KVcfGz => match p with PBinning => IOk FromBuilder | _ => read_first_or d XTbi XCsi end
  | KBcf => match p with PBinning => IOk FromBuilder | _ => read_only d XCsi end
  | KVcf | KBcfRaw => IErr EInvalidData
  end.

(* build_from_reader of the format crates: an index must have been set *)
Definition preset_only_a (k : akind) (p : preset) : ires isrc :=
  match k, p with
  | (KSamGz | KBam), PBinning => IOk FromBuilder
  | KCram, PCrai => IOk FromBuilder
  | (KSam | KBamRaw), _ => IErr EInvalidData
  | _, _ => IErr EInvalidInput               (* "missing index" *)
  end.

Definition preset_only_v (k : vkind) (p : preset) : ires isrc :=
  match k, p with
  | (KVcfGz | KBcf), PBinning => IOk FromBuilder
  | (KVcf | KBcfRaw), _ => IErr EInvalidData
  | _, _ => IErr EInvalidInput
  end.

(* the `match (format, compression_method)` of the indexed builders: only BGZF-compressed SAM/BAM
   (VCF/BCF) and CRAM can be indexed; every other pair is InvalidData *)
Definition indexed_kind_a (f : afmt) (c : comp) : ires akind :=
  match f, c with
  | Sam, CBgzf => IOk KSamGz
  | Bam, CBgzf => IOk KBam
  | Cram, CNone => IOk KCram
  | _, _ => IErr EInvalidData
  end.

Definition indexed_kind_v (f : vfmt) (c : comp) : ires vkind :=
  match f, c with
  | Vcf, CBgzf => IOk KVcfGz
  | Bcf, CBgzf => IOk KBcf
  | _, CNone => IErr EInvalidData
  end.

(* the decision part shared with the plain reader builders, without their (Cram, Bgzf) check *)
Definition decide_a (oc : option comp) (ofm : option afmt) (w : list N) (i : inflated)
  : res (afmt * comp) :=
  let c := match oc with Some c => c | None => detect_compression w end in
  match (match ofm with Some f => Ok f | None => detect_format_a w c i end) with
  | Err e => Err e
  | Ok f => Ok (f, c)
  end.

(* alignment::io::indexed_reader::Builder::build_from_path (from_path = true, [d] = the files next
   to the source) and build_from_reader (from_path = false) *)
Definition indexed_build_a (from_path : bool) (oc : option comp) (ofm : option afmt) (p : preset)
    (w : list N) (i : inflated) (d : dirstate) : ires (akind * isrc) :=
  match decide_a oc ofm w i with
  | Err e => IErr (lift_err e)
  | Ok (f, c) =>
      match indexed_kind_a f c with
      | IErr e => IErr e
      | IOk k =>
          match (if from_path then discover_a k p d else preset_only_a k p) with
          | IErr e => IErr e
          | IOk s => IOk (k, s)
          end
      end
  end.

Definition indexed_build_v (from_path : bool) (oc : option comp) (ofm : option vfmt) (p : preset)
    (w : list N) (i : inflated) (d : dirstate) : ires (vkind * isrc) :=
  match build_v oc ofm w i with
  | Err e => IErr (lift_err e)
  | Ok (f, c) =>
      match indexed_kind_v f c with
      | IErr e => IErr e
      | IOk k =>
          match (if from_path then discover_v k p d else preset_only_v k p) with
          | IErr e => IErr e
          | IOk s => IOk (k, s)
          end
      end
  end.

(* ------------------------------------------------------------------------------------------ *)
(* finishing a writer: which operation of the layer below Inner::finish / Inner::shutdown calls *)

Inductive finop :=
  | BufFlush          (* BufWriter::flush: write what is buffered, flush the destination *)
  | BgzfTryFinish     (* bgzf::io::Writer::try_finish: last block, then the EOF block (once) *)
  | CramFinish        (* cram::io::Writer::finish(header): last container, EOF container *)
  | AsyncShutdown.    (* AsyncWriteExt::shutdown of the layer below (tokio BufWriter / async bgzf
                         writer / async format writer) *)

Definition finish_a (a : api) (k : akind) : finop :=
  match a with
  | Async => AsyncShutdown
  | Sync => match k with
            | KSam | KBamRaw => BufFlush
            | KSamGz | KBam => BgzfTryFinish
            | KCram => CramFinish
            end
  end.

Definition finish_v (a : api) (k : vkind) : finop :=
  match a with
  | Async => AsyncShutdown
  | Sync => match k with
            | KVcf | KBcfRaw => BufFlush
            | KVcfGz | KBcf => BgzfTryFinish
            end
  end.

(* The sync variant writer as a state machine over a destination that accepts everything, at the
   level of BGZF blocks (DEFLATE not modelled): [pending] = bytes accepted by write_header /
   write_record that have not reached the destination as a complete block; [blocks] = number of
   data blocks at the destination; [eofs] = number of EOF blocks at the destination; [fin] = the
   BGZF writer's is_finished flag.  Writes are smaller than a BGZF block / the BufWriter buffer
   (so nothing is flushed on the way); [delivered] = payload bytes at the destination. *)
Record vwstate := mk_vw {
  vw_kind : vkind; vw_pending : list N; vw_delivered : list N;
  vw_blocks : nat; vw_eofs : nat; vw_fin : bool }.

Definition vw_new (k : vkind) : vwstate := mk_vw k [] [] 0 0 false.

Definition vw_write (st : vwstate) (bytes : list N) : vwstate :=
  mk_vw (vw_kind st) (vw_pending st ++ bytes) (vw_delivered st) (vw_blocks st) (vw_eofs st) (vw_fin st).

(* bgzf Writer::flush: a pending block is compressed and written (is_finished := false) *)
Definition vw_flush_block (st : vwstate) : vwstate :=
  match vw_pending st with
  | [] => st
  | p => mk_vw (vw_kind st) [] (vw_delivered st ++ p) (S (vw_blocks st)) (vw_eofs st) false
  end.

Definition vw_finish (st : vwstate) : vwstate :=
  match finish_v Sync (vw_kind st) with
  | BgzfTryFinish =>
      let st1 := vw_flush_block st in
      if vw_fin st1 then st1
      else mk_vw (vw_kind st1) [] (vw_delivered st1) (vw_blocks st1) (S (vw_eofs st1)) true
  | _ =>
      mk_vw (vw_kind st) [] (vw_delivered st ++ vw_pending st) (vw_blocks st) (vw_eofs st) (vw_fin st)
  end.

(* Drop of the writer: bgzf Drop = try_finish (result ignored); BufWriter Drop = flush_buf *)
Definition vw_drop (st : vwstate) : vwstate := vw_finish st.

Inductive vwop := OpWrite (bytes : list N) | OpFinish.

Definition vw_step (st : vwstate) (o : vwop) : vwstate :=
  match o with OpWrite b => vw_write st b | OpFinish => vw_finish st end.

Definition vw_run (k : vkind) (ops : list vwop) : vwstate := fold_left vw_step ops (vw_new k).

(* everything accepted so far, in order *)
Fixpoint ops_payload (ops : list vwop) : list N :=
  match ops with
  | [] => []
  | OpWrite b :: r => b ++ ops_payload r
  | OpFinish :: r => ops_payload r
  end.
