(* C20 -- a whole SAM data set piped into the generic BAM writer (uncompressed stream).

   alignment::io::Reader (SAM): read_header, then read_record per line (lazy records);
   alignment::io::Writer (BAM, compression None): write_header (C06's write_bam_header), then
   write_alignment_record per record (C05's Bam.File.write_file), the first rejected record ends
   the run with its error.

   The input is given as the header text and the list of record lines (each with its LF): how
   sam::io::Reader splits the stream into the header and lines is C06/C12 territory and is not
   modelled here (the correspondence check hands the real reader the concatenation).
   Definitions only. *)
From Coq Require Import List NArith ZArith Bool.
From NV Require Import Base.Decimal Sam.Fields Sam.Record Sam.Header Sam.BamAgree Util.Convert.
From NV Require Bam.Record Bam.File.
Import ListNotations.
Open Scope N_scope.

Inductive cvfres :=
| CfOk (file : bytes)
| CfHeaderErr                  (* the SAM header reader rejected the text *)
| CfReadErr (i : nat)          (* line i was rejected by the reader *)
| CfWriteErr.                  (* the BAM writer rejected the header or a record *)

Section FloatOracle.
  Variable parse32 : bytes -> option N.
  Variable parse32p : bytes -> option (N * bytes).

  Fixpoint parse_lines (refs : list bytes) (i : nat) (lines : list bytes) : nat + list sam_rec :=
    match lines with
    | [] => inr []
    | l :: rest =>
        match parse_line parse32 parse32p refs l with
        | POk r => match parse_lines refs (S i) rest with inr rs => inr (r :: rs) | inl e => inl e end
        | _ => inl i
        end
    end.

  Definition convert_sam_bam_file (text : bytes) (lines : list bytes) : cvfres :=
    match read_header text with
    | None => CfHeaderErr
    | Some h =>
        match parse_lines (map sq_name (h_sq h)) 0 lines with
        | inl i => CfReadErr i
        | inr rs =>
            match Bam.File.write_file h (map (fun r => to_bam_d (lazy_i r)) rs) with
            | Bam.Record.Ok file => CfOk file
            | Bam.Record.Err _ => CfWriteErr
            end
        end
    end.
End FloatOracle.
