(* C20 -- BCF -> VCF for a WHOLE file through the generic reader and writer, with the header block:
   nothing about the header is an input.

   variant::io::Reader (BCF) read_header reads magic, version, l_text and the header text and builds
   the reader's string maps from the text (C10: Bcf.File.read_prefix); variant::io::Writer (VCF)
   write_header(&header) emits the header lines (C09: Vcf.Header.write_header); every record is read
   as a lazy bcf::Record under that header (sample-count check included: C10's Lazy.lazy_read_hdr,
   the per-record call of Bcf.File.read_lazy) and written by the VCF writer under the lookup tables
   of that header (C09: Vcf.File.hctx_of_header, Line.write_line).  Definitions only. *)
From Coq Require Import List NArith ZArith Bool.
From NV Require Import Text.TextBase Vcf.Values Vcf.Line Vcf.Header Vcf.File.
From NV Require Import Bcf.Ints Bcf.Typed Bcf.Strings Bcf.Genotype Bcf.StringMap Bcf.Record Bcf.RecordTyped Bcf.Bridge Bcf.File.
From NV Require Bcf.Lazy.
From NV Require Import Util.ConvertVariant.
Import ListNotations.
Open Scope N_scope.

Inductive cbhres :=
| BhOk (out : list N)              (* everything the VCF writer emitted: header lines + record lines *)
| BhReadHeaderErr (eof : bool)     (* bcf read_header failed: UnexpectedEof (true) / InvalidData *)
| BhWriteHeaderErr                 (* vcf Writer::write_header rejected the header *)
| BhRec (i : nat) (e : cvvres).    (* record i ended the run *)

(* one record under a header that names h_nsamples samples *)
Definition convert_bcf_vcf_h (fmt_float : N -> list N) (strings contigs : smap) (h : hctx)
    (bs : list N) : cvvres :=
  match Lazy.lazy_read_hdr (h_v44 h) strings contigs (ik_of h) (fk_of h) (Z.of_nat (h_nsamples h)) bs with
  | ROk t =>
      match write_line fmt_float h (vrec_of t) with
      | Some l => VvOk (l ++ [10])
      | None => VvWriteErr
      end
  | RErr => VvReadErr
  | RPanic => VvPanic
  end.

(* the record loop: Bcf.File.read_lazy's loop with the VCF writer called after every record *)
Fixpoint convert_bcf_vcf_hblocks (fmt_float : N -> list N) (strings contigs : smap) (h : hctx)
    (fuel : nat) (i : nat) (bs : list N) : cvvfres :=
  match fuel with
  | O => VfErr i VvReadErr
  | S k =>
      if at_end bs then VfOk []
      else
        match dec_frame bs with
        | None => VfErr i VvReadErr
        | Some (_, _, rest) =>
            match convert_bcf_vcf_h fmt_float strings contigs h bs with
            | VvOk t =>
                match convert_bcf_vcf_hblocks fmt_float strings contigs h k (S i) rest with
                | VfOk out => VfOk (t ++ out)
                | e => e
                end
            | e => VfErr i e
            end
        end
  end.

Definition convert_bcf_vcf_hfile (fmt_float : N -> list N) (bs : list N) : cbhres :=
  match read_prefix bs with
  | FOk (hd, s, c, rest) =>
      match write_header hd with
      | Some ls =>
          match convert_bcf_vcf_hblocks fmt_float s c (hctx_of_header hd) (file_fuel rest) 0 rest with
          | VfOk out => BhOk (with_lf ls ++ out)
          | VfErr i e => BhRec i e
          end
      | None => BhWriteHeaderErr
      end
  | FEof => BhReadHeaderErr true
  | FData => BhReadHeaderErr false
  end.
