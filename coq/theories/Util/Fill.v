(* C20 -- how the generic reader builders obtain the window the detectors look at, over a source
   with a delivery script (NV.Io.Source = harness/src/adversary.rs::ScriptedReader).

   Two variants of noodles-util/src/{alignment,variant}/io/reader/builder.rs::build_from_reader
   (and the async twins):

     current tree   let mut reader = BufReader::new(reader);
                    detect_compression_method(&mut reader)   // reader.fill_buf()?
                    detect_format(&mut reader, c)            // reader.fill_buf()? (same buffer)
                    => the window is what ONE inner read of 8192 bytes delivers; an Interrupted
                       result of that read is returned to the caller (fill_buf does not retry)

     repaired tree  (patch /tmp/C20/fixes/06-detect-short-first-read.diff)
                    reader.take(8192).read_to_end(&mut prefix)?;   // std: loop until Ok(0) or the
                                                                   // limit, Interrupted is retried
                    detect_compression_method(&mut &prefix[..])
                    detect_format(&mut &prefix[..], c)
                    BufReader::new(Cursor::new(prefix).chain(reader))
                    => the window is the prefix

   read_to_end's loop is [NV.Io.ReadExact.fill_loop] (ask for what is still missing, stop at
   Ok(0), retry Interrupted); std asks for other buffer sizes on the way (32-byte probe, adaptive
   growth) -- by [fill_loop_spec] the result does not depend on them.  Definitions only. *)
From Coq Require Import List NArith Arith Bool.
From NV Require Import Io.Source Io.ReadExact Io.BufReader Util.Detect.
Import ListNotations.
Open Scope nat_scope.

Inductive wres := WOk (w : list N) | WInterrupted | WNoFuel.

Definition first_window_cur (src : source) : wres :=
  match br_fill_buf src_read BUF_CAP ([], src) with
  | (ROk w, _) => WOk w
  | (RInt, _) => WInterrupted
  end.

Definition fill_fuel (src : source) : nat := S (length (s_script src) + BUF_CAP).

Definition first_window_fix (src : source) : wres :=
  match fill_loop src_read (fill_fuel src) src BUF_CAP [] with
  | (_, OutOfFuel, _) => WNoFuel
  | (prefix, _, _) => WOk prefix
  end.

Definition first_window (repaired : bool) (src : source) : wres :=
  if repaired then first_window_fix src else first_window_cur src.

(* result of build_from_reader over a source: the decision, the detector's error, or the
   ErrorKind::Interrupted of the first read handed through *)
Inductive bres (A : Type) := BOk (a : A) | BErr (e : err) | BInterrupted | BNoFuel.
Arguments BOk {A} a.
Arguments BErr {A} e.
Arguments BInterrupted {A}.
Arguments BNoFuel {A}.

Definition lift_res {A : Type} (r : res A) : bres A :=
  match r with Ok a => BOk a | Err e => BErr e end.

(* [gunzip] = flate2's MultiGzDecoder over the window (the DEFLATE oracle of NV.Util.Detect).
   With both overrides set the repaired builder reads nothing ahead and the current one fills no
   buffer: the window is not looked at. *)
Definition build_src_a (repaired : bool) (oc : option comp) (ofm : option afmt)
    (gunzip : list N -> inflated) (src : source) : bres (afmt * comp) :=
  match oc, ofm with
  | Some _, Some _ => lift_res (build_a oc ofm [] (gunzip []))
  | _, _ =>
      match first_window repaired src with
      | WOk w => lift_res (build_a oc ofm w (gunzip w))
      | WInterrupted => BInterrupted
      | WNoFuel => BNoFuel
      end
  end.

Definition build_src_v (repaired : bool) (oc : option comp) (ofm : option vfmt)
    (gunzip : list N -> inflated) (src : source) : bres (vfmt * comp) :=
  match oc, ofm with
  | Some _, Some _ => lift_res (build_v oc ofm [] (gunzip []))
  | _, _ =>
      match first_window repaired src with
      | WOk w => lift_res (build_v oc ofm w (gunzip w))
      | WInterrupted => BInterrupted
      | WNoFuel => BNoFuel
      end
  end.
