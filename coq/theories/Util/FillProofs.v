(* C20 -- proofs about NV.Util.Fill: the window of the repaired builders is the first 8 KiB of the
   stream whatever the delivery script; the window of the current builders is what the first
   read delivers; detection of written streams through either. *)
From Coq Require Import List NArith Arith Bool Lia.
From NV Require Import Io.Source Io.ReadExact Io.ReadExactProofs Io.BufReader
                       Util.Detect Util.DetectProofs Util.Fill.
Import ListNotations.
Open Scope nat_scope.

Lemma n_interrupted_le : forall sc, n_interrupted sc <= length sc.
Proof.
  induction sc as [|e sc IH]; cbn [n_interrupted length]; [lia|]. destruct e; lia.
Qed.

(* the repaired window: the first BUF_CAP bytes of the stream, for every script *)
Theorem first_window_fix_spec : forall src,
  first_window_fix src = WOk (firstn BUF_CAP (s_data src)).
Proof.
  intro src. unfold first_window_fix.
  assert (HR : rep_src src (s_data src) (n_interrupted (s_script src))) by (split; reflexivity).
  assert (Hf : n_interrupted (s_script src) + BUF_CAP < fill_fuel src).
  { unfold fill_fuel. pose proof (n_interrupted_le (s_script src)). lia. }
  destruct (fill_loop_spec src_read rep_src src_simulates (fill_fuel src) src (s_data src)
              (n_interrupted (s_script src)) BUF_CAP [] HR Hf) as [s' [m' [E _]]].
  rewrite E. cbn [app]. destruct (BUF_CAP <=? length (s_data src)); reflexivity.
Qed.

(* the current window: one read; [window s k] of NV.Util.Detect is the case "the first read
   delivers k bytes" *)
Theorem first_window_cur_spec : forall s sc,
  first_window_cur (mkSource s sc) =
    match sc with
    | [] => WOk (firstn BUF_CAP s)
    | Interrupted :: _ => WInterrupted
    | Deliver k :: _ => WOk (window s (Nat.max k 1))
    end.
Proof.
  intros s sc. unfold first_window_cur, br_fill_buf, src_read. cbn [s_script s_data].
  destruct sc as [|[k|] sc]; reflexivity.
Qed.

Lemma window_cap : forall s, window s BUF_CAP = firstn BUF_CAP s.
Proof. intro s. unfold window. rewrite Nat.min_id. reflexivity. Qed.

Section Deflate.
  Variable bgzf : list N -> list N.
  Variable gunzip : list N -> inflated.
  Hypothesis bgzf_magic : forall p, exists r, bgzf p = (31 :: 139 :: r)%N.
  Hypothesis gunzip_prefix : forall p m, exists n, avail (gunzip (firstn m (bgzf p))) = firstn n p.
  Hypothesis gunzip_whole : forall p, gunzip (bgzf p) = mk_inflated p None.
  (* from the first 8 KiB of a BGZF stream the decoder gets the 4 bytes the detector asks for,
     unless the whole stream fits the window *)
  Hypothesis gunzip_window : forall p,
    4 <= length (avail (gunzip (firstn BUF_CAP (bgzf p)))) \/ length (bgzf p) <= BUF_CAP.

  Lemma cap_ge : 5 <= Nat.min BUF_CAP BUF_CAP.
  Proof. rewrite Nat.min_id. unfold BUF_CAP. repeat apply le_n_S. apply Nat.le_0_l. Qed.

  Lemma window_ok_a_cap : forall f c amb s,
    written_a bgzf f c amb s -> window_ok_a gunzip f c amb s BUF_CAP.
  Proof.
    intros f c amb s Hw. pose proof cap_ge as Hc.
    destruct Hw as [hdr recs Hok|hdr recs Hok|rest|rest|major minor rest Hmaj]; cbn [window_ok_a].
    - intros _. exact Hc.
    - split; [lia|]. rewrite window_cap. rewrite Nat.min_id. apply gunzip_window.
    - lia.
    - split; [lia|]. rewrite window_cap. rewrite Nat.min_id. apply gunzip_window.
    - lia.
  Qed.

  Lemma window_ok_v_cap : forall f c s,
    written_v bgzf f c s -> window_ok_v gunzip f c s BUF_CAP.
  Proof.
    intros f c s Hw. pose proof cap_ge as Hc.
    destruct Hw as [rest|rest|rest|rest]; cbn [window_ok_v].
    - exact I.
    - split; [lia|]. rewrite window_cap. rewrite Nat.min_id.
      destruct (gunzip_window (vcf_text rest)) as [H|H]; [left; lia|right; exact H].
    - lia.
    - split; [lia|]. rewrite window_cap. rewrite Nat.min_id.
      destruct (gunzip_window (bcf_payload rest)) as [H|H]; [left; lia|right; exact H].
  Qed.

  (* the repaired builders: every stream of the generic writers is detected as written, for EVERY
     delivery script (any read sizes, any number of Interrupted results) *)
  Theorem detect_written_repaired_a : forall f c amb s sc,
    written_a bgzf f c amb s ->
    build_src_a true None None gunzip (mkSource s sc) = BOk (f, c).
  Proof.
    intros f c amb s sc Hw. unfold build_src_a, first_window.
    rewrite first_window_fix_spec. cbn [s_data]. rewrite <- window_cap.
    pose proof (detect_written_a_partial bgzf gunzip bgzf_magic gunzip_prefix gunzip_whole
                  f c amb s BUF_CAP Hw (window_ok_a_cap f c amb s Hw)) as H.
    unfold detect_a in H. rewrite H. reflexivity.
  Qed.

  Theorem detect_written_repaired_v : forall f c s sc,
    written_v bgzf f c s ->
    build_src_v true None None gunzip (mkSource s sc) = BOk (f, c).
  Proof.
    intros f c s sc Hw. unfold build_src_v, first_window.
    rewrite first_window_fix_spec. cbn [s_data]. rewrite <- window_cap.
    pose proof (detect_written_v_partial bgzf gunzip bgzf_magic gunzip_prefix gunzip_whole
                  f c s BUF_CAP Hw (window_ok_v_cap f c s Hw)) as H.
    unfold detect_v in H. rewrite H. reflexivity.
  Qed.

  (* the repaired decision does not depend on the script at all (also on windows of streams that
     no writer produced, and with overrides) *)
  Theorem build_src_fix_script_independent_a : forall oc ofm s sc sc',
    build_src_a true oc ofm gunzip (mkSource s sc) = build_src_a true oc ofm gunzip (mkSource s sc').
  Proof.
    intros oc ofm s sc sc'. unfold build_src_a, first_window.
    rewrite !first_window_fix_spec. reflexivity.
  Qed.

  Theorem build_src_fix_script_independent_v : forall oc ofm s sc sc',
    build_src_v true oc ofm gunzip (mkSource s sc) = build_src_v true oc ofm gunzip (mkSource s sc').
  Proof.
    intros oc ofm s sc sc'. unfold build_src_v, first_window.
    rewrite !first_window_fix_spec. reflexivity.
  Qed.

  (* the current builders over a source: the window theorems of DetectProofs apply with k = the
     size of the first delivery *)
  Theorem detect_written_current_a : forall f c amb s k sc,
    written_a bgzf f c amb s -> window_ok_a gunzip f c amb s (Nat.max k 1) ->
    build_src_a false None None gunzip (mkSource s (Deliver k :: sc)) = BOk (f, c).
  Proof.
    intros f c amb s k sc Hw Hk. unfold build_src_a, first_window.
    rewrite first_window_cur_spec.
    pose proof (detect_written_a_partial bgzf gunzip bgzf_magic gunzip_prefix gunzip_whole
                  f c amb s (Nat.max k 1) Hw Hk) as H.
    unfold detect_a in H. rewrite H. reflexivity.
  Qed.

  (* ... and they hand an Interrupted first read through to the caller *)
  Theorem current_interrupted_first_read : forall s sc,
    build_src_a false None None gunzip (mkSource s (Interrupted :: sc)) = BInterrupted /\
    build_src_v false None None gunzip (mkSource s (Interrupted :: sc)) = BInterrupted.
  Proof. intros s sc. split; reflexivity. Qed.
End Deflate.
