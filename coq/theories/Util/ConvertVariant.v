(* C20 -- variant conversions through the generic reader and writer, one record at a time, and the
   record section of a file.

   VCF -> BCF   variant::io::Reader over VCF text hands the lazy vcf::Record of a line to
                variant::io::Writer (BCF): bcf::io::Writer::write_variant_record encodes it through the
                vcf::variant::Record trait (write_site asks the record for its span: variant_span).
                Model: C09's lazy line reader [Vcf.Line.read_lazy] (every accessor forced), C09's span
                [Vcf.Line.rec_span], C10's bridge writer [Bcf.Bridge.bcf_write] (the BCF encoder on
                the values the accessors hand out).
   BCF -> VCF   the lazy bcf::Record of a block is handed to vcf::io::Writer::write_variant_record.
                Model: C10's lazy path [Bcf.Lazy.lazy_read] (the record the accessors hand out, as
                try_from_variant_record collects it), C09's line writer [Vcf.Line.write_line] + LF.

   The header context (C09's [hctx]: file format, effective INFO / FORMAT definitions, sample count)
   and the two string maps (C10's [smap]: StringMaps::try_from(&header)) are inputs: how they are
   computed from the header is C09 / C10 territory.  Float text is C09's oracle (prs_float /
   fmt_float).  Definitions only. *)
From Coq Require Import List NArith ZArith Bool.
From NV Require Import Base.Percent Text.TextBase Vcf.Values Vcf.Span Vcf.Line.
From NV Require Import Bcf.Ints Bcf.Typed Bcf.Strings Bcf.Genotype Bcf.StringMap Bcf.Record Bcf.RecordTyped Bcf.Bridge.
From NV Require Bcf.Lazy.
Import ListNotations.
Open Scope N_scope.

Inductive cvvres :=
| VvOk (out : list N)       (* what the target writer emitted for the record *)
| VvReadErr                 (* the source reader / an accessor of the lazy record failed *)
| VvSpanErr                 (* variant_span failed (write_site) *)
| VvWriteErr                (* the target writer rejected the record *)
| VvPanic.

(* ---- VCF -> BCF ---- *)
Definition convert_vcf_bcf (prs_float : list N -> option N) (v45 : bool) (strings contigs : smap)
    (h : hctx) (line : list N) : cvvres :=
  match read_lazy prs_float h line with
  | None => VvReadErr
  | Some r =>
      match rec_span v45 r with
      | TextBase.Ok n =>
          match bcf_write strings contigs h (Z.of_N n) r with
          | Ints.Ok bs => VvOk bs
          | Ints.Panic => VvPanic
          | _ => VvWriteErr
          end
      | TextBase.Err _ => VvSpanErr
      | TextBase.Panic => VvPanic
      end
  end.

(* ---- BCF -> VCF ---- *)
Definition convert_bcf_vcf (fmt_float : N -> list N) (strings contigs : smap) (h : hctx)
    (bs : list N) : cvvres :=
  match Lazy.lazy_read (h_v44 h) strings contigs (ik_of h) (fk_of h) bs with
  | ROk t =>
      match write_line fmt_float h (vrec_of t) with
      | Some l => VvOk (l ++ [10])
      | None => VvWriteErr
      end
  | RErr => VvReadErr
  | RPanic => VvPanic
  end.

(* ---- the record section of a file: VCF lines -> the BCF blocks, one after the other ---- *)
Inductive cvvfres :=
| VfOk (out : list N)
| VfErr (i : nat) (e : cvvres).      (* record i ended the run *)

Fixpoint convert_vcf_bcf_lines (prs_float : list N -> option N) (v45 : bool) (strings contigs : smap)
    (h : hctx) (i : nat) (lines : list (list N)) : cvvfres :=
  match lines with
  | [] => VfOk []
  | l :: rest =>
      match convert_vcf_bcf prs_float v45 strings contigs h l with
      | VvOk bs =>
          match convert_vcf_bcf_lines prs_float v45 strings contigs h (S i) rest with
          | VfOk out => VfOk (bs ++ out)
          | e => e
          end
      | e => VfErr i e
      end
  end.

(* the BCF reader's loop over the record section: read_record_buf until the input is used up
   (dec_frame: l_shared = 0 or fewer than 4 bytes = end of input) *)
Fixpoint bcf_read_all (fuel : nat) (strings contigs : smap) (h : hctx) (bs : list N)
  : option (list vrec) :=
  match fuel with
  | O => None
  | S k =>
      match bs with
      | [] => Some []
      | _ =>
          match dec_frame bs with
          | None => None
          | Some (_, _, rest) =>
              match bcf_read strings contigs h bs with
              | ROk r =>
                  match bcf_read_all k strings contigs h rest with
                  | Some rs => Some (r :: rs)
                  | None => None
                  end
              | _ => None
              end
          end
      end
  end.

(* ---- BCF -> VCF for the record section: blocks -> lines ---- *)
Fixpoint convert_bcf_vcf_blocks (fmt_float : N -> list N) (strings contigs : smap) (h : hctx)
    (fuel : nat) (i : nat) (bs : list N) : cvvfres :=
  match fuel with
  | O => VfErr i VvReadErr
  | S k =>
      match bs with
      | [] => VfOk []
      | _ =>
          match dec_frame bs with
          | None => VfErr i VvReadErr
          | Some (_, _, rest) =>
              match convert_bcf_vcf fmt_float strings contigs h bs with
              | VvOk t =>
                  match convert_bcf_vcf_blocks fmt_float strings contigs h k (S i) rest with
                  | VfOk out => VfOk (t ++ out)
                  | e => e
                  end
              | e => VfErr i e
              end
          end
      end
  end.
