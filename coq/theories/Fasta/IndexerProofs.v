(* C11 — proofs about the indexer model (NV.Fasta.Indexer): what it accepts, and that the fai
   geometry it returns locates every base. *)
From Coq Require Import List NArith Bool Lia ZifyBool ZifyNat ZifyN.
From NV Require Import Fasta.Layout Fasta.LayoutProofs Fasta.Indexer.
Import ListNotations.
Open Scope N_scope.

Arguments N.add : simpl never.
Arguments N.sub : simpl never.
Arguments N.mul : simpl never.
Arguments N.div : simpl never.
Arguments N.modulo : simpl never.

(* fai/record.rs: offset of 0-based base s0 relative to the record position *)
Definition offset_of (lw lb s0 : N) : N := s0 / lb * lw + s0 mod lb.

Lemma offset_of_small : forall lw lb s0, s0 < lb -> offset_of lw lb s0 = s0.
Proof.
  intros lw lb s0 H. unfold offset_of.
  rewrite N.div_small, N.mod_small by exact H. lia.
Qed.

Lemma offset_of_add : forall lw lb s, 0 < lb -> offset_of lw lb (lb + s) = lw + offset_of lw lb s.
Proof.
  intros lw lb s H. unfold offset_of.
  replace (lb + s) with (1 * lb + s) by lia.
  rewrite N.div_add_l by lia.
  replace (1 * lb + s) with (s + 1 * lb) by lia.
  rewrite N.mod_add by lia. lia.
Qed.

Lemma nth_skipn_0 : forall A (n : nat) (l : list A) d, nth n l d = nth 0 (skipn n l) d.
Proof.
  induction n as [|n IH]; intros l d; destruct l as [|x l]; try reflexivity.
  cbn [nth skipn]. apply IH.
Qed.

Lemma naive_bases_app_nondef : forall pre ls,
  Forall (fun l => is_def l = false) pre ->
  naive_bases (pre ++ ls) = concat (map content pre) ++ naive_bases ls.
Proof.
  induction 1 as [|p pre Hp F IH]; [reflexivity|].
  cbn [app naive_bases map concat]. rewrite Hp, IH. now rewrite app_assoc.
Qed.

Lemma at_end_naive_nil : forall r, at_end r = true -> naive_bases r = [].
Proof.
  intros [|l r] H; [reflexivity|]. cbn in *. now rewrite H.
Qed.

(* [located lw lb ls]: for every base index s0 of the naive parse of ls, the byte offset
   offset_of lw lb s0 into (concat ls) falls inside the content of a sequence line l, at the
   column c where the rest of the naive bases starts. *)
Definition located (elw elb : N) (ls : list (list N)) : Prop :=
  forall s0, s0 < len (naive_bases ls) ->
    exists l r (c : nat) pre,
      ls = pre ++ l :: r /\ Forall (fun l => is_def l = false) pre /\
      is_def l = false /\ (c < length (content l))%nat /\
      skipn (N.to_nat (offset_of elw elb s0)) (concat ls) = skipn c l ++ concat r /\
      skipn (N.to_nat s0) (naive_bases ls) = skipn c (content l) ++ naive_bases r.

Lemma located_here : forall elw elb l r s0,
  is_def l = false -> s0 < len (content l) -> s0 < elb ->
  exists l' r' (c : nat) pre,
      l :: r = pre ++ l' :: r' /\ Forall (fun l => is_def l = false) pre /\
      is_def l' = false /\ (c < length (content l'))%nat /\
      skipn (N.to_nat (offset_of elw elb s0)) (concat (l :: r)) = skipn c l' ++ concat r' /\
      skipn (N.to_nat s0) (naive_bases (l :: r)) = skipn c (content l') ++ naive_bases r'.
Proof.
  intros elw elb l r s0 Hd Hs Hb.
  exists l, r, (N.to_nat s0), []. unfold len in Hs.
  pose proof (content_length_le l) as Hle.
  rewrite offset_of_small by exact Hb.
  cbn [concat naive_bases app]. rewrite Hd.
  repeat split; try assumption; try lia.
  - constructor.
  - apply skipn_app_le. lia.
  - apply skipn_app_le. lia.
Qed.

Lemma located_short : forall elw elb l r,
  is_def l = false -> at_end r = true -> len (content l) <= elb -> located elw elb (l :: r).
Proof.
  intros elw elb l r Hd He Hb s0 Hs.
  cbn [naive_bases] in Hs. rewrite Hd, (at_end_naive_nil r He), app_nil_r in Hs.
  apply located_here; [assumption|assumption|lia].
Qed.

Lemma located_full : forall elw elb l r,
  is_def l = false -> len l = elw -> len (content l) = elb -> 0 < elb ->
  located elw elb r -> located elw elb (l :: r).
Proof.
  intros elw elb l r Hd Hw Hb Hpos Hr s0 Hs.
  destruct (N.ltb_spec s0 elb) as [Hlt|Hge].
  - apply located_here; [assumption|lia|assumption].
  - cbn [naive_bases] in Hs. rewrite Hd, len_app in Hs.
    destruct (Hr (s0 - elb)) as [l' [r' [c [pre [E [Fp [Hd' [Hc [Hsk Hnb]]]]]]]]]; [lia|].
    exists l', r', c, (l :: pre). unfold len in Hw, Hb.
    split; [now rewrite E|]. split; [now constructor|]. split; [assumption|]. split; [assumption|].
    replace s0 with (elb + (s0 - elb)) by lia.
    rewrite offset_of_add by assumption.
    cbn [concat naive_bases]. rewrite Hd. split.
    + rewrite skipn_app.
      replace (N.to_nat (elw + offset_of elw elb (s0 - elb)) - length l)%nat
        with (N.to_nat (offset_of elw elb (s0 - elb))) by lia.
      rewrite skipn_all2 by lia. cbn [app]. exact Hsk.
    + rewrite skipn_app.
      replace (N.to_nat (elb + (s0 - elb)) - length (content l))%nat with (N.to_nat (s0 - elb)) by lia.
      rewrite skipn_all2 by lia. cbn [app]. exact Hnb.
Qed.

(* ---- what the loop accepts ---- *)

(* regular lw lb ls rest: ls = full lines (width lw, lb bases) ++ optional shorter last line ++ rest,
   and rest is the end of the input or starts with a definition *)
Inductive regular (elw elb : N) : list (list N) -> list (list N) -> Prop :=
| R_end ls : at_end ls = true -> regular elw elb ls ls
| R_last l r : is_def l = false -> at_end r = true -> len l <= elw -> len (content l) <= elb ->
               regular elw elb (l :: r) r
| R_full l r rest : is_def l = false -> len l = elw -> len (content l) = elb ->
                    regular elw elb r rest -> regular elw elb (l :: r) rest.

Lemma seq_loop_regular : forall elw elb ls bc off bc' off' rest,
  seq_loop elw elb ls bc off = inr (bc', off', rest) -> regular elw elb ls rest.
Proof.
  induction ls as [|l r IH]; intros bc off bc' off' rest H; cbn [seq_loop] in H.
  - injection H as _ _ E. subst rest. now apply R_end.
  - destruct (is_def l) eqn:Hd.
    + injection H as _ _ E. subst rest. apply R_end. exact Hd.
    + destruct (at_end r && (len l <=? elw) && (len (content l) <=? elb)) eqn:Hc.
      * injection H as _ _ E. subst rest.
        apply andb_prop in Hc. destruct Hc as [Hc H3]. apply andb_prop in Hc. destruct Hc as [H1 H2].
        apply R_last; [assumption|assumption|lia|lia].
      * destruct (len (content l) =? elb) eqn:Eb; cbn [negb] in H; [|discriminate].
        destruct (len l =? elw) eqn:Ew; cbn [negb] in H; [|discriminate].
        apply R_full; [assumption|lia|lia|]. exact (IH _ _ _ _ _ H).
Qed.

Lemma regular_at_end_rest : forall elw elb ls rest, regular elw elb ls rest -> at_end rest = true.
Proof. induction 1; assumption. Qed.

Lemma regular_accepted : forall elw elb ls rest,
  regular elw elb ls rest -> forall bc off, exists bc' off', seq_loop elw elb ls bc off = inr (bc', off', rest).
Proof.
  induction 1 as [ls He|l r Hd He Hw Hb|l r rest Hd Hw Hb Hr IH]; intros bc off.
  - destruct ls as [|l r]; cbn [seq_loop]; [eauto|]. cbn in He. rewrite He. eauto.
  - cbn [seq_loop]. rewrite Hd, He.
    replace (len l <=? elw) with true by lia. replace (len (content l) <=? elb) with true by lia.
    cbn [andb]. eauto.
  - cbn [seq_loop]. rewrite Hd.
    destruct (at_end r && (len l <=? elw) && (len (content l) <=? elb)) eqn:Hc.
    + apply andb_prop in Hc. destruct Hc as [Hc _]. apply andb_prop in Hc. destruct Hc as [He _].
      assert (rest = r).
      { inversion Hr as [ls' He'|l' r' Hd' He' Hw' Hb'|l' r' rest' Hd' Hw' Hb' Hr']; subst; try reflexivity;
          cbn in He; congruence. }
      subst rest. eauto.
    + replace (len (content l) =? elb) with true by lia. replace (len l =? elw) with true by lia.
      cbn [negb]. apply IH.
Qed.

(* consumed prefix, offsets and base count *)
Lemma seq_loop_result : forall elw elb ls bc off bc' off' rest,
  seq_loop elw elb ls bc off = inr (bc', off', rest) ->
  bc' = bc + len (naive_bases ls) /\
  exists consumed, ls = consumed ++ rest /\ off' = off + len (concat consumed) /\
                   Forall (fun l => is_def l = false) consumed.
Proof.
  induction ls as [|l r IH]; intros bc off bc' off' rest H; cbn [seq_loop] in H.
  - injection H as E1 E2 E3. subst. split; [cbn; lia|]. exists []. cbn. repeat split; [lia|constructor].
  - destruct (is_def l) eqn:Hd.
    + injection H as E1 E2 E3. subst. cbn [naive_bases]. rewrite Hd. split; [cbn; lia|].
      exists []. cbn. repeat split; [lia|constructor].
    + cbn [naive_bases]. rewrite Hd, len_app.
      destruct (at_end r && (len l <=? elw) && (len (content l) <=? elb)) eqn:Hc.
      * injection H as E1 E2 E3. subst.
        apply andb_prop in Hc. destruct Hc as [Hc _]. apply andb_prop in Hc. destruct Hc as [He _].
        rewrite (at_end_naive_nil _ He). split; [cbn; lia|].
        exists [l]. cbn [app concat]. rewrite app_nil_r. repeat split. constructor; [assumption|constructor].
      * destruct (len (content l) =? elb) eqn:Eb; cbn [negb] in H; [|discriminate].
        destruct (len l =? elw) eqn:Ew; cbn [negb] in H; [|discriminate].
        destruct (IH _ _ _ _ _ H) as [E [consumed [E1 [E2 F]]]].
        split; [lia|]. exists (l :: consumed). cbn [app concat]. rewrite len_app.
        repeat split; [now rewrite E1|lia|now constructor].
Qed.

Lemma seq_loop_located : forall elw elb ls bc off res,
  0 < elb -> seq_loop elw elb ls bc off = inr res -> located elw elb ls.
Proof.
  intros elw elb ls bc off [[bc' off'] rest] Hpos H.
  apply seq_loop_regular in H.
  induction H as [ls He|l r Hd He Hw Hb|l r rest Hd Hw Hb Hr IH].
  - intros s0 Hs. rewrite (at_end_naive_nil _ He) in Hs. cbn in Hs. lia.
  - now apply located_short.
  - now apply located_full.
Qed.

(* ---- index_record ---- *)

Definition accepted_layout (body rest : list (list N)) (lw lb : N) : Prop :=
  exists l1 r1, body = l1 :: r1 /\ is_def l1 = false /\ lw = len l1 /\ lb = len (content l1) /\
                0 < lb /\ regular lw lb r1 rest.

Lemma index_record_spec : forall d body off r off' rest,
  index_record (d :: body) off = inr (Some (r, off', rest)) ->
  parse_def_name (def_content d) = Some (f_name r) /\
  f_pos r = off + len d /\
  0 < f_lb r /\
  f_len r = len (naive_bases body) /\
  located (f_lw r) (f_lb r) body /\
  accepted_layout body rest (f_lw r) (f_lb r) /\
  exists consumed, body = consumed ++ rest /\ off' = f_pos r + len (concat consumed) /\
                   Forall (fun l => is_def l = false) consumed.
Proof.
  intros d body off r off' rest H. cbn [index_record] in H.
  destruct (parse_def_name (def_content d)) as [name|] eqn:Hn; [|discriminate].
  destruct body as [|l1 r1]; cbn [consume_sequence_line] in H.
  - cbn in H. discriminate.
  - destruct (is_def l1) eqn:Hd.
    + cbn in H. discriminate.
    + destruct (len (content l1) =? 0) eqn:E0; [discriminate|].
      destruct (seq_loop (len l1) (len (content l1)) r1 (len (content l1)) (off + len d + len l1))
        as [e|[[bc off3] rest']] eqn:HL; [discriminate|].
      injection H as E1 E2 E3. subst r off' rest'. cbn [f_name f_pos f_lb f_lw f_len].
      assert (Hpos : 0 < len (content l1)) by lia.
      pose proof (seq_loop_located _ _ _ _ _ _ Hpos HL) as Hloc.
      pose proof (seq_loop_regular _ _ _ _ _ _ _ _ HL) as Hreg.
      destruct (seq_loop_result _ _ _ _ _ _ _ _ HL) as [Ebc [consumed [Ec [Eo F]]]].
      split; [reflexivity|]. split; [reflexivity|]. split; [assumption|].
      split; [cbn [naive_bases]; rewrite Hd, len_app; lia|].
      split; [apply located_full; auto|].
      split; [exists l1, r1; repeat split; auto|].
      exists (l1 :: consumed). cbn [app concat]. rewrite len_app.
      repeat split; [now rewrite Ec|lia|now constructor].
Qed.

(* conversely every regular layout with a well-formed definition is accepted *)
Lemma index_record_accepts : forall d body rest name lw lb off,
  parse_def_name (def_content d) = Some name ->
  accepted_layout body rest lw lb ->
  exists r off', index_record (d :: body) off = inr (Some (r, off', rest)) /\
                 f_name r = name /\ f_lw r = lw /\ f_lb r = lb.
Proof.
  intros d body rest name lw lb off Hn [l1 [r1 [E [Hd [Ew [Eb [Hpos Hreg]]]]]]].
  subst body lw lb. cbn [index_record consume_sequence_line]. rewrite Hn, Hd.
  replace (len (content l1) =? 0) with false by lia.
  destruct (regular_accepted _ _ _ _ Hreg (len (content l1)) (off + len d + len l1)) as [bc' [off' HL]].
  rewrite HL. eexists. eexists. split; [reflexivity|]. cbn. auto.
Qed.

(* the byte at the computed offset of base i+1 is base i of the naive parse *)
Lemma fai_offset_correct_body : forall d body off r off' rest i dflt,
  index_record (d :: body) off = inr (Some (r, off', rest)) ->
  i < f_len r ->
  nth (N.to_nat (offset_of (f_lw r) (f_lb r) i)) (concat body) dflt
  = nth (N.to_nat i) (naive_bases body) dflt.
Proof.
  intros d body off r off' rest i dflt H Hi.
  destruct (index_record_spec _ _ _ _ _ _ H) as [_ [_ [_ [Hlen [Hloc _]]]]].
  rewrite Hlen in Hi.
  destruct (Hloc i Hi) as [l [r' [c [pre [E [_ [Hd [Hc [Hsk Hnb]]]]]]]]].
  rewrite nth_skipn_0, Hsk. rewrite (nth_skipn_0 _ (N.to_nat i)), Hnb.
  pose proof (content_length_le l) as Hle.
  rewrite !app_nth1 by (rewrite skipn_length; lia).
  rewrite <- !nth_skipn_0. now apply content_nth.
Qed.

(* ---- the whole file ---- *)

(* every record of an accepted file was indexed at its definition line, with the offset
   equal to the number of bytes before it *)
Lemma index_loop_sound : forall fuel ls off recs e pre,
  index_loop fuel ls off = (recs, e) -> off = len (concat pre) ->
  forall r, In r recs ->
    exists pre' d body off' rest,
      pre ++ ls = pre' ++ d :: body /\
      index_record (d :: body) (len (concat pre')) = inr (Some (r, off', rest)).
Proof.
  induction fuel as [|fuel IH]; intros ls off recs e pre H Hoff r Hin; cbn [index_loop] in H.
  - injection H as E _. subst recs. destruct Hin.
  - destruct (index_record ls off) as [err|[[[r0 off'] rest]|]] eqn:HR.
    + injection H as E _. subst recs. destruct Hin.
    + destruct (index_loop fuel rest off') as [rs e'] eqn:HL.
      injection H as E _. subst recs.
      destruct ls as [|d body]; [cbn in HR; discriminate|].
      destruct (index_record_spec _ _ _ _ _ _ HR) as [_ [Hp [_ [_ [_ [_ [consumed [Ec [Eo _]]]]]]]]].
      destruct Hin as [Hin|Hin].
      * subst r0. exists pre, d, body, off', rest. split; [reflexivity|]. now rewrite <- Hoff.
      * assert (Hoff' : off' = len (concat (pre ++ d :: consumed))).
        { rewrite concat_app, len_app. cbn [concat]. rewrite len_app. lia. }
        destruct (IH rest off' rs e' (pre ++ d :: consumed) HL Hoff' r Hin)
          as [pre' [d' [body' [off'' [rest' [E HR']]]]]].
        exists pre', d', body', off'', rest'. split; [|exact HR'].
        rewrite <- E, Ec, <- app_assoc. reflexivity.
    + injection H as E _. subst recs. destruct Hin.
Qed.
