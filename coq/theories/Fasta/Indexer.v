(* C11 — model of noodles-fasta/src/io/indexer.rs (Indexer::index_record and the loop of
   fs/index.rs) over the raw lines of a file.

   The Rust code consumes the input strictly line by line (read_line for the definition,
   consume_sequence_line for a sequence line, and a one-byte peek `is_last_sequence_line`), so the
   model runs over [lines f]; offsets are the running sum of raw line lengths.  What is modelled
   is the behaviour for a source whose fill_buf never splits a line at a bare CR or before a
   mid-line '>' (independence from the chunking is property C12's subject). *)
From Coq Require Import List NArith Bool.
From NV Require Import Fasta.Layout.
Import ListNotations.
Open Scope N_scope.

Inductive ierr : Type :=
| EInvalidData                        (* IndexError::Io(InvalidData): malformed definition *)
| EEmptySequence (offset : N)
| EInvalidLineBases (actual expected : N)
| EInvalidLineWidth (actual expected : N)
| EOutOfFuel.                         (* never produced for fuel > number of lines *)

Record fai : Type := mkfai {
  f_name : list N;
  f_len : N;       (* length *)
  f_pos : N;       (* position (offset of the first base) *)
  f_lb : N;        (* line_base_count *)
  f_lw : N         (* line_width *)
}.

(* `src.is_empty() || src[0] == '>'` *)
Definition at_end (ls : list (list N)) : bool :=
  match ls with
  | [] => true
  | l :: _ => is_def l
  end.

(* consume_sequence_line: ((line_width, line_base_count), remaining input) *)
Definition consume_sequence_line (ls : list (list N)) : (N * N) * list (list N) :=
  match ls with
  | [] => ((0, 0), [])
  | l :: r => if is_def l then ((0, 0), ls) else ((len l, len (content l)), r)
  end.

(* the `loop` of index_record; elw/elb = expected line width / base count;
   bc = base_count so far, off = self.offset *)
Fixpoint seq_loop (elw elb : N) (ls : list (list N)) (bc off : N)
  : ierr + (N * N * list (list N)) :=
  match ls with
  | [] => inr (bc, off, [])
  | l :: r =>
      if is_def l then inr (bc, off, ls)
      else
        let lw := len l in
        let lb := len (content l) in
        if at_end r && (lw <=? elw) && (lb <=? elb) then inr (bc + lb, off + lw, r)
        else if negb (lb =? elb) then inl (EInvalidLineBases lb elb)
        else if negb (lw =? elw) then inl (EInvalidLineWidth lw elw)
        else seq_loop elw elb r (bc + lb) (off + lw)
  end.

(* Indexer::index_record at a definition line; off = self.offset before the call.
   inr None = end of input. *)
Definition index_record (ls : list (list N)) (off : N)
  : ierr + option (fai * N * list (list N)) :=
  match ls with
  | [] => inr None
  | d :: r =>
      let off1 := off + len d in
      match parse_def_name (def_content d) with
      | None => inl EInvalidData
      | Some name =>
          let '((lw, lb), r1) := consume_sequence_line r in
          let off2 := off1 + lw in
          if lb =? 0 then inl (EEmptySequence off2)
          else
            match seq_loop lw lb r1 lb off2 with
            | inl e => inl e
            | inr (bc, off3, rest) => inr (Some (mkfai name bc off1 lb lw, off3, rest))
            end
      end
  end.

(* fs::index: records until the end of input, or the records indexed so far and the error *)
Fixpoint index_loop (fuel : nat) (ls : list (list N)) (off : N) : list fai * option ierr :=
  match fuel with
  | O => ([], Some EOutOfFuel)
  | S fuel' =>
      match index_record ls off with
      | inl e => ([], Some e)
      | inr None => ([], None)
      | inr (Some (r, off', rest)) =>
          let '(rs, e) := index_loop fuel' rest off' in (r :: rs, e)
      end
  end.

Definition index_file (f : list N) : list fai * option ierr :=
  index_loop (S (length (lines f))) (lines f) 0.
