(* C11 — the lift from one record to the whole file: the records the indexer returns are, in
   order, the records of the naive whole-file parse [naive_file] (all of them when the indexer
   succeeds, a prefix when it stops with an error), each with the right name, length, base
   offsets and exact region queries. *)
From Coq Require Import List NArith Bool Lia ZifyBool ZifyNat ZifyN.
From NV Require Import Fasta.Layout Fasta.LayoutProofs Fasta.Indexer Fasta.IndexerProofs
                       Fasta.Query Fasta.QueryProofs.
Import ListNotations.
Open Scope N_scope.

Arguments N.add : simpl never.
Arguments N.sub : simpl never.

(* what it means for fai record r of file f to index the naive record nb = (name, bases) *)
Definition rec_matches (f : list N) (r : fai) (nb : list N * list N) : Prop :=
  let B := snd nb in
  f_name r = fst nb /\ f_len r = len B /\
  (forall i dflt, i < len B ->
     exists pos, fai_query r i = Some pos /\ nth (N.to_nat pos) f dflt = nth (N.to_nat i) B dflt) /\
  (~ In CR B -> ~ In GT B -> forall chk s e,
     let st := match s with Some p => p | None => 1 end in
     let en := match e with Some p => p | None => usize_max end in
     1 <= st -> st <= f_len r -> st <= en ->
     query_record chk f r s e
     = QOk (firstn (N.to_nat (en - st + 1)) (skipn (N.to_nat (st - 1)) B))).

Lemma naive_records_skip : forall pre ls, Forall (fun l => is_def l = false) pre ->
  naive_records (pre ++ ls) = naive_records ls.
Proof.
  induction 1 as [|p pre Hp F IH]; [reflexivity|]. cbn [app naive_records]. now rewrite Hp.
Qed.

Lemma strip_last_head : forall c x t y t', strip_last c (x :: t) = y :: t' -> y = x.
Proof.
  intros c x t y t' H. destruct (strip_last_decomp c (x :: t)) as [s [Hs _]].
  rewrite H in Hs. cbn in Hs. congruence.
Qed.

(* a line whose content parses as a definition starts with '>' *)
Lemma parsed_is_def : forall d n, parse_def_name (def_content d) = Some n -> is_def d = true.
Proof.
  intros d n H. destruct (def_content d) as [|b r] eqn:E; [discriminate|].
  cbn [parse_def_name] in H. destruct (b =? GT) eqn:Eb; [|discriminate].
  assert (b = GT) by lia. subst b.
  destruct d as [|x t]; [discriminate|]. cbn [is_def].
  unfold def_content in E. destruct (ends_with LF (x :: t)).
  - destruct (strip_last LF (x :: t)) as [|y t'] eqn:E1; [discriminate|].
    apply strip_last_head in E. apply strip_last_head in E1. subst. lia.
  - injection E as -> _. lia.
Qed.

Lemma index_loop_whole : forall f fuel ls off recs e pre,
  lines f = pre ++ ls -> off = len (concat pre) ->
  index_loop fuel ls off = (recs, e) ->
  Forall2 (rec_matches f) recs (firstn (length recs) (naive_records ls)) /\
  (e = None -> length recs = length (naive_records ls)).
Proof.
  intros f. induction fuel as [|fuel IH]; intros ls off recs e pre HL Hoff H; cbn [index_loop] in H.
  - injection H as <- <-. split; [constructor|discriminate].
  - destruct (index_record ls off) as [err|[[[r0 off'] rest]|]] eqn:HR.
    + injection H as <- <-. split; [constructor|discriminate].
    + destruct (index_loop fuel rest off') as [rs e'] eqn:HLoop.
      injection H as <- <-.
      destruct ls as [|d body]; [cbn in HR; discriminate|].
      subst off.
      destruct (index_record_spec _ _ _ _ _ _ HR) as [Hn [Hp [_ [Hlen [_ [_ [consumed [Ec [Eo F]]]]]]]]].
      assert (Hd : is_def d = true) by exact (parsed_is_def _ _ Hn).
      assert (Hnr : naive_records (d :: body) = (f_name r0, naive_bases body) :: naive_records rest).
      { cbn [naive_records]. rewrite Hd. unfold def_name. rewrite Hn. f_equal.
        rewrite Ec. now apply naive_records_skip. }
      assert (HL' : lines f = (pre ++ d :: consumed) ++ rest).
      { rewrite HL, Ec, <- app_assoc. reflexivity. }
      assert (Hoff' : off' = len (concat (pre ++ d :: consumed))).
      { rewrite Eo, Hp, concat_app, len_app. cbn [concat]. rewrite len_app. lia. }
      destruct (IH rest off' rs e' _ HL' Hoff' HLoop) as [HF Hcnt].
      rewrite Hnr. cbn [length firstn]. split.
      * constructor; [|exact HF].
        unfold rec_matches. cbn [fst snd].
        split; [reflexivity|]. split; [exact Hlen|]. split.
        -- intros i dflt Hi.
           apply (record_offset_correct f pre d body r0 off' rest HL HR). lia.
        -- intros Hcr Hgt chk s e0.
           exact (record_query_exact f pre d body r0 off' rest HL HR chk s e0 Hcr Hgt).
      * intros E. cbn [length]. f_equal. now apply Hcnt.
    + injection H as <- <-. split; [constructor|]. intros _.
      destruct ls as [|d body]; [reflexivity|]. cbn [index_record] in HR.
      destruct (parse_def_name (def_content d)); [|discriminate].
      destruct (consume_sequence_line body) as [[lw lb] r1].
      destruct (lb =? 0); [discriminate|].
      destruct (seq_loop lw lb r1 lb (off + len d + lw)) as [x|[[? ?] ?]]; discriminate.
Qed.

(* the whole file *)
Theorem index_file_whole : forall f recs e,
  index_file f = (recs, e) ->
  Forall2 (rec_matches f) recs (firstn (length recs) (naive_file f)) /\
  (e = None -> length recs = length (naive_file f)).
Proof.
  intros f recs e H. unfold index_file in H.
  exact (index_loop_whole f _ (lines f) 0 recs e [] eq_refl eq_refl H).
Qed.

Corollary index_file_whole_ok : forall f recs,
  index_file f = (recs, None) -> Forall2 (rec_matches f) recs (naive_file f).
Proof.
  intros f recs H. destruct (index_file_whole f recs None H) as [HF Hc].
  rewrite (Hc eq_refl), firstn_all in HF. exact HF.
Qed.
