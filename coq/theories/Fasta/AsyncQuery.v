(* C11 — random access with the async FASTA reader.  noodles-fasta/src/async/io/reader.rs has no
   `query`; the documented way is
       let pos = index.query(&region)?;                     // fai: Index::query -> Record::query
       reader.seek(SeekFrom::Start(pos)).await?;            // tokio BufReader: buffer discarded
       reader.read_sequence(&mut buf).await?;               // async/io/reader/sequence.rs
   i.e. the bases from the region start to the END of the record (the async reader has no
   read_sequence_limit).  The awaited source, tokio's BufReader and the async read_sequence loop
   are C16's models NV.Async.{ReadExact,Lines} (read-only): [a_read_sequence aread cap ab_fuel
   fasta_bol_cr_fixed] over a poll script. *)
From Coq Require Import List NArith Arith Bool.
From NV Require Import Io.Source Io.BufReader Io.FastaScan.
From NV Require Import Async.ReadExact Async.Lines.
From NV Require Import Fasta.Layout Fasta.Indexer Fasta.Query.
Import ListNotations.

(* after the name lookup; s = the 1-based start of the region (None = 1); the poll script
   [codes] (0 = Pending, k+1 = Ready with at most k bytes) applies to the reads after the seek *)
Definition async_query (chk : bool) (cap : nat) (codes : list nat) (f : list N) (r : fai)
           (s : option N) : sres * qres :=
  let start0 := match s with Some p => (p - 1)%N | None => 0%N end in
  match fai_query_gen chk r start0 with
  | None => (SOk, QErrInvalidInput)
  | Some pos =>
      match a_read_sequence aread cap ab_fuel fasta_bol_cr_fixed (ab_start (seek f pos) codes) with
      | (x, out, _, _) => (x, QOk out)
      end
  end.

Definition index_and_async_query (cap : nat) (codes : list nat) (f : list N) (name : list N)
           (s : option N) : sres * qres :=
  match find_record (fst (index_file f)) name with
  | None => (SOk, QErrInvalidInput)
  | Some r => async_query true cap codes f r s
  end.
