(* C11 — the BGZF region query with ANY correct gzi index, and the virtual position afterwards.

   (1) [seek_lands]: when the entry the exact binary search (C02's GziBs) selects for offset p names
       the block holding byte p, seek_by_uncompressed_position leaves the reader in a state that
       refines "flat offset p" (C02's seek_refines);
   (2) [query_bgzf_any_flat] / [query_bgzf_any_exact]: hence the query equals the query on the
       uncompressed text / returns exactly the bases of the naive parse, for every index that is
       correct for the file ([gzi_correct]);
   (3) [gzi_sparse_correct]: the index of the file with the entries of any set of EMPTY blocks left
       out is correct (gzi_of F itself is the case "none left out");
   (4) [query_bgzf_any_vpos]: the virtual position reported after the query is defined, denotes a
       flat offset o with pos <= o <= |text|, and the reader state there refines "flat offset o". *)
From Coq Require Import List NArith Arith Bool Lia ZifyBool ZifyNat ZifyN Sorting.Sorted.
From NV Require Import Io.Source Io.ReadExactProofs Io.BufReader Io.BufReaderProofs
                       Io.FastaScan Io.FastaScanProofs Io.FastaIndex Io.FastaIndexProofs.
From NV Require Import Fasta.Layout Fasta.LayoutProofs Fasta.Indexer Fasta.IndexerProofs
                       Fasta.Query Fasta.QueryProofs Fasta.Delivery Fasta.DeliveryProofs
                       Fasta.Bgzip Fasta.BgzipProofs Fasta.BgzipGzi.
From NV Require Bgzf.Vpos Bgzf.VposProofs Bgzf.Gzi Bgzf.ReaderOps Bgzf.FlatRef Bgzf.ReaderOpsProofs
                Bgzf.ReaderTellProofs Bgzf.GziBs Bgzf.GziBsProofs.
Import ListNotations.
Local Open Scope nat_scope.

Module GB := NV.Bgzf.GziBs.
Module GBP := NV.Bgzf.GziBsProofs.

Lemma rsl_st_fst : forall St (rd : reader St) cap fuel max s acc,
  fst (read_sequence_limit_st rd cap fuel max s acc) = read_sequence_limit rd cap fuel max s acc.
Proof.
  intros St rd cap. induction fuel as [|fuel IH]; intros max s acc;
    cbn [read_sequence_limit_st read_sequence_limit];
    (destruct (max <=? len acc)%N; [reflexivity|]); [reflexivity|].
  destruct s as [[ib p] st].
  destruct (seq_fill_buf rd cap (S fuel) ib p st) as [[x piece] s'].
  destruct x; [|reflexivity]. destruct piece as [|q piece']; [reflexivity|]. apply IH.
Qed.

Section Any.
  Variable F : RO.file.
  Hypothesis Hwf : ROP.wf F.
  Hypothesis Hmax : (FR.total_csize F <= Vpos.MAX_COMPRESSED_POSITION)%N.
  Let D := bz_text F.

  Lemma seek_lands : forall idx st0 s0 p, ROP.Inv F st0 s0 -> gzi_lands F idx p ->
    snd (GB.seek_by_uncompressed_position_bs true F idx st0 p) = Vpos.Ok p /\
    ROP.Inv F (fst (GB.seek_by_uncompressed_position_bs true F idx st0 p))
              (FR.f_seek_flat (FR.chunks F) p).
  Proof.
    intros idx st0 s0 p HI (pre & b & post & HF & He & Hlo & Hhi).
    assert (Hwf' : ROP.wf pre /\ ROP.wf (b :: post)).
    { pose proof Hwf as H. rewrite HF in H. apply ROP.wf_app in H. exact H. }
    destruct Hwf' as [Hwp Hwq].
    assert (Hb : (0 < RO.csize b /\ RO.flen b <= 65536)%N) by (inversion Hwq; assumption).
    remember (p - FR.total_dlen pre)%N as d eqn:Hd.
    assert (Hc : (FR.total_csize pre <= Vpos.MAX_COMPRESSED_POSITION)%N).
    { pose proof Hmax as H. rewrite HF, ROP.csum_app in H. lia. }
    unfold GB.seek_by_uncompressed_position_bs, GB.gzi_query_bs. rewrite He.
    destruct (N.ltb_spec p (FR.total_dlen pre)) as [Hx|_]; [lia|].
    rewrite <- Hd. destruct (N.leb_spec 65536 d) as [Hx|_]; [lia|].
    unfold Vpos.vpos_try_from.
    destruct (N.leb_spec (FR.total_csize pre) Vpos.MAX_COMPRESSED_POSITION) as [_|Hx]; [|lia].
    set (v := Vpos.pack (FR.total_csize pre) d).
    assert (Hvc : Vpos.vcomp v = FR.total_csize pre) by (apply VposProofs.vcomp_pack; lia).
    assert (Hvu : Vpos.vuncomp v = d) by (apply VposProofs.vuncomp_pack; lia).
    pose proof (ROP.frame_start_prefix pre (b :: post) 0 0 Hwp) as Hfs.
    rewrite !N.add_0_l in Hfs. rewrite <- HF in Hfs. cbn [ROP.hdlen] in Hfs. rewrite <- Hvc in Hfs.
    assert (Hul : (Vpos.vuncomp v <= RO.flen b)%N) by (rewrite Hvu; lia).
    assert (Hok : ROP.seek_ok true F st0 v) by (intros Hfx; discriminate).
    destruct (ROP.seek_refines true F st0 s0 v (FR.total_dlen pre) (RO.flen b) Hwf HI Hfs Hul Hok)
      as [Hr HI'].
    destruct (RO.seek true F st0 v) as [st' r]. cbn [fst snd] in *. subst r. cbn [fst snd].
    split; [reflexivity|].
    assert (H1 : FR.win_at (FR.chunks F) p = (RO.flen b - d)%N).
    { rewrite HF. replace p with (FR.total_dlen pre + d)%N by lia.
      rewrite ROP.win_at_prefix. apply ROP.win_at_head. lia. }
    assert (H2 : FR.win_at (FR.chunks F) (FR.total_dlen pre) = RO.flen b).
    { pose proof (ROP.win_at_prefix pre (b :: post) 0) as H. rewrite N.add_0_r, <- HF in H.
      rewrite H, ROP.win_at_head by lia. lia. }
    eapply ROP.Inv_ext; [exact HI' | |]; unfold FR.f_seek, FR.f_seek_flat; cbn [FR.off FR.win].
    - lia.
    - rewrite H1, H2, Hvu. reflexivity.
  Qed.

  Theorem query_bgzf_any_flat : forall chk idx st0 s0 r s e,
    ROP.Inv F st0 s0 ->
    (forall pos, fai_query_gen chk r (match s with Some p => (p - 1)%N | None => 0%N end) = Some pos ->
                 gzi_lands F idx pos) ->
    fst (query_bgzf_any chk F idx st0 r s e) = ZOk (query_record chk D r s e).
  Proof.
    intros chk idx st0 s0 r s e HI Hpos. unfold query_bgzf_any, query_record.
    destruct (fai_query_gen chk r _) as [pos|]; [|reflexivity].
    specialize (Hpos pos eq_refl).
    destruct (seek_lands idx st0 s0 pos HI Hpos) as [Hr HI1].
    destruct (GB.seek_by_uncompressed_position_bs true F idx st0 pos) as [st1 rr].
    cbn [fst snd] in Hr, HI1. subst rr.
    destruct (_ <? _)%N; [reflexivity|].
    match goal with |- context [read_sequence_limit_st bz_read BZ_CAP ?fu ?mx ?s0 ?ac] =>
      pose proof (rsl_st_fst _ bz_read BZ_CAP fu mx s0 ac) as Hf;
      destruct (read_sequence_limit_st bz_read BZ_CAP fu mx s0 ac) as [[x bases] [[ib2 p2] [b2 st2]]]
    end.
    cbn [fst] in Hf.
    rewrite (read_sequence_limit_spec bz_read (bz_rep F) (bz_simulates F Hwf) BZ_CAP bz_cap_pos _ _ true false
               ([], st1) (seek D pos) 0 []) in Hf.
    - injection Hf as Hx Hbases. subst x bases. cbn [fst app]. f_equal. f_equal.
      symmetry. apply rsl_lines_seq_spec.
    - exists (seek D pos). cbn [fst snd app]. split; [reflexivity|]. split; [reflexivity|].
      exists (FR.f_seek_flat (FR.chunks F) pos). split; [exact HI1|].
      unfold FR.f_seek_flat. cbn [FR.off]. apply seek_skipn.
    - intros H; discriminate.
    - unfold mu, bz_fuel. fold (bz_text F). fold D. rewrite seek_skipn, skipn_length. lia.
    - unfold Layout.len. cbn [length]. lia.
  Qed.

  (* ---- the reader state after the query ---- *)

  (* the real BGZF reader state: the model's with the cursor moved back over the scanner's buffer *)
  Definition J (p0 : N) (bs : bstate RO.state) : Prop :=
    exists s, ROP.Inv F (bz_unread (snd bs) (RO.len (fst bs))) s /\
              (RO.len (fst bs) <= RO.cur (snd bs))%N /\ (RO.cur (snd bs) <= RO.blen (snd bs))%N /\
              (p0 <= FR.off s)%N.

  Lemma bz_unread_0 : forall st, bz_unread st 0 = st.
  Proof. intros [r p bp bs bl c bf]. unfold bz_unread. cbn. f_equal. lia. Qed.

  Lemma J_start : forall p0 st s, ROP.Inv F st s -> (p0 <= FR.off s)%N -> J p0 ([], st).
  Proof.
    intros p0 st s HI Hp. exists s. cbn [fst snd]. change (RO.len (@nil N)) with 0%N.
    rewrite bz_unread_0. destruct (ROP.Inv_cur _ _ _ HI) as (Hc & _). repeat split; try assumption; lia.
  Qed.

  Lemma J_consume : forall p0 k bs, J p0 bs -> J p0 (br_consume k bs).
  Proof.
    intros p0 k [b st] (s & HI & Hl & Hc & Hp). cbn [fst snd] in *. unfold br_consume. cbn [fst snd].
    set (k' := N.min (N.of_nat k) (RO.len b)).
    assert (Hlen : RO.len (skipn k b) = (RO.len b - k')%N).
    { unfold RO.len, k'. rewrite skipn_length. unfold RO.len. lia. }
    assert (Est : bz_unread st (RO.len (skipn k b)) = RO.consume (bz_unread st (RO.len b)) k').
    { rewrite Hlen. unfold bz_unread, RO.consume.
      cbn [RO.rest RO.position RO.bpos RO.bsize RO.blen RO.cur RO.buf]. f_equal. unfold k' in *. lia. }
    exists (FR.f_consume s k'). cbn [fst snd]. rewrite Est. split; [apply ROP.inv_consume; assumption|].
    split; [rewrite Hlen; lia|]. split; [exact Hc|].
    unfold FR.f_consume, FR.f_advance. cbn [FR.off]. lia.
  Qed.

  Lemma J_fill : forall p0 bs, J p0 bs -> J p0 (snd (br_fill_buf bz_read BZ_CAP bs)).
  Proof.
    intros p0 [b st] HJ. destruct b as [|x b']; [|exact HJ].
    destruct HJ as (s & HI & Hl & Hc & Hp). cbn [fst snd] in *. change (RO.len (@nil N)) with 0%N in HI.
    rewrite bz_unread_0 in HI.
    destruct (bz_fill F Hwf st s HI) as (st1 & s1 & w & E & HI1 & Hoff & Hlen & _ & _).
    unfold br_fill_buf, bz_read. rewrite E.
    destruct (ROP.Inv_cur _ _ _ HI1) as (Hc1 & Hw1 & Hb1).
    assert (Hfw : firstn BZ_CAP w = w).
    { apply firstn_all2. unfold BZ_CAP, RO.len in *. lia. }
    rewrite Hfw. cbn [snd fst].
    exists s1. cbn [fst snd].
    assert (Est : bz_unread (RO.consume st1 (RO.len w)) (RO.len w) = st1).
    { destruct st1 as [r p bp bs bl c bf]. unfold bz_unread, RO.consume.
      cbn [RO.rest RO.position RO.bpos RO.bsize RO.blen RO.cur RO.buf] in *. f_equal. lia. }
    rewrite Est. split; [exact HI1|].
    unfold RO.consume. cbn [RO.cur RO.blen]. repeat split; lia.
  Qed.

  Lemma J_seq_fill : forall p0 fuel ib p bs, J p0 bs ->
    J p0 (snd (snd (seq_fill_buf bz_read BZ_CAP fuel ib p bs))).
  Proof.
    intros p0. induction fuel as [|fuel IH]; intros ib p bs HJ; [exact HJ|].
    cbn [seq_fill_buf].
    pose proof (J_fill p0 bs HJ) as HJ1.
    destruct (br_fill_buf bz_read BZ_CAP bs) as [[src|] st1]; cbn [snd] in HJ1.
    2:{ apply IH. exact HJ1. }
    match goal with |- context [if ?c then _ else _] => destruct c end; [exact HJ1|].
    destruct src as [|b0 src']; [exact HJ1|].
    match goal with |- context [if ?c then _ else _] => destruct c end.
    { apply IH. apply J_consume. exact HJ1. }
    match goal with |- context [if ?c then _ else _] => destruct c end; [exact HJ1|].
    destruct (strip_cr _); [|exact HJ1].
    apply IH. apply J_consume. exact HJ1.
  Qed.

  Lemma J_seq_consume : forall p0 amt (s : sstate RO.state), J p0 (snd s) -> J p0 (snd (seq_consume amt s)).
  Proof.
    intros p0 amt [[ib p] bs] HJ. unfold seq_consume. destruct amt as [|a]; [exact HJ|].
    destruct p; cbn [snd] in *; [exact HJ|]. apply J_consume. exact HJ.
  Qed.

  Lemma J_rsl : forall p0 fuel max (s : sstate RO.state) acc, J p0 (snd s) ->
    J p0 (snd (snd (read_sequence_limit_st bz_read BZ_CAP fuel max s acc))).
  Proof.
    intros p0. induction fuel as [|fuel IH]; intros max s acc HJ; cbn [read_sequence_limit_st];
      (destruct (max <=? len acc)%N; [exact HJ|]); [exact HJ|].
    destruct s as [[ib p] bs]. cbn [snd] in HJ.
    pose proof (J_seq_fill p0 (S fuel) ib p bs HJ) as HJ1.
    destruct (seq_fill_buf bz_read BZ_CAP (S fuel) ib p bs) as [[x piece] s']. cbn [snd] in HJ1.
    destruct x; [|exact HJ1]. destruct piece as [|q piece']; [exact HJ1|].
    apply IH. apply J_seq_consume. exact HJ1.
  Qed.

  (* the virtual position reported after a query whose seek succeeded *)
  Theorem query_bgzf_any_vpos : forall chk idx st0 s0 r s e pos,
    ROP.Inv F st0 s0 ->
    fai_query_gen chk r (match s with Some p => (p - 1)%N | None => 0%N end) = Some pos ->
    gzi_lands F idx pos ->
    exists v s', RO.virtual_position (snd (query_bgzf_any chk F idx st0 r s e)) = Vpos.Ok v /\
                 FR.denote F v = Some (FR.off s') /\
                 (pos <= FR.off s')%N /\ (FR.off s' <= FR.total_dlen F)%N /\
                 ROP.Inv F (snd (query_bgzf_any chk F idx st0 r s e)) s'.
  Proof.
    intros chk idx st0 s0 r s e pos HI Hq Hl. unfold query_bgzf_any. rewrite Hq.
    destruct (seek_lands idx st0 s0 pos HI Hl) as [Hr HI1].
    destruct (GB.seek_by_uncompressed_position_bs true F idx st0 pos) as [st1 rr].
    cbn [fst snd] in Hr, HI1. subst rr.
    assert (Hfin : forall st' s', ROP.Inv F st' s' -> (pos <= FR.off s')%N ->
              exists v s'', RO.virtual_position st' = Vpos.Ok v /\ FR.denote F v = Some (FR.off s'') /\
                            (pos <= FR.off s'')%N /\ (FR.off s'' <= FR.total_dlen F)%N /\ ROP.Inv F st' s'').
    { intros st' s' HI' Hp. destruct (ROP.vpos_denote F st' s' Hwf Hmax HI') as [v [Hv Hd]].
      exists v, s'. pose proof (ROP.Inv_bound _ _ _ HI'). repeat split; try assumption; lia. }
    destruct (_ <? _)%N.
    { cbn [snd]. apply (Hfin st1 _ HI1). unfold FR.f_seek_flat. cbn [FR.off]. lia. }
    match goal with |- context [read_sequence_limit_st bz_read BZ_CAP ?fu ?mx ?s0 ?ac] =>
      pose proof (J_rsl pos fu mx s0 ac) as HJ;
      destruct (read_sequence_limit_st bz_read BZ_CAP fu mx s0 ac) as [[x bases] [[ib2 p2] [b2 st2]]]
    end.
    cbn [snd fst] in HJ.
    destruct HJ as (s2 & HI2 & _ & _ & Hp2).
    { apply (J_start pos st1 _ HI1). unfold FR.f_seek_flat. cbn [FR.off]. lia. }
    cbn [fst snd] in HI2.
    destruct x; cbn [snd]; apply (Hfin _ s2 HI2 Hp2).
  Qed.
End Any.

(* ---- which indexes are correct ---- *)

Lemma keep_lb : forall fs keep c d, Forall (fun e => (d <= snd e)%N) (gzi_entries_keep keep fs c d).
Proof.
  induction fs as [|b r IH]; intros keep c d; cbn [gzi_entries_keep]; [constructor|].
  assert (H : Forall (fun e => (d <= snd e)%N)
                (gzi_entries_keep (tl keep) r (c + RO.csize b) (d + RO.flen b))).
  { eapply Forall_impl; [|apply IH]. intros a Ha. cbn beta in *. lia. }
  destruct ((0 <? RO.flen b)%N || hd true keep); [constructor; [cbn [snd]; lia|exact H]|exact H].
Qed.

Lemma keep_sorted : forall fs keep c d, GBP.sorted_u (gzi_entries_keep keep fs c d).
Proof.
  induction fs as [|b r IH]; intros keep c d; cbn [gzi_entries_keep]; [constructor|].
  destruct ((0 <? RO.flen b)%N || hd true keep); [|apply IH].
  constructor; [apply IH|].
  eapply Forall_impl; [|apply keep_lb]. intros a Ha. unfold GBP.u_le. cbn [snd] in *. lia.
Qed.

Lemma sparse_sorted : forall keep F, GBP.sorted_u (gzi_sparse_of keep F).
Proof. intros keep [|b r]; [constructor|apply keep_sorted]. Qed.

(* below the first offset nothing is selected *)
Lemma sel_keep_below : forall fs keep c d cand p, (p < d)%N ->
  ROP.sel cand (gzi_entries_keep keep fs c d) p = cand.
Proof.
  induction fs as [|b r IH]; intros keep c d cand p Hp; cbn [gzi_entries_keep]; [reflexivity|].
  destruct ((0 <? RO.flen b)%N || hd true keep).
  - cbn [ROP.sel snd]. destruct (N.leb_spec d p); [lia|reflexivity].
  - apply IH. lia.
Qed.

Lemma sel_keep : forall fs keep c d cand p, (d <= p)%N -> (p < d + FR.total_dlen fs)%N ->
  exists pre b post, fs = pre ++ b :: post /\
    ROP.sel cand (gzi_entries_keep keep fs c d) p = ((c + FR.total_csize pre)%N, (d + FR.total_dlen pre)%N) /\
    (d + FR.total_dlen pre <= p)%N /\ (p < d + FR.total_dlen pre + RO.flen b)%N.
Proof.
  induction fs as [|b r IH]; intros keep c d cand p Hlo Hhi.
  - rewrite ROP.dsum_nil in Hhi. lia.
  - rewrite ROP.dsum_cons in Hhi. cbn [gzi_entries_keep].
    destruct (N.ltb_spec p (d + RO.flen b)) as [Hin|Hout].
    + (* p lies in b: its entry is kept *)
      replace ((0 <? RO.flen b)%N) with true by (symmetry; apply N.ltb_lt; lia). cbn [orb ROP.sel snd].
      destruct (N.leb_spec d p); [|lia].
      rewrite sel_keep_below by lia.
      exists [], b, r. rewrite ROP.csum_nil, ROP.dsum_nil. cbn [app].
      repeat split; try lia; try (f_equal; lia).
    + assert (Hgo : forall cand', exists pre b' post, b :: r = pre ++ b' :: post /\
          ROP.sel cand' (gzi_entries_keep (tl keep) r (c + RO.csize b) (d + RO.flen b)) p
            = ((c + FR.total_csize pre)%N, (d + FR.total_dlen pre)%N) /\
          (d + FR.total_dlen pre <= p)%N /\ (p < d + FR.total_dlen pre + RO.flen b')%N).
      { intros cand'.
        destruct (IH (tl keep) (c + RO.csize b)%N (d + RO.flen b)%N cand' p Hout ltac:(lia))
          as (pre & b' & post & He & Hs & H1 & H2).
        exists (b :: pre), b', post. rewrite Hs, He, ROP.csum_cons, ROP.dsum_cons. cbn [app].
        repeat split; try lia; try (f_equal; lia). }
      destruct ((0 <? RO.flen b)%N || hd true keep).
      * cbn [ROP.sel snd]. destruct (N.leb_spec d p); [|lia]. apply Hgo.
      * apply Hgo.
Qed.

Theorem gzi_sparse_correct : forall keep F, gzi_correct F (gzi_sparse_of keep F).
Proof.
  intros keep F p Hp. unfold gzi_lands.
  rewrite (GBP.gzi_entry_bs_sorted _ _ (sparse_sorted keep F)).
  unfold Gzi.gzi_entry. rewrite ROP.gzi_entry_sel.
  assert (Hlen : len (bz_text F) = FR.total_dlen F).
  { rewrite bz_text_chunks. apply ROP.len_concat_chunks. }
  rewrite Hlen in Hp. destruct F as [|b r]; [rewrite ROP.dsum_nil in Hp; lia|].
  rewrite ROP.dsum_cons in Hp. unfold gzi_sparse_of.
  destruct (N.ltb_spec p (RO.flen b)) as [Hin|Hout].
  - exists [], b, r. rewrite sel_keep_below by lia. rewrite ROP.csum_nil, ROP.dsum_nil. cbn [app].
    repeat split; lia.
  - destruct (sel_keep r keep (RO.csize b) (RO.flen b) (0, 0)%N p Hout ltac:(lia))
      as (pre & b' & post & He & Hs & H1 & H2).
    exists (b :: pre), b', post. rewrite Hs, He, ROP.csum_cons, ROP.dsum_cons. cbn [app].
    repeat split; try lia; try (f_equal; lia).
Qed.

Lemma keep_all : forall fs c d, gzi_entries_keep [] fs c d = RO.gzi_entries fs c d.
Proof.
  induction fs as [|b r IH]; intros c d; cbn [gzi_entries_keep RO.gzi_entries tl hd]; [reflexivity|].
  rewrite orb_true_r. f_equal. apply IH.
Qed.

Theorem gzi_sparse_all : forall F, gzi_sparse_of [] F = RO.gzi_of F.
Proof. intros [|b r]; [reflexivity|]. apply keep_all. Qed.

Corollary gzi_of_correct : forall F, gzi_correct F (RO.gzi_of F).
Proof. intros F. rewrite <- gzi_sparse_all. apply gzi_sparse_correct. Qed.

(* ---- exactness, for every correct index ---- *)

Theorem query_bgzf_any_exact : forall F idx st0 s0 recs err r chk s e,
  ROP.wf F -> (FR.total_csize F <= Vpos.MAX_COMPRESSED_POSITION)%N -> gzi_correct F idx ->
  ROP.Inv F st0 s0 ->
  index_file (bz_text F) = (recs, err) -> In r recs ->
  exists body, record_lines (bz_text F) r body /\
    let B := naive_bases body in
    let st := match s with Some p => p | None => 1%N end in
    let en := match e with Some p => p | None => usize_max end in
    heads_ok body ->
    nth (N.to_nat (st - 1)) B 0%N <> CR -> nth (N.to_nat (st - 1)) B 0%N <> GT ->
    (1 <= st)%N -> (st <= f_len r)%N -> (st <= en)%N ->
    fst (query_bgzf_any chk F idx st0 r s e)
    = ZOk (QOk (firstn (N.to_nat (en - st + 1)) (skipn (N.to_nat (st - 1)) B))).
Proof.
  intros F idx st0 s0 recs err r chk s e Hwf Hmax Hidx HI H Hin.
  destruct (query_exact_gen (bz_text F) recs err r chk s e H Hin) as [body [Hb Hq]].
  exists body. split; [exact Hb|]. cbv zeta in *. intros Hh H1 H2 H3 H4 H5.
  rewrite (query_bgzf_any_flat F Hwf Hmax chk idx st0 s0 r s e HI).
  - f_equal. now apply Hq.
  - (* the offset of an existing base lies inside the text *)
    intros pos Hp. apply Hidx.
    destruct (fai_offset_correct (bz_text F) recs err r H Hin) as [B [HB [HlB Hnth]]].
    set (i := match s with Some p => (p - 1)%N | None => 0%N end) in *.
    assert (Hi : (i < len B)%N).
    { rewrite <- HlB. unfold i. destruct s as [p|]; cbn in *; lia. }
    destruct (Hnth i 0%N Hi) as [p0 [Hq0 Hn0]].
    destruct (Hnth i 1%N Hi) as [p1 [Hq1 Hn1]].
    assert (Hpp : fai_query_gen chk r i = fai_query r i).
    { unfold fai_query, fai_query_gen in *.
      destruct (true && (0 <? i)%N && (f_len r <=? i)%N) eqn:Et; [discriminate|].
      replace (chk && (0 <? i)%N && (f_len r <=? i)%N) with false; [reflexivity|].
      destruct chk; [now rewrite <- Et|reflexivity]. }
    rewrite Hpp in Hp. rewrite Hp in Hq0, Hq1.
    injection Hq0 as <-. injection Hq1 as <-.
    destruct (Nat.lt_ge_cases (N.to_nat pos) (length (bz_text F))) as [Hl|Hg]; [unfold len; lia|].
    rewrite nth_overflow in Hn0, Hn1 by exact Hg.
    assert (Hil : (N.to_nat i < length B)%nat) by (unfold len in Hi; lia).
    rewrite (nth_indep B 0%N 1%N Hil) in Hn0. rewrite <- Hn1 in Hn0. discriminate.
Qed.

(* the virtual position after such a query *)
Theorem query_bgzf_any_exact_vpos : forall F idx st0 s0 recs err r chk s e,
  ROP.wf F -> (FR.total_csize F <= Vpos.MAX_COMPRESSED_POSITION)%N -> gzi_correct F idx ->
  ROP.Inv F st0 s0 ->
  index_file (bz_text F) = (recs, err) -> In r recs ->
  let st := match s with Some p => p | None => 1%N end in
  (1 <= st)%N -> (st <= f_len r)%N ->
  exists pos v s',
    fai_query_gen chk r (st - 1)%N = Some pos /\
    RO.virtual_position (snd (query_bgzf_any chk F idx st0 r s e)) = Vpos.Ok v /\
    FR.denote F v = Some (FR.off s') /\ (pos <= FR.off s')%N /\ (FR.off s' <= FR.total_dlen F)%N /\
    ROP.Inv F (snd (query_bgzf_any chk F idx st0 r s e)) s'.
Proof.
  intros F idx st0 s0 recs err r chk s e Hwf Hmax Hidx HI H Hin st H3 H4.
  destruct (fai_offset_correct (bz_text F) recs err r H Hin) as [B [HB [HlB Hnth]]].
  set (i := (st - 1)%N).
  assert (Hi : (i < len B)%N) by (rewrite <- HlB; unfold i; lia).
  destruct (Hnth i 0%N Hi) as [p0 [Hq0 Hn0]].
  destruct (Hnth i 1%N Hi) as [p1 [Hq1 Hn1]].
  assert (Hpp : fai_query_gen chk r i = fai_query r i).
  { unfold fai_query, fai_query_gen in *.
    destruct (true && (0 <? i)%N && (f_len r <=? i)%N) eqn:Et; [discriminate|].
    replace (chk && (0 <? i)%N && (f_len r <=? i)%N) with false; [reflexivity|].
    destruct chk; [now rewrite <- Et|reflexivity]. }
  assert (Hsame : p1 = p0) by congruence. subst p1.
  assert (Hlt : (p0 < len (bz_text F))%N).
  { destruct (Nat.lt_ge_cases (N.to_nat p0) (length (bz_text F))) as [Hl|Hg]; [unfold len; lia|].
    rewrite nth_overflow in Hn0, Hn1 by exact Hg.
    assert (Hil : (N.to_nat i < length B)%nat) by (unfold len in Hi; lia).
    rewrite (nth_indep B 0%N 1%N Hil) in Hn0. rewrite <- Hn1 in Hn0. discriminate. }
  assert (Hsi : match s with Some p => (p - 1)%N | None => 0%N end = i).
  { unfold i, st. destruct s; reflexivity. }
  destruct (query_bgzf_any_vpos F Hwf Hmax chk idx st0 s0 r s e p0 HI) as (v & s' & Hv).
  - rewrite Hsi, Hpp. exact Hq0.
  - apply Hidx. exact Hlt.
  - exists p0, v, s'. split; [rewrite Hpp; exact Hq0|exact Hv].
Qed.

(* ---- any valid history of calls, made with the same (foreign) index ---- *)

Definition ops_valid_any (F : RO.file) (ops : list RO.op) : Prop :=
  Forall (fun o => match o with
                   | RO.Seek v => exists j, FR.denote F v = Some j
                   | RO.SeekU p => (p < FR.total_dlen F)%N
                   | _ => True end) ops.

Lemma reach_inv_any : forall F idx, ROP.wf F -> (FR.total_csize F <= Vpos.MAX_COMPRESSED_POSITION)%N ->
  gzi_correct F idx ->
  forall ops st s, ops_valid_any F ops -> ROP.Inv F st s ->
  exists s', ROP.Inv F (run_state_bs F idx st ops) s'.
Proof.
  intros F idx Hwf Hmax Hidx. induction ops as [|o r IH]; intros st s Hv HI; [exists s; exact HI|].
  inversion Hv as [|? ? Ho Hr]; subst. cbn [run_state_bs].
  assert (Hlen : len (bz_text F) = FR.total_dlen F).
  { rewrite bz_text_chunks. apply ROP.len_concat_chunks. }
  assert (Hstep : exists s1, ROP.Inv F (fst (GB.step_bs true F idx st o)) s1).
  { assert (Hgen : forall o', (match o' with RO.SeekU _ => False | _ => True end) ->
              ROP.ops_valid F [o'] -> exists s1, ROP.Inv F (fst (GB.step_bs true F idx st o')) s1).
    { intros o' Hns Hv1. pose proof (ROP.ops_valid_ok F _ st Hv1) as Hok. destruct Hok as [Hok _].
      destruct (ROP.step_refines true F st s _ Hwf Hmax HI Hok) as (s1 & fo & _ & _ & HI1).
      exists s1. destruct o'; try contradiction; exact HI1. }
    destruct o as [n|n|n| |n|v|p|n];
      try (apply Hgen; [exact I|constructor; [exact Ho|constructor]]).
    cbn [GB.step_bs].
    destruct (seek_lands F Hwf Hmax idx st s p HI) as [_ HI1]; [apply Hidx; rewrite Hlen; exact Ho|].
    destruct (GB.seek_by_uncompressed_position_bs true F idx st p) as [st1 rr]. cbn [fst] in *.
    eexists. exact HI1. }
  destruct Hstep as [s1 HI1]. exact (IH _ s1 Hr HI1).
Qed.
