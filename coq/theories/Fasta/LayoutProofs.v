(* C11 — facts about the line structure of a file (NV.Fasta.Layout). *)
From Coq Require Import List NArith Bool Lia ZifyBool ZifyNat ZifyN.
From NV Require Import Fasta.Layout.
Import ListNotations.
Open Scope N_scope.

Lemma len_nil : forall A, @len A [] = 0.
Proof. reflexivity. Qed.

Lemma len_app : forall A (a b : list A), len (a ++ b) = len a + len b.
Proof. intros. unfold len. rewrite app_length. lia. Qed.

Lemma len_cons : forall A (x : A) l, len (x :: l) = 1 + len l.
Proof. intros. unfold len. cbn [length]. lia. Qed.

(* ---- lines ---- *)

Lemma lines_concat : forall s, concat (lines s) = s.
Proof.
  induction s as [|b t IH]; [reflexivity|].
  cbn [lines]. destruct (b =? LF).
  - cbn [concat app]. now rewrite IH.
  - destruct (lines t) as [|l ls] eqn:E.
    + cbn in IH. subst t. reflexivity.
    + cbn [concat] in *. cbn [app]. now rewrite IH.
Qed.

Definition nolf (x : list N) : Prop := ~ In LF x.

(* the shape of [lines s]: every line is x ++ [LF] with no LF in x, except that the last one
   may be a non-empty x without terminator *)
Inductive proper : list (list N) -> Prop :=
| P_nil : proper []
| P_last x : nolf x -> x <> [] -> proper [x]
| P_cons x ls : nolf x -> proper ls -> proper ((x ++ [LF]) :: ls).

Lemma lines_proper : forall s, proper (lines s).
Proof.
  induction s as [|b t IH]; [constructor|].
  cbn [lines]. destruct (b =? LF) eqn:Eb.
  - apply N.eqb_eq in Eb. subst b. apply (P_cons [] (lines t)); [intros []|exact IH].
  - apply N.eqb_neq in Eb.
    destruct (lines t) as [|l ls] eqn:E.
    + apply P_last; [|discriminate]. intros [H|[]]. congruence.
    + inversion IH as [|x Hx Hne|x ls' Hx Hls]; subst.
      * apply P_last; [|discriminate]. intros [H|H]; [congruence|exact (Hx H)].
      * apply (P_cons (b :: x) ls); [|exact Hls]. intros [H|H]; [congruence|exact (Hx H)].
Qed.

Lemma lines_app_term : forall x s, nolf x -> lines (x ++ LF :: s) = (x ++ [LF]) :: lines s.
Proof.
  induction x as [|b x IH]; intros s Hx.
  - reflexivity.
  - cbn [app lines]. destruct (b =? LF) eqn:Eb.
    + apply N.eqb_eq in Eb. exfalso. apply Hx. left. now symmetry.
    + rewrite IH; [reflexivity|]. intros H. apply Hx. now right.
Qed.

Lemma lines_nolf : forall x, nolf x -> x <> [] -> lines x = [x].
Proof.
  induction x as [|b x IH]; intros Hx Hne; [congruence|].
  cbn [lines]. destruct (b =? LF) eqn:Eb.
  - apply N.eqb_eq in Eb. exfalso. apply Hx. left. now symmetry.
  - destruct x as [|c x'].
    + reflexivity.
    + rewrite IH; [reflexivity| |discriminate]. intros H. apply Hx. now right.
Qed.

Lemma lines_concat_proper : forall ls, proper ls -> lines (concat ls) = ls.
Proof.
  induction 1 as [|x Hx Hne|x ls Hx Hls IH].
  - reflexivity.
  - cbn [concat]. rewrite app_nil_r. now apply lines_nolf.
  - cbn [concat]. rewrite <- app_assoc. cbn [app]. rewrite lines_app_term by exact Hx. now rewrite IH.
Qed.

Lemma proper_tail : forall l ls, proper (l :: ls) -> proper ls.
Proof.
  intros l ls H. inversion H; subst; [constructor|assumption].
Qed.

Lemma proper_suffix : forall pre ls, proper (pre ++ ls) -> proper ls.
Proof.
  induction pre as [|p pre IH]; intros ls H; [exact H|].
  apply IH. exact (proper_tail _ _ H).
Qed.

Lemma skipn_app_le : forall A (n : nat) (a b : list A),
  (n <= length a)%nat -> skipn n (a ++ b) = skipn n a ++ b.
Proof.
  intros A n a b H. rewrite skipn_app. replace (n - length a)%nat with 0%nat by lia. reflexivity.
Qed.

Lemma proper_skip_head : forall l ls (c : nat),
  proper (l :: ls) -> (c < length l)%nat -> proper (skipn c l :: ls).
Proof.
  intros l ls c H Hc. inversion H as [|x Hx Hne|x ls' Hx Hls]; subst.
  - apply P_last.
    + intros Hin. apply Hx. rewrite <- (firstn_skipn c l). apply in_or_app. now right.
    + intros E. apply (f_equal (@length N)) in E. rewrite skipn_length in E. cbn in E. lia.
  - rewrite app_length in Hc. cbn [length] in Hc.
    rewrite skipn_app_le by lia. apply P_cons; [|exact Hls].
    intros Hin. apply Hx. rewrite <- (firstn_skipn c x). apply in_or_app. now right.
Qed.

(* ---- strip_last / content ---- *)

Lemma strip_last_snoc : forall c x, strip_last c (x ++ [c]) = x.
Proof.
  induction x as [|b x IH].
  - cbn. now rewrite N.eqb_refl.
  - destruct x as [|b' x'].
    + cbn. now rewrite N.eqb_refl.
    + change (strip_last c ((b :: b' :: x') ++ [c])) with (b :: strip_last c ((b' :: x') ++ [c])).
      now rewrite IH.
Qed.

Lemma strip_last_decomp : forall c l, exists t, l = strip_last c l ++ t /\ (t = [] \/ t = [c]).
Proof.
  induction l as [|b l IH].
  - exists []. split; [reflexivity|now left].
  - cbn [strip_last]. destruct l as [|b' l'].
    + destruct (b =? c) eqn:E.
      * apply N.eqb_eq in E. subst b. exists [c]. split; [reflexivity|now right].
      * exists []. split; [reflexivity|now left].
    + destruct IH as [t [Ht Hc]]. exists t. split; [|exact Hc].
      cbn [app]. now rewrite <- Ht.
Qed.

Lemma strip_last_notin : forall c l, ~ In c l -> strip_last c l = l.
Proof.
  intros c l H. destruct (strip_last_decomp c l) as [t [Ht [Hc|Hc]]]; subst t.
  - rewrite app_nil_r in Ht. now symmetry.
  - exfalso. apply H. rewrite Ht. apply in_or_app. right. now left.
Qed.

Definition crlf_only (t : list N) : Prop := forall b, In b t -> b = CR \/ b = LF.

(* a line is its content followed by at most a CR and an LF *)
Lemma content_decomp : forall l, exists t, l = content l ++ t /\ crlf_only t /\ (length t <= 2)%nat.
Proof.
  intros l. unfold content.
  destruct (strip_last_decomp LF l) as [t1 [H1 C1]].
  destruct (strip_last_decomp CR (strip_last LF l)) as [t2 [H2 C2]].
  exists (t2 ++ t1). split; [|split].
  - rewrite app_assoc, <- H2. exact H1.
  - intros b Hb. apply in_app_or in Hb.
    destruct Hb as [Hb|Hb]; [destruct C2 as [C|C]|destruct C1 as [C|C]]; subst; cbn in Hb;
      try tauto; destruct Hb as [Hb|[]]; subst; tauto.
  - rewrite app_length. destruct C1 as [C|C], C2 as [C'|C']; subst; cbn; lia.
Qed.

Lemma content_length_le : forall l, (length (content l) <= length l)%nat.
Proof.
  intros l. destruct (content_decomp l) as [t [Ht _]].
  rewrite Ht at 2. rewrite app_length. lia.
Qed.

Lemma content_nth : forall l (i : nat) d, (i < length (content l))%nat -> nth i l d = nth i (content l) d.
Proof.
  intros l i d H. destruct (content_decomp l) as [t [Ht _]].
  rewrite Ht at 1. now rewrite app_nth1.
Qed.

(* content of a line of a proper list has no LF *)
Lemma content_nolf : forall l ls, proper (l :: ls) -> nolf (content l).
Proof.
  intros l ls H. inversion H as [|x Hx Hne|x ls' Hx Hls]; subst; unfold content, nolf.
  - rewrite (strip_last_notin LF l Hx).
    destruct (strip_last_decomp CR l) as [t [Ht _]].
    intros Hin. apply Hx. rewrite Ht. apply in_or_app. now left.
  - rewrite strip_last_snoc.
    destruct (strip_last_decomp CR x) as [t [Ht _]].
    intros Hin. apply Hx. rewrite Ht. apply in_or_app. now left.
Qed.

Lemma content_cons : forall x t, x <> CR -> x <> LF -> content (x :: t) = x :: content t.
Proof.
  intros x t Hc Hl. unfold content.
  destruct t as [|y t'].
  - cbn. destruct (x =? LF) eqn:E1; [apply N.eqb_eq in E1; congruence|].
    cbn. destruct (x =? CR) eqn:E2; [apply N.eqb_eq in E2; congruence|reflexivity].
  - change (strip_last LF (x :: y :: t')) with (x :: strip_last LF (y :: t')).
    destruct (strip_last LF (y :: t')) as [|z S] eqn:ES.
    + cbn. destruct (x =? CR) eqn:E2; [apply N.eqb_eq in E2; congruence|reflexivity].
    + reflexivity.
Qed.

Lemma content_skipn : forall (c : nat) l,
  ~ In CR (content l) -> ~ In LF (content l) -> (c <= length (content l))%nat ->
  content (skipn c l) = skipn c (content l).
Proof.
  induction c as [|c IH]; intros l Hcr Hlf Hc; [reflexivity|].
  destruct l as [|x t].
  - cbn in Hc. lia.
  - destruct (content (x :: t)) as [|x' C'] eqn:EC; [cbn in Hc; lia|].
    assert (Hx : x' = x).
    { destruct (content_decomp (x :: t)) as [t0 [Ht0 _]]. rewrite EC in Ht0. cbn in Ht0. congruence. }
    subst x'.
    assert (x <> CR) by (intros E; apply Hcr; left; now symmetry).
    assert (x <> LF) by (intros E; apply Hlf; left; now symmetry).
    rewrite content_cons in EC by assumption.
    injection EC as EC. subst C'.
    cbn [skipn]. apply IH.
    + intros Hin. apply Hcr. now right.
    + intros Hin. apply Hlf. now right.
    + cbn [length] in Hc. lia.
Qed.

Lemma content_nil_crlf : forall l, content l = [] -> crlf_only l.
Proof.
  intros l H. destruct (content_decomp l) as [t [Ht [Hc _]]].
  rewrite H in Ht. cbn in Ht. now subst t.
Qed.

Lemma content_head : forall l x C, content l = x :: C -> exists t, l = x :: t.
Proof.
  intros l x C H. destruct (content_decomp l) as [t [Ht _]].
  rewrite H in Ht. cbn in Ht. eauto.
Qed.

(* ---- content of a suffix of a line, without assumptions on the bases ---- *)

Lemma strip_last_skipn : forall k (c : nat) a,
  (c < length (strip_last k a))%nat -> strip_last k (skipn c a) = skipn c (strip_last k a).
Proof.
  induction c as [|c IH]; intros a H; [reflexivity|].
  destruct a as [|x a']; [cbn in H; lia|].
  destruct a' as [|y a''].
  - cbn in H. destruct (x =? k); cbn in H; lia.
  - change (strip_last k (x :: y :: a'')) with (x :: strip_last k (y :: a'')) in *.
    cbn [skipn]. apply IH. cbn [length] in H. lia.
Qed.

Lemma content_proper : forall l ls, proper (l :: ls) ->
  exists x, nolf x /\ (l = x \/ l = x ++ [LF]) /\ content l = strip_last CR x.
Proof.
  intros l ls H. inversion H as [|x Hx Hne|x ls' Hx Hls]; subst.
  - exists l. split; [assumption|]. split; [now left|]. unfold content.
    now rewrite (strip_last_notin LF l Hx).
  - exists x. split; [assumption|]. split; [now right|]. unfold content. now rewrite strip_last_snoc.
Qed.

Lemma content_skipn_proper : forall l ls (c : nat),
  proper (l :: ls) -> (c < length (content l))%nat -> content (skipn c l) = skipn c (content l).
Proof.
  intros l ls c Hp Hc.
  destruct (content_proper l ls Hp) as [x [Hx [[E|E] EC]]]; rewrite EC in *; subst l.
  - unfold content. assert (Hs : nolf (skipn c x)).
    { intros Hin. apply Hx. rewrite <- (firstn_skipn c x). apply in_or_app. now right. }
    rewrite (strip_last_notin LF _ Hs). now apply strip_last_skipn.
  - assert (Hle : (c <= length x)%nat).
    { destruct (strip_last_decomp CR x) as [t [Ht _]]. rewrite Ht, app_length. lia. }
    rewrite skipn_app_le by exact Hle. unfold content. rewrite strip_last_snoc.
    now apply strip_last_skipn.
Qed.
