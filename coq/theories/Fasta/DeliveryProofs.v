(* C11 — a region query does not depend on how the source delivers its bytes: for every BufReader
   capacity >= 1 and every script of short reads / Interrupted, [query_delivered] returns what the
   whole-buffer line model [query_record] returns.  Uses C12's step lemma for the sequence reader
   (NV.Io.FastaScanProofs.step_spec, read-only) and relates C12's closed form [seq_spec] to the
   line-driven model [rsl_lines]. *)
From Coq Require Import List NArith Arith Bool Lia ZifyBool ZifyNat ZifyN.
From NV Require Import Io.Source Io.ReadExactProofs Io.BufReader Io.BufReaderProofs
                       Io.FastaScan Io.FastaScanProofs Io.Run.
From NV Require Import Fasta.Layout Fasta.LayoutProofs Fasta.Indexer Fasta.IndexerProofs
                       Fasta.Query Fasta.QueryProofs Fasta.Reader Fasta.Delivery.
Import ListNotations.
Local Open Scope nat_scope.

Arguments N.add : simpl never.
Arguments N.sub : simpl never.

(* the byte constants of the two developments are the same numbers *)
Ltac norm :=
  change BufReader.LF with Layout.LF in *;
  change BufReader.CR with Layout.CR in *;
  change FastaScan.GT with Layout.GT in *.

Lemma rsl_done : forall St (rd : reader St) cap fuel max s acc,
  (max <=? len acc)%N = true -> read_sequence_limit rd cap fuel max s acc = (SOk, acc).
Proof. intros St rd cap fuel max s acc H. destruct fuel; cbn [read_sequence_limit]; now rewrite H. Qed.

Section LimitProofs.
  Context {St : Type}.
  Variable rd : reader St.
  Variable Rep : St -> list N -> nat -> Prop.
  Hypothesis Hsim : simulates rd Rep.
  Variable cap : nat.
  Hypothesis Hcap : 1 <= cap.

  (* read_sequence_limit = the first max bytes of the closed form, for every delivery *)
  Theorem read_sequence_limit_spec : forall fuel max ib p st d m acc,
    rep_buf Rep st d m -> (p = true -> ib = false) -> mu m d p < fuel -> (len acc <= max)%N ->
    read_sequence_limit rd cap fuel max (ib, p, st) acc
    = (SOk, firstn (N.to_nat max) (acc ++ spec ib p d)).
  Proof.
    induction fuel as [|fuel IH]; intros max ib p st d m acc HR Hinv Hf Hacc; [lia|].
    cbn [read_sequence_limit].
    destruct (max <=? len acc)%N eqn:Hm.
    - f_equal. unfold len in *. rewrite firstn_app_short by lia. symmetry. apply firstn_all2. lia.
    - destruct (step_spec rd Rep Hsim cap Hcap (S fuel) ib p st d m HR Hinv Hf)
        as [piece [s' [ib2 [p2 [st2 [d2 [m2 [E [Ec [HR2 [Hi2 [Hs Hmu]]]]]]]]]]]].
      rewrite E. destruct piece as [|q piece'].
      + rewrite Hs. cbn [app]. rewrite app_nil_r. f_equal. symmetry. apply firstn_all2.
        unfold len in *. lia.
      + cbv iota beta.
        assert (Hmu' : mu m2 d2 p2 < mu m d p) by (apply Hmu; discriminate).
        destruct (len (q :: piece') <=? max - len acc)%N eqn:Hfit.
        * rewrite firstn_all, Ec.
          rewrite (IH max ib2 p2 st2 d2 m2 (acc ++ q :: piece')); try assumption.
          -- rewrite Hs. now rewrite <- app_assoc.
          -- lia.
          -- rewrite len_app. lia.
        * rewrite rsl_done.
          -- f_equal. rewrite Hs. unfold len in *.
             rewrite firstn_app_long by lia. f_equal.
             rewrite firstn_app_short by lia. f_equal. lia.
          -- rewrite len_app. unfold len in *. rewrite firstn_length. lia.
  Qed.
End LimitProofs.

(* ---- C12's closed form and the line-driven model ---- *)

Fixpoint drop_cr (l : list N) : list N :=
  match l with
  | [] => []
  | b :: t => if (b =? CR)%N then drop_cr t else l
  end.

Lemma drop_crlf_nolf : forall x, nolf x -> drop_crlf x = drop_cr x.
Proof.
  induction x as [|b x IH]; intros Hx; [reflexivity|].
  cbn [drop_crlf drop_cr].
  assert (b <> LF) by (intros E; apply Hx; left; now symmetry).
  replace (b =? LF)%N with false by lia. rewrite orb_false_r.
  destruct (b =? CR)%N; [|reflexivity]. apply IH. intros Hin. apply Hx. now right.
Qed.

Lemma drop_crlf_line : forall x, nolf x ->
  drop_crlf (x ++ [LF]) = match drop_cr x with [] => [] | _ :: _ => drop_cr x ++ [LF] end.
Proof.
  induction x as [|b x IH]; intros Hx.
  - cbn. reflexivity.
  - cbn [app drop_crlf drop_cr].
    assert (b <> LF) by (intros E; apply Hx; left; now symmetry).
    replace (b =? LF)%N with false by lia. rewrite orb_false_r.
    destruct (b =? CR)%N; [|reflexivity]. apply IH. intros Hin. apply Hx. now right.
Qed.

Lemma drop_cr_nolf : forall x, nolf x -> nolf (drop_cr x).
Proof.
  induction x as [|b x IH]; intros Hx; [exact Hx|]. cbn [drop_cr].
  destruct (b =? CR)%N; [|exact Hx]. apply IH. intros Hin. apply Hx. now right.
Qed.

Lemma strip_last_cons_ne : forall c b y, b <> c -> strip_last c (b :: y) = b :: strip_last c y.
Proof.
  intros c b y H. destruct y as [|z y']; [|reflexivity].
  cbn. now replace (b =? c)%N with false by lia.
Qed.

Lemma seq_mid_line : forall y rest, nolf y ->
  seq_out MID (y ++ LF :: rest) = strip_last CR y ++ seq_out BOL rest.
Proof.
  induction y as [|b y IH]; intros rest Hy.
  - reflexivity.
  - assert (Hb : b <> LF) by (intros E; apply Hy; left; now symmetry).
    assert (Hy' : nolf y) by (intros Hin; apply Hy; now right).
    cbn [app seq_out]. norm. replace (b =? LF)%N with false by lia.
    destruct (b =? CR)%N eqn:Ec.
    + assert (b = CR) by lia. subst b.
      destruct y as [|z y'].
      * cbn [app]. norm. change (LF =? LF)%N with true. cbv iota.
        cbn [seq_out]. norm. change (LF =? LF)%N with true. reflexivity.
      * assert (z <> LF) by (intros E; apply Hy'; left; now symmetry).
        cbn [app]. norm. replace (z =? LF)%N with false by lia.
        change (z :: y' ++ LF :: rest) with ((z :: y') ++ LF :: rest).
        rewrite IH by exact Hy'. reflexivity.
    + rewrite IH by exact Hy'. rewrite strip_last_cons_ne by lia. reflexivity.
Qed.

Lemma seq_mid_end : forall y, nolf y -> seq_out MID y = strip_last CR y.
Proof.
  induction y as [|b y IH]; intros Hy; [reflexivity|].
  assert (Hb : b <> LF) by (intros E; apply Hy; left; now symmetry).
  assert (Hy' : nolf y) by (intros Hin; apply Hy; now right).
  cbn [seq_out]. norm. replace (b =? LF)%N with false by lia.
  destruct (b =? CR)%N eqn:Ec.
  - assert (b = CR) by lia. subst b.
    destruct y as [|z y']; [reflexivity|].
    assert (z <> LF) by (intros E; apply Hy'; left; now symmetry).
    norm. replace (z =? LF)%N with false by lia. rewrite IH by exact Hy'. reflexivity.
  - rewrite IH by exact Hy'. rewrite strip_last_cons_ne by lia. reflexivity.
Qed.

Lemma seq_bol_line : forall x rest, nolf x ->
  seq_out BOL (x ++ LF :: rest)
  = match drop_cr x with
    | [] => seq_out BOL rest
    | b :: t => if (b =? GT)%N then [] else strip_last CR (b :: t) ++ seq_out BOL rest
    end.
Proof.
  induction x as [|b x IH]; intros rest Hx.
  - reflexivity.
  - assert (Hb : b <> LF) by (intros E; apply Hx; left; now symmetry).
    assert (Hx' : nolf x) by (intros Hin; apply Hx; now right).
    cbn [app seq_out drop_cr]. norm. replace (b =? LF)%N with false by lia.
    destruct (b =? CR)%N eqn:Ec; [now apply IH|].
    destruct (b =? GT)%N; [reflexivity|].
    rewrite seq_mid_line by exact Hx'. rewrite strip_last_cons_ne by lia. reflexivity.
Qed.

Lemma seq_bol_end : forall x, nolf x ->
  seq_out BOL x
  = match drop_cr x with
    | [] => []
    | b :: t => if (b =? GT)%N then [] else strip_last CR (b :: t)
    end.
Proof.
  induction x as [|b x IH]; intros Hx; [reflexivity|].
  assert (Hb : b <> LF) by (intros E; apply Hx; left; now symmetry).
  assert (Hx' : nolf x) by (intros Hin; apply Hx; now right).
  cbn [seq_out drop_cr]. norm. replace (b =? LF)%N with false by lia.
  destruct (b =? CR)%N eqn:Ec; [now apply IH|].
  destruct (b =? GT)%N; [reflexivity|].
  rewrite seq_mid_end by exact Hx'. rewrite strip_last_cons_ne by lia. reflexivity.
Qed.

Lemma firstn_cases : forall (max : N) (c R : list N),
  (if (max <=? len c)%N then firstn (N.to_nat max) c
   else c ++ firstn (N.to_nat (max - len c)) R)
  = firstn (N.to_nat max) (c ++ R).
Proof.
  intros max c R. unfold len. destruct (N.leb_spec max (N.of_nat (length c))) as [H|H].
  - symmetry. apply firstn_app_short. lia.
  - rewrite firstn_app_long by lia. f_equal. f_equal. lia.
Qed.

Lemma rsl_lines_seq_out : forall ls, proper ls -> forall max,
  rsl_lines ls max = firstn (N.to_nat max) (seq_out BOL (concat ls)).
Proof.
  induction 1 as [|x Hx Hne|x ls Hx Hls IH]; intros max.
  - cbn. now rewrite firstn_nil.
  - cbn [concat]. rewrite app_nil_r. cbn [rsl_lines].
    destruct (max =? 0)%N eqn:E0; [replace max with 0%N by lia; reflexivity|].
    rewrite drop_crlf_nolf, seq_bol_end by exact Hx.
    pose proof (drop_cr_nolf x Hx) as Hd.
    destruct (drop_cr x) as [|b t]; [now rewrite firstn_nil|].
    destruct (b =? GT)%N; [now rewrite firstn_nil|].
    unfold content. rewrite (strip_last_notin LF _ Hd).
    cbn [rsl_lines]. unfold len.
    destruct (N.leb_spec max (N.of_nat (length (strip_last CR (b :: t))))) as [H|H]; [reflexivity|].
    rewrite app_nil_r. symmetry. apply firstn_all2. lia.
  - cbn [concat]. rewrite <- app_assoc. cbn [app]. cbn [rsl_lines].
    destruct (max =? 0)%N eqn:E0; [replace max with 0%N by lia; reflexivity|].
    rewrite drop_crlf_line, seq_bol_line by exact Hx.
    destruct (drop_cr x) as [|b t]; [apply IH|].
    cbn [app]. destruct (b =? GT)%N; [now rewrite firstn_nil|].
    change (b :: t ++ [LF]) with ((b :: t) ++ [LF]).
    unfold content. rewrite strip_last_snoc.
    rewrite IH. apply firstn_cases.
Qed.

Lemma rsl_lines_seq_spec : forall d max,
  rsl_lines (lines d) max = firstn (N.to_nat max) (seq_spec d).
Proof.
  intros d max. rewrite rsl_lines_seq_out by apply lines_proper. now rewrite lines_concat.
Qed.

(* ---- the query through a chunked source ---- *)

Theorem query_any_delivery : forall chk cap f sc r s e, 1 <= cap ->
  query_delivered chk cap f sc r s e = (SOk, query_record chk f r s e).
Proof.
  intros chk cap f sc r s e Hcap. unfold query_delivered, query_record.
  destruct (fai_query_gen chk r _) as [pos|]; [|reflexivity].
  destruct (_ <? _)%N; [reflexivity|].
  rewrite (read_sequence_limit_spec src_read rep_src src_simulates cap Hcap _ _ true false
             ([], mkSource (seek f pos) sc) (seek f pos) (n_interrupted sc) []).
  - cbn [app]. f_equal. f_equal. symmetry. apply rsl_lines_seq_spec.
  - exists (seek f pos). cbn [fst snd app]. split; [reflexivity|]. split; reflexivity.
  - intros H; discriminate.
  - unfold mu, s_fuel, b_fuel, src_fuel. cbn [fst snd s_data s_script length]. lia.
  - unfold len. cbn [length]. lia.
Qed.

(* ---- the sequential reader: read_sequence of a whole record ---- *)

Lemma read_seq_lines_seq_out : forall ls, proper ls ->
  fst (read_seq_lines ls) = seq_out BOL (concat ls).
Proof.
  induction 1 as [|x Hx Hne|x ls Hx Hls IH].
  - reflexivity.
  - cbn [concat]. rewrite app_nil_r. cbn [read_seq_lines].
    rewrite drop_crlf_nolf, seq_bol_end by exact Hx.
    pose proof (drop_cr_nolf x Hx) as Hd.
    destruct (drop_cr x) as [|b t]; [reflexivity|].
    destruct (b =? GT)%N; [reflexivity|].
    cbn [fst]. unfold content. rewrite (strip_last_notin LF _ Hd). apply app_nil_r.
  - cbn [concat]. rewrite <- app_assoc. cbn [app]. cbn [read_seq_lines].
    rewrite drop_crlf_line, seq_bol_line by exact Hx.
    destruct (drop_cr x) as [|b t]; [exact IH|].
    cbn [app]. destruct (b =? GT)%N; [reflexivity|].
    change (b :: t ++ [LF]) with ((b :: t) ++ [LF]).
    unfold content. rewrite strip_last_snoc.
    destruct (read_seq_lines ls) as [sq r]. cbn [fst] in *. now rewrite IH.
Qed.

Lemma read_seq_lines_seq_spec : forall d, fst (read_seq_lines (lines d)) = seq_spec d.
Proof.
  intros d. rewrite read_seq_lines_seq_out by apply lines_proper. now rewrite lines_concat.
Qed.

(* C12's read_sequence over any scripted source behind a BufReader returns the sequence of the
   line-driven model *)
Theorem read_sequence_any_delivery : forall data sc cap, 1 <= cap ->
  exists s', run_read_sequence cap (mkSource data sc)
             = (SOk, fst (read_seq_lines (lines data)), s').
Proof.
  intros data sc cap Hcap. unfold run_read_sequence.
  destruct (read_sequence_spec src_read rep_src src_simulates cap Hcap
              (s_fuel ([], mkSource data sc)) true false ([], mkSource data sc) data
              (n_interrupted sc) []) as [s' E].
  - exists data. cbn [fst snd app]. split; [reflexivity|]. split; reflexivity.
  - intros H; discriminate.
  - unfold mu, s_fuel, b_fuel, src_fuel. cbn [fst snd s_data s_script length]. lia.
  - exists s'. refine (eq_trans E _). cbn [app]. now rewrite read_seq_lines_seq_spec.
Qed.

(* the exactness theorem through every chunked source *)
Lemma query_exact_any_delivery : forall f recs err r chk s e cap sc,
  index_file f = (recs, err) -> In r recs -> 1 <= cap ->
  exists body, record_lines f r body /\
    let B := naive_bases body in
    let st := match s with Some p => p | None => 1%N end in
    let en := match e with Some p => p | None => usize_max end in
    heads_ok body ->
    nth (N.to_nat (st - 1)) B 0%N <> CR -> nth (N.to_nat (st - 1)) B 0%N <> GT ->
    (1 <= st)%N -> (st <= f_len r)%N -> (st <= en)%N ->
    query_delivered chk cap f sc r s e
    = (SOk, QOk (firstn (N.to_nat (en - st + 1)) (skipn (N.to_nat (st - 1)) B))).
Proof.
  intros f recs err r chk s e cap sc H Hin Hcap.
  destruct (query_exact_gen f recs err r chk s e H Hin) as [body [Hb Hq]].
  exists body. split; [exact Hb|]. cbv zeta in *. intros Hh H1 H2 H3 H4 H5.
  rewrite query_any_delivery by exact Hcap. f_equal. now apply Hq.
Qed.
