(* C11 — proofs about random access (NV.Fasta.Query): a region query through the index built by
   the indexer returns exactly the slice of the naive parse. *)
From Coq Require Import List NArith Bool Lia ZifyBool ZifyNat ZifyN.
From NV Require Import Fasta.Layout Fasta.LayoutProofs Fasta.Indexer Fasta.IndexerProofs Fasta.Query.
Import ListNotations.
Open Scope N_scope.

Arguments N.add : simpl never.
Arguments N.sub : simpl never.
Arguments N.mul : simpl never.
Arguments N.div : simpl never.
Arguments N.modulo : simpl never.

Lemma seek_skipn : forall f pos, seek f pos = skipn (N.to_nat pos) f.
Proof.
  intros f pos. unfold seek, len. destruct (N.leb_spec (N.of_nat (length f)) pos) as [H|H]; [|reflexivity].
  symmetry. apply skipn_all2. lia.
Qed.

Lemma drop_crlf_only : forall l, crlf_only l -> drop_crlf l = [].
Proof.
  induction l as [|b t IH]; intros H; [reflexivity|].
  cbn [drop_crlf]. destruct (H b (or_introl eq_refl)) as [E|E]; subst b; cbn [N.eqb orb].
  - change (CR =? CR) with true. cbn [orb]. apply IH. intros b Hb. apply H. now right.
  - change (LF =? CR) with false. change (LF =? LF) with true. cbn [orb].
    apply IH. intros b Hb. apply H. now right.
Qed.

Lemma firstn_app_short : forall A (n : nat) (a b : list A), (n <= length a)%nat -> firstn n (a ++ b) = firstn n a.
Proof.
  intros A n a b H. rewrite firstn_app. replace (n - length a)%nat with 0%nat by lia.
  cbn [firstn]. apply app_nil_r.
Qed.

Lemma firstn_app_long : forall A (n : nat) (a b : list A), (length a <= n)%nat ->
  firstn n (a ++ b) = a ++ firstn (n - length a) b.
Proof.
  intros A n a b H. rewrite firstn_app. now rewrite firstn_all2 by lia.
Qed.

(* one fill_buf + copy step of read_sequence_limit at a line whose first byte is a base *)
Lemma rsl_step : forall l r max x C R,
  content l = x :: C -> x <> CR -> x <> LF -> x <> GT -> 0 < max ->
  (forall m, 0 < m -> rsl_lines r m = firstn (N.to_nat m) R) ->
  rsl_lines (l :: r) max = firstn (N.to_nat max) (content l ++ R).
Proof.
  intros l r max x C R HC Hcr Hlf Hgt Hmax HR.
  destruct (content_head _ _ _ HC) as [t Et]. subst l.
  cbn [rsl_lines]. replace (max =? 0) with false by lia.
  cbn [drop_crlf].
  replace (x =? CR) with false by lia. replace (x =? LF) with false by lia. cbn [orb].
  replace (x =? GT) with false by lia.
  unfold len. destruct (N.leb_spec max (N.of_nat (length (content (x :: t))))) as [H|H].
  - symmetry. apply firstn_app_short. lia.
  - rewrite HR by lia. rewrite firstn_app_long by lia. f_equal. f_equal. lia.
Qed.

(* reading from the start of a line: the rest of the naive bases, up to max *)
Lemma rsl_from_start : forall ls max,
  proper ls -> ~ In CR (naive_bases ls) -> 0 < max ->
  rsl_lines ls max = firstn (N.to_nat max) (naive_bases ls).
Proof.
  induction ls as [|l rest IH]; intros max Hp Hcr Hmax.
  - cbn. now rewrite firstn_nil.
  - cbn [naive_bases] in *. destruct (is_def l) eqn:Hd.
    + rewrite firstn_nil. destruct l as [|b t]; [discriminate|]. cbn in Hd.
      cbn [rsl_lines]. replace (max =? 0) with false by lia. cbn [drop_crlf].
      assert (b = GT) by lia. subst b.
      change (GT =? CR) with false. change (GT =? LF) with false. cbn [orb].
      change (GT =? GT) with true. reflexivity.
    + assert (Hrest : forall m, 0 < m -> rsl_lines rest m = firstn (N.to_nat m) (naive_bases rest)).
      { intros m Hm. apply IH; [exact (proper_tail _ _ Hp)| |exact Hm].
        intros Hin. apply Hcr. apply in_or_app. now right. }
      destruct (content l) as [|x C] eqn:HC.
      * cbn [app]. cbn [rsl_lines]. replace (max =? 0) with false by lia.
        rewrite (drop_crlf_only l (content_nil_crlf l HC)). now apply Hrest.
      * rewrite <- HC. apply (rsl_step l rest max x C); try assumption.
        -- intros E. apply Hcr. left. now symmetry.
        -- intros E. apply (content_nolf l rest Hp). rewrite HC. left. now symmetry.
        -- intros E. destruct (content_head _ _ _ HC) as [t Et]. subst l x. cbn in Hd. discriminate.
Qed.

(* reading from column c inside the content of line l *)
Lemma rsl_mid : forall l r (c : nat) max,
  proper (l :: r) -> (c < length (content l))%nat ->
  ~ In CR (content l ++ naive_bases r) -> ~ In GT (content l) -> 0 < max ->
  rsl_lines (lines (skipn c l ++ concat r)) max
  = firstn (N.to_nat max) (skipn c (content l) ++ naive_bases r).
Proof.
  intros l r c max Hp Hc Hcr Hgt Hmax.
  pose proof (content_length_le l) as Hle.
  assert (Hp' : proper (skipn c l :: r)) by (apply proper_skip_head; [assumption|lia]).
  change (skipn c l ++ concat r) with (concat (skipn c l :: r)).
  rewrite lines_concat_proper by exact Hp'.
  assert (Hcr1 : ~ In CR (content l)) by (intros H; apply Hcr; apply in_or_app; now left).
  assert (Hlf1 : ~ In LF (content l)) by exact (content_nolf l r Hp).
  assert (EC : content (skipn c l) = skipn c (content l)) by (apply content_skipn; [assumption|assumption|lia]).
  destruct (skipn c (content l)) as [|x C] eqn:ES.
  { apply (f_equal (@length N)) in ES. rewrite skipn_length in ES. cbn in ES. lia. }
  assert (Hin : In x (content l)).
  { rewrite <- (firstn_skipn c (content l)), ES. apply in_or_app. right. now left. }
  rewrite <- EC. apply (rsl_step (skipn c l) r max x C); try assumption.
  - intros E. subst x. exact (Hcr1 Hin).
  - intros E. subst x. exact (Hlf1 Hin).
  - intros E. subst x. exact (Hgt Hin).
  - intros m Hm. apply rsl_from_start; [exact (proper_tail _ _ Hp)| |exact Hm].
    intros H. apply Hcr. apply in_or_app. now right.
Qed.


(* ---- the same with the weakest side conditions the repaired reader needs ----
   The reader skips a CR at the start of a line and treats '>' at the start of a line (and at the
   seek position) as the end of the sequence; every other CR / '>' is data. *)

(* no non-blank sequence line (up to the next definition) starts with a CR *)
Definition head_ok (l : list N) : Prop := forall x C, content l = x :: C -> x <> CR.

Fixpoint heads_ok (ls : list (list N)) : Prop :=
  match ls with
  | [] => True
  | l :: r => if is_def l then True else head_ok l /\ heads_ok r
  end.

Lemma heads_ok_of_no_cr : forall ls, ~ In CR (naive_bases ls) -> heads_ok ls.
Proof.
  induction ls as [|l r IH]; intros H; cbn [heads_ok naive_bases] in *; [exact I|].
  destruct (is_def l); [exact I|]. split.
  - intros x C E Hx. apply H. apply in_or_app. left. rewrite E. left. now symmetry.
  - apply IH. intros Hin. apply H. apply in_or_app. now right.
Qed.

Lemma heads_ok_suffix : forall pre l r,
  Forall (fun l => is_def l = false) pre -> heads_ok (pre ++ l :: r) -> heads_ok (l :: r).
Proof.
  induction 1 as [|p pre Hp F IH]; intros H; [exact H|].
  cbn [app heads_ok] in H. rewrite Hp in H. apply IH. tauto.
Qed.

Lemma rsl_from_start_gen : forall ls max,
  proper ls -> heads_ok ls -> 0 < max ->
  rsl_lines ls max = firstn (N.to_nat max) (naive_bases ls).
Proof.
  induction ls as [|l rest IH]; intros max Hp Hh Hmax.
  - cbn. now rewrite firstn_nil.
  - cbn [naive_bases heads_ok] in *. destruct (is_def l) eqn:Hd.
    + rewrite firstn_nil. destruct l as [|b t]; [discriminate|]. cbn in Hd.
      cbn [rsl_lines]. replace (max =? 0) with false by lia. cbn [drop_crlf].
      assert (b = GT) by lia. subst b.
      change (GT =? CR) with false. change (GT =? LF) with false. cbn [orb].
      change (GT =? GT) with true. reflexivity.
    + destruct Hh as [Hl Hr].
      assert (Hrest : forall m, 0 < m -> rsl_lines rest m = firstn (N.to_nat m) (naive_bases rest)).
      { intros m Hm. apply IH; [exact (proper_tail _ _ Hp)|exact Hr|exact Hm]. }
      destruct (content l) as [|x C] eqn:HC.
      * cbn [app]. cbn [rsl_lines]. replace (max =? 0) with false by lia.
        rewrite (drop_crlf_only l (content_nil_crlf l HC)). now apply Hrest.
      * rewrite <- HC. apply (rsl_step l rest max x C); try assumption.
        -- exact (Hl x C HC).
        -- intros E. apply (content_nolf l rest Hp). rewrite HC. left. now symmetry.
        -- intros E. destruct (content_head _ _ _ HC) as [t Et]. subst l x. cbn in Hd. discriminate.
Qed.

Lemma rsl_mid_gen : forall l r (c : nat) max x C,
  proper (l :: r) -> skipn c (content l) = x :: C -> x <> CR -> x <> GT ->
  heads_ok r -> 0 < max ->
  rsl_lines (lines (skipn c l ++ concat r)) max
  = firstn (N.to_nat max) (skipn c (content l) ++ naive_bases r).
Proof.
  intros l r c max x C Hp ES Hcr Hgt Hh Hmax.
  assert (Hc : (c < length (content l))%nat).
  { destruct (Compare_dec.le_lt_dec (length (content l)) c) as [H|H]; [|exact H].
    rewrite skipn_all2 in ES by exact H. discriminate. }
  pose proof (content_length_le l) as Hle.
  assert (Hp' : proper (skipn c l :: r)) by (apply proper_skip_head; [assumption|lia]).
  change (skipn c l ++ concat r) with (concat (skipn c l :: r)).
  rewrite lines_concat_proper by exact Hp'.
  assert (EC : content (skipn c l) = skipn c (content l)) by (apply (content_skipn_proper l r); assumption).
  assert (Hin : In x (content l)).
  { rewrite <- (firstn_skipn c (content l)), ES. apply in_or_app. right. now left. }
  rewrite ES in EC. rewrite ES, <- EC.
  apply (rsl_step (skipn c l) r max x C); try assumption.
  - intros E. subst x. exact (content_nolf l r Hp Hin).
  - intros m Hm. apply rsl_from_start_gen; [exact (proper_tail _ _ Hp)|exact Hh|exact Hm].
Qed.

Lemma fai_query_gen_ok : forall chk r s0,
  s0 < f_len r ->
  fai_query_gen chk r s0 = Some (f_pos r + offset_of (f_lw r) (f_lb r) s0).
Proof.
  intros chk r s0 H. unfold fai_query_gen, offset_of.
  replace (f_len r <=? s0) with false by lia. rewrite andb_false_r. f_equal. lia.
Qed.

Lemma skipn_file : forall (pre : list (list N)) d body (x : N),
  skipn (N.to_nat (len (concat pre) + len d + x)) (concat (pre ++ d :: body))
  = skipn (N.to_nat x) (concat body).
Proof.
  intros pre d body x. rewrite concat_app. cbn [concat].
  rewrite (app_assoc (concat pre) d (concat body)).
  rewrite skipn_app.
  assert (EL : length (concat pre ++ d) = N.to_nat (len (concat pre) + len d)).
  { rewrite app_length. unfold len. lia. }
  rewrite skipn_all2 by lia. cbn [app]. f_equal. lia.
Qed.

(* ---- a record of an accepted file: offsets and queries ---- *)

Section Record.
  Variables (f : list N) (pre : list (list N)) (d : list N) (body : list (list N))
            (r : fai) (off' : N) (rest : list (list N)).
  Hypothesis Hlines : lines f = pre ++ d :: body.
  Hypothesis Hidx : index_record (d :: body) (len (concat pre)) = inr (Some (r, off', rest)).

  Let B := naive_bases body.

  Lemma record_length : f_len r = len B.
  Proof. destruct (index_record_spec _ _ _ _ _ _ Hidx) as [_ [_ [_ [H _]]]]. exact H. Qed.

  Lemma record_length_pos : 0 < f_len r.
  Proof.
    destruct (index_record_spec _ _ _ _ _ _ Hidx)
      as [_ [_ [Hlb [Hlen [_ [[l1 [r1 [Eb [Hd [_ [Elb _]]]]]] _]]]]]].
    rewrite Hlen, Eb. cbn [naive_bases]. rewrite Hd, len_app. lia.
  Qed.

  Lemma record_file : f = concat (pre ++ d :: body).
  Proof. rewrite <- Hlines. symmetry. apply lines_concat. Qed.

  Lemma record_offset_correct : forall i dflt,
    i < f_len r ->
    exists pos, fai_query r i = Some pos /\ nth (N.to_nat pos) f dflt = nth (N.to_nat i) B dflt.
  Proof.
    intros i dflt Hi. eexists. split; [apply fai_query_gen_ok; exact Hi|].
    destruct (index_record_spec _ _ _ _ _ _ Hidx) as [_ [Hp _]].
    rewrite Hp, nth_skipn_0. rewrite record_file at 1. rewrite skipn_file, <- nth_skipn_0.
    exact (fai_offset_correct_body _ _ _ _ _ _ i dflt Hidx Hi).
  Qed.

  Lemma record_query_exact : forall chk s e,
    ~ In CR B -> ~ In GT B ->
    let st := match s with Some p => p | None => 1 end in
    let en := match e with Some p => p | None => usize_max end in
    1 <= st -> st <= f_len r -> st <= en ->
    query_record chk f r s e = QOk (firstn (N.to_nat (en - st + 1)) (skipn (N.to_nat (st - 1)) B)).
  Proof.
    intros chk s e Hcr Hgt st en H1 H2 H3. unfold query_record.
    assert (E0 : match s with Some p => p - 1 | None => 0 end = st - 1) by (destruct s; subst st; lia).
    rewrite E0. rewrite fai_query_gen_ok by lia.
    fold st en. replace (en <? st) with false by lia. f_equal.
    destruct (index_record_spec _ _ _ _ _ _ Hidx) as [_ [Hp [_ [Hlen [Hloc _]]]]].
    rewrite seek_skipn, Hp. rewrite record_file at 1. rewrite skipn_file.
    destruct (Hloc (st - 1)) as [l [r' [c [pre' [E [Fp [Hd [Hc [Hsk Hnb]]]]]]]]]; [lia|].
    rewrite Hsk. fold B in Hnb. rewrite Hnb.
    assert (Hp' : proper (l :: r')).
    { apply (proper_suffix pre'). rewrite <- E. apply (proper_suffix (pre ++ [d])).
      rewrite <- app_assoc. cbn [app]. rewrite <- Hlines. apply lines_proper. }
    (* the bases of l and of what follows are part of B *)
    assert (Hsub : forall b, In b (content l ++ naive_bases r') -> In b B).
    { intros b Hb. unfold B. rewrite E, (naive_bases_app_nondef pre' (l :: r') Fp).
      cbn [naive_bases]. rewrite Hd. apply in_or_app. now right. }
    apply rsl_mid; try assumption.
    - intros H. apply Hcr. now apply Hsub.
    - intros H. apply Hgt. apply Hsub. apply in_or_app. now left.
    - lia.
  Qed.

  (* weakest side conditions: no sequence line of the record starts with a CR, and the base at
     the start of the region is neither a CR nor '>' *)
  Lemma record_query_exact_gen : forall chk s e,
    let st := match s with Some p => p | None => 1 end in
    let en := match e with Some p => p | None => usize_max end in
    heads_ok body ->
    nth (N.to_nat (st - 1)) B 0 <> CR -> nth (N.to_nat (st - 1)) B 0 <> GT ->
    1 <= st -> st <= f_len r -> st <= en ->
    query_record chk f r s e = QOk (firstn (N.to_nat (en - st + 1)) (skipn (N.to_nat (st - 1)) B)).
  Proof.
    intros chk s e st en Hh Hcr Hgt H1 H2 H3. unfold query_record.
    assert (E0 : match s with Some p => p - 1 | None => 0 end = st - 1) by (destruct s; subst st; lia).
    rewrite E0. rewrite fai_query_gen_ok by lia.
    fold st en. replace (en <? st) with false by lia. f_equal.
    destruct (index_record_spec _ _ _ _ _ _ Hidx) as [_ [Hp [_ [Hlen [Hloc _]]]]].
    rewrite seek_skipn, Hp. rewrite record_file at 1. rewrite skipn_file.
    destruct (Hloc (st - 1)) as [l [r' [c [pre' [E [Fp [Hd [Hc [Hsk Hnb]]]]]]]]]; [lia|].
    rewrite Hsk. fold B in Hnb.
    assert (Hp' : proper (l :: r')).
    { apply (proper_suffix pre'). rewrite <- E. apply (proper_suffix (pre ++ [d])).
      rewrite <- app_assoc. cbn [app]. rewrite <- Hlines. apply lines_proper. }
    assert (Hh' : heads_ok (l :: r')) by (apply (heads_ok_suffix pre'); [exact Fp|now rewrite <- E]).
    cbn [heads_ok] in Hh'. rewrite Hd in Hh'. destruct Hh' as [_ Hhr].
    destruct (skipn c (content l)) as [|x C] eqn:ES.
    { apply (f_equal (@length N)) in ES. rewrite skipn_length in ES. cbn in ES. lia. }
    assert (Ex : nth (N.to_nat (st - 1)) B 0 = x).
    { rewrite nth_skipn_0, Hnb. reflexivity. }
    rewrite Ex in Hcr, Hgt. rewrite Hnb, <- ES.
    apply (rsl_mid_gen l r' c _ x C); try assumption. lia.
  Qed.

  (* the repaired Record::query refuses a start beyond the length *)
  Lemma record_query_checked_beyond : forall s e,
    let st := match s with Some p => p | None => 1 end in
    f_len r < st -> query_record true f r s e = QErrInvalidInput.
  Proof.
    intros s e st H. unfold query_record, fai_query_gen.
    destruct s as [p|]; subst st; cbn [andb].
    - pose proof record_length_pos as Hpos.
      replace (0 <? p - 1) with true by lia.
      replace (f_len r <=? p - 1) with true by lia. reflexivity.
    - pose proof record_length_pos as Hpos. lia.
  Qed.
End Record.

(* ---- the whole file ---- *)

(* [record_of f r B]: fai record r was produced by the indexer at a definition line d of f that
   carries r's name, preceded by exactly f_pos r - |d| bytes, and B is the naive parse of the
   sequence lines between d and the next definition line / the end of the file *)
Definition record_of (f : list N) (r : fai) (B : list N) : Prop :=
  exists pre d body off' rest,
    lines f = pre ++ d :: body /\
    index_record (d :: body) (len (concat pre)) = inr (Some (r, off', rest)) /\
    B = naive_bases body /\
    parse_def_name (def_content d) = Some (f_name r).

Lemma index_file_records : forall f recs e r,
  index_file f = (recs, e) -> In r recs -> exists B, record_of f r B.
Proof.
  intros f recs e r H Hin. unfold index_file in H.
  destruct (index_loop_sound _ _ _ _ _ [] H eq_refl r Hin) as [pre [d [body [off' [rest [E HR]]]]]].
  exists (naive_bases body), pre, d, body, off', rest. cbn [app] in E.
  repeat split; try assumption.
  destruct (index_record_spec _ _ _ _ _ _ HR) as [Hn _]. exact Hn.
Qed.

Lemma fai_offset_correct : forall f recs e r,
  index_file f = (recs, e) -> In r recs ->
  exists B, record_of f r B /\ f_len r = len B /\
    forall i dflt, i < len B ->
      exists pos, fai_query r i = Some pos /\ nth (N.to_nat pos) f dflt = nth (N.to_nat i) B dflt.
Proof.
  intros f recs e r H Hin. destruct (index_file_records _ _ _ _ H Hin) as [B HB].
  exists B. split; [exact HB|].
  destruct HB as [pre [d [body [off' [rest [HL [HR [EB _]]]]]]]]. subst B.
  pose proof (record_length pre d body r off' rest HR) as Hlen.
  split; [exact Hlen|]. intros i dflt Hi.
  apply (record_offset_correct f pre d body r off' rest HL HR). lia.
Qed.

Lemma query_exact : forall f recs err r chk s e,
  index_file f = (recs, err) -> In r recs ->
  exists B, record_of f r B /\
    (~ In CR B -> ~ In GT B ->
     let st := match s with Some p => p | None => 1 end in
     let en := match e with Some p => p | None => usize_max end in
     1 <= st -> st <= f_len r -> st <= en ->
     query_record chk f r s e
     = QOk (firstn (N.to_nat (en - st + 1)) (skipn (N.to_nat (st - 1)) B))).
Proof.
  intros f recs err r chk s e H Hin. destruct (index_file_records _ _ _ _ H Hin) as [B HB].
  exists B. split; [exact HB|].
  destruct HB as [pre [d [body [off' [rest [HL [HR [EB _]]]]]]]]. subst B.
  exact (record_query_exact f pre d body r off' rest HL HR chk s e).
Qed.

Lemma query_checked_beyond : forall f recs err r s e,
  index_file f = (recs, err) -> In r recs ->
  let st := match s with Some p => p | None => 1 end in
  f_len r < st -> query_record true f r s e = QErrInvalidInput.
Proof.
  intros f recs err r s e H Hin. destruct (index_file_records _ _ _ _ H Hin) as [B HB].
  destruct HB as [pre [d [body [off' [rest [HL [HR _]]]]]]].
  exact (record_query_checked_beyond f pre d body r off' rest HR s e).
Qed.

(* the raw sequence lines of the record that r indexes *)
Definition record_lines (f : list N) (r : fai) (body : list (list N)) : Prop :=
  exists pre d off' rest,
    lines f = pre ++ d :: body /\
    index_record (d :: body) (len (concat pre)) = inr (Some (r, off', rest)) /\
    parse_def_name (def_content d) = Some (f_name r).

Lemma record_lines_of : forall f r body, record_lines f r body -> record_of f r (naive_bases body).
Proof.
  intros f r body [pre [d [off' [rest [H1 [H2 H3]]]]]]. exists pre, d, body, off', rest. auto.
Qed.

Lemma query_exact_gen : forall f recs err r chk s e,
  index_file f = (recs, err) -> In r recs ->
  exists body, record_lines f r body /\
    let B := naive_bases body in
    let st := match s with Some p => p | None => 1 end in
    let en := match e with Some p => p | None => usize_max end in
    heads_ok body ->
    nth (N.to_nat (st - 1)) B 0 <> CR -> nth (N.to_nat (st - 1)) B 0 <> GT ->
    1 <= st -> st <= f_len r -> st <= en ->
    query_record chk f r s e
    = QOk (firstn (N.to_nat (en - st + 1)) (skipn (N.to_nat (st - 1)) B)).
Proof.
  intros f recs err r chk s e H Hin. destruct (index_file_records _ _ _ _ H Hin) as [B HB].
  destruct HB as [pre [d [body [off' [rest [HL [HR [EB Hn]]]]]]]]. subst B.
  exists body. split; [exists pre, d, off', rest; auto|].
  exact (record_query_exact_gen f pre d body r off' rest HL HR chk s e).
Qed.

(* the pinned code: a start beyond the length returns bytes of the next record *)
Definition f3_file : list N := [62;97;10;65;67;71;84;10;62;98;10;84;84;84;84;10].  (* ">a\nACGT\n>b\nTTTT\n" *)

Lemma query_start_beyond_refuted :
  exists f r s e,
    In r (fst (index_file f)) /\ snd (index_file f) = None /\ f_len r < s /\ s <= e /\
    query_record false f r (Some s) (Some e) = QOk [98; 84]   (* "bT" *)
    /\ naive_bases (tl (lines f)) = [65;67;71;84].
Proof.
  exists f3_file, (mkfai [97] 4 3 4 5), 6, 7.
  split; [vm_compute; now left|].
  split; [vm_compute; reflexivity|].
  split; [reflexivity|]. split; [discriminate|].
  split; vm_compute; reflexivity.
Qed.
