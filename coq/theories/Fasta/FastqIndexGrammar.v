(* C11 — what noodles-fastq's INDEXER (io/indexer.rs Indexer::index_record) accepts, as a grammar.

   The indexer does not use the record reader.  It calls read_definition (first byte must be '@',
   the name must be UTF-8) and then three blind read_until(LF): it never looks at the first byte of
   the third line, never compares the lengths of the sequence and the quality line, and a record
   that is cut short by the end of the input (after the definition line, after the sequence line,
   after the third line ...) is indexed like a complete one, the missing lines being empty:

     file    ::= record*
     record  ::= '@' line line line line
     line    ::= (any bytes except LF)* LF            (a terminated line)
               | (any bytes except LF)*               (only at the end of the input; may be empty)

   with the single side condition that the name cut out of the first line is well-formed UTF-8.

   [cut s l r]          one read_until(LF): l is consumed, r is left
   [name_of_defline dl] the name read_definition leaves in the record for the first line dl
                        (the bytes after the '@', LF included when there is one)
   [fqi_parses f off recs]  the grammar with the index records it assigns (off = offset of f)
   [fqi_accepts f]      the decidable membership test, over the bytes

   FastqIndexGrammarProofs: index_qfile f = (recs, None) <-> fqi_parses f 0 recs, fqi_accepts f =
   true <-> the indexer reports no error <-> membership, the only error is InvalidData, every file
   the reader accepts (FastqGrammar.fq_parses) with UTF-8 names is accepted by the indexer with the
   same names, and the indexer is strictly more lenient. *)
From Coq Require Import List NArith Bool.
From NV Require Import Fasta.Layout Fasta.Fastq Fasta.FastqGrammar.
Import ListNotations.
Open Scope N_scope.

(* one read_until(LF) on s: consumes l, leaves r *)
Inductive cut : list N -> list N -> list N -> Prop :=
| cut_lf : forall x r, lf_free x -> cut ((x ++ [LF]) ++ r) (x ++ [LF]) r
| cut_eof : forall s, lf_free s -> cut s s [].

(* the name read_definition extracts from the first line dl (after the '@'):
   body = dl without its LF; the name is the body up to its first SP / HT; when there is none and
   the line was ended by an LF, one trailing CR is popped; when the input ended first nothing is
   popped *)
Definition name_of_defline (dl : list N) : list N :=
  let '(n, o) := split_def (strip_last LF dl) in
  match o with
  | Some _ => n
  | None => if ends_with LF dl then strip_last CR n else n
  end.

Inductive fqi_parses : list N -> N -> list qfai -> Prop :=
| fqi_end : forall off, fqi_parses [] off []
| fqi_rec : forall off t dl l1 l2 l3 r1 r2 r3 r4 recs,
    cut t dl r1 -> cut r1 l1 r2 -> cut r2 l2 r3 -> cut r3 l3 r4 ->
    utf8_valid (name_of_defline dl) = true ->
    fqi_parses r4 (off + 1 + len dl + len l1 + len l2 + len l3) recs ->
    fqi_parses (AT :: t) off
      (mkqfai (name_of_defline dl) (len (rtrim_ws l1)) (off + 1 + len dl)
              (len (rtrim_ws l1)) (len l1) (off + 1 + len dl + len l1 + len l2) :: recs).

(* ---- the decidable membership test ---- *)

(* the bytes up to and including the first LF (all of them when there is none) *)
Fixpoint line_of (s : list N) : list N :=
  match s with
  | [] => []
  | b :: t => if b =? LF then [b] else b :: line_of t
  end.

(* the bytes after the first LF (none when there is no LF) *)
Definition skip_line (s : list N) : list N :=
  match after_lf s with Some r => r | None => [] end.

Fixpoint fqi_accepts_fuel (fuel : nat) (s : list N) : bool :=
  match fuel with
  | O => false
  | S fuel' =>
      match s with
      | [] => true
      | b :: t =>
          (b =? AT) && utf8_valid (name_of_defline (line_of t)) &&
          fqi_accepts_fuel fuel' (skip_line (skip_line (skip_line (skip_line t))))
      end
  end.

Definition fqi_accepts (f : list N) : bool := fqi_accepts_fuel (S (length f)) f.
