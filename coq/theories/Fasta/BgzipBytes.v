(* C11 — a region query on a BGZF-compressed FASTA, starting from the FILE BYTES under any delivery.

   Fasta/Bgzip.v states the query (and the indexer) over an already parsed frame list
   [ReaderOps.file].  Here the frame list is what bgzf::io::Reader itself parses from a scripted
   byte source (short reads, Interrupted, raw or behind a std BufReader of any capacity):
   C12's delivered frame reader NV.Io.BgzfRead.d_read_frames (read_frame_into = two read_exact
   calls, then C01's parse_block) with the concrete executable inflater NV.Bgzf.Inflate.inflate,
   with exactly the fuels NV.Io.Run.run_bgzf uses.

   Definitions only (extracted to OCaml); the theorems are in Fasta/BgzipBytesProofs.v. *)
From Coq Require Import List NArith Arith Bool.
From NV Require Import Io.Source Io.BufReader Io.BgzfRead Io.Run.
From NV Require Import Fasta.Layout Fasta.Indexer Fasta.Query Fasta.Bgzip.
From NV Require Bgzf.Frame Bgzf.Inflate Bgzf.Gzi Bgzf.ReaderOps.
Import ListNotations.
Local Open Scope nat_scope.   (* the Fasta modules open N_scope *)

(* the frames (compressed size, inflated data) bgzf::io::Reader parses from the source before the
   end of input or the first error, and how the reading ended: Ok tt = clean end of input.
   cap = 0: the reader sits directly on the source; otherwise on BufReader::with_capacity(cap). *)
Definition bz_frames_of_bytes (cap : nat) (s : source) : Bgzf.ReaderOps.file * Bgzf.Frame.res unit :=
  let k := Datatypes.S (length (s_data s)) in
  match cap with
  | 0 => fst (d_read_frames src_read NV.Bgzf.Inflate.inflate k (src_fuel s 18) s)
  | _ => fst (d_read_frames (br_read src_read cap) NV.Bgzf.Inflate.inflate k (b_fuel ([], s) 18) ([], s))
  end.

(* index the bgzipped FASTA and run the region queries, from the file bytes.
   None = the bytes are not a well-formed BGZF file (a frame failed to parse, inflate or CRC-check,
   or the input ended inside a frame). *)
Definition index_and_query_bgzf_bytes (cap : nat) (s : source) (idx : Gzi.gzi_index)
           (prior : list Bgzf.ReaderOps.op) (qs : list (list N * (option N * option N)))
  : option (list fai * option ierr * list zres) :=
  match bz_frames_of_bytes cap s with
  | (F, Bgzf.Frame.Ok tt) => Some (index_bgzf F, index_and_query_bgzf F idx prior qs)
  | _ => None
  end.
