(* C11 — FASTA byte layout: splitting a file into raw lines (terminators kept), the content of
   a line (LF / CRLF stripped), the naive whole-file parse that defines the truth, and the
   FASTA writer of noodles-fasta (io/writer/record.rs, .../record/{definition,sequence}.rs).
   Bytes are N. *)
From Coq Require Import List NArith Bool.
Import ListNotations.
Open Scope N_scope.

Definition LF : N := 10.
Definition CR : N := 13.
Definition GT : N := 62.   (* '>' *)
Definition SP : N := 32.

Definition len {A} (l : list A) : N := N.of_nat (length l).

(* A file as its raw lines: every line keeps its terminating LF; the last line may lack one.
   concat (lines s) = s (LayoutProofs.lines_concat). *)
Fixpoint lines (s : list N) : list (list N) :=
  match s with
  | [] => []
  | b :: t =>
      if b =? LF then [b] :: lines t
      else match lines t with
           | [] => [[b]]
           | l :: ls => (b :: l) :: ls
           end
  end.

(* remove one trailing byte c, if present *)
Fixpoint strip_last (c : N) (l : list N) : list N :=
  match l with
  | [] => []
  | x :: t =>
      match t with
      | [] => if x =? c then [] else [x]
      | _ :: _ => x :: strip_last c t
      end
  end.

Fixpoint ends_with (c : N) (l : list N) : bool :=
  match l with
  | [] => false
  | x :: t => match t with [] => x =? c | _ :: _ => ends_with c t end
  end.

(* bases of a raw sequence line: up to the LF (exclusive), minus one trailing CR
   (indexer.rs count_bases, reader/sequence.rs fill_buf) *)
Definition content (l : list N) : list N := strip_last CR (strip_last LF l).

(* reader.rs read_line: the CR is popped only when an LF was popped *)
Definition def_content (l : list N) : list N :=
  if ends_with LF l then strip_last CR (strip_last LF l) else l.

Definition is_def (l : list N) : bool :=
  match l with b :: _ => b =? GT | [] => false end.

(* The naive parse of the sequence lines that follow a definition line: the contents of all
   lines up to the next line that starts with '>' (or the end of the file), concatenated. *)
Fixpoint naive_bases (ls : list (list N)) : list N :=
  match ls with
  | [] => []
  | l :: r => if is_def l then [] else content l ++ naive_bases r
  end.

(* u8::is_ascii_whitespace: SP, HT, LF, FF, CR *)
Definition is_ws (b : N) : bool :=
  (b =? 32) || (b =? 9) || (b =? 10) || (b =? 12) || (b =? 13).

Fixpoint take_name (l : list N) : list N :=
  match l with
  | [] => []
  | b :: t => if is_ws b then [] else b :: take_name t
  end.

(* reader/definition.rs parse_definition, name part only (None = InvalidData) *)
Definition parse_def_name (buf : list N) : option (list N) :=
  match buf with
  | [] => None
  | b :: r =>
      if b =? GT then
        match take_name r with
        | [] => None
        | n => Some n
        end
      else None
  end.

Fixpoint drop_ws (l : list N) : list N :=
  match l with
  | [] => []
  | b :: t => if is_ws b then drop_ws t else l
  end.

Definition trim_ws (l : list N) : list N := rev (drop_ws (rev (drop_ws l))).

(* name and description (trim_ascii of what follows the name) *)
Definition parse_def (buf : list N) : option (list N * list N) :=
  match parse_def_name buf with
  | None => None
  | Some n => Some (n, trim_ws (skipn (length n) (tl buf)))
  end.

(* ---- the writer ---- *)

(* slice::chunks(w), w >= 1 (NonZero<usize>); fuel = length of the sequence *)
Fixpoint chunks (fuel : nat) (w : nat) (s : list N) : list (list N) :=
  match fuel with
  | O => []
  | S fuel' =>
      match s with
      | [] => []
      | _ :: _ => firstn w s :: chunks fuel' w (skipn w s)
      end
  end.

Definition write_definition (name : list N) (desc : option (list N)) : list N :=
  GT :: name ++ match desc with Some d => SP :: d | None => [] end.

Definition write_sequence (w : nat) (s : list N) : list N :=
  concat (map (fun c => c ++ [LF]) (chunks (length s) w s)).

Definition write_record (w : nat) (name : list N) (desc : option (list N)) (s : list N) : list N :=
  write_definition name desc ++ [LF] ++ write_sequence w s.

(* ---- the naive parse of a whole file ----
   One (name, bases) pair per line that starts with '>': the name as parse_def_name reads it
   ([] when the definition is malformed) and the naive bases of the lines that follow.  Lines
   before the first definition line belong to no record. *)
Definition def_name (l : list N) : list N :=
  match parse_def_name (def_content l) with Some n => n | None => [] end.

Fixpoint naive_records (ls : list (list N)) : list (list N * list N) :=
  match ls with
  | [] => []
  | l :: r => if is_def l then (def_name l, naive_bases r) :: naive_records r else naive_records r
  end.

Definition naive_file (f : list N) : list (list N * list N) := naive_records (lines f).
