(* C11 — model of the sequential FASTA reader (noodles-fasta io/reader.rs read_line,
   io/reader/definition.rs read_definition / parse_definition, io/reader/sequence.rs read_sequence,
   io/reader/records.rs Records::next) over the raw lines of a file, and of the writer applied to
   a list of records (io/writer.rs write_record called once per record).

   As in Indexer.v / Query.v the reader is line driven: read_definition consumes one raw line;
   read_sequence consumes raw lines (skipping CR / LF at the start of a line) until a line whose
   first byte after those is '>' or the end of the input.  Independence of this behaviour from the
   buffer chunking is C12's theorem (Io.FastaScan); FastaDelivery.v relates the two models. *)
From Coq Require Import List NArith Bool.
From NV Require Import Fasta.Layout Fasta.Query.
Import ListNotations.
Open Scope N_scope.

Record frec : Type := mkfrec {
  r_name : list N;
  r_desc : option (list N);
  r_seq : list N
}.

Inductive rerr : Type :=
| RInvalidData     (* parse_definition: empty line, no '>' prefix, empty name *)
| ROutOfFuel.      (* never produced for fuel > number of lines *)

(* read_sequence = read_to_end over sequence::Reader: the bases and the unread rest.  A line that
   consists of CR / LF only is skipped; '>' as the first other byte ends the sequence (the CRs
   before it have been consumed); otherwise the rest of the line minus LF and one CR is data. *)
Fixpoint read_seq_lines (ls : list (list N)) : list N * list (list N) :=
  match ls with
  | [] => ([], [])
  | l :: rest =>
      match drop_crlf l with
      | [] => read_seq_lines rest
      | (b :: _) as l' =>
          if b =? GT then ([], l' :: rest)
          else let '(s, r) := read_seq_lines rest in (content l' ++ s, r)
      end
  end.

(* Records::next until the end of the input or the first error *)
Fixpoint read_records (fuel : nat) (ls : list (list N)) : list frec * option rerr :=
  match fuel with
  | O => ([], Some ROutOfFuel)
  | S fuel' =>
      match ls with
      | [] => ([], None)
      | d :: r =>
          match parse_def (def_content d) with
          | None => ([], Some RInvalidData)
          | Some (n, desc) =>
              let '(s, rest) := read_seq_lines r in
              let '(rs, e) := read_records fuel' rest in
              (mkfrec n (match desc with [] => None | _ :: _ => Some desc end) s :: rs, e)
          end
      end
  end.

Definition read_file (f : list N) : list frec * option rerr :=
  read_records (S (length (lines f))) (lines f).

(* Writer::write_record for each record *)
Definition write_rec (w : nat) (r : frec) : list N :=
  write_record w (r_name r) (r_desc r) (r_seq r).

Definition write_file (w : nat) (recs : list frec) : list N :=
  concat (map (write_rec w) recs).

(* write, then read back / index (what the harness observes for kind wr) *)
Definition write_read (w : nat) (recs : list frec) : list frec * option rerr :=
  read_file (write_file w recs).
