(* C11 — the region query on a BGZF-compressed FASTA through its gzi index returns what the query
   on the uncompressed text returns, for every well-formed frame list, every prior state of the
   reader, every fai record and every region whose byte offset the gzi index can express.
   Composition of C02's refinement lemmas (NV.Bgzf.ReaderOpsProofs: Inv, fill_refines, inv_consume,
   seeku_refines; read-only) with C12's step lemma for the sequence reader (through
   DeliveryProofs.read_sequence_limit_spec) and C11's query theorems. *)
From Coq Require Import List NArith Arith Bool Lia ZifyBool ZifyNat ZifyN.
From NV Require Import Io.Source Io.ReadExactProofs Io.BufReader Io.BufReaderProofs
                       Io.FastaScan Io.FastaScanProofs Io.FastaIndex Io.FastaIndexProofs.
From NV Require Import Fasta.Layout Fasta.LayoutProofs Fasta.Indexer Fasta.IndexerProofs
                       Fasta.Query Fasta.QueryProofs Fasta.Delivery Fasta.DeliveryProofs Fasta.Bgzip.
From NV Require Bgzf.Vpos Bgzf.Gzi Bgzf.ReaderOps Bgzf.FlatRef Bgzf.ReaderOpsProofs Bgzf.ReaderTellProofs.
Import ListNotations.
Local Open Scope nat_scope.

Module RO := NV.Bgzf.ReaderOps.
Module ROP := NV.Bgzf.ReaderOpsProofs.
Module FR := NV.Bgzf.FlatRef.

Lemma bz_text_chunks : forall F, bz_text F = concat (FR.chunks F).
Proof. reflexivity. Qed.

Lemma bz_cap_pos : 1 <= BZ_CAP.
Proof. unfold BZ_CAP. lia. Qed.

Lemma len_same : forall (A : Type) (l : list A), RO.len l = Layout.len l.
Proof. reflexivity. Qed.

Section Bz.
  Variable F : RO.file.
  Hypothesis Hwf : ROP.wf F.
  Let D := bz_text F.

  (* the reader state st still has the text from flat offset [off s] on to deliver *)
  Definition bz_rep (st : RO.state) (d : list N) (m : nat) : Prop :=
    m = 0 /\ exists s, ROP.Inv F st s /\ d = skipn (N.to_nat (FR.off s)) D.

  Lemma len_D : RO.len D = FR.total_dlen F.
  Proof. unfold D. rewrite bz_text_chunks. apply ROP.len_concat_chunks. Qed.

  (* fill_buf on a state satisfying C02's invariant: the window is the unread rest of the current
     (or next non-empty) block = a prefix of the remaining text, empty only at the end *)
  Lemma bz_fill : forall st s, ROP.Inv F st s ->
    exists st1 s1 w,
      RO.fill_buf st = (st1, Vpos.Ok w) /\ ROP.Inv F st1 s1 /\ FR.off s1 = FR.off s /\
      RO.len w = FR.win s1 /\
      w = firstn (length w) (skipn (N.to_nat (FR.off s)) D) /\
      (skipn (N.to_nat (FR.off s)) D <> [] -> w <> []).
  Proof.
    intros st s HI.
    destruct (ROP.fill_refines F st s Hwf HI) as [Hr HI1].
    unfold FR.f_fill in Hr, HI1. cbn [fst snd] in Hr, HI1.
    set (s1 := FR.refill (FR.chunks F) s) in *.
    assert (Hoff : FR.off s1 = FR.off s) by apply ROP.refill_off.
    pose proof (ROP.Inv_bound _ _ _ HI1) as Hb. rewrite <- len_D in Hb.
    destruct (RO.fill_buf st) as [st1 r]. cbn [fst snd] in Hr, HI1. subst r.
    change (concat (FR.chunks F)) with D in *.
    set (w := FR.slice D (FR.off s1) (FR.win s1)).
    assert (Hlen : RO.len w = FR.win s1).
    { apply ROP.len_slice. exact Hb. }
    exists st1, s1, w. split; [reflexivity|]. split; [exact HI1|]. split; [exact Hoff|].
    split; [exact Hlen|]. split.
    - unfold w, FR.slice. rewrite Hoff.
      rewrite firstn_length, skipn_length. unfold RO.len in Hb. f_equal. lia.
    - intros Hne Hw. rewrite Hw in Hlen. unfold RO.len in Hlen. cbn [length] in Hlen.
      assert (Hz : FR.win s1 = 0%N) by lia.
      unfold s1, FR.refill in Hz.
      destruct (N.ltb_spec 0 (FR.win s)) as [Hp|Hp]; [lia|]. cbn [FR.win] in Hz.
      apply ROP.win_at_zero in Hz. change (concat (FR.chunks F)) with D in Hz.
      apply Hne. apply skipn_all2. unfold RO.len in Hz. lia.
  Qed.

  Lemma bz_simulates : simulates bz_read bz_rep.
  Proof.
    intros st d m n [Hm [s [HI Hd]]]. unfold bz_read.
    destruct (bz_fill st s HI) as (st1 & s1 & w & E & HI1 & Hoff & Hlen & Hpre & Hne).
    rewrite E. rewrite <- Hd in Hpre, Hne.
    assert (Hwl : length w <= length d).
    { rewrite Hpre at 1. rewrite firstn_length. lia. }
    set (out := firstn n w).
    assert (Hol : length out = Nat.min n (length w)) by (unfold out; apply firstn_length).
    split.
    - split; [|split].
      + unfold out. rewrite Hpre at 1. rewrite firstn_firstn. f_equal. fold out. lia.
      + lia.
      + intros Hn Hdn. specialize (Hne Hdn). destruct w; [congruence|]. cbn [length] in Hol. lia.
    - exists 0. split; [lia|]. split; [reflexivity|].
      exists (FR.f_consume s1 (RO.len out)). split; [apply ROP.inv_consume; assumption|].
      unfold FR.f_consume, FR.f_advance. cbn [FR.off].
      rewrite Hd, ROP.skipn_add. f_equal. unfold RO.len in *. lia.
  Qed.

  (* bz_read never takes its dead branch *)
  Lemma bz_read_total : forall st s n, ROP.Inv F st s ->
    exists w st1, RO.fill_buf st = (st1, Vpos.Ok w) /\
                  bz_read st n = (ROk (firstn n w), RO.consume st1 (RO.len (firstn n w))).
  Proof.
    intros st s n HI. destruct (bz_fill st s HI) as (st1 & s1 & w & E & _).
    exists w, st1. split; [exact E|]. unfold bz_read. rewrite E. reflexivity.
  Qed.

  (* what justifies treating the block window as C12's BufReader buffer: after fill_buf returned
     the window w, consuming k < |w| bytes of it makes the next fill_buf return the rest of w
     without touching the stream, and consuming the rest then is consuming all of it at once *)
  Lemma bz_window_rest : forall st s st1 w k, ROP.Inv F st s ->
    RO.fill_buf st = (st1, Vpos.Ok w) -> (k < RO.len w)%N ->
    RO.fill_buf (RO.consume st1 k) = (RO.consume st1 k, Vpos.Ok (skipn (N.to_nat k) w)) /\
    RO.consume (RO.consume st1 k) (RO.len w - k) = RO.consume st1 (RO.len w).
  Proof.
    intros st s st1 w k HI E Hk.
    destruct (bz_fill st s HI) as (st1' & s1 & w' & E' & HI1 & Hoff & Hlen & Hpre & _).
    rewrite E in E'. injection E' as <- <-.
    destruct (ROP.Inv_cur _ _ _ HI1) as (Hc & Hw & Hb).
    pose proof (ROP.as_ref_spec _ _ _ HI1) as Har.
    assert (HIk : ROP.Inv F (RO.consume st1 k) (FR.f_consume s1 k)) by (apply ROP.inv_consume; assumption).
    pose proof (ROP.as_ref_spec _ _ _ HIk) as Hark.
    assert (Ew : RO.as_ref st1 = Vpos.Ok w).
    { unfold RO.fill_buf in E.
      destruct (RO.has_remaining st); injection E as E1 E2; rewrite <- E1; exact E2. }
    split.
    - unfold RO.fill_buf.
      replace (RO.has_remaining (RO.consume st1 k)) with true.
      2:{ unfold RO.has_remaining, RO.consume. cbn [RO.cur RO.blen]. symmetry. apply N.ltb_lt. lia. }
      f_equal. rewrite Hark. f_equal.
      rewrite Har in Ew. injection Ew as Ew. rewrite <- Ew.
      unfold FR.f_consume, FR.f_advance, FR.slice. cbn [FR.off FR.win].
      replace (N.min k (FR.win s1)) with k by lia.
      rewrite skipn_firstn_comm, ROP.skipn_add. f_equal; [lia|]. f_equal. lia.
    - unfold RO.consume. cbn [RO.rest RO.position RO.bpos RO.bsize RO.blen RO.cur RO.buf].
      f_equal. lia.
  Qed.

  Hypothesis Hmax : (FR.total_csize F <= Vpos.MAX_COMPRESSED_POSITION)%N.

  (* THE QUERY: for every state of the reader satisfying C02's invariant (every state a valid
     history reaches: ReaderTellProofs.reach_inv), every fai record and region such that the byte
     offset Record::query computes is one the file's gzi index can express ([seeku_ok]: at most
     the text length, and not the end of a file whose last block is a full 65536-byte one) *)
  Theorem query_bgzf_flat : forall chk st0 s0 r s e,
    ROP.Inv F st0 s0 ->
    (forall pos, fai_query_gen chk r (match s with Some p => (p - 1)%N | None => 0%N end) = Some pos ->
                 ROP.seeku_ok F pos) ->
    query_bgzf chk F (RO.gzi_of F) st0 r s e = ZOk (query_record chk D r s e).
  Proof.
    intros chk st0 s0 r s e HI Hpos. unfold query_bgzf, query_record.
    destruct (fai_query_gen chk r _) as [pos|]; [|reflexivity].
    specialize (Hpos pos eq_refl).
    destruct (ROP.seeku_refines true F st0 s0 pos Hwf Hmax HI Hpos) as [Hr HI1].
    destruct (RO.seek_by_uncompressed_position true F (RO.gzi_of F) st0 pos) as [st1 rr].
    cbn [fst snd] in Hr, HI1. subst rr.
    destruct (_ <? _)%N; [reflexivity|].
    rewrite (read_sequence_limit_spec bz_read bz_rep bz_simulates BZ_CAP bz_cap_pos _ _ true false
               ([], st1) (seek D pos) 0 []).
    - cbn [app]. f_equal. f_equal. symmetry. apply rsl_lines_seq_spec.
    - exists (seek D pos). cbn [fst snd app]. split; [reflexivity|]. split; [reflexivity|].
      exists (FR.f_seek_flat (FR.chunks F) pos). split; [exact HI1|].
      unfold FR.f_seek_flat. cbn [FR.off]. apply seek_skipn.
    - intros H; discriminate.
    - unfold mu, bz_fuel. fold (bz_text F). fold D. rewrite seek_skipn, skipn_length. lia.
    - unfold Layout.len. cbn [length]. lia.
  Qed.
End Bz.

(* ... hence, for the fai index the indexer builds on the uncompressed text: every region query
   with 1 <= start <= length, start <= end on the compressed file returns exactly
   firstn (end-start+1) (skipn (start-1) bases of the naive parse) - same side conditions as
   c11_query_exact_general, none on the block layout *)
Theorem query_bgzf_exact : forall F st0 s0 recs err r chk s e,
  ROP.wf F -> (FR.total_csize F <= Vpos.MAX_COMPRESSED_POSITION)%N -> ROP.Inv F st0 s0 ->
  index_file (bz_text F) = (recs, err) -> In r recs ->
  exists body, record_lines (bz_text F) r body /\
    let B := naive_bases body in
    let st := match s with Some p => p | None => 1%N end in
    let en := match e with Some p => p | None => usize_max end in
    heads_ok body ->
    nth (N.to_nat (st - 1)) B 0%N <> CR -> nth (N.to_nat (st - 1)) B 0%N <> GT ->
    (1 <= st)%N -> (st <= f_len r)%N -> (st <= en)%N ->
    query_bgzf chk F (RO.gzi_of F) st0 r s e
    = ZOk (QOk (firstn (N.to_nat (en - st + 1)) (skipn (N.to_nat (st - 1)) B))).
Proof.
  intros F st0 s0 recs err r chk s e Hwf Hmax HI H Hin.
  destruct (query_exact_gen (bz_text F) recs err r chk s e H Hin) as [body [Hb Hq]].
  exists body. split; [exact Hb|]. cbv zeta in *. intros Hh H1 H2 H3 H4 H5.
  rewrite (query_bgzf_flat F Hwf Hmax chk st0 s0 r s e HI).
  - f_equal. now apply Hq.
  - (* the offset of an existing base lies inside the text *)
    intros pos Hp.
    destruct (fai_offset_correct (bz_text F) recs err r H Hin) as [B [HB [HlB Hnth]]].
    set (i := match s with Some p => (p - 1)%N | None => 0%N end) in *.
    assert (Hi : (i < len B)%N).
    { rewrite <- HlB. unfold i. destruct s as [p|]; cbn in *; lia. }
    destruct (Hnth i 0%N Hi) as [p0 [Hq0 Hn0]].
    destruct (Hnth i 1%N Hi) as [p1 [Hq1 Hn1]].
    assert (Hpp : fai_query_gen chk r i = fai_query r i).
    { unfold fai_query, fai_query_gen in *.
      destruct (true && (0 <? i)%N && (f_len r <=? i)%N) eqn:Et; [discriminate|].
      replace (chk && (0 <? i)%N && (f_len r <=? i)%N) with false; [reflexivity|].
      destruct chk; [now rewrite <- Et|reflexivity]. }
    rewrite Hpp in Hp. rewrite Hp in Hq0, Hq1.
    injection Hq0 as <-. injection Hq1 as <-.
    assert (Hlt : (N.to_nat pos < length (bz_text F))%nat).
    { destruct (Nat.lt_ge_cases (N.to_nat pos) (length (bz_text F))) as [Hl|Hg]; [exact Hl|].
      rewrite nth_overflow in Hn0, Hn1 by exact Hg.
      assert (Hil : (N.to_nat i < length B)%nat) by (unfold len in Hi; lia).
      rewrite (nth_indep B 0%N 1%N Hil) in Hn0. rewrite <- Hn1 in Hn0. discriminate. }
    pose proof (ROP.len_concat_chunks F) as Hl. unfold RO.len in Hl. rewrite <- bz_text_chunks in Hl.
    split; [lia|]. intros Heq. lia.
Qed.

(* the same after ANY valid history of calls on the BGZF reader (C02's op language: reads,
   read_exact, fill_buf / consume, seeks by virtual position or uncompressed offset) *)
Theorem query_bgzf_exact_history : forall F ops recs err r chk s e,
  ROP.wf F -> (FR.total_csize F <= Vpos.MAX_COMPRESSED_POSITION)%N -> ROP.ops_valid F ops ->
  index_file (bz_text F) = (recs, err) -> In r recs ->
  exists body, record_lines (bz_text F) r body /\
    let B := naive_bases body in
    let st := match s with Some p => p | None => 1%N end in
    let en := match e with Some p => p | None => usize_max end in
    heads_ok body ->
    nth (N.to_nat (st - 1)) B 0%N <> CR -> nth (N.to_nat (st - 1)) B 0%N <> GT ->
    (1 <= st)%N -> (st <= f_len r)%N -> (st <= en)%N ->
    query_bgzf chk F (RO.gzi_of F) (RO.run_state true F (RO.gzi_of F) (RO.init F) ops) r s e
    = ZOk (QOk (firstn (N.to_nat (en - st + 1)) (skipn (N.to_nat (st - 1)) B))).
Proof.
  intros F ops recs err r chk s e Hwf Hmax Hv H Hin.
  destruct (Bgzf.ReaderTellProofs.reach_inv F ops Hwf Hmax Hv) as [s0 [HI _]].
  exact (query_bgzf_exact F _ s0 recs err r chk s e Hwf Hmax HI H Hin).
Qed.

(* the index built by reading through the BGZF reader is the index of the uncompressed text, for
   every block layout *)
Theorem index_bgzf_flat : forall F, ROP.wf F -> index_bgzf F = index_file (bz_text F).
Proof.
  intros F Hwf. unfold index_bgzf, index_file.
  destruct (d_index_loop_spec bz_read (bz_rep F) (bz_simulates F Hwf) BZ_CAP bz_cap_pos
              (S (length (lines (bz_text F)))) (S (length (bz_text F))) (bz_fuel F)
              ([], RO.init F) (bz_text F) 0 0%N) as [st' E].
  - exists (bz_text F). cbn [fst snd app]. split; [reflexivity|]. split; [reflexivity|].
    exists (FR.mkF 0 0). split; [apply ROP.inv_init; exact Hwf|reflexivity].
  - lia.
  - unfold bz_fuel. fold (bz_text F). lia.
  - rewrite E. reflexivity.
Qed.

(* a two-record file in three data blocks (one boundary inside a sequence line, one right after a
   line terminator), an empty block in the middle and the EOF block *)
Definition ex_frames : RO.file :=
  [RO.mkFrame 40 [62;115;10; 65;67;71];
   RO.mkFrame 28 [];
   RO.mkFrame 41 [84;10; 65;67;10];
   RO.mkFrame 39 [62;116;10; 71;71;10];
   RO.mkFrame 28 []]%N.

Lemma ex_frames_wf : ROP.wf ex_frames /\ (FR.total_csize ex_frames <= Vpos.MAX_COMPRESSED_POSITION)%N.
Proof.
  split.
  - unfold ROP.wf, ex_frames.
    repeat (apply Forall_cons; [split; vm_compute; [reflexivity|discriminate]|]). apply Forall_nil.
  - vm_compute. discriminate.
Qed.
