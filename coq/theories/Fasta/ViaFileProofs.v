(* C11 — the index built by the indexer, written as a .fai file and read back, is the same index
   and answers every query exactly.  Bounds of the fai records (offsets inside the file, non-zero
   line geometry, names free of whitespace) + C17's fai text round trip (TextIndexProofs, read-only)
   + C11's query theorems. *)
From Coq Require Import List NArith Bool Lia ZifyBool ZifyNat ZifyN.
From NV Require Import Fasta.Layout Fasta.LayoutProofs Fasta.Indexer Fasta.IndexerProofs
                       Fasta.Query Fasta.QueryProofs Fasta.ViaFile.
From NV Require Index.TextIndex Index.TextIndexProofs.
Import ListNotations.
Open Scope N_scope.
Arguments N.add : simpl never.

(* ---- bounds of a fai record ---- *)

Lemma naive_bases_len : forall ls, (length (naive_bases ls) <= length (concat ls))%nat.
Proof.
  induction ls as [|l r IH]; [cbn; lia|]. cbn [naive_bases concat].
  destruct (is_def l); [cbn; lia|].
  rewrite !app_length. pose proof (content_length_le l). lia.
Qed.

Lemma take_name_nws : forall l, Forall (fun b => is_ws b = false) (take_name l).
Proof.
  induction l as [|b t IH]; [constructor|]. cbn [take_name].
  destruct (is_ws b) eqn:E; [constructor|]. constructor; assumption.
Qed.

Lemma parse_def_name_nws : forall buf n, parse_def_name buf = Some n ->
  n <> [] /\ Forall (fun b => is_ws b = false) n.
Proof.
  intros buf n H. unfold parse_def_name in H. destruct buf as [|b r]; [discriminate|].
  destruct (b =? GT); [|discriminate].
  pose proof (take_name_nws r) as Hn. destruct (take_name r) as [|x t]; [discriminate|].
  injection H as <-. split; [discriminate|exact Hn].
Qed.

Lemma fai_bounds : forall f recs e r, index_file f = (recs, e) -> In r recs ->
  f_pos r + f_len r <= len f /\ f_pos r + f_lw r <= len f /\
  1 <= f_lb r /\ f_lb r <= f_lw r /\
  f_name r <> [] /\ Forall (fun b => is_ws b = false) (f_name r).
Proof.
  intros f recs e r H Hin.
  destruct (index_file_records _ _ _ _ H Hin) as [B [pre [d [body [off' [rest [Hl [HR [HB Hn]]]]]]]]].
  destruct (index_record_spec _ _ _ _ _ _ HR) as [_ [Hpos [Hlb [Hlen [_ [Hacc _]]]]]].
  destruct Hacc as [l1 [r1 [Eb [_ [Elw [Elb [_ _]]]]]]].
  assert (Hf : len f = len (concat pre) + len d + len (concat body)).
  { rewrite <- (lines_concat f) at 1. rewrite Hl, concat_app. cbn [concat]. rewrite !len_app. lia. }
  pose proof (naive_bases_len body) as Hnb.
  pose proof (content_length_le l1) as Hc.
  assert (Hl1 : len l1 <= len (concat body)).
  { rewrite Eb. cbn [concat]. rewrite len_app. lia. }
  destruct (parse_def_name_nws _ _ Hn) as [Hne Hws].
  unfold len in *. repeat split; try assumption; lia.
Qed.

(* ---- the round trip through the file ---- *)

Lemma of_to_text : forall r, of_text (to_text r) = r.
Proof. intros [n a b c d]. reflexivity. Qed.

Lemma map_of_to_text : forall l, map of_text (map to_text l) = l.
Proof. induction l as [|r l IH]; [reflexivity|]. cbn [map]. now rewrite of_to_text, IH. Qed.

(* no longer a premise of the theorems below: since the `fix:` commit 24986d3 the fai reader takes
   names as bytes (C17 fai_roundtrip has no UTF-8 premise) *)
Definition utf8_names (recs : list fai) : Prop :=
  Forall (fun r => TextIndex.utf8_valid (f_name r) = true) recs.

Theorem index_via_file_exact : forall f recs e,
  index_file f = (recs, e) -> len f < 2 ^ 64 ->
  read_fai_file (write_fai_file recs) = Some recs.
Proof.
  intros f recs e H Hsz. unfold read_fai_file, write_fai_file.
  rewrite TextIndexProofs.fai_roundtrip.
  - cbn [option_map]. now rewrite map_of_to_text.
  - apply Forall_forall. intros t Ht. apply in_map_iff in Ht. destruct Ht as [r [<- Hin]].
    destruct (fai_bounds _ _ _ _ H Hin) as [H1 [H2 [H3 [H4 [_ Hws]]]]].
    rewrite Forall_forall in Hws.
    change (2 ^ 64) with 18446744073709551616 in Hsz.
    unfold TextIndexProofs.fai_ok, TextIndexProofs.fits_u64, to_text.
    cbn [TextIndex.f_name TextIndex.f_len TextIndex.f_pos TextIndex.f_lb TextIndex.f_lw].
    repeat split; try lia.
    + intros Hin'. specialize (Hws _ Hin'). discriminate.
    + intros Hin'. specialize (Hws _ Hin'). discriminate.
Qed.

Theorem index_via_file_same : forall f,
  len f < 2 ^ 64 ->
  index_via_file f = Some (fst (index_file f)).
Proof.
  intros f Hsz. unfold index_via_file.
  destruct (index_file f) as [recs e] eqn:H. cbn [fst] in *.
  exact (index_via_file_exact f recs e H Hsz).
Qed.

(* queries through the index that went through the file = queries through the index in memory *)
Theorem query_via_file_same : forall f name s e,
  len f < 2 ^ 64 ->
  query_via_file f name s e = VOk (index_and_query f name s e).
Proof.
  intros f name s e Hsz. unfold query_via_file. now rewrite index_via_file_same.
Qed.

Lemma find_record_in : forall idx name r, find_record idx name = Some r -> In r idx.
Proof.
  induction idx as [|x idx IH]; intros name r H; [discriminate|]. cbn [find_record] in H.
  destruct (list_eqb (f_name x) name); [injection H as <-; now left|right; eauto].
Qed.

(* ... hence exact: the index built by the indexer, written, read back, answers every region
   query (name lookup included) with exactly the bases of the naive parse *)
Theorem via_file_query_exact : forall f recs err name r s e,
  index_file f = (recs, err) -> len f < 2 ^ 64 ->
  find_record recs name = Some r ->
  exists body, record_lines f r body /\
    let B := naive_bases body in
    let st := match s with Some p => p | None => 1 end in
    let en := match e with Some p => p | None => usize_max end in
    heads_ok body ->
    nth (N.to_nat (st - 1)) B 0 <> CR -> nth (N.to_nat (st - 1)) B 0 <> GT ->
    1 <= st -> st <= f_len r -> st <= en ->
    query_via_file f name s e
    = VOk (QOk (firstn (N.to_nat (en - st + 1)) (skipn (N.to_nat (st - 1)) B))).
Proof.
  intros f recs err name r s e H Hsz Hf.
  pose proof (find_record_in _ _ _ Hf) as Hin.
  destruct (query_exact_gen f recs err r true s e H Hin) as [body [Hb Hq]].
  exists body. split; [exact Hb|]. cbv zeta in *. intros Hh H1 H2 H3 H4 H5.
  rewrite query_via_file_same by (try rewrite H; assumption).
  unfold index_and_query, reader_query, reader_query_gen. rewrite H. cbn [fst]. rewrite Hf.
  f_equal. now apply Hq.
Qed.
