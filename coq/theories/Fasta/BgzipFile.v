(* C11 — the whole stack of a region query on a bgzipped FASTA, from the FILE BYTES:
     bytes under any delivery -> frames (C12's delivered frame reader + C01's parse_block / inflater:
                                 NV.Fasta.BgzipBytes.bz_frames_of_bytes)
     frames -> fai index        (NV.Fasta.Bgzip.index_bgzf: the indexer reading through the reader)
     frames + ANY gzi index + prior calls + regions -> results and the virtual position after each
                                (NV.Fasta.BgzipGzi.index_and_query_bgzf_any)
   Definitions only (extracted). *)
From Coq Require Import List NArith Arith Bool.
From NV Require Import Io.Source.
From NV Require Import Fasta.Layout Fasta.Indexer Fasta.Query Fasta.Bgzip Fasta.BgzipGzi Fasta.BgzipBytes.
From NV Require Bgzf.Frame Bgzf.Vpos Bgzf.Gzi Bgzf.ReaderOps.
Import ListNotations.
Local Open Scope nat_scope.

(* None = the bytes are not a well-formed BGZF file *)
Definition index_and_query_bgzf_file (cap : nat) (s : source) (idx : Gzi.gzi_index)
           (prior : list ReaderOps.op) (qs : list (list N * (option N * option N)))
  : option (ReaderOps.file * (list fai * option ierr) * list (zres * Vpos.res N)) :=
  match bz_frames_of_bytes cap s with
  | (F, Frame.Ok tt) => Some (F, index_bgzf F, index_and_query_bgzf_any F idx prior qs)
  | _ => None
  end.
