(* C11 — the FASTQ reader accepts exactly the four-line grammar of NV.Fasta.FastqGrammar and
   returns exactly the records the grammar assigns; the decidable test [fq_accepts] says when. *)
From Coq Require Import List NArith Arith Bool Lia ZifyBool ZifyNat ZifyN.
From NV Require Import Fasta.Layout Fasta.LayoutProofs Fasta.WriterProofs Fasta.Fastq Fasta.FastqProofs
                       Fasta.FastqGrammar.
Import ListNotations.
Open Scope N_scope.

(* ---- lines ---- *)

Lemma split_lf : forall s : list N, lf_free s \/ exists x rest, lf_free x /\ s = x ++ LF :: rest.
Proof.
  induction s as [|b s IH]; [left; intros []|].
  destruct (N.eq_dec b LF) as [E|E].
  - right. exists [], s. split; [intros []|]. now subst b.
  - destruct IH as [H|[x [rest [Hx Hs]]]].
    + left. intros [H1|H1]; [now apply E|now apply H].
    + right. exists (b :: x), rest. split; [|now rewrite Hs].
      intros [H1|H1]; [now apply E|now apply Hx].
Qed.

Lemma take_line_free : forall x, lf_free x -> take_line x = (x, []).
Proof.
  induction x as [|b x IH]; intros Hx; [reflexivity|].
  cbn [take_line]. destruct (b =? LF) eqn:Eb.
  - apply N.eqb_eq in Eb. exfalso. apply Hx. left. now symmetry.
  - rewrite IH; [reflexivity|]. intros H. apply Hx. now right.
Qed.

Lemma ends_with_free : forall x, lf_free x -> ends_with LF x = false.
Proof.
  induction x as [|b x IH]; intros Hx; [reflexivity|]. cbn [ends_with].
  destruct x as [|c x'].
  - destruct (b =? LF) eqn:Eb; [|reflexivity]. apply N.eqb_eq in Eb. exfalso. apply Hx. left. now symmetry.
  - apply IH. intros H. apply Hx. now right.
Qed.

Lemma read_line_lf : forall x t, lf_free x -> read_line (x ++ LF :: t) = (strip_last CR x, t).
Proof.
  intros x t Hx. unfold read_line. rewrite take_line_app by exact Hx.
  unfold def_content. rewrite ends_with_snoc. change (LF =? LF) with true. cbv iota.
  now rewrite strip_last_snoc.
Qed.

Lemma read_line_free : forall x, lf_free x -> read_line x = (x, []).
Proof.
  intros x Hx. unfold read_line. rewrite take_line_free by exact Hx.
  unfold def_content. now rewrite ends_with_free.
Qed.

Lemma after_lf_lf : forall x t, lf_free x -> after_lf (x ++ LF :: t) = Some t.
Proof.
  induction x as [|b x IH]; intros t Hx; [reflexivity|].
  cbn [app after_lf]. destruct (b =? LF) eqn:Eb.
  - apply N.eqb_eq in Eb. exfalso. apply Hx. left. now symmetry.
  - apply IH. intros H. apply Hx. now right.
Qed.

Lemma after_lf_free : forall x, lf_free x -> after_lf x = None.
Proof.
  induction x as [|b x IH]; intros Hx; [reflexivity|].
  cbn [after_lf]. destruct (b =? LF) eqn:Eb.
  - apply N.eqb_eq in Eb. exfalso. apply Hx. left. now symmetry.
  - apply IH. intros H. apply Hx. now right.
Qed.

Lemma lf_free_app_inv : forall a b : list N, lf_free (a ++ b) -> lf_free a /\ lf_free b.
Proof. intros a b H. split; intros Hin; apply H; apply in_or_app; auto. Qed.

(* ---- the definition line ---- *)

Lemma scan_name_def : forall d t, lf_free d ->
  scan_name (d ++ LF :: t)
  = match split_def d with
    | (n, None) => (n, Some LF, t)
    | (n, Some x) => (n, Some (nth (length n) d 0), x ++ LF :: t)
    end.
Proof.
  induction d as [|b d IH]; intros t Hd.
  - reflexivity.
  - assert (Hb : b <> LF) by (intros E; apply Hd; left; now symmetry).
    assert (Hd' : lf_free d) by (intros H; apply Hd; now right).
    cbn [app scan_name split_def].
    replace (b =? LF) with false by lia. rewrite orb_false_r.
    destruct ((b =? SP) || (b =? HT)) eqn:Es; [reflexivity|].
    rewrite IH by exact Hd'. destruct (split_def d) as [n [x|]]; reflexivity.
Qed.

Lemma scan_name_free : forall d, lf_free d -> exists n dl r, scan_name d = (n, dl, r) /\ lf_free r /\
  match dl with Some c => c <> LF | None => r = [] end.
Proof.
  induction d as [|b d IH]; intros Hd.
  - exists [], None, []. repeat split. intros [].
  - assert (Hb : b <> LF) by (intros E; apply Hd; left; now symmetry).
    assert (Hd' : lf_free d) by (intros H; apply Hd; now right).
    cbn [scan_name]. replace (b =? LF) with false by lia. rewrite orb_false_r.
    destruct ((b =? SP) || (b =? HT)) eqn:Es.
    + exists [], (Some b), d. repeat split; assumption.
    + destruct (IH Hd') as [n [dl [r [E [Hr Hdl]]]]]. rewrite E.
      exists (b :: n), dl, r. repeat split; assumption.
Qed.

Lemma split_def_delim : forall d n x, split_def d = (n, Some x) ->
  (nth (length n) d 0 =? LF) = false /\ (lf_free d -> lf_free x).
Proof.
  induction d as [|b d IH]; intros n x H; [discriminate|].
  cbn [split_def] in H. destruct ((b =? SP) || (b =? HT)) eqn:Es.
  - injection H as <- <-. cbn [length nth]. split; [unfold SP, HT, LF in *; lia|].
    intros Hd Hin. apply Hd. now right.
  - destruct (split_def d) as [n' o'] eqn:E. injection H as <- ->.
    destruct (IH n' x eq_refl) as [H1 H2]. cbn [length nth]. split; [exact H1|].
    intros Hd. apply H2. intros Hin. apply Hd. now right.
Qed.

(* read_definition on a terminated definition line: the name and description of [fields_of] *)
Lemma read_definition_line : forall d t, lf_free d ->
  read_definition (AT :: d ++ LF :: t)
  = inr (Some (q_name (fields_of d [] [] true), q_desc (fields_of d [] [] true), t)).
Proof.
  intros d t Hd. unfold read_definition. change (negb (AT =? AT)) with false. cbv iota.
  rewrite scan_name_def by exact Hd. unfold fields_of.
  destruct (split_def d) as [n [x|]] eqn:E; cbn [q_name q_desc].
  - destruct (split_def_delim _ _ _ E) as [Hl Hx]. rewrite Hl.
    rewrite read_line_lf by (apply Hx; exact Hd). reflexivity.
  - change (LF =? LF) with true. reflexivity.
Qed.

Lemma fields_of_parts : forall d sq ql b,
  fields_of d sq ql b
  = mkqrec (q_name (fields_of d [] [] true)) (q_desc (fields_of d [] [] true))
           (strip_last CR sq) (if b then strip_last CR ql else ql).
Proof. intros d sq ql b. unfold fields_of. destruct (split_def d) as [n o]. reflexivity. Qed.

(* an unterminated definition line: the record cannot be completed *)
Lemma read_qrec_open_def : forall d, lf_free d -> read_qrec (AT :: d) = inl QUnexpectedEof.
Proof.
  intros d Hd. unfold read_qrec, read_definition. change (negb (AT =? AT)) with false. cbv iota.
  destruct (scan_name_free d Hd) as [n [dl [r [E [Hr Hdl]]]]]. rewrite E.
  destruct dl as [c|].
  - replace (c =? LF) with false by lia. rewrite read_line_free by exact Hr. reflexivity.
  - subst r. reflexivity.
Qed.

(* ---- one record: what read_qrec does on every input ---- *)

Inductive rec_shape : list N -> (qerr + option (qrec * list N)) -> Prop :=
| sh_end : rec_shape [] (inr None)
| sh_not_at : forall b t, b <> AT -> rec_shape (b :: t) (inl QInvalidData)
| sh_open_def : forall d, lf_free d -> rec_shape (AT :: d) (inl QUnexpectedEof)
| sh_open_seq : forall d sq, lf_free d -> lf_free sq ->
    rec_shape (AT :: d ++ LF :: sq) (inl QUnexpectedEof)
| sh_no_plus_line : forall d sq, lf_free d -> lf_free sq ->
    rec_shape (AT :: d ++ LF :: sq ++ [LF]) (inl QUnexpectedEof)
| sh_not_plus : forall d sq p t, lf_free d -> lf_free sq -> p <> PLUS ->
    rec_shape (AT :: d ++ LF :: sq ++ LF :: p :: t) (inl QInvalidData)
| sh_open_plus : forall d sq pl, lf_free d -> lf_free sq -> lf_free pl ->
    rec_shape (AT :: d ++ LF :: sq ++ LF :: PLUS :: pl) (inr (Some (fields_of d sq [] false, [])))
| sh_open_qual : forall d sq pl ql, lf_free d -> lf_free sq -> lf_free pl -> lf_free ql ->
    rec_shape (AT :: d ++ LF :: sq ++ LF :: PLUS :: pl ++ LF :: ql)
              (inr (Some (fields_of d sq ql false, [])))
| sh_full : forall d sq pl ql rest, lf_free d -> lf_free sq -> lf_free pl -> lf_free ql ->
    rec_shape (AT :: d ++ LF :: sq ++ LF :: PLUS :: pl ++ LF :: ql ++ LF :: rest)
              (inr (Some (fields_of d sq ql true, rest))).

Lemma rec_shape_sound : forall s x, rec_shape s x -> read_qrec s = x.
Proof.
  intros s x H. destruct H.
  - reflexivity.
  - unfold read_qrec, read_definition. replace (b =? AT) with false by lia. reflexivity.
  - now apply read_qrec_open_def.
  - unfold read_qrec. rewrite read_definition_line by assumption.
    rewrite read_line_free by assumption. reflexivity.
  - unfold read_qrec. rewrite read_definition_line by assumption.
    change (sq ++ [LF]) with (sq ++ LF :: []). rewrite read_line_lf by assumption. reflexivity.
  - unfold read_qrec. rewrite read_definition_line by assumption.
    rewrite read_line_lf by assumption. unfold consume_plus_line.
    replace (p =? PLUS) with false by lia. reflexivity.
  - unfold read_qrec. rewrite read_definition_line by assumption.
    rewrite read_line_lf by assumption. unfold consume_plus_line.
    change (PLUS =? PLUS) with true. cbv iota. rewrite take_line_free by assumption. cbn [snd].
    rewrite read_line_free by (intros []). now rewrite (fields_of_parts d sq [] false).
  - unfold read_qrec. rewrite read_definition_line by assumption.
    rewrite read_line_lf by assumption. unfold consume_plus_line.
    change (PLUS =? PLUS) with true. cbv iota. rewrite take_line_app by assumption. cbn [snd].
    rewrite read_line_free by assumption. now rewrite (fields_of_parts d sq ql false).
  - unfold read_qrec. rewrite read_definition_line by assumption.
    rewrite read_line_lf by assumption. unfold consume_plus_line.
    change (PLUS =? PLUS) with true. cbv iota. rewrite take_line_app by assumption. cbn [snd].
    rewrite read_line_lf by assumption. now rewrite (fields_of_parts d sq ql true).
Qed.

(* every input has one of the shapes *)
Lemma rec_shape_total : forall s, exists x, rec_shape s x.
Proof.
  intros s. destruct s as [|b t]; [eexists; constructor|].
  destruct (N.eq_dec b AT) as [->|Hb]; [|eexists; now constructor].
  destruct (split_lf t) as [Hd|[d [r1 [Hd ->]]]]; [eexists; now constructor|].
  destruct (split_lf r1) as [Hs|[sq [r2 [Hs ->]]]]; [eexists; now constructor|].
  destruct r2 as [|p r2]; [eexists; now apply sh_no_plus_line|].
  destruct (N.eq_dec p PLUS) as [->|Hp]; [|eexists; now apply sh_not_plus].
  destruct (split_lf r2) as [Hp|[pl [r3 [Hp ->]]]]; [eexists; now apply sh_open_plus|].
  destruct (split_lf r3) as [Hq|[ql [r4 [Hq ->]]]]; [eexists; now apply sh_open_qual|].
  eexists; now apply sh_full.
Qed.

Lemma read_qrec_shape : forall s, rec_shape s (read_qrec s).
Proof.
  intros s. destruct (rec_shape_total s) as [x H]. now rewrite (rec_shape_sound _ _ H).
Qed.

(* ---- the file: reader result <-> grammar ---- *)

Lemma len_lt_full : forall (d sq pl ql rest : list N),
  (length rest < length (AT :: d ++ LF :: sq ++ LF :: PLUS :: pl ++ LF :: ql ++ LF :: rest))%nat.
Proof. intros. cbn [length]. repeat (rewrite app_length; cbn [length]). lia. Qed.

Theorem parses_read : forall s recs, fq_parses s recs ->
  forall fuel, (length s < fuel)%nat -> read_qrecs fuel s = (recs, None).
Proof.
  induction 1 as [|d sq pl ql rest recs Hd Hs Hp Hq Hr IH|d sq pl ql Hd Hs Hp Hq|d sq pl Hd Hs Hp];
    intros fuel Hf.
  - destruct fuel; [lia|]. reflexivity.
  - destruct fuel; [lia|]. cbn [read_qrecs].
    rewrite (rec_shape_sound _ _ (sh_full d sq pl ql rest Hd Hs Hp Hq)).
    rewrite IH; [reflexivity|]. pose proof (len_lt_full d sq pl ql rest). lia.
  - destruct fuel; [lia|]. cbn [read_qrecs].
    rewrite (rec_shape_sound _ _ (sh_open_qual d sq pl ql Hd Hs Hp Hq)).
    destruct fuel; [cbn [length] in Hf; lia|]. reflexivity.
  - destruct fuel; [lia|]. cbn [read_qrecs].
    rewrite (rec_shape_sound _ _ (sh_open_plus d sq pl Hd Hs Hp)).
    destruct fuel; [cbn [length] in Hf; lia|]. reflexivity.
Qed.

Theorem read_parses : forall fuel s recs, read_qrecs fuel s = (recs, None) -> fq_parses s recs.
Proof.
  induction fuel as [|fuel IH]; intros s recs H; [discriminate|].
  cbn [read_qrecs] in H. pose proof (read_qrec_shape s) as Hsh.
  destruct Hsh; try discriminate.
  - injection H as <-. constructor.
  - destruct (read_qrecs fuel []) as [rs e] eqn:E. injection H as <- ->.
    destruct fuel; [discriminate|]. cbn in E. injection E as <-. now constructor.
  - destruct (read_qrecs fuel []) as [rs e] eqn:E. injection H as <- ->.
    destruct fuel; [discriminate|]. cbn in E. injection E as <-. now constructor.
  - destruct (read_qrecs fuel rest) as [rs e] eqn:E. injection H as <- ->.
    constructor; try assumption. now apply IH.
Qed.

(* THE GRAMMAR THEOREM, both directions *)
Theorem reader_accepts_grammar : forall f recs,
  read_qfile f = (recs, None) <-> fq_parses f recs.
Proof.
  intros f recs. unfold read_qfile. split.
  - apply read_parses.
  - intros H. apply parses_read; [exact H|lia].
Qed.

(* the decidable test *)
Lemma accepts_fuel_iff : forall fuel s, (length s < fuel)%nat ->
  (fq_accepts_fuel fuel s = true <-> snd (read_qrecs fuel s) = None).
Proof.
  induction fuel as [|fuel IH]; intros s Hf; [lia|].
  cbn [read_qrecs fq_accepts_fuel]. pose proof (read_qrec_shape s) as Hsh.
  destruct Hsh.
  - cbn. tauto.
  - replace (b =? AT) with false by lia. cbn. split; discriminate.
  - change (AT =? AT) with true. rewrite after_lf_free by assumption. cbn. split; discriminate.
  - change (AT =? AT) with true. rewrite after_lf_lf, after_lf_free by assumption.
    cbn. split; discriminate.
  - change (AT =? AT) with true. change (sq ++ [LF]) with (sq ++ LF :: []).
    rewrite !after_lf_lf by assumption. cbn. split; discriminate.
  - change (AT =? AT) with true. rewrite !after_lf_lf by assumption.
    replace (p =? PLUS) with false by lia. cbn. split; discriminate.
  - change (AT =? AT) with true. rewrite !after_lf_lf by assumption.
    change (PLUS =? PLUS) with true. rewrite after_lf_free by assumption.
    destruct fuel; [cbn [length] in Hf; lia|]. cbn. tauto.
  - change (AT =? AT) with true. rewrite !after_lf_lf by assumption.
    change (PLUS =? PLUS) with true. rewrite ?after_lf_lf by assumption. rewrite after_lf_free by assumption.
    destruct fuel; [cbn [length] in Hf; lia|]. cbn. tauto.
  - change (AT =? AT) with true. rewrite !after_lf_lf by assumption.
    change (PLUS =? PLUS) with true. rewrite ?after_lf_lf by assumption.
    cbn [andb]. rewrite IH by (pose proof (len_lt_full d sq pl ql rest); lia).
    destruct (read_qrecs fuel rest) as [rs e]. cbn [snd]. tauto.
Qed.

Theorem accepts_iff : forall f, fq_accepts f = true <-> snd (read_qfile f) = None.
Proof. intros f. unfold fq_accepts, read_qfile. apply accepts_fuel_iff. lia. Qed.

(* ... i.e. membership in the grammar *)
Theorem accepts_grammar : forall f, fq_accepts f = true <-> exists recs, fq_parses f recs.
Proof.
  intros f. rewrite accepts_iff. split.
  - intros H. destruct (read_qfile f) as [recs e] eqn:E. cbn [snd] in H. subst e.
    exists recs. now apply reader_accepts_grammar.
  - intros [recs H]. apply reader_accepts_grammar in H. now rewrite H.
Qed.

(* the grammar is unambiguous: the records are a function of the bytes *)
Theorem parses_functional : forall f r1 r2, fq_parses f r1 -> fq_parses f r2 -> r1 = r2.
Proof.
  intros f r1 r2 H1 H2. apply reader_accepts_grammar in H1, H2. congruence.
Qed.

(* what the reader reports on the inputs outside the grammar: never a panic, never out of fuel *)
Theorem rejects_with : forall f, fq_accepts f = false ->
  snd (read_qfile f) = Some QInvalidData \/ snd (read_qfile f) = Some QUnexpectedEof.
Proof.
  intros f H. assert (Hn : snd (read_qfile f) <> None).
  { intros E. apply accepts_iff in E. congruence. }
  unfold read_qfile in *. clear H.
  assert (Hf : (length f < S (length f))%nat) by lia. revert Hf Hn.
  generalize (S (length f)) as fuel. intros fuel. revert f.
  induction fuel as [|fuel IH]; intros s Hf Hn; [lia|].
  cbn [read_qrecs] in *. pose proof (read_qrec_shape s) as Hsh.
  destruct Hsh; cbn [snd] in *; try tauto.
  - destruct fuel; [cbn [length] in Hf; lia|]. cbn in Hn. tauto.
  - destruct fuel; [cbn [length] in Hf; lia|]. cbn in Hn. tauto.
  - destruct (read_qrecs fuel rest) as [rs e] eqn:E. cbn [snd] in *.
    specialize (IH rest). rewrite E in IH. cbn [snd] in IH. apply IH; [|exact Hn].
    pose proof (len_lt_full d sq pl ql rest). lia.
Qed.

(* a wrapped (multi-line) record is outside the grammar: "@r\nAC\nGT\n+\n!!\n!!\n" *)
Example multiline_rejected :
  fq_accepts [64;114;10; 65;67;10; 71;84;10; 43;10; 33;33;10; 33;33;10] = false /\
  read_qfile [64;114;10; 65;67;10; 71;84;10; 43;10; 33;33;10; 33;33;10] = ([], Some QInvalidData).
Proof. vm_compute. split; reflexivity. Qed.
