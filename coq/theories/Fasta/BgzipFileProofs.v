(* C11 — the composed theorems: file bytes, any delivery, any correct gzi index, any valid history of
   prior calls -> exact bases, and the virtual position afterwards. *)
From Coq Require Import List NArith Arith Bool Lia ZifyBool ZifyNat ZifyN.
From NV Require Import Io.Source Io.BgzfRead.
From NV Require Import Fasta.Layout Fasta.LayoutProofs Fasta.Indexer Fasta.IndexerProofs Fasta.Query Fasta.QueryProofs
                       Fasta.Bgzip Fasta.BgzipProofs Fasta.BgzipGzi Fasta.BgzipGziProofs
                       Fasta.BgzipBytes Fasta.BgzipBytesProofs Fasta.BgzipFile.
From NV Require Bgzf.Vpos Bgzf.Gzi Bgzf.Frame Bgzf.Inflate Bgzf.ReaderOps Bgzf.FlatRef Bgzf.ReaderOpsProofs.
Import ListNotations.
Local Open Scope nat_scope.

(* the answer of the extracted entry point does not depend on the delivery *)
Theorem index_and_query_bgzf_file_any_delivery : forall data sc cap idx prior qs,
  index_and_query_bgzf_file cap (mkSource data sc) idx prior qs
  = match whole_frames Inflate.inflate (S (length data)) data with
    | (F, Frame.Ok tt) => Some (F, index_bgzf F, index_and_query_bgzf_any F idx prior qs)
    | _ => None
    end.
Proof.
  intros data sc cap idx prior qs. unfold index_and_query_bgzf_file.
  rewrite frames_any_delivery. reflexivity.
Qed.

Theorem query_bgzf_file_exact : forall data sc cap F idx ops recs err r chk s e,
  Forall is_byte data -> (Frame.lenN data <= Vpos.MAX_COMPRESSED_POSITION)%N ->
  bz_frames_of_bytes cap (mkSource data sc) = (F, Frame.Ok tt) ->
  gzi_correct F idx -> ops_valid_any F ops ->
  index_file (bz_text F) = (recs, err) -> In r recs ->
  let st0 := run_state_bs F idx (ReaderOps.init F) ops in
  exists body, record_lines (bz_text F) r body /\
    let B := naive_bases body in
    let st := match s with Some p => p | None => 1%N end in
    let en := match e with Some p => p | None => usize_max end in
    heads_ok body ->
    nth (N.to_nat (st - 1)) B 0%N <> CR -> nth (N.to_nat (st - 1)) B 0%N <> GT ->
    (1 <= st)%N -> (st <= f_len r)%N -> (st <= en)%N ->
    fst (query_bgzf_any chk F idx st0 r s e)
    = ZOk (QOk (firstn (N.to_nat (en - st + 1)) (skipn (N.to_nat (st - 1)) B))).
Proof.
  intros data sc cap F idx ops recs err r chk s e Hby Hmax H Hidx Hv Hi Hin st0.
  destruct (frames_of_bytes_ok data sc cap F Hby Hmax H) as [Hwf Hc].
  destruct (reach_inv_any F idx Hwf Hc Hidx ops (ReaderOps.init F) (FlatRef.mkF 0 0) Hv
              (ReaderOpsProofs.inv_init F Hwf)) as [s0 HI].
  exact (query_bgzf_any_exact F idx st0 s0 recs err r chk s e Hwf Hc Hidx HI Hi Hin).
Qed.

Theorem query_bgzf_file_vpos : forall data sc cap F idx ops recs err r chk s e,
  Forall is_byte data -> (Frame.lenN data <= Vpos.MAX_COMPRESSED_POSITION)%N ->
  bz_frames_of_bytes cap (mkSource data sc) = (F, Frame.Ok tt) ->
  gzi_correct F idx -> ops_valid_any F ops ->
  index_file (bz_text F) = (recs, err) -> In r recs ->
  let st0 := run_state_bs F idx (ReaderOps.init F) ops in
  let st := match s with Some p => p | None => 1%N end in
  (1 <= st)%N -> (st <= f_len r)%N ->
  exists pos v s',
    fai_query_gen chk r (st - 1)%N = Some pos /\
    ReaderOps.virtual_position (snd (query_bgzf_any chk F idx st0 r s e)) = Vpos.Ok v /\
    FlatRef.denote F v = Some (FlatRef.off s') /\ (pos <= FlatRef.off s')%N /\
    (FlatRef.off s' <= FlatRef.total_dlen F)%N /\
    ReaderOpsProofs.Inv F (snd (query_bgzf_any chk F idx st0 r s e)) s'.
Proof.
  intros data sc cap F idx ops recs err r chk s e Hby Hmax H Hidx Hv Hi Hin st0 st H1 H2.
  destruct (frames_of_bytes_ok data sc cap F Hby Hmax H) as [Hwf Hc].
  destruct (reach_inv_any F idx Hwf Hc Hidx ops (ReaderOps.init F) (FlatRef.mkF 0 0) Hv
              (ReaderOpsProofs.inv_init F Hwf)) as [s0 HI].
  exact (query_bgzf_any_exact_vpos F idx st0 s0 recs err r chk s e Hwf Hc Hidx HI Hi Hin H1 H2).
Qed.
