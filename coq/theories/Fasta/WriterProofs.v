(* C11 — the FASTA writer's output, for every line width w >= 1 and every list of records that
   satisfies [rec_ok w], is read back unchanged by the reader model, is accepted by the indexer
   model with geometry (min w len, +1), and every region query on it is exact. *)
From Coq Require Import List NArith Bool Lia ZifyBool ZifyNat ZifyN.
From NV Require Import Fasta.Layout Fasta.LayoutProofs Fasta.Indexer Fasta.IndexerProofs
                       Fasta.Query Fasta.QueryProofs Fasta.Reader.
Import ListNotations.
Open Scope N_scope.

Arguments N.add : simpl never.
Arguments N.sub : simpl never.
Arguments N.mul : simpl never.
Arguments N.div : simpl never.
Arguments N.modulo : simpl never.
Arguments N.min : simpl never.

Local Notation addlf := (fun c : list N => c ++ [LF]).

(* ---- the conditions on a record ---- *)

Definition nws (b : N) : Prop := is_ws b = false.

(* name: non-empty, no ASCII whitespace (the reader ends the name at the first whitespace) *)
Definition name_ok (n : list N) : Prop := n <> [] /\ Forall nws n.

(* description: absent, or non-empty, LF-free and already trimmed (the reader trims it and maps the
   empty description to None) *)
Definition desc_ok (d : option (list N)) : Prop :=
  match d with
  | None => True
  | Some x => x <> [] /\ nolf x /\ trim_ws x = x
  end.

(* one written sequence line: no LF, does not start with '>' (would be a definition) or CR
   (skipped by the reader at a line start), does not end with CR (would be taken as part of the
   line terminator) *)
Definition chunk_ok (c : list N) : Prop :=
  nolf c /\
  match c with x :: _ => x <> GT /\ x <> CR | [] => True end /\
  ends_with CR c = false.

Definition seq_ok (w : nat) (s : list N) : Prop := Forall chunk_ok (chunks (length s) w s).

Definition rec_ok (w : nat) (r : frec) : Prop :=
  name_ok (r_name r) /\ desc_ok (r_desc r) /\ seq_ok w (r_seq r).

(* ---- ends_with / strip_last ---- *)

Lemma strip_last_noend : forall c l, ends_with c l = false -> strip_last c l = l.
Proof.
  induction l as [|x t IH]; intros H; [reflexivity|].
  cbn [strip_last ends_with] in *. destruct t as [|y t'].
  - now rewrite H.
  - f_equal. now apply IH.
Qed.

Lemma ends_with_app : forall c a b, b <> [] -> ends_with c (a ++ b) = ends_with c b.
Proof.
  induction a as [|x a IH]; intros b Hb; [reflexivity|].
  cbn [app ends_with]. destruct (a ++ b) as [|y q] eqn:E.
  - destruct a; destruct b; try discriminate; congruence.
  - rewrite <- E. now apply IH.
Qed.

Lemma ends_with_snoc : forall c q y, ends_with c (q ++ [y]) = (y =? c).
Proof. intros c q y. rewrite ends_with_app by discriminate. reflexivity. Qed.

Lemma nws_not_cr : forall y, nws y -> y <> CR.
Proof. intros y H E. subst y. discriminate H. Qed.

Lemma nws_not_lf : forall y, nws y -> y <> LF.
Proof. intros y H E. subst y. discriminate H. Qed.

(* ---- chunks ---- *)

(* all chunks but the last have w elements, the last one 1..w *)
Inductive wshape (w : nat) : list (list N) -> Prop :=
| ws_nil : wshape w []
| ws_last c : c <> [] -> (length c <= w)%nat -> wshape w [c]
| ws_cons c cs : c <> [] -> length c = w -> cs <> [] -> wshape w cs -> wshape w (c :: cs).

Lemma chunks_nil : forall n w, chunks n w [] = [].
Proof. destruct n; reflexivity. Qed.

Lemma chunks_spec : forall n w s, (1 <= w)%nat -> (length s <= n)%nat ->
  concat (chunks n w s) = s /\ wshape w (chunks n w s).
Proof.
  induction n as [|n IH]; intros w s Hw Hn.
  - destruct s; [|cbn in Hn; lia]. split; [reflexivity|constructor].
  - destruct s as [|x t]; [split; [reflexivity|constructor]|].
    cbn [chunks].
    assert (Hlen : (length (skipn w (x :: t)) <= n)%nat) by (rewrite skipn_length; cbn [length] in *; lia).
    destruct (IH w (skipn w (x :: t)) Hw Hlen) as [Hc Hs].
    split.
    + cbn [concat]. rewrite Hc. apply firstn_skipn.
    + assert (Hne : firstn w (x :: t) <> []) by (destruct w; [lia|discriminate]).
      destruct (skipn w (x :: t)) as [|y q] eqn:E.
      * rewrite chunks_nil. apply ws_last; [exact Hne|]. rewrite firstn_length. lia.
      * assert (Hlt : (w < length (x :: t))%nat).
        { apply (f_equal (@length N)) in E. rewrite skipn_length in E. cbn [length] in *. lia. }
        apply ws_cons; [exact Hne| |destruct n; [cbn in Hlen; lia|discriminate]|exact Hs].
        rewrite firstn_length. lia.
Qed.

Lemma wshape_first_len : forall w c cs, wshape w (c :: cs) ->
  len c = N.min (N.of_nat w) (len (concat (c :: cs))) /\ c <> [].
Proof.
  intros w c cs H. inversion H as [|c' Hne Hle|c' cs' Hne Hl Hcs Hs]; subst.
  - cbn [concat]. rewrite app_nil_r. unfold len. split; [lia|exact Hne].
  - cbn [concat]. rewrite len_app. unfold len. split; [lia|exact Hne].
Qed.

(* ---- one written sequence line ---- *)

Section Chunk.
  Variable c : list N.
  Hypothesis Hok : chunk_ok c.
  Hypothesis Hne : c <> [].

  Lemma chunk_content : content (c ++ [LF]) = c.
  Proof.
    destruct Hok as [_ [_ He]]. unfold content. rewrite strip_last_snoc. now apply strip_last_noend.
  Qed.

  Lemma chunk_head : exists x t, c = x :: t /\ x <> GT /\ x <> CR /\ x <> LF.
  Proof.
    destruct c as [|x t] eqn:E; [congruence|]. exists x, t.
    destruct Hok as [Hl [[Hg Hc] _]]. repeat split; try assumption.
    intros E'. apply Hl. left. now symmetry.
  Qed.

  Lemma chunk_not_def : is_def (c ++ [LF]) = false.
  Proof.
    destruct chunk_head as [x [t [E [Hg _]]]]. rewrite E. cbn [app is_def]. lia.
  Qed.

  Lemma chunk_head_ok : head_ok (c ++ [LF]).
  Proof.
    intros x C E. rewrite chunk_content in E.
    destruct chunk_head as [x' [t [E' [_ [Hc _]]]]]. rewrite E' in E. now injection E as <- _.
  Qed.

  Lemma chunk_len : len (c ++ [LF]) = len c + 1.
  Proof. rewrite len_app. reflexivity. Qed.
End Chunk.

Lemma wshape_nonempty : forall w cs, wshape w cs -> Forall (fun c => c <> []) cs.
Proof. induction 1; repeat constructor; assumption. Qed.

(* what may follow the sequence lines of a record: the end of the file or a definition line *)
Definition def_or_end (rest : list (list N)) : Prop :=
  rest = [] \/ exists t r', rest = (GT :: t) :: r'.

Lemma def_or_end_at_end : forall rest, def_or_end rest -> at_end rest = true.
Proof. intros rest [E|[t [r' E]]]; subst; reflexivity. Qed.

Lemma nondef_chunk_lines : forall cs, Forall chunk_ok cs -> Forall (fun c => c <> []) cs ->
  Forall (fun l => is_def l = false) (map addlf cs).
Proof.
  induction 1 as [|c cs Hc F IH]; intros Hn; [constructor|].
  inversion Hn as [|c' cs' Hc' Hn']; subst. cbn [map]. constructor; [now apply chunk_not_def|now apply IH].
Qed.

Lemma concat_content_chunk_lines : forall cs, Forall chunk_ok cs ->
  concat (map content (map addlf cs)) = concat cs.
Proof.
  induction 1 as [|c cs Hc F IH]; [reflexivity|].
  cbn [map concat]. now rewrite chunk_content, IH.
Qed.

Lemma naive_chunk_lines : forall cs rest, Forall chunk_ok cs -> Forall (fun c => c <> []) cs ->
  def_or_end rest -> naive_bases (map addlf cs ++ rest) = concat cs.
Proof.
  intros cs rest Hc Hn Hr.
  rewrite naive_bases_app_nondef by now apply nondef_chunk_lines.
  rewrite (at_end_naive_nil rest (def_or_end_at_end _ Hr)), app_nil_r.
  now apply concat_content_chunk_lines.
Qed.

Lemma heads_ok_chunk_lines : forall cs rest, Forall chunk_ok cs -> Forall (fun c => c <> []) cs ->
  def_or_end rest -> heads_ok (map addlf cs ++ rest).
Proof.
  induction 1 as [|c cs Hc F IH]; intros Hn Hr.
  - cbn [map app]. destruct Hr as [E|[t [r' E]]]; subst; exact I.
  - inversion Hn as [|c' cs' Hc' Hn']; subst. cbn [map app heads_ok].
    rewrite (chunk_not_def c Hc Hc'). split; [now apply chunk_head_ok|now apply IH].
Qed.

(* ---- the indexer accepts the written sequence lines ---- *)

Lemma wshape_regular : forall w cs rest, Forall chunk_ok cs -> wshape w cs -> def_or_end rest ->
  regular (N.of_nat w + 1) (N.of_nat w) (map addlf cs ++ rest) rest.
Proof.
  intros w cs rest Hc Hs Hr. induction Hs as [|c Hne Hle|c cs Hne Hl Hcs Hs IH].
  - apply R_end. now apply def_or_end_at_end.
  - inversion Hc as [|c' cs' Hc1 _]; subst. cbn [map app].
    apply R_last; [now apply chunk_not_def|now apply def_or_end_at_end| |].
    + rewrite chunk_len. unfold len. lia.
    + rewrite chunk_content by assumption. unfold len. lia.
  - inversion Hc as [|c' cs' Hc1 Hc2]; subst. cbn [map app].
    apply R_full; [now apply chunk_not_def| | |now apply IH].
    + rewrite chunk_len. unfold len. lia.
    + rewrite chunk_content by assumption. unfold len. lia.
Qed.

Lemma chunk_lines_accepted : forall w c cs rest, Forall chunk_ok (c :: cs) -> wshape w (c :: cs) ->
  def_or_end rest ->
  accepted_layout (map addlf (c :: cs) ++ rest) rest (len c + 1) (len c).
Proof.
  intros w c cs rest Hc Hs Hr.
  inversion Hc as [|c' cs' Hc1 Hc2]; subst.
  assert (Hne : c <> []) by (inversion Hs; assumption).
  exists (c ++ [LF]), (map addlf cs ++ rest). cbn [map app].
  split; [reflexivity|]. split; [now apply chunk_not_def|].
  split; [now rewrite chunk_len|]. split; [now rewrite chunk_content|].
  split; [destruct c; [congruence|]; rewrite len_cons; lia|].
  inversion Hs as [|c' Hne' Hle|c' cs' Hne' Hl Hcs Hs']; subst.
  - cbn [map app]. apply R_end. now apply def_or_end_at_end.
  - replace (len c) with (N.of_nat (length c)) by reflexivity. now apply wshape_regular.
Qed.

(* ---- the raw lines of a written file ---- *)

Definition rec_lines (w : nat) (r : frec) : list (list N) :=
  (write_definition (r_name r) (r_desc r) ++ [LF])
    :: map addlf (chunks (length (r_seq r)) w (r_seq r)).

Lemma lines_chunk_lines : forall cs tail, Forall nolf cs ->
  lines (concat (map addlf cs) ++ tail) = map addlf cs ++ lines tail.
Proof.
  induction 1 as [|c cs Hc F IH]; [reflexivity|].
  cbn [map concat]. rewrite <- !app_assoc. cbn [app].
  rewrite lines_app_term by exact Hc. now rewrite IH.
Qed.

Lemma nws_nolf : forall n, Forall nws n -> nolf n.
Proof.
  induction 1 as [|b n Hb F IH]; intros Hin; [destruct Hin|].
  destruct Hin as [E|Hin]; [|now apply IH]. exact (nws_not_lf b Hb E).
Qed.

Lemma definition_nolf : forall n d, name_ok n -> desc_ok d -> nolf (write_definition n d).
Proof.
  intros n d [_ Hn] Hd. unfold write_definition, nolf. intros [E|Hin]; [discriminate E|].
  apply in_app_or in Hin. destruct Hin as [Hin|Hin]; [exact (nws_nolf n Hn Hin)|].
  destruct d as [x|]; [|destruct Hin]. destruct Hin as [E|Hin]; [discriminate E|].
  destruct Hd as [_ [Hx _]]. exact (Hx Hin).
Qed.

Lemma chunk_ok_nolf : forall cs, Forall chunk_ok cs -> Forall nolf cs.
Proof. induction 1 as [|c cs [H _] F IH]; constructor; assumption. Qed.

Lemma lines_write_rec : forall w r tail, rec_ok w r ->
  lines (write_rec w r ++ tail) = rec_lines w r ++ lines tail.
Proof.
  intros w r tail [Hn [Hd Hs]]. unfold write_rec, write_record, rec_lines, write_sequence.
  rewrite <- !app_assoc. cbn [app].
  rewrite lines_app_term by now apply definition_nolf.
  f_equal. apply lines_chunk_lines. now apply chunk_ok_nolf.
Qed.

Lemma lines_write_file : forall w recs, Forall (rec_ok w) recs ->
  lines (write_file w recs) = concat (map (rec_lines w) recs).
Proof.
  induction 1 as [|r rs Hr F IH]; [reflexivity|].
  unfold write_file in *. cbn [map concat]. rewrite lines_write_rec by exact Hr. now rewrite IH.
Qed.

Lemma rec_lines_def_or_end : forall w rs, def_or_end (concat (map (rec_lines w) rs)).
Proof.
  intros w [|r rs]; [now left|]. right. cbn [map concat]. unfold rec_lines, write_definition.
  cbn [app]. eauto.
Qed.

Lemma concat_rec_lines : forall w recs, Forall (rec_ok w) recs ->
  concat (concat (map (rec_lines w) recs)) = write_file w recs.
Proof. intros w recs H. rewrite <- lines_write_file by exact H. apply lines_concat. Qed.

Lemma rec_lines_count : forall w recs, (length recs <= length (concat (map (rec_lines w) recs)))%nat.
Proof.
  induction recs as [|r rs IH]; [cbn; lia|].
  cbn [map concat]. unfold rec_lines at 1. cbn [app length]. rewrite app_length. lia.
Qed.

(* ---- the definition line is parsed back ---- *)

Lemma last_nws : forall l, l <> [] -> Forall nws l -> exists p y, l = p ++ [y] /\ nws y.
Proof.
  intros l Hne F. destruct (exists_last Hne) as [p [y E]]. exists p, y. split; [exact E|].
  rewrite E in F. apply Forall_app in F. destruct F as [_ F]. now inversion F.
Qed.

Lemma drop_ws_head : forall l, match drop_ws l with [] => True | y :: _ => nws y end.
Proof.
  induction l as [|b t IH]; [exact I|]. cbn [drop_ws]. destruct (is_ws b) eqn:E; [exact IH|exact E].
Qed.

Lemma trimmed_last : forall x, x <> [] -> trim_ws x = x -> exists p y, x = p ++ [y] /\ nws y.
Proof.
  intros x Hne Ht. unfold trim_ws in Ht.
  pose proof (drop_ws_head (rev (drop_ws x))) as Hh.
  destruct (drop_ws (rev (drop_ws x))) as [|y q] eqn:E.
  - cbn in Ht. congruence.
  - exists (rev q), y. split; [now rewrite <- Ht|exact Hh].
Qed.

Lemma definition_no_cr_end : forall n d, name_ok n -> desc_ok d ->
  ends_with CR (write_definition n d) = false.
Proof.
  intros n d [Hne Hn] Hd. unfold write_definition.
  destruct d as [x|].
  - destruct Hd as [Hx [_ Ht]]. destruct (trimmed_last x Hx Ht) as [p [y [E Hy]]]. subst x.
    change (GT :: n ++ SP :: p ++ [y]) with ((GT :: n) ++ (SP :: p) ++ [y]).
    rewrite app_assoc, ends_with_snoc. pose proof (nws_not_cr y Hy). lia.
  - rewrite app_nil_r. destruct (last_nws n Hne Hn) as [p [y [E Hy]]]. subst n.
    change (GT :: p ++ [y]) with ((GT :: p) ++ [y]).
    rewrite ends_with_snoc. pose proof (nws_not_cr y Hy). lia.
Qed.

Lemma take_name_app : forall n tail, Forall nws n ->
  match tail with [] => True | y :: _ => is_ws y = true end ->
  take_name (n ++ tail) = n.
Proof.
  induction 1 as [|b n Hb F IH]; intros Ht.
  - destruct tail as [|y q]; [reflexivity|]. cbn [app take_name]. now rewrite Ht.
  - cbn [app take_name]. rewrite Hb. f_equal. now apply IH.
Qed.

Lemma skipn_length_app : forall A (a b : list A), skipn (length a) (a ++ b) = b.
Proof. induction a as [|x a IH]; intros b; [reflexivity|]. cbn [length app skipn]. apply IH. Qed.

Definition desc_bytes (d : option (list N)) : list N := match d with Some x => x | None => [] end.

Lemma parse_def_written : forall n d, name_ok n -> desc_ok d ->
  parse_def (def_content (write_definition n d ++ [LF])) = Some (n, desc_bytes d).
Proof.
  intros n d Hn Hd.
  unfold def_content. rewrite ends_with_snoc. change (LF =? LF) with true. cbv iota.
  rewrite strip_last_snoc, strip_last_noend by now apply definition_no_cr_end.
  destruct Hn as [Hne Hn]. unfold write_definition.
  set (tail := match d with Some x => SP :: x | None => [] end).
  assert (Htn : take_name (n ++ tail) = n).
  { apply take_name_app; [exact Hn|]. subst tail. destruct d; [reflexivity|exact I]. }
  unfold parse_def, parse_def_name. change (GT =? GT) with true. cbv iota. rewrite Htn.
  destruct n as [|a n']; [congruence|]. cbn [tl].
  rewrite skipn_length_app. f_equal. f_equal.
  subst tail. destruct d as [x|]; [|reflexivity].
  destruct Hd as [_ [_ Ht]]. cbn [desc_bytes]. rewrite <- Ht at 2. reflexivity.
Qed.

(* ---- the sequence lines are read back ---- *)

Lemma read_seq_step : forall l rest x t,
  l = x :: t -> x <> CR -> x <> LF -> x <> GT ->
  read_seq_lines (l :: rest)
  = (content l ++ fst (read_seq_lines rest), snd (read_seq_lines rest)).
Proof.
  intros l rest x t E Hc Hl Hg. subst l. cbn [read_seq_lines drop_crlf].
  replace (x =? CR) with false by lia. replace (x =? LF) with false by lia. cbn [orb].
  replace (x =? GT) with false by lia. now destruct (read_seq_lines rest).
Qed.

Lemma read_seq_chunk_lines : forall cs rest, Forall chunk_ok cs -> Forall (fun c => c <> []) cs ->
  def_or_end rest -> read_seq_lines (map addlf cs ++ rest) = (concat cs, rest).
Proof.
  induction 1 as [|c cs Hc F IH]; intros Hn Hr.
  - cbn [map app concat]. destruct Hr as [E|[t [r' E]]]; subst; [reflexivity|].
    cbn [read_seq_lines drop_crlf]. change (GT =? CR) with false. change (GT =? LF) with false.
    cbn [orb]. change (GT =? GT) with true. reflexivity.
  - inversion Hn as [|c' cs' Hc' Hn']; subst. cbn [map app concat].
    destruct (chunk_head c Hc Hc') as [x [t [E [Hg [Hcr Hlf]]]]].
    rewrite (read_seq_step (c ++ [LF]) _ x (t ++ [LF])); try assumption; [|now rewrite E].
    rewrite IH by assumption. cbn [fst snd]. now rewrite chunk_content.
Qed.

Lemma read_records_written : forall w recs fuel, (1 <= w)%nat -> Forall (rec_ok w) recs ->
  (length recs < fuel)%nat ->
  read_records fuel (concat (map (rec_lines w) recs)) = (recs, None).
Proof.
  intros w recs fuel Hw H. revert fuel.
  induction H as [|r rs Hr F IH]; intros fuel Hf.
  - destruct fuel; [lia|reflexivity].
  - destruct fuel as [|fuel]; [lia|]. cbn [length] in Hf.
    cbn [map concat]. unfold rec_lines at 1. cbn [app read_records].
    destruct Hr as [Hn [Hd Hs]].
    rewrite parse_def_written by assumption.
    destruct (chunks_spec (length (r_seq r)) w (r_seq r) Hw (le_n _)) as [Hcat Hsh].
    rewrite read_seq_chunk_lines;
      [|exact Hs|exact (wshape_nonempty _ _ Hsh)|apply rec_lines_def_or_end].
    rewrite IH by lia. rewrite Hcat.
    destruct r as [n d s]. cbn [r_name r_desc r_seq desc_bytes] in *.
    destruct d as [x|]; [|reflexivity]. cbn [desc_bytes].
    destruct Hd as [Hx _]. destruct x; [congruence|reflexivity].
Qed.

Lemma write_read_roundtrip : forall w recs, (1 <= w)%nat -> Forall (rec_ok w) recs ->
  read_file (write_file w recs) = (recs, None).
Proof.
  intros w recs Hw H. unfold read_file. rewrite lines_write_file by exact H.
  apply read_records_written; [exact Hw|exact H|].
  pose proof (rec_lines_count w recs). lia.
Qed.

(* ---- the written file is indexed ---- *)

Definition line_bases (w : nat) (s : list N) : N := N.min (N.of_nat w) (len s).

Definition fai_of (w : nat) (r : frec) (off : N) : fai :=
  mkfai (r_name r) (len (r_seq r))
        (off + len (write_definition (r_name r) (r_desc r)) + 1)
        (line_bases w (r_seq r)) (line_bases w (r_seq r) + 1).

Fixpoint expected_index (w : nat) (recs : list frec) (off : N) : list fai :=
  match recs with
  | [] => []
  | r :: rs => fai_of w r off :: expected_index w rs (off + len (write_rec w r))
  end.

Definition has_bases (r : frec) : Prop := r_seq r <> [].

Lemma index_record_written : forall w r rs off, (1 <= w)%nat -> rec_ok w r -> has_bases r ->
  index_record (rec_lines w r ++ concat (map (rec_lines w) rs)) off
  = inr (Some (fai_of w r off, off + len (write_rec w r), concat (map (rec_lines w) rs))).
Proof.
  intros w r rs off Hw [Hn [Hd Hs]] Hb.
  set (rest := concat (map (rec_lines w) rs)).
  assert (Hr : def_or_end rest) by apply rec_lines_def_or_end.
  destruct (chunks_spec (length (r_seq r)) w (r_seq r) Hw (le_n _)) as [Hcat Hsh].
  unfold rec_lines. cbn [app].
  set (d := write_definition (r_name r) (r_desc r) ++ [LF]).
  unfold seq_ok in Hs.
  destruct (chunks (length (r_seq r)) w (r_seq r)) as [|c cs] eqn:Ec.
  { cbn in Hcat. unfold has_bases in Hb. congruence. }
  pose proof (wshape_nonempty _ _ Hsh) as Hne.
  assert (Hname : parse_def_name (def_content d) = Some (r_name r)).
  { pose proof (parse_def_written _ _ Hn Hd) as Hp. unfold parse_def in Hp. fold d in Hp.
    destruct (parse_def_name (def_content d)) as [n0|]; [|discriminate]. now injection Hp as -> _. }
  destruct (index_record_accepts d (map addlf (c :: cs) ++ rest) rest (r_name r) _ _ off Hname
              (chunk_lines_accepted w c cs rest Hs Hsh Hr)) as [r0 [off' [HR [E1 [E2 E3]]]]].
  rewrite HR.
  destruct (index_record_spec _ _ _ _ _ _ HR) as [_ [Hp [_ [Hlen [_ [_ [consumed [Ec' [Eo _]]]]]]]]].
  apply app_inv_tail in Ec'. subst consumed.
  rewrite (naive_chunk_lines _ _ Hs Hne Hr), Hcat in Hlen.
  destruct (wshape_first_len w c cs Hsh) as [Hlc _]. rewrite Hcat in Hlc.
  assert (Ed : len d = len (write_definition (r_name r) (r_desc r)) + 1) by (unfold d; now rewrite len_app).
  assert (Ew : len (write_rec w r) = len d + len (concat (map addlf (c :: cs)))).
  { unfold write_rec, write_record, write_sequence. rewrite Ec, !len_app. unfold d. rewrite len_app. lia. }
  destruct r0 as [n0 l0 p0 b0 w0]. cbn [f_name f_len f_pos f_lb f_lw] in *.
  unfold fai_of, line_bases. subst n0 w0 b0. rewrite <- Hlc.
  repeat f_equal; lia.
Qed.

Lemma index_loop_written : forall w recs fuel off, (1 <= w)%nat ->
  Forall (rec_ok w) recs -> Forall has_bases recs -> (length recs < fuel)%nat ->
  index_loop fuel (concat (map (rec_lines w) recs)) off = (expected_index w recs off, None).
Proof.
  intros w recs fuel off Hw H. revert fuel off.
  induction H as [|r rs Hr F IH]; intros fuel off Hb Hf.
  - destruct fuel; [lia|reflexivity].
  - destruct fuel as [|fuel]; [lia|]. cbn [length] in Hf.
    inversion Hb as [|r' rs' Hb1 Hb2]; subst.
    cbn [map concat index_loop expected_index].
    rewrite index_record_written by assumption.
    rewrite IH by (assumption || lia). reflexivity.
Qed.

Lemma index_file_written : forall w recs, (1 <= w)%nat ->
  Forall (rec_ok w) recs -> Forall has_bases recs ->
  index_file (write_file w recs) = (expected_index w recs 0, None).
Proof.
  intros w recs Hw H Hb. unfold index_file. rewrite lines_write_file by exact H.
  apply index_loop_written; try assumption.
  pose proof (rec_lines_count w recs). lia.
Qed.

Lemma write_file_app : forall w a b, write_file w (a ++ b) = write_file w a ++ write_file w b.
Proof. intros. unfold write_file. now rewrite map_app, concat_app. Qed.

Lemma expected_index_app : forall w pre rec post off,
  expected_index w (pre ++ rec :: post) off
  = expected_index w pre off ++ fai_of w rec (off + len (write_file w pre))
      :: expected_index w post (off + len (write_file w pre) + len (write_rec w rec)).
Proof.
  induction pre as [|a pre IH]; intros rec post off.
  - cbn [app expected_index]. unfold write_file. cbn [map concat]. rewrite len_nil, !N.add_0_r. reflexivity.
  - cbn [app expected_index]. rewrite IH.
    unfold write_file. cbn [map concat]. rewrite len_app, !N.add_assoc. reflexivity.
Qed.

Lemma list_eqb_refl : forall a, list_eqb a a = true.
Proof. induction a as [|x a IH]; [reflexivity|]. cbn [list_eqb]. rewrite N.eqb_refl. exact IH. Qed.

Lemma list_eqb_eq : forall a b, list_eqb a b = true -> a = b.
Proof.
  induction a as [|x a IH]; intros [|y b] H; try discriminate; [reflexivity|].
  cbn [list_eqb] in H. apply andb_prop in H. destruct H as [H1 H2].
  apply N.eqb_eq in H1. subst y. f_equal. now apply IH.
Qed.

Lemma expected_index_names : forall w recs off, map f_name (expected_index w recs off) = map r_name recs.
Proof. induction recs as [|r rs IH]; intros off; [reflexivity|]. cbn [expected_index map]. now rewrite IH. Qed.

Lemma find_record_first : forall a r b name,
  f_name r = name -> ~ In name (map f_name a) -> find_record (a ++ r :: b) name = Some r.
Proof.
  induction a as [|x a IH]; intros r b name E Hn.
  - cbn [app find_record]. rewrite E, list_eqb_refl. reflexivity.
  - cbn [app find_record]. destruct (list_eqb (f_name x) name) eqn:Ex.
    + apply list_eqb_eq in Ex. exfalso. apply Hn. now left.
    + apply IH; [exact E|]. intros H. apply Hn. now right.
Qed.

(* ---- every region query on a written record is exact ---- *)

Lemma written_query_exact : forall w pre rec post chk s e, (1 <= w)%nat ->
  Forall (rec_ok w) (pre ++ rec :: post) -> Forall has_bases (pre ++ rec :: post) ->
  let f := write_file w (pre ++ rec :: post) in
  let r := fai_of w rec (len (write_file w pre)) in
  let B := r_seq rec in
  let st := match s with Some p => p | None => 1 end in
  let en := match e with Some p => p | None => usize_max end in
  nth (N.to_nat (st - 1)) B 0 <> CR -> nth (N.to_nat (st - 1)) B 0 <> GT ->
  1 <= st -> st <= len B -> st <= en ->
  query_record chk f r s e = QOk (firstn (N.to_nat (en - st + 1)) (skipn (N.to_nat (st - 1)) B)).
Proof.
  intros w pre rec post chk s e Hw Hok Hb f r B st en Hcr Hgt H1 H2 H3.
  assert (Hok' := Hok). apply Forall_app in Hok'. destruct Hok' as [Hpre Hrp].
  inversion Hrp as [|x l Hrec Hpost]; subst x l.
  assert (Hb' := Hb). apply Forall_app in Hb'. destruct Hb' as [_ Hbp].
  inversion Hbp as [|x l Hbrec _]; subst x l.
  set (plines := concat (map (rec_lines w) pre)).
  set (d := write_definition (r_name rec) (r_desc rec) ++ [LF]).
  set (cs := chunks (length (r_seq rec)) w (r_seq rec)).
  set (rest := concat (map (rec_lines w) post)).
  assert (HL : lines f = plines ++ d :: (map addlf cs ++ rest)).
  { unfold f. rewrite lines_write_file by exact Hok. rewrite map_app, concat_app. reflexivity. }
  assert (Eoff : len (concat plines) = len (write_file w pre)).
  { unfold plines. now rewrite concat_rec_lines. }
  assert (HR : index_record (d :: (map addlf cs ++ rest)) (len (concat plines))
               = inr (Some (r, len (concat plines) + len (write_rec w rec), rest))).
  { rewrite Eoff. exact (index_record_written w rec post _ Hw Hrec Hbrec). }
  pose proof (record_query_exact_gen f plines d (map addlf cs ++ rest) r _ rest HL HR chk s e) as Hq.
  cbv zeta in Hq.
  destruct Hrec as [Hn [Hd Hs]].
  destruct (chunks_spec (length (r_seq rec)) w (r_seq rec) Hw (le_n _)) as [Hcat Hsh].
  fold cs in Hcat, Hsh. unfold seq_ok in Hs. fold cs in Hs.
  pose proof (wshape_nonempty _ _ Hsh) as Hne.
  assert (Hr : def_or_end rest) by apply rec_lines_def_or_end.
  rewrite (naive_chunk_lines cs rest Hs Hne Hr), Hcat in Hq.
  apply Hq; try assumption.
  now apply heads_ok_chunk_lines.
Qed.

(* a sequence without LF, CR and '>' satisfies seq_ok at every width *)
Lemma ends_with_in : forall c l, ends_with c l = true -> In c l.
Proof.
  induction l as [|x t IH]; intros H; [discriminate|].
  cbn [ends_with] in H. destruct t as [|y t'].
  - apply N.eqb_eq in H. now left.
  - right. now apply IH.
Qed.

Lemma plain_chunk_ok : forall c, ~ In LF c -> ~ In CR c -> ~ In GT c -> chunk_ok c.
Proof.
  intros c Hl Hc Hg. split; [exact Hl|]. split.
  - destruct c as [|x t]; [exact I|]. split; intros E; [apply Hg|apply Hc]; left; now symmetry.
  - destruct (ends_with CR c) eqn:E; [|reflexivity]. exfalso. apply Hc. now apply ends_with_in.
Qed.

Lemma plain_seq_ok : forall w s, (1 <= w)%nat -> ~ In LF s -> ~ In CR s -> ~ In GT s -> seq_ok w s.
Proof.
  intros w s Hw Hl Hc Hg. unfold seq_ok.
  destruct (chunks_spec (length s) w s Hw (le_n _)) as [Hcat _].
  apply Forall_forall. intros c Hin.
  assert (Hsub : forall b, In b c -> In b s).
  { intros b Hb. rewrite <- Hcat. apply in_concat. eauto. }
  apply plain_chunk_ok; intros H; [apply Hl|apply Hc|apply Hg]; now apply Hsub.
Qed.

(* the fai record of one written record: it is in the index, and it is the one a name lookup
   returns when no earlier record has the same name *)
Lemma written_record_indexed : forall w pre rec post, (1 <= w)%nat ->
  Forall (rec_ok w) (pre ++ rec :: post) -> Forall has_bases (pre ++ rec :: post) ->
  let f := write_file w (pre ++ rec :: post) in
  let r := fai_of w rec (len (write_file w pre)) in
  In r (fst (index_file f)) /\
  (~ In (r_name rec) (map r_name pre) -> find_record (fst (index_file f)) (r_name rec) = Some r).
Proof.
  intros w pre rec post Hw Hok Hb f r. subst f r.
  rewrite index_file_written by assumption. cbn [fst].
  rewrite expected_index_app, N.add_0_l. split.
  - apply in_or_app. right. now left.
  - intros Hn. apply find_record_first; [reflexivity|]. now rewrite expected_index_names.
Qed.

Lemma written_record_query_exact : forall w pre rec post,
  (1 <= w)%nat ->
  Forall (rec_ok w) (pre ++ rec :: post) -> Forall has_bases (pre ++ rec :: post) ->
  let f := write_file w (pre ++ rec :: post) in
  let r := fai_of w rec (len (write_file w pre)) in
  In r (fst (index_file f)) /\
  (~ In (r_name rec) (map r_name pre) -> find_record (fst (index_file f)) (r_name rec) = Some r) /\
  forall chk s e,
    let B := r_seq rec in
    let st := match s with Some p => p | None => 1 end in
    let en := match e with Some p => p | None => usize_max end in
    nth (N.to_nat (st - 1)) B 0 <> CR -> nth (N.to_nat (st - 1)) B 0 <> GT ->
    1 <= st -> st <= len B -> st <= en ->
    query_record chk f r s e = QOk (firstn (N.to_nat (en - st + 1)) (skipn (N.to_nat (st - 1)) B)).
Proof.
  intros w pre rec post Hw Hok Hb f r.
  destruct (written_record_indexed w pre rec post Hw Hok Hb) as [H1 H2].
  split; [exact H1|]. split; [exact H2|].
  intros chk s e. exact (written_query_exact w pre rec post chk s e Hw Hok Hb).
Qed.

Lemma fai_of_geometry : forall w rec off,
  let r := fai_of w rec off in
  f_name r = r_name rec /\ f_len r = len (r_seq rec) /\
  f_pos r = off + len (write_definition (r_name rec) (r_desc rec)) + 1 /\
  f_lb r = N.min (N.of_nat w) (len (r_seq rec)) /\ f_lw r = f_lb r + 1.
Proof. intros w rec off. cbn. repeat split. Qed.
