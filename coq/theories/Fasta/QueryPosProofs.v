(* C11 — the exact stream position after a region query (wave 10): for EVERY BufReader capacity
   >= 1 and EVERY script of short reads / Interrupted, the reader stops with exactly
   [seq_rest BOL (seek f pos) k] unread, i.e. BufReader::stream_position() = [query_pos_spec].
   The step lemma of C12's scanner (NV.Io.FastaScanProofs.step_spec) only speaks about whole-slice
   consumes and does not say where the data stands; [step_rest] below is its refinement for a
   PARTIAL consume (any 1 <= i <= |slice|) that tracks the unread data. *)
From Coq Require Import List NArith Arith Bool Lia ZifyBool ZifyNat ZifyN.
From NV Require Import Io.Source Io.ReadExact Io.ReadExactProofs Io.BufReader Io.BufReaderProofs
                       Io.FastaScan Io.FastaScanProofs Io.Run.
From NV Require Import Fasta.Layout Fasta.LayoutProofs Fasta.Indexer Fasta.Query Fasta.Delivery
                       Fasta.DeliveryProofs Fasta.BgzipGzi Fasta.BgzipGziProofs Fasta.QueryPos.
Import ListNotations.
Local Open Scope nat_scope.

Local Notation LF := BufReader.LF.
Local Notation CR := BufReader.CR.
Local Notation GT := FastaScan.GT.

Arguments N.add : simpl never.
Arguments N.sub : simpl never.
Arguments N.pred : simpl never.
Arguments N.eqb : simpl never.

(* unread data from reader state (is_bol, has_pending_cr) in front of d with k bases to go; a
   held-back CR has already been consumed from the inner reader *)
Definition rest (ib p : bool) (d : list N) (k : N) : list N :=
  if (k =? 0)%N then d
  else if p then seq_rest MID (BufReader.CR :: d) k else seq_rest (lst ib) d k.

Lemma seq_rest_0 : forall st d, seq_rest st d 0 = d.
Proof. intros st [|x r]; reflexivity. Qed.

Lemma rest_nopend : forall ib d k, rest ib false d k = seq_rest (lst ib) d k.
Proof.
  intros ib d k. unfold rest. destruct (k =? 0)%N eqn:E; [|reflexivity].
  apply N.eqb_eq in E. subst k. symmetry. apply seq_rest_0.
Qed.

Lemma seq_rest_step : forall st x r k, (k =? 0)%N = false ->
  seq_rest st (x :: r) k =
    if N.eqb x BufReader.LF then seq_rest BOL r k
    else
      match st with
      | BOL => if N.eqb x BufReader.CR then seq_rest BOL r k
               else if N.eqb x FastaScan.GT then x :: r
               else seq_rest MID r (N.pred k)
      | MID => if N.eqb x BufReader.CR then
                 match r with
                 | [] => []
                 | y :: _ => if N.eqb y BufReader.LF then seq_rest MID r k
                             else seq_rest MID r (N.pred k)
                 end
               else seq_rest MID r (N.pred k)
      end.
Proof. intros st x r k Hk. cbn [seq_rest]. rewrite Hk. reflexivity. Qed.

(* the unread data is a suffix of the data *)
Lemma seq_rest_suffix : forall d st k, exists n, seq_rest st d k = skipn n d.
Proof.
  induction d as [|x r IH]; intros st k; [exists 0; reflexivity|].
  destruct (k =? 0)%N eqn:Hk.
  - exists 0. cbn [seq_rest]. rewrite Hk. reflexivity.
  - rewrite (seq_rest_step st x r k Hk).
    assert (Hs : forall st' k', exists n, seq_rest st' r k' = skipn n (x :: r)).
    { intros st' k'. destruct (IH st' k') as [n Hn]. exists (S n). exact Hn. }
    destruct (N.eqb x BufReader.LF); [apply Hs|].
    destruct st.
    + destruct (N.eqb x BufReader.CR); [apply Hs|].
      destruct (N.eqb x FastaScan.GT); [exists 0; reflexivity|apply Hs].
    + destruct (N.eqb x BufReader.CR); [|apply Hs].
      destruct r as [|y r']; [exists 1; reflexivity|].
      destruct (N.eqb y BufReader.LF); apply Hs.
Qed.

(* partial consume inside a slice: the first i bytes of strip_cr(until the LF) are bases *)
Lemma mid_rest : forall l d, l = firstn (length l) d -> has_byte BufReader.LF l = false ->
  forall i k, i <= length (strip_cr l) -> (N.of_nat i <= k)%N ->
  seq_rest MID d k = seq_rest MID (skipn i d) (k - N.of_nat i).
Proof.
  induction l as [|x l IH]; intros d Hp Hb i k Hi Hk.
  - cbn [strip_cr length] in Hi. assert (i = 0) by lia. subst i.
    cbn [skipn]. f_equal. lia.
  - destruct d as [|y d']; [discriminate|]. cbn [length firstn] in Hp.
    injection Hp as Hxy Hp'. subst y.
    cbn [has_byte existsb] in Hb. apply orb_false_iff in Hb. destruct Hb as [Hx Hb'].
    rewrite N.eqb_sym in Hx.
    destruct i as [|i]; [cbn [skipn]; f_equal; lia|].
    assert (Hk0 : (k =? 0)%N = false) by lia.
    rewrite (seq_rest_step MID x d' k Hk0), Hx. cbn [skipn].
    replace (k - N.of_nat (S i))%N with (N.pred k - N.of_nat i)%N by lia.
    destruct l as [|z l'].
    + cbn [strip_cr] in Hi. destruct (N.eqb x BufReader.CR) eqn:Hc; [cbn [length] in Hi; lia|].
      cbn [length] in Hi. assert (i = 0) by lia. subst i. cbn [skipn]. f_equal. lia.
    + change (strip_cr (x :: z :: l')) with (x :: strip_cr (z :: l')) in Hi. cbn [length] in Hi.
      destruct d' as [|z' d'']; [discriminate|].
      assert (z' = z) by (cbn [length firstn] in Hp'; injection Hp' as Hz _; auto). subst z'.
      assert (Hz : N.eqb z BufReader.LF = false).
      { cbn [has_byte existsb] in Hb'. apply orb_false_iff in Hb'. rewrite N.eqb_sym. exact (proj1 Hb'). }
      rewrite Hz.
      assert (E : seq_rest MID (z :: d'') (N.pred k) = seq_rest MID (skipn i (z :: d'')) (N.pred k - N.of_nat i)).
      { apply (IH (z :: d'') Hp' Hb'); lia. }
      destruct (N.eqb x BufReader.CR); exact E.
Qed.

Section StepRest.
  Context {S : Type}.
  Variable rd : reader S.
  Variable Rep : S -> list N -> nat -> Prop.
  Hypothesis Hsim : simulates rd Rep.
  Variable cap : nat.
  Hypothesis Hcap : 1 <= cap.

  Notation repb st d m := (rep_buf Rep st d m).

  Definition step_post (ib p : bool) (d : list N) (m : nat) (piece : list N) (s' : sstate S) : Prop :=
    (piece = [] -> exists ib' p' st' d' m',
        s' = (ib', p', st') /\ repb st' d' m' /\ forall k, k <> 0%N -> rest ib p d k = d') /\
    (forall i, 1 <= i <= length piece -> exists ib2 p2 st2 d2 m2,
        seq_consume i s' = (ib2, p2, st2) /\ repb st2 d2 m2 /\ (p2 = true -> ib2 = false) /\
        (forall k, (N.of_nat i <= k)%N -> rest ib p d k = rest ib2 p2 d2 (k - N.of_nat i)) /\
        mu m2 d2 p2 < mu m d p).

  Lemma step_post_mono : forall ib p d m ib0 p0 d0 m0 piece s',
    (forall k, k <> 0%N -> rest ib p d k = rest ib0 p0 d0 k) -> mu m0 d0 p0 <= mu m d p ->
    step_post ib0 p0 d0 m0 piece s' -> step_post ib p d m piece s'.
  Proof.
    intros ib p d m ib0 p0 d0 m0 piece s' Hk Hmu [H1 H2]. split.
    - intros Hp. destruct (H1 Hp) as [ib' [p' [st' [d' [m' [Es [HR Hr]]]]]]].
      exists ib', p', st', d', m'. split; [exact Es|]. split; [exact HR|].
      intros k Hk0. rewrite (Hk k Hk0). apply Hr. exact Hk0.
    - intros i Hi. destruct (H2 i Hi) as [ib2 [p2 [st2 [d2 [m2 [Ec [HR [Hinv [Hr Hm]]]]]]]]].
      exists ib2, p2, st2, d2, m2. split; [exact Ec|]. split; [exact HR|]. split; [exact Hinv|].
      split; [|lia]. intros k Hik. rewrite (Hk k) by lia. apply Hr. exact Hik.
  Qed.

  (* one fill_buf followed by consume(i) for ANY 1 <= i <= |slice| *)
  Lemma step_rest : forall fuel ib p st d m,
    repb st d m -> (p = true -> ib = false) -> mu m d p < fuel ->
    exists piece s',
      seq_fill_buf rd cap fuel ib p st = (SOk, piece, s') /\ step_post ib p d m piece s'.
  Proof.
    induction fuel as [|fuel IH]; intros ib p st d m HR Hinv Hf; [lia|].
    cbn [seq_fill_buf].
    pose proof (br_fill_buf_spec rd Rep Hsim cap Hcap st d m HR) as Hfb.
    destruct (br_fill_buf rd cap st) as [[src|] st1].
    2:{ destruct Hfb as [m1 [Hm1 HR1]].
        destruct (IH ib p st1 d m1 HR1 Hinv ltac:(unfold mu in *; lia)) as [piece [s' [E HP]]].
        exists piece, s'. split; [exact E|].
        apply (step_post_mono ib p d m ib p d m1); [reflexivity|unfold mu; lia|exact HP]. }
    destruct Hfb as [Hpre [Hne [Hfst [m1 [Hm1 HR1]]]]].
    destruct (p && match src with x :: _ => negb (N.eqb x LF) | [] => false end) eqn:Hpend.
    - (* the held-back CR is data *)
      apply andb_true_iff in Hpend. destruct Hpend as [Hp Hx]. subst p.
      rewrite (Hinv eq_refl) in *.
      destruct src as [|x w']; [discriminate|].
      destruct (prefix_cons x w' d Hpre) as [r Hd]. subst d.
      apply negb_true_iff in Hx.
      exists [CR], (false, true, st1). split; [reflexivity|]. split; [intros H; discriminate|].
      intros i Hi. cbn [length] in Hi. assert (i = 1) by lia. subst i.
      exists false, false, st1, (x :: r), m1.
      split; [reflexivity|]. split; [exact HR1|]. split; [intros H; discriminate|].
      split; [|unfold mu; lia].
      intros k Hk. rewrite rest_nopend. unfold rest, lst.
      assert (Hk0 : (k =? 0)%N = false) by lia. rewrite Hk0.
      rewrite (seq_rest_step MID CR (x :: r) k Hk0).
      change (N.eqb CR LF) with false. cbv iota. change (N.eqb CR CR) with true. cbv iota.
      rewrite Hx. f_equal. lia.
    - (* no held-back CR any more *)
      assert (Hcur : forall k, k <> 0%N -> rest ib p d k = rest ib false d k).
      { intros k Hk. destruct p; [|reflexivity]. rewrite (Hinv eq_refl). rewrite rest_nopend.
        unfold rest, lst. assert (Hk0 : (k =? 0)%N = false) by lia. rewrite Hk0.
        cbn [andb] in Hpend. destruct src as [|x w'].
        - assert (d = []) by (destruct d; [reflexivity|exfalso; apply Hne; [discriminate|reflexivity]]).
          subst d. rewrite (seq_rest_step MID CR [] k Hk0). reflexivity.
        - destruct (prefix_cons x w' d Hpre) as [r Hd]. subst d.
          apply negb_false_iff in Hpend.
          rewrite (seq_rest_step MID CR (x :: r) k Hk0).
          change (N.eqb CR LF) with false. cbv iota. change (N.eqb CR CR) with true. cbv iota.
          rewrite Hpend. reflexivity. }
      assert (Hred : forall piece s', step_post ib false d m piece s' -> step_post ib p d m piece s').
      { intros piece s'. apply step_post_mono; [exact Hcur|unfold mu; destruct p; lia]. }
      assert (Hf' : mu m d false < Datatypes.S fuel) by (unfold mu in *; destruct p; lia).
      clear Hcur Hpend.
      destruct src as [|b w'].
      + assert (d = []) by (destruct d; [reflexivity|exfalso; apply Hne; [discriminate|reflexivity]]).
        subst d. exists [], (ib, false, st1). split; [reflexivity|]. apply Hred. split.
        * intros _. exists ib, false, st1, [], m1. split; [reflexivity|]. split; [exact HR1|].
          intros k _. rewrite rest_nopend. reflexivity.
        * intros i Hi. cbn [length] in Hi. lia.
      + destruct (prefix_cons b w' d Hpre) as [r Hd]. subst d.
        set (src := b :: w') in *.
        destruct (N.eqb b LF || (ib && N.eqb b CR)) eqn:Hnl.
        * assert (HR2 : repb (br_consume 1 st1) r m1).
          { change r with (skipn 1 (b :: r)). apply (consume_k Rep st1 src); auto. unfold src. cbn [length]. lia. }
          destruct (IH true false _ r m1 HR2 ltac:(intros H; discriminate)
                      ltac:(unfold mu in *; cbn [length] in *; lia)) as [piece [s' [E HP]]].
          exists piece, s'. split; [exact E|]. apply Hred.
          apply (step_post_mono ib false (b :: r) m true false r m1); [|unfold mu; cbn [length]; lia|exact HP].
          intros k Hk. rewrite !rest_nopend. assert (Hk0 : (k =? 0)%N = false) by lia.
          rewrite (seq_rest_step (lst ib) b r k Hk0).
          destruct (N.eqb b LF) eqn:Hl; [reflexivity|].
          cbn [orb] in Hnl. apply andb_true_iff in Hnl. destruct Hnl as [Hib Hc].
          subst ib. unfold lst. rewrite Hc. reflexivity.
        * apply orb_false_iff in Hnl. destruct Hnl as [Hl Hbc].
          destruct (ib && N.eqb b GT) eqn:Hgt.
          -- apply andb_true_iff in Hgt. destruct Hgt as [Hib Hg]. subst ib.
             apply N.eqb_eq in Hg. subst b.
             exists [], (true, false, st1). split; [reflexivity|]. apply Hred. split.
             ++ intros _. exists true, false, st1, (GT :: r), m1. split; [reflexivity|].
                split; [exact HR1|]. intros k Hk. rewrite rest_nopend.
                assert (Hk0 : (k =? 0)%N = false) by lia.
                rewrite (seq_rest_step (lst true) GT r k Hk0). reflexivity.
             ++ intros i Hi. cbn [length] in Hi. lia.
          -- assert (Hline : until_lf src <> []).
             { unfold src. cbn [until_lf]. rewrite Hl. discriminate. }
             pose proof (until_lf_prefix src (b :: r) Hpre) as Hlp.
             pose proof (until_lf_no_lf src) as Hnolf.
             assert (Hmid : forall k, seq_rest (lst ib) (b :: r) k = seq_rest MID (b :: r) k).
             { intros k. destruct ib; [|reflexivity]. cbn [andb] in Hbc, Hgt. unfold lst.
               destruct (k =? 0)%N eqn:Hk0.
               - apply N.eqb_eq in Hk0. subst k. now rewrite !seq_rest_0.
               - rewrite !(seq_rest_step _ b r k Hk0). rewrite Hl, Hbc, Hgt. reflexivity. }
             destruct (strip_cr (until_lf src)) as [|q piece'] eqn:Hsc.
             ++ pose proof (strip_cr_nil _ Hline Hsc) as Hcr.
                assert (Hb : b = CR).
                { unfold src in Hcr. cbn [until_lf] in Hcr. rewrite Hl in Hcr. injection Hcr as Hb _. exact Hb. }
                subst b.
                assert (Hib : ib = false).
                { destruct ib; [|reflexivity]. cbn [andb] in Hbc. discriminate. }
                subst ib.
                assert (HR2 : repb (br_consume 1 st1) r m1).
                { change r with (skipn 1 (CR :: r)). apply (consume_k Rep st1 src); auto. unfold src. cbn [length]. lia. }
                destruct (IH false true _ r m1 HR2 ltac:(auto)
                            ltac:(unfold mu in *; cbn [length] in *; lia)) as [piece [s' [E HP]]].
                exists piece, s'. split; [exact E|]. apply Hred.
                apply (step_post_mono false false (CR :: r) m false true r m1);
                  [|unfold mu; cbn [length]; lia|exact HP].
                intros k Hk. rewrite rest_nopend. unfold rest, lst.
                assert (Hk0 : (k =? 0)%N = false) by lia. rewrite Hk0. reflexivity.
             ++ set (piece := q :: piece') in *.
                assert (Hplen : length piece <= length src).
                { rewrite <- Hsc. pose proof (strip_cr_length (until_lf src)).
                  pose proof (until_lf_length src). lia. }
                exists piece, (ib, false, st1). split; [reflexivity|]. apply Hred. split.
                ** intros H. discriminate.
                ** intros i Hi.
                   exists false, false, (br_consume i st1), (skipn i (b :: r)), m1.
                   split; [destruct i; [lia|reflexivity]|].
                   split; [apply (consume_k Rep st1 src); auto; lia|].
                   split; [intros H; discriminate|]. split.
                   --- intros k Hk. rewrite !rest_nopend. rewrite Hmid. unfold lst.
                       apply (mid_rest (until_lf src) (b :: r) Hlp Hnolf); [rewrite Hsc; lia|exact Hk].
                   --- unfold mu. rewrite skipn_length. cbn [length]. lia.
  Qed.

  (* read_sequence_limit stops with exactly [rest] unread, for every delivery *)
  Theorem read_sequence_limit_st_rest : forall fuel max ib p st d m acc,
    repb st d m -> (p = true -> ib = false) -> mu m d p < fuel ->
    exists bases ib' p' st' m',
      read_sequence_limit_st rd cap fuel max (ib, p, st) acc = (SOk, bases, (ib', p', st')) /\
      repb st' (rest ib p d (max - len acc)) m'.
  Proof.
    induction fuel as [|fuel IH]; intros max ib p st d m acc HR Hinv Hf; [lia|].
    cbn [read_sequence_limit_st].
    destruct (max <=? len acc)%N eqn:Hm.
    - exists acc, ib, p, st, m. split; [reflexivity|].
      replace (max - len acc)%N with 0%N by lia. unfold rest. cbn. exact HR.
    - destruct (step_rest (Datatypes.S fuel) ib p st d m HR Hinv Hf) as [piece [s' [E [H1 H2]]]].
      rewrite E. destruct piece as [|q piece'].
      + destruct (H1 eq_refl) as [ib' [p' [st' [d' [m' [Es [HR' Hr]]]]]]]. subst s'.
        exists acc, ib', p', st', m'. split; [reflexivity|]. rewrite Hr by lia. exact HR'.
      + cbv iota beta.
        set (piece := q :: piece') in *.
        set (i := if (len piece <=? max - len acc)%N then length piece
                  else N.to_nat (max - len acc)).
        assert (Hi : 1 <= i <= length piece).
        { unfold i, len in *. unfold piece. cbn [length].
          destruct (N.of_nat (Datatypes.S (length piece')) <=? max - N.of_nat (length acc))%N eqn:Hfit; lia. }
        destruct (H2 i Hi) as [ib2 [p2 [st2 [d2 [m2 [Ec [HR2 [Hi2 [Hr Hmu]]]]]]]]].
        rewrite Ec.
        destruct (IH max ib2 p2 st2 d2 m2 (acc ++ firstn i piece) HR2 Hi2 ltac:(lia))
          as [bases [ib' [p' [st' [m' [Ef HRf]]]]]].
        exists bases, ib', p', st', m'. split; [exact Ef|].
        assert (Hik : (N.of_nat i <= max - len acc)%N).
        { unfold i, len in *.
          destruct (N.of_nat (length piece) <=? max - N.of_nat (length acc))%N eqn:Hfit; lia. }
        rewrite (Hr (max - len acc)%N Hik).
        replace (max - len acc - N.of_nat i)%N with (max - len (acc ++ firstn i piece))%N; [exact HRf|].
        rewrite len_app. unfold len. rewrite firstn_length. lia.
  Qed.
End StepRest.

(* ---- Reader::query through BufReader over any scripted source: result and position ---- *)

Theorem query_delivered_pos_exact : forall chk cap f sc r s e pos, 1 <= cap ->
  let start0 := match s with Some p => (p - 1)%N | None => 0%N end in
  let st := match s with Some p => p | None => 1%N end in
  let en := match e with Some p => p | None => usize_max end in
  fai_query_gen chk r start0 = Some pos -> (st <= en)%N ->
  query_delivered_pos chk cap f sc r s e
  = (SOk, query_record chk f r s e, Some (query_pos_spec f pos (en - st + 1)%N)).
Proof.
  intros chk cap f sc r s e pos Hcap start0 st en Hq Hse.
  pose proof (query_any_delivery chk cap f sc r s e Hcap) as Hres.
  unfold query_delivered in Hres. unfold query_delivered_pos.
  fold start0 in Hres |- *. rewrite Hq in *. fold st en in Hres |- *.
  assert (Hlt : (en <? st)%N = false) by lia. rewrite Hlt in *.
  set (src := mkSource (seek f pos) sc) in *.
  destruct (read_sequence_limit_st_rest src_read rep_src src_simulates cap Hcap
              (s_fuel ([], src)) (en - st + 1)%N true false ([], src) (seek f pos) (n_interrupted sc) [])
    as [bases [ib' [p' [[b src'] [m' [E HR]]]]]].
  - exists (seek f pos). cbn [fst snd app]. split; [reflexivity|]. split; reflexivity.
  - intros H; discriminate.
  - unfold mu, s_fuel, b_fuel, src_fuel, src. cbn [fst snd s_data s_script length]. lia.
  - rewrite <- rsl_st_fst in Hres.
    match type of Hres with context [read_sequence_limit_st ?xa ?xb ?xc ?xd ?xe ?xg] =>
      replace (read_sequence_limit_st xa xb xc xd xe xg) with (SOk, bases, (ib', p', (b, src'))) in Hres
        by (symmetry; exact E) end.
    match goal with |- context [read_sequence_limit_st ?xa ?xb ?xc ?xd ?xe ?xg] =>
      replace (read_sequence_limit_st xa xb xc xd xe xg) with (SOk, bases, (ib', p', (b, src')))
        by (symmetry; exact E) end. cbn [fst] in Hres.
    injection Hres as Hres.
    f_equal; [f_equal; exact Hres|]. f_equal. unfold query_pos_spec.
    destruct HR as [d' [Hd [Hs _]]]. cbn [fst snd] in Hd, Hs.
    replace (en - st + 1 - len [])%N with (en - st + 1)%N in Hd by (unfold len; cbn [length]; lia).
    rewrite rest_nopend in Hd. unfold lst in Hd. rewrite Hd, Hs, len_app. lia.
Qed.

(* what the harness observes (kind qdp) is the closed form *)
Theorem index_and_query_delivered_pos_closed : forall cap f sc name s e, 1 <= cap ->
  index_and_query_delivered_pos cap f sc name s e
  = (SOk, fst (index_and_query_pos_closed f name s e), snd (index_and_query_pos_closed f name s e)).
Proof.
  intros cap f sc name s e Hcap. unfold index_and_query_delivered_pos, index_and_query_pos_closed.
  destruct (find_record _ name) as [r|]; [|reflexivity].
  destruct (fai_query_gen true r _) as [pos|] eqn:Hq.
  - destruct (_ <? _)%N eqn:Hlt.
    + unfold query_delivered_pos. rewrite Hq, Hlt. reflexivity.
    + rewrite (query_delivered_pos_exact true cap f sc r s e pos Hcap Hq) by lia. reflexivity.
  - unfold query_delivered_pos. rewrite Hq. reflexivity.
Qed.
