(* C11 — random access with the async reader (seek + read_sequence) returns the bases from the
   region start to the end of the record, for every tokio BufReader capacity >= 1 and every poll
   script.  C16's closed form of the async read_sequence loop (LinesProofs, read-only) + C11's
   query theorems. *)
From Coq Require Import List NArith Arith Bool Lia ZifyBool ZifyNat ZifyN.
From NV Require Import Io.Source Io.BufReader Io.FastaScan Io.FastaScanProofs.
From NV Require Import Async.ReadExact Async.Lines Async.LinesProofs.
From NV Require Import Fasta.Layout Fasta.LayoutProofs Fasta.Indexer Fasta.IndexerProofs
                       Fasta.Query Fasta.QueryProofs Fasta.Delivery Fasta.DeliveryProofs
                       Fasta.ViaFile Fasta.ViaFileProofs Fasta.AsyncQuery.
Import ListNotations.
Local Open Scope nat_scope.

(* closed form: C12's seq_spec of the bytes after the seek position *)
Theorem async_query_closed : forall chk cap codes f r s, 1 <= cap ->
  async_query chk cap codes f r s
  = match fai_query_gen chk r (match s with Some p => (p - 1)%N | None => 0%N end) with
    | None => (SOk, QErrInvalidInput)
    | Some pos => (SOk, QOk (seq_spec (seek f pos)))
    end.
Proof.
  intros chk cap codes f r s Hcap. unfold async_query.
  destruct (fai_query_gen chk r _) as [pos|]; [|reflexivity].
  destruct (async_fasta_sequence_closed fasta_bol_cr_fixed cap codes (seek f pos) Hcap) as [n [st' E]].
  rewrite E. f_equal. f_equal. unfold fasta_bol_cr_fixed. apply aseq_fixed_is_sync.
Qed.

(* the sync query with an open end is the async result cut at usize::MAX - start + 1 bases *)
Theorem async_query_vs_sync : forall chk cap codes f r s, 1 <= cap ->
  query_record chk f r s None
  = match async_query chk cap codes f r s with
    | (_, QOk b) =>
        QOk (firstn (N.to_nat (usize_max - (match s with Some p => p | None => 1%N end) + 1)) b)
    | (_, x) => x
    end \/
  query_record chk f r s None = QPanic.
Proof.
  intros chk cap codes f r s Hcap. rewrite async_query_closed by exact Hcap. unfold query_record.
  destruct (fai_query_gen chk r _) as [pos|]; [|now left].
  destruct (_ <? _)%N; [now right|]. left. f_equal. apply rsl_lines_seq_spec.
Qed.

Lemma seq_out_length : forall d st, length (seq_out st d) <= length d.
Proof.
  induction d as [|x r IH]; intros st; [cbn; lia|].
  cbn [seq_out length].
  destruct (N.eqb x BufReader.LF); [specialize (IH BOL); lia|].
  destruct st.
  - destruct (N.eqb x BufReader.CR); [specialize (IH BOL); lia|].
    destruct (N.eqb x FastaScan.GT); [cbn; lia|]. cbn [length]. specialize (IH MID). lia.
  - destruct (N.eqb x BufReader.CR).
    + destruct r as [|y r']; [cbn; lia|].
      destruct (N.eqb y BufReader.LF); [specialize (IH MID); lia|].
      cbn [length]. specialize (IH MID). cbn [length] in IH. lia.
    + cbn [length]. specialize (IH MID). lia.
Qed.

(* exactness, for files shorter than 2^63 bytes (every Rust allocation is) *)
Theorem async_query_exact : forall f recs err r chk s cap codes,
  index_file f = (recs, err) -> In r recs -> 1 <= cap -> (len f < 2 ^ 63)%N ->
  exists body, record_lines f r body /\
    let B := naive_bases body in
    let st := match s with Some p => p | None => 1%N end in
    heads_ok body ->
    nth (N.to_nat (st - 1)) B 0%N <> CR -> nth (N.to_nat (st - 1)) B 0%N <> GT ->
    (1 <= st)%N -> (st <= f_len r)%N ->
    async_query chk cap codes f r s = (SOk, QOk (skipn (N.to_nat (st - 1)) B)).
Proof.
  intros f recs err r chk s cap codes H Hin Hcap Hsz.
  destruct (query_exact_gen f recs err r chk s None H Hin) as [body [Hb Hq]].
  exists body. split; [exact Hb|]. cbv zeta in *. intros Hh H1 H2 H3 H4.
  assert (H5 : ((match s with Some p => p | None => 1 end) <= usize_max)%N).
  { destruct (fai_bounds _ _ _ _ H Hin) as [Hb1 _]. unfold usize_max.
    change (2 ^ 63)%N with 9223372036854775808%N in Hsz. lia. }
  specialize (Hq Hh H1 H2 H3 H4 H5).
  rewrite async_query_closed by exact Hcap.
  unfold query_record in Hq.
  destruct (fai_query_gen chk r _) as [pos|]; [|discriminate].
  destruct (_ <? _)%N eqn:El; [discriminate|].
  injection Hq as Hq. rewrite rsl_lines_seq_spec in Hq.
  f_equal. f_equal.
  set (M := (usize_max - (match s with Some p => p | None => 1 end) + 1)%N) in *.
  destruct (fai_bounds _ _ _ _ H Hin) as [Hb1 _].
  assert (HM : (2 ^ 63 <= M)%N).
  { unfold M, usize_max. change (2 ^ 63)%N with 9223372036854775808%N in *. lia. }
  destruct (record_lines_of _ _ _ Hb) as [pre [d [body' [off' [rest [Hl [HR [HB _]]]]]]]].
  destruct (index_record_spec _ _ _ _ _ _ HR) as [_ [_ [_ [Hlen _]]]].
  rewrite <- HB in Hlen.
  change (2 ^ 63)%N with 9223372036854775808%N in *.
  rewrite firstn_all2 in Hq.
  2:{ pose proof (seq_out_length (seek f pos) BOL) as Hs. unfold seq_spec.
      assert (length (seek f pos) <= length f) by (rewrite seek_skipn, skipn_length; lia).
      unfold len in *. lia. }
  rewrite firstn_all2 in Hq.
  2:{ rewrite skipn_length. unfold len in *. lia. }
  exact Hq.
Qed.
