(* C11 — the region query on a BGZF-compressed FASTA with ANY gzi index, and the virtual position
   the BGZF reader reports afterwards.

     noodles-bgzf/src/gzi/index.rs     Index::query: slice::partition_point (the binary search of
                                       core::slice, modelled exactly by C02's NV.Bgzf.GziBs), the
                                       entry before the partition point, u16::try_from(pos - u),
                                       VirtualPosition::try_from
     noodles-bgzf/src/io/reader.rs     seek_by_uncompressed_position = query + seek
     noodles-bgzf/src/io/indexed_reader.rs  virtual_position() = that of the inner reader
     noodles-fasta/src/io/reader.rs    query

   Differences from NV.Fasta.Bgzip.query_bgzf: (1) the gzi lookup is GziBs.gzi_query_bs, so the
   model is the implementation on unsorted / hostile indexes too; (2) the state of the reader after
   the query is kept, the queries of one case run one after the other on the same reader (as in the
   harness), and the virtual position is reported after each.

   The FASTA scanner is C12's, written over "buffer + inner reader" (see Bgzip.v): in the model one
   inner read hands the whole rest of the block window to the buffer and moves the block cursor to
   the end of the block; the real sequence reader consumes from the window directly.  The real
   cursor is therefore the model's cursor minus what is still in the buffer: [bz_unread]. *)
From Coq Require Import List NArith Arith Bool.
From NV Require Import Io.Source Io.BufReader Io.FastaScan Io.FastaIndex.
From NV Require Import Fasta.Layout Fasta.Indexer Fasta.Query Fasta.Delivery Fasta.Bgzip.
From NV Require Bgzf.Vpos Bgzf.Gzi Bgzf.ReaderOps Bgzf.FlatRef Bgzf.GziBs.
Import ListNotations.
Local Open Scope nat_scope.

(* read_sequence_limit (NV.Fasta.Delivery) returning the reader state it stops in *)
Section LimitSt.
  Context {St : Type}.
  Variable rd : reader St.
  Variable cap : nat.

  Fixpoint read_sequence_limit_st (fuel : nat) (max : N) (s : sstate St) (acc : list N) {struct fuel}
    : sres * list N * sstate St :=
    if (max <=? len acc)%N then (SOk, acc, s)
    else
      match fuel with
      | 0 => (SNoFuel, acc, s)
      | S fuel' =>
          let '(ib, p, st) := s in
          match seq_fill_buf rd cap (S fuel') ib p st with
          | (SOk, [], s') => (SOk, acc, s')
          | (SOk, piece, s') =>
              let i := if (len piece <=? max - len acc)%N then length piece
                       else N.to_nat (max - len acc) in
              read_sequence_limit_st fuel' max (seq_consume i s') (acc ++ firstn i piece)
          | (e, _, s') => (e, acc, s')
          end
      end.
End LimitSt.

(* the block cursor moved back over the k bytes the scanner has not consumed yet *)
Definition bz_unread (st : ReaderOps.state) (k : N) : ReaderOps.state :=
  ReaderOps.mkState (ReaderOps.rest st) (ReaderOps.position st) (ReaderOps.bpos st) (ReaderOps.bsize st)
                    (ReaderOps.blen st) (ReaderOps.cur st - k)%N (ReaderOps.buf st).

(* Reader::query after the name lookup on bgzf::io::IndexedReader in state st0 with gzi index idx:
   the result and the state of the BGZF reader afterwards *)
Definition query_bgzf_any (chk : bool) (F : ReaderOps.file) (idx : Gzi.gzi_index) (st0 : ReaderOps.state)
           (r : fai) (s e : option N) : zres * ReaderOps.state :=
  let start0 := match s with Some p => (p - 1)%N | None => 0%N end in
  match fai_query_gen chk r start0 with
  | None => (ZOk QErrInvalidInput, st0)
  | Some pos =>
      match GziBs.seek_by_uncompressed_position_bs true F idx st0 pos with
      | (st1, Vpos.Ok _) =>
          let st := match s with Some p => p | None => 1%N end in
          let en := match e with Some p => p | None => usize_max end in
          if (en <? st)%N then (ZOk QPanic, st1)
          else
            match read_sequence_limit_st bz_read BZ_CAP (bz_fuel F) (en - st + 1)%N
                    (true, false, ([], st1)) [] with
            | (SOk, bases, (_, _, (b, st2))) => (ZOk (QOk bases), bz_unread st2 (len b))
            | (SNoFuel, _, (_, _, (b, st2))) => (ZNoFuel, bz_unread st2 (len b))
            end
      | (st1, Vpos.Err x) => (ZErr x, st1)
      | (st1, Vpos.Panic) => (ZPanic, st1)
      | (st1, Vpos.OutOfFuel) => (ZNoFuel, st1)
      | (st1, Vpos.Unmodelled) => (ZUnmodelled, st1)
      end
  end.

(* the queries of one case, one after the other on the same reader; after each, the virtual
   position bgzf::io::IndexedReader::virtual_position() reports *)
Fixpoint queries_bgzf_any (F : ReaderOps.file) (idx : Gzi.gzi_index) (fai_recs : list fai)
         (st : ReaderOps.state) (qs : list (list N * (option N * option N)))
  : list (zres * Vpos.res N) :=
  match qs with
  | [] => []
  | q :: rest =>
      let '(z, st') := match find_record fai_recs (fst q) with
                       | None => (ZOk QErrInvalidInput, st)
                       | Some r => query_bgzf_any true F idx st r (fst (snd q)) (snd (snd q))
                       end in
      (z, ReaderOps.virtual_position st') :: queries_bgzf_any F idx fai_recs st' rest
  end.

(* the prior calls run over the exact gzi lookup as well *)
Fixpoint run_state_bs (F : ReaderOps.file) (idx : Gzi.gzi_index) (st : ReaderOps.state)
         (ops : list ReaderOps.op) : ReaderOps.state :=
  match ops with
  | [] => st
  | o :: r => run_state_bs F idx (fst (GziBs.step_bs true F idx st o)) r
  end.

(* what the harness observes (kind qy) *)
Definition index_and_query_bgzf_any (F : ReaderOps.file) (idx : Gzi.gzi_index) (prior : list ReaderOps.op)
           (qs : list (list N * (option N * option N))) : list (zres * Vpos.res N) :=
  queries_bgzf_any F idx (fst (index_bgzf F)) (run_state_bs F idx (ReaderOps.init F) prior) qs.

(* ---- which gzi indexes are correct for a file ----

   [gzi_lands F idx p]: the entry the binary search selects for uncompressed offset p names (by its
   compressed offset) the block that holds byte p, and (by its uncompressed offset) where that
   block's data starts.  An index is correct for F when this holds for every byte of the text.
   The index of the file (one entry per block but the first) is correct; so is that index without
   the entries of empty blocks (htslib writes no entry for the EOF block), or with only some of
   them (BgzipGziProofs). *)
Definition gzi_lands (F : ReaderOps.file) (idx : Gzi.gzi_index) (p : N) : Prop :=
  exists pre b post,
    F = pre ++ b :: post /\
    GziBs.gzi_entry_bs idx p = (FlatRef.total_csize pre, FlatRef.total_dlen pre) /\
    (FlatRef.total_dlen pre <= p)%N /\ (p < FlatRef.total_dlen pre + ReaderOps.flen b)%N.

Definition gzi_correct (F : ReaderOps.file) (idx : Gzi.gzi_index) : Prop :=
  forall p, (p < len (bz_text F))%N -> gzi_lands F idx p.

(* a structural sufficient condition: idx is the file's index with entries of EMPTY blocks left out *)
Fixpoint gzi_entries_keep (keep : list bool) (fs : list ReaderOps.frame) (c d : N) : Gzi.gzi_index :=
  match fs with
  | [] => []
  | b :: r =>
      let tl := gzi_entries_keep (tl keep) r (c + ReaderOps.csize b)%N (d + ReaderOps.flen b)%N in
      if (0 <? ReaderOps.flen b)%N || hd true keep then (c, d) :: tl else tl
  end.

(* keep.(k) says whether the entry of the (k+1)-th block is kept when that block is empty *)
Definition gzi_sparse_of (keep : list bool) (F : ReaderOps.file) : Gzi.gzi_index :=
  match F with
  | [] => []
  | b :: r => gzi_entries_keep keep r (ReaderOps.csize b) (ReaderOps.flen b)
  end.
