(* C11 — a region query on a BGZF-compressed FASTA with a gzi index:
     noodles-fasta/src/io/indexed_reader.rs           IndexedReader::query = Reader::query
     noodles-fasta/src/io/indexed_reader/builder.rs   ".gz" / ".bgz": bgzf::io::IndexedReader (+ .gzi)
     noodles-fasta/src/io/reader.rs                   query: index.query(region)?; seek(SeekFrom::Start(pos))?;
                                                      end - start + 1; read_sequence_limit
     noodles-bgzf/src/io/indexed_reader.rs            Seek::seek(Start(pos)) = inner.seek_by_uncompressed_position(&gzi, pos)
                                                      BufRead::{fill_buf, consume} = those of bgzf::io::Reader

   The BGZF side is C02's state machine NV.Bgzf.ReaderOps (read-only): [seek_by_uncompressed_position]
   (gzi query + Reader::seek of the repaired reader, fx = true), [fill_buf], [consume] over an already
   parsed file = list of frames {csize; fdata}.  The FASTA side is read_sequence_limit
   (NV.Fasta.Delivery) over C12's model of the sequence reader's fill_buf / consume (NV.Io.FastaScan).

   There is no std BufReader in this stack: sequence::Reader calls the BGZF reader's fill_buf /
   consume directly, and the window fill_buf hands out is the unread rest of the current block.
   C12's scanner is written over a "buffer + inner reader" pair (NV.Io.BufReader); the block window
   plays the role of that buffer: one inner read [bz_read] = ReaderOps.fill_buf (load the next
   non-empty block when the current one is exhausted), hand out the window, consume it.  The
   capacity is BGZF's maximal block data size, so a whole window always fits.  That the real
   reader's later fill_buf calls return the rest of that window after a partial consume is lemma
   [bz_window_rest] (BgzipProofs). *)
From Coq Require Import List NArith Arith Bool.
From NV Require Import Io.Source Io.BufReader Io.FastaScan Io.FastaIndex.
From NV Require Import Fasta.Layout Fasta.Indexer Fasta.Query Fasta.Delivery.
From NV Require Bgzf.Vpos Bgzf.Gzi Bgzf.ReaderOps.
Import ListNotations.


Definition BZ_CAP : nat := N.to_nat 65536.

(* fill_buf, copy at most n bytes of the window, consume them (for n < 65536 this is literally
   bgzf::io::Reader's Read::read).  as_ref's panic (cursor beyond the block length) is unreachable
   from states satisfying C02's invariant (BgzipProofs.bz_read_total). *)
Definition bz_read : reader ReaderOps.state := fun st n =>
  match ReaderOps.fill_buf st with
  | (st1, Vpos.Ok w) => let out := firstn n w in (ROk out, ReaderOps.consume st1 (ReaderOps.len out))
  | (st1, _) => (ROk [], st1)
  end.

Inductive zres : Type :=
| ZOk (q : qres)          (* what the query on a plain file can also return *)
| ZErr (e : Vpos.err)     (* the seek failed: gzi::Index::query -> InvalidData *)
| ZPanic
| ZNoFuel                 (* never: BgzipProofs.query_bgzf_flat *)
| ZUnmodelled.            (* the gzi entry does not name a block start (outside C02's model) *)

Definition bz_fuel (F : ReaderOps.file) : nat := S (S (2 * length (concat (map ReaderOps.fdata F)))).

(* Reader::query after the name lookup, on bgzf::io::IndexedReader in state st0 with gzi index idx *)
Definition query_bgzf (chk : bool) (F : ReaderOps.file) (idx : Gzi.gzi_index) (st0 : ReaderOps.state)
           (r : fai) (s e : option N) : zres :=
  let start0 := match s with Some p => (p - 1)%N | None => 0%N end in
  match fai_query_gen chk r start0 with
  | None => ZOk QErrInvalidInput
  | Some pos =>
      match ReaderOps.seek_by_uncompressed_position true F idx st0 pos with
      | (st1, Vpos.Ok _) =>
          let st := match s with Some p => p | None => 1%N end in
          let en := match e with Some p => p | None => usize_max end in
          if (en <? st)%N then ZOk QPanic
          else
            match read_sequence_limit bz_read BZ_CAP (bz_fuel F) (en - st + 1)%N
                    (true, false, ([], st1)) [] with
            | (SOk, bases) => ZOk (QOk bases)
            | (SNoFuel, _) => ZNoFuel
            end
      | (_, Vpos.Err x) => ZErr x
      | (_, Vpos.Panic) => ZPanic
      | (_, Vpos.OutOfFuel) => ZNoFuel
      | (_, Vpos.Unmodelled) => ZUnmodelled
      end
  end.

(* the uncompressed text of a parsed BGZF file *)
Definition bz_text (F : ReaderOps.file) : list N := concat (map ReaderOps.fdata F).

(* Indexing a bgzipped FASTA: fasta::io::Indexer (fs::index's loop) reading THROUGH
   bgzf::io::Reader, whose fill_buf windows end at block boundaries: C12's model of the whole
   indexer over a delivered source (NV.Io.FastaIndex.d_index_loop, read-only) on [bz_read] from the
   initial reader state.  Fuel: as many records as lines, as many lines as bytes. *)
Definition index_bgzf (F : ReaderOps.file) : list fai * option ierr :=
  fst (d_index_loop bz_read BZ_CAP (S (length (lines (bz_text F)))) (S (length (bz_text F)))
         (bz_fuel F) ([], ReaderOps.init F) 0%N).

(* What the harness observes: the fai index is built by the indexer reading through the BGZF
   reader; the BGZF reader used for the queries has first gone through the history [prior] (seeks
   by uncompressed offset, reads, fill_buf / consume ...: C02's op language), then every region is
   queried on a reader in that state. *)
Definition index_and_query_bgzf (F : ReaderOps.file) (idx : Gzi.gzi_index) (prior : list ReaderOps.op)
           (qs : list (list N * (option N * option N))) : list zres :=
  let fai := fst (index_bgzf F) in
  let st0 := ReaderOps.run_state true F idx (ReaderOps.init F) prior in
  map (fun q => match find_record fai (fst q) with
                | None => ZOk QErrInvalidInput
                | Some r => query_bgzf true F idx st0 r (fst (snd q)) (snd (snd q))
                end) qs.
