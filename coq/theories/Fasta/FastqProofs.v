(* C11 — FASTQ: records written by the writer model are read back unchanged by the reader model
   (for every content of the fields that has no LF and no CR just before a line end; '@' and '+'
   anywhere), and the indexer model locates the sequence and the quality line. *)
From Coq Require Import List NArith Arith Bool Lia ZifyBool ZifyNat ZifyN.
From NV Require Import Fasta.Layout Fasta.LayoutProofs Fasta.WriterProofs Fasta.Fastq.
Import ListNotations.
Open Scope N_scope.

Arguments N.add : simpl never.
Arguments N.sub : simpl never.

Definition delim (b : N) : bool := (b =? SP) || (b =? HT) || (b =? LF).

(* The exact shape of a record that survives the round trip:
   - the name has no SP / HT / LF (it would end the name) and, when there is no description, does
     not end with CR (the CR of a CRLF name line is popped);
   - description, sequence and quality string have no LF and do not end with CR.
   Nothing is required about '@' or '+'; the sequence and the quality string may differ in length
   and may be empty; the name may be empty. *)
Definition qrec_ok (r : qrec) : Prop :=
  Forall (fun b => delim b = false) (q_name r) /\
  (q_desc r = [] -> ends_with CR (q_name r) = false) /\
  nolf (q_desc r) /\ ends_with CR (q_desc r) = false /\
  nolf (q_seq r) /\ ends_with CR (q_seq r) = false /\
  nolf (q_qual r) /\ ends_with CR (q_qual r) = false.

Lemma take_line_app : forall x t, nolf x -> take_line (x ++ LF :: t) = (x ++ [LF], t).
Proof.
  induction x as [|b x IH]; intros t Hx.
  - reflexivity.
  - cbn [app take_line]. destruct (b =? LF) eqn:Eb.
    + apply N.eqb_eq in Eb. exfalso. apply Hx. left. now symmetry.
    + rewrite IH; [reflexivity|]. intros H. apply Hx. now right.
Qed.

Lemma def_content_line : forall x, ends_with CR x = false -> def_content (x ++ [LF]) = x.
Proof.
  intros x H. unfold def_content. rewrite ends_with_snoc. change (LF =? LF) with true. cbv iota.
  rewrite strip_last_snoc. now apply strip_last_noend.
Qed.

Lemma read_line_app : forall x t, nolf x -> ends_with CR x = false ->
  read_line (x ++ LF :: t) = (x, t).
Proof.
  intros x t Hx Hc. unfold read_line. rewrite take_line_app by exact Hx.
  now rewrite def_content_line.
Qed.

Lemma scan_name_app : forall n d t, Forall (fun b => delim b = false) n -> delim d = true ->
  scan_name (n ++ d :: t) = (n, Some d, t).
Proof.
  induction 1 as [|b n Hb F IH]; intros Hd.
  - cbn [app scan_name]. unfold delim in Hd. now rewrite Hd.
  - cbn [app scan_name]. unfold delim in Hb. rewrite Hb. now rewrite IH.
Qed.

Lemma write_qrec_app : forall sep n d s q tail,
  write_qrec sep (mkqrec n d s q) ++ tail
  = AT :: n ++ (match d with [] => [] | _ :: _ => sep :: d end)
       ++ LF :: s ++ LF :: PLUS :: LF :: q ++ LF :: tail.
Proof.
  intros. unfold write_qrec. cbn [q_name q_desc q_seq q_qual app].
  rewrite <- !app_assoc. cbn [app]. rewrite <- !app_assoc. cbn [app].
  rewrite <- !app_assoc. reflexivity.
Qed.

Lemma read_definition_written : forall sep n d R,
  sep = SP \/ sep = HT ->
  Forall (fun b => delim b = false) n -> (d = [] -> ends_with CR n = false) ->
  nolf d -> ends_with CR d = false ->
  read_definition (AT :: n ++ (match d with [] => [] | _ :: _ => sep :: d end) ++ LF :: R)
  = inr (Some (n, d, R)).
Proof.
  intros sep n d R Hsep Hn Hnc Hd Hdc. unfold read_definition.
  change (AT =? AT) with true. cbn [negb].
  destruct d as [|a d'].
  - cbn [app]. rewrite scan_name_app by (assumption || reflexivity).
    change (LF =? LF) with true. cbv iota.
    now rewrite strip_last_noend by now apply Hnc.
  - change ((sep :: a :: d') ++ LF :: R) with (sep :: (a :: d') ++ LF :: R).
    assert (Hds : delim sep = true) by (destruct Hsep; subst sep; reflexivity).
    rewrite scan_name_app by assumption.
    replace (sep =? LF) with false by (destruct Hsep; subst sep; reflexivity).
    now rewrite read_line_app.
Qed.

Lemma read_qrec_written : forall sep r tail, sep = SP \/ sep = HT -> qrec_ok r ->
  read_qrec (write_qrec sep r ++ tail) = inr (Some (r, tail)).
Proof.
  intros sep [n d s q] tail Hsep [Hn [Hnc [Hd [Hdc [Hs [Hsc [Hq Hqc]]]]]]].
  cbn [q_name q_desc q_seq q_qual] in *.
  rewrite write_qrec_app. unfold read_qrec.
  rewrite read_definition_written by assumption.
  rewrite read_line_app by assumption.
  unfold consume_plus_line. change (PLUS =? PLUS) with true. cbv iota.
  cbn [take_line]. change (LF =? LF) with true. cbv iota. cbn [snd].
  now rewrite read_line_app.
Qed.

Lemma read_qrecs_written : forall sep recs fuel, sep = SP \/ sep = HT -> Forall qrec_ok recs ->
  (length recs < fuel)%nat -> read_qrecs fuel (write_qfile sep recs) = (recs, None).
Proof.
  intros sep recs fuel Hsep H. revert fuel.
  induction H as [|r rs Hr F IH]; intros fuel Hf.
  - destruct fuel; [lia|reflexivity].
  - destruct fuel as [|fuel]; [lia|]. cbn [length] in Hf.
    unfold write_qfile in *. cbn [map concat read_qrecs].
    rewrite read_qrec_written by assumption. rewrite IH by lia. reflexivity.
Qed.

Lemma write_qfile_length : forall sep recs, (length recs <= length (write_qfile sep recs))%nat.
Proof.
  induction recs as [|r rs IH]; [cbn; lia|].
  unfold write_qfile in *. cbn [map concat]. rewrite app_length.
  unfold write_qrec at 1. cbn [length]. lia.
Qed.

Lemma fastq_roundtrip : forall sep recs, sep = SP \/ sep = HT -> Forall qrec_ok recs ->
  read_qfile (write_qfile sep recs) = (recs, None).
Proof.
  intros sep recs Hsep H. unfold read_qfile. apply read_qrecs_written; try assumption.
  pose proof (write_qfile_length sep recs). lia.
Qed.

(* fields without LF and CR are fine whatever else they contain *)
Lemma no_cr_end : forall l, ~ In CR l -> ends_with CR l = false.
Proof.
  intros l H. destruct (ends_with CR l) eqn:E; [|reflexivity]. exfalso. apply H. now apply ends_with_in.
Qed.

Lemma plain_qrec_ok : forall r,
  Forall (fun b => delim b = false) (q_name r) -> ~ In CR (q_name r) ->
  ~ In LF (q_desc r) -> ~ In CR (q_desc r) ->
  ~ In LF (q_seq r) -> ~ In CR (q_seq r) ->
  ~ In LF (q_qual r) -> ~ In CR (q_qual r) -> qrec_ok r.
Proof.
  intros r Hn Hnc Hd Hdc Hs Hsc Hq Hqc. unfold qrec_ok.
  repeat split; try assumption; try (now apply no_cr_end). intros _. now apply no_cr_end.
Qed.

(* ---- indexer ---- *)

Lemma rtrim_ws_snoc_lf : forall s, rtrim_ws (s ++ [LF]) = rtrim_ws s.
Proof. intros s. unfold rtrim_ws. rewrite rev_unit. reflexivity. Qed.

(* the definition line as written *)
Definition qdef_line (sep : N) (r : qrec) : list N :=
  AT :: q_name r ++ (match q_desc r with [] => [] | _ :: _ => sep :: q_desc r end) ++ [LF].

Definition qfai_of (sep : N) (r : qrec) (off : N) : qfai :=
  let so := off + len (qdef_line sep r) in
  mkqfai (q_name r) (len (q_seq r)) so (len (q_seq r)) (len (q_seq r) + 1)
         (so + (len (q_seq r) + 1) + 2).

Lemma index_qrec_written : forall sep r tail off, sep = SP \/ sep = HT -> qrec_ok r ->
  utf8_valid (q_name r) = true -> rtrim_ws (q_seq r) = q_seq r ->
  index_qrec (write_qrec sep r ++ tail) off
  = inr (Some (qfai_of sep r off, off + len (write_qrec sep r), tail)).
Proof.
  intros sep [n d s q] tail off Hsep [Hn [Hnc [Hd [Hdc [Hs [Hsc [Hq Hqc]]]]]]] Hu Ht.
  cbn [q_name q_desc q_seq q_qual] in *.
  rewrite write_qrec_app.
  assert (Elen : len (AT :: n ++ (match d with [] => [] | _ :: _ => sep :: d end)
                         ++ LF :: s ++ LF :: PLUS :: LF :: q ++ LF :: tail)
                 - len (s ++ LF :: PLUS :: LF :: q ++ LF :: tail)
                 = len (qdef_line sep (mkqrec n d s q))).
  { unfold qdef_line. cbn [q_name q_desc].
    repeat (rewrite len_app || rewrite len_cons). rewrite len_nil. lia. }
  unfold index_qrec.
  rewrite read_definition_written by assumption. rewrite Elen, Hu.
  rewrite take_line_app by exact Hs.
  change (PLUS :: LF :: q ++ LF :: tail) with ([PLUS] ++ LF :: q ++ LF :: tail).
  rewrite take_line_app by (intros [E|[]]; discriminate E).
  rewrite take_line_app by exact Hq.
  rewrite rtrim_ws_snoc_lf, Ht.
  unfold qfai_of. cbn [q_name q_seq].
  assert (Ew : len (write_qrec sep (mkqrec n d s q))
               = len (qdef_line sep (mkqrec n d s q)) + (len s + 1) + 2 + (len q + 1)).
  { unfold write_qrec, qdef_line. cbn [q_name q_desc q_seq q_qual].
    repeat (rewrite len_app || rewrite len_cons). rewrite !len_nil. lia. }
  rewrite Ew, !len_app. change (len [LF]) with 1. change (len [PLUS]) with 1.
  change (1 + 1) with 2. rewrite !N.add_assoc. reflexivity.
Qed.

Fixpoint expected_qindex (sep : N) (recs : list qrec) (off : N) : list qfai :=
  match recs with
  | [] => []
  | r :: rs => qfai_of sep r off :: expected_qindex sep rs (off + len (write_qrec sep r))
  end.

Definition qidx_ok (r : qrec) : Prop := utf8_valid (q_name r) = true /\ rtrim_ws (q_seq r) = q_seq r.

Lemma index_qrecs_written : forall sep recs fuel off, sep = SP \/ sep = HT ->
  Forall qrec_ok recs -> Forall qidx_ok recs -> (length recs < fuel)%nat ->
  index_qrecs fuel (write_qfile sep recs) off = (expected_qindex sep recs off, None).
Proof.
  intros sep recs fuel off Hsep H. revert fuel off.
  induction H as [|r rs Hr F IH]; intros fuel off Hi Hf.
  - destruct fuel; [lia|reflexivity].
  - destruct fuel as [|fuel]; [lia|]. cbn [length] in Hf.
    inversion Hi as [|r' rs' [Hu Ht] Hi']; subst.
    unfold write_qfile in *. cbn [map concat index_qrecs expected_qindex].
    rewrite index_qrec_written by assumption. rewrite IH by (assumption || lia). reflexivity.
Qed.

Lemma index_qfile_written : forall sep recs, sep = SP \/ sep = HT ->
  Forall qrec_ok recs -> Forall qidx_ok recs ->
  index_qfile (write_qfile sep recs) = (expected_qindex sep recs 0, None).
Proof.
  intros sep recs Hsep H Hi. unfold index_qfile. apply index_qrecs_written; try assumption.
  pose proof (write_qfile_length sep recs). lia.
Qed.

(* the offsets of the index record of pre ++ r :: post point at r's sequence and qualities *)
Lemma skipn_len_app : forall (a b : list N), skipn (N.to_nat (len a)) (a ++ b) = b.
Proof. intros a b. unfold len. rewrite Nat2N.id. apply skipn_length_app. Qed.

Lemma firstn_len_app : forall (a b : list N), firstn (N.to_nat (len a)) (a ++ b) = a.
Proof.
  intros a b. unfold len. rewrite Nat2N.id. rewrite firstn_app, Nat.sub_diag, firstn_all. cbn [firstn].
  apply app_nil_r.
Qed.

Lemma write_qfile_app : forall sep a b, write_qfile sep (a ++ b) = write_qfile sep a ++ write_qfile sep b.
Proof. intros. unfold write_qfile. now rewrite map_app, concat_app. Qed.

Lemma qoffsets_point : forall sep pre r post,
  let f := write_qfile sep (pre ++ r :: post) in
  let x := qfai_of sep r (len (write_qfile sep pre)) in
  firstn (N.to_nat (qf_len x)) (skipn (N.to_nat (qf_seq_off x)) f) = q_seq r /\
  firstn (length (q_qual r)) (skipn (N.to_nat (qf_qual_off x)) f) = q_qual r.
Proof.
  intros sep pre [n d s q] post f x. subst f x. unfold qfai_of. cbn [qf_len qf_seq_off qf_qual_off q_seq q_qual].
  rewrite write_qfile_app.
  change (write_qfile sep (mkqrec n d s q :: post))
    with (write_qrec sep (mkqrec n d s q) ++ write_qfile sep post).
  set (P := write_qfile sep pre). set (T := write_qfile sep post).
  set (D := qdef_line sep (mkqrec n d s q)).
  assert (E : write_qrec sep (mkqrec n d s q) ++ T = D ++ s ++ [LF] ++ [PLUS; LF] ++ q ++ LF :: T).
  { rewrite write_qrec_app. unfold D, qdef_line. cbn [q_name q_desc app].
    rewrite <- !app_assoc. reflexivity. }
  rewrite E. split.
  - replace (len P + len D) with (len (P ++ D)) by now rewrite len_app.
    rewrite app_assoc, skipn_len_app. apply firstn_len_app.
  - replace (len P + len D + (len s + 1) + 2) with (len (P ++ D ++ s ++ [LF] ++ [PLUS; LF]))
      by (rewrite !len_app; change (len [LF]) with 1; change (len [PLUS; LF]) with 2; lia).
    replace (P ++ D ++ s ++ [LF] ++ [PLUS; LF] ++ q ++ LF :: T)
      with ((P ++ D ++ s ++ [LF] ++ [PLUS; LF]) ++ q ++ LF :: T) by (now rewrite <- !app_assoc).
    rewrite skipn_len_app. rewrite firstn_app, Nat.sub_diag, firstn_all. cbn [firstn]. apply app_nil_r.
Qed.
