(* C11 — the EXACT stream position after a region query on an uncompressed FASTA read through
   std::io::BufReader over any source (wave 10).

     noodles-fasta/src/io/reader.rs           query: index.query, seek(Start(pos)), read_sequence_limit
     noodles-fasta/src/io/reader/sequence.rs  read_sequence_limit: while buf.len() < max { fill_buf; consume(i) }
     std::io::BufReader::stream_position      = position of the inner reader - bytes still buffered

   [seq_rest st d k] is the closed form on the flat data: the bytes of d that are still unread when
   read_sequence_limit, started in line state st in front of d, has stopped with k bases asked for.
   The loop stops (1) as soon as k bases are taken — no further fill_buf, so the line terminator
   behind the last base is NOT consumed; (2) at a '>' in first column (not consumed); (3) at the end
   of the data.  Line terminators and blank lines in front of a base that is taken are consumed, a
   CR in front of an LF is consumed with it, a CR just before the end of the data is consumed. *)
From Coq Require Import List NArith Arith Bool.
From NV Require Import Io.Source Io.BufReader Io.FastaScan Io.Run.
From NV Require Import Fasta.Layout Fasta.Indexer Fasta.Query Fasta.Delivery Fasta.BgzipGzi.
Import ListNotations.
Local Open Scope nat_scope.

Fixpoint seq_rest (st : lstate) (d : list N) (k : N) {struct d} : list N :=
  match d with
  | [] => []
  | x :: r =>
    if (k =? 0)%N then d
    else if N.eqb x BufReader.LF then seq_rest BOL r k
    else
      match st with
      | BOL => if N.eqb x BufReader.CR then seq_rest BOL r k
               else if N.eqb x FastaScan.GT then d
               else seq_rest MID r (N.pred k)
      | MID => if N.eqb x BufReader.CR then
                 match r with
                 | [] => []
                 | y :: _ => if N.eqb y BufReader.LF then seq_rest MID r k
                             else seq_rest MID r (N.pred k)
                 end
               else seq_rest MID r (N.pred k)
      end
  end.

(* the closed form of the position after Reader::query: file f, seek target pos, k bases asked for *)
Definition query_pos_spec (f : list N) (pos k : N) : N :=
  (len f - len (seq_rest BOL (seek f pos) k))%N.

(* Reader::query after the name lookup on a fresh fasta::io::Reader<BufReader<source>>, with
   BufReader::stream_position() afterwards (None: the call panicked, nothing is observed) *)
Definition query_delivered_pos (chk : bool) (cap : nat) (f : list N) (sc : list event) (r : fai)
           (s e : option N) : sres * qres * option N :=
  let start0 := match s with Some p => (p - 1)%N | None => 0%N end in
  match fai_query_gen chk r start0 with
  | None => (SOk, QErrInvalidInput, Some 0%N)
  | Some pos =>
      let st := match s with Some p => p | None => 1%N end in
      let en := match e with Some p => p | None => usize_max end in
      if (en <? st)%N then (SOk, QPanic, None)
      else
        let src := mkSource (seek f pos) sc in
        match read_sequence_limit_st src_read cap (s_fuel ([], src)) (en - st + 1)%N
                (true, false, ([], src)) [] with
        | (x, bases, (_, _, (b, src'))) =>
            (x, QOk bases, Some (len f - len b - len (s_data src'))%N)
        end
  end.

Definition index_and_query_delivered_pos (cap : nat) (f : list N) (sc : list event) (name : list N)
           (s e : option N) : sres * qres * option N :=
  match find_record (fst (index_file f)) name with
  | None => (SOk, QErrInvalidInput, Some 0%N)
  | Some r => query_delivered_pos true cap f sc r s e
  end.

(* the same observation computed from the closed forms only (what the theorem says it is) *)
Definition index_and_query_pos_closed (f : list N) (name : list N) (s e : option N) : qres * option N :=
  match find_record (fst (index_file f)) name with
  | None => (QErrInvalidInput, Some 0%N)
  | Some r =>
      let start0 := match s with Some p => (p - 1)%N | None => 0%N end in
      match fai_query_gen true r start0 with
      | None => (QErrInvalidInput, Some 0%N)
      | Some pos =>
          let st := match s with Some p => p | None => 1%N end in
          let en := match e with Some p => p | None => usize_max end in
          if (en <? st)%N then (QPanic, None)
          else (query_record true f r s e, Some (query_pos_spec f pos (en - st + 1)%N))
      end
  end.
