(* C11 — the index on disk.  fasta::fs::index builds the index, fai::fs::write writes it as a
   ".fai" text file, indexed_reader::Builder::build_from_path reads it back (fai::fs::read) and
   queries run against the index that was read.  The text form is C17's model
   NV.Index.TextIndex.{w_fai, read_fai} (noodles-fasta/src/fai/io/{writer,reader}.rs, read-only);
   this file only converts between C11's and C17's record types (same five fields) and composes. *)
From Coq Require Import List NArith Bool.
From NV Require Import Fasta.Layout Fasta.Indexer Fasta.Query.
From NV Require Index.TextIndex.
Import ListNotations.
Open Scope N_scope.

Definition to_text (r : fai) : TextIndex.fai_rec :=
  TextIndex.mkfai (f_name r) (f_len r) (f_pos r) (f_lb r) (f_lw r).

Definition of_text (t : TextIndex.fai_rec) : fai :=
  mkfai (TextIndex.f_name t) (TextIndex.f_len t) (TextIndex.f_pos t) (TextIndex.f_lb t) (TextIndex.f_lw t).

(* fai::io::Writer::write_index *)
Definition write_fai_file (idx : list fai) : list N := TextIndex.w_fai (map to_text idx).

(* fai::io::Reader::read_index; None = io::Error (InvalidData) *)
Definition read_fai_file (bs : list N) : option (list fai) :=
  option_map (map of_text) (TextIndex.read_fai bs).

(* index, write, read back *)
Definition index_via_file (f : list N) : option (list fai) :=
  read_fai_file (write_fai_file (fst (index_file f))).

Inductive vres : Type :=
| VOk (q : qres)
| VErrIndex.          (* the .fai file written for the index does not read back *)

(* index f, write the .fai, read it, query through the index read *)
Definition query_via_file (f : list N) (name : list N) (s e : option N) : vres :=
  match index_via_file f with
  | None => VErrIndex
  | Some idx => VOk (reader_query f idx name s e)
  end.

(* what the harness observes: the bytes of the .fai file, then one result per region *)
Definition via_file_many (f : list N) (qs : list (list N * (option N * option N)))
  : list N * list vres :=
  (write_fai_file (fst (index_file f)),
   map (fun q => query_via_file f (fst q) (fst (snd q)) (snd (snd q))) qs).
