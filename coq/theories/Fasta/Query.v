(* C11 — model of random access:
     fai/record.rs  Record::query      (byte offset of a 0-based start)
     fai/index.rs   Index::query       (first record with the region's name)
     io/reader.rs   Reader::query      (seek + read_sequence_limit of end-start+1 bases)
     io/reader/sequence.rs             (fill_buf: skip CR/LF runs, stop at '>' / EOF, one line
                                        minus a trailing CR; read_sequence_limit)
   The source after the seek is [skipn pos f]; as in Indexer.v the reader is line driven, so the
   model runs over [lines (skipn pos f)]. *)
From Coq Require Import List NArith Bool.
From NV Require Import Fasta.Layout Fasta.Indexer.
Import ListNotations.
Open Scope N_scope.

(* Record::query.  [chk] = false is the pinned code: no bound check on start.
   FIX SITE (finding fasta-query-start-beyond-length): the repair adds the test below to
   fai/record.rs::query, i.e. the repaired code is [fai_query_gen true]. *)
Definition fai_query_gen (chk : bool) (r : fai) (start0 : N) : option N :=
  if chk && (0 <? start0) && (f_len r <=? start0) then None   (* Err(InvalidInput) *)
  else Some (f_pos r + start0 / f_lb r * f_lw r + start0 mod f_lb r).

Definition fai_query := fai_query_gen true.

Fixpoint list_eqb (a b : list N) : bool :=
  match a, b with
  | [], [] => true
  | x :: a', y :: b' => (x =? y) && list_eqb a' b'
  | _, _ => false
  end.

Fixpoint find_record (idx : list fai) (name : list N) : option fai :=
  match idx with
  | [] => None
  | r :: rest => if list_eqb (f_name r) name then Some r else find_record rest name
  end.

(* consume_empty_lines: drops the maximal prefix of CR / LF bytes (within one raw line; the
   next raw line is handled by the next iteration of rsl_lines) *)
Fixpoint drop_crlf (l : list N) : list N :=
  match l with
  | [] => []
  | b :: t => if (b =? CR) || (b =? LF) then drop_crlf t else l
  end.

(* read_sequence_limit over the raw lines that follow the seek position; max = max_bases *)
Fixpoint rsl_lines (ls : list (list N)) (max : N) : list N :=
  match ls with
  | [] => []
  | l :: rest =>
      if max =? 0 then []
      else
        match drop_crlf l with
        | [] => rsl_lines rest max
        | (b :: _) as l' =>
            if b =? GT then []
            else
              let c := content l' in
              if max <=? len c then firstn (N.to_nat max) c
              else c ++ rsl_lines rest (max - len c)
        end
  end.

(* Seek(SeekFrom::Start(pos)) on an in-memory source, then the unread rest
   (= skipn pos f, QueryProofs.seek_skipn; the test avoids a unary pos beyond the file) *)
Definition seek (f : list N) (pos : N) : list N :=
  if len f <=? pos then [] else skipn (N.to_nat pos) f.

Definition usize_max : N := 18446744073709551615.

Inductive qres : Type :=
| QOk (bases : list N)
| QErrInvalidInput      (* unknown name, or (repaired code) start beyond the length *)
| QPanic.               (* end < start: `end - start + 1` overflows (debug / overflow-checks) *)

(* Reader::query after the name lookup; s, e are the 1-based optional bounds of the interval *)
Definition query_record (chk : bool) (f : list N) (r : fai) (s e : option N) : qres :=
  let start0 := match s with Some p => p - 1 | None => 0 end in
  match fai_query_gen chk r start0 with
  | None => QErrInvalidInput
  | Some pos =>
      let st := match s with Some p => p | None => 1 end in
      let en := match e with Some p => p | None => usize_max end in
      if en <? st then QPanic
      else QOk (rsl_lines (lines (seek f pos)) (en - st + 1))
  end.

(* Reader::query *)
Definition reader_query_gen (chk : bool) (f : list N) (idx : list fai) (name : list N)
           (s e : option N) : qres :=
  match find_record idx name with
  | None => QErrInvalidInput
  | Some r => query_record chk f r s e
  end.

Definition reader_query := reader_query_gen true.

(* index the file with the model indexer, then query (what the harness observes) *)
Definition index_and_query (f : list N) (name : list N) (s e : option N) : qres :=
  reader_query f (fst (index_file f)) name s e.

Definition index_and_query_many (f : list N) (qs : list (list N * (option N * option N)))
  : list qres :=
  let idx := fst (index_file f) in
  map (fun q => reader_query f idx (fst q) (fst (snd q)) (snd (snd q))) qs.
