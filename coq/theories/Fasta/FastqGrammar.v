(* C11 — the FASTQ dialect noodles-fastq reads, as a grammar.

   noodles reads FOUR-LINE records only (no wrapped sequences / qualities):

     file    ::= record*
     record  ::= '@' defline LF  seqline LF  '+' plusline LF  qualline LF      (a full record)
               | '@' defline LF  seqline LF  '+' plusline LF  qualline         (last record, no final LF)
               | '@' defline LF  seqline LF  '+' plusline                      (last record: the plus
                                                                                line ends the input,
                                                                                empty quality string)
     defline, seqline, plusline, qualline ::= any bytes except LF   (all may be empty; '@', '+', CR,
                                                                     SP anywhere)

   and the fields of the record are cut out of the four lines as follows ([fields_of]):
     name         defline up to its first SP / HT; when there is none, the whole line minus one
                  trailing CR
     description  what follows that SP / HT, minus one trailing CR (empty when there is none)
     sequence     seqline minus one trailing CR          quality      qualline minus one trailing CR
                  (for an unterminated last qualline a trailing CR is kept: read_line pops a CR only
                   after popping an LF)

   [fq_parses f recs] is that grammar as an inductive relation; [fq_accepts] is the decidable
   membership test.  FastqGrammarProofs: read_qfile f = (recs, None) <-> fq_parses f recs, and
   fq_accepts f = true <-> the reader reports no error. *)
From Coq Require Import List NArith Bool.
From NV Require Import Fasta.Layout Fasta.Fastq.
Import ListNotations.
Open Scope N_scope.

Definition lf_free (l : list N) : Prop := ~ In LF l.

(* name and description of a definition line (without its LF) *)
Fixpoint split_def (d : list N) : list N * option (list N) :=
  match d with
  | [] => ([], None)
  | b :: t =>
      if (b =? SP) || (b =? HT) then ([], Some t)
      else let '(n, o) := split_def t in (b :: n, o)
  end.

Definition fields_of (d sq ql : list N) (ql_terminated : bool) : qrec :=
  let '(n, o) := split_def d in
  mkqrec (match o with None => strip_last CR n | Some _ => n end)
         (match o with None => [] | Some x => strip_last CR x end)
         (strip_last CR sq)
         (if ql_terminated then strip_last CR ql else ql).

Inductive fq_parses : list N -> list qrec -> Prop :=
| fq_end : fq_parses [] []
| fq_full : forall d sq pl ql rest recs,
    lf_free d -> lf_free sq -> lf_free pl -> lf_free ql -> fq_parses rest recs ->
    fq_parses (AT :: d ++ LF :: sq ++ LF :: PLUS :: pl ++ LF :: ql ++ LF :: rest)
              (fields_of d sq ql true :: recs)
| fq_last_open_qual : forall d sq pl ql,
    lf_free d -> lf_free sq -> lf_free pl -> lf_free ql ->
    fq_parses (AT :: d ++ LF :: sq ++ LF :: PLUS :: pl ++ LF :: ql) [fields_of d sq ql false]
| fq_last_open_plus : forall d sq pl,
    lf_free d -> lf_free sq -> lf_free pl ->
    fq_parses (AT :: d ++ LF :: sq ++ LF :: PLUS :: pl) [fields_of d sq [] false].

(* ---- the decidable membership test: walks the four lines of each record ---- *)

(* the bytes after the first LF; None when there is no LF *)
Fixpoint after_lf (s : list N) : option (list N) :=
  match s with
  | [] => None
  | b :: t => if b =? LF then Some t else after_lf t
  end.

Fixpoint fq_accepts_fuel (fuel : nat) (s : list N) : bool :=
  match fuel with
  | O => false
  | S fuel' =>
      match s with
      | [] => true
      | b :: t =>
          (b =? AT) &&
          match after_lf t with                      (* definition line must end with LF *)
          | None => false
          | Some r1 =>
              match after_lf r1 with                 (* sequence line must end with LF *)
              | None => false
              | Some [] => false                     (* nothing where the plus line should be *)
              | Some (p :: r2) =>
                  (p =? PLUS) &&
                  match after_lf r2 with             (* plus line: LF or end of input *)
                  | None => true
                  | Some r3 =>
                      match after_lf r3 with         (* quality line: LF or end of input *)
                      | None => true
                      | Some r4 => fq_accepts_fuel fuel' r4
                      end
                  end
              end
          end
      end
  end.

Definition fq_accepts (f : list N) : bool := fq_accepts_fuel (S (length f)) f.
