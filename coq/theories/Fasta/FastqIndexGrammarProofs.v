(* C11 — the FASTQ indexer model accepts exactly the grammar of NV.Fasta.FastqIndexGrammar and
   returns exactly the index records the grammar assigns; [fqi_accepts] decides membership; the
   only error is InvalidData; every file of the reader's grammar (FastqGrammar.fq_parses) whose
   names are UTF-8 is in the indexer's grammar with the same names, and not conversely. *)
From Coq Require Import List NArith Arith Bool Lia ZifyBool ZifyNat ZifyN.
From NV Require Import Fasta.Layout Fasta.LayoutProofs Fasta.WriterProofs Fasta.Fastq Fasta.FastqProofs
                       Fasta.FastqGrammar Fasta.FastqGrammarProofs Fasta.FastqIndexGrammar.
Import ListNotations.
Open Scope N_scope.

Arguments N.add : simpl never.
Arguments N.sub : simpl never.

(* ---- one read_until(LF) ---- *)

Lemma lf_free_cons : forall b x, b <> LF -> lf_free x -> lf_free (b :: x).
Proof. intros b x Hb Hx [H|H]; [apply Hb; now symmetry|now apply Hx]. Qed.

Lemma cut_lf' : forall x r, lf_free x -> cut (x ++ LF :: r) (x ++ [LF]) r.
Proof.
  intros x r Hx. replace (x ++ LF :: r) with ((x ++ [LF]) ++ r) by (now rewrite <- app_assoc).
  now constructor.
Qed.

Lemma take_line_cut : forall s l r, take_line s = (l, r) <-> cut s l r.
Proof.
  intros s l r. split.
  - revert l r. induction s as [|b s IH]; intros l r H.
    + cbn [take_line] in H. injection H as <- <-. apply cut_eof. intros [].
    + cbn [take_line] in H. destruct (b =? LF) eqn:Eb.
      * apply N.eqb_eq in Eb. subst b. injection H as <- <-. apply (cut_lf [] s). intros [].
      * destruct (take_line s) as [l' r'] eqn:E. injection H as <- <-.
        assert (Hb : b <> LF) by lia.
        specialize (IH l' r' eq_refl). destruct IH as [x r0 Hx|s0 Hs].
        -- apply (cut_lf (b :: x) r0). now apply lf_free_cons.
        -- apply cut_eof. now apply lf_free_cons.
  - intros H. destruct H as [x r0 Hx|s0 Hs].
    + rewrite <- app_assoc. cbn [app]. now apply take_line_app.
    + now apply take_line_free.
Qed.

(* the declarative reading of [cut] *)
Lemma cut_spec : forall s l r, cut s l r <->
  (exists x, lf_free x /\ l = x ++ [LF] /\ s = l ++ r) \/ (lf_free s /\ l = s /\ r = []).
Proof.
  intros s l r. split.
  - intros H. destruct H as [x r0 Hx|s0 Hs].
    + left. exists x. repeat split. exact Hx.
    + right. repeat split. exact Hs.
  - intros [[x [Hx [Hl Hs]]]|[Hs [Hl Hr]]].
    + subst l. subst s. now constructor.
    + subst l. subst r. now constructor.
Qed.

Lemma cut_concat : forall s l r, cut s l r -> s = l ++ r.
Proof. intros s l r H. destruct H as [x r0 Hx|s0 Hs]; [reflexivity|now rewrite app_nil_r]. Qed.

Lemma take_line_concat : forall s l r, take_line s = (l, r) -> s = l ++ r.
Proof. intros s l r H. apply cut_concat. now apply take_line_cut. Qed.

Lemma take_line_length : forall s l r, take_line s = (l, r) -> (length r <= length s)%nat.
Proof. intros s l r H. rewrite (take_line_concat _ _ _ H), app_length. lia. Qed.

(* l is empty only when s is *)
Lemma cut_nonempty : forall s l r, cut s l r -> l = [] -> s = [].
Proof.
  intros s l r H E. destruct H as [x r0 Hx|s0 Hs]; [|exact E].
  destruct x; discriminate.
Qed.

(* the functions of the membership test *)
Lemma take_line_split : forall s, take_line s = (line_of s, skip_line s).
Proof.
  induction s as [|b s IH]; [reflexivity|].
  cbn [take_line line_of]. unfold skip_line in *. cbn [after_lf].
  destruct (b =? LF); [reflexivity|]. rewrite IH. reflexivity.
Qed.

(* ---- the definition line ---- *)

Lemma name_of_defline_lf : forall d, name_of_defline (d ++ [LF]) = q_name (fields_of d [] [] true).
Proof.
  intros d. unfold name_of_defline, fields_of. rewrite strip_last_snoc, ends_with_snoc.
  change (LF =? LF) with true. destruct (split_def d) as [n [x|]]; reflexivity.
Qed.

Lemma name_of_defline_open : forall d, lf_free d -> name_of_defline d = fst (split_def d).
Proof.
  intros d Hd. unfold name_of_defline. rewrite strip_last_notin by exact Hd.
  rewrite ends_with_free by exact Hd. destruct (split_def d) as [n [x|]]; reflexivity.
Qed.

Lemma fields_name : forall d sq ql b, q_name (fields_of d sq ql b) = name_of_defline (d ++ [LF]).
Proof. intros d sq ql b. rewrite name_of_defline_lf, (fields_of_parts d sq ql b). reflexivity. Qed.

Lemma scan_name_open : forall d, lf_free d -> exists dl r,
  scan_name d = (fst (split_def d), dl, r) /\ lf_free r /\
  match dl with Some c => c <> LF | None => r = [] end.
Proof.
  induction d as [|b d IH]; intros Hd.
  - exists None, []. repeat split. intros [].
  - assert (Hb : b <> LF) by (intros E; apply Hd; left; now symmetry).
    assert (Hd' : lf_free d) by (intros H; apply Hd; now right).
    cbn [scan_name split_def]. replace (b =? LF) with false by lia. rewrite orb_false_r.
    destruct ((b =? SP) || (b =? HT)) eqn:Es.
    + exists (Some b), d. repeat split; assumption.
    + destruct (IH Hd') as [dl [r [E [Hr Hdl]]]]. rewrite E.
      destruct (split_def d) as [n o]. cbn [fst].
      exists dl, r. repeat split; assumption.
Qed.

(* read_definition consumes the '@' and exactly the first line, and leaves [name_of_defline] *)
Lemma read_definition_cut : forall t dl r1, take_line t = (dl, r1) ->
  exists desc, read_definition (AT :: t) = inr (Some (name_of_defline dl, desc, r1)).
Proof.
  intros t dl r1 H. destruct (split_lf t) as [Ht|[x [rest [Hx Ht]]]].
  - rewrite take_line_free in H by exact Ht. injection H as <- <-.
    rewrite name_of_defline_open by exact Ht.
    unfold read_definition. change (negb (AT =? AT)) with false. cbv iota.
    destruct (scan_name_open t Ht) as [dl [r [E [Hr Hdl]]]]. rewrite E.
    destruct dl as [c|].
    + replace (c =? LF) with false by lia. rewrite read_line_free by exact Hr.
      eexists; reflexivity.
    + subst r. eexists; reflexivity.
  - subst t. rewrite take_line_app in H by exact Hx. injection H as <- <-.
    rewrite read_definition_line by exact Hx. rewrite name_of_defline_lf.
    eexists; reflexivity.
Qed.

(* ---- one record ---- *)

Lemma index_qrec_nil : forall off, index_qrec [] off = inr None.
Proof. reflexivity. Qed.

Lemma index_qrec_not_at : forall b t off, b <> AT -> index_qrec (b :: t) off = inl QInvalidData.
Proof.
  intros b t off Hb. unfold index_qrec, read_definition.
  replace (b =? AT) with false by lia. reflexivity.
Qed.

Lemma index_qrec_at : forall t off dl r1 l1 r2 l2 r3 l3 r4,
  take_line t = (dl, r1) -> take_line r1 = (l1, r2) ->
  take_line r2 = (l2, r3) -> take_line r3 = (l3, r4) ->
  index_qrec (AT :: t) off =
    if utf8_valid (name_of_defline dl) then
      inr (Some (mkqfai (name_of_defline dl) (len (rtrim_ws l1)) (off + 1 + len dl)
                        (len (rtrim_ws l1)) (len l1) (off + 1 + len dl + len l1 + len l2),
                 off + 1 + len dl + len l1 + len l2 + len l3, r4))
    else inl QInvalidData.
Proof.
  intros t off dl r1 l1 r2 l2 r3 l3 r4 H0 H1 H2 H3. unfold index_qrec.
  destruct (read_definition_cut _ _ _ H0) as [desc E]. rewrite E.
  rewrite H1, H2, H3.
  assert (Hoff : off + (len (AT :: t) - len r1) = off + 1 + len dl).
  { rewrite (take_line_concat _ _ _ H0). rewrite len_cons, len_app. lia. }
  rewrite Hoff. reflexivity.
Qed.

Lemma index_qrec_bad_name : forall t off dl r1, take_line t = (dl, r1) ->
  utf8_valid (name_of_defline dl) = false -> index_qrec (AT :: t) off = inl QInvalidData.
Proof.
  intros t off dl r1 H0 Hu.
  destruct (take_line r1) as [l1 r2] eqn:H1. destruct (take_line r2) as [l2 r3] eqn:H2.
  destruct (take_line r3) as [l3 r4] eqn:H3.
  rewrite (index_qrec_at _ off _ _ _ _ _ _ _ _ H0 H1 H2 H3), Hu. reflexivity.
Qed.

Lemma rest_length : forall t dl r1 l1 r2 l2 r3 l3 r4,
  take_line t = (dl, r1) -> take_line r1 = (l1, r2) ->
  take_line r2 = (l2, r3) -> take_line r3 = (l3, r4) ->
  (length r4 < length (AT :: t))%nat.
Proof.
  intros t dl r1 l1 r2 l2 r3 l3 r4 H0 H1 H2 H3.
  apply take_line_length in H0, H1, H2, H3. cbn [length]. lia.
Qed.

(* ---- the file: indexer result <-> grammar ---- *)

Theorem index_parses : forall fuel s off recs,
  index_qrecs fuel s off = (recs, None) -> fqi_parses s off recs.
Proof.
  induction fuel as [|fuel IH]; intros s off recs H; [discriminate|].
  cbn [index_qrecs] in H. destruct s as [|b t].
  - rewrite index_qrec_nil in H. injection H as <-. constructor.
  - destruct (N.eq_dec b AT) as [Eb|Eb].
    + subst b.
      destruct (take_line t) as [dl r1] eqn:H0. destruct (take_line r1) as [l1 r2] eqn:H1.
      destruct (take_line r2) as [l2 r3] eqn:H2. destruct (take_line r3) as [l3 r4] eqn:H3.
      rewrite (index_qrec_at _ off _ _ _ _ _ _ _ _ H0 H1 H2 H3) in H.
      destruct (utf8_valid (name_of_defline dl)) eqn:Eu; [|discriminate].
      match type of H with context [index_qrecs fuel ?X ?O] =>
        destruct (index_qrecs fuel X O) as [rs e] eqn:E end.
      injection H as <- ->.
      apply fqi_rec with (l3 := l3) (r1 := r1) (r2 := r2) (r3 := r3) (r4 := r4);
        try (now apply take_line_cut); [exact Eu|]. now apply IH.
    + rewrite index_qrec_not_at in H by exact Eb. discriminate.
Qed.

Theorem parses_index : forall s off recs, fqi_parses s off recs ->
  forall fuel, (length s < fuel)%nat -> index_qrecs fuel s off = (recs, None).
Proof.
  induction 1 as [off|off t dl l1 l2 l3 r1 r2 r3 r4 recs C0 C1 C2 C3 Eu Hr IH]; intros fuel Hf.
  - destruct fuel; [lia|]. reflexivity.
  - destruct fuel; [lia|]. cbn [index_qrecs].
    apply take_line_cut in C0, C1, C2, C3.
    rewrite (index_qrec_at _ off _ _ _ _ _ _ _ _ C0 C1 C2 C3), Eu.
    rewrite IH; [reflexivity|].
    pose proof (rest_length _ _ _ _ _ _ _ _ _ C0 C1 C2 C3). lia.
Qed.

Lemma indexer_accepts_grammar_fuel : forall fuel s off recs, (length s < fuel)%nat ->
  (index_qrecs fuel s off = (recs, None) <-> fqi_parses s off recs).
Proof.
  intros fuel s off recs Hf. split.
  - apply index_parses.
  - intros H. now apply parses_index.
Qed.

(* THE GRAMMAR THEOREM, both directions *)
Theorem indexer_accepts_grammar : forall f recs,
  index_qfile f = (recs, None) <-> fqi_parses f 0 recs.
Proof. intros f recs. unfold index_qfile. apply indexer_accepts_grammar_fuel. lia. Qed.

(* the grammar is unambiguous: the index is a function of the bytes (and of the start offset) *)
Theorem fqi_parses_functional : forall f off r1 r2,
  fqi_parses f off r1 -> fqi_parses f off r2 -> r1 = r2.
Proof.
  intros f off r1 r2 H1 H2.
  apply (parses_index _ _ _) with (fuel := S (length f)) in H1; [|lia].
  apply (parses_index _ _ _) with (fuel := S (length f)) in H2; [|lia].
  congruence.
Qed.

(* ---- the decidable test ---- *)

Lemma fqi_accepts_fuel_iff : forall fuel s off, (length s < fuel)%nat ->
  (fqi_accepts_fuel fuel s = true <-> snd (index_qrecs fuel s off) = None).
Proof.
  induction fuel as [|fuel IH]; intros s off Hf; [lia|].
  cbn [fqi_accepts_fuel index_qrecs]. destruct s as [|b t].
  - rewrite index_qrec_nil. cbn [snd]. tauto.
  - destruct (N.eq_dec b AT) as [Eb|Eb].
    + subst b.
      pose proof (take_line_split t) as H0.
      pose proof (take_line_split (skip_line t)) as H1.
      pose proof (take_line_split (skip_line (skip_line t))) as H2.
      pose proof (take_line_split (skip_line (skip_line (skip_line t)))) as H3.
      rewrite (index_qrec_at _ off _ _ _ _ _ _ _ _ H0 H1 H2 H3).
      change (AT =? AT) with true. cbn [andb].
      destruct (utf8_valid (name_of_defline (line_of t))) eqn:Eu; cbn [andb].
      * pose proof (rest_length _ _ _ _ _ _ _ _ _ H0 H1 H2 H3) as Hl.
        match goal with |- context [index_qrecs fuel ?X ?O] =>
          specialize (IH X O); destruct (index_qrecs fuel X O) as [rs e] end.
        cbn [snd] in *. apply IH. lia.
      * cbn [snd]. split; discriminate.
    + rewrite index_qrec_not_at by exact Eb. replace (b =? AT) with false by lia.
      cbn [andb snd]. split; discriminate.
Qed.

Theorem fqi_accepts_iff : forall f, fqi_accepts f = true <-> snd (index_qfile f) = None.
Proof. intros f. unfold fqi_accepts, index_qfile. apply fqi_accepts_fuel_iff. lia. Qed.

(* ... i.e. membership in the grammar *)
Theorem fqi_accepts_grammar : forall f, fqi_accepts f = true <-> exists recs, fqi_parses f 0 recs.
Proof.
  intros f. rewrite fqi_accepts_iff. split.
  - intros H. destruct (index_qfile f) as [recs e] eqn:E. cbn [snd] in H. subst e.
    exists recs. now apply indexer_accepts_grammar.
  - intros [recs H]. apply indexer_accepts_grammar in H. now rewrite H.
Qed.

(* the indexer model has one error only: InvalidData (first byte of a record not '@', or the name
   is not UTF-8); never out of fuel *)
Lemma index_err_invalid : forall fuel s off, (length s < fuel)%nat ->
  snd (index_qrecs fuel s off) = None \/ snd (index_qrecs fuel s off) = Some QInvalidData.
Proof.
  induction fuel as [|fuel IH]; intros s off Hf; [lia|].
  cbn [index_qrecs]. destruct s as [|b t].
  - rewrite index_qrec_nil. now left.
  - destruct (N.eq_dec b AT) as [Eb|Eb].
    + subst b.
      pose proof (take_line_split t) as H0.
      pose proof (take_line_split (skip_line t)) as H1.
      pose proof (take_line_split (skip_line (skip_line t))) as H2.
      pose proof (take_line_split (skip_line (skip_line (skip_line t)))) as H3.
      rewrite (index_qrec_at _ off _ _ _ _ _ _ _ _ H0 H1 H2 H3).
      destruct (utf8_valid (name_of_defline (line_of t))) eqn:Eu.
      * pose proof (rest_length _ _ _ _ _ _ _ _ _ H0 H1 H2 H3) as Hl.
        match goal with |- context [index_qrecs fuel ?X ?O] =>
          specialize (IH X O); destruct (index_qrecs fuel X O) as [rs e] end.
        cbn [snd] in *. apply IH. lia.
      * now right.
    + rewrite index_qrec_not_at by exact Eb. now right.
Qed.

Theorem fqi_rejects_with : forall f, fqi_accepts f = false ->
  snd (index_qfile f) = Some QInvalidData.
Proof.
  intros f H. assert (Hn : snd (index_qfile f) <> None).
  { intros E. apply fqi_accepts_iff in E. congruence. }
  unfold index_qfile in *.
  destruct (index_err_invalid (S (length f)) f 0) as [E|E]; [lia|contradiction|exact E].
Qed.

(* ---- the reader's grammar is inside the indexer's ---- *)

Lemma reader_indexed_off : forall f recs, fq_parses f recs ->
  Forall (fun r => utf8_valid (q_name r) = true) recs ->
  forall off, exists irecs, fqi_parses f off irecs /\ map qf_name irecs = map q_name recs.
Proof.
  induction 1 as [|d sq pl ql rest recs Hd Hs Hp Hq Hr IH|d sq pl ql Hd Hs Hp Hq|d sq pl Hd Hs Hp];
    intros HF off.
  - exists []. split; constructor.
  - inversion HF as [|r0 rs0 Hu HF' E1]. subst r0 rs0.
    assert (Hpp : lf_free (PLUS :: pl)) by (apply lf_free_cons; [unfold PLUS, LF; lia|exact Hp]).
    destruct (IH HF' (off + 1 + len (d ++ [LF]) + len (sq ++ [LF]) + len ((PLUS :: pl) ++ [LF])
                      + len (ql ++ [LF]))) as [irs [Hi Hm]].
    rewrite fields_name in Hu.
    eexists. split.
    + eapply fqi_rec;
        [apply cut_lf'; exact Hd|apply cut_lf'; exact Hs|apply (cut_lf' (PLUS :: pl)); exact Hpp
        |apply cut_lf'; exact Hq|exact Hu|exact Hi].
    + cbn [map qf_name]. rewrite Hm, fields_name. reflexivity.
  - inversion HF as [|r0 rs0 Hu HF' E1]. subst r0 rs0.
    assert (Hpp : lf_free (PLUS :: pl)) by (apply lf_free_cons; [unfold PLUS, LF; lia|exact Hp]).
    rewrite fields_name in Hu.
    eexists. split.
    + eapply fqi_rec;
        [apply cut_lf'; exact Hd|apply cut_lf'; exact Hs|apply (cut_lf' (PLUS :: pl)); exact Hpp
        |apply cut_eof; exact Hq|exact Hu|apply fqi_end].
    + cbn [map qf_name]. rewrite fields_name. reflexivity.
  - inversion HF as [|r0 rs0 Hu HF' E1]. subst r0 rs0.
    assert (Hpp : lf_free (PLUS :: pl)) by (apply lf_free_cons; [unfold PLUS, LF; lia|exact Hp]).
    rewrite fields_name in Hu.
    eexists. split.
    + eapply fqi_rec;
        [apply cut_lf'; exact Hd|apply cut_lf'; exact Hs|apply cut_eof; exact Hpp
        |apply cut_eof; intros []|exact Hu|apply fqi_end].
    + cbn [map qf_name]. rewrite fields_name. reflexivity.
Qed.

(* every file the reader accepts, with UTF-8 names, is accepted by the indexer, with the same
   names in the same order *)
Theorem reader_accepted_is_indexed : forall f recs, fq_parses f recs ->
  Forall (fun r => utf8_valid (q_name r) = true) recs ->
  exists irecs, fqi_parses f 0 irecs /\ map qf_name irecs = map q_name recs.
Proof. intros f recs H HF. now apply reader_indexed_off. Qed.

(* ... and a reader-accepted file with a name that is not UTF-8 is rejected by the indexer *)
Lemma non_utf8_fuel : forall f recs, fq_parses f recs ->
  Exists (fun r => utf8_valid (q_name r) = false) recs ->
  forall fuel off, (length f < fuel)%nat -> snd (index_qrecs fuel f off) = Some QInvalidData.
Proof.
  induction 1 as [|d sq pl ql rest recs Hd Hs Hp Hq Hr IH|d sq pl ql Hd Hs Hp Hq|d sq pl Hd Hs Hp];
    intros HE fuel off Hf.
  - inversion HE.
  - destruct fuel; [lia|]. cbn [index_qrecs].
    assert (Hpp : lf_free (PLUS :: pl)) by (apply lf_free_cons; [unfold PLUS, LF; lia|exact Hp]).
    pose proof (take_line_app d (sq ++ LF :: PLUS :: pl ++ LF :: ql ++ LF :: rest) Hd) as H0.
    pose proof (take_line_app sq (PLUS :: pl ++ LF :: ql ++ LF :: rest) Hs) as H1.
    pose proof (take_line_app (PLUS :: pl) (ql ++ LF :: rest) Hpp) as H2.
    pose proof (take_line_app ql rest Hq) as H3.
    rewrite (index_qrec_at _ off _ _ _ _ _ _ _ _ H0 H1 H2 H3).
    pose proof (rest_length _ _ _ _ _ _ _ _ _ H0 H1 H2 H3) as Hl.
    rewrite <- (fields_name d sq ql true).
    destruct (utf8_valid (q_name (fields_of d sq ql true))) eqn:Eu; [|reflexivity].
    inversion HE as [r0 rs0 Hh E1|r0 rs0 Ht E1]; [congruence|].
    match goal with |- context [index_qrecs fuel ?X ?O] =>
      specialize (IH Ht fuel O); destruct (index_qrecs fuel X O) as [rs e] end.
    cbn [snd] in *. apply IH. lia.
  - destruct fuel; [lia|]. cbn [index_qrecs].
    inversion HE as [r0 rs0 Hh E1|r0 rs0 Ht E1]; [|inversion Ht].
    rewrite fields_name in Hh.
    pose proof (take_line_app d (sq ++ LF :: PLUS :: pl ++ LF :: ql) Hd) as H0.
    rewrite (index_qrec_bad_name _ off _ _ H0 Hh). reflexivity.
  - destruct fuel; [lia|]. cbn [index_qrecs].
    inversion HE as [r0 rs0 Hh E1|r0 rs0 Ht E1]; [|inversion Ht].
    rewrite fields_name in Hh.
    pose proof (take_line_app d (sq ++ LF :: PLUS :: pl) Hd) as H0.
    rewrite (index_qrec_bad_name _ off _ _ H0 Hh). reflexivity.
Qed.

Theorem non_utf8_name_rejected : forall f recs, fq_parses f recs ->
  Exists (fun r => utf8_valid (q_name r) = false) recs ->
  snd (index_qfile f) = Some QInvalidData.
Proof. intros f recs H HE. unfold index_qfile. apply (non_utf8_fuel f recs H HE). lia. Qed.

(* ---- the indexer is strictly more lenient than the reader ----
   "@r\nAC\n"          : a record cut short after the sequence line
   "@r\nAC\n-\n!!\n"   : third line does not start with '+' *)
Theorem indexer_more_lenient :
  (snd (index_qfile [64;114;10; 65;67;10]) = None /\
   snd (read_qfile [64;114;10; 65;67;10]) <> None) /\
  (snd (index_qfile [64;114;10; 65;67;10; 45;10; 33;33;10]) = None /\
   snd (read_qfile [64;114;10; 65;67;10; 45;10; 33;33;10]) <> None).
Proof. vm_compute. split; split; try reflexivity; discriminate. Qed.

(* what the indexer makes of them: one record each, the missing lines are empty *)
Example lenient_index :
  index_qfile [64;114;10; 65;67;10] = ([mkqfai [114] 2 3 2 3 6], None) /\
  index_qfile [64;114;10; 65;67;10; 45;10; 33;33;10] = ([mkqfai [114] 2 3 2 3 8], None) /\
  read_qfile [64;114;10; 65;67;10] = ([], Some QUnexpectedEof) /\
  read_qfile [64;114;10; 65;67;10; 45;10; 33;33;10] = ([], Some QInvalidData).
Proof. vm_compute. repeat split; reflexivity. Qed.
