(* C11 — the FASTQ grammar through every delivery: C12's model of the real fill_buf-driven reader
   (NV.Io.FastqRead via Io.Run.run_fastq: BufReader of any capacity over any script of short reads
   and Interrupted) and C16's model of the async reader (NV.Async.Lines, any poll script) return
   C11's [read_qfile] (their theorems, read-only); so they accept exactly the grammar too. *)
From Coq Require Import List NArith Arith Bool Lia.
From NV Require Import Io.Source Io.Run Io.RunProofs.
From NV Require Import Async.ReadExact Async.Lines Async.LinesProofs.
From NV Require Import Fasta.Layout Fasta.Fastq Fasta.FastqGrammar Fasta.FastqGrammarProofs.
Import ListNotations.
Local Open Scope nat_scope.

Theorem grammar_any_delivery : forall data sc cap recs, 1 <= cap ->
  (fst (run_fastq cap (mkSource data sc)) = (recs, None) <-> fq_parses data recs).
Proof.
  intros data sc cap recs Hcap. destruct (run_fastq_spec data sc cap Hcap) as [st' E].
  rewrite E. cbn [fst]. apply reader_accepts_grammar.
Qed.

Theorem grammar_async : forall cap codes data recs, 1 <= cap ->
  (fst (async_fastq_case cap codes data) = (recs, None) <-> fq_parses data recs).
Proof.
  intros cap codes data recs Hcap. rewrite (async_fastq_closed cap codes data Hcap).
  apply reader_accepts_grammar.
Qed.
