(* C11 — the theorems about a region query on a BGZF-compressed FASTA, FROM THE FILE BYTES.

   Fasta/BgzipProofs.v proves [query_bgzf_exact_history] / [index_bgzf_flat] for an already parsed
   frame list F under the hypotheses [wf F] and [total_csize F <= MAX_COMPRESSED_POSITION].  Here
   F is what bgzf::io::Reader parses from the bytes of the file, under any delivery (short reads,
   Interrupted, raw or behind a BufReader of any capacity), with the concrete inflater:

     frames_any_delivery      C12: the delivered frame reader = C01's whole-buffer frame reader
     whole_frames_wf          C01: every accepted frame has BSIZE+1 >= 26 and ISIZE <= 65536
     whole_frames_csize       every frame consumed exactly csize bytes of the file
     whole_frames_suffix,     THE SEEK TIE: re-reading the bytes from a block boundary (after a
     whole_frames_seek,         byte-level seek of the inner stream) parses exactly the frames
     frames_after_seek          C02's [drop_to F 0 c] denotes - again under any delivery
     index_bgzf_from_bytes, query_bgzf_exact_from_bytes   the composed theorems. *)
From Coq Require Import List NArith Arith Bool Lia ZifyBool ZifyNat ZifyN.
From NV Require Import Io.Source Io.ReadExactProofs Io.BufReader Io.BufReaderProofs
                       Io.BgzfRead Io.BgzfReadProofs Io.Run Io.RunProofs.
From NV Require Import Fasta.Layout Fasta.LayoutProofs Fasta.Indexer Fasta.IndexerProofs Fasta.Query Fasta.QueryProofs
                       Fasta.Bgzip Fasta.BgzipProofs Fasta.BgzipBytes.
From NV Require Base.LE Bgzf.Crc32 Bgzf.Vpos Bgzf.Gzi Bgzf.Frame Bgzf.Reader Bgzf.Inflate Bgzf.InflateSpec
                Bgzf.InflateReader Bgzf.ReaderOps Bgzf.FlatRef Bgzf.ReaderOpsProofs.
Import ListNotations.
Local Open Scope nat_scope.

Module BF := NV.Bgzf.Frame.
Module BR := NV.Bgzf.Reader.
Module RO := NV.Bgzf.ReaderOps.
Module ROP := NV.Bgzf.ReaderOpsProofs.
Module FR := NV.Bgzf.FlatRef.

Notation is_byte := NV.Bgzf.InflateSpec.is_byte.


(* ---- one frame --------------------------------------------------------------------------- *)

(* read_frame_into hands out a prefix of the input of BSIZE+1 >= 26 bytes *)
Lemma read_frame_some : forall src f rest,
  BR.read_frame src = BF.Ok (Some (f, rest)) -> src = f ++ rest /\ 26 <= length f.
Proof.
  intros src f rest H. unfold BR.read_frame in H. cbv zeta in H.
  destruct (BF.lenN src <? BF.BGZF_HEADER_SIZE)%N; [discriminate|].
  set (bsz := (LE.le_dec (BF.slice src 16 18) + 1)%N) in *.
  destruct (N.ltb_spec bsz BF.MIN_FRAME_SIZE) as [Hmin|Hmin]; [discriminate|].
  destruct (N.ltb_spec (BF.lenN src) bsz) as [Hlen|Hlen]; [discriminate|].
  injection H as Hf Hr. subst f rest.
  unfold BF.MIN_FRAME_SIZE in Hmin. unfold BF.lenN in Hlen.
  split; [symmetry; apply firstn_skipn|]. rewrite firstn_length. lia.
Qed.

Lemma read_frame_short : forall src, length src < 18 -> BR.read_frame src = BF.Ok None.
Proof.
  intros src H. unfold BR.read_frame.
  replace (BF.lenN src <? BF.BGZF_HEADER_SIZE)%N with true; [reflexivity|].
  symmetry. apply N.ltb_lt. unfold BF.lenN, BF.BGZF_HEADER_SIZE. lia.
Qed.

Lemma read_frame_none : forall src, BR.read_frame src = BF.Ok None -> length src < 18.
Proof.
  intros src H. unfold BR.read_frame in H. cbv zeta in H.
  destruct (N.ltb_spec (BF.lenN src) BF.BGZF_HEADER_SIZE) as [Hl|Hl].
  - unfold BF.lenN, BF.BGZF_HEADER_SIZE in Hl. lia.
  - destruct (_ <? BF.MIN_FRAME_SIZE)%N; [discriminate|].
    destruct (BF.lenN src <? _)%N; discriminate.
Qed.

(* the block size parse_block reports is the length of the frame it was given (any inflater) *)
Lemma parse_block_bs : forall inflate f bs d,
  BR.parse_block inflate f = BF.Ok (bs, d) -> bs = BF.lenN f.
Proof.
  intros inflate f bs d H. unfold BR.parse_block in H.
  destruct (BF.parse_frame f) as [[[[bs0 cdata] crc] isize]|e|] eqn:Hp; try discriminate.
  destruct (inflate cdata isize) as [d0|]; [|discriminate].
  destruct (Crc32.crc32 d0 =? crc)%N; [|discriminate].
  injection H as H1 H2. subst bs0.
  unfold BF.parse_frame in Hp. cbv zeta in Hp.
  destruct (BF.lenN f <? BF.MIN_FRAME_SIZE)%N; [discriminate|].
  destruct (negb _); [discriminate|].
  destruct (_ <=? BF.BGZF_MAX_ISIZE)%N; [|discriminate].
  injection Hp as Hb _ _ _. symmetry. exact Hb.
Qed.

(* ---- the frame loop ---------------------------------------------------------------------- *)

Lemma whole_frames_cons_inv : forall inflate k data b fs r,
  whole_frames inflate k data = (b :: fs, r) ->
  exists k0 f rest,
    k = S k0 /\ data = f ++ rest /\ 26 <= length f /\
    BR.parse_block inflate f = BF.Ok (RO.csize b, RO.fdata b) /\ RO.csize b = BF.lenN f /\
    whole_frames inflate k0 rest = (fs, r).
Proof.
  intros inflate k data b fs r H. destruct k as [|k0]; [discriminate|].
  cbn [whole_frames] in H.
  destruct (BR.read_frame data) as [[[f rest]|]|e|] eqn:ER; try discriminate.
  destruct (BR.parse_block inflate f) as [[bs d]|e|] eqn:EP; try discriminate.
  destruct (whole_frames inflate k0 rest) as [fs0 r0] eqn:EW.
  injection H as Hb Hfs Hr. subst b fs0 r0.
  destruct (read_frame_some _ _ _ ER) as [Hd Hl].
  exists k0, f, rest. cbn [RO.csize RO.fdata].
  repeat split; try assumption. exact (parse_block_bs _ _ _ _ EP).
Qed.

Lemma whole_frames_nil_ok_inv : forall inflate k data,
  whole_frames inflate k data = ([], BF.Ok tt) -> length data < 18.
Proof.
  intros inflate k data H. destruct k as [|k0]; [discriminate|].
  cbn [whole_frames] in H.
  destruct (BR.read_frame data) as [[[f rest]|]|e|] eqn:ER; try discriminate.
  - destruct (BR.parse_block inflate f) as [[bs d]|e|]; try discriminate.
    destruct (whole_frames inflate k0 rest) as [fs0 r0]. discriminate.
  - exact (read_frame_none _ ER).
Qed.

Lemma skipn_app_len : forall (A : Type) (a b : list A) n, skipn (length a + n) (a ++ b) = skipn n b.
Proof. intros A a b n. induction a as [|x a IH]; [reflexivity|]. cbn [length Nat.add app skipn]. exact IH. Qed.

(* Every frame consumed exactly [csize] bytes: after any prefix [pre] of the parsed frames the
   reader stands at byte offset [total_csize pre] of the file, and what it parses from there is
   the rest of the frames with the same final result.  The fuel left still exceeds the bytes
   left when the initial fuel exceeded the file length. *)
Lemma whole_frames_split : forall inflate pre k data post r,
  whole_frames inflate k data = (pre ++ post, r) ->
  (FR.total_csize pre <= BF.lenN data)%N /\
  exists k', k' <= k /\
    (length data < k -> length (skipn (N.to_nat (FR.total_csize pre)) data) < k') /\
    whole_frames inflate k' (skipn (N.to_nat (FR.total_csize pre)) data) = (post, r).
Proof.
  intros inflate. induction pre as [|b pre IH]; intros k data post r H.
  - rewrite ROP.csum_nil. split; [lia|]. exists k. change (N.to_nat 0) with 0. rewrite skipn_O.
    split; [lia|]. split; [intros Hk; exact Hk|exact H].
  - cbn [app] in H.
    destruct (whole_frames_cons_inv _ _ _ _ _ _ H) as (k0 & f & rest & Hk & Hd & Hl & _ & Hb & Hw).
    destruct (IH k0 rest post r Hw) as [Hle (k' & Hk' & Hfu & Hw')].
    rewrite ROP.csum_cons, Hb. subst data k.
    assert (Hsk : skipn (N.to_nat (BF.lenN f + FR.total_csize pre)) (f ++ rest)
                  = skipn (N.to_nat (FR.total_csize pre)) rest).
    { replace (N.to_nat (BF.lenN f + FR.total_csize pre))
        with (length f + N.to_nat (FR.total_csize pre)) by (unfold BF.lenN; lia).
      apply skipn_app_len. }
    rewrite Hsk. unfold BF.lenN in *. rewrite app_length. split; [lia|].
    exists k'. split; [lia|]. split; [|exact Hw'].
    intros Hlt. apply Hfu. lia.
Qed.

(* more fuel than bytes: the fuel does not matter (every frame takes >= 26 bytes) *)
Lemma whole_frames_fuel : forall inflate k1 k2 data,
  length data < k1 -> length data < k2 -> whole_frames inflate k1 data = whole_frames inflate k2 data.
Proof.
  intros inflate. induction k1 as [|k1 IH]; intros k2 data H1 H2; [lia|].
  destruct k2 as [|k2]; [lia|]. cbn [whole_frames].
  destruct (BR.read_frame data) as [[[f rest]|]|e|] eqn:ER; try reflexivity.
  destruct (read_frame_some _ _ _ ER) as [Hd Hl].
  destruct (BR.parse_block inflate f) as [[bs d]|e|]; try reflexivity.
  assert (Hr : length rest + 26 <= length data) by (rewrite Hd, app_length; lia).
  rewrite (IH k2 rest) by lia. reflexivity.
Qed.

(* with that much fuel the loop never reports Panic for lack of fuel: it ends with Ok or an
   error of read_frame_into / parse_block *)
Lemma whole_frames_no_fuel_panic : forall inflate k data F,
  length data < k -> (forall f, BR.parse_block inflate f <> BF.Panic) ->
  whole_frames inflate k data <> (F, BF.Panic).
Proof.
  intros inflate. induction k as [|k IH]; intros data F Hk Hnp; [lia|].
  cbn [whole_frames].
  destruct (BR.read_frame data) as [[[f rest]|]|e|] eqn:ER; try discriminate.
  - destruct (read_frame_some _ _ _ ER) as [Hd Hl].
    destruct (BR.parse_block inflate f) as [[bs d]|e|] eqn:EP; try discriminate.
    + assert (Hr : length rest + 26 <= length data) by (rewrite Hd, app_length; lia).
      destruct (whole_frames inflate k rest) as [fs r] eqn:EW. intros Heq.
      injection Heq as _ Hr'. subst r. apply (IH rest fs); [lia|exact Hnp|exact EW].
    + exfalso. exact (Hnp f EP).
  - exfalso. unfold BR.read_frame in ER. cbv zeta in ER.
    destruct (BF.lenN data <? BF.BGZF_HEADER_SIZE)%N; [discriminate|].
    destruct (_ <? BF.MIN_FRAME_SIZE)%N; [discriminate|].
    destruct (BF.lenN data <? _)%N; discriminate.
Qed.

(* ---- 1. the parsed frame list is well formed in C02's sense ------------------------------- *)

Lemma whole_frames_wf : forall k data F r,
  Forall is_byte data -> whole_frames Inflate.inflate k data = (F, r) -> ROP.wf F.
Proof.
  intros k data F. revert k data. induction F as [|b fs IH]; intros k data r Hby H.
  - apply Forall_nil.
  - destruct (whole_frames_cons_inv _ _ _ _ _ _ H) as (k0 & f & rest & Hk & Hd & Hl & Hp & Hb & Hw).
    subst data. apply Forall_app in Hby. destruct Hby as [Hbf Hbr].
    apply Forall_cons; [|exact (IH k0 rest r Hbr Hw)].
    destruct (NV.Bgzf.InflateReader.reader_accepts_only_wellformed f (RO.csize b) (RO.fdata b) Hbf Hp)
      as (cdata & crc & isize & _ & _ & Hlen & Hmax & _).
    split.
    + rewrite Hb. unfold BF.lenN. lia.
    + unfold RO.flen, RO.len. unfold BF.lenN in Hlen. rewrite Hlen. exact Hmax.
Qed.

(* ---- 2. the frames fit in the file -------------------------------------------------------- *)

Lemma whole_frames_csize : forall k data F r,
  whole_frames Inflate.inflate k data = (F, r) -> (FR.total_csize F <= BF.lenN data)%N.
Proof.
  intros k data F r H. rewrite <- (app_nil_r F) in H.
  exact (proj1 (whole_frames_split _ _ _ _ _ _ H)).
Qed.

Lemma whole_frames_cmax : forall k data F r,
  (BF.lenN data <= Vpos.MAX_COMPRESSED_POSITION)%N ->
  whole_frames Inflate.inflate k data = (F, r) ->
  (FR.total_csize F <= Vpos.MAX_COMPRESSED_POSITION)%N.
Proof. intros k data F r Hm H. pose proof (whole_frames_csize _ _ _ _ H). lia. Qed.

(* ---- 3. THE SEEK TIE ---------------------------------------------------------------------- *)

(* re-reading the bytes from the boundary after [pre] gives the frames after [pre] *)
Lemma whole_frames_suffix : forall k data F r pre post,
  whole_frames Inflate.inflate k data = (F, r) -> F = pre ++ post -> length data < k ->
  exists k', whole_frames Inflate.inflate k' (skipn (N.to_nat (FR.total_csize pre)) data) = (post, r).
Proof.
  intros k data F r pre post H HF _. subst F.
  destruct (whole_frames_split _ _ _ _ _ _ H) as [_ (k' & _ & _ & Hw)]. exists k'. exact Hw.
Qed.

(* ... and with the fuel a freshly opened reader on those bytes is given *)
Lemma whole_frames_suffix_fresh : forall data F r pre post,
  whole_frames Inflate.inflate (S (length data)) data = (F, r) -> F = pre ++ post ->
  let d' := skipn (N.to_nat (FR.total_csize pre)) data in
  whole_frames Inflate.inflate (S (length d')) d' = (post, r).
Proof.
  intros data F r pre post H HF d'. subst F.
  destruct (whole_frames_split _ _ _ _ _ _ H) as [_ (k' & _ & Hfu & Hw)].
  fold d' in Hfu, Hw. rewrite <- Hw. apply whole_frames_fuel; [lia|apply Hfu; lia].
Qed.

(* what C02's inner.seek(Start(c)) denotes on the parsed file: a split of the frame list at a
   block boundary, or - beyond the last frame - nothing *)
Lemma drop_to_split : forall F at_ c post, (at_ <= c)%N -> RO.drop_to F at_ c = Some post ->
  (exists pre, F = pre ++ post /\ c = (at_ + FR.total_csize pre)%N)
  \/ (post = [] /\ (at_ + FR.total_csize F < c)%N).
Proof.
  induction F as [|b fs IH]; intros at_ c post Hle H.
  - cbn [RO.drop_to] in H. injection H as H. subst post.
    destruct (N.eq_dec c at_) as [He|Hne].
    + left. exists []. rewrite ROP.csum_nil. split; [reflexivity|lia].
    + right. rewrite ROP.csum_nil. split; [reflexivity|lia].
  - cbn [RO.drop_to] in H.
    destruct (N.eqb_spec c at_) as [He|Hne].
    + injection H as H. subst post. left. exists []. rewrite ROP.csum_nil. split; [reflexivity|lia].
    + destruct (N.ltb_spec c (at_ + RO.csize b)) as [Hlt|Hge]; [discriminate|].
      destruct (IH _ _ _ Hge H) as [(pre & HF & Hc)|[Hp Hc]].
      * left. exists (b :: pre). rewrite ROP.csum_cons. split; [cbn [app]; f_equal; exact HF|lia].
      * right. rewrite ROP.csum_cons. split; [exact Hp|lia].
Qed.

(* Reader::seek to compressed offset c, at the byte level: the frames a reader parses from the
   file bytes from offset c on are the frames [drop_to F 0 c] hands to C02's state machine, with
   the same final result.  (For a file that did not end cleanly the premise c <= total_csize F is
   needed: the bytes after the failing frame are arbitrary.) *)
Lemma whole_frames_seek_full : forall data F r c post,
  whole_frames Inflate.inflate (S (length data)) data = (F, r) ->
  (r = BF.Ok tt \/ (c <= FR.total_csize F)%N) ->
  RO.drop_to F 0 c = Some post ->
  whole_frames Inflate.inflate (S (length data)) (skipn (N.to_nat c) data) = (post, r).
Proof.
  intros data F r c post H Hr Hd.
  assert (Hfuel : forall n, length (skipn n data) < S (length data)) by (intros n; rewrite skipn_length; lia).
  destruct (drop_to_split F 0%N c post ltac:(lia) Hd) as [(pre & HF & Hc)|[Hp Hc]].
  - rewrite N.add_0_l in Hc. subst c.
    rewrite <- (whole_frames_suffix_fresh data F r pre post H HF).
    apply whole_frames_fuel; [apply Hfuel|lia].
  - destruct Hr as [Hr|Hr]; [|lia]. subst r post.
    (* a clean end: fewer than 18 bytes follow the last frame *)
    pose proof H as H0. rewrite <- (app_nil_r F) in H0.
    destruct (whole_frames_split _ _ _ _ _ _ H0) as [Hle (k' & _ & _ & Hw)].
    apply whole_frames_nil_ok_inv in Hw. rewrite skipn_length in Hw.
    cbn [whole_frames]. rewrite read_frame_short; [reflexivity|].
    rewrite skipn_length. unfold BF.lenN in Hle. lia.
Qed.

Lemma whole_frames_seek : forall data F r c post,
  whole_frames Inflate.inflate (S (length data)) data = (F, r) ->
  (r = BF.Ok tt \/ (c <= FR.total_csize F)%N) ->
  RO.drop_to F 0 c = Some post ->
  fst (whole_frames Inflate.inflate (S (length data)) (skipn (N.to_nat c) data)) = post.
Proof.
  intros data F r c post H Hr Hd. rewrite (whole_frames_seek_full data F r c post H Hr Hd). reflexivity.
Qed.

(* ---- 4. any delivery ----------------------------------------------------------------------- *)

Theorem frames_any_delivery : forall data sc cap,
  bz_frames_of_bytes cap (mkSource data sc) = whole_frames Inflate.inflate (S (length data)) data.
Proof.
  intros data sc cap. unfold bz_frames_of_bytes. cbn [s_data].
  destruct cap as [|c].
  - destruct (d_read_frames_spec src_read rep_src src_simulates Inflate.inflate (S (length data))
                (src_fuel (mkSource data sc) 18) (mkSource data sc) data (n_interrupted sc))
      as [s' E].
    + split; reflexivity.
    + unfold src_fuel. cbn [s_data s_script]. lia.
    + rewrite E. reflexivity.
  - destruct (d_read_frames_spec (br_read src_read (S c)) (rep_buf rep_src)
                (br_simulates src_read rep_src src_simulates (S c) ltac:(lia))
                Inflate.inflate (S (length data))
                (b_fuel ([], mkSource data sc) 18) ([], mkSource data sc) data (n_interrupted sc))
      as [s' E].
    + exists data. cbn [fst snd app]. split; [reflexivity|]. split; reflexivity.
    + unfold b_fuel, src_fuel. cbn [fst snd s_data s_script length]. lia.
    + rewrite E. reflexivity.
Qed.

(* the seek tie under any delivery: a reader (re)opened on the bytes from compressed offset c on -
   with any script and any BufReader capacity of its own - parses what drop_to denotes *)
Theorem frames_after_seek : forall data sc cap F c post sc' cap',
  bz_frames_of_bytes cap (mkSource data sc) = (F, BF.Ok tt) ->
  RO.drop_to F 0 c = Some post ->
  bz_frames_of_bytes cap' (mkSource (skipn (N.to_nat c) data) sc') = (post, BF.Ok tt).
Proof.
  intros data sc cap F c post sc' cap' H Hd. rewrite frames_any_delivery in *.
  rewrite <- (whole_frames_seek_full data F (BF.Ok tt) c post H (or_introl eq_refl) Hd).
  apply whole_frames_fuel; [lia|rewrite skipn_length; lia].
Qed.

(* the concrete inflater never makes parse_block panic, so a [Panic] result is impossible *)
Lemma parse_block_no_panic : forall inflate f, BR.parse_block inflate f <> BF.Panic.
Proof.
  intros inflate f. unfold BR.parse_block.
  destruct (BF.parse_frame f) as [[[[bs cdata] crc] isize]|e|] eqn:Hp; try discriminate.
  - destruct (inflate cdata isize) as [d|]; [|discriminate].
    destruct (Crc32.crc32 d =? crc)%N; discriminate.
  - exfalso. unfold BF.parse_frame in Hp. cbv zeta in Hp.
    destruct (BF.lenN f <? BF.MIN_FRAME_SIZE)%N; [discriminate|].
    destruct (negb _); [discriminate|].
    destruct (_ <=? BF.BGZF_MAX_ISIZE)%N; discriminate.
Qed.

Theorem frames_of_bytes_no_panic : forall data sc cap F,
  bz_frames_of_bytes cap (mkSource data sc) <> (F, BF.Panic).
Proof.
  intros data sc cap F. rewrite frames_any_delivery.
  apply whole_frames_no_fuel_panic; [lia|]. intros f. apply parse_block_no_panic.
Qed.

(* ---- 5. the composed theorems -------------------------------------------------------------- *)

Lemma frames_of_bytes_ok : forall data sc cap F,
  Forall is_byte data -> (BF.lenN data <= Vpos.MAX_COMPRESSED_POSITION)%N ->
  bz_frames_of_bytes cap (mkSource data sc) = (F, BF.Ok tt) ->
  ROP.wf F /\ (FR.total_csize F <= Vpos.MAX_COMPRESSED_POSITION)%N.
Proof.
  intros data sc cap F Hby Hmax H. rewrite frames_any_delivery in H. split.
  - exact (whole_frames_wf _ _ _ _ Hby H).
  - exact (whole_frames_cmax _ _ _ _ Hmax H).
Qed.

(* the text the FASTA layer sees is C01's read_to_end view of the file bytes *)
Lemma frames_of_bytes_text : forall data sc cap F r,
  bz_frames_of_bytes cap (mkSource data sc) = (F, r) ->
  BR.reader_read_to_end Inflate.inflate data = (bz_text F, r).
Proof.
  intros data sc cap F r H. rewrite frames_any_delivery in H.
  pose proof (whole_frames_read_blocks Inflate.inflate (S (length data)) data) as Hrb.
  rewrite H in Hrb. cbn [fst snd] in Hrb.
  unfold BR.reader_read_to_end. rewrite <- Hrb. reflexivity.
Qed.

Theorem index_bgzf_from_bytes : forall data sc cap F,
  Forall is_byte data ->
  bz_frames_of_bytes cap (mkSource data sc) = (F, BF.Ok tt) ->
  index_bgzf F = index_file (bz_text F)
  /\ bz_text F = fst (BR.reader_read_to_end Inflate.inflate data).
Proof.
  intros data sc cap F Hby H. split.
  - apply index_bgzf_flat. rewrite frames_any_delivery in H. exact (whole_frames_wf _ _ _ _ Hby H).
  - rewrite (frames_of_bytes_text _ _ _ _ _ H). reflexivity.
Qed.

Theorem query_bgzf_exact_from_bytes : forall data sc cap F ops recs err r chk s e,
  Forall is_byte data -> (BF.lenN data <= Vpos.MAX_COMPRESSED_POSITION)%N ->
  bz_frames_of_bytes cap (mkSource data sc) = (F, BF.Ok tt) ->
  ROP.ops_valid F ops ->
  index_file (bz_text F) = (recs, err) -> In r recs ->
  exists body, record_lines (bz_text F) r body /\
    let B := naive_bases body in
    let st := match s with Some p => p | None => 1%N end in
    let en := match e with Some p => p | None => usize_max end in
    heads_ok body ->
    nth (N.to_nat (st - 1)) B 0%N <> CR -> nth (N.to_nat (st - 1)) B 0%N <> GT ->
    (1 <= st)%N -> (st <= f_len r)%N -> (st <= en)%N ->
    query_bgzf chk F (RO.gzi_of F) (RO.run_state true F (RO.gzi_of F) (RO.init F) ops) r s e
    = ZOk (QOk (firstn (N.to_nat (en - st + 1)) (skipn (N.to_nat (st - 1)) B))).
Proof.
  intros data sc cap F ops recs err r chk s e Hby Hmax H Hv Hi Hin.
  destruct (frames_of_bytes_ok data sc cap F Hby Hmax H) as [Hwf Hc].
  exact (query_bgzf_exact_history F ops recs err r chk s e Hwf Hc Hv Hi Hin).
Qed.

(* the extracted entry point: its answer does not depend on the delivery, a well-formed file is
   never rejected for lack of fuel, and what it answers is Fasta/Bgzip.v's index_and_query_bgzf on
   the frames of the whole-buffer reader *)
Theorem index_and_query_bgzf_bytes_any_delivery : forall data sc cap idx prior qs,
  index_and_query_bgzf_bytes cap (mkSource data sc) idx prior qs
  = match whole_frames Inflate.inflate (S (length data)) data with
    | (F, BF.Ok tt) => Some (index_bgzf F, index_and_query_bgzf F idx prior qs)
    | _ => None
    end.
Proof.
  intros data sc cap idx prior qs. unfold index_and_query_bgzf_bytes.
  rewrite frames_any_delivery. reflexivity.
Qed.

(* ---- 6. non-vacuity: a real three-block BGZF file ------------------------------------------
   block 1: one stored DEFLATE block holding ">s\nACGT\n"
   block 2: one fixed-Huffman block (with an LZ77 match) holding ">t\nGGGGGGGGGGGG\n"
   block 3: the 28-byte EOF marker *)
Definition ex_bytes : list N :=
  [31; 139; 8; 4; 0; 0; 0; 0; 0; 255; 6; 0; 66; 67; 2; 0; 38; 0;
   1; 8; 0; 247; 255; 62; 115; 10; 65; 67; 71; 84; 10; 215; 27; 155; 46; 8; 0; 0; 0;
   31; 139; 8; 4; 0; 0; 0; 0; 0; 255; 6; 0; 66; 67; 2; 0; 33; 0;
   179; 43; 225; 114; 71; 2; 92; 0; 45; 223; 84; 168; 16; 0; 0; 0;
   31; 139; 8; 4; 0; 0; 0; 0; 0; 255; 6; 0; 66; 67; 2; 0; 27; 0; 3; 0; 0; 0; 0; 0; 0; 0; 0; 0]%N.

Definition ex_script : list event := [Deliver 7; Interrupted; Deliver 1; Deliver 30; Interrupted].

Example ex_frames_of_bytes :
  bz_frames_of_bytes 5 (mkSource ex_bytes ex_script)
  = ([RO.mkFrame 39 [62; 115; 10; 65; 67; 71; 84; 10];
      RO.mkFrame 34 [62; 116; 10; 71; 71; 71; 71; 71; 71; 71; 71; 71; 71; 71; 71; 10];
      RO.mkFrame 28 []]%N, BF.Ok tt)
  /\ bz_frames_of_bytes 0 (mkSource ex_bytes ex_script) = bz_frames_of_bytes 5 (mkSource ex_bytes ex_script).
Proof. split; vm_compute; reflexivity. Qed.

Example ex_index_and_query :
  index_and_query_bgzf_bytes 3 (mkSource ex_bytes ex_script)
    (RO.gzi_of (fst (bz_frames_of_bytes 0 (mkSource ex_bytes []))))
    [RO.SeekU 20; RO.Read 3]%N
    [([116], (Some 2, Some 5)); ([115], (None, None))]%N
  = Some ([mkfai [115] 4 3 4 5; mkfai [116] 12 11 12 13]%N, None,
          [ZOk (QOk [71; 71; 71; 71]%N); ZOk (QOk [65; 67; 71; 84]%N)]).
Proof. vm_compute. reflexivity. Qed.
