(* C11 — model of noodles-fastq:
     io/writer/record.rs  write_record (4 lines: @name[<sep>description], sequence, +, qualities)
     io/reader/record.rs  read_record, read_line, consume_plus_line, consume_line
     io/reader/record/definition.rs  read_definition (with the repaired CRLF handling, e8298c4:
                          the CR before the LF that ends a description-less name line is popped
                          from the assembled name, whatever buffer it arrived in)
     io/reader/records.rs Records::next
     io/indexer.rs        Indexer::index_record (str::from_utf8 of the name, len_with_right_trim)
   The reader is LINE driven, not length driven: the sequence and the quality line each end at the
   first LF, the plus line is only checked for its first byte, so '@' and '+' inside (or leading)
   a quality string are plain data.  The model runs over the flat bytes of the input (whole-buffer
   semantics; every function consumes a prefix and returns the unread rest). *)
From Coq Require Import List NArith Bool.
From NV Require Import Fasta.Layout.
Import ListNotations.
Open Scope N_scope.

Definition HT : N := 9.
Definition AT : N := 64.     (* '@' *)
Definition PLUS : N := 43.   (* '+' *)

Record qrec : Type := mkqrec {
  q_name : list N;
  q_desc : list N;
  q_seq : list N;
  q_qual : list N
}.

(* ---- writer ---- *)

Definition write_qrec (sep : N) (r : qrec) : list N :=
  AT :: q_name r
     ++ (match q_desc r with [] => [] | _ :: _ => sep :: q_desc r end)
     ++ LF :: q_seq r ++ LF :: PLUS :: LF :: q_qual r ++ [LF].

Definition write_qfile (sep : N) (recs : list qrec) : list N := concat (map (write_qrec sep) recs).

(* ---- reader ---- *)

Inductive qerr : Type :=
| QInvalidData       (* first byte of a record is not '@' / of the third line is not '+';
                        indexer: name is not UTF-8 *)
| QUnexpectedEof     (* read_u8 for the plus line at the end of the input *)
| QOutOfFuel.        (* never produced for fuel > number of bytes *)

(* BufRead::read_until(LF): the bytes up to and including the first LF (or all), and the rest *)
Fixpoint take_line (s : list N) : list N * list N :=
  match s with
  | [] => ([], [])
  | b :: t => if b =? LF then ([b], t) else let '(l, r) := take_line t in (b :: l, r)
  end.

(* read_line: LF popped, then one CR popped (only when an LF was popped) *)
Definition read_line (s : list N) : list N * list N :=
  let '(l, r) := take_line s in (def_content l, r).

(* the name loop of read_definition: bytes up to the first SP / HT / LF, that byte, the rest *)
Fixpoint scan_name (s : list N) : list N * option N * list N :=
  match s with
  | [] => ([], None, [])
  | b :: t =>
      if (b =? SP) || (b =? HT) || (b =? LF) then ([], Some b, t)
      else let '(n, dl, r) := scan_name t in (b :: n, dl, r)
  end.

(* read_definition: inr None = Ok(0) (end of input); otherwise (name, description, rest) *)
Definition read_definition (s : list N) : qerr + option (list N * list N * list N) :=
  match s with
  | [] => inr None
  | b :: t =>
      if negb (b =? AT) then inl QInvalidData
      else
        let '(n, dl, r) := scan_name t in
        match dl with
        | Some d =>
            if d =? LF then inr (Some (strip_last CR n, [], r))
            else let '(desc, r') := read_line r in inr (Some (n, desc, r'))
        | None => inr (Some (n, [], r))
        end
  end.

Definition consume_plus_line (s : list N) : qerr + list N :=
  match s with
  | [] => inl QUnexpectedEof
  | b :: t => if b =? PLUS then inr (snd (take_line t)) else inl QInvalidData
  end.

(* read_record: inr None = end of input *)
Definition read_qrec (s : list N) : qerr + option (qrec * list N) :=
  match read_definition s with
  | inl e => inl e
  | inr None => inr None
  | inr (Some (n, d, r1)) =>
      let '(sq, r2) := read_line r1 in
      match consume_plus_line r2 with
      | inl e => inl e
      | inr r3 => let '(ql, r4) := read_line r3 in inr (Some (mkqrec n d sq ql, r4))
      end
  end.

(* Records::next until the end of the input or the first error *)
Fixpoint read_qrecs (fuel : nat) (s : list N) : list qrec * option qerr :=
  match fuel with
  | O => ([], Some QOutOfFuel)
  | S fuel' =>
      match read_qrec s with
      | inl e => ([], Some e)
      | inr None => ([], None)
      | inr (Some (r, rest)) => let '(rs, e) := read_qrecs fuel' rest in (r :: rs, e)
      end
  end.

Definition read_qfile (f : list N) : list qrec * option qerr := read_qrecs (S (length f)) f.

(* ---- indexer ---- *)

Definition in_rng (lo hi b : N) : bool := (lo <=? b) && (b <=? hi).
Definition cont (b : N) : bool := in_rng 128 191 b.

(* core::str::from_utf8(..).is_ok(): well-formed UTF-8 byte sequences (Unicode table 3-7) *)
Fixpoint utf8_valid (s : list N) : bool :=
  match s with
  | [] => true
  | b :: t =>
      if b <? 128 then utf8_valid t
      else if in_rng 194 223 b then
        match t with
        | c1 :: t1 => cont c1 && utf8_valid t1
        | _ => false
        end
      else if in_rng 224 239 b then
        match t with
        | c1 :: c2 :: t2 =>
            (if b =? 224 then in_rng 160 191 c1 else if b =? 237 then in_rng 128 159 c1 else cont c1)
            && cont c2 && utf8_valid t2
        | _ => false
        end
      else if in_rng 240 244 b then
        match t with
        | c1 :: c2 :: c3 :: t3 =>
            (if b =? 240 then in_rng 144 191 c1 else if b =? 244 then in_rng 128 143 c1 else cont c1)
            && cont c2 && cont c3 && utf8_valid t3
        | _ => false
        end
      else false
  end.

(* len_with_right_trim: length without trailing ASCII whitespace *)
Definition rtrim_ws (l : list N) : list N := rev (drop_ws (rev l)).

Record qfai : Type := mkqfai {
  qf_name : list N;
  qf_len : N;        (* length = line_bases *)
  qf_seq_off : N;    (* sequence_offset *)
  qf_lb : N;         (* line_bases *)
  qf_lw : N;         (* line_width *)
  qf_qual_off : N    (* quality_scores_offset *)
}.

(* Indexer::index_record; off = self.offset before the call; inr None = end of input *)
Definition index_qrec (s : list N) (off : N) : qerr + option (qfai * N * list N) :=
  match read_definition s with
  | inl e => inl e
  | inr None => inr None
  | inr (Some (n, _, r1)) =>
      let off1 := off + (len s - len r1) in
      if utf8_valid n then
        let '(l1, r2) := take_line r1 in
        let '(l2, r3) := take_line r2 in
        let '(l3, r4) := take_line r3 in
        let lb := len (rtrim_ws l1) in
        inr (Some (mkqfai n lb off1 lb (len l1) (off1 + len l1 + len l2),
                   off1 + len l1 + len l2 + len l3, r4))
      else inl QInvalidData
  end.

Fixpoint index_qrecs (fuel : nat) (s : list N) (off : N) : list qfai * option qerr :=
  match fuel with
  | O => ([], Some QOutOfFuel)
  | S fuel' =>
      match index_qrec s off with
      | inl e => ([], Some e)
      | inr None => ([], None)
      | inr (Some (r, off', rest)) =>
          let '(rs, e) := index_qrecs fuel' rest off' in (r :: rs, e)
      end
  end.

Definition index_qfile (f : list N) : list qfai * option qerr := index_qrecs (S (length f)) f 0.
