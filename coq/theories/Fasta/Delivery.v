(* C11 — a region query through a CHUNKED source: io/reader/sequence.rs read_sequence_limit on
   top of C12's model of the sequence reader's fill_buf / consume (NV.Io.FastaScan, read-only)
   over the std BufReader model (NV.Io.BufReader) over a scripted source (NV.Io.Source: any
   sequence of short reads and ErrorKind::Interrupted).

     read_sequence_limit(reader, max_bases, buf):
         let mut reader = sequence::Reader::new(reader);            // is_bol = true, no pending CR
         while buf.len() < max_bases {
             let src = reader.fill_buf()?;  if src.is_empty() { break }
             let i = (max_bases - buf.len()).min(src.len());
             buf.extend(&src[..i]);  reader.consume(i);
         }

   max_bases is an N (it is usize::MAX - start + 1 for an open-ended region). *)
From Coq Require Import List NArith Arith Bool.
From NV Require Import Io.Source Io.BufReader Io.FastaScan Io.Run.
From NV Require Import Fasta.Layout Fasta.Indexer Fasta.Query.
Import ListNotations.
Local Open Scope nat_scope.

Section Limit.
  Context {St : Type}.
  Variable rd : reader St.
  Variable cap : nat.

  Fixpoint read_sequence_limit (fuel : nat) (max : N) (s : sstate St) (acc : list N) {struct fuel}
    : sres * list N :=
    if (max <=? len acc)%N then (SOk, acc)
    else
      match fuel with
      | 0 => (SNoFuel, acc)
      | S fuel' =>
          let '(ib, p, st) := s in
          match seq_fill_buf rd cap (S fuel') ib p st with
          | (SOk, [], _) => (SOk, acc)
          | (SOk, piece, s') =>
              let i := if (len piece <=? max - len acc)%N then length piece
                       else N.to_nat (max - len acc) in
              read_sequence_limit fuel' max (seq_consume i s') (acc ++ firstn i piece)
          | (e, _, _) => (e, acc)
          end
      end.
End Limit.

(* Reader::query after the name lookup, through BufReader::with_capacity(cap, source) where the
   source delivers the bytes that follow the seek position according to the script sc *)
Definition query_delivered (chk : bool) (cap : nat) (f : list N) (sc : list event) (r : fai)
           (s e : option N) : sres * qres :=
  let start0 := match s with Some p => (p - 1)%N | None => 0%N end in
  match fai_query_gen chk r start0 with
  | None => (SOk, QErrInvalidInput)
  | Some pos =>
      let st := match s with Some p => p | None => 1%N end in
      let en := match e with Some p => p | None => usize_max end in
      if (en <? st)%N then (SOk, QPanic)
      else
        let src := mkSource (seek f pos) sc in
        let '(x, bases) := read_sequence_limit src_read cap (s_fuel ([], src)) (en - st + 1)%N
                             (true, false, ([], src)) [] in
        (x, QOk bases)
  end.

(* index with the model indexer, look the name up, query through the chunked source *)
Definition index_and_query_delivered (cap : nat) (f : list N) (sc : list event) (name : list N)
           (s e : option N) : sres * qres :=
  match find_record (fst (index_file f)) name with
  | None => (SOk, QErrInvalidInput)
  | Some r => query_delivered true cap f sc r s e
  end.
