(* C09 -- the whole VCF record LINE: vcf::io::writer::record::write_record (all eight fixed
   columns, FORMAT keys and sample columns), the eager parser
   io/reader/record_buf.rs::parse_record_buf and the lazy vcf::Record (io/reader/record.rs +
   record/fields.rs and the views under record/), every accessor forced.  Definitions only; the
   lemmas are in Vcf/LineProofs.v.

   Conventions.  A line is the record text WITHOUT its line terminator; [frame] is what both
   readers do to the terminator (read up to LF, drop one trailing CR).  Text fields are byte
   strings; the writers' `char::is_whitespace` tests are modelled on bytes (TAB LF VT FF CR SPACE):
   the non-ASCII Unicode white space that the real writer also rejects is outside the model.
   Header lookups (header.infos().get(key) or else the reserved-key table of the file format;
   the same for FORMAT) are the association lists of [hctx].  A reader result None is any Err. *)
From Coq Require Import List NArith ZArith Bool.
From NV Require Import Base.Percent Text.TextBase Vcf.Values Vcf.Span.
Import ListNotations.
Open Scope N_scope.

Record vrec := {
  r_chrom : list N;
  r_pos : N;                                   (* 0 = no position (telomere) *)
  r_ids : list (list N);
  r_ref : list N;
  r_alts : list (list N);
  r_qual : option N;                           (* f32 bit pattern *)
  r_filters : list (list N);
  r_info : list (list N * option value);
  r_keys : list (list N);
  r_samples : list (list (option value))
}.

Record hctx := {
  h_v44 : bool;                                      (* fileformat >= 4.4 *)
  h_infos : list (list N * (vnumber * vtype));       (* effective INFO definitions *)
  h_formats : list (list N * (vnumber * vtype));     (* effective FORMAT definitions *)
  h_nsamples : nat                                   (* header.sample_names().len() *)
}.

Fixpoint assoc {A} (k : list N) (l : list (list N * A)) : option A :=
  match l with
  | [] => None
  | (k', a) :: t => if bytes_eqb k k' then Some a else assoc k t
  end.

Fixpoint has_dup (l : list (list N)) : bool :=
  match l with
  | [] => false
  | x :: t => existsb (bytes_eqb x) t || has_dup t
  end.

Definition key_gt : list N := [71; 84].
Definition s_pass : list N := [80; 65; 83; 83].
Definition key_1000g : list N := [49; 48; 48; 48; 71].

(* ---------------------------------------------------------------------------------------- *)
(* character classes of the writers' validity checks *)

Definition is_ws (b : N) : bool := ((9 <=? b) && (b <=? 13)) || (b =? 32).
Definition is_alpha (b : N) : bool := ((65 <=? b) && (b <=? 90)) || ((97 <=? b) && (b <=? 122)).
Definition is_digit (b : N) : bool := (48 <=? b) && (b <=? 57).

(* reference_sequence_name.rs::is_valid_char *)
Definition chrom_char (b : N) : bool :=
  (33 <=? b) && (b <=? 126) &&
  negb ((b =? 92) || (b =? 44) || (b =? 34) || (b =? 96) || (b =? 39) || (b =? 40) || (b =? 41) ||
        (b =? 91) || (b =? 93) || (b =? 123) || (b =? 125) || (b =? 60) || (b =? 62)).

Definition chrom_name_valid (s : list N) : bool :=
  match s with
  | [] => false
  | c :: t => negb (c =? 42) && negb (c =? 61) && chrom_char c && forallb chrom_char t
  end.

(* strip_symbol_delimiters: "<...>" *)
Definition strip_symbol (s : list N) : option (list N) :=
  match s with
  | 60 :: t => match rev t with 62 :: u => Some (rev u) | _ => None end
  | _ => None
  end.

Definition w_chrom (s : list N) : option (list N) :=
  let name := match strip_symbol s with Some t => t | None => s end in
  if chrom_name_valid name then Some s else None.

(* ids.rs / filters.rs::is_valid: no white space, no ';' *)
Definition id_valid (s : list N) : bool := forallb (fun b => negb (is_ws b) && negb (b =? 59)) s.
(* alternate_bases.rs::is_valid: no white space, no ',' *)
Definition alt_valid (s : list N) : bool := forallb (fun b => negb (is_ws b) && negb (b =? 44)) s.

(* INFO / FORMAT keys: ^[A-Za-z_][0-9A-Za-z_.]*$ (INFO also accepts 1000G) *)
Definition key_valid (s : list N) : bool :=
  match s with
  | [] => false
  | c :: t => (is_alpha c || (c =? 95)) &&
              forallb (fun b => is_alpha b || is_digit b || (b =? 95) || (b =? 46)) t
  end.
Definition info_key_valid (s : list N) : bool := key_valid s || bytes_eqb s key_1000g.

(* a list field: "." when empty, else the valid items joined *)
Definition w_list (sep : N) (valid : list N -> bool) (l : list (list N)) : option (list N) :=
  match l with
  | [] => Some dot
  | _ => if forallb valid l then Some (join sep l) else None
  end.

(* reference_bases.rs::resolve_base *)
Definition resolve_base (b : N) : option N :=
  let up (c : N) : option N :=
    if (c =? 65) || (c =? 87) || (c =? 77) || (c =? 82) || (c =? 68) || (c =? 72) || (c =? 86) then Some 65
    else if (c =? 67) || (c =? 83) || (c =? 89) || (c =? 66) then Some 67
    else if (c =? 71) || (c =? 75) then Some 71
    else if c =? 84 then Some 84
    else if c =? 78 then Some 78
    else None in
  if (97 <=? b) && (b <=? 122) then option_map (fun x => x + 32) (up (b - 32)) else up b.

Definition w_ref (s : list N) : option (list N) := sequence (map resolve_base s).

Section WithFloat.
Variable fmt_float : N -> list N.
Variable prs_float : list N -> option N.

Definition w_qual (q : option N) : list N := match q with Some b => fmt_float b | None => dot end.

(* info.rs::write_info + field.rs::write_field (with the key check of field/key.rs) *)
Definition w_info_field (kv : list N * option value) : option (list N) :=
  if info_key_valid (fst kv) then write_info_field fmt_float (fst kv) (snd kv) else None.

Definition w_info (l : list (list N * option value)) : option (list N) :=
  match l with
  | [] => Some dot
  | _ => match sequence (map w_info_field l) with
         | Some ps => Some (join 59 ps)
         | None => None
         end
  end.

(* samples/keys.rs::write_keys: GT anywhere but first is an error; no keys are written "." *)
Definition w_keys (ks : list (list N)) : option (list N) :=
  match ks with
  | [] => Some dot
  | _ :: t =>
      if existsb (bytes_eqb key_gt) t then None
      else if forallb key_valid ks then Some (join 58 ks) else None
  end.

(* RecordBuf Sample::iter: keys zipped with the values (surplus values are not written) *)
Fixpoint zip_take {A B} (ks : list A) (vs : list B) : list B :=
  match ks, vs with
  | _ :: ks', v :: vs' => v :: zip_take ks' vs'
  | _, _ => []
  end.

(* samples.rs::write_samples: the columns after INFO ([] when the record has no samples) *)
Definition w_sample_cols (h : hctx) (r : vrec) : option (list (list N)) :=
  match r_samples r with
  | [] => Some []
  | rows =>
      match w_keys (r_keys r),
            sequence (map (fun vs => write_sample fmt_float (h_v44 h) (zip_take (r_keys r) vs)) rows) with
      | Some k, Some cols => Some (k :: cols)
      | _, _ => None
      end
  end.

(* write_record: the line without its LF *)
Definition write_line (h : hctx) (r : vrec) : option (list N) :=
  match w_chrom (r_chrom r), w_list 59 id_valid (r_ids r), w_ref (r_ref r),
        w_list 44 alt_valid (r_alts r), w_list 59 id_valid (r_filters r), w_info (r_info r),
        w_sample_cols h r with
  | Some c, Some i, Some rf, Some a, Some f, Some inf, Some cols =>
      Some (join 9 (c :: fmt_dec (r_pos r) :: i :: rf :: a :: w_qual (r_qual r) :: f :: inf :: cols))
  | _, _, _, _, _, _, _ => None
  end.

Definition write_text (h : hctx) (r : vrec) : option (list N) :=
  match write_line h r with Some l => Some (l ++ [10]) | None => None end.

(* both readers: up to the LF, one trailing CR dropped; a last line without LF is taken as it is
   (then fewer than eight columns are not an error of read_record: not modelled) *)
Definition frame (text : list N) : list N := if mem 10 text then first_line text else text.

(* ---------------------------------------------------------------------------------------- *)
(* shared field readers *)

(* next_field, iterated: field i of the line is piece i of split(TAB), "" when exhausted *)
Definition fld (ps : list (list N)) (i : nat) : list N := nth i ps [].

(* parse_position (eager) and Fields::variant_start (lazy): "0" is no position; otherwise usize
   and Position::try_from (0 rejected) *)
Definition parse_position (s : list N) : option N :=
  if bytes_eqb s [48] then Some 0
  else match parse_usize s with
       | Some n => if n =? 0 then None else Some n
       | None => None
       end.

Definition fdef_of (h : hctx) (k : list N) : fdef :=
  if bytes_eqb k key_gt then FGt
  else match assoc k (h_formats h) with
       | Some (num, ty) => FDef num ty
       | None => FDef (NCount 1) TString
       end.

Definition split_kv (p : list N) : list N * option (list N) :=
  match split_once 61 p with Some (k, v) => (k, Some v) | None => (p, None) end.

(* ---------------------------------------------------------------------------------------- *)
(* the eager reader: parse_record_buf *)

(* a "."-or-list field with an emptiness check and an optional duplicate check *)
Definition e_list (sep : N) (nonempty_items dup_check : bool) (s : list N) : option (list (list N)) :=
  if bytes_eqb s dot then Some []
  else match s with
       | [] => None
       | _ =>
           let ps := split_all sep s in
           if nonempty_items && existsb (fun p => match p with [] => true | _ => false end) ps then None
           else if dup_check && has_dup ps then None
           else Some ps
       end.

(* info/field.rs::parse_field *)
Definition e_info_field (h : hctx) (p : list N) : option (list N * option value) :=
  let (k, raw) := split_kv p in
  match assoc k (h_infos h) with
  | Some (num, ty) =>
      match parse_info_field prs_float false num ty p with
      | Some ov => Some (k, ov)
      | None => None
      end
  | None =>
      match raw with
      | Some t => if bytes_eqb t dot then Some (k, None) else Some (k, Some (VString (pct_dec t)))
      | None => Some (k, Some VFlag)
      end
  end.

Definition e_info (h : hctx) (s : list N) : option (list (list N * option value)) :=
  if bytes_eqb s dot then Some []
  else match s with
       | [] => None
       | _ =>
           match sequence (map (e_info_field h) (split_all 59 s)) with
           | Some kvs => if has_dup (map fst kvs) then None else Some kvs
           | None => None
           end
       end.

(* samples/keys.rs::parse_keys *)
Definition e_keys (s : list N) : option (list (list N)) :=
  match s with
  | [] => None
  | _ => if bytes_eqb s dot then Some []
         else let ks := split_all 58 s in if has_dup ks then None else Some ks
  end.

(* one next_field per header sample: a column that is not there is "" *)
Fixpoint e_rows (ds : list fdef) (cols : list (list N)) (n : nat)
  : option (list (list (option value))) :=
  match n with
  | O => Some []
  | S n' =>
      match parse_sample_eager prs_float ds (hd [] cols), e_rows ds (tl cols) n' with
      | Some row, Some rest => Some (row :: rest)
      | _, _ => None
      end
  end.

(* samples.rs::parse_samples on the text after the INFO column *)
Definition e_samples (h : hctx) (ps : list (list N)) : option (list (list N) * list (list (option value))) :=
  match h_nsamples h with
  | O => match skipn 8 ps with
         | [] | [[]] => Some ([], [])
         | _ => None
         end
  | n =>
      match e_keys (fld ps 8) with
      | Some ks =>
          match e_rows (map (fdef_of h) ks) (skipn 9 ps) n with
          | Some rows => Some (ks, rows)
          | None => None
          end
      | None => None
      end
  end.

(* parse_record_buf, with the samples parser [smp] as a parameter (parse_samples on a fresh buffer:
   [e_samples]; on a reused RecordBuf: [e_samples_into]) *)
Definition read_eager_gen (smp : list (list N) -> option (list (list N) * list (list (option value))))
  (h : hctx) (line : list N) : option vrec :=
  let ps := split_all 9 line in
  match parse_position (fld ps 1) with None => None | Some pos =>
  match e_list 59 true true (fld ps 2) with None => None | Some ids =>
  match fld ps 3 with [] => None | rf =>
  match e_list 44 false false (fld ps 4) with None => None | Some alts =>
  match (if bytes_eqb (fld ps 5) dot then Some None
         else match fld ps 5 with
              | [] => None
              | q => match prs_float q with Some b => Some (Some b) | None => None end
              end) with None => None | Some qual =>
  match e_list 59 false true (fld ps 6) with None => None | Some filters =>
  match e_info h (fld ps 7) with None => None | Some info =>
  match smp ps with None => None | Some (ks, rows) =>
    Some {| r_chrom := fld ps 0; r_pos := pos; r_ids := ids; r_ref := rf; r_alts := alts;
            r_qual := qual; r_filters := filters; r_info := info; r_keys := ks; r_samples := rows |}
  end end end end end end end end.

Definition read_eager (h : hctx) (line : list N) : option vrec := read_eager_gen (e_samples h) h line.

(* REUSE of a RecordBuf (read_record_buf called again with the same buffer, the record_bufs()
   iterator): every fixed column is cleared or overwritten before it is filled; the samples keep
   their vectors: parse_samples clears the keys and EVERY value vector, resizes to the header's
   sample count and parse_values pushes onto the vector it is given.  [prev] = the value vectors
   the buffer holds from the previous record. *)
Definition resize_rows (n : nat) (rows : list (list (option value))) : list (list (option value)) :=
  firstn n rows ++ repeat [] (n - length rows).

Fixpoint e_rows_into (bufs : list (list (option value))) (ds : list fdef) (cols : list (list N))
  : option (list (list (option value))) :=
  match bufs with
  | [] => Some []
  | b :: bufs' =>
      match parse_sample_eager prs_float ds (hd [] cols), e_rows_into bufs' ds (tl cols) with
      | Some row, Some rest => Some ((b ++ row) :: rest)      (* values.push on the given vector *)
      | _, _ => None
      end
  end.

Definition e_samples_into (prev : list (list (option value))) (h : hctx) (ps : list (list N))
  : option (list (list N) * list (list (option value))) :=
  match h_nsamples h with
  | O => match skipn 8 ps with
         | [] | [[]] => Some ([], [])                         (* genotypes.values.clear() *)
         | _ => None
         end
  | n =>
      let cleared := map (fun _ => []) prev in                (* for values in &mut values { clear } *)
      match e_keys (fld ps 8) with
      | Some ks =>
          match e_rows_into (resize_rows n cleared) (map (fdef_of h) ks) (skipn 9 ps) with
          | Some rows => Some (ks, rows)
          | None => None
          end
      | None => None
      end
  end.

Definition read_eager_into (prev : vrec) (h : hctx) (line : list N) : option vrec :=
  read_eager_gen (e_samples_into (r_samples prev) h) h line.

(* ---------------------------------------------------------------------------------------- *)
(* the lazy reader: read_record + Fields + the views, every accessor forced *)

Definition undot (s : list N) : list N := if bytes_eqb s dot then [] else s.

(* Ids::iter / AlternateBases::iter / Filters::iter *)
Definition l_list (sep : N) (s : list N) : list (list N) :=
  match undot s with [] => [] | t => split_all sep t end.

(* record/info/field.rs::next + parse_value, iterated over the column *)
Definition l_info_field (h : hctx) (p : list N) : option (list N * option value) :=
  let (k, raw) := split_kv p in
  match k with
  | [] => None                                        (* missing key / stray delimiter *)
  | _ =>
      match assoc k (h_infos h) with
      | Some (num, ty) =>
          match parse_info_field prs_float true num ty p with
          | Some ov => Some (k, ov)
          | None => None
          end
      | None =>
          match raw with
          | None => Some (k, Some VFlag)
          | Some t =>
              if bytes_eqb t dot then Some (k, None)
              else match parse_value prs_float true (NCount 1) TString t with
                   | Some v => Some (k, Some v)
                   | None => None
                   end
          end
      end
  end.

Definition l_info (h : hctx) (s : list N) : option (list (list N * option value)) :=
  match undot s with
  | [] => Some []
  | t => sequence (map (l_info_field h) (split_all 59 t))
  end.

(* an iterator that stops when its source is empty: one trailing empty piece is not seen *)
Definition drop_last_empty (ps : list (list N)) : list (list N) :=
  match rev ps with [] :: r => rev r | _ => ps end.

(* Keys::iter *)
Definition l_keys (s : list N) : list (list N) :=
  match s with [] => [] | _ => drop_last_empty (split_all 58 s) end.

(* Fields::samples + Samples::keys / Samples::iter + Sample::iter.  cols = the pieces after
   INFO.  No column is no samples at all; FORMAT alone (also ".") has neither keys nor samples
   (split_once(TAB) fails). *)
Definition l_samples (h : hctx) (cols : list (list N))
  : option (list (list N) * list (list (option value))) :=
  match cols with
  | [] => Some ([], [])
  | f :: rest =>
      match rest with
      | [] => Some ([], [])
      | _ =>
          (* Samples::keys: a missing FORMAT column has no keys (6449b9b); the samples stay *)
          let ks := if bytes_eqb f dot then [] else l_keys f in
          let ds := map (fdef_of h) ks in
          match sequence (map (parse_sample_lazy prs_float ds) (drop_last_empty rest)) with
          | Some rows => Some (ks, rows)
          | None => None
          end
      end
  end.

Definition read_lazy (h : hctx) (line : list N) : option vrec :=
  let ps := split_all 9 line in
  if (length ps <? 8)%nat then None                    (* read_required_field: unexpected EOL *)
  else
  match parse_position (fld ps 1) with None => None | Some pos =>
  match (if bytes_eqb (fld ps 5) dot then Some None
         else match prs_float (fld ps 5) with Some b => Some (Some b) | None => None end)
  with None => None | Some qual =>
  match l_info h (fld ps 7) with None => None | Some info =>
  match l_samples h (skipn 8 ps) with None => None | Some (ks, rows) =>
    Some {| r_chrom := fld ps 0; r_pos := pos; r_ids := l_list 59 (fld ps 2); r_ref := fld ps 3;
            r_alts := l_list 44 (fld ps 4); r_qual := qual; r_filters := l_list 59 (fld ps 6);
            r_info := info; r_keys := ks; r_samples := rows |}
  end end end end.

(* FORMER DEFECT lazy-record-cr-before-empty-last-column-panic (repaired in fb10cd9): read_field /
   read_line used to strip the CR of a CR LF terminator from the end of the WHOLE record buffer,
   so on `...<CR><TAB><LF>` (nothing after the TAB that follows INFO) or on an empty INFO column
   ended by the LF they removed the last byte of an earlier column, a column bound was left
   beyond the buffer and the accessors panicked.  Now both strip the CR only from the bytes they
   appended themselves: on the framed line (CR dropped only when it is the last byte before the
   LF) that is exactly [read_lazy], for every line.  [lazy_cr_class] keeps the input class, for
   the regression examples and the harness. *)
Definition ends_cr (s : list N) : bool := match rev s with 13 :: _ => true | _ => false end.

Definition lazy_cr_class (line : list N) : bool :=
  let ps := split_all 9 line in
  match skipn 7 ps with
  | [[]] => ends_cr (concat (firstn 7 ps))     (* eight columns, INFO empty *)
  | [_; []] => ends_cr (concat (firstn 8 ps))  (* INFO, TAB, end of line *)
  | _ => false
  end.

(* the lazy reader on a text with its terminator *)
Definition read_lazy_text (h : hctx) (text : list N) : option vrec := read_lazy h (frame text).
Definition read_eager_text (h : hctx) (text : list N) : option vrec := read_eager h (frame text).

(* ---------------------------------------------------------------------------------------- *)
(* the record span (variant/record.rs::variant_end / variant_span) from the record's accessors:
   POS, the length of REF, info.get(END), info.get(SVLEN), samples.select(LEN) *)

Definition key_END : list N := [69; 78; 68].
Definition key_SVLEN : list N := [83; 86; 76; 69; 78].
Definition key_LEN : list N := [76; 69; 78].

Fixpoint index_of (k : list N) (ks : list (list N)) : option nat :=
  match ks with
  | [] => None
  | x :: t => if bytes_eqb x k then Some O
              else match index_of k t with Some i => Some (S i) | None => None end
  end.

(* Series::iter: the i-th value of every sample, missing when the sample is shorter *)
Definition series (i : nat) (rows : list (list (option value))) : list (option value) :=
  map (fun row => nth i row None) rows.

Definition span_of_rec (r : vrec) : span_in :=
  {| si_pos := r_pos r;
     si_reflen := N.of_nat (length (r_ref r));
     si_end := assoc key_END (r_info r);
     si_svlen := assoc key_SVLEN (r_info r);
     si_len := match index_of key_LEN (r_keys r) with
               | Some i => Some (series i (r_samples r))
               | None => None
               end |}.

Definition rec_end (v45 : bool) (r : vrec) : res N := variant_end v45 (span_of_rec r).
Definition rec_span (v45 : bool) (r : vrec) : res N := variant_span v45 (span_of_rec r).

End WithFloat.
