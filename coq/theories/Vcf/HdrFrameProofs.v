(* C09 -- framing of WRITTEN header lines reduced to a condition on the header VALUE.
   NV.Vcf.Header.write_header gives the header as a list of lines without terminators; the file
   writer puts an LF after each.  A reader gets the same lines back exactly when no line contains
   an LF and no line ends with a CR ([line_framed]).  Here: every line write_header emits is
   framed IF AND ONLY IF the header value satisfies [hdr_vals_framed], a condition on the byte
   strings of the value alone (no LF in any string the writer copies; no trailing CR in an
   unstructured value and in the last sample name). *)
From Coq Require Import List NArith Bool Lia ZifyBool ZifyNat ZifyN.
From NV Require Import Text.TextBase Text.TextBaseProofs Vcf.Values Vcf.Line Vcf.Header.
Import ListNotations.
Open Scope N_scope.

(* ---------------------------------------------------------------------------------------- *)
(* the statement *)

Definition line_framed (l : list N) : Prop := ~ In 10 l /\ ends_cr l = false.

Definition nolf (s : list N) : Prop := ~ In 10 s.
Definition opt_nolf (o : option (list N)) : Prop :=
  match o with Some v => nolf v | None => True end.
Definition kv_nolf (kv : list N * list N) : Prop := nolf (fst kv) /\ nolf (snd kv).

(* every byte string the writer copies into a map line of kind k (guards as in map_fields) *)
Definition hmap_nolf (k : mkind) (m : hmap) : Prop :=
  nolf (m_id m)
  /\ (if uses_desc k then opt_nolf (m_desc m) else True)
  /\ (if uses_contig k then opt_nolf (m_md5 m) /\ opt_nolf (m_url m) else True)
  /\ Forall kv_nolf (m_others m).

Definition omap_nolf (m : omap) : Prop :=
  nolf (o_idtag m) /\ nolf (o_id m) /\ Forall kv_nolf (o_fields m).

(* the key of a collection is written once per member: an empty collection writes nothing *)
Definition group_framed (g : list N * hcoll) : Prop :=
  match snd g with
  | CU vs => Forall (fun v => nolf (fst g) /\ nolf v /\ ends_cr v = false) vs
  | CS ms => Forall (fun m => nolf (fst g) /\ omap_nolf m) ms
  end.

Definition samples_framed (ss : list (list N)) : Prop :=
  Forall nolf ss /\ ends_cr (last ss []) = false.

Definition hdr_vals_framed (h : vheader) : Prop :=
  Forall (hmap_nolf KInfo) (hh_infos h)
  /\ Forall (hmap_nolf KFilter) (hh_filters h)
  /\ Forall (hmap_nolf KFormat) (hh_formats h)
  /\ Forall (hmap_nolf KAlt) (hh_alts h)
  /\ Forall (hmap_nolf KContig) (hh_contigs h)
  /\ Forall group_framed (hh_others h)
  /\ samples_framed (hh_samples h).

(* ---------------------------------------------------------------------------------------- *)
(* ends_cr *)

Lemma ends_cr_snoc : forall a x, ends_cr (a ++ [x]) = (x =? 13).
Proof.
  intros a x. unfold ends_cr. rewrite rev_app_distr. cbn [rev app].
  destruct x as [|p]; [reflexivity|].
  do 4 (destruct p as [p|p|]; try reflexivity).
Qed.

Lemma ends_cr_app_ne : forall a b, b <> [] -> ends_cr (a ++ b) = ends_cr b.
Proof.
  intros a b Hne. destruct (exists_last Hne) as (q & x & E). subst b.
  rewrite app_assoc, !ends_cr_snoc. reflexivity.
Qed.

Lemma ends_cr_cons : forall c s, c <> 13 -> ends_cr (c :: s) = ends_cr s.
Proof.
  intros c s Hc. destruct s as [|d s].
  - change [c] with ([] ++ [c]). rewrite ends_cr_snoc. cbn [ends_cr rev]. lia.
  - change (c :: d :: s) with ([c] ++ d :: s). apply ends_cr_app_ne. discriminate.
Qed.

Lemma ends_cr_app_cons : forall a c s, c <> 13 -> ends_cr (a ++ c :: s) = ends_cr s.
Proof.
  intros a c s Hc. rewrite ends_cr_app_ne by discriminate. now apply ends_cr_cons.
Qed.

Lemma ends_cr_join : forall sep ps, sep <> 13 -> ends_cr (join sep ps) = ends_cr (last ps []).
Proof.
  intros sep ps Hs. induction ps as [|p rest IH]; [reflexivity|].
  destruct rest as [|q rest']; [reflexivity|].
  rewrite join_cons2, ends_cr_app_cons by exact Hs. rewrite IH. reflexivity.
Qed.

(* ---------------------------------------------------------------------------------------- *)
(* nolf *)

Lemma nolf_mem : forall s, mem 10 s = false -> nolf s.
Proof.
  intros s H Hin. apply mem_In in Hin. rewrite Hin in H. discriminate.
Qed.

Lemma nolf_nil : nolf [].
Proof. intros []. Qed.

Lemma nolf_app : forall a b, nolf (a ++ b) <-> nolf a /\ nolf b.
Proof.
  intros a b. unfold nolf. rewrite in_app_iff. tauto.
Qed.

Lemma nolf_cons : forall c s, nolf (c :: s) <-> c <> 10 /\ nolf s.
Proof.
  intros c s. unfold nolf. cbn [In]. tauto.
Qed.

Lemma nolf_esc : forall s, nolf (esc s) <-> nolf s.
Proof.
  intro s. induction s as [|b s IH]; [reflexivity|].
  change (esc (b :: s)) with ((if (b =? 92) || (b =? 34) then [92; b] else [b]) ++ esc s).
  rewrite nolf_app, IH, (nolf_cons b s).
  destruct ((b =? 92) || (b =? 34)).
  - rewrite !nolf_cons. split.
    + intros ((_ & Hb & _) & Hs). now split.
    + intros (Hb & Hs). repeat split; [discriminate|exact Hb|exact nolf_nil|exact Hs].
  - rewrite nolf_cons. split.
    + intros ((Hb & _) & Hs). now split.
    + intros (Hb & Hs). repeat split; [exact Hb|exact nolf_nil|exact Hs].
Qed.

Lemma nolf_fmt_dec : forall n, nolf (fmt_dec n).
Proof. intro n. apply fmt_dec_avoids. left. lia. Qed.

Lemma nolf_join : forall sep ps, sep <> 10 -> (nolf (join sep ps) <-> Forall nolf ps).
Proof.
  intros sep ps Hs. induction ps as [|p rest IH].
  - cbn [join]. split; [constructor|intros _; exact nolf_nil].
  - destruct rest as [|q rest'].
    + cbn [join]. rewrite Forall_cons_iff, Forall_nil_iff. tauto.
    + rewrite join_cons2, nolf_app, nolf_cons, IH, (Forall_cons_iff nolf p). tauto.
Qed.

(* ---------------------------------------------------------------------------------------- *)
(* fields *)

Lemma nolf_raw_field : forall k v, nolf (w_raw_field k v) <-> nolf k /\ nolf v.
Proof.
  intros k v. unfold w_raw_field. rewrite nolf_app, nolf_cons.
  split; [tauto|]. intros (Hk & Hv). repeat split; [exact Hk|discriminate|exact Hv].
Qed.

Lemma nolf_hstring : forall v, nolf (w_hstring v) <-> nolf v.
Proof.
  intro v. unfold w_hstring. rewrite nolf_cons, nolf_app, nolf_esc, nolf_cons.
  split; [tauto|]. intro Hv. repeat split; [discriminate|exact Hv|discriminate|exact nolf_nil].
Qed.

Lemma nolf_str_field : forall k v, nolf (w_str_field k v) <-> nolf k /\ nolf v.
Proof.
  intros k v. unfold w_str_field. rewrite nolf_app, nolf_cons, nolf_hstring.
  split; [tauto|]. intros (Hk & Hv). repeat split; [exact Hk|discriminate|exact Hv].
Qed.

Lemma nolf_ofield : forall meta kv, nolf (w_ofield meta kv) <-> kv_nolf kv.
Proof.
  intros meta kv. unfold w_ofield, kv_nolf.
  destruct (meta && meta_raw_key (fst kv)); [apply nolf_raw_field|apply nolf_str_field].
Qed.

Lemma nolf_num_text : forall n, nolf (num_text n).
Proof.
  intro n. destruct n; cbn [num_text]; try (apply nolf_mem; reflexivity). apply nolf_fmt_dec.
Qed.

Lemma nolf_ty_text : forall t, nolf (ty_text t).
Proof. intro t. destruct t; apply nolf_mem; reflexivity. Qed.

Lemma nolf_kind_key : forall k, nolf (kind_key k).
Proof. intro k. destruct k; apply nolf_mem; reflexivity. Qed.

Lemma Forall_opt_field : forall A (P : list N -> Prop) (o : option A) f,
  Forall P (opt_field o f) <-> match o with Some a => P (f a) | None => True end.
Proof.
  intros A P o f. destruct o as [a|]; cbn [opt_field].
  - rewrite Forall_cons_iff, Forall_nil_iff. tauto.
  - apply Forall_nil_iff.
Qed.

Lemma nolf_const_field : forall k v, nolf k -> nolf v -> (nolf (w_raw_field k v) <-> True).
Proof. intros k v Hk Hv. rewrite nolf_raw_field. tauto. Qed.

Lemma map_fields_nolf : forall k m, Forall nolf (map_fields k m) <-> hmap_nolf k m.
Proof.
  intros k m. unfold map_fields, hmap_nolf.
  rewrite !Forall_app, Forall_cons_iff, Forall_nil_iff, Forall_map, nolf_raw_field.
  assert (Hid : nolf t_ID) by (apply nolf_mem; reflexivity).
  assert (Hnt : (if uses_numty k
                 then Forall nolf (opt_field (m_num m) (fun n => w_raw_field t_Number (num_text n))
                                   ++ opt_field (m_ty m) (fun t => w_raw_field t_Type (ty_text t)))
                 else Forall nolf []) <-> True).
  { destruct (uses_numty k); [|apply Forall_nil_iff].
    rewrite Forall_app, !Forall_opt_field. split; [tauto|]. intros _. split.
    - destruct (m_num m) as [n|]; [|exact I]. apply nolf_raw_field. split; [apply nolf_mem; reflexivity|apply nolf_num_text].
    - destruct (m_ty m) as [t|]; [|exact I]. apply nolf_raw_field. split; [apply nolf_mem; reflexivity|apply nolf_ty_text]. }
  assert (Hde : (if uses_desc k then Forall nolf (opt_field (m_desc m) (w_str_field t_Description))
                 else Forall nolf []) <-> (if uses_desc k then opt_nolf (m_desc m) else True)).
  { destruct (uses_desc k); [|apply Forall_nil_iff].
    rewrite Forall_opt_field. destruct (m_desc m) as [d|]; cbn [opt_nolf]; [|tauto].
    rewrite nolf_str_field. split; [tauto|]. intro Hd. split; [apply nolf_mem; reflexivity|exact Hd]. }
  assert (Hco : (if uses_contig k
                 then Forall nolf (opt_field (m_len m) (fun n => w_raw_field t_length (fmt_dec n))
                                   ++ opt_field (m_md5 m) (w_raw_field t_md5)
                                   ++ opt_field (m_url m) (w_raw_field t_URL))
                 else Forall nolf [])
                <-> (if uses_contig k then opt_nolf (m_md5 m) /\ opt_nolf (m_url m) else True)).
  { destruct (uses_contig k); [|apply Forall_nil_iff].
    rewrite !Forall_app, !Forall_opt_field.
    assert (Hl : match m_len m with Some a => nolf (w_raw_field t_length (fmt_dec a)) | None => True end).
    { destruct (m_len m) as [n|]; [|exact I]. apply nolf_raw_field. split; [apply nolf_mem; reflexivity|apply nolf_fmt_dec]. }
    assert (H5 : match m_md5 m with Some a => nolf (w_raw_field t_md5 a) | None => True end <-> opt_nolf (m_md5 m)).
    { destruct (m_md5 m) as [v|]; cbn [opt_nolf]; [|tauto]. rewrite nolf_raw_field.
      split; [tauto|]. intro Hv. split; [apply nolf_mem; reflexivity|exact Hv]. }
    assert (Hu : match m_url m with Some a => nolf (w_raw_field t_URL a) | None => True end <-> opt_nolf (m_url m)).
    { destruct (m_url m) as [v|]; cbn [opt_nolf]; [|tauto]. rewrite nolf_raw_field.
      split; [tauto|]. intro Hv. split; [apply nolf_mem; reflexivity|exact Hv]. }
    tauto. }
  assert (Hix : (if uses_idx k then Forall nolf (opt_field (m_idx m) (fun n => w_raw_field t_IDX (fmt_dec n)))
                 else Forall nolf []) <-> True).
  { destruct (uses_idx k); [|apply Forall_nil_iff].
    rewrite Forall_opt_field. split; [tauto|]. intros _.
    destruct (m_idx m) as [n|]; [|exact I]. apply nolf_raw_field. split; [apply nolf_mem; reflexivity|apply nolf_fmt_dec]. }
  assert (Hot : Forall (fun x => nolf (w_str_field (fst x) (snd x))) (m_others m) <-> Forall kv_nolf (m_others m)).
  { split; intro H; (eapply Forall_impl; [|exact H]); intros kv Hkv; apply nolf_str_field; exact Hkv. }
  (* the ifs are inside Forall: move them out *)
  assert (Hif : forall (b : bool) (l : list (list N)), Forall nolf (if b then l else []) <-> (if b then Forall nolf l else Forall nolf [])).
  { intros b l. destruct b; reflexivity. }
  rewrite !Hif. tauto.
Qed.

(* ---------------------------------------------------------------------------------------- *)
(* lines *)

Lemma nolf_w_line : forall key v, nolf (w_line key v) <-> nolf key /\ nolf v.
Proof.
  intros key v. unfold w_line. rewrite !nolf_cons, nolf_app, nolf_cons.
  split; [tauto|]. intros (Hk & Hv). repeat split; try discriminate; assumption.
Qed.

Lemma ends_cr_w_line : forall key v, ends_cr (w_line key v) = ends_cr v.
Proof.
  intros key v. unfold w_line.
  change (35 :: 35 :: key ++ 61 :: v) with ((35 :: 35 :: key) ++ 61 :: v).
  apply ends_cr_app_cons. discriminate.
Qed.

(* '<' fields '>' *)
Lemma angle_framed : forall key fs,
  line_framed (w_line key (60 :: join 44 fs ++ [62])) <-> nolf key /\ Forall nolf fs.
Proof.
  intros key fs. unfold line_framed. fold (nolf (w_line key (60 :: join 44 fs ++ [62]))).
  rewrite nolf_w_line, nolf_cons, nolf_app, (nolf_join 44 fs) by discriminate.
  rewrite ends_cr_w_line. change (60 :: join 44 fs ++ [62]) with ((60 :: join 44 fs) ++ [62]).
  rewrite ends_cr_snoc. split.
  - intros ((Hk & _ & Hf & _) & _). now split.
  - intros (Hk & Hf). repeat split; try assumption; try discriminate. apply nolf_mem. reflexivity.
Qed.

Lemma map_line_framed : forall k m, line_framed (w_map_line k m) <-> hmap_nolf k m.
Proof.
  intros k m. unfold w_map_line. rewrite angle_framed, map_fields_nolf.
  split; [tauto|]. intro H. split; [apply nolf_kind_key|exact H].
Qed.

Lemma omap_line_framed : forall key m, line_framed (w_omap_line key m) <-> nolf key /\ omap_nolf m.
Proof.
  intros key m. unfold w_omap_line. rewrite angle_framed. unfold omap_fields, omap_nolf.
  rewrite Forall_cons_iff, Forall_map, nolf_raw_field.
  assert (Hf : Forall (fun x => nolf (w_ofield (bytes_eqb key k_META) x)) (o_fields m) <-> Forall kv_nolf (o_fields m)).
  { split; intro H; (eapply Forall_impl; [|exact H]); intros kv Hkv; apply (nolf_ofield (bytes_eqb key k_META)); exact Hkv. }
  tauto.
Qed.

Lemma ustr_line_framed : forall key v,
  line_framed (w_line key v) <-> nolf key /\ nolf v /\ ends_cr v = false.
Proof.
  intros key v. unfold line_framed. fold (nolf (w_line key v)).
  rewrite nolf_w_line, ends_cr_w_line. tauto.
Qed.

Lemma fileformat_framed : forall ff, line_framed (w_fileformat ff).
Proof.
  intro ff. unfold w_fileformat. apply ustr_line_framed. split; [apply nolf_mem; reflexivity|]. split.
  - apply nolf_app. split; [apply nolf_mem; reflexivity|]. apply nolf_app. split; [apply nolf_fmt_dec|].
    apply nolf_cons. split; [discriminate|apply nolf_fmt_dec].
  - rewrite app_assoc. change (46 :: fmt_dec (snd ff)) with ([46] ++ fmt_dec (snd ff)).
    rewrite app_assoc, ends_cr_app_ne by apply fmt_dec_nonempty.
    destruct (exists_last (fmt_dec_nonempty (snd ff))) as (q & x & E).
    assert (Hx : x <> 13).
    { intro Ex. apply (fmt_dec_avoids (snd ff) 13); [left; lia|]. rewrite E. apply in_or_app. right. left. now symmetry. }
    rewrite E, ends_cr_snoc. lia.
Qed.

Lemma last_app_ne : forall (a b : list (list N)) d, b <> [] -> last (a ++ b) d = last b d.
Proof.
  intros a b d Hne. induction a as [|x a IH]; [reflexivity|].
  cbn [app]. destruct (a ++ b) as [|y r] eqn:E.
  - destruct a; [cbn [app] in E; contradiction|discriminate].
  - cbn [last]. exact IH.
Qed.

Lemma columns_framed : forall ss, line_framed (w_columns ss) <-> samples_framed ss.
Proof.
  intro ss. unfold line_framed, w_columns, samples_framed.
  fold (nolf (join 9 (columns8 ++ match ss with [] => [] | _ :: _ => k_FORMAT :: ss end))).
  rewrite nolf_join by discriminate. rewrite ends_cr_join by discriminate.
  rewrite Forall_app.
  assert (H8 : Forall nolf columns8) by (repeat constructor; apply nolf_mem; reflexivity).
  destruct ss as [|s ss'].
  - rewrite app_nil_r. cbn [last columns8]. split.
    + intros _. split; [constructor|reflexivity].
    + intros _. split; [split; [exact H8|constructor]|reflexivity].
  - assert (Hl : last (columns8 ++ k_FORMAT :: s :: ss') [] = last (s :: ss') []).
    { rewrite last_app_ne by discriminate. reflexivity. }
    rewrite Hl, (Forall_cons_iff nolf k_FORMAT). split.
    + intros ((_ & _ & Hs) & He). now split.
    + intros (Hs & He). repeat split; try assumption. apply nolf_mem. reflexivity.
Qed.

(* ---------------------------------------------------------------------------------------- *)
(* other records *)

Lemma other_value_some : forall ff v t, w_other_value ff v = Some t -> t = v.
Proof.
  intros ff v t H. unfold w_other_value in H. destruct (ff_lt_43 ff); [now inversion H|].
  destruct v as [|b v']; [discriminate|]. destruct (b =? 60); [discriminate|now inversion H].
Qed.

Lemma ustr_group_lines : forall ff key vs ls,
  sequence (map (fun v => match w_other_value ff v with
                          | Some t => Some (w_line key t)
                          | None => None end) vs) = Some ls ->
  ls = map (w_line key) vs.
Proof.
  intros ff key vs. induction vs as [|v vs IH]; intros ls H; cbn [map sequence] in H.
  - now inversion H.
  - destruct (w_other_value ff v) as [t|] eqn:Ev; [|discriminate].
    destruct (sequence (map _ vs)) as [r|] eqn:Er; [|discriminate].
    inversion H; subst ls. cbn [map]. rewrite (other_value_some _ _ _ Ev), (IH r eq_refl). reflexivity.
Qed.

Lemma group_lines_framed : forall ff g ls,
  w_other_group ff g = Some ls -> (Forall line_framed ls <-> group_framed g).
Proof.
  intros ff g ls H. unfold w_other_group in H. unfold group_framed.
  destruct (snd g) as [vs|ms].
  - apply ustr_group_lines in H. subst ls. rewrite Forall_map.
    split; intro H; (eapply Forall_impl; [|exact H]); intros v Hv; apply ustr_line_framed; exact Hv.
  - inversion H; subst ls. rewrite Forall_map.
    split; intro H0; (eapply Forall_impl; [|exact H0]); intros m Hm; apply omap_line_framed; exact Hm.
Qed.

Lemma groups_lines_framed : forall ff gs groups,
  sequence (map (w_other_group ff) gs) = Some groups ->
  (Forall line_framed (concat groups) <-> Forall group_framed gs).
Proof.
  intros ff gs. induction gs as [|g gs IH]; intros groups H; cbn [map sequence] in H.
  - inversion H; subst groups. cbn [concat]. rewrite !Forall_nil_iff. tauto.
  - destruct (w_other_group ff g) as [ls|] eqn:Eg; [|discriminate].
    destruct (sequence (map _ gs)) as [r|] eqn:Er; [|discriminate].
    inversion H; subst groups. cbn [concat].
    rewrite Forall_app, Forall_cons_iff, (group_lines_framed _ _ _ Eg), (IH r eq_refl). tauto.
Qed.

(* ---------------------------------------------------------------------------------------- *)
(* the header *)

Lemma map_lines_framed : forall k ms,
  Forall line_framed (map (w_map_line k) ms) <-> Forall (hmap_nolf k) ms.
Proof.
  intros k ms. rewrite Forall_map.
  split; intro H; (eapply Forall_impl; [|exact H]); intros m Hm; apply map_line_framed; exact Hm.
Qed.

Theorem header_framed_iff_values : forall h ls,
  write_header h = Some ls -> (Forall line_framed ls <-> hdr_vals_framed h).
Proof.
  intros h ls H. unfold write_header in H.
  destruct (sequence (map (w_other_group (hh_ff h)) (hh_others h))) as [groups|] eqn:Eg; [|discriminate].
  inversion H; subst ls. unfold hdr_vals_framed.
  rewrite Forall_cons_iff, !Forall_app, !map_lines_framed, (groups_lines_framed _ _ _ Eg),
    Forall_cons_iff, Forall_nil_iff, columns_framed.
  pose proof (fileformat_framed (hh_ff h)) as Hff. tauto.
Qed.

(* the writer's lines are framed when the value is *)
Theorem header_framed_of_values : forall h ls,
  hdr_vals_framed h -> write_header h = Some ls -> Forall line_framed ls.
Proof.
  intros h ls Hv Hw. now apply (header_framed_iff_values h ls Hw).
Qed.

(* and only then *)
Theorem header_values_of_framed : forall h ls,
  write_header h = Some ls -> Forall line_framed ls -> hdr_vals_framed h.
Proof.
  intros h ls Hw Hf. now apply (header_framed_iff_values h ls Hw).
Qed.

(* the simpler sufficient condition: the key of every collection, used or not *)
Definition group_framed_simple (g : list N * hcoll) : Prop :=
  nolf (fst g) /\ match snd g with
                  | CU vs => Forall (fun v => nolf v /\ ends_cr v = false) vs
                  | CS ms => Forall omap_nolf ms
                  end.

Lemma group_framed_of_simple : forall g, group_framed_simple g -> group_framed g.
Proof.
  intros g (Hk & Hc). unfold group_framed. destruct (snd g) as [vs|ms];
    (eapply Forall_impl; [|exact Hc]); intros x Hx; split; assumption.
Qed.

(* for a non-empty collection the two coincide *)
Lemma group_framed_simple_iff : forall g,
  (match snd g with CU vs => vs <> [] | CS ms => ms <> [] end) ->
  (group_framed g <-> group_framed_simple g).
Proof.
  intros g Hne. split; [|apply group_framed_of_simple].
  unfold group_framed, group_framed_simple. destruct (snd g) as [vs|ms]; intro H.
  - split.
    + destruct vs as [|v vs']; [contradiction|]. pose proof (Forall_inv H) as Hx. cbv beta in Hx. tauto.
    + eapply Forall_impl; [|exact H]. intros x Hx. cbv beta in Hx. tauto.
  - split.
    + destruct ms as [|m ms']; [contradiction|]. pose proof (Forall_inv H) as Hx. cbv beta in Hx. tauto.
    + eapply Forall_impl; [|exact H]. intros x Hx. cbv beta in Hx. tauto.
Qed.

(* a witness that the CR condition is needed: a 4.2 unstructured value ending in CR *)
Example cr_value_not_framed :
  exists h ls, write_header h = Some ls /\ ~ Forall line_framed ls
               /\ Forall (fun l => ~ In 10 l) ls.
Proof.
  exists {| hh_ff := (4, 2); hh_infos := []; hh_filters := []; hh_formats := []; hh_alts := [];
            hh_contigs := []; hh_others := [([97], CU [[98; 13]])]; hh_samples := [] |}.
  eexists. split; [vm_compute; reflexivity|]. split.
  - intro H. inversion H as [|x l _ H1]; subst. inversion H1 as [|x l (_ & Hc) _]; subst.
    vm_compute in Hc. discriminate.
  - repeat constructor; apply nolf_mem; reflexivity.
Qed.

Print Assumptions header_framed_iff_values.
Print Assumptions header_values_of_framed.
Print Assumptions header_framed_of_values.
