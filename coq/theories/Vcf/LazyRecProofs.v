(* C09 -- lemmas about NV.Vcf.LazyRec: the bounds read_record stores are nondecreasing and end
   inside the buffer, for every input, so no accessor of Fields can panic. *)
From Coq Require Import List NArith Arith Bool Lia.
From NV Require Import Text.TextBase Text.TextBaseProofs Vcf.Values Vcf.Span Vcf.Line Vcf.LazyRec.
Import ListNotations.
Open Scope nat_scope.

Lemma scan_fld_len : forall src f d r, scan_fld src = (f, d, r) ->
  length src = length f + match d with Some _ => 1 | None => 0 end + length r.
Proof.
  induction src as [|b t IH]; intros f d r H; cbn [scan_fld] in H.
  - inversion H. reflexivity.
  - destruct ((b =? 9)%N || (b =? 10)%N)%bool.
    + inversion H. cbn [length]. lia.
    + destruct (scan_fld t) as [[f' d'] r'] eqn:E. inversion H; subst. cbn [length].
      specialize (IH f' d r eq_refl). lia.
Qed.

Lemma removelast_length : forall (A : Type) (l : list A), length (removelast l) = length l - 1.
Proof.
  induction l as [|a l IH]; [reflexivity|]. destruct l as [|b l]; [reflexivity|].
  change (removelast (a :: b :: l)) with (a :: removelast (b :: l)). cbn [length] in *. lia.
Qed.

Lemma pop_cr_length : forall s, length s - 1 <= length (pop_cr s) <= length s.
Proof.
  intro s. unfold pop_cr. destruct (ends_cr s); [rewrite removelast_length|]; lia.
Qed.

Section V.
Variable valid : list N -> bool.

Lemma rd_field_inv : forall src dst dst1 n eol r,
  rd_field valid src dst = FOk dst1 n eol r ->
  length dst <= length dst1 /\ n + length r = length src.
Proof.
  intros src dst dst1 n eol r H. unfold rd_field in H.
  destruct (scan_fld src) as [[f d] r'] eqn:E. pose proof (scan_fld_len _ _ _ _ E) as L.
  destruct (valid f); [|discriminate]. inversion H; subst. clear H. split; [|lia].
  destruct (match d with Some c => (c =? 10)%N | None => false end); cbn [andb].
  - destruct (length dst <? length (dst ++ f)) eqn:C.
    + apply Nat.ltb_lt in C. pose proof (pop_cr_length (dst ++ f)). lia.
    + rewrite app_length. lia.
  - rewrite app_length. lia.
Qed.

Lemma chain_snoc : forall ends lo mid e hi,
  chain lo ends mid -> mid <= e -> e <= hi -> chain lo (ends ++ [e]) hi.
Proof.
  induction ends as [|x t IH]; intros lo mid e hi H1 H2 H3; cbn [chain app] in *.
  - split; lia.
  - destruct H1 as [A B]. split; [exact A|]. eapply IH; eassumption.
Qed.

Lemma chain_weaken : forall ends lo hi hi', chain lo ends hi -> hi <= hi' -> chain lo ends hi'.
Proof.
  induction ends as [|x t IH]; intros lo hi hi' H1 H2; cbn [chain] in *; [lia|].
  destruct H1 as [A B]. split; [exact A|]. eapply IH; eassumption.
Qed.

Lemma rd_required_inv : forall k src dst ends n dst' ends' n' rest,
  rd_required valid k src dst ends n = QOk dst' ends' n' rest ->
  chain 0 ends (length dst) ->
  chain 0 ends' (length dst') /\ length ends' = length ends + k /\ n' + length rest = n + length src.
Proof.
  induction k as [|k IH]; intros src dst ends n dst' ends' n' rest H Hc; cbn [rd_required] in H.
  - inversion H; subst. repeat split; try assumption; lia.
  - destruct (rd_field valid src dst) as [|dst1 n1 eol r] eqn:E; [discriminate|].
    destruct eol; [discriminate|].
    destruct (rd_field_inv _ _ _ _ _ _ E) as [L1 L2].
    destruct (IH _ _ _ _ _ _ _ _ H) as (A & B & C).
    + eapply chain_snoc; [exact Hc|exact L1|lia].
    + split; [exact A|]. rewrite app_length in B. cbn [length] in B. split; lia.
Qed.

(* THE BOUNDS: whatever the input, an Ok result carries eight nondecreasing bounds, the last one
   inside the buffer, and has consumed exactly n bytes *)
Theorem rd_record_bounds : forall text n buf ends rest,
  rd_record valid text = ROk n buf ends rest ->
  length ends = 8 /\ chain 0 ends (length buf) /\ n + length rest = length text.
Proof.
  intros text n buf ends rest H. unfold rd_record in H.
  destruct (rd_required valid 7 text [] [] 0) as [|dst1 ends1 n1 rest1] eqn:E1; [discriminate|].
  destruct (rd_required_inv _ _ _ _ _ _ _ _ _ E1) as (A & B & C); [cbn; lia|].
  destruct (rd_field valid rest1 dst1) as [|dst2 n2 eol rest2] eqn:E2; [discriminate|].
  destruct (rd_field_inv _ _ _ _ _ _ E2) as [L1 L2].
  assert (Hc2 : chain 0 (ends1 ++ [length dst2]) (length dst2)) by (eapply chain_snoc; [exact A|exact L1|lia]).
  assert (Hl2 : length (ends1 ++ [length dst2]) = 8) by (rewrite app_length; cbn [length] in *; lia).
  destruct eol.
  - inversion H; subst. repeat split; try assumption. lia.
  - unfold rd_tail in H.
    destruct (valid _); [|discriminate]. inversion H; subst. clear H.
    split; [exact Hl2|]. split.
    + eapply chain_weaken; [exact Hc2|]. rewrite app_length. lia.
    + rewrite skipn_length.
      assert (Hn : length (line_raw rest2) + (if mem 10%N rest2 then 1 else 0) <= length rest2).
      { clear. unfold line_raw. induction rest2 as [|b t IH]; [cbn; lia|].
        cbn [take_until mem]. destruct (b =? 10)%N; cbn [orb length]; [lia|]. cbn [length]. lia. }
      lia.
Qed.

End V.

Lemma slice_ok : forall a b buf, a <= b -> b <= length buf -> slice a b buf <> None.
Proof.
  intros a b buf H1 H2. unfold slice.
  apply Nat.leb_le in H1. apply Nat.leb_le in H2. rewrite H1, H2. discriminate.
Qed.

Lemma chain_bounds : forall ends lo hi, chain lo ends hi ->
  lo <= hi /\ forall i, S i < length ends -> nth i ends 0 <= nth (S i) ends 0.
Proof.
  induction ends as [|e t IH]; intros lo hi H; cbn [chain] in H.
  - split; [exact H|]. intros i Hi. cbn in Hi. lia.
  - destruct H as [A B]. destruct (IH _ _ B) as [C D]. split; [lia|].
    intros i Hi. destruct t as [|e2 t2]; [cbn in Hi; lia|].
    destruct i as [|i]; [cbn [nth]; cbn [chain] in B; lia|].
    cbn [nth length] in *. apply (D i). lia.
Qed.

(* bounds like that keep every slice of Fields in range *)
Lemma fields_of_chain : forall buf ends,
  length ends = 8 -> chain 0 ends (length buf) -> fields_of buf ends <> None.
Proof.
  intros buf ends Hl Hc.
  destruct ends as [|e0 [|e1 [|e2 [|e3 [|e4 [|e5 [|e6 [|e7 [|x t]]]]]]]]]; try discriminate.
  cbn [chain] in Hc. destruct Hc as (H0 & H1 & H2 & H3 & H4 & H5 & H6 & H7 & H8).
  unfold fields_of, bound, slice, slice_from. cbn [nth].
  repeat match goal with
         | |- context [(?a <=? ?b)] =>
             let E := fresh "E" in
             assert (E : (a <=? b) = true) by (apply Nat.leb_le; lia); rewrite E; clear E
         end.
  cbn [andb]. discriminate.
Qed.

(* NO PANIC: for every validity predicate, float parser, header and input, one read_record that
   returns Ok followed by every accessor of the record never reaches a slice out of range *)
Theorem lazy_never_panics : forall valid prs_float h text, lazy_run prs_float valid h text <> LPanic.
Proof.
  intros valid prs h text. unfold lazy_run.
  destruct (rd_record valid text) as [|n buf ends rest] eqn:E; [discriminate|].
  destruct (rd_record_bounds valid _ _ _ _ _ E) as (A & B & _).
  destruct n; [discriminate|].
  pose proof (fields_of_chain buf ends A B) as F.
  destruct (fields_of buf ends); [discriminate|contradiction].
Qed.

Lemma lazy_file_never_panics : forall fuel valid prs_float h text,
  ~ In LPanic (lazy_file prs_float fuel valid h text).
Proof.
  induction fuel as [|k IH]; intros valid prs h text; cbn [lazy_file]; [intros []|].
  pose proof (lazy_never_panics valid prs h text) as NP.
  destruct (lazy_run prs valid h text) as [| | |n f r rest] eqn:E.
  - contradiction.
  - intros [X|[]]. discriminate.
  - intros [X|[]]. discriminate.
  - intros [X|X]; [discriminate|]. exact (IH _ _ _ _ X).
Qed.

Theorem lazy_records_never_panic : forall valid prs_float h text,
  ~ In LPanic (lazy_records prs_float valid h text).
Proof. intros. apply lazy_file_never_panics. Qed.
