(* C09 -- VCF record values as text: what noodles-vcf's record writer emits for INFO and
   FORMAT/sample values and what the two readers (the eager RecordBuf parser under
   io/reader/record_buf/ and the lazy vcf::Record views under record/ ) make of it.
   Definitions only; the lemmas are in Vcf/ValuesProofs.v.

   Conventions.  Text is a list of bytes (N).  A Character is its code point and the model covers
   the ASCII ones (< 128); Strings are their UTF-8 bytes (the crate's UTF-8 validity check of a
   percent-decoded string is not modelled: text is assumed to decode to valid UTF-8).  A Float is
   its f32 bit pattern; Rust's `{}` formatting and `str::parse::<f32>` are the Section variables
   [fmt_float] / [prs_float] (an oracle pair supplied per case by the harness).  Parse results
   are [option]: [None] is any Err (error kinds are not compared). *)
From Coq Require Import List NArith ZArith Bool.
From NV Require Import Base.Percent Text.TextBase.
Import ListNotations.
Open Scope N_scope.

Inductive ctx := CInfo | CFormat.
Inductive vtype := TInteger | TFloat | TFlag | TCharacter | TString.
(* header Number: only Count(0) and Count(1) are distinguished by the value parsers; A, R, G, '.'
   and Count(n >= 2) all select the array grammar *)
Inductive vnumber := NCount (n : N) | NOther.

Inductive value :=
| VInteger (z : Z)
| VFloat (bits : N)
| VFlag
| VCharacter (c : N)
| VString (s : list N)
| VIntArr (l : list (option Z))
| VFloatArr (l : list (option N))
| VCharArr (l : list (option N))
| VStrArr (l : list (option (list N)))
(* allele = (position or missing, phased?) *)
| VGenotype (g : list (option N * bool)).

(* ---------------------------------------------------------------------------------------- *)
(* the writers' escape sets (io/writer/record/info/field/value/{string,character}.rs and
   io/writer/record/samples/sample/value/{string,character}.rs) *)

Definition is_control (b : N) : bool := (b <? 32) || (b =? 127).

(* CONTROLS + {';' '=' '%' ',' CR LF TAB} for INFO, CONTROLS + {':' '%' ',' CR LF TAB} for
   FORMAT; utf8_percent_encode escapes every non-ASCII byte whatever the set says *)
Definition str_set (c : ctx) (b : N) : bool :=
  is_control b || (128 <=? b) || (b =? 37) || (b =? 44) ||
  match c with CInfo => (b =? 59) || (b =? 61) | CFormat => (b =? 58) end.

(* write_character: is_ascii_control or one of the listed characters (the string set plus '.') *)
Definition chr_set (c : ctx) (b : N) : bool :=
  is_control b || (b =? 37) || (b =? 44) || (b =? 46) ||
  match c with CInfo => (b =? 59) || (b =? 61) | CFormat => (b =? 58) end.

Definition dot : list N := [46].

(* write_string: a lone "." is written %2E, anything else through the escape set *)
Definition write_string (c : ctx) (s : list N) : list N :=
  if bytes_eqb s dot then pct_byte 46 else pct_enc (str_set c) s.

(* write_character, ASCII characters *)
Definition write_char (c : ctx) (ch : N) : list N :=
  if chr_set c ch then pct_byte ch else [ch].

(* i32 Display *)
Definition fmt_int (z : Z) : list N :=
  match z with
  | Zneg p => 45 :: fmt_dec (Npos p)
  | _ => fmt_dec (Z.to_N z)
  end.

(* write_integer: values <= i32::MIN + 7 are rejected *)
Definition int_min_valid : Z := (-2147483641)%Z.
Definition write_int (z : Z) : option (list N) :=
  if (int_min_valid <? z)%Z then Some (fmt_int z) else None.

(* i32::from_str: optional sign, at least one digit, range check *)
Definition parse_i32 (s : list N) : option Z :=
  let rng (z : Z) := if ((-2147483648 <=? z) && (z <=? 2147483647))%Z then Some z else None in
  match s with
  | 45 :: t => match parse_dec t with Some n => rng (- Z.of_N n)%Z | None => None end
  | 43 :: t => match parse_dec t with Some n => rng (Z.of_N n) | None => None end
  | _ => match parse_dec s with Some n => rng (Z.of_N n) | None => None end
  end.

(* usize::from_str (64-bit): optional '+', digits, range *)
Definition parse_usize (s : list N) : option N :=
  let rng (n : N) := if n <=? u64_max then Some n else None in
  match s with
  | 43 :: t => match parse_dec t with Some n => rng n | None => None end
  | _ => match parse_dec s with Some n => rng n | None => None end
  end.

Fixpoint sequence {A} (l : list (option A)) : option (list A) :=
  match l with
  | [] => Some []
  | None :: _ => None
  | Some a :: t => match sequence t with Some r => Some (a :: r) | None => None end
  end.

(* array writers: entries joined by ',', a missing entry is "." *)
Definition write_items {A} (f : A -> option (list N)) (l : list (option A)) : option (list N) :=
  match sequence (map (fun o => match o with None => Some dot | Some a => f a end) l) with
  | Some ps => Some (join 44 ps)
  | None => None
  end.

(* array parsers: split(','), "." is a missing entry *)
Definition parse_items {A} (f : list N -> option A) (s : list N) : option (list (option A)) :=
  sequence (map (fun t => if bytes_eqb t dot then Some None
                          else match f t with Some a => Some (Some a) | None => None end)
                (split_all 44 s)).

(* exactly one character (ASCII text) *)
Definition parse_char_raw (s : list N) : option N :=
  match s with [c] => Some c | _ => None end.

(* ---------------------------------------------------------------------------------------- *)
(* genotypes *)

Definition is_ph (b : N) : bool := (b =? 47) || (b =? 124).
Definition ph_char (phased : bool) : N := if phased then 124 else 47.

Definition pos_text (p : option N) : list N :=
  match p with None => dot | Some n => fmt_dec n end.

(* io/writer/record/samples/sample/value/genotype.rs: before VCF 4.4 the first allele's phasing
   is not written; from 4.4 every allele is prefixed with its phasing *)
Fixpoint write_gt_tail (g : list (option N * bool)) : list N :=
  match g with
  | [] => []
  | (p, ph) :: t => ph_char ph :: pos_text p ++ write_gt_tail t
  end.

Definition write_genotype (v44 : bool) (g : list (option N * bool)) : list N :=
  if v44 then write_gt_tail g
  else match g with
       | [] => []
       | (p, _) :: t => pos_text p ++ write_gt_tail t
       end.

(* next_allele, iterated: the text is cut before every phasing indicator except one at index 0
   of a piece *)
Fixpoint gt_chunks (cur : list N) (s : list N) : list (list N) :=
  match s with
  | [] => [rev cur]
  | b :: t => if is_ph b then rev cur :: gt_chunks [b] t else gt_chunks (b :: cur) t
  end.

Definition gt_split (s : list N) : list (list N) :=
  match s with [] => [] | b :: t => gt_chunks [b] t end.

Definition parse_gt_pos (s : list N) : option (option N) :=
  if bytes_eqb s dot then Some None
  else match parse_usize s with Some n => Some (Some n) | None => None end.

Definition parse_gt_phasing (b : N) : option bool :=
  if b =? 124 then Some true else if b =? 47 then Some false else None.

(* Allele::from_str / parse_allele *)
Definition parse_gt_allele (s : list N) : option (option N * bool) :=
  match s with
  | [] => None
  | b :: t =>
      match parse_gt_phasing b, parse_gt_pos t with
      | Some ph, Some p => Some (p, ph)
      | _, _ => None
      end
  end.

(* parse_first_allele: explicit phasing or none *)
Definition parse_gt_first (s : list N) : option (option N * option bool) :=
  match s with
  | [] => None
  | b :: t =>
      match parse_gt_phasing b with
      | Some ph => match parse_gt_pos t with Some p => Some (p, Some ph) | None => None end
      | None => match parse_gt_pos s with Some p => Some (p, None) | None => None end
      end
  end.

(* variant/record_buf/samples/sample/value/genotype/parser.rs::parse *)
Definition parse_genotype (s : list N) : option (list (option N * bool)) :=
  match gt_split s with
  | [] => None
  | c0 :: cs =>
      match parse_gt_first c0, sequence (map parse_gt_allele cs) with
      | Some (p0, oph), Some rest =>
          let ph0 := match oph with
                     | Some ph => ph
                     | None => negb (existsb (fun a => negb (snd a)) rest)
                     end in
          Some ((p0, ph0) :: rest)
      | _, _ => None
      end
  end.

(* record/samples/series/value/genotype.rs: the lazy iterator, forced.  The implicit first
   phasing is decided from the bytes that follow the first piece. *)
Definition parse_genotype_lazy (s : list N) : option (list (option N * bool)) :=
  match gt_split s with
  | [] => None        (* parse_first_allele on "" : parse_position("") fails *)
  | c0 :: cs =>
      let rest_bytes := concat cs in
      let first :=
        match c0 with
        | b :: t =>
            if is_ph b then
              match parse_gt_phasing b, parse_gt_pos t with
              | Some ph, Some p => Some (p, ph)
              | _, _ => None
              end
            else
              match parse_gt_pos c0 with
              | Some p => Some (p, negb (existsb (fun x => x =? 47) rest_bytes))
              | None => None
              end
        | [] => None
        end in
      match first, sequence (map parse_gt_allele cs) with
      | Some a0, Some rest => Some (a0 :: rest)
      | _, _ => None
      end
  end.

(* ---------------------------------------------------------------------------------------- *)
Section WithFloat.
Variable fmt_float : N -> list N.            (* f32 Display, on the bit pattern *)
Variable prs_float : list N -> option N.     (* str::parse::<f32>, to the bit pattern *)

(* write_value (info and sample): None = WriteError (invalid integer).  Genotypes are written
   by [write_genotype] (they need the file format) *)
Definition write_value (c : ctx) (v44 : bool) (v : value) : option (list N) :=
  match v with
  | VInteger z => write_int z
  | VFloat b => Some (fmt_float b)
  | VFlag => Some []
  | VCharacter ch => Some (write_char c ch)
  | VString s => Some (write_string c s)
  | VIntArr l => write_items write_int l
  | VFloatArr l => write_items (fun b => Some (fmt_float b)) l
  | VCharArr l => write_items (fun ch => Some (write_char c ch)) l
  | VStrArr l => write_items (fun s => Some (write_string c s)) l
  | VGenotype g => Some (write_genotype v44 g)
  end.

(* io/writer/record/info/field.rs::write_field (the key is assumed valid) *)
Definition write_info_field (key : list N) (ov : option value) : option (list N) :=
  match ov with
  | Some VFlag => Some key
  | Some v => match write_value CInfo false v with
              | Some t => Some (key ++ 61 :: t)
              | None => None
              end
  | None => Some (key ++ 61 :: dot)
  end.

(* io/writer/record/samples/sample.rs::write_sample: values joined by ':'; a sample without values
   is written as the missing value "." *)
Definition write_sample (v44 : bool) (vs : list (option value)) : option (list N) :=
  match sequence (map (fun o => match o with
                                | None => Some dot
                                | Some v => write_value CFormat v44 v
                                end) vs) with
  | Some [] => Some dot
  | Some ps => Some (join 58 ps)
  | None => None
  end.

(* parse_value of io/reader/record_buf/info/field/value.rs and
   io/reader/record_buf/samples/values/value.rs (lazy = false), and of
   record/info/field/value.rs, record/samples/series/value.rs with the array iterators of
   variant/record/.../array/values.rs forced (lazy = true).  Both readers percent-decode a
   Character and then require exactly one character.  The lazy array iterators yield nothing for
   an empty text. *)
Definition parse_char (s : list N) : option N := parse_char_raw (pct_dec s).

Definition parse_arr {A} (lazy : bool) (f : list N -> option A) (s : list N)
  : option (list (option A)) :=
  if lazy then match s with [] => Some [] | _ => parse_items f s end
  else parse_items f s.

Definition parse_value (lazy : bool) (num : vnumber) (ty : vtype) (s : list N) : option value :=
  let is0 := match num with NCount n => n =? 0 | NOther => false end in
  let is1 := match num with NCount n => n =? 1 | NOther => false end in
  match ty with
  | TFlag => if is0 then match s with [] => Some VFlag | _ => None end else None
  | _ =>
    if is0 then None
    else if is1 then
      match ty with
      | TInteger => option_map VInteger (parse_i32 s)
      | TFloat => option_map VFloat (prs_float s)
      | TCharacter => option_map VCharacter (parse_char s)
      | _ => Some (VString (pct_dec s))
      end
    else
      match ty with
      | TInteger => option_map VIntArr (parse_arr lazy parse_i32 s)
      | TFloat => option_map VFloatArr (parse_arr lazy prs_float s)
      | TCharacter => option_map VCharArr (parse_arr lazy parse_char s)
      | _ => option_map VStrArr (parse_arr lazy (fun t => Some (pct_dec t)) s)
      end
  end.

(* one INFO field whose key is defined in the header as (num, ty):
   io/reader/record_buf/info/field.rs::parse_field and record/info/field.rs::parse_value.
   Result: None = Err, Some None = missing value, Some (Some v). *)
Definition parse_info_field (lazy : bool) (num : vnumber) (ty : vtype) (field : list N)
  : option (option value) :=
  let raw := match split_once 61 field with Some (_, v) => Some v | None => None end in
  let pv t := match parse_value lazy num ty t with Some v => Some (Some v) | None => None end in
  if lazy then
    match raw with
    | Some t => if bytes_eqb t dot then Some None else pv t
    | None => match ty with TFlag => Some (Some VFlag) | _ => None end
    end
  else
    match ty with
    | TFlag =>
        let t := match raw with Some t => t | None => [] end in
        if bytes_eqb t dot then Some None else pv t
    | _ =>
        match raw with
        | Some t => if bytes_eqb t dot then Some None else pv t
        | None => None
        end
    end.

(* a FORMAT key: GT, or a key defined as (num, ty) *)
Inductive fdef := FGt | FDef (num : vnumber) (ty : vtype).

Definition parse_sample_value (lazy : bool) (d : fdef) (t : list N) : option (option value) :=
  if bytes_eqb t dot then Some None
  else match d with
       | FGt => match (if lazy then parse_genotype_lazy t else parse_genotype t) with
                | Some g => Some (Some (VGenotype g))
                | None => None
                end
       | FDef num ty => match parse_value lazy num ty t with
                        | Some v => Some (Some v)
                        | None => None
                        end
       end.

Fixpoint zip_parse (lazy : bool) (ds : list fdef) (raws : list (list N))
  : list (option (option value)) :=
  match ds, raws with
  | d :: ds', t :: raws' => parse_sample_value lazy d t :: zip_parse lazy ds' raws'
  | _, _ => []
  end.

(* io/reader/record_buf/samples/values.rs::parse_values: "" is an error, "." gives NO values,
   fewer values than keys are accepted (trailing values dropped), more are an error *)
Definition parse_sample_eager (ds : list fdef) (s : list N) : option (list (option value)) :=
  match s with
  | [] => None
  | _ =>
    if bytes_eqb s dot then Some []
    else
      let raws := split_all 58 s in
      match sequence (zip_parse false ds raws) with
      | Some vs => if (length ds <? length raws)%nat then None else Some vs
      | None => None
      end
  end.

(* record/samples/sample.rs::Sample::iter, forced: "" and "." give no values, surplus values are
   ignored *)
Definition parse_sample_lazy (ds : list fdef) (s : list N) : option (list (option value)) :=
  match s with
  | [] => Some []
  | _ =>
    if bytes_eqb s dot then Some []
    else sequence (zip_parse true ds (split_all 58 s))
  end.

End WithFloat.
