(* C09 -- the VCF FILE readers with a model switch for the repair of the open finding
   `file-first-record-chrom-hash-read-as-header-line`.

   /repo today (noodles-vcf/src/io/reader/header.rs::read_header): every line that starts with '#'
   is read through header::Reader and handed to header::Parser::parse_partial until the adapter
   reports the end = NV.Io.HeaderRead.hdr_closed _ 35.

   After fix 08 (/tmp/C09/fixes/08-*.diff): read_header leaves the loop as soon as parse_partial
   returned Entry::Header, i.e. after the line for which `src.starts_with(b"#CHROM")` holds in a
   parser that is not in State::Empty (the FIRST line is parsed as the fileformat line whatever it
   starts with and never yields Entry::Header).  `src` is the line with LF / CR LF stripped
   (read_line of header.rs = NV.Io.BufReader.strip_eol).  The next line stays unread even when it
   starts with '#'.

   Definitions only; the lemmas are in Vcf/FileStopProofs.v. *)
From Coq Require Import List NArith Bool.
From NV Require Import Text.TextBase Vcf.Values Vcf.Span Vcf.Line Vcf.Header Vcf.LazyRec Vcf.File.
From NV Require Io.BufReader Io.HeaderRead.
Import ListNotations.
Open Scope N_scope.

(* the model switch: false = /repo today; true = after fix 08 *)
Definition header_stops_at_chrom_line : bool := true.

(* parse_partial (state Ready): `src.starts_with(b"#CHROM")` on the stripped line *)
Definition is_chrom_line (raw : list N) : bool :=
  match strip_prefix c_CHROM (NV.Io.BufReader.strip_eol raw) with Some _ => true | None => false end.

(* the recursion of NV.Io.HeaderRead.hdr_closed _ 35 with the stop: [first] = the parser is still
   in State::Empty (the line is the fileformat line, never a stop line) *)
Fixpoint hdr_stop (sw : bool) (k : nat) (first : bool) (d : list N) : list (list N) * list N :=
  match k with
  | O => ([], d)
  | S k' =>
    match d with
    | [] => ([], [])
    | x :: _ =>
      if x =? 35 then
        let l := NV.Io.BufReader.take_line NV.Io.BufReader.LF d in
        if sw && negb first && is_chrom_line l then ([l], skipn (List.length l) d)
        else let '(ls, r) := hdr_stop sw k' false (skipn (List.length l) d) in (l :: ls, r)
      else ([], d)
    end
  end.

(* the raw header lines (terminators kept) and the unread rest of the data *)
Definition hdr_closed_sw (sw : bool) (k : nat) (d : list N) : list (list N) * list N :=
  hdr_stop sw k true d.

(* read_header: (the parsed header or Err, the unread rest of the text) *)
Definition read_header_text_sw (sw : bool) (text : list N) : option vheader * list N :=
  let '(raw, rest) := hdr_closed_sw sw (S (List.length text)) text in
  (parse_header_chk (map NV.Io.BufReader.strip_eol raw), rest).

Section WithFloat.
Variable fmt_float : N -> list N.
Variable prs_float : list N -> option N.

Definition read_file_eager_sw (sw : bool) (valid : list N -> bool) (text : list N)
  : option (vheader * (list vrec * bool)) :=
  match read_header_text_sw sw text with
  | (Some h, rest) => Some (h, eager_records prs_float valid (hctx_of_header h) rest)
  | (None, _) => None
  end.

Definition read_file_lazy_sw (sw : bool) (valid : list N -> bool) (text : list N)
  : option (vheader * (list (option vrec) * bool)) :=
  match read_header_text_sw sw text with
  | (Some h, rest) => Some (h, lazy_view (lazy_records prs_float valid (hctx_of_header h) rest))
  | (None, _) => None
  end.

End WithFloat.

(* the readers of the crate as the switch stands *)
Definition read_file_eager_cur (prs_float : list N -> option N) :=
  read_file_eager_sw prs_float header_stops_at_chrom_line.
Definition read_file_lazy_cur (prs_float : list N -> option N) :=
  read_file_lazy_sw prs_float header_stops_at_chrom_line.

(* ... with [valid] = core::str::from_utf8(..).is_ok() (NV.Fasta.Fastq.utf8_valid), as
   NV.Vcf.File.read_file_eager_std / read_file_lazy_std: what the correspondence check runs *)
Definition read_file_eager_cur_std (prs_float : list N -> option N) (text : list N) :=
  read_file_eager_cur prs_float NV.Fasta.Fastq.utf8_valid text.
Definition read_file_lazy_cur_std (prs_float : list N -> option N) (text : list N) :=
  read_file_lazy_cur prs_float NV.Fasta.Fastq.utf8_valid text.

(* the same switch on a header given as LINES without terminators (the line-level model
   NV.Vcf.Header.read_header / NV.Vcf.File.read_header_chk, kinds hw / hp of the correspondence
   check): the lines handed to the parser end with the first line after the first one that starts
   with "#CHROM" *)
Fixpoint header_prefix_sw (sw : bool) (first : bool) (lines : list (list N)) : list (list N) :=
  match lines with
  | (35 :: t) :: rest =>
      if sw && negb first && match strip_prefix c_CHROM (35 :: t) with Some _ => true | None => false end
      then [35 :: t]
      else (35 :: t) :: header_prefix_sw sw false rest
  | _ => []
  end.

Definition read_header_chk_sw (sw : bool) (lines : list (list N)) : option vheader :=
  parse_header_chk (header_prefix_sw sw true lines).
Definition read_header_chk_cur (lines : list (list N)) : option vheader :=
  read_header_chk_sw header_stops_at_chrom_line lines.
