(* C09 -- the lazy file loop (NV.Vcf.LazyLoop.lazy_calls: read_record into ONE lazy Record, every
   call kept, going on after Err) on a text whose lines all end in LF and whose byte strings pass
   the UTF-8 check: one call per line of the text, each consuming exactly its line (also when it
   fails: the only Err left is "unexpected EOL", returned after the LF), each yielding
   Line.read_lazy of the line without LF and one CR.  Hence the lazy and the eager loop
   (NV.Vcf.EagerLoop) frame such a text into the same lines.
     forget_x_record     : rdx_record is LazyRec.rd_record + where an Err leaves the reader
     rdx_cols_err        : an Err on a line of valid columns leaves the reader behind the LF
     lazy_calls_with_lf  : the loop, call by call
   Without the UTF-8 premise the statement is FALSE (an Err inside a line leaves the lazy reader
   behind the failed field: witness lazy_loop_resync_witness). *)
From Coq Require Import List NArith Arith Bool Lia.
From NV Require Import Text.TextBase Text.TextBaseProofs Vcf.Values Vcf.Span Vcf.Line Vcf.LineProofs Vcf.FrameProofs
  Vcf.File Vcf.LazyRec Vcf.LazyRecProofs Vcf.LazyFileProofs Vcf.LazyAgreeProofs Vcf.LazyLoop.
Import ListNotations.
Open Scope nat_scope.

Section V.
Variable valid : list N -> bool.

Lemma forget_q_required : forall k src dst ends n,
  forget_q (rdx_required valid k src dst ends n) = rd_required valid k src dst ends n.
Proof.
  induction k as [|k IH]; intros src dst ends n; [reflexivity|].
  cbn [rdx_required rd_required]. destruct (rd_field valid src dst) as [|d1 n1 eol r]; [reflexivity|].
  destruct eol; [reflexivity|apply IH].
Qed.

Theorem forget_x_record : forall src, forget_x (rdx_record valid src) = rd_record valid src.
Proof.
  intro src. unfold rdx_record, rd_record. rewrite <- forget_q_required.
  destruct (rdx_required valid 7 src [] [] 0) as [r|d1 e n r1]; [reflexivity|]. cbn [forget_q].
  destruct (rd_field valid r1 d1) as [|d2 n2 eol r2]; [reflexivity|].
  destruct eol; [reflexivity|].
  destruct (rd_tail valid r2 d2) as [[[d3 n3] r3]|]; reflexivity.
Qed.

Lemma rdx_required_ok : forall k src dst ends n d e m r,
  rd_required valid k src dst ends n = QOk d e m r -> rdx_required valid k src dst ends n = QXOk d e m r.
Proof.
  intros k src dst ends n d e m r H. rewrite <- forget_q_required in H.
  destruct (rdx_required valid k src dst ends n); cbn [forget_q] in H; [discriminate|].
  now inversion H.
Qed.

(* the LF ends one of the k required fields (all of them valid text): Err behind the LF *)
Lemma rdx_required_err_tail : forall cs tail k dst ends n r,
  cs <> [] -> Forall tlf cs -> (forall p, In p cs -> valid p = true) ->
  rdx_required valid k (line_text cs (10%N :: tail)) dst ends n = QXErr r -> r = tail.
Proof.
  induction cs as [|p cs IH]; intros tail k dst ends n r Hne Hc Hv H; [contradiction|].
  inversion Hc as [|? ? Hp Hc']; subst.
  destruct k as [|k]; [cbn [rdx_required] in H; discriminate|].
  cbn [rdx_required] in H.
  destruct cs as [|q r0].
  - unfold line_text in H. cbn [join] in H.
    rewrite (rd_field_lf_any valid p tail dst Hp (Hv p (or_introl eq_refl))) in H.
    now inversion H.
  - rewrite line_text_cons2, (rd_field_tab_any valid p _ dst Hp (Hv p (or_introl eq_refl))) in H.
    eapply IH; [discriminate|exact Hc'|intros x Hx; apply Hv; right; exact Hx|exact H].
Qed.

Lemma rdx_cols_err : forall cs rest r, cs <> [] -> Forall tlf cs ->
  (forall s, (forall b, In b s -> In b (join 9%N cs ++ [10%N])) -> valid s = true) ->
  rdx_record valid (join 9%N cs ++ 10%N :: rest) = XErr r -> r = rest.
Proof.
  intros cs rest r Hne Hc Hval H.
  assert (Hcol : forall p, In p cs -> valid p = true).
  { intros p Hp. apply Hval. intros b Hb. apply in_or_app. left. exact (In_join_piece _ _ _ _ Hp Hb). }
  destruct (le_lt_dec 8 (length cs)) as [H8|H8].
  2:{ unfold rdx_record in H.
      change (join 9%N cs ++ 10%N :: rest) with (line_text cs (10%N :: rest)) in H.
      destruct (rdx_required valid 7 (line_text cs (10%N :: rest)) [] [] 0) as [r0|d e m r1] eqn:Eq.
      - inversion H; subst r0. exact (rdx_required_err_tail cs rest 7 [] [] 0 r Hne Hc Hcol Eq).
      - pose proof (forget_q_required 7 (line_text cs (10%N :: rest)) [] [] 0) as F.
        rewrite Eq in F. cbn [forget_q] in F.
        rewrite (rd_required_short valid cs rest 7 [] [] 0 Hne Hc) in F by lia. discriminate. }
  exfalso.
  destruct cs as [|c0 [|c1 [|c2 [|c3 [|c4 [|c5 [|c6 [|c7 more]]]]]]]]; try (cbn [length] in H8; lia).
  clear H8 Hne.
  pose (pre := [c0; c1; c2; c3; c4; c5; c6]).
  pose proof (proj1 (Forall_forall _ _) Hc) as Hcl.
  assert (Hpre : Forall tlf pre)
    by (apply Forall_forall; intros p Hp; apply Hcl; subst pre; cbn [In] in Hp |- *; tauto).
  destruct (rd_required_cols_any valid pre (c7 :: more) (10%N :: rest) [] [] 0 ltac:(discriminate) Hpre
              ltac:(intros p Hp; apply Hcol; subst pre; cbn [In] in Hp |- *; tauto)) as (n7 & E7).
  apply rdx_required_ok in E7.
  assert (Hc7 : tlf c7) by (apply Hcl; cbn [In]; tauto).
  assert (Hv7 : valid c7 = true) by (apply Hcol; cbn [In]; tauto).
  assert (Hmore : Forall tlf more) by (apply Forall_forall; intros p Hp; apply Hcl; cbn [In]; tauto).
  unfold rdx_record in H.
  change (join 9%N (c0 :: c1 :: c2 :: c3 :: c4 :: c5 :: c6 :: c7 :: more) ++ 10%N :: rest)
    with (line_text (pre ++ c7 :: more) (10%N :: rest)) in H.
  change 7 with (length pre) in H. rewrite E7 in H.
  destruct more as [|m ms].
  - unfold line_text in H. cbn [join] in H. rewrite (rd_field_lf_any valid c7 rest _ Hc7 Hv7) in H.
    discriminate.
  - rewrite line_text_cons2 in H. rewrite (rd_field_tab_any valid c7 _ _ Hc7 Hv7) in H.
    unfold rd_tail, line_raw, line_text in H.
    assert (H10 : ~ In 10%N (join 9%N (m :: ms))).
    { intro X. destruct (In_join _ _ _ X) as [Y|(p & Hp & Hb)]; [discriminate|].
      rewrite Forall_forall in Hmore. destruct (Hmore p Hp) as (_ & B). contradiction. }
    rewrite (take_until_app 10%N _ rest H10) in H.
    replace (mem 10%N (join 9%N (m :: ms) ++ 10%N :: rest)) with true in H
      by (symmetry; apply mem_In; apply in_or_app; right; now left).
    rewrite Hval in H; [discriminate|].
    intros b Hb. apply in_app_or in Hb. destruct Hb as [Hb|Hb]; [|apply in_or_app; right; exact Hb].
    apply in_or_app. left.
    repeat (rewrite join_cons2; apply in_or_app; right; right). exact Hb.
Qed.

End V.

(* ---------------------------------------------------------------------------------------- *)
(* the loop *)

Section WithFloat.
Variable prs : list N -> option N.

(* what a call says about the line t (without its LF) it was made on *)
Definition call_on_line (h : hctx) (c : lcall) (t : list N) : Prop :=
  match c with
  | LCPanic => False
  | LCErr => read_lazy prs h (strip_cr t) = None
  | LCRec n f r => n = S (length t) /\ r = read_lazy prs h (strip_cr t)
  end.

Lemma lazy_calls_step : forall valid h t rest k,
  ~ In 10%N t ->
  (forall s, (forall b, In b s -> In b (t ++ [10%N])) -> valid s = true) ->
  exists c, lazy_calls prs (S k) valid h (t ++ 10%N :: rest) = c :: lazy_calls prs k valid h rest
            /\ call_on_line h c t.
Proof.
  intros valid h t rest k H10 Hval.
  destruct (split_all_spec 9%N t) as (Hne & Hj & Hf).
  assert (Hc : Forall tlf (split_all 9%N t)).
  { eapply Forall_impl; [|exact Hf]. intros p (A & B). split; [exact A|].
    intro X. apply H10. exact (B _ X). }
  assert (Hval' : forall s, (forall b, In b s -> In b (join 9%N (split_all 9%N t) ++ [10%N])) -> valid s = true)
    by (rewrite Hj; exact Hval).
  pose proof (lazy_run_cols valid prs h (split_all 9%N t) rest Hne Hc Hval') as L.
  pose proof (rdx_cols_err valid (split_all 9%N t) rest) as E.
  rewrite Hj in L, E.
  unfold lazy_run in L. rewrite <- forget_x_record in L.
  cbn [lazy_calls].
  destruct (rdx_record valid (t ++ 10%N :: rest)) as [r|n buf ends rest'].
  - cbn [forget_x] in L. rewrite (E r Hne Hc Hval eq_refl).
    exists LCErr. split; [reflexivity|exact L].
  - cbn [forget_x] in L. destruct n as [|n]; [contradiction|].
    destruct (fields_of buf ends) as [f|]; [|contradiction].
    destruct L as (A & B & C). subst rest'.
    eexists. split; [reflexivity|]. cbn [call_on_line]. split; [exact B|exact A].
Qed.

Lemma lazy_calls_nil : forall valid h k, valid [] = true -> lazy_calls prs (S k) valid h [] = [].
Proof.
  intros valid h k V.
  assert (F : forall dst, rd_field valid [] dst = FOk dst 0 false []).
  { intro dst. unfold rd_field. cbn [scan_fld]. cbv beta iota zeta. rewrite V.
    cbn [andb]. rewrite app_nil_r. reflexivity. }
  cbn [lazy_calls]. unfold rdx_record. cbn [rdx_required].
  repeat (rewrite F; cbn [rdx_required app length]). unfold rd_tail, line_raw. cbn [take_until mem app length]. rewrite V. reflexivity.
Qed.

Lemma lazy_calls_with_lf : forall valid h ts fuel, Forall (fun t => ~ In 10%N t) ts ->
  (forall s, (forall b, In b s -> In b (with_lf ts)) -> valid s = true) ->
  length (with_lf ts) < fuel ->
  Forall2 (call_on_line h) (lazy_calls prs fuel valid h (with_lf ts)) ts.
Proof.
  intros valid h ts. induction ts as [|t ts IH]; intros fuel Hts Hval Hf.
  - destruct fuel as [|k]; [lia|]. unfold with_lf. cbn [map concat].
    rewrite lazy_calls_nil; [constructor|]. apply Hval. intros b [].
  - destruct fuel as [|k]; [lia|]. inversion Hts as [|? ? Ht Hts']; subst.
    unfold with_lf in *. cbn [map concat] in *. rewrite <- app_assoc in *. cbn [app] in *.
    destruct (lazy_calls_step valid h t (concat (map (fun l => l ++ [10%N]) ts)) k Ht) as (c & E & P).
    { intros s Hs. apply Hval. intros b Hb. specialize (Hs b Hb).
      apply in_app_or in Hs. apply in_or_app. destruct Hs as [Hs|[Hs|[]]]; [now left|right; now left]. }
    rewrite E. constructor; [exact P|]. apply IH; [exact Hts'| |].
    + intros s Hs. apply Hval. intros b Hb. apply in_or_app. right. right. exact (Hs b Hb).
    + rewrite app_length in Hf. cbn [length] in Hf. lia.
Qed.

Theorem lazy_call_list_with_lf : forall valid h ts, Forall (fun t => ~ In 10%N t) ts ->
  (forall s, (forall b, In b s -> In b (with_lf ts)) -> valid s = true) ->
  Forall2 (call_on_line h) (lazy_call_list prs valid h (with_lf ts)) ts.
Proof. intros. apply lazy_calls_with_lf; [assumption|assumption|lia]. Qed.

End WithFloat.

Print Assumptions forget_x_record.
Print Assumptions rdx_cols_err.
Print Assumptions lazy_call_list_with_lf.

(* without the UTF-8 premise the two loops frame differently: a field that is not UTF-8 fails the
   lazy call behind that field's TAB, the rest of the line is read as the next "record" *)
Example lazy_loop_resync_witness :
  rdx_record NV.Fasta.Fastq.utf8_valid [255; 9; 98; 10]%N = XErr [98; 10]%N /\
  line_bytes [255; 9; 98; 10]%N = [255; 9; 98; 10]%N.
Proof. split; vm_compute; reflexivity. Qed.
