(* C09 -- the lazy vcf::Record at the level of its BUFFER and BOUNDS:
   noodles-vcf/src/io/reader/record.rs (read_record, read_required_field, read_field), the final
   read_line of io/reader.rs, record/fields/bounds.rs (the eight `*_end` indices and the ranges
   made of them) and record/fields.rs (one `&self.buf[range]` per accessor).  Definitions only;
   the lemmas are in Vcf/LazyRecProofs.v.

   The reader is modelled on the whole remaining input (the closed form that property C12 proves
   the delivered reader equal to, NV.Io.TabRead.wx_vcf_read_record): a field is the bytes up to
   the next TAB or LF; it is validated as UTF-8 ([valid], a parameter: std's str::from_utf8) and
   appended to the record buffer; when the delimiter was the LF, one CR is popped -- only if this
   call appended at least one byte (`dst.len() > start`, /repo fb10cd9).  Seven required fields
   (an LF inside one of them is the "unexpected EOL" error), the eighth (INFO) may end the line;
   if it did not, read_line appends the rest of the line (LF popped, then a CR only if this call
   appended it).  After each field the buffer length is stored as that field's end.

   A slice `&buf[a..b]` is [slice]: None stands for the Rust panic (a > b or b > len).  The
   String char-boundary test of a slice is not modelled: every bound is the end of a push_str of
   a validated str (or follows the pop of the one-byte CR). *)
From Coq Require Import List NArith Arith Bool.
From NV Require Import Text.TextBase Vcf.Values Vcf.Span Vcf.Line.
From NV Require Fasta.Fastq.
Import ListNotations.
Open Scope N_scope.

(* the bytes up to the first TAB or LF, that delimiter, what follows it *)
Fixpoint scan_fld (src : list N) : list N * option N * list N :=
  match src with
  | [] => ([], None, [])
  | b :: t =>
      if (N.eqb b 9 || N.eqb b 10)%bool then ([], Some b, t)
      else let '(f, d, r) := scan_fld t in (b :: f, d, r)
  end.

(* String::pop of a trailing CR *)
Definition pop_cr (s : list N) : list N := if ends_cr s then removelast s else s.

Inductive fres := FErr | FOk (dst : list N) (n : nat) (eol : bool) (rest : list N).
Inductive qres := QErr | QOk (dst : list N) (ends : list nat) (n : nat) (rest : list N).
(* read_record: Err (InvalidData) or Ok n with the buffer, the eight bounds, the unread input *)
Inductive rres := RErr | ROk (n : nat) (buf : list N) (ends : list nat) (rest : list N).

Section WithValid.
Variable valid : list N -> bool.

(* read_field: (buffer, bytes consumed, is_eol, rest) *)
Definition rd_field (src dst : list N) : fres :=
  let '(f, d, r) := scan_fld src in
  if valid f then
    let dst1 := dst ++ f in
    let eol := match d with Some c => N.eqb c 10 | None => false end in
    FOk (if (eol && (length dst <? length dst1)%nat)%bool then pop_cr dst1 else dst1)
        (length f + match d with Some _ => 1 | None => 0 end)%nat eol r
  else FErr.

(* k times read_required_field + `bounds.x_end = buf.len()` *)
Fixpoint rd_required (k : nat) (src dst : list N) (ends : list nat) (n : nat) : qres :=
  match k with
  | O => QOk dst ends n src
  | S k' =>
      match rd_field src dst with
      | FErr => QErr
      | FOk dst1 n1 eol r =>
          if eol then QErr                                       (* unexpected EOL *)
          else rd_required k' r dst1 (ends ++ [length dst1]) (n + n1)%nat
      end
  end.

(* io/reader.rs::read_line appending to the record buffer: everything up to and including the LF
   is read (validated as a whole), the LF popped, then a CR if this call appended it *)
Definition line_raw (src : list N) : list N := take_until 10 src.
Definition rd_tail (src dst : list N) : option (list N * nat * list N) :=
  let raw := line_raw src in
  let haslf := mem 10 src in
  let n := (length raw + if haslf then 1 else 0)%nat in
  if valid (if haslf then raw ++ [10] else raw) then
    Some (dst ++ (if haslf then strip_cr raw else raw), n, skipn n src)
  else None.

Definition rd_record (src : list N) : rres :=
  match rd_required 7 src [] [] 0%nat with
  | QErr => RErr
  | QOk dst1 ends n rest1 =>
      match rd_field rest1 dst1 with
      | FErr => RErr
      | FOk dst2 n2 eol rest2 =>
          let ends2 := ends ++ [length dst2] in
          if eol then ROk (n + n2)%nat dst2 ends2 rest2
          else match rd_tail rest2 dst2 with
               | Some (dst3, n3, rest3) => ROk (n + n2 + n3)%nat dst3 ends2 rest3
               | None => RErr
               end
      end
  end.

End WithValid.

(* ---------------------------------------------------------------------------------------- *)
(* record/fields.rs over record/fields/bounds.rs *)

(* &buf[a..b] / &buf[a..]; None = the slice panics *)
Definition slice (a b : nat) (buf : list N) : option (list N) :=
  if ((a <=? b)%nat && (b <=? length buf)%nat)%bool then Some (firstn (b - a) (skipn a buf)) else None.
Definition slice_from (a : nat) (buf : list N) : option (list N) :=
  if (a <=? length buf)%nat then Some (skipn a buf) else None.

(* the nine raw column texts, before the "." tests of the accessors *)
Record lfields := {
  lf_chrom : list N; lf_pos : list N; lf_ids : list N; lf_ref : list N; lf_alts : list N;
  lf_qual : list N; lf_filters : list N; lf_info : list N; lf_samples : list N
}.

Definition bound (ends : list nat) (i : nat) : nat := nth i ends O.

(* every accessor of Fields, in the order of the columns; None = one of them panics *)
Definition fields_of (buf : list N) (ends : list nat) : option lfields :=
  match slice 0%nat (bound ends 0) buf, slice (bound ends 0) (bound ends 1) buf,
        slice (bound ends 1) (bound ends 2) buf, slice (bound ends 2) (bound ends 3) buf,
        slice (bound ends 3) (bound ends 4) buf, slice (bound ends 4) (bound ends 5) buf,
        slice (bound ends 5) (bound ends 6) buf, slice (bound ends 6) (bound ends 7) buf,
        slice_from (bound ends 7) buf with
  | Some c, Some p, Some i, Some r, Some a, Some q, Some f, Some inf, Some s =>
      Some {| lf_chrom := c; lf_pos := p; lf_ids := i; lf_ref := r; lf_alts := a; lf_qual := q;
              lf_filters := f; lf_info := inf; lf_samples := s |}
  | _, _, _, _, _, _, _, _, _ => None
  end.

(* the nine texts as the pieces the views of NV.Vcf.Line work on: Samples splits its text at TABs *)
Definition pieces_of (f : lfields) : list (list N) :=
  lf_chrom f :: lf_pos f :: lf_ids f :: lf_ref f :: lf_alts f :: lf_qual f :: lf_filters f ::
  lf_info f :: split_all 9 (lf_samples f).

Section WithFloat.
Variable prs_float : list N -> option N.

(* the body of Line.read_lazy on the pieces (every accessor and view forced), without the
   "fewer than eight columns" test, which belongs to read_record *)
Definition view_ps (h : hctx) (ps : list (list N)) : option vrec :=
  match parse_position (fld ps 1) with None => None | Some pos =>
  match (if bytes_eqb (fld ps 5) dot then Some None
         else match prs_float (fld ps 5) with Some b => Some (Some b) | None => None end)
  with None => None | Some qual =>
  match l_info prs_float h (fld ps 7) with None => None | Some info =>
  match l_samples prs_float h (skipn 8 ps) with None => None | Some (ks, rows) =>
    Some {| r_chrom := fld ps 0; r_pos := pos; r_ids := l_list 59 (fld ps 2); r_ref := fld ps 3;
            r_alts := l_list 44 (fld ps 4); r_qual := qual; r_filters := l_list 59 (fld ps 6);
            r_info := info; r_keys := ks; r_samples := rows |}
  end end end end.

(* what a caller sees of one read_record + every accessor:
   LPanic  a slice of Fields panicked
   LErr    read_record returned Err
   LEof    read_record returned Ok(0)
   LRec    Ok(n): the raw column texts and the record of the forced views (None = some accessor
           returned Err) *)
Inductive lres := LPanic | LErr | LEof | LRec (n : nat) (f : lfields) (r : option vrec) (rest : list N).

Definition lazy_run (valid : list N -> bool) (h : hctx) (text : list N) : lres :=
  match rd_record valid text with
  | RErr => LErr
  | ROk O _ _ _ => LEof
  | ROk n buf ends rest =>
      match fields_of buf ends with
      | None => LPanic
      | Some f => LRec n f (view_ps h (pieces_of f)) rest
      end
  end.

(* a whole file of records through ONE lazy Record (Reader::read_record called until it returns
   Ok(0) or Err); every Ok record consumes at least one byte, so the fuel is never the reason
   the list ends *)
Fixpoint lazy_file (fuel : nat) (valid : list N -> bool) (h : hctx) (text : list N) : list lres :=
  match fuel with
  | O => []
  | S k =>
      match lazy_run valid h text with
      | LRec n f r rest => LRec n f r rest :: lazy_file k valid h rest
      | x => [x]
      end
  end.

Definition lazy_records (valid : list N -> bool) (h : hctx) (text : list N) : list lres :=
  lazy_file (S (length text)) valid h text.

End WithFloat.

(* record/fields.rs: what the public accessors return as text (ids, alternate_bases, filters,
   info and samples map the missing value "." to "") *)
Definition lf_obs (f : lfields) : list (list N) :=
  [lf_chrom f; undot (lf_ids f); lf_ref f; undot (lf_alts f); undot (lf_filters f);
   undot (lf_info f); undot (lf_samples f)].

(* nondecreasing bounds that end inside the buffer *)
Fixpoint chain (lo : nat) (ends : list nat) (hi : nat) : Prop :=
  match ends with
  | [] => (lo <= hi)%nat
  | e :: t => (lo <= e)%nat /\ chain e t hi
  end.

(* the reader of the crate: [valid] = core::str::from_utf8(..).is_ok() (the model of property C11) *)
Definition lazy_records_std (prs_float : list N -> option N) (h : hctx) (text : list N) : list lres :=
  lazy_records prs_float NV.Fasta.Fastq.utf8_valid h text.
