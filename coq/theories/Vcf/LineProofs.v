(* C09 -- the whole record line: every record of [rec_ok] that write_line accepts is read back by
   the eager parser and by the forced lazy record as [canon] of the record (REF bases resolved
   as the writer resolves them, genotype first phasing normalised before 4.4, a sample that is
   "." as a whole read as a sample without values). *)
From Coq Require Import List NArith ZArith Bool Lia ZifyBool ZifyN.
From NV Require Import Base.Percent Base.PercentProofs Text.TextBase Text.TextBaseProofs
  Vcf.Values Vcf.ValuesProofs Vcf.GenotypeProofs Vcf.SampleProofs Vcf.Span Vcf.Line.
Import ListNotations.
Open Scope N_scope.

(* ---------------------------------------------------------------------------------------- *)
(* lists and text *)

Lemma join_nil_inv : forall sep (l : list (list N)), l <> [] -> join sep l = [] -> l = [[]].
Proof.
  intros sep [|p [|q r]] H E; [contradiction| |].
  - cbn in E. now subst.
  - rewrite join_cons2 in E. destruct p; discriminate.
Qed.

Lemma join_single_inv : forall sep x (l : list (list N)), l <> [] -> sep <> x ->
  join sep l = [x] -> l = [[x]].
Proof.
  intros sep x [|p [|q r]] H Hs E; [contradiction| |].
  - cbn in E. now subst.
  - rewrite join_cons2 in E. destruct p as [|a [|b p]]; cbn in E; inversion E; subst; contradiction.
Qed.

Lemma has_dup_nodup : forall l, NoDup l -> has_dup l = false.
Proof.
  induction 1 as [|x l Hx Hl IH]; [reflexivity|]. cbn [has_dup]. rewrite IH, orb_false_r.
  destruct (existsb (bytes_eqb x) l) eqn:E; [|reflexivity].
  apply existsb_exists in E. destruct E as (y & Hy & Hb). apply bytes_eqb_eq in Hb. subst y. contradiction.
Qed.

Lemma existsb_empty_false : forall (l : list (list N)), Forall (fun p => p <> []) l ->
  existsb (fun p => match p with [] => true | _ => false end) l = false.
Proof.
  induction 1 as [|p l Hp Hl IH]; [reflexivity|]. cbn [existsb]. rewrite IH.
  destruct p; [contradiction|reflexivity].
Qed.

Lemma drop_last_empty_id : forall l, Forall (fun p => p <> []) l -> drop_last_empty l = l.
Proof.
  intros l H. unfold drop_last_empty. destruct (rev l) as [|x r] eqn:E; [reflexivity|].
  destruct x; [|reflexivity]. exfalso.
  assert (Hin : In [] l) by (apply in_rev; rewrite E; now left).
  rewrite Forall_forall in H. exact (H [] Hin eq_refl).
Qed.

Lemma forallb_not_in : forall (P : N -> bool) s b, forallb P s = true -> P b = false -> ~ In b s.
Proof.
  intros P s b H Hb Hi. rewrite forallb_forall in H. specialize (H b Hi). congruence.
Qed.

Lemma e_list_join : forall sep ne dc l,
  l <> [] -> Forall (fun p => ~ In sep p) l -> join sep l <> dot -> join sep l <> [] ->
  (ne = true -> Forall (fun p => p <> []) l) -> (dc = true -> NoDup l) ->
  e_list sep ne dc (join sep l) = Some l.
Proof.
  intros sep ne dc l Hne Hsep Hd H0 Hn Hc. unfold e_list.
  rewrite (bytes_eqb_neq _ _ Hd). destruct (join sep l) as [|b t] eqn:E; [contradiction|].
  rewrite <- E. rewrite split_all_join by assumption.
  destruct ne; cbn [andb].
  - rewrite existsb_empty_false by (now apply Hn).
    destruct dc; cbn [andb]; [rewrite has_dup_nodup by (now apply Hc)|]; reflexivity.
  - destruct dc; cbn [andb]; [rewrite has_dup_nodup by (now apply Hc)|]; reflexivity.
Qed.

Lemma l_list_join : forall sep l,
  l <> [] -> Forall (fun p => ~ In sep p) l -> join sep l <> dot -> join sep l <> [] ->
  l_list sep (join sep l) = l.
Proof.
  intros sep l Hne Hsep Hd H0. unfold l_list, undot. rewrite (bytes_eqb_neq _ _ Hd).
  destruct (join sep l) as [|b t] eqn:E; [contradiction|]. rewrite <- E. now apply split_all_join.
Qed.

Lemma l_list_dot : forall sep, l_list sep dot = [].
Proof. reflexivity. Qed.

(* ---------------------------------------------------------------------------------------- *)
(* the fixed columns *)

Lemma parse_position_fmt : forall n, n <= u64_max -> parse_position (fmt_dec n) = Some n.
Proof.
  intros n Hn. unfold parse_position.
  destruct (bytes_eqb (fmt_dec n) [48]) eqn:E.
  - apply bytes_eqb_eq in E. pose proof (parse_dec_fmt n) as P. rewrite E in P.
    vm_compute in P. inversion P. reflexivity.
  - rewrite parse_usize_digits by apply fmt_dec_digits. rewrite parse_dec_fmt.
    assert (Hle : (n <=? u64_max) = true) by lia. rewrite Hle.
    destruct (n =? 0) eqn:E0; [|reflexivity].
    assert (n = 0) by lia. subst n. vm_compute in E. discriminate.
Qed.

Lemma chrom_valid_chars : forall n b, chrom_name_valid n = true -> In b n -> 33 <= b.
Proof.
  intros [|c t] b H Hi; [discriminate|]. cbn [chrom_name_valid] in H.
  apply andb_true_iff in H. destruct H as [H Hf]. apply andb_true_iff in H. destruct H as [_ Hc].
  destruct Hi as [E|Hi].
  - subst b. unfold chrom_char in Hc. lia.
  - rewrite forallb_forall in Hf. specialize (Hf b Hi). unfold chrom_char in Hf. lia.
Qed.

Lemma w_chrom_avoids : forall s c b, w_chrom s = Some c -> b < 33 -> c = s /\ ~ In b c.
Proof.
  intros s c b H Hb. unfold w_chrom in H.
  destruct (strip_symbol s) as [n|] eqn:E.
  - destruct (chrom_name_valid n) eqn:V; [|discriminate]. inversion H; subst c. split; [reflexivity|].
    unfold strip_symbol in E. destruct s as [|x t]; [discriminate|].
    destruct (x =? 60) eqn:X.
    + assert (x = 60) by lia. subst x.
      destruct (rev t) as [|y u] eqn:R; [discriminate|].
      destruct (y =? 62) eqn:Y.
      * assert (y = 62) by lia. subst y. inversion E; subst n.
        intros [Hi|Hi]; [lia|]. apply in_rev in Hi. rewrite R in Hi. destruct Hi as [Hi|Hi]; [lia|].
        apply in_rev in Hi. pose proof (chrom_valid_chars _ b V Hi). lia.
      * exfalso. destruct y as [|p]; [discriminate|]. do 7 (destruct p; try discriminate).
    + exfalso. destruct x as [|p]; [discriminate|]. do 7 (destruct p; try discriminate).
  - destruct (chrom_name_valid s) eqn:V; [|discriminate]. inversion H; subst c. split; [reflexivity|].
    intro Hi. pose proof (chrom_valid_chars _ b V Hi). lia.
Qed.

Lemma w_list_avoids : forall sep (valid : list N -> bool) l t b,
  w_list sep valid l = Some t ->
  (forall s, valid s = true -> ~ In b s) -> b <> sep -> b <> 46 -> ~ In b t.
Proof.
  intros sep valid l t b H Hv Hs Hd Hi. unfold w_list in H. destruct l as [|x l].
  - inversion H; subst t. destruct Hi as [E|[]]. congruence.
  - destruct (forallb valid (x :: l)) eqn:F; [|discriminate]. injection H as Ht. subst t.
    change (In b (join sep (x :: l))) in Hi.
    destruct (In_join _ _ _ Hi) as [E|(p & Hp & Hc)]; [congruence|].
    rewrite forallb_forall in F. exact (Hv p (F p Hp) Hc).
Qed.

Lemma w_list_shape : forall sep (valid : list N -> bool) l t,
  w_list sep valid l = Some t ->
  (l = [] /\ t = dot) \/ (l <> [] /\ t = join sep l /\ forallb valid l = true).
Proof.
  intros sep valid l t H. unfold w_list in H. destruct l as [|x l].
  - left. inversion H. split; reflexivity.
  - right. destruct (forallb valid (x :: l)) eqn:F; [|discriminate]. injection H as Ht.
    split; [discriminate|split; [symmetry; exact Ht|reflexivity]].
Qed.

Lemma id_valid_avoids : forall s b, id_valid s = true -> (b = 9 \/ b = 59) -> ~ In b s.
Proof.
  intros s b H Hb. apply (forallb_not_in _ _ _ H). unfold is_ws. lia.
Qed.

Lemma alt_valid_avoids : forall s b, alt_valid s = true -> (b = 9 \/ b = 44) -> ~ In b s.
Proof.
  intros s b H Hb. apply (forallb_not_in _ _ _ H). unfold is_ws. lia.
Qed.

Definition canon_base (b : N) : N := match resolve_base b with Some x => x | None => b end.

Lemma resolve_base_ge : forall b x, resolve_base b = Some x -> 65 <= x.
Proof.
  intros b x H. unfold resolve_base in H.
  repeat match type of H with
         | context [if ?c then _ else _] => destruct c
         end; cbn [option_map] in H; try discriminate; inversion H; lia.
Qed.

Lemma w_ref_spec : forall s rf, w_ref s = Some rf ->
  rf = map canon_base s /\ (forall b, In b rf -> 65 <= b).
Proof.
  unfold w_ref. induction s as [|b s IH]; intros rf H; cbn [map sequence] in H.
  - inversion H. split; [reflexivity|intros b []].
  - destruct (resolve_base b) as [x|] eqn:E; [|discriminate].
    destruct (sequence (map resolve_base s)) as [r|]; [|discriminate]. inversion H; subst rf.
    destruct (IH r eq_refl) as [-> Hc]. split.
    + cbn [map]. f_equal. unfold canon_base. now rewrite E.
    + intros y [<-|Hy]; [eapply resolve_base_ge; eassumption|now apply Hc].
Qed.

(* ---------------------------------------------------------------------------------------- *)
(* keys *)

Definition keych (b : N) : bool := is_alpha b || is_digit b || (b =? 95) || (b =? 46).

Lemma key_valid_spec : forall k, key_valid k = true ->
  exists c t, k = c :: t /\ c <> 46 /\ forall b, In b k -> keych b = true.
Proof.
  intros [|c t] H; [discriminate|]. cbn [key_valid] in H. apply andb_true_iff in H. destruct H as [Hc Hf].
  exists c, t. split; [reflexivity|]. split.
  - unfold is_alpha in Hc. lia.
  - intros b [<-|Hb].
    + unfold keych, is_alpha, is_digit in *. lia.
    + rewrite forallb_forall in Hf. exact (Hf b Hb).
Qed.

Lemma info_key_valid_spec : forall k, info_key_valid k = true ->
  exists c t, k = c :: t /\ c <> 46 /\ forall b, In b k -> keych b = true.
Proof.
  intros k H. unfold info_key_valid in H. apply orb_true_iff in H. destruct H as [H|H].
  - now apply key_valid_spec.
  - apply bytes_eqb_eq in H. subst k. exists 49, [48; 48; 48; 71]. split; [reflexivity|]. split; [discriminate|].
    intros b Hb. cbn in Hb. repeat (destruct Hb as [<-|Hb]; [reflexivity|]). destruct Hb.
Qed.

Lemma keych_avoids : forall b, keych b = true ->
  b <> 9 /\ b <> 10 /\ b <> 13 /\ b <> 58 /\ b <> 59 /\ b <> 61 /\ b <> 44.
Proof. intros b H. unfold keych, is_alpha, is_digit in H. lia. Qed.

Lemma keys_avoid : forall k b, (forall x, In x k -> keych x = true) ->
  (b = 9 \/ b = 58 \/ b = 59 \/ b = 61) -> ~ In b k.
Proof.
  intros k b H Hb Hi. pose proof (keych_avoids b (H b Hi)). lia.
Qed.

(* ---------------------------------------------------------------------------------------- *)
Section F.
Variable fmt_float : N -> list N.
Variable prs_float : list N -> option N.
Variable FOK : N -> Prop.
Hypothesis float_rt : forall b, FOK b -> prs_float (fmt_float b) = Some b.
Hypothesis float_chars : forall b x, FOK b -> In x (fmt_float b) ->
  x <> 44 /\ x <> 9 /\ x <> 10 /\ x <> 59 /\ x <> 58.
Hypothesis float_not_dot : forall b, FOK b -> fmt_float b <> dot.
Hypothesis float_nonempty : forall b, FOK b -> fmt_float b <> [].

(* ---- INFO ---- *)

(* a field the property quantifies over: a value of the key's effective definition; under a key
   without definition, a Flag or a String (what both readers make of such a field) *)
Definition info_ok (h : hctx) (kv : list N * option value) : Prop :=
  match assoc (fst kv) (h_infos h), snd kv with
  | Some (num, ty), Some v => val_ok FOK v /\ typed num ty v
  | Some _, None => True
  | None, None => True
  | None, Some VFlag => True
  | None, Some (VString s) => bytes_ok s
  | None, Some _ => False
  end.

Lemma info_ok_val : forall h k v, info_ok h (k, Some v) -> val_ok FOK v.
Proof.
  intros h k v H. unfold info_ok in H. cbn [fst snd] in H.
  destruct (assoc k (h_infos h)) as [[num ty]|]; [tauto|].
  destruct v; try contradiction; cbn [val_ok]; auto.
Qed.

Lemma info_field_shape : forall k ov t, write_info_field fmt_float k ov = Some t ->
  (ov = Some VFlag /\ t = k) \/ (ov = None /\ t = k ++ 61 :: dot) \/
  (exists v t', ov = Some v /\ v <> VFlag /\ write_value fmt_float CInfo false v = Some t' /\ t = k ++ 61 :: t').
Proof.
  intros k ov t H. unfold write_info_field in H. destruct ov as [v|].
  - destruct v; try (left; inversion H; split; reflexivity);
      right; right;
      (destruct (write_value fmt_float CInfo false _) as [t'|] eqn:E; [|discriminate]);
      inversion H; eexists; eexists; (split; [reflexivity|split; [discriminate|split; [exact E|reflexivity]]]).
  - right; left. inversion H. split; reflexivity.
Qed.

Lemma info_field_rt : forall h k ov t,
  info_ok h (k, ov) -> w_info_field fmt_float (k, ov) = Some t ->
  (exists c t', t = c :: t' /\ c <> 46) /\ ~ In 59 t /\ ~ In 9 t /\
  e_info_field prs_float h t = Some (k, ov) /\ l_info_field prs_float h t = Some (k, ov).
Proof.
  intros h k ov t Hok Hw. unfold w_info_field in Hw. cbn [fst snd] in Hw.
  destruct (info_key_valid k) eqn:Hk; [|discriminate].
  destruct (info_key_valid_spec k Hk) as (c & kt & Ek & Hc & Hch).
  assert (K61 : ~ In 61 k) by (apply keys_avoid; [exact Hch|lia]).
  assert (K59 : ~ In 59 k) by (apply keys_avoid; [exact Hch|lia]).
  assert (K9 : ~ In 9 k) by (apply keys_avoid; [exact Hch|lia]).
  assert (Hhd : exists c0 t0, t = c0 :: t0 /\ c0 <> 46).
  { destruct (info_field_shape k ov t Hw) as [[_ ->]|[[_ ->]|(v & t' & _ & _ & _ & ->)]]; subst k;
      eexists; eexists; (split; [reflexivity|exact Hc]). }
  assert (Hav : forall b, (b = 59 \/ b = 9) -> ~ In b t).
  { intros b Hb Hi.
    assert (Kb : ~ In b k) by (destruct Hb; subst b; assumption).
    destruct (info_field_shape k ov t Hw) as [[_ ->]|[[_ ->]|(v & t' & -> & Hnf & Hwv & ->)]].
    - contradiction.
    - apply in_app_or in Hi. destruct Hi as [Hi|Hi]; [contradiction|]. cbn in Hi. lia.
    - apply in_app_or in Hi. destruct Hi as [Hi|[Hi|Hi]]; [contradiction|lia|].
      revert Hi. eapply (value_avoids fmt_float FOK float_chars CInfo false v t' b (info_ok_val h k v Hok) Hwv).
      unfold delim. tauto. }
  split; [exact Hhd|]. split; [apply Hav; lia|]. split; [apply Hav; lia|].
  (* the two readers *)
  unfold e_info_field, l_info_field, split_kv.
  unfold info_ok in Hok. cbn [fst snd] in Hok.
  destruct (assoc k (h_infos h)) as [[num ty]|] eqn:Ea.
  - (* defined key *)
    assert (Hov : match ov with Some v => val_ok FOK v /\ typed num ty v | None => True end)
      by (destruct ov; assumption).
    pose proof (info_field_roundtrip fmt_float prs_float FOK float_rt float_chars float_not_dot float_nonempty
                  false num ty k ov t K61 Hov Hw) as He.
    pose proof (info_field_roundtrip fmt_float prs_float FOK float_rt float_chars float_not_dot float_nonempty
                  true num ty k ov t K61 Hov Hw) as Hl.
    destruct (info_field_shape k ov t Hw) as [[-> ->]|[[-> ->]|(v & t' & -> & Hnf & Hwv & ->)]].
    + rewrite (split_once_none 61 k K61), Ea, He, Hl. rewrite Ek. split; reflexivity.
    + rewrite (split_once_app 61 k dot K61), Ea, He, Hl. rewrite Ek. split; reflexivity.
    + rewrite (split_once_app 61 k t' K61), Ea, He, Hl. rewrite Ek. split; reflexivity.
  - (* key without definition *)
    destruct (info_field_shape k ov t Hw) as [[-> ->]|[[-> ->]|(v & t' & -> & Hnf & Hwv & ->)]].
    + rewrite (split_once_none 61 k K61), Ea. rewrite Ek. split; reflexivity.
    + rewrite (split_once_app 61 k dot K61), Ea. cbn [bytes_eqb dot N.eqb Pos.eqb andb]. rewrite Ek. split; reflexivity.
    + destruct v; try contradiction. cbn [write_value] in Hwv. inversion Hwv; subst t'.
      rewrite (split_once_app 61 k _ K61), Ea.
      rewrite (bytes_eqb_neq _ _ (write_string_not_dot CInfo s)).
      unfold parse_value. cbn [N.eqb Pos.eqb]. rewrite (write_string_dec CInfo s Hok). rewrite Ek. split; reflexivity.
Qed.

Lemma info_fields_rt : forall h l ps,
  Forall (info_ok h) l -> sequence (map (w_info_field fmt_float) l) = Some ps ->
  Forall (fun p => ~ In 59 p) ps /\ Forall (fun p => ~ In 9 p) ps /\
  (forall p0 rest, ps = p0 :: rest -> exists c t', p0 = c :: t' /\ c <> 46) /\
  sequence (map (e_info_field prs_float h) ps) = Some l /\
  sequence (map (l_info_field prs_float h) ps) = Some l /\
  length ps = length l.
Proof.
  intros h. induction l as [|[k ov] l IH]; intros ps Hok Hs; cbn [map sequence] in Hs.
  - inversion Hs; subst ps. repeat split; try constructor. intros p0 rest E. discriminate.
  - inversion Hok as [|? ? Hk Hl]; subst.
    destruct (w_info_field fmt_float (k, ov)) as [t|] eqn:Et; [|discriminate].
    destruct (sequence (map (w_info_field fmt_float) l)) as [r|] eqn:Er; [|discriminate].
    inversion Hs; subst ps.
    destruct (IH r Hl eq_refl) as (A & B & _ & D & E & G).
    destruct (info_field_rt h k ov t Hk Et) as (Hhd & H59 & H9 & He & Hlz).
    repeat split.
    + constructor; assumption.
    + constructor; assumption.
    + intros p0 rest Eq. inversion Eq; subst. exact Hhd.
    + cbn [map sequence]. now rewrite He, D.
    + cbn [map sequence]. now rewrite Hlz, E.
    + cbn [length]. now rewrite G.
Qed.

Lemma join_head : forall sep (ps : list (list N)) p0 rest c t', ps = p0 :: rest -> p0 = c :: t' ->
  exists u, join sep ps = c :: u.
Proof.
  intros sep ps p0 rest c t' -> ->. destruct rest as [|q r].
  - cbn. eexists; reflexivity.
  - rewrite join_cons2. cbn. eexists; reflexivity.
Qed.

Lemma w_info_rt : forall h l t,
  Forall (info_ok h) l -> NoDup (map fst l) -> w_info fmt_float l = Some t ->
  ~ In 9 t /\ e_info prs_float h t = Some l /\ l_info prs_float h t = Some l /\ t <> [].
Proof.
  intros h l t Hok Hnd Hw. unfold w_info in Hw. destruct l as [|kv l].
  - inversion Hw; subst t. split; [cbn; lia|]. repeat split. discriminate.
  - destruct (sequence (map (w_info_field fmt_float) (kv :: l))) as [ps|] eqn:Es; [|discriminate].
    inversion Hw; subst t.
    destruct (info_fields_rt h (kv :: l) ps Hok Es) as (A & B & C & D & E & G).
    assert (Hne : ps <> []) by (intro X; subst ps; cbn in G; discriminate).
    destruct ps as [|p0 rest]; [contradiction|].
    destruct (C p0 rest eq_refl) as (c & t' & Ep & Hc).
    destruct (join_head 59 (p0 :: rest) p0 rest c t' eq_refl Ep) as (u & Eu).
    assert (Hd : join 59 (p0 :: rest) <> dot) by (rewrite Eu; intro X; inversion X; contradiction).
    split.
    + intro Hi. destruct (In_join _ _ _ Hi) as [X|(p & Hp & Hcp)]; [discriminate|].
      rewrite Forall_forall in B. exact (B p Hp Hcp).
    + split.
      * unfold e_info. rewrite (bytes_eqb_neq _ _ Hd). rewrite Eu. rewrite <- Eu.
        rewrite split_all_join by assumption. rewrite D.
        rewrite has_dup_nodup by exact Hnd. reflexivity.
      * split; [|rewrite Eu; discriminate].
        unfold l_info, undot. rewrite (bytes_eqb_neq _ _ Hd). rewrite Eu. rewrite <- Eu.
        rewrite split_all_join by assumption. exact E.
Qed.

(* ---- samples ---- *)

Definition canon_row (v44 : bool) (vs : list (option value)) : list (option value) :=
  match vs with
  | [None] => []
  | _ => map (option_map (norm_value v44)) vs
  end.

(* a sample of the record: its values fit a prefix of the FORMAT keys, and it is not written as
   an empty column (which only happens to a sample whose single value is the empty String) *)
Definition row_ok (v44 : bool) (ds : list fdef) (vs : list (option value)) : Prop :=
  fits FOK v44 ds vs /\ forall s, write_sample fmt_float v44 vs = Some s -> s <> [].

Lemma one_text_avoids_tab : forall v44 d o t,
  match o with Some v => sval_ok FOK v44 d v | None => True end ->
  one_text fmt_float v44 o = Some t -> ~ In 9 t.
Proof.
  intros v44 d o t Hok Hw. destruct o as [v|]; cbn [one_text] in Hw.
  2:{ inversion Hw. cbn. lia. }
  destruct d as [|num ty].
  - destruct v; cbn [sval_ok] in Hok; try contradiction. cbn [write_value] in Hw. inversion Hw; subst t.
    intro Hin. apply write_genotype_chars in Hin. lia.
  - cbn [sval_ok] in Hok. destruct Hok as (Hv & _ & _).
    eapply (value_avoids fmt_float FOK float_chars CFormat v44 v t 9 Hv Hw). unfold delim. left. reflexivity.
Qed.

Lemma one_text_dot : forall v44 d o,
  match o with Some v => sval_ok FOK v44 d v | None => True end ->
  one_text fmt_float v44 o = Some dot -> o = None.
Proof.
  intros v44 d o Hok Hw. destruct o as [v|]; [exfalso|reflexivity]. cbn [one_text] in Hw.
  destruct d as [|num ty].
  - destruct v; cbn [sval_ok] in Hok; try contradiction. destruct Hok as [_ Hnd].
    cbn [write_value] in Hw. inversion Hw. contradiction.
  - cbn [sval_ok] in Hok. destruct Hok as (Hv & _ & Hnf).
    exact (value_not_dot fmt_float FOK float_not_dot CFormat v44 v dot Hv Hnf Hw eq_refl).
Qed.

Lemma fits_tab : forall v44 vs ds ps, fits FOK v44 ds vs ->
  sequence (map (one_text fmt_float v44) vs) = Some ps -> Forall (fun p => ~ In 9 p) ps.
Proof.
  intros v44. induction vs as [|o vs IH]; intros ds ps Hf Hs; cbn [map sequence] in Hs.
  - inversion Hs. constructor.
  - destruct ds as [|d ds]; [contradiction|]. destruct Hf as [Ho Hf].
    destruct (one_text fmt_float v44 o) as [t|] eqn:Et; [|discriminate].
    destruct (sequence (map (one_text fmt_float v44) vs)) as [r|] eqn:Er; [|discriminate].
    inversion Hs; subst ps. constructor; [exact (one_text_avoids_tab v44 d o t Ho Et)|exact (IH ds r Hf eq_refl)].
Qed.

Lemma fits_length : forall v44 vs ds, fits FOK v44 ds vs -> (length vs <= length ds)%nat.
Proof.
  intros v44. induction vs as [|o vs IH]; intros ds Hf; [cbn; lia|].
  destruct ds as [|d ds]; [contradiction|]. destruct Hf as [_ Hf]. cbn [length]. specialize (IH ds Hf). lia.
Qed.

Lemma zip_take_id : forall A B (ks : list A) (vs : list B), (length vs <= length ks)%nat -> zip_take ks vs = vs.
Proof.
  intros A B ks vs. revert ks. induction vs as [|v vs IH]; intros ks H; [destruct ks; reflexivity|].
  destruct ks as [|k ks]; [cbn in H; lia|]. cbn [zip_take]. f_equal. apply IH. cbn in H. lia.
Qed.

Lemma row_rt : forall v44 ds vs s, row_ok v44 ds vs ->
  write_sample fmt_float v44 vs = Some s ->
  s <> [] /\ ~ In 9 s /\
  parse_sample_eager prs_float ds s = Some (canon_row v44 vs) /\
  parse_sample_lazy prs_float ds s = Some (canon_row v44 vs).
Proof.
  intros v44 ds vs s [Hf Hne] Hw. pose proof (Hne s Hw) as Hs0. split; [exact Hs0|].
  assert (Htab : ~ In 9 s).
  { unfold write_sample in Hw.
    change (fun o => match o with None => Some dot | Some v => write_value fmt_float CFormat v44 v end)
      with (one_text fmt_float v44) in Hw.
    destruct (sequence (map (one_text fmt_float v44) vs)) as [ps|] eqn:Es; [|discriminate].
    pose proof (fits_tab v44 vs ds ps Hf Es) as Ht.
    destruct ps as [|p ps]; inversion Hw; subst s; [cbn; lia|].
    intro Hi. change (In 9 (join 58 (p :: ps))) in Hi. destruct (In_join _ _ _ Hi) as [X|(q & Hq & Hc)]; [discriminate|].
    rewrite Forall_forall in Ht. exact (Ht q Hq Hc). }
  split; [exact Htab|].
  destruct vs as [|o vs].
  - cbn in Hw. inversion Hw; subst s. split; reflexivity.
  - assert (Hcases : (o = None /\ vs = []) \/ canon_row v44 (o :: vs) = map (option_map (norm_value v44)) (o :: vs)).
    { destruct o; [right; reflexivity|]. destruct vs; [left; split; reflexivity|right; reflexivity]. }
    destruct Hcases as [[-> ->]|Hc].
    + cbn in Hw. inversion Hw; subst s. split; reflexivity.
    + assert (Hsd : s <> dot \/ (o = None /\ vs = [])).
      { destruct (bytes_eqb s dot) eqn:E; [|left; intro X; subst s; vm_compute in E; discriminate].
        apply bytes_eqb_eq in E. subst s. right.
        unfold write_sample in Hw.
        change (fun o => match o with None => Some dot | Some v => write_value fmt_float CFormat v44 v end)
          with (one_text fmt_float v44) in Hw.
        cbn [map sequence] in Hw.
        destruct (one_text fmt_float v44 o) as [t|] eqn:Et; [|discriminate].
        destruct (sequence (map (one_text fmt_float v44) vs)) as [r|] eqn:Er; [|discriminate].
        inversion Hw as [Hj].
        assert (Hl : t :: r = [[46]]) by (apply (join_single_inv 58 46); [discriminate|discriminate|exact Hj]).
        inversion Hl; subst t r.
        destruct ds as [|d ds]; [contradiction|]. destruct Hf as [Ho Hf'].
        split; [eapply one_text_dot; eassumption|].
        destruct vs; [reflexivity|]. cbn [map sequence] in Er.
        destruct (one_text fmt_float v44 o0); [|discriminate].
        destruct (sequence (map (one_text fmt_float v44) vs)); discriminate. }
      destruct Hsd as [Hsd|[-> ->]].
      * rewrite Hc. split.
        -- apply (sample_column_roundtrip fmt_float prs_float FOK float_rt float_chars float_not_dot float_nonempty
                    false v44 ds (o :: vs) s Hf); [discriminate|exact Hw|exact Hs0|exact Hsd].
        -- apply (sample_column_roundtrip fmt_float prs_float FOK float_rt float_chars float_not_dot float_nonempty
                    true v44 ds (o :: vs) s Hf); [discriminate|exact Hw|exact Hs0|exact Hsd].
      * cbn in Hw. inversion Hw; subst s. split; reflexivity.
Qed.

Lemma rows_rt : forall v44 (ks : list (list N)) ds rows cols,
  (length ds = length ks) ->
  Forall (row_ok v44 ds) rows ->
  sequence (map (fun vs => write_sample fmt_float v44 (zip_take ks vs)) rows) = Some cols ->
  Forall (fun p => p <> []) cols /\ Forall (fun p => ~ In 9 p) cols /\ length cols = length rows /\
  e_rows prs_float ds cols (length rows) = Some (map (canon_row v44) rows) /\
  sequence (map (parse_sample_lazy prs_float ds) cols) = Some (map (canon_row v44) rows).
Proof.
  intros v44 ks ds rows. induction rows as [|vs rows IH]; intros cols Hlen Hok Hs; cbn [map sequence] in Hs.
  - inversion Hs; subst cols. repeat split; constructor.
  - inversion Hok as [|? ? Hr Hrs]; subst.
    assert (Hz : zip_take ks vs = vs).
    { apply zip_take_id. rewrite <- Hlen. destruct Hr as [Hf _]. eapply fits_length; eassumption. }
    rewrite Hz in Hs.
    destruct (write_sample fmt_float v44 vs) as [s|] eqn:Ew; [|discriminate].
    destruct (sequence (map (fun vs0 => write_sample fmt_float v44 (zip_take ks vs0)) rows)) as [r|] eqn:Er; [|discriminate].
    inversion Hs; subst cols.
    destruct (IH r Hlen Hrs eq_refl) as (A & B & C & D & E).
    destruct (row_rt v44 ds vs s Hr Ew) as (R0 & R9 & Re & Rl).
    repeat split.
    + constructor; assumption.
    + constructor; assumption.
    + cbn [length]. now rewrite C.
    + cbn [length e_rows hd tl map]. now rewrite Re, D.
    + cbn [map sequence]. now rewrite Rl, E.
Qed.

Lemma w_keys_rt : forall ks k, NoDup ks -> w_keys ks = Some k ->
  k <> [] /\ ~ In 9 k /\
  e_keys k = Some ks /\ (if bytes_eqb k dot then [] else l_keys k) = ks.
Proof.
  intros ks k Hnd Hw. unfold w_keys in Hw. destruct ks as [|k0 kt].
  { inversion Hw; subst k. repeat split; try discriminate. cbn. lia. }
  destruct (existsb (bytes_eqb key_gt) kt); [discriminate|].
  destruct (forallb key_valid (k0 :: kt)) eqn:F; [|discriminate]. inversion Hw; subst k.
  change (match kt with [] => k0 | _ :: _ => k0 ++ 58 :: join 58 kt end) with (join 58 (k0 :: kt)).
  rewrite forallb_forall in F.
  assert (Hk : forall x, In x (k0 :: kt) -> x <> [] /\ ~ In 58 x /\ ~ In 9 x).
  { intros x Hx. destruct (key_valid_spec x (F x Hx)) as (c & t & -> & _ & Hch).
    split; [discriminate|]. split; apply keys_avoid; try exact Hch; lia. }
  destruct (key_valid_spec k0 (F k0 (or_introl eq_refl))) as (c & t & E0 & Hc & _).
  destruct (join_head 58 (k0 :: kt) k0 kt c t eq_refl E0) as (u & Eu).
  assert (H58 : Forall (fun p => ~ In 58 p) (k0 :: kt)) by (apply Forall_forall; intros x Hx; now destruct (Hk x Hx) as (_ & ? & _)).
  assert (Hn0 : Forall (fun p => p <> []) (k0 :: kt)) by (apply Forall_forall; intros x Hx; now destruct (Hk x Hx) as (? & _ & _)).
  assert (Hd : join 58 (k0 :: kt) <> dot) by (rewrite Eu; intro X; inversion X; contradiction).
  split; [rewrite Eu; discriminate|]. split.
  - intro Hi. destruct (In_join _ _ _ Hi) as [X|(p & Hp & Hcp)]; [discriminate|].
    destruct (Hk p Hp) as (_ & _ & H9). contradiction.
  - split.
    + unfold e_keys. rewrite Eu. rewrite <- Eu.
      rewrite (bytes_eqb_neq _ _ Hd). rewrite split_all_join by (assumption || discriminate).
      rewrite has_dup_nodup by exact Hnd. reflexivity.
    + rewrite (bytes_eqb_neq _ _ Hd). unfold l_keys. rewrite Eu. rewrite <- Eu.
      rewrite split_all_join by (assumption || discriminate).
      now apply drop_last_empty_id.
Qed.

(* ---------------------------------------------------------------------------------------- *)
(* the whole line *)

Definition rec_ok (h : hctx) (r : vrec) : Prop :=
  r_pos r <= u64_max /\
  (r_ids r <> [dot] /\ Forall (fun i => i <> []) (r_ids r) /\ NoDup (r_ids r)) /\
  r_ref r <> [] /\
  (r_alts r <> [dot] /\ r_alts r <> [[]]) /\
  match r_qual r with Some b => FOK b | None => True end /\
  (r_filters r <> [dot] /\ r_filters r <> [[]] /\ NoDup (r_filters r)) /\
  (NoDup (map fst (r_info r)) /\ Forall (info_ok h) (r_info r)) /\
  match r_samples r with
  | [] => r_keys r = [] /\ h_nsamples h = O
  | rows => length rows = h_nsamples h /\ NoDup (r_keys r) /\
            Forall (row_ok (h_v44 h) (map (fdef_of h) (r_keys r))) rows
  end.

(* what the readers return for a written record *)
Definition canon (h : hctx) (r : vrec) : vrec :=
  {| r_chrom := r_chrom r; r_pos := r_pos r; r_ids := r_ids r; r_ref := map canon_base (r_ref r);
     r_alts := r_alts r; r_qual := r_qual r; r_filters := r_filters r; r_info := r_info r;
     r_keys := r_keys r; r_samples := map (canon_row (h_v44 h)) (r_samples r) |}.

Lemma list_field_rt : forall sep valid l t ne dc,
  w_list sep valid l = Some t -> sep <> 46 ->
  (forall s, valid s = true -> ~ In sep s) ->
  l <> [dot] -> l <> [[]] -> (ne = true -> Forall (fun p => p <> []) l) -> (dc = true -> NoDup l) ->
  e_list sep ne dc t = Some l /\ l_list sep t = l.
Proof.
  intros sep valid l t ne dc Hw Hs Hv Hd H0 Hn Hc.
  destruct (w_list_shape _ _ _ _ Hw) as [[-> ->]|(Hne & -> & F)].
  - split; reflexivity.
  - rewrite forallb_forall in F.
    assert (Hsep : Forall (fun p => ~ In sep p) l) by (apply Forall_forall; intros x Hx; exact (Hv x (F x Hx))).
    assert (Hjd : join sep l <> dot) by (intro E; apply Hd; exact (join_single_inv sep 46 l Hne Hs E)).
    assert (Hj0 : join sep l <> []) by (intro E; apply H0; exact (join_nil_inv sep l Hne E)).
    split; [now apply e_list_join|now apply l_list_join].
Qed.

Ltac break_opt H :=
  match type of H with
  | match ?x with Some _ => _ | None => _ end = _ =>
      let E := fresh "E" in destruct x eqn:E; [|discriminate]
  end.

Lemma qual_rt : forall q,
  match q with Some b => FOK b | None => True end ->
  ~ In 9 (w_qual fmt_float q) /\
  (if bytes_eqb (w_qual fmt_float q) dot then Some None
   else match w_qual fmt_float q with
        | [] => None
        | x :: y => match prs_float (x :: y) with Some b => Some (Some b) | None => None end
        end) = Some q /\
  (if bytes_eqb (w_qual fmt_float q) dot then Some None
   else match prs_float (w_qual fmt_float q) with Some b => Some (Some b) | None => None end) = Some q.
Proof.
  intros [b|] H; cbn [w_qual].
  - split; [intro Hi; destruct (float_chars b 9 H Hi) as (_ & X & _); now apply X|].
    rewrite (bytes_eqb_neq _ _ (float_not_dot b H)).
    pose proof (float_nonempty b H) as Hn. pose proof (float_rt b H) as Hr.
    destruct (fmt_float b) as [|x y]; [contradiction|]. rewrite Hr. split; reflexivity.
  - split; [cbn; lia|]. split; reflexivity.
Qed.

Lemma e_samples_cons : forall h a0 a1 a2 a3 a4 a5 a6 a7 cols,
  e_samples prs_float h (a0 :: a1 :: a2 :: a3 :: a4 :: a5 :: a6 :: a7 :: cols) =
  match h_nsamples h with
  | O => match cols with [] | [[]] => Some ([], []) | _ => None end
  | n => match e_keys (hd [] cols) with
         | Some ks => match e_rows prs_float (map (fdef_of h) ks) (tl cols) n with
                      | Some rows => Some (ks, rows)
                      | None => None
                      end
         | None => None
         end
  end.
Proof. intros. unfold e_samples. destruct cols; reflexivity. Qed.

Theorem line_roundtrip : forall h r t,
  rec_ok h r -> write_line fmt_float h r = Some t ->
  read_eager prs_float h t = Some (canon h r) /\
  read_lazy prs_float h t = Some (canon h r) /\
  lazy_cr_class t = false.
Proof.
  intros h r t Hok Hw.
  destruct Hok as (Hpos & (Hi1 & Hi2 & Hi3) & Href & (Ha1 & Ha2) & Hq & (Hf1 & Hf2 & Hf3) & (Hn1 & Hn2) & Hsmp).
  unfold write_line in Hw.
  destruct (w_chrom (r_chrom r)) as [c|] eqn:Ec; [|discriminate].
  destruct (w_list 59 id_valid (r_ids r)) as [i|] eqn:Ei; [|discriminate].
  destruct (w_ref (r_ref r)) as [rf|] eqn:Er; [|discriminate].
  destruct (w_list 44 alt_valid (r_alts r)) as [a|] eqn:Ea; [|discriminate].
  destruct (w_list 59 id_valid (r_filters r)) as [f|] eqn:Ef; [|discriminate].
  destruct (w_info fmt_float (r_info r)) as [inf|] eqn:Einf; [|discriminate].
  destruct (w_sample_cols fmt_float h r) as [cols|] eqn:Ecols; [|discriminate].
  assert (Ht : join 9 (c :: fmt_dec (r_pos r) :: i :: rf :: a :: w_qual fmt_float (r_qual r) :: f :: inf :: cols) = t)
    by (injection Hw as X; exact X).
  clear Hw.
  (* no TAB inside any column *)
  destruct (w_chrom_avoids _ _ 9 Ec ltac:(lia)) as [-> Tc].
  assert (Tp : ~ In 9 (fmt_dec (r_pos r))) by (apply fmt_dec_avoids; lia).
  assert (Ti : ~ In 9 i).
  { eapply (w_list_avoids 59 id_valid _ _ 9 Ei); [|lia|lia]. intros s Hs. apply id_valid_avoids; [exact Hs|now left]. }
  destruct (w_ref_spec _ _ Er) as [-> Hrc].
  assert (Tr : ~ In 9 (map canon_base (r_ref r))) by (intro X; specialize (Hrc 9 X); lia).
  assert (Ta : ~ In 9 a).
  { eapply (w_list_avoids 44 alt_valid _ _ 9 Ea); [|lia|lia]. intros s Hs. apply alt_valid_avoids; [exact Hs|now left]. }
  destruct (qual_rt (r_qual r) Hq) as (Tq & Qe & Ql).
  assert (Tf : ~ In 9 f).
  { eapply (w_list_avoids 59 id_valid _ _ 9 Ef); [|lia|lia]. intros s Hs. apply id_valid_avoids; [exact Hs|now left]. }
  destruct (w_info_rt h (r_info r) inf Hn2 Hn1 Einf) as (Tinf & Ie & Il & Inf0).
  (* the list columns *)
  destruct (list_field_rt 59 id_valid (r_ids r) i true true Ei ltac:(lia)
              (fun s Hs => id_valid_avoids s 59 Hs (or_intror eq_refl)) Hi1
              ltac:(intro X; rewrite X in Hi2; inversion Hi2 as [|? ? Y]; now apply Y)
              (fun _ => Hi2) (fun _ => Hi3)) as (IDe & IDl).
  destruct (list_field_rt 44 alt_valid (r_alts r) a false false Ea ltac:(lia)
              (fun s Hs => alt_valid_avoids s 44 Hs (or_intror eq_refl)) Ha1 Ha2
              ltac:(discriminate) ltac:(discriminate)) as (ALe & ALl).
  destruct (list_field_rt 59 id_valid (r_filters r) f false true Ef ltac:(lia)
              (fun s Hs => id_valid_avoids s 59 Hs (or_intror eq_refl)) Hf1 Hf2
              ltac:(discriminate) (fun _ => Hf3)) as (FLe & FLl).
  pose proof (parse_position_fmt (r_pos r) Hpos) as Pp.
  assert (Rne : map canon_base (r_ref r) <> []) by (destruct (r_ref r); [contradiction|discriminate]).
  (* the sample columns *)
  assert (Hcols : Forall (fun p => ~ In 9 p) cols /\
                  e_samples prs_float h (r_chrom r :: fmt_dec (r_pos r) :: i :: map canon_base (r_ref r) :: a ::
                                         w_qual fmt_float (r_qual r) :: f :: inf :: cols)
                  = Some (r_keys r, map (canon_row (h_v44 h)) (r_samples r)) /\
                  l_samples prs_float h cols = Some (r_keys r, map (canon_row (h_v44 h)) (r_samples r)) /\
                  cols <> [[]]).
  { rewrite e_samples_cons. unfold w_sample_cols in Ecols.
    destruct (r_samples r) as [|vs rows] eqn:Erows.
    - destruct Hsmp as [Hk Hn]. inversion Ecols; subst cols. rewrite Hk, Hn.
      repeat split; [constructor|discriminate].
    - destruct Hsmp as (Hn & Hknd & Hrows).
      destruct (w_keys (r_keys r)) as [k|] eqn:Ek; [|discriminate].
      destruct (sequence (map (fun vs0 => write_sample fmt_float (h_v44 h) (zip_take (r_keys r) vs0)) (vs :: rows))) as [cs|] eqn:Ecs; [|discriminate].
      inversion Ecols; subst cols.
      destruct (w_keys_rt (r_keys r) k Hknd Ek) as (Kne & Tk & Ke & Kl).
      destruct (rows_rt (h_v44 h) (r_keys r) (map (fdef_of h) (r_keys r)) (vs :: rows) cs
                  (map_length _ _) Hrows Ecs) as (C0 & C9 & Clen & Ce & Cl).
      split; [constructor; assumption|].
      rewrite <- Hn. cbn [length hd tl]. rewrite Ke. cbn [length] in Ce. rewrite Ce.
      split; [reflexivity|].
      destruct cs as [|c1 cs']; [cbn in Clen; discriminate|].
      split; [|discriminate].
      cbn [l_samples]. rewrite Kl. rewrite (drop_last_empty_id _ C0). rewrite Cl. reflexivity. }
  destruct Hcols as (Tcols & Se & Sl & Cne).
  assert (Hsplit : split_all 9 t =
                   r_chrom r :: fmt_dec (r_pos r) :: i :: map canon_base (r_ref r) :: a ::
                   w_qual fmt_float (r_qual r) :: f :: inf :: cols).
  { rewrite <- Ht. apply split_all_join; [discriminate|]. repeat (constructor; [assumption|]). exact Tcols. }
  split; [|split].
  - unfold read_eager, read_eager_gen. rewrite Hsplit. cbn [fld nth]. rewrite Pp, IDe.
    remember (map canon_base (r_ref r)) as rfm eqn:Erf.
    destruct rfm as [|rb rt]; [contradiction|].
    rewrite ALe, Qe, FLe, Ie, Se. unfold canon. rewrite <- Erf. reflexivity.
  - unfold read_lazy. rewrite Hsplit. cbn [fld nth length skipn].
    replace (_ <? 8)%nat with false by (symmetry; apply Nat.ltb_ge; lia).
    rewrite Pp, Ql, Il, Sl, IDl, ALl, FLl. reflexivity.
  - unfold lazy_cr_class. rewrite Hsplit. cbn [skipn].
    destruct inf as [|i0 it]; [contradiction|].
    destruct cols as [|x [|y z]]; try reflexivity; destruct x; try reflexivity. contradiction.
Qed.

(* ---- the span of the re-read record ---- *)

Lemma max_sample_lens_norm : forall v44 l acc,
  max_sample_lens (map (option_map (norm_value v44)) l) acc = max_sample_lens l acc.
Proof.
  intros v44. induction l as [|o l IH]; intros acc; [reflexivity|].
  destruct o as [v|]; cbn [map option_map max_sample_lens]; [|apply IH].
  destruct v; cbn [norm_value max_sample_lens]; try reflexivity.
  - destruct (z <? 0)%Z; [reflexivity|apply IH].
  - destruct v44; reflexivity.
Qed.

Lemma nth_canon_row : forall v44 i vs,
  nth i (canon_row v44 vs) None = option_map (norm_value v44) (nth i vs None).
Proof.
  intros v44 i vs.
  assert (G : nth i (map (option_map (norm_value v44)) vs) None = option_map (norm_value v44) (nth i vs None))
    by (change (@None value) with (option_map (norm_value v44) None) at 1; apply map_nth).
  destruct vs as [|o vs]; [destruct i; reflexivity|].
  destruct o as [v|]; [exact G|]. destruct vs; [|exact G].
  destruct i as [|[|i]]; reflexivity.
Qed.

Lemma span_canon : forall h r v45,
  rec_end v45 (canon h r) = rec_end v45 r /\ rec_span v45 (canon h r) = rec_span v45 r.
Proof.
  intros h r v45.
  assert (E : forall f : span_in -> res N,
            (forall a b, si_pos a = si_pos b -> si_reflen a = si_reflen b -> si_end a = si_end b ->
                         si_svlen a = si_svlen b -> samples_max_len (si_len a) = samples_max_len (si_len b) ->
                         f a = f b) ->
            f (span_of_rec (canon h r)) = f (span_of_rec r)).
  { intros f Hf. apply Hf; unfold span_of_rec, canon; cbn [si_pos si_reflen si_end si_svlen si_len r_pos r_ref r_info r_keys r_samples]; try reflexivity.
    - now rewrite map_length.
    - destruct (index_of key_LEN (r_keys r)) as [i|]; [|reflexivity]. cbn [samples_max_len].
      unfold series. rewrite map_map.
      rewrite (map_ext _ (fun row => option_map (norm_value (h_v44 h)) (nth i row None)))
        by (intro row; apply nth_canon_row).
      rewrite <- (map_map (fun row => nth i row None) (option_map (norm_value (h_v44 h)))).
      apply max_sample_lens_norm. }
  assert (Hend : forall a b, si_pos a = si_pos b -> si_reflen a = si_reflen b -> si_end a = si_end b ->
                 si_svlen a = si_svlen b -> samples_max_len (si_len a) = samples_max_len (si_len b) ->
                 variant_end v45 a = variant_end v45 b).
  { intros a b H1 H2 H3 H4 H5. unfold variant_end, ref_len, end_from_len, start_of.
    rewrite H1, H2, H3, H4, H5. reflexivity. }
  split.
  - unfold rec_end. apply E. exact Hend.
  - unfold rec_span. apply E. intros a b H1 H2 H3 H4 H5. unfold variant_span, start_of.
    rewrite (Hend a b H1 H2 H3 H4 H5), H1. reflexivity.
Qed.

(* the record read back from a written line, by either reader, has the span of the written record *)
Theorem line_span_roundtrip : forall h r t v45,
  rec_ok h r -> write_line fmt_float h r = Some t ->
  exists re rl, read_eager prs_float h t = Some re /\ read_lazy prs_float h t = Some rl /\ re = rl /\
    rec_end v45 re = rec_end v45 r /\ rec_span v45 re = rec_span v45 r /\
    rec_end v45 rl = rec_end v45 r /\ rec_span v45 rl = rec_span v45 r.
Proof.
  intros h r t v45 Hok Hw. destruct (line_roundtrip h r t Hok Hw) as (He & Hl & _).
  destruct (span_canon h r v45) as [S1 S2].
  exists (canon h r), (canon h r). repeat split; assumption.
Qed.

(* ---- a reused RecordBuf ---- *)

Lemma resize_cleared : forall n (prev : list (list (option value))),
  resize_rows n (map (fun _ => []) prev) = repeat [] n.
Proof.
  intros n prev. unfold resize_rows. rewrite map_length.
  revert n. induction prev as [|p prev IH]; intros n.
  - cbn [map length]. rewrite firstn_nil. cbn [app]. now rewrite Nat.sub_0_r.
  - destruct n as [|n]; [reflexivity|]. cbn [map firstn length Nat.sub app repeat]. f_equal. apply IH.
Qed.

Lemma e_rows_into_fresh : forall n ds cols,
  e_rows_into prs_float (repeat [] n) ds cols = e_rows prs_float ds cols n.
Proof.
  induction n as [|n IH]; intros ds cols; [reflexivity|].
  cbn [repeat e_rows_into e_rows]. rewrite IH. reflexivity.
Qed.

(* whatever the buffer held, parse_samples gives what it gives on a fresh buffer *)
Lemma e_samples_into_fresh : forall prev h ps,
  e_samples_into prs_float prev h ps = e_samples prs_float h ps.
Proof.
  intros prev h ps. unfold e_samples_into, e_samples.
  destruct (h_nsamples h) as [|n]; [reflexivity|].
  rewrite resize_cleared. destruct (e_keys (fld ps 8)); [|reflexivity].
  rewrite (e_rows_into_fresh (S n)). reflexivity.
Qed.

Theorem reused_recordbuf_independent : forall prev h line,
  read_eager_into prs_float prev h line = read_eager prs_float h line.
Proof.
  intros prev h line. unfold read_eager_into, read_eager, read_eager_gen.
  rewrite e_samples_into_fresh. reflexivity.
Qed.

End F.

(* ---------------------------------------------------------------------------------------- *)
(* witnesses: records the writer accepts that are outside rec_ok, and the known panic *)

Definition w_fmt : N -> list N := fun _ => [48].
Definition w_prs : list N -> option N := fun _ => None.
Definition h0 (n : nat) : hctx := {| h_v44 := false; h_infos := []; h_formats := []; h_nsamples := n |}.
Definition r0 : vrec :=
  {| r_chrom := [99]; r_pos := 5; r_ids := []; r_ref := [65]; r_alts := []; r_qual := None;
     r_filters := []; r_info := []; r_keys := []; r_samples := [] |}.

(* an ID "." is written and read back as no ID; an IUPAC REF base is written resolved *)
Lemma witness_id_dot :
  let r := {| r_chrom := [99]; r_pos := 5; r_ids := [dot]; r_ref := [82]; r_alts := []; r_qual := None;
              r_filters := []; r_info := []; r_keys := []; r_samples := [] |} in
  exists t, write_line w_fmt (h0 0) r = Some t /\
    read_eager w_prs (h0 0) t = Some r0 /\ read_lazy w_prs (h0 0) t = Some r0.
Proof. eexists. split; [vm_compute; reflexivity|]. vm_compute. split; reflexivity. Qed.

(* an empty REF / an empty ID are written as empty columns: the eager reader rejects the line,
   the lazy record returns them *)
Lemma witness_empty_ref :
  let r := {| r_chrom := [99]; r_pos := 5; r_ids := []; r_ref := []; r_alts := []; r_qual := None;
              r_filters := []; r_info := []; r_keys := []; r_samples := [] |} in
  exists t, write_line w_fmt (h0 0) r = Some t /\
    read_eager w_prs (h0 0) t = None /\ read_lazy w_prs (h0 0) t = Some r.
Proof. eexists. split; [vm_compute; reflexivity|]. vm_compute. split; reflexivity. Qed.

(* samples without FORMAT keys are written ". . ." and come back, without values, from both
   readers (former defect lazy-samples-dropped-format-missing, repaired in 6449b9b: the lazy
   record used to return no samples) *)
Lemma witness_format_missing :
  let r := {| r_chrom := [99]; r_pos := 5; r_ids := []; r_ref := [65]; r_alts := []; r_qual := None;
              r_filters := []; r_info := []; r_keys := []; r_samples := [[]; []] |} in
  exists t, write_line w_fmt (h0 2) r = Some t /\
    read_eager w_prs (h0 2) t = Some r /\ read_lazy w_prs (h0 2) t = Some r.
Proof. eexists. split; [vm_compute; reflexivity|]. vm_compute. split; reflexivity. Qed.

(* the former panic class (INFO ends with CR and is followed by TAB LF): after the repair both
   readers read the line, with LF and with CR LF, and keep the CR inside the INFO column *)
Lemma witness_lazy_cr_class :
  let line := [99; 9; 53; 9; 46; 9; 65; 9; 46; 9; 46; 9; 46; 9; 46; 13; 9] in
  let r := {| r_chrom := [99]; r_pos := 5; r_ids := []; r_ref := [65]; r_alts := []; r_qual := None;
              r_filters := []; r_info := [([46; 13], Some VFlag)]; r_keys := []; r_samples := [] |} in
  lazy_cr_class line = true /\
  read_lazy_text w_prs (h0 0) (line ++ [10]) = Some r /\
  read_lazy_text w_prs (h0 0) (line ++ [13; 10]) = Some r /\
  read_eager_text w_prs (h0 0) (line ++ [10]) = Some r.
Proof. vm_compute. repeat split. Qed.

(* ---------------------------------------------------------------------------------------- *)
(* VCF 4.5: where the SVLEN term decides the end (the input class of the known finding
   vcf45-svlen-end-one-base-short-of-spec): with no FORMAT LEN and the largest SVLEN entry m, the
   end is start + max(|REF|, m) - 1.  So for m >= |REF| (and m >= 1) the end is start + m - 1, one
   base before POS + SVLEN; for m < |REF| the SVLEN field has no effect; before 4.5 it never has. *)
Lemma v45_end_svlen : forall r l m,
  si_reflen r <> 0 -> si_svlen r = Some (Some (VIntArr l)) -> max_lens l None = Ok (Some m) ->
  si_len r = None -> start_of r + (N.max (si_reflen r) m - 1) <= usize_max ->
  variant_end true r = Ok (start_of r + (N.max (si_reflen r) m - 1)) /\
  (si_reflen r <= m -> variant_end true r = Ok (start_of r + (m - 1))) /\
  (m < si_reflen r -> variant_end true r = Ok (start_of r + (si_reflen r - 1))).
Proof.
  intros r l m H0 Hs Hm Hl Hle.
  assert (E : variant_end true r = Ok (start_of r + (N.max (si_reflen r) m - 1))).
  { unfold variant_end, ref_len, end_from_len. rewrite Hs, Hl. cbn [info_max_svlen samples_max_len].
    rewrite Hm. destruct (si_reflen r =? 0) eqn:Z; [lia|].
    destruct (usize_max <? start_of r + (N.max (si_reflen r) m - 1)) eqn:U; [lia|reflexivity]. }
  split; [exact E|]. split; intro H; rewrite E; do 2 f_equal; lia.
Qed.

Lemma pre45_end_ignores_svlen : forall r sv,
  variant_end false r =
  variant_end false {| si_pos := si_pos r; si_reflen := si_reflen r; si_end := si_end r;
                       si_svlen := sv; si_len := si_len r |}.
Proof. intros r sv. reflexivity. Qed.
