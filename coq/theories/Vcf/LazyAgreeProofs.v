(* C09 -- the bounds-level lazy reader (NV.Vcf.LazyRec.lazy_run: record buffer + eight bounds +
   one slice per accessor) agrees with the line-level model NV.Vcf.Line.read_lazy on EVERY text
   that contains an LF: CR anywhere in the line (only the one before the LF is dropped, and only
   from the bytes the last read appended), fewer than eight columns (read_record's "unexpected
   EOL" error = read_lazy's None), empty columns, nothing or anything after the LF.  This
   generalises NV.Vcf.LazyFileProofs.lazy_run_line / lazy_run_framed (lines without CR and with
   at least eight columns).  [valid] (str::from_utf8) is assumed to accept every list made of
   bytes of the text: the statement is about framing and bounds, not about UTF-8. *)
From Coq Require Import List NArith Arith Bool Lia.
From NV Require Import Text.TextBase Text.TextBaseProofs Vcf.Values Vcf.Span Vcf.Line Vcf.LineProofs Vcf.FrameProofs
  Vcf.LazyRec Vcf.LazyRecProofs Vcf.LazyFileProofs.
Import ListNotations.
Open Scope nat_scope.

(* a column: free of TAB and LF; CR may occur anywhere *)
Definition tlf (p : list N) : Prop := ~ In 9%N p /\ ~ In 10%N p.

(* ---------------------------------------------------------------------------------------- *)
(* strip_cr / pop_cr *)

Lemma strip_cr_cons : forall b t, b <> 13%N -> strip_cr (b :: t) = b :: strip_cr t.
Proof.
  intros b t Hb. destruct t as [|c t']; [|reflexivity].
  cbn [strip_cr]. apply N.eqb_neq in Hb. rewrite Hb. reflexivity.
Qed.

Lemma strip_cr_In : forall s b, In b (strip_cr s) -> In b s.
Proof.
  induction s as [|x t IH]; intros b H; [exact H|].
  destruct t as [|c t'].
  - cbn [strip_cr] in H. destruct (x =? 13)%N; [destruct H|exact H].
  - change (strip_cr (x :: c :: t')) with (x :: strip_cr (c :: t')) in H.
    destruct H as [H|H]; [now left|right; exact (IH b H)].
Qed.

(* String::pop of a CR from the bytes just appended = strip_cr of those bytes *)
Lemma pop_cr_app : forall a p, p <> [] -> pop_cr (a ++ p) = a ++ strip_cr p.
Proof.
  intros a p Hne. destruct (exists_last Hne) as (q & x & E). subst p.
  rewrite (strip_cr_app q [x]) by discriminate. cbn [strip_cr].
  unfold pop_cr. rewrite (app_assoc a q [x]), ends_cr_snoc.
  destruct (x =? 13)%N.
  - rewrite removelast_last. now rewrite app_nil_r.
  - now rewrite <- app_assoc.
Qed.

(* the pieces of a framed line: the last one loses its CR *)
Fixpoint map_last (cs : list (list N)) : list (list N) :=
  match cs with
  | [] => []
  | p :: t => match t with [] => [strip_cr p] | _ => p :: map_last t end
  end.

Lemma map_last_length : forall cs, length (map_last cs) = length cs.
Proof.
  induction cs as [|p cs IH]; [reflexivity|]. destruct cs as [|q r]; [reflexivity|].
  change (map_last (p :: q :: r)) with (p :: map_last (q :: r)).
  cbn [length] in *. now rewrite IH.
Qed.

Lemma split_strip_join : forall cs, cs <> [] -> Forall (fun p => ~ In 9%N p) cs ->
  split_all 9%N (strip_cr (join 9%N cs)) = map_last cs.
Proof.
  induction cs as [|p cs IH]; intros Hne Hc; [contradiction|].
  inversion Hc as [|? ? Hp Hc']; subst.
  destruct cs as [|q r].
  - cbn [join map_last]. apply split_all_none. intro X. apply Hp. exact (strip_cr_In _ _ X).
  - rewrite join_cons2. rewrite strip_cr_app by discriminate.
    rewrite strip_cr_cons by discriminate.
    rewrite split_all_app by exact Hp.
    rewrite IH; [reflexivity|discriminate|exact Hc'].
Qed.

Lemma In_join_piece : forall (sep : N) cs p b, In p cs -> In b p -> In b (join sep cs).
Proof.
  intros sep cs p b Hp Hb. induction cs as [|q r IH]; [destruct Hp|].
  destruct r as [|q2 r2].
  - destruct Hp as [E|[]]. subst q. exact Hb.
  - rewrite join_cons2. apply in_or_app. destruct Hp as [E|Hp]; [subst q; now left|].
    right. right. exact (IH Hp).
Qed.

(* the text up to its first LF, the LF, the rest *)
Lemma mem_split : forall c s, mem c s = true ->
  s = take_until c s ++ c :: skipn (S (length (take_until c s))) s /\ ~ In c (take_until c s).
Proof.
  intros c. induction s as [|b t IH]; intro H; cbn [mem] in H; [discriminate|].
  cbn [take_until]. destruct (b =? c)%N eqn:E.
  - apply N.eqb_eq in E. subst b. split; [reflexivity|intros []].
  - cbn [orb] in H. destruct (IH H) as (A & B). split.
    + exact (f_equal (cons b) A).
    + apply N.eqb_neq in E. intros [X|X]; contradiction.
Qed.

Lemma skipn_past : forall (line rest : list N) c, skipn (S (length line)) (line ++ c :: rest) = rest.
Proof.
  intros line rest c. replace (S (length line)) with (length line + 1) by lia.
  rewrite skipn_app, skipn_all2 by lia.
  replace (length line + 1 - length line) with 1 by lia. reflexivity.
Qed.

(* ---------------------------------------------------------------------------------------- *)
(* read_field / read_required_field on columns that may hold CR *)

Section V.
Variable valid : list N -> bool.

Lemma rd_field_tab_if : forall p x dst, tlf p ->
  rd_field valid (p ++ 9%N :: x) dst =
  if valid p then FOk (dst ++ p) (length p + 1) false x else FErr.
Proof.
  intros p x dst (H9 & H10). unfold rd_field.
  rewrite (scan_fld_app p 9%N x H9 H10 (or_introl eq_refl)). reflexivity.
Qed.

Lemma rd_field_lf_if : forall p x dst, tlf p ->
  rd_field valid (p ++ 10%N :: x) dst =
  if valid p then FOk (dst ++ strip_cr p) (length p + 1) true x else FErr.
Proof.
  intros p x dst (H9 & H10). unfold rd_field.
  rewrite (scan_fld_app p 10%N x H9 H10 (or_intror eq_refl)). cbv beta iota.
  destruct (valid p); [|reflexivity].
  change (10 =? 10)%N with true. cbn [andb]. f_equal.
  destruct p as [|b p].
  - cbn [strip_cr]. rewrite app_nil_r. rewrite Nat.ltb_irrefl. reflexivity.
  - replace (length dst <? length (dst ++ b :: p)) with true
      by (symmetry; apply Nat.ltb_lt; rewrite app_length; cbn [length]; lia).
    apply pop_cr_app. discriminate.
Qed.

Lemma rd_field_tab_any : forall p x dst, tlf p -> valid p = true ->
  rd_field valid (p ++ 9%N :: x) dst = FOk (dst ++ p) (length p + 1) false x.
Proof. intros p x dst Hp Hv. rewrite (rd_field_tab_if p x dst Hp), Hv. reflexivity. Qed.

Lemma rd_field_lf_any : forall p x dst, tlf p -> valid p = true ->
  rd_field valid (p ++ 10%N :: x) dst = FOk (dst ++ strip_cr p) (length p + 1) true x.
Proof. intros p x dst Hp Hv. rewrite (rd_field_lf_if p x dst Hp), Hv. reflexivity. Qed.

Lemma rd_required_cols_any : forall pre post tail dst ends n,
  post <> [] -> Forall tlf pre -> (forall p, In p pre -> valid p = true) ->
  exists n', rd_required valid (length pre) (line_text (pre ++ post) tail) dst ends n =
    QOk (dst ++ concat pre) (ends ++ cum (length dst) pre) n' (line_text post tail).
Proof.
  induction pre as [|p pre IH]; intros post tail dst ends n Hpost Hc Hv.
  - exists n. cbn [length rd_required concat cum app]. now rewrite !app_nil_r.
  - inversion Hc as [|? ? Hp Hc']; subst.
    assert (Hne : exists q r, pre ++ post = q :: r).
    { destruct pre as [|q r]; [destruct post as [|q r]; [contradiction|]|]; eexists; eexists; reflexivity. }
    destruct Hne as (q & r & Eq).
    cbn [length rd_required app]. rewrite Eq, line_text_cons2, <- Eq.
    rewrite (rd_field_tab_any p _ dst Hp (Hv p (or_introl eq_refl))).
    destruct (IH post tail (dst ++ p) (ends ++ [length (dst ++ p)]) (n + (length p + 1)) Hpost Hc'
                (fun x Hx => Hv x (or_intror Hx))) as (n' & E).
    exists n'. rewrite E. cbn [concat cum]. rewrite <- !app_assoc. rewrite app_length. reflexivity.
Qed.

(* too few columns: the LF ends one of the k required fields -> "unexpected EOL" (or the field is
   not valid text: Err as well) *)
Lemma rd_required_short : forall cs tail k dst ends n,
  cs <> [] -> Forall tlf cs -> length cs <= k ->
  rd_required valid k (line_text cs (10%N :: tail)) dst ends n = QErr.
Proof.
  induction cs as [|p cs IH]; intros tail k dst ends n Hne Hc Hk; [contradiction|].
  inversion Hc as [|? ? Hp Hc']; subst.
  destruct k as [|k]; [cbn [length] in Hk; lia|].
  cbn [rd_required].
  destruct cs as [|q r].
  - unfold line_text. cbn [join]. rewrite (rd_field_lf_if p tail dst Hp).
    destruct (valid p); reflexivity.
  - rewrite line_text_cons2, (rd_field_tab_if p _ dst Hp).
    destruct (valid p); [|reflexivity].
    apply IH; [discriminate|exact Hc'|cbn [length] in *; lia].
Qed.

End V.

Lemma lazy_run_count : forall valid prs h text n f r rest,
  lazy_run prs valid h text = LRec n f r rest -> n + length rest = length text.
Proof.
  intros valid prs h text n f r rest H. unfold lazy_run in H.
  destruct (rd_record valid text) as [|n0 buf ends rest0] eqn:Er; [discriminate|].
  destruct (rd_record_bounds valid _ _ _ _ _ Er) as (_ & _ & L).
  destruct n0; [discriminate|]. destruct (fields_of buf ends); [|discriminate].
  inversion H; subst. exact L.
Qed.

(* ---------------------------------------------------------------------------------------- *)
(* one line given by its columns *)

Lemma lazy_run_cols : forall valid prs h cs rest, cs <> [] -> Forall tlf cs ->
  (forall s, (forall b, In b s -> In b (join 9%N cs ++ [10%N])) -> valid s = true) ->
  match lazy_run prs valid h (join 9%N cs ++ 10%N :: rest) with
  | LRec n f r rest' =>
      r = read_lazy prs h (strip_cr (join 9%N cs)) /\ n = S (length (join 9%N cs)) /\ rest' = rest
  | LErr => read_lazy prs h (strip_cr (join 9%N cs)) = None
  | _ => False
  end.
Proof.
  intros valid prs h cs rest Hne Hc Hval.
  assert (Hcol : forall p, In p cs -> valid p = true).
  { intros p Hp. apply Hval. intros b Hb. apply in_or_app. left. exact (In_join_piece _ _ _ _ Hp Hb). }
  assert (H9 : Forall (fun p => ~ In 9%N p) cs).
  { eapply Forall_impl; [|exact Hc]. intros p (A & _). exact A. }
  assert (Hsplit : split_all 9%N (strip_cr (join 9%N cs)) = map_last cs)
    by (apply split_strip_join; assumption).
  destruct (le_lt_dec 8 (length cs)) as [H8|H8].
  2:{ (* fewer than eight columns *)
      unfold lazy_run, rd_record.
      change (join 9%N cs ++ 10%N :: rest) with (line_text cs (10%N :: rest)).
      rewrite (rd_required_short valid cs rest 7 [] [] 0 Hne Hc) by lia.
      unfold read_lazy. rewrite Hsplit, map_last_length.
      replace (length cs <? 8) with true by (symmetry; apply Nat.ltb_lt; lia). reflexivity. }
  destruct cs as [|c0 [|c1 [|c2 [|c3 [|c4 [|c5 [|c6 [|c7 more]]]]]]]]; try (cbn [length] in H8; lia).
  clear H8 Hne.
  (* the seven required fields *)
  pose (pre := [c0; c1; c2; c3; c4; c5; c6]).
  pose proof (proj1 (Forall_forall _ _) Hc) as Hcl.
  assert (Hpre : Forall tlf pre)
    by (apply Forall_forall; intros p Hp; apply Hcl; subst pre; cbn [In] in Hp |- *; tauto).
  destruct (rd_required_cols_any valid pre (c7 :: more) (10%N :: rest) [] [] 0 ltac:(discriminate) Hpre
              ltac:(intros p Hp; apply Hcol; subst pre; cbn [In] in Hp |- *; tauto)) as (n7 & E7).
  assert (Hc7 : tlf c7) by (apply Hcl; cbn [In]; tauto).
  assert (Hv7 : valid c7 = true) by (apply Hcol; cbn [In]; tauto).
  assert (Hmore : Forall tlf more) by (apply Forall_forall; intros p Hp; apply Hcl; cbn [In]; tauto).
  assert (Hrun : exists k f,
            lazy_run prs valid h (join 9%N (c0 :: c1 :: c2 :: c3 :: c4 :: c5 :: c6 :: c7 :: more) ++ 10%N :: rest) =
              LRec (S k) f (view_ps prs h (pieces_of f)) rest /\
            pieces_of f = c0 :: c1 :: c2 :: c3 :: c4 :: c5 :: c6 ::
                          match more with [] => [strip_cr c7; []] | _ => c7 :: map_last more end).
  { unfold lazy_run, rd_record.
    change (join 9%N (c0 :: c1 :: c2 :: c3 :: c4 :: c5 :: c6 :: c7 :: more) ++ 10%N :: rest)
      with (line_text (pre ++ c7 :: more) (10%N :: rest)).
    change 7 with (length pre). rewrite E7. cbn [app length].
    destruct more as [|m ms].
    - (* INFO ends the line *)
      unfold line_text. cbn [join]. rewrite (rd_field_lf_any valid c7 rest _ Hc7 Hv7).
      replace (fields_of (concat pre ++ strip_cr c7)) with (fields_of ((concat pre ++ strip_cr c7) ++ []))
        by (now rewrite app_nil_r).
      subst pre. rewrite fields_of_pre.
      destruct (n7 + (length c7 + 1)) as [|k] eqn:En; [lia|].
      eexists; eexists; split; reflexivity.
    - rewrite line_text_cons2. rewrite (rd_field_tab_any valid c7 _ _ Hc7 Hv7).
      unfold rd_tail, line_raw, line_text.
      assert (H10 : ~ In 10%N (join 9%N (m :: ms))).
      { intro X. destruct (In_join _ _ _ X) as [Y|(p & Hp & Hb)]; [discriminate|].
        rewrite Forall_forall in Hmore. destruct (Hmore p Hp) as (_ & B). contradiction. }
      rewrite (take_until_app 10%N _ rest H10).
      replace (mem 10%N (join 9%N (m :: ms) ++ 10%N :: rest)) with true
        by (symmetry; apply mem_In; apply in_or_app; right; now left).
      rewrite Hval.
      2:{ intros b Hb. apply in_app_or in Hb. destruct Hb as [Hb|Hb]; [|apply in_or_app; right; exact Hb].
          apply in_or_app. left.
          repeat (rewrite join_cons2; apply in_or_app; right; right). exact Hb. }
      replace (skipn (length (join 9%N (m :: ms)) + 1) (join 9%N (m :: ms) ++ 10%N :: rest)) with rest.
      2:{ rewrite skipn_app. rewrite skipn_all2 by lia.
          replace (length (join 9%N (m :: ms)) + 1 - length (join 9%N (m :: ms))) with 1 by lia. reflexivity. }
      subst pre. rewrite fields_of_pre.
      destruct (n7 + (length c7 + 1) + (length (join 9%N (m :: ms)) + 1)) as [|k] eqn:En; [lia|].
      eexists; eexists; split; [reflexivity|].
      unfold pieces_of. cbn [lf_chrom lf_pos lf_ids lf_ref lf_alts lf_qual lf_filters lf_info lf_samples].
      rewrite split_strip_join; [reflexivity|discriminate|].
      eapply Forall_impl; [|exact Hmore]. intros p (A & _). exact A. }
  destruct Hrun as (k & f & Erun & Ef).
  pose proof (lazy_run_count _ _ _ _ _ _ _ _ Erun) as Hn.
  rewrite Erun. split; [|split; [|reflexivity]].
  - rewrite Ef. unfold read_lazy. rewrite Hsplit, map_last_length.
    replace (length (c0 :: c1 :: c2 :: c3 :: c4 :: c5 :: c6 :: c7 :: more) <? 8) with false
      by (symmetry; apply Nat.ltb_ge; cbn [length]; lia).
    destruct more as [|m ms]; reflexivity.
  - rewrite app_length in Hn. cbn [length] in Hn. lia.
Qed.

(* ---------------------------------------------------------------------------------------- *)
(* EVERY text with an LF *)

Theorem lazy_bounds_agree_rest : forall valid prs_float h text,
  (forall s, (forall b, In b s -> In b text) -> valid s = true) -> mem 10%N text = true ->
  match lazy_run prs_float valid h text with
  | LRec n f r rest =>
      r = read_lazy prs_float h (frame text) /\
      n = S (length (take_until 10%N text)) /\ rest = skipn n text
  | LErr => read_lazy prs_float h (frame text) = None
  | _ => False
  end.
Proof.
  intros valid prs h text Hval Hmem.
  destruct (mem_split 10%N text Hmem) as (Et & H10).
  unfold frame. rewrite Hmem. unfold first_line.
  remember (take_until 10%N text) as line eqn:El.
  remember (skipn (S (length line)) text) as rest eqn:Er.
  clear El Er Hmem. subst text.
  destruct (split_all_spec 9%N line) as (Hne & Hj & Hf).
  assert (Hc : Forall tlf (split_all 9%N line)).
  { eapply Forall_impl; [|exact Hf]. intros p (A & B). split; [exact A|].
    intro X. apply H10. exact (B _ X). }
  assert (Hval' : forall s, (forall b, In b s -> In b (join 9%N (split_all 9%N line) ++ [10%N])) -> valid s = true).
  { rewrite Hj. intros s Hs. apply Hval. intros b Hb. specialize (Hs b Hb).
    apply in_app_or in Hs. apply in_or_app. destruct Hs as [Hs|[Hs|[]]]; [now left|right; now left]. }
  pose proof (lazy_run_cols valid prs h (split_all 9%N line) rest Hne Hc Hval') as L.
  rewrite Hj in L.
  destruct (lazy_run prs valid h (line ++ 10%N :: rest)) as [| | |n f r rest']; try exact L.
  destruct L as (A & B & C). subst r n rest'.
  split; [reflexivity|]. split; [reflexivity|]. symmetry. apply skipn_past.
Qed.

Theorem lazy_bounds_agree : forall valid prs_float h text,
  (forall s, (forall b, In b s -> In b text) -> valid s = true) -> mem 10%N text = true ->
  match lazy_run prs_float valid h text with
  | LRec n f r rest => r = read_lazy prs_float h (frame text)
  | LErr => read_lazy prs_float h (frame text) = None
  | _ => False
  end.
Proof.
  intros valid prs h text Hval Hmem.
  pose proof (lazy_bounds_agree_rest valid prs h text Hval Hmem) as L.
  destruct (lazy_run prs valid h text) as [| | |n f r rest]; try exact L.
  destruct L as (A & _). exact A.
Qed.

Print Assumptions lazy_bounds_agree_rest.
Print Assumptions lazy_bounds_agree.
