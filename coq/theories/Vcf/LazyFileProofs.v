(* C09 -- the bounds-level lazy reader (NV.Vcf.LazyRec) on a well-framed line: eight or more
   TAB-separated columns free of TAB, LF and CR, terminated by LF, whatever follows.  The buffer
   is the concatenation of the first eight columns and the rest of the line, the bounds are the
   running lengths, every slice is its column, and the forced views are NV.Vcf.Line.read_lazy of
   the line -- so the line theorems hold for the reader that works on buffer and bounds, record
   after record through a whole file. *)
From Coq Require Import List NArith Arith Bool Lia.
From NV Require Import Text.TextBase Text.TextBaseProofs Vcf.Values Vcf.Span Vcf.Line Vcf.LineProofs Vcf.FrameProofs
  Vcf.LazyRec Vcf.LazyRecProofs.
Import ListNotations.
Open Scope nat_scope.

Definition clean (p : list N) : Prop := ~ In 9%N p /\ ~ In 10%N p /\ ~ In 13%N p.

Lemma scan_fld_app : forall p c x, ~ In 9%N p -> ~ In 10%N p -> (c = 9%N \/ c = 10%N) ->
  scan_fld (p ++ c :: x) = (p, Some c, x).
Proof.
  induction p as [|b p IH]; intros c x H9 H10 Hc; cbn [app scan_fld].
  - destruct Hc; subst c; reflexivity.
  - assert (E : ((b =? 9)%N || (b =? 10)%N)%bool = false).
    { apply orb_false_iff. split; apply N.eqb_neq; intro X; subst b; [apply H9|apply H10]; now left. }
    rewrite E. rewrite IH; [reflexivity| | |exact Hc]; intro X; [apply H9|apply H10]; now right.
Qed.

Lemma ends_cr_snoc : forall a x, ends_cr (a ++ [x]) = (x =? 13)%N.
Proof.
  intros a x. unfold ends_cr. rewrite rev_app_distr. cbn [rev app].
  destruct x as [|p]; [reflexivity|].
  do 4 (destruct p as [p|p|]; try reflexivity).
Qed.

Lemma pop_cr_clean : forall a p, ~ In 13%N p -> p <> [] -> pop_cr (a ++ p) = a ++ p.
Proof.
  intros a p H13 Hne. destruct (exists_last Hne) as (q & x & ->).
  unfold pop_cr. rewrite app_assoc, ends_cr_snoc.
  replace (x =? 13)%N with false; [reflexivity|].
  symmetry. apply N.eqb_neq. intro X. subst x. apply H13. apply in_or_app. right. now left.
Qed.

Fixpoint cum (base : nat) (ps : list (list N)) : list nat :=
  match ps with
  | [] => []
  | p :: t => (base + length p) :: cum (base + length p) t
  end.

Definition line_text (cs : list (list N)) (tail : list N) : list N := join 9%N cs ++ tail.

Lemma line_text_cons2 : forall p q r tail,
  line_text (p :: q :: r) tail = p ++ 9%N :: line_text (q :: r) tail.
Proof. intros. unfold line_text. rewrite join_cons2, <- app_assoc. reflexivity. Qed.

Section V.
Variable valid : list N -> bool.

Lemma rd_field_tab : forall p x dst, clean p -> valid p = true ->
  rd_field valid (p ++ 9%N :: x) dst = FOk (dst ++ p) (length p + 1) false x.
Proof.
  intros p x dst (H9 & H10 & _) Hv. unfold rd_field.
  rewrite (scan_fld_app p 9%N x H9 H10 (or_introl eq_refl)), Hv. reflexivity.
Qed.

Lemma rd_field_lf : forall p x dst, clean p -> valid p = true ->
  rd_field valid (p ++ 10%N :: x) dst = FOk (dst ++ p) (length p + 1) true x.
Proof.
  intros p x dst (H9 & H10 & H13) Hv. unfold rd_field.
  rewrite (scan_fld_app p 10%N x H9 H10 (or_intror eq_refl)), Hv.
  change (10 =? 10)%N with true. cbn [andb]. f_equal.
  destruct (length dst <? length (dst ++ p)) eqn:C; [|reflexivity].
  apply pop_cr_clean; [exact H13|]. intro X. subst p. rewrite app_nil_r in C.
  apply Nat.ltb_lt in C. lia.
Qed.

Lemma rd_required_cols : forall pre post tail dst ends n,
  post <> [] -> Forall clean pre -> (forall p, In p pre -> valid p = true) ->
  exists n', rd_required valid (length pre) (line_text (pre ++ post) tail) dst ends n =
    QOk (dst ++ concat pre) (ends ++ cum (length dst) pre) n' (line_text post tail).
Proof.
  induction pre as [|p pre IH]; intros post tail dst ends n Hpost Hc Hv.
  - exists n. cbn [length rd_required concat cum app]. now rewrite !app_nil_r.
  - inversion Hc as [|? ? Hp Hc']; subst.
    assert (Hne : exists q r, pre ++ post = q :: r).
    { destruct pre as [|q r]; [destruct post as [|q r]; [contradiction|]|]; eexists; eexists; reflexivity. }
    destruct Hne as (q & r & Eq).
    cbn [length rd_required app]. rewrite Eq, line_text_cons2, <- Eq.
    rewrite (rd_field_tab p _ dst Hp (Hv p (or_introl eq_refl))).
    destruct (IH post tail (dst ++ p) (ends ++ [length (dst ++ p)]) (n + (length p + 1)) Hpost Hc'
                (fun x Hx => Hv x (or_intror Hx))) as (n' & E).
    exists n'. rewrite E. cbn [concat cum]. rewrite <- !app_assoc. rewrite app_length. reflexivity.
Qed.

End V.

Lemma slice_eq : forall a b buf pre p post,
  a = length pre -> b = a + length p -> buf = pre ++ p ++ post -> slice a b buf = Some p.
Proof.
  intros a b buf pre p post -> -> ->. unfold slice.
  assert (E1 : (length pre <=? length pre + length p) = true) by (apply Nat.leb_le; lia).
  assert (E2 : (length pre + length p <=? length (pre ++ p ++ post)) = true)
    by (apply Nat.leb_le; rewrite !app_length; lia).
  rewrite E1, E2. cbn [andb]. f_equal.
  rewrite skipn_app, skipn_all, Nat.sub_diag. cbn [skipn app].
  replace (length pre + length p - length pre) with (length p) by lia.
  rewrite firstn_app, firstn_all, Nat.sub_diag. cbn [firstn]. now rewrite app_nil_r.
Qed.

Lemma fields_of_cols : forall c0 c1 c2 c3 c4 c5 c6 c7 s,
  fields_of (concat [c0; c1; c2; c3; c4; c5; c6; c7] ++ s) (cum 0 [c0; c1; c2; c3; c4; c5; c6; c7]) =
  Some {| lf_chrom := c0; lf_pos := c1; lf_ids := c2; lf_ref := c3; lf_alts := c4; lf_qual := c5;
          lf_filters := c6; lf_info := c7; lf_samples := s |}.
Proof.
  intros. unfold fields_of, bound. cbn [cum nth concat].
  rewrite (slice_eq _ _ _ [] c0 (c1 ++ c2 ++ c3 ++ c4 ++ c5 ++ c6 ++ c7 ++ s))
    by (cbn [length app]; repeat rewrite <- app_assoc; reflexivity || lia).
  rewrite (slice_eq _ _ _ c0 c1 (c2 ++ c3 ++ c4 ++ c5 ++ c6 ++ c7 ++ s))
    by (repeat rewrite app_length; cbn [length app]; repeat rewrite <- app_assoc; reflexivity || lia).
  rewrite (slice_eq _ _ _ (c0 ++ c1) c2 (c3 ++ c4 ++ c5 ++ c6 ++ c7 ++ s))
    by (repeat rewrite app_length; cbn [length app]; repeat rewrite <- app_assoc; reflexivity || lia).
  rewrite (slice_eq _ _ _ (c0 ++ c1 ++ c2) c3 (c4 ++ c5 ++ c6 ++ c7 ++ s))
    by (repeat rewrite app_length; cbn [length app]; repeat rewrite <- app_assoc; reflexivity || lia).
  rewrite (slice_eq _ _ _ (c0 ++ c1 ++ c2 ++ c3) c4 (c5 ++ c6 ++ c7 ++ s))
    by (repeat rewrite app_length; cbn [length app]; repeat rewrite <- app_assoc; reflexivity || lia).
  rewrite (slice_eq _ _ _ (c0 ++ c1 ++ c2 ++ c3 ++ c4) c5 (c6 ++ c7 ++ s))
    by (repeat rewrite app_length; cbn [length app]; repeat rewrite <- app_assoc; reflexivity || lia).
  rewrite (slice_eq _ _ _ (c0 ++ c1 ++ c2 ++ c3 ++ c4 ++ c5) c6 (c7 ++ s))
    by (repeat rewrite app_length; cbn [length app]; repeat rewrite <- app_assoc; reflexivity || lia).
  rewrite (slice_eq _ _ _ (c0 ++ c1 ++ c2 ++ c3 ++ c4 ++ c5 ++ c6) c7 s)
    by (repeat rewrite app_length; cbn [length app]; repeat rewrite <- app_assoc; reflexivity || lia).
  unfold slice_from.
  assert (E : (0 + length c0 + length c1 + length c2 + length c3 + length c4 + length c5 + length c6 + length c7
               <=? length ((c0 ++ c1 ++ c2 ++ c3 ++ c4 ++ c5 ++ c6 ++ c7 ++ []) ++ s)) = true)
    by (apply Nat.leb_le; repeat rewrite app_length; cbn [length]; lia).
  rewrite E.
  replace (0 + length c0 + length c1 + length c2 + length c3 + length c4 + length c5 + length c6 + length c7)
    with (length (c0 ++ c1 ++ c2 ++ c3 ++ c4 ++ c5 ++ c6 ++ c7 ++ []) + 0)
    by (repeat rewrite app_length; cbn [length]; lia).
  rewrite skipn_app, skipn_all2 by lia.
  replace (length _ + 0 - length _) with 0 by lia. reflexivity.
Qed.

Lemma cum_app : forall ps qs b, cum b (ps ++ qs) = cum b ps ++ cum (b + length (concat ps)) qs.
Proof.
  induction ps as [|p ps IH]; intros qs b; cbn [app cum concat length].
  - now rewrite Nat.add_0_r.
  - rewrite IH. rewrite app_length. now rewrite Nat.add_assoc.
Qed.

Lemma fields_of_pre : forall c0 c1 c2 c3 c4 c5 c6 c7 s,
  fields_of ((concat [c0; c1; c2; c3; c4; c5; c6] ++ c7) ++ s)
            (cum 0 [c0; c1; c2; c3; c4; c5; c6] ++ [length (concat [c0; c1; c2; c3; c4; c5; c6] ++ c7)]) =
  Some {| lf_chrom := c0; lf_pos := c1; lf_ids := c2; lf_ref := c3; lf_alts := c4; lf_qual := c5;
          lf_filters := c6; lf_info := c7; lf_samples := s |}.
Proof.
  intros. rewrite <- fields_of_cols. f_equal.
  - cbn [concat]. repeat rewrite <- app_assoc. cbn [app]. reflexivity.
  - change [c0; c1; c2; c3; c4; c5; c6; c7] with ([c0; c1; c2; c3; c4; c5; c6] ++ [c7]).
    rewrite cum_app. cbn [cum]. rewrite app_length. reflexivity.
Qed.

(* ONE WELL-FRAMED LINE through the bounds-level reader *)
Theorem lazy_run_line : forall valid prs h c0 c1 c2 c3 c4 c5 c6 c7 more rest,
  let cs := c0 :: c1 :: c2 :: c3 :: c4 :: c5 :: c6 :: c7 :: more in
  Forall clean cs ->
  (forall s, (forall b, In b s -> In b (join 9%N cs ++ [10%N])) -> valid s = true) ->
  exists f,
    lazy_run prs valid h (join 9%N cs ++ 10%N :: rest) =
      LRec (S (length (join 9%N cs))) f (read_lazy prs h (join 9%N cs)) rest /\
    lf_chrom f = c0 /\ lf_pos f = c1 /\ lf_ids f = c2 /\ lf_ref f = c3 /\ lf_alts f = c4 /\
    lf_qual f = c5 /\ lf_filters f = c6 /\ lf_info f = c7 /\ lf_samples f = join 9%N more.
Proof.
  intros valid prs h c0 c1 c2 c3 c4 c5 c6 c7 more rest cs Hc Hval.
  assert (Hcol : forall p, In p cs -> valid p = true).
  { intros p Hp. apply Hval. intros b Hb. apply in_or_app. left.
    clear - Hp Hb. induction cs as [|q r IH]; [destruct Hp|].
    destruct r as [|q2 r2].
    - destruct Hp as [<-|[]]. exact Hb.
    - rewrite join_cons2. apply in_or_app. destruct Hp as [<-|Hp]; [now left|].
      right. right. exact (IH Hp). }
  assert (Hsplit : split_all 9%N (join 9%N cs) = cs).
  { apply split_all_join; [discriminate|]. eapply Forall_impl; [|exact Hc]. intros p (A & _). exact A. }
  (* the seven required fields *)
  pose (pre := [c0; c1; c2; c3; c4; c5; c6]).
  pose proof (proj1 (Forall_forall _ _) Hc) as Hcl.
  assert (Hpre : Forall clean pre) by (apply Forall_forall; intros p Hp; apply Hcl; subst cs pre; cbn in Hp |- *; tauto).
  destruct (rd_required_cols valid pre (c7 :: more) (10%N :: rest) [] [] 0 ltac:(discriminate) Hpre
              ltac:(intros p Hp; apply Hcol; subst cs pre; cbn in Hp |- *; tauto)) as (n7 & E7).
  assert (Hc7 : clean c7) by (apply Hcl; subst cs; cbn; tauto).
  assert (Hv7 : valid c7 = true) by (apply Hcol; subst cs; cbn; tauto).
  assert (Hmore : Forall clean more) by (apply Forall_forall; intros p Hp; apply Hcl; subst cs; cbn; tauto).
  assert (Hrun : exists n f, lazy_run prs valid h (join 9%N cs ++ 10%N :: rest) =
                   LRec (S n) f (view_ps prs h (pieces_of f)) rest /\
                 f = {| lf_chrom := c0; lf_pos := c1; lf_ids := c2; lf_ref := c3; lf_alts := c4; lf_qual := c5;
                        lf_filters := c6; lf_info := c7; lf_samples := join 9%N more |}).
  { unfold lazy_run, rd_record.
    change (join 9%N cs ++ 10%N :: rest) with (line_text (pre ++ c7 :: more) (10%N :: rest)).
    change 7 with (length pre). rewrite E7. cbn [app length].
    destruct more as [|m ms].
    - (* INFO ends the line *)
      unfold line_text. cbn [join]. rewrite (rd_field_lf valid c7 rest _ Hc7 Hv7).
      replace (fields_of (concat pre ++ c7)) with (fields_of ((concat pre ++ c7) ++ [])) by (now rewrite app_nil_r).
      subst pre. rewrite fields_of_pre.
      destruct (n7 + (length c7 + 1)) as [|k] eqn:En; [lia|].
      eexists; eexists; split; reflexivity.
    - rewrite line_text_cons2. rewrite (rd_field_tab valid c7 _ _ Hc7 Hv7).
      unfold rd_tail, line_raw, line_text.
      assert (H10 : ~ In 10%N (join 9%N (m :: ms))).
      { intro X. destruct (In_join _ _ _ X) as [Y|(p & Hp & Hb)]; [discriminate|].
        rewrite Forall_forall in Hmore. destruct (Hmore p Hp) as (_ & B & _). contradiction. }
      assert (H13 : ~ In 13%N (join 9%N (m :: ms))).
      { intro X. destruct (In_join _ _ _ X) as [Y|(p & Hp & Hb)]; [discriminate|].
        rewrite Forall_forall in Hmore. destruct (Hmore p Hp) as (_ & _ & B). contradiction. }
      rewrite (take_until_app 10%N _ rest H10).
      replace (mem 10%N (join 9%N (m :: ms) ++ 10%N :: rest)) with true
        by (symmetry; apply mem_In; apply in_or_app; right; now left).
      rewrite Hval.
      2:{ intros b Hb. apply in_app_or in Hb. destruct Hb as [Hb|Hb]; [|apply in_or_app; right; exact Hb].
          apply in_or_app. left. subst cs.
          repeat (rewrite join_cons2; apply in_or_app; right; right). exact Hb. }
      rewrite (strip_cr_no13 _ H13).
      replace (skipn (length (join 9%N (m :: ms)) + 1) (join 9%N (m :: ms) ++ 10%N :: rest)) with rest.
      2:{ rewrite skipn_app. rewrite skipn_all2 by lia.
          replace (length (join 9%N (m :: ms)) + 1 - length (join 9%N (m :: ms))) with 1 by lia. reflexivity. }
      subst pre. rewrite fields_of_pre.
      destruct (n7 + (length c7 + 1) + (length (join 9%N (m :: ms)) + 1)) as [|k] eqn:En; [lia|].
      eexists; eexists; split; reflexivity. }
  destruct Hrun as (n & f & Erun & Ef).
  exists f. split.
  - (* the count from the bounds theorem, the views from the pieces *)
    assert (Hn : S n = S (length (join 9%N cs))).
    { unfold lazy_run in Erun.
      destruct (rd_record valid (join 9%N cs ++ 10%N :: rest)) as [|n0 buf ends rest0] eqn:Er; [discriminate|].
      destruct (rd_record_bounds valid _ _ _ _ _ Er) as (_ & _ & L).
      destruct n0; [discriminate|]. destruct (fields_of buf ends); [|discriminate].
      inversion Erun; subst. rewrite app_length in L. cbn [length] in L. lia. }
    rewrite Erun, Hn. f_equal.
    unfold read_lazy. rewrite Hsplit.
    replace (length cs <? 8) with false by (symmetry; apply Nat.ltb_ge; subst cs; cbn [length]; lia).
    subst f. unfold pieces_of. cbn [lf_chrom lf_pos lf_ids lf_ref lf_alts lf_qual lf_filters lf_info lf_samples].
    destruct more as [|m ms].
    + subst cs. reflexivity.
    + rewrite split_all_join; [subst cs; reflexivity|discriminate|].
      eapply Forall_impl; [|exact Hmore]. intros p (A & _). exact A.
  - subst f. repeat split.
Qed.

Lemma split_all_spec : forall sep s,
  split_all sep s <> [] /\ join sep (split_all sep s) = s /\
  Forall (fun p => ~ In sep p /\ forall b, In b p -> In b s) (split_all sep s).
Proof.
  intros sep. induction s as [|b t IH]; cbn [split_all].
  - split; [discriminate|]. split; [reflexivity|]. constructor; [|constructor]. split; [intros []|intros b []].
  - destruct IH as (Hne & Hj & Hf).
    assert (Hw : Forall (fun p => ~ In sep p /\ forall x, In x p -> In x (b :: t)) (split_all sep t)).
    { eapply Forall_impl; [|exact Hf]. intros p (A & B). split; [exact A|]. intros x Hx. right. exact (B x Hx). }
    destruct (b =? sep)%N eqn:E.
    + apply N.eqb_eq in E. subst b. split; [discriminate|]. split.
      * destruct (split_all sep t) as [|p ps] eqn:Es; [contradiction|].
        rewrite join_cons2. cbn [app]. now rewrite Hj.
      * constructor; [|exact Hw]. split; [intros []|intros x []].
    + apply N.eqb_neq in E. destruct (split_all sep t) as [|p ps] eqn:Es; [contradiction|].
      split; [discriminate|]. split.
      * rewrite <- Hj. destruct ps as [|q r]; [reflexivity|]. now rewrite !join_cons2.
      * inversion Hw as [|? ? (A & B) Hw']; subst. constructor; [|exact Hw'].
        split.
        -- intros [X|X]; [now apply E|contradiction].
        -- intros x [<-|Hx]; [now left|]. exact (B x Hx).
Qed.

(* a line with at least eight columns and no LF / CR, followed by LF and anything *)
Theorem lazy_run_framed : forall valid prs h t rest,
  ~ In 10%N t -> ~ In 13%N t -> 8 <= length (split_all 9%N t) ->
  (forall s, (forall b, In b s -> In b (t ++ [10%N])) -> valid s = true) ->
  exists f, lazy_run prs valid h (t ++ 10%N :: rest) = LRec (S (length t)) f (read_lazy prs h t) rest.
Proof.
  intros valid prs h t rest H10 H13 H8 Hval.
  destruct (split_all_spec 9%N t) as (_ & Hj & Hf).
  destruct (split_all 9%N t) as [|c0 [|c1 [|c2 [|c3 [|c4 [|c5 [|c6 [|c7 more]]]]]]]] eqn:Es;
    try (cbn [length] in H8; lia).
  assert (Hc : Forall clean (c0 :: c1 :: c2 :: c3 :: c4 :: c5 :: c6 :: c7 :: more)).
  { eapply Forall_impl; [|exact Hf]. intros p (A & B). split; [exact A|].
    split; intro X; [apply H10|apply H13]; exact (B _ X). }
  rewrite <- Hj in Hval.
  destruct (lazy_run_line valid prs h c0 c1 c2 c3 c4 c5 c6 c7 more rest Hc Hval) as (f & E & _).
  exists f. rewrite <- Hj. exact E.
Qed.

(* what a caller keeps of each call *)
Definition lres_view (x : lres) : option (option vrec) :=
  match x with LRec _ _ r _ => Some r | _ => None end.

Lemma rd_field_nil : forall valid dst, valid [] = true -> rd_field valid [] dst = FOk dst 0 false [].
Proof.
  intros valid dst Hv. unfold rd_field. cbn [scan_fld]. rewrite Hv. cbn [andb length Nat.add].
  now rewrite app_nil_r.
Qed.

Lemma lazy_run_nil : forall valid prs h, valid [] = true -> lazy_run prs valid h [] = LEof.
Proof.
  intros valid prs h Hv. unfold lazy_run, rd_record. cbn [rd_required].
  repeat (rewrite (rd_field_nil valid _ Hv); cbn [rd_required]).
  unfold rd_tail, line_raw. cbn [take_until mem length]. rewrite Hv. reflexivity.
Qed.

(* A WHOLE FILE of well-framed lines through one lazy Record: every line is returned as
   NV.Vcf.Line.read_lazy of it, then Ok(0) *)
Theorem lazy_records_framed : forall valid prs h ts,
  Forall (fun t => ~ In 10%N t /\ ~ In 13%N t /\ 8 <= length (split_all 9%N t)) ts ->
  (forall s, (forall b, In b s -> b = 10%N \/ exists t, In t ts /\ In b t) -> valid s = true) ->
  exists l, lazy_records prs valid h (concat (map (fun t => t ++ [10%N]) ts)) = l ++ [LEof] /\
            map lres_view l = map (fun t => Some (read_lazy prs h t)) ts.
Proof.
  intros valid prs h ts Hts Hval. unfold lazy_records.
  assert (G : forall fuel, length (concat (map (fun t => t ++ [10%N]) ts)) < fuel ->
              exists l, lazy_file prs fuel valid h (concat (map (fun t => t ++ [10%N]) ts)) = l ++ [LEof] /\
                        map lres_view l = map (fun t => Some (read_lazy prs h t)) ts).
  2:{ apply G. lia. }
  induction ts as [|t ts IH]; intros fuel Hfuel.
  - destruct fuel as [|k]; [lia|]. cbn [map concat lazy_file].
    rewrite lazy_run_nil by (apply Hval; intros b []). exists []. split; reflexivity.
  - inversion Hts as [|? ? (H10 & H13 & H8) Hts']; subst.
    destruct fuel as [|k]; [lia|]. cbn [map concat lazy_file].
    rewrite <- app_assoc. cbn [app].
    destruct (lazy_run_framed valid prs h t (concat (map (fun t0 => t0 ++ [10%N]) ts)) H10 H13 H8) as (f & E).
    { intros s Hs. apply Hval. intros b Hb. specialize (Hs b Hb). apply in_app_or in Hs.
      destruct Hs as [Hs|[Hs|[]]]; [right; exists t; split; [now left|exact Hs]|now left]. }
    rewrite E.
    destruct (IH Hts') with (fuel := k) as (l & El & Em).
    { intros s Hs. apply Hval. intros b Hb. destruct (Hs b Hb) as [X|(t' & Ht' & Hb')]; [now left|].
      right. exists t'. split; [now right|exact Hb']. }
    { cbn [map concat] in Hfuel. rewrite app_length, app_length in Hfuel. cbn [length] in Hfuel. lia. }
    exists (LRec (S (length t)) f (read_lazy prs h t) (concat (map (fun t0 => t0 ++ [10%N]) ts)) :: l).
    split; [rewrite El; reflexivity|]. cbn [map lres_view]. now rewrite Em.
Qed.

Lemma read_lazy_some_cols : forall prs h t r, read_lazy prs h t = Some r -> 8 <= length (split_all 9%N t).
Proof.
  intros prs h t r H. unfold read_lazy in H.
  destruct (length (split_all 9%N t) <? 8) eqn:E; [discriminate|]. apply Nat.ltb_ge in E. exact E.
Qed.

(* THE FILE THEOREM for the lazy reader: records written line by line (each line + LF) and read
   back through ONE lazy Record at the level of buffer and bounds *)
Section File.
Variable fmt_float : N -> list N.
Variable prs_float : list N -> option N.
Variable FOK : N -> Prop.
Hypothesis float_rt : forall b, FOK b -> prs_float (fmt_float b) = Some b.
Hypothesis float_chars : forall b x, FOK b -> In x (fmt_float b) ->
  (x <> 44 /\ x <> 9 /\ x <> 10 /\ x <> 59 /\ x <> 58)%N.
Hypothesis float_not_dot : forall b, FOK b -> fmt_float b <> dot.
Hypothesis float_nonempty : forall b, FOK b -> fmt_float b <> [].
Hypothesis float_cr : forall b x, FOK b -> In x (fmt_float b) -> x <> 13%N.

Lemma float_eol : forall b x, FOK b -> In x (fmt_float b) -> (x <> 10 /\ x <> 13)%N.
Proof.
  intros b x Hb Hx. split; [|exact (float_cr b x Hb Hx)].
  destruct (float_chars b x Hb Hx) as (_ & _ & A & _). exact A.
Qed.

Theorem lazy_file_roundtrip : forall valid h rs ts,
  Forall2 (fun r t => rec_ok fmt_float FOK h r /\ write_line fmt_float h r = Some t) rs ts ->
  (forall s, (forall b, In b s -> b = 10%N \/ exists t, In t ts /\ In b t) -> valid s = true) ->
  exists l, lazy_records prs_float valid h (concat (map (fun t => t ++ [10%N]) ts)) = l ++ [LEof] /\
            map lres_view l = map (fun r => Some (Some (canon h r))) rs.
Proof.
  intros valid h rs ts H2 Hval.
  assert (Hts : Forall (fun t => ~ In 10%N t /\ ~ In 13%N t /\ 8 <= length (split_all 9%N t)) ts /\
                map (fun t => Some (read_lazy prs_float h t)) ts =
                map (fun r => Some (Some (canon h r))) rs).
  { clear Hval. induction H2 as [|r t rs ts (Hok & Hw) _ IH]; [split; [constructor|reflexivity]|].
    destruct IH as (A & B).
    destruct (line_roundtrip fmt_float prs_float FOK float_rt float_chars float_not_dot float_nonempty h r t Hok Hw)
      as (_ & Hl & _).
    split.
    - constructor; [|exact A]. split; [|split].
      + apply (written_line_no_eol fmt_float FOK float_eol h r t 10%N Hok Hw). now left.
      + apply (written_line_no_eol fmt_float FOK float_eol h r t 13%N Hok Hw). now right.
      + exact (read_lazy_some_cols _ _ _ _ Hl).
    - cbn [map]. now rewrite Hl, B. }
  destruct Hts as (A & B).
  destruct (lazy_records_framed valid prs_float h ts A Hval) as (l & El & Em).
  exists l. split; [exact El|]. now rewrite Em.
Qed.

End File.
